import LopdfModel.Thm.C10Iso
/-
  C10 — property theorems, part 3: the renaming of `renumber_objects_with`, explicitly (`renumber_spec`): what the
  page-order pass does to the pages, and that the dense pass hands `start + k` to the k-th id — so the order of
  ids is preserved and pages end up with ascending numbers in page order.
-/
namespace Lopdf.Ren
open Lopdf

/-! ### sorting toolkit -/

theorem mem_insertBy {α} (le : α → α → Bool) (x : α) (l : List α) (z : α) : z ∈ insertBy le x l ↔ z = x ∨ z ∈ l := by
  rw [(insertBy_perm le x l).mem_iff]; simp

theorem insertBy_pairwise {α} (le : α → α → Bool) (htot : ∀ a b, le a b = false → le b a = true)
    (htr : ∀ a b c, le a b = true → le b c = true → le a c = true) (x : α) :
    ∀ l : List α, l.Pairwise (fun a b => le a b = true) → (insertBy le x l).Pairwise (fun a b => le a b = true)
  | [], _ => by simp [insertBy]
  | y :: ys, h => by
    simp only [insertBy]
    have hy := List.pairwise_cons.mp h
    split
    · rename_i hxy
      refine List.pairwise_cons.mpr ⟨?_, h⟩
      intro z hz
      rcases List.mem_cons.mp hz with rfl | hz
      · exact hxy
      · exact htr _ _ _ hxy (hy.1 z hz)
    · rename_i hxy
      refine List.pairwise_cons.mpr ⟨?_, insertBy_pairwise le htot htr x ys hy.2⟩
      intro z hz
      rcases (mem_insertBy le x ys z).mp hz with rfl | hz
      · exact htot _ _ (by simpa using hxy)
      · exact hy.1 z hz

theorem sortBy_pairwise {α} (le : α → α → Bool) (htot : ∀ a b, le a b = false → le b a = true)
    (htr : ∀ a b c, le a b = true → le b c = true → le a c = true) :
    ∀ l : List α, (sortBy le l).Pairwise (fun a b => le a b = true)
  | [] => by simp [sortBy]
  | x :: xs => by
    have := sortBy_pairwise le htot htr xs
    unfold sortBy at this ⊢
    simp only [List.foldr_cons]
    exact insertBy_pairwise le htot htr x _ this

/-- a list sorted by `le` is left alone -/
theorem sortBy_of_pairwise {α} (le : α → α → Bool) : ∀ l : List α, l.Pairwise (fun a b => le a b = true) → sortBy le l = l
  | [], _ => rfl
  | x :: xs, h => by
    have hx := List.pairwise_cons.mp h
    have ih := sortBy_of_pairwise le xs hx.2
    unfold sortBy at ih ⊢
    simp only [List.foldr_cons, ih]
    cases xs with
    | nil => rfl
    | cons y ys => simp [insertBy, hx.1 y List.mem_cons_self]

/-- two sorted arrangements of the same elements agree (the order is antisymmetric on them) -/
theorem sorted_perm_unique {α} (le : α → α → Bool) : ∀ (l1 l2 : List α), l1.Perm l2 →
    l1.Pairwise (fun a b => le a b = true) → l2.Pairwise (fun a b => le a b = true) →
    (∀ a ∈ l1, ∀ b ∈ l1, le a b = true → le b a = true → a = b) → l1 = l2
  | [], l2, hp, _, _, _ => by rw [List.nil_perm.mp hp]
  | x :: xs, [], hp, _, _, _ => by have := hp.length_eq; simp at this
  | x :: xs, y :: ys, hp, h1, h2, ha => by
    have h1' := List.pairwise_cons.mp h1
    have h2' := List.pairwise_cons.mp h2
    have hxy : x = y := by
      have hx : x ∈ y :: ys := hp.mem_iff.mp List.mem_cons_self
      have hy : y ∈ x :: xs := hp.mem_iff.mpr List.mem_cons_self
      rcases List.mem_cons.mp hx with e | hx
      · exact e
      · rcases List.mem_cons.mp hy with e | hy
        · exact e.symm
        · exact ha x List.mem_cons_self y (List.mem_cons_of_mem _ hy) (h1'.1 y hy) (h2'.1 x hx)
    subst hxy
    have := sorted_perm_unique le xs ys (List.Perm.cons_inv hp) h1'.2 h2'.2
      (fun a ha' b hb' => ha a (List.mem_cons_of_mem _ ha') b (List.mem_cons_of_mem _ hb'))
    rw [this]

theorem map_insertBy {α β} (f : α → β) (le : β → β → Bool) (x : α) : ∀ l : List α,
    (insertBy (fun a b => le (f a) (f b)) x l).map f = insertBy le (f x) (l.map f)
  | [] => rfl
  | y :: ys => by
    simp only [insertBy, List.map_cons]
    split
    · simp
    · simp [map_insertBy f le x ys]

/-- sorting by a key commutes with taking the key -/
theorem map_sortBy {α β} (f : α → β) (le : β → β → Bool) : ∀ l : List α,
    (sortBy (fun a b => le (f a) (f b)) l).map f = sortBy le (l.map f)
  | [] => rfl
  | x :: xs => by
    have ih := map_sortBy f le xs
    unfold sortBy at ih ⊢
    simp only [List.foldr_cons, List.map_cons]
    rw [map_insertBy, ih]

theorem idLeE_total (a b : ObjId) (h : idLeE a b = false) : idLeE b a = true := by
  unfold idLeE at *
  simp only [Bool.not_eq_false'] at h
  cases hh : idLt a b with
  | false => rfl
  | true =>
    have h1 := (idLt_iff b a).mp h
    have h2 := (idLt_iff a b).mp hh
    omega

theorem idLeE_trans (a b c : ObjId) (h1 : idLeE a b = true) (h2 : idLeE b c = true) : idLeE a c = true := by
  unfold idLeE at *
  simp only [Bool.not_eq_true'] at *
  cases hh : idLt c a with
  | false => rfl
  | true =>
    have e1 := (idLt_iff c a).mp hh
    have n1 : ¬ (b.1 < a.1 ∨ (b.1 = a.1 ∧ b.2 < a.2)) := fun e => by rw [(idLt_iff b a).mpr e] at h1; cases h1
    have n2 : ¬ (c.1 < b.1 ∨ (c.1 = b.1 ∧ c.2 < b.2)) := fun e => by rw [(idLt_iff c b).mpr e] at h2; cases h2
    omega

theorem idLeE_antisymm (a b : ObjId) (h1 : idLeE a b = true) (h2 : idLeE b a = true) : a = b := by
  unfold idLeE at *
  simp only [Bool.not_eq_true'] at *
  have n1 : ¬ (b.1 < a.1 ∨ (b.1 = a.1 ∧ b.2 < a.2)) := fun e => by rw [(idLt_iff b a).mpr e] at h1; cases h1
  have n2 : ¬ (a.1 < b.1 ∨ (a.1 = b.1 ∧ a.2 < b.2)) := fun e => by rw [(idLt_iff a b).mpr e] at h2; cases h2
  exact Prod.ext (by omega) (by omega)

/-! ### the page-order pass, explicitly -/

/-- the page-order renaming: the j-th page (in page order) takes the NUMBER of the j-th smallest page id and
keeps its own generation -/
def pageSpec (P : List ObjId) : List (ObjId × ObjId) :=
  (P.zip (sortBy idLeE P)).map (fun x => (x.1, (x.2.1, x.1.2)))

/-- `page_iter().enumerate()` with page numbers from 1 -/
def enumPages (P : List ObjId) : List (Nat × ObjId) :=
  ((List.range P.length).zip P).map (fun (p : Nat × ObjId) => (p.1 + 1, p.2))

theorem enumPages_snd (P : List ObjId) : (enumPages P).map (·.2) = P := enum_map_snd P

theorem enumPages_fst (P : List ObjId) : (enumPages P).map (·.1) = (List.range P.length).map (· + 1) := by
  unfold enumPages
  rw [List.map_map]
  have : ((fun (x : Nat × ObjId) => x.1) ∘ fun (p : Nat × ObjId) => (p.1 + 1, p.2)) = (· + 1) ∘ Prod.fst := by funext p; rfl
  rw [this, ← List.map_map, List.map_fst_zip (by simp)]

theorem range_succ_pairwise (n : Nat) : ((List.range n).map (· + 1)).Pairwise (· < ·) := by
  rw [List.pairwise_map]
  exact List.Pairwise.imp (fun h => by omega) List.pairwise_lt_range

theorem enumPages_sorted (P : List ObjId) : (enumPages P).Pairwise (fun a b => decide (a.1 ≤ b.1) = true) := by
  have := range_succ_pairwise P.length
  rw [← enumPages_fst, List.pairwise_map] at this
  exact List.Pairwise.imp (fun h => by simp; omega) this

theorem enumPages_fst_nodup (P : List ObjId) : ((enumPages P).map (·.1)).Nodup := by
  rw [enumPages_fst]
  exact List.Pairwise.imp (fun h => by omega) (range_succ_pairwise P.length)

theorem leIdx_total (a b : Nat × ObjId) (h : decide (a.1 ≤ b.1) = false) : decide (b.1 ≤ a.1) = true := by
  simp at h ⊢; omega
theorem leIdx_trans (a b c : Nat × ObjId) (h1 : decide (a.1 ≤ b.1) = true) (h2 : decide (b.1 ≤ c.1) = true) :
    decide (a.1 ≤ c.1) = true := by simp at *; omega

/-- re-sorting any arrangement of the enumerated pages by page number gives the enumeration back -/
theorem resort_enum (P : List ObjId) (l : List (Nat × ObjId)) (hp : l.Perm (enumPages P)) :
    sortBy (fun (a b : Nat × ObjId) => decide (a.1 ≤ b.1)) l = enumPages P := by
  apply sorted_perm_unique (fun (a b : Nat × ObjId) => decide (a.1 ≤ b.1)) _ _ ((sortBy_perm _ l).trans hp)
    (sortBy_pairwise _ leIdx_total leIdx_trans l) (enumPages_sorted P)
  intro a ha b hb h1 h2
  have ha' : a ∈ enumPages P := hp.mem_iff.mp ((sortBy_perm _ l).mem_iff.mp ha)
  have hb' : b ∈ enumPages P := hp.mem_iff.mp ((sortBy_perm _ l).mem_iff.mp hb)
  apply inj_of_nodup_map (fun (x : Nat × ObjId) => x.1) (enumPages P) (enumPages_fst_nodup P) a ha' b hb'
  simp at h1 h2; omega

theorem pageSpec_of (P : List ObjId) (sorted : List (Nat × ObjId))
    (hs : sorted = sortBy (fun (a b : Nat × ObjId) => idLeE a.2 b.2) (enumPages P)) :
    ((enumPages P).zip sorted).map (fun (x : (Nat × ObjId) × (Nat × ObjId)) => (x.1.2, (x.2.2.1, x.1.2.2))) = pageSpec P := by
  have h2 : sorted.map (·.2) = sortBy idLeE P := by
    rw [hs, map_sortBy (fun (x : Nat × ObjId) => x.2) idLeE, enumPages_snd]
  unfold pageSpec
  rw [← h2]
  conv => rhs; rw [← enumPages_snd P]
  rw [List.zip_map, List.map_map]
  rfl

/-- when the pass runs, its pairs are `pageSpec` -/
theorem pagePairs_some (P : List ObjId) (pairs : List (ObjId × ObjId)) (hp : pagePairs P = some pairs) :
    pairs = pageSpec P := by
  unfold pagePairs at hp
  simp only at hp
  split at hp
  · have e := Option.some.inj hp
    rw [← e]
    have hre := resort_enum P (sortBy (fun (a b : Nat × ObjId) => idLeE a.2 b.2) (enumPages P)) (sortBy_perm _ _)
    unfold enumPages at hre
    rw [hre]
    exact pageSpec_of P _ rfl
  · cases hp

/-- when it does not run, the pages are in id order already — `pageSpec` is the identity -/
theorem pagePairs_none (P : List ObjId) (hp : pagePairs P = none) : sortBy idLeE P = P := by
  unfold pagePairs at hp
  simp only at hp
  split at hp
  · cases hp
  · rename_i hneeds
    have hfalse := Bool.eq_false_iff.mpr hneeds
    rw [List.any_eq_false] at hfalse
    generalize hso : sortBy (fun (a b : Nat × ObjId) => idLeE a.2 b.2)
      (((List.range P.length).zip P).map (fun (p : Nat × ObjId) => (p.1 + 1, p.2))) = sorted at hfalse
    have hperm : sorted.Perm (enumPages P) := by rw [← hso]; exact sortBy_perm _ _
    have hlen : sorted.length = P.length := by rw [hperm.length_eq]; simp [enumPages]
    -- the indices of `sorted` are 1, 2, …
    have hfst : sorted.map (·.1) = (List.range P.length).map (· + 1) := by
      apply List.ext_getElem (by simp [hlen])
      intro j h1 h2
      simp only [List.getElem_map, List.getElem_range]
      have hj : j < sorted.length := by simpa using h1
      have hm : (j, sorted[j]) ∈ (List.range sorted.length).zip sorted := by
        have : ((List.range sorted.length).zip sorted)[j]'(by simp [hj]) = (j, sorted[j]) := by simp
        rw [← this]; exact List.getElem_mem _
      have := hfalse _ hm
      simpa using this
    have hsorted : sorted.Pairwise (fun a b => decide (a.1 ≤ b.1) = true) := by
      have := range_succ_pairwise P.length
      rw [← hfst, List.pairwise_map] at this
      exact List.Pairwise.imp (fun h => by simp; omega) this
    have heq : sorted = enumPages P := by
      apply sorted_perm_unique (fun (a b : Nat × ObjId) => decide (a.1 ≤ b.1)) _ _ hperm hsorted (enumPages_sorted P)
      intro a ha b hb h1 h2
      apply inj_of_nodup_map (fun (x : Nat × ObjId) => x.1) (enumPages P) (enumPages_fst_nodup P) a (hperm.mem_iff.mp ha) b (hperm.mem_iff.mp hb)
      simp at h1 h2; omega
    have h2 : sorted.map (·.2) = sortBy idLeE P := by
      rw [← hso]
      have := map_sortBy (fun (x : Nat × ObjId) => x.2) idLeE (enumPages P)
      unfold enumPages at this
      rw [this]
      have := enumPages_snd P
      unfold enumPages at this
      rw [this]
    rw [← h2, heq, enumPages_snd]

/-! ### `renumber_spec` -/

/-- the pages as the page-order pass takes them: in page order, each once -/
def pagesOf (d : Doc) : List ObjId := firstOcc (pageIter d.trailer d.objects)

/-- renaming of the page-order pass -/
def pageRho (d : Doc) : ObjId → ObjId := rhoFn (pageSpec (pagesOf d))

/-- the ids after the page-order pass, sorted -/
def midKeys (d : Doc) : List ObjId := sortBy idLeE (pagePass d).objects.keys

/-- renaming of the dense pass -/
def denseRho (d : Doc) (start : Nat) : ObjId → ObjId := rhoFn (denseSpec (midKeys d) start)

theorem zip_self_mem {α} : ∀ (l : List α) (x : α × α), x ∈ l.zip l → x.1 = x.2
  | [], _, h => by cases h
  | a :: l, x, h => by
    simp only [List.zip_cons_cons, List.mem_cons] at h
    rcases h with rfl | h
    · rfl
    · exact zip_self_mem l x h

theorem rhoFn_id_of (m : List (ObjId × ObjId)) (h : ∀ p ∈ m, p.2 = p.1) : rhoFn m = id := by
  funext x
  unfold rhoFn
  cases hl : lookupId m x with
  | none => rfl
  | some v => simp only [Option.getD_some, id]; exact h _ (lookupId_mem m x v hl)

theorem pageSpec_id (P : List ObjId) (h : sortBy idLeE P = P) : rhoFn (pageSpec P) = id := by
  apply rhoFn_id_of
  intro p hp
  unfold pageSpec at hp
  rw [h] at hp
  obtain ⟨x, hx, rfl⟩ := List.mem_map.mp hp
  have := zip_self_mem P x hx
  simp only
  rw [← this]

/-- the page-order pass is an `IsoStep` with the explicit renaming -/
theorem pagePass_isoStep' (d : Doc) (g2 : (d.objects.keys.map (·.1)).Nodup) :
    IsoStep d.trailer d.objects (pagePass d).trailer (pagePass d).objects (pageRho d) := by
  unfold pageRho pagesOf
  cases hp : pagePairs (firstOcc (pageIter d.trailer d.objects)) with
  | none =>
    have : pagePass d = d := by unfold pagePass; rw [hp]
    rw [this, pageSpec_id _ (pagePairs_none _ hp)]; exact isoStep_id _ _
  | some pairs =>
    have hok := pagePairs_passOK d.objects _ pairs hp (firstOcc_nodup _)
      (fun p hp' => pages_are_keys _ _ p (firstOcc_sub _ p hp')) g2
    have := pass_isoStep d.bookmarks d.objects d.bmTable d.trailer pairs hok
    rw [← pagePairs_some _ pairs hp]
    unfold pagePass; rw [hp]; exact this

theorem sortBy_length {α} (le : α → α → Bool) (l : List α) : (sortBy le l).length = l.length := (sortBy_perm le l).length_eq

theorem pageSpec_olds (P : List ObjId) : (pageSpec P).map (·.1) = P := by
  unfold pageSpec
  rw [List.map_map]
  have : ((fun (x : ObjId × ObjId) => x.1) ∘ fun (x : ObjId × ObjId) => (x.1, (x.2.1, x.1.2))) = Prod.fst := by funext x; rfl
  rw [this, List.map_fst_zip (by rw [sortBy_length]; exact Nat.le_refl _)]

/-- the j-th page takes the number of the j-th smallest page id -/
theorem pageRho_page (P : List ObjId) (hn : P.Nodup) (j : Nat) (p q : ObjId) (hp : P[j]? = some p)
    (hq : (sortBy idLeE P)[j]? = some q) : rhoFn (pageSpec P) p = (q.1, p.2) := by
  have hm : (p, (q.1, p.2)) ∈ pageSpec P := by
    unfold pageSpec
    apply List.mem_map.mpr
    refine ⟨(p, q), ?_, rfl⟩
    have : (P.zip (sortBy idLeE P))[j]? = some (p, q) := by simp [List.getElem?_zip_eq_some, hp, hq]
    exact List.mem_of_getElem? this
  exact rho_of_mem (pageSpec P) (by rw [pageSpec_olds]; exact hn) _ hm

theorem assign_getElem? : ∀ (ids : List ObjId) (s k : Nat), (assign ids s)[k]? = (ids[k]?).map (fun x => (x, (s + k, x.2)))
  | [], _, _ => by simp [assign]
  | id :: rest, s, 0 => by simp [assign]
  | id :: rest, s, k + 1 => by
    simp only [assign, List.getElem?_cons_succ]
    rw [assign_getElem? rest (s + 1) k]
    cases rest[k]? <;> simp; omega

theorem idLt_asymm (a b : ObjId) (h : idLt a b = true) : idLt b a = false := by
  cases hh : idLt b a with
  | false => rfl
  | true => have := idLt_trans h hh; rw [idLt_irrefl] at this; cases this

/-- position in a strictly sorted list follows the order -/
theorem index_lt_of_idLt (K : List ObjId) (hs : K.Pairwise (fun a b => idLt a b = true)) (i j : Nat) (x y : ObjId)
    (hi : K[i]? = some x) (hj : K[j]? = some y) (hxy : idLt x y = true) : i < j := by
  rcases Nat.lt_trichotomy i j with h | h | h
  · exact h
  · subst h; rw [hi] at hj; cases hj; rw [idLt_irrefl] at hxy; cases hxy
  · exfalso
    obtain ⟨hj', ej⟩ := List.getElem?_eq_some_iff.mp hj
    obtain ⟨hi', ei⟩ := List.getElem?_eq_some_iff.mp hi
    have := List.pairwise_iff_getElem.mp hs j i hj' hi' h
    rw [ej, ei] at this
    rw [idLt_asymm _ _ this] at hxy; cases hxy

/-- **C10, renumber_spec: the renaming of `renumber_objects_with(start)`, explicitly.**  Hypotheses of
`renumber_iso`.  The call returns `d2`, and with `rho = denseRho ∘ pageRho`:
* (isomorphism) `rho` is one-to-one on the ids in use, the new ids in use are exactly the images, the trailer is
  the original renamed, every object sits at `rho id` (renamed iff it was reachable; no captured dangling
  reference — `NoCap`);
* (page-order pass) the j-th page, in page order, takes the NUMBER of the j-th smallest page id and keeps its
  generation; these numbers ascend strictly; every other id is left alone;
* (dense pass) the ids after the page-order pass, sorted, are `midKeys` — a rearrangement of the original ids
  under `pageRho` — and the k-th of them becomes `(start + k, same generation)`. -/
theorem renumber_spec (d : Doc) (start : Nat) (hs : d.objects.Sorted)
    (g2 : (d.objects.keys.map (·.1)).Nodup)
    (hhi : start + d.objects.length ≤ U32_MAXE + 1) :
    ∃ d2, renumber d start = .ok d2 ∧ d2.maxId = start + d.objects.length - 1 ∧
      (∀ a b, (d.objects.get a).isSome → (d.objects.get b).isSome →
        denseRho d start (pageRho d a) = denseRho d start (pageRho d b) → a = b) ∧
      (∀ q, (d2.objects.get q).isSome ↔ ∃ k, (d.objects.get k).isSome ∧ denseRho d start (pageRho d k) = q) ∧
      d2.trailer = mapRefsD (denseRho d start ∘ pageRho d) d.trailer ∧
      (NoCap d.trailer d.objects (pagePass d).objects → NoCap d.trailer d.objects d2.objects →
        (∀ k o, d.objects.get k = some o →
          (ReachIn d.trailer d.objects k →
            d2.objects.get (denseRho d start (pageRho d k)) = some (mapRefs (denseRho d start ∘ pageRho d) o)) ∧
          (¬ ReachIn d.trailer d.objects k → d2.objects.get (denseRho d start (pageRho d k)) = some o))) ∧
      -- the page-order pass
      (∀ (j : Nat) (p q : ObjId), (pagesOf d)[j]? = some p → (sortBy idLeE (pagesOf d))[j]? = some q → pageRho d p = (q.1, p.2)) ∧
      (∀ (i j : Nat) (qi qj : ObjId), i < j → (sortBy idLeE (pagesOf d))[i]? = some qi → (sortBy idLeE (pagesOf d))[j]? = some qj → qi.1 < qj.1) ∧
      (∀ x, x ∉ pagesOf d → pageRho d x = x) ∧
      -- the dense pass
      (midKeys d).Perm (d.objects.keys.map (pageRho d)) ∧ (midKeys d).Pairwise (fun a b => idLt a b = true) ∧
      (∀ (k : Nat) (x : ObjId), (midKeys d)[k]? = some x → denseRho d start x = (start + k, x.2)) := by
  have h1 := pagePass_isoStep' d g2
  have hs1 := pagePass_sorted d hs
  have hlen := h1.length_eq hs hs1
  obtain ⟨d2, hd2, hmax, h2, hasg⟩ := densePass_isoStep (pagePass d) start hs1 (by rw [hlen]; exact hhi)
  have h2 : IsoStep (pagePass d).trailer (pagePass d).objects d2.trailer d2.objects (denseRho d start) := h2
  have hasg : ∀ p ∈ assign (midKeys d) start, denseRho d start p.1 = p.2 := hasg
  have hmid : midKeys d = (pagePass d).objects.keys := by
    unfold midKeys
    apply sortBy_of_pairwise
    exact List.Pairwise.imp (fun {a b} h => by unfold idLeE; rw [idLt_asymm a b h]; rfl) hs1
  have hPn : (pagesOf d).Nodup := firstOcc_nodup _
  have hPkeys : ∀ p ∈ pagesOf d, p ∈ d.objects.keys := fun p hp =>
    (Objects.mem_keys_iff _ p).mpr (pages_are_keys _ _ p (firstOcc_sub _ p hp))
  refine ⟨d2, hd2, by rw [hmax, hlen], ?_, ?_, ?_, ?_, ?_, ?_, ?_, ?_, ?_, ?_⟩
  · intro a b ha hb e
    have key1 : ∀ k, (d.objects.get k).isSome → ((pagePass d).objects.get (pageRho d k)).isSome :=
      fun k hk => (h1.keys _).mpr ⟨k, hk, rfl⟩
    exact h1.inj a b ha hb (h2.inj _ _ (key1 a ha) (key1 b hb) e)
  · intro q
    rw [h2.keys q]
    constructor
    · rintro ⟨k1, hk1, rfl⟩
      obtain ⟨k, hk, rfl⟩ := (h1.keys k1).mp hk1
      exact ⟨k, hk, rfl⟩
    · rintro ⟨k, hk, rfl⟩
      exact ⟨pageRho d k, (h1.keys _).mpr ⟨k, hk, rfl⟩, rfl⟩
  · rw [h2.trailer, h1.trailer, mapRefsD_comp]
  · intro hc1 hc2
    have := (isoStep_comp h1 h2 hc1 hc2).2.2.2.2.1
    simp only [Function.comp_apply] at this
    exact this
  · intro j p q hp hq
    exact pageRho_page (pagesOf d) hPn j p q hp hq
  · intro i j qi qj hij hi hj
    have hpw := sortBy_pairwise idLeE idLeE_total idLeE_trans (pagesOf d)
    obtain ⟨hj', ej⟩ := List.getElem?_eq_some_iff.mp hj
    obtain ⟨hi', ei⟩ := List.getElem?_eq_some_iff.mp hi
    have hle := List.pairwise_iff_getElem.mp hpw i j hi' hj' hij
    rw [ei, ej] at hle
    -- distinct page numbers
    have hinj := inj_of_nodup_map (fun (k : ObjId) => k.1) d.objects.keys g2
    have hperm := sortBy_perm idLeE (pagesOf d)
    have hqi : qi ∈ pagesOf d := hperm.mem_iff.mp (ei ▸ List.getElem_mem hi')
    have hqj : qj ∈ pagesOf d := hperm.mem_iff.mp (ej ▸ List.getElem_mem hj')
    have hne : qi ≠ qj := by
      intro e
      have hnd : (sortBy idLeE (pagesOf d)).Nodup := hperm.nodup_iff.mpr hPn
      have := List.pairwise_iff_getElem.mp hnd i j hi' hj' hij
      rw [ei, ej] at this
      exact this e
    have hnum : qi.1 ≠ qj.1 := fun e => hne (hinj qi (hPkeys qi hqi) qj (hPkeys qj hqj) e)
    unfold idLeE at hle
    simp only [Bool.not_eq_true'] at hle
    have n1 : ¬ (qj.1 < qi.1 ∨ (qj.1 = qi.1 ∧ qj.2 < qi.2)) := fun e => by rw [(idLt_iff qj qi).mpr e] at hle; cases hle
    omega
  · intro x hx
    exact rho_fix_of_not_old _ x (by rw [pageSpec_olds]; exact hx)
  · rw [hmid]
    apply perm_of_nodup_mem_iff (Objects.sorted_nodup _ hs1)
    · exact nodup_map_of_inj _ _ (Objects.sorted_nodup _ hs)
        (fun a ha b hb e => h1.inj a b ((Objects.mem_keys_iff _ a).mp ha) ((Objects.mem_keys_iff _ b).mp hb) e)
    · intro q
      rw [Objects.mem_keys_iff, h1.keys q, List.mem_map]
      constructor
      · rintro ⟨k, hk, e⟩; exact ⟨k, (Objects.mem_keys_iff _ k).mpr hk, e⟩
      · rintro ⟨k, hk, e⟩; exact ⟨k, (Objects.mem_keys_iff _ k).mp hk, e⟩
  · rw [hmid]; exact hs1
  · intro k x hk
    have hm : (x, (start + k, x.2)) ∈ assign (midKeys d) start := by
      apply List.mem_of_getElem? (i := k)
      rw [assign_getElem?, hk]; rfl
    exact hasg (x, (start + k, x.2)) hm

/-- pages keep their generation in the page-order pass (every other id is left alone anyway) -/
theorem pageRho_gen (d : Doc) (x : ObjId) : (pageRho d x).2 = x.2 := by
  by_cases hx : x ∈ pagesOf d
  · obtain ⟨j, hj⟩ := List.getElem?_of_mem hx
    have hlt : j < (sortBy idLeE (pagesOf d)).length := by
      rw [sortBy_length]; exact (List.getElem?_eq_some_iff.mp hj).1
    have hq : (sortBy idLeE (pagesOf d))[j]? = some ((sortBy idLeE (pagesOf d))[j]) := List.getElem?_eq_getElem hlt
    unfold pageRho
    rw [pageRho_page (pagesOf d) (firstOcc_nodup _) j x _ hj hq]
  · unfold pageRho
    rw [rho_fix_of_not_old _ x (by rw [pageSpec_olds]; exact hx)]

/-- **C10, the k-th object gets `start + k`.**  Every object's new id is `(start + k, its generation)`, `k` being
the rank of its id after the page-order pass among all such ids. -/
theorem renumber_kth (d : Doc) (start : Nat) (hs : d.objects.Sorted) (g2 : (d.objects.keys.map (·.1)).Nodup)
    (hhi : start + d.objects.length ≤ U32_MAXE + 1) (x : ObjId) (hx : (d.objects.get x).isSome) :
    ∃ k, (midKeys d)[k]? = some (pageRho d x) ∧ k < d.objects.length ∧
      denseRho d start (pageRho d x) = (start + k, x.2) := by
  obtain ⟨_, _, _, _, _, _, _, _, _, _, hperm, _, hk⟩ := renumber_spec d start hs g2 hhi
  have hm : pageRho d x ∈ midKeys d :=
    hperm.mem_iff.mpr (List.mem_map_of_mem ((Objects.mem_keys_iff _ x).mpr hx))
  obtain ⟨k, hk'⟩ := List.getElem?_of_mem hm
  refine ⟨k, hk', ?_, ?_⟩
  · have := (List.getElem?_eq_some_iff.mp hk').1
    rw [hperm.length_eq] at this
    simpa [Objects.keys] using this
  · rw [hk k _ hk', pageRho_gen]

/-- **C10, the dense assignment preserves the order** of the ids it is given -/
theorem renumber_monotone (d : Doc) (start : Nat) (hs : d.objects.Sorted) (g2 : (d.objects.keys.map (·.1)).Nodup)
    (hhi : start + d.objects.length ≤ U32_MAXE + 1) (a b : ObjId) (ha : (d.objects.get a).isSome)
    (hb : (d.objects.get b).isSome) (hab : idLt (pageRho d a) (pageRho d b) = true) :
    (denseRho d start (pageRho d a)).1 < (denseRho d start (pageRho d b)).1 := by
  obtain ⟨_, _, _, _, _, _, _, _, _, _, _, hsorted, _⟩ := renumber_spec d start hs g2 hhi
  obtain ⟨i, hi, _, ei⟩ := renumber_kth d start hs g2 hhi a ha
  obtain ⟨j, hj, _, ej⟩ := renumber_kth d start hs g2 hhi b hb
  have := index_lt_of_idLt (midKeys d) hsorted i j _ _ hi hj hab
  rw [ei, ej]; simp only; omega

/-- **C10, pages end up with ascending numbers in page order** -/
theorem renumber_pages_ascending (d : Doc) (start : Nat) (hs : d.objects.Sorted) (g2 : (d.objects.keys.map (·.1)).Nodup)
    (hhi : start + d.objects.length ≤ U32_MAXE + 1) (i j : Nat) (a b : ObjId) (hij : i < j)
    (ha : (pagesOf d)[i]? = some a) (hb : (pagesOf d)[j]? = some b) :
    (denseRho d start (pageRho d a)).1 < (denseRho d start (pageRho d b)).1 := by
  obtain ⟨_, _, _, _, _, _, _, hpage, hasc, _, _, _, _⟩ := renumber_spec d start hs g2 hhi
  have hka : (d.objects.get a).isSome := pages_are_keys _ _ a (firstOcc_sub _ a (List.mem_of_getElem? ha))
  have hkb : (d.objects.get b).isSome := pages_are_keys _ _ b (firstOcc_sub _ b (List.mem_of_getElem? hb))
  have hli : i < (sortBy idLeE (pagesOf d)).length := by rw [sortBy_length]; exact (List.getElem?_eq_some_iff.mp ha).1
  have hlj : j < (sortBy idLeE (pagesOf d)).length := by rw [sortBy_length]; exact (List.getElem?_eq_some_iff.mp hb).1
  have hqi := List.getElem?_eq_getElem hli
  have hqj := List.getElem?_eq_getElem hlj
  apply renumber_monotone d start hs g2 hhi a b hka hkb
  rw [hpage i a _ ha hqi, hpage j b _ hb hqj]
  exact (idLt_iff _ _).mpr (Or.inl (hasc i j (sortBy idLeE (pagesOf d))[i] (sortBy idLeE (pagesOf d))[j] hij hqi hqj))

/- non-vacuity: pages 7 then 3 (page order differs from id order), plus the catalog and the root -/
example : pageSpec [(7, 0), (3, 0)] = [((7, 0), (3, 0)), ((3, 0), (7, 0))] := by decide

end Lopdf.Ren
