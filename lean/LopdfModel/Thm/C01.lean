import LopdfModel.Lemmas.Lex
import LopdfModel.Lemmas.Lit
import LopdfModel.Model.File
/-
  C01 — property theorems (token layer).  Each states: what `Writer` writes for a value is
  read back by the corresponding grammar function of `parser/mod.rs` as the same value, for
  EVERY value, followed by ANY text that starts where the separator logic lets it start.

  Full statement aimed at (DESIGN §5 C01):
    obj_rt  : ∀ o rest, WF o → Stops rest → parseDirect (writeObj o ++ rest) = some (norm o, space rest)
    file_rt : ∀ d, WFDoc d → loadDoc (saveDoc d) = expected d
  Proved below: the token theorems these are built from. The composition through the `alt`
  order of `_direct_objects` and through whole files is NOT proved yet; it is covered by the
  per-run correspondence (`write_obj`, `parse_obj`, `save`) and the save/load oracle.
-/
namespace Lopdf
open Gen

/-- **Names.** Any byte string (delimiters, `#`, NUL, CR/LF, 0x80–0xFF …) written by
`write_name` is read back by `name` exactly, followed by any text that starts with a
non-regular byte (or nothing). -/
theorem name_rt (n : Bytes) (rest : Bytes) (h : NameStop rest) :
    pName (writeName n ++ rest) = some (n, rest) := by
  simp only [writeName, List.cons_append, pName]
  rw [nameBody_write n _ rest h (by have := writeNameBody_length n; simp; omega)]

example : NameStop [32, 49] ∧ NameStop [] ∧ NameStop [47, 65] := by
  refine ⟨?_, ?_, ?_⟩ <;> intro b r h <;> simp at h <;> (try (obtain ⟨rfl, _⟩ := h; decide))
example : pName (writeName [35, 0, 40, 255, 65] ++ [32]) = some ([35, 0, 40, 255, 65], [32]) :=
  name_rt _ _ (by intro b r h; simp at h; obtain ⟨rfl, _⟩ := h; decide)

/-- **Hexadecimal strings.** Every byte string written as `<…>` reads back exactly,
whatever follows. -/
theorem hexstr_rt (s : Bytes) (rest : Bytes) :
    pHexString (writeString s .hex ++ rest) = some (s, rest) := by
  simp only [writeString, List.cons_append, List.nil_append, List.append_assoc, pHexString]
  rw [hexBody_write s _ rest [] (by have := writeHexBody_length s; simp; omega)]
  simp [whiteSpace_nonws 62 rest (by decide)]

/-- **Integers.** Every `i64` written by `itoa` reads back through `integer` as the same
number, followed by any text that does not start with a digit. -/
theorem int_rt (i : Int) (rest : Bytes) (hlo : -(I64_MAX : Int) - 1 ≤ i) (hhi : i ≤ I64_MAX)
    (hr : NoDigitAhead rest) : pInteger (writeInt i ++ rest) = some (i, rest) := by
  cases i with
  | ofNat n =>
    have hn : n ≤ I64_MAX := by simpa using hhi
    simp only [writeInt]
    have hd := digit1_natDigits n rest hr
    have hfirst : ∀ d r, natDigits n ++ rest = d :: r → d ≠ 43 ∧ d ≠ 45 := by
      intro d r h
      have hne := natDigits_ne_nil n
      cases hnd : natDigits n with
      | nil => exact absurd hnd hne
      | cons a b =>
        rw [hnd] at h; simp at h
        have := natDigits_all_digit n a (by rw [hnd]; simp)
        obtain ⟨rfl, _⟩ := h
        constructor <;> (intro hc; subst hc; simp [isDigit] at this)
    unfold pInteger
    split
    · rename_i r heq; exact absurd rfl (hfirst _ _ heq).1
    · rename_i r heq; exact absurd rfl (hfirst _ _ heq).2
    · simp [hd, digitsVal_natDigits, hn]
  | negSucc n =>
    have hn : n + 1 ≤ I64_MAX + 1 := by
      have : -(I64_MAX : Int) - 1 ≤ Int.negSucc n := hlo
      simp [Int.negSucc_eq] at this; omega
    simp only [writeInt, List.cons_append]
    have hd := digit1_natDigits (n + 1) rest hr
    unfold pInteger
    simp [hd, digitsVal_natDigits, hn, Int.negSucc_eq]

example : NoDigitAhead [32, 48] := by intro b r h; simp at h; obtain ⟨rfl, _⟩ := h; decide
example : pInteger (writeInt (-9223372036854775808) ++ [93]) = some (-9223372036854775808, [93]) :=
  int_rt _ _ (by decide) (by decide) (by intro b r h; simp at h; obtain ⟨rfl, _⟩ := h; decide)

theorem escBytes_length (s : Bytes) : s.length ≤ (escBytes s).length := by
  induction s with
  | nil => simp [escBytes]
  | cons b bs ih => simp only [escBytes, List.length_append, List.length_cons]; split <;> simp <;> omega

/-- **Literal strings (partial).** Full statement: `∀ s rest, pLiteral (writeString s .lit ++ rest)
= some (s, rest)` for EVERY byte string (balanced parentheses stay raw, unbalanced ones and
those nested deeper than MAX_BRACKET are escaped). Proved here under the decidable guard
"no parenthesis byte": arbitrary bytes otherwise — backslash, CR, LF, NUL, 0x80–0xFF — for
every following text. The parenthesis-matching part is covered by the `write_obj`/`parse_obj`
correspondence (byte-pair sweep, random parenthesis strings, the 150-deep regression witness). -/
theorem lit_rt_partial (s rest : Bytes) (hs : NoParens s) :
    pLiteral (writeString s .lit ++ rest) = some (s, rest) := by
  rw [writeString_lit_noparens s hs]
  simp only [List.cons_append, List.nil_append, List.append_assoc, pLiteral]
  rw [innerLit_escBytes MAX_BRACKET rest s hs _ (by have := escBytes_length s; simp; omega)]
  rfl

example : NoParens [92, 13, 10, 0, 255, 65] := by intro b hb; simp at hb; rcases hb with h|h|h|h|h|h <;> subst h <;> decide
example : pLiteral (writeString [92, 13, 10, 0, 255] .lit ++ [62, 62]) = some ([92, 13, 10, 0, 255], [62, 62]) :=
  lit_rt_partial _ _ (by intro b hb; simp at hb; rcases hb with h|h|h|h|h <;> subst h <;> decide)

end Lopdf

namespace Lopdf
open Gen

/-- the decimal texts `Display` prints for non-integral finite reals (and the writer's `….0`
form): optional minus, at least one digit, a point, any digits -/
structure IsDecimal (t : Bytes) : Prop where
  parts : ∃ (neg : Bool) (d1 d2 : Bytes), t = (if neg then [45] else []) ++ d1 ++ [46] ++ d2
    ∧ d1 ≠ [] ∧ (∀ b ∈ d1, isDigit b = true) ∧ (∀ b ∈ d2, isDigit b = true)

/-- **Reals (text level).** Every such decimal text is read back by `real` as exactly that
text, followed by anything that does not start with a digit; `f32::from_str ∘ Display = id`
(Rust std) then gives the same real. -/
theorem real_rt (t rest : Bytes) (h : IsDecimal t) (hr : NoDigitAhead rest) :
    pReal (t ++ rest) = some (t, rest) := by
  obtain ⟨neg, d1, d2, rfl, hne, h1, h2⟩ := h.parts
  have hdot : ∀ b r, ([46] ++ d2 ++ rest : Bytes) = b :: r → isDigit b = false := by
    intro b r h; simp at h; obtain ⟨rfl, _⟩ := h; decide
  have s1 : spanP isDigit (d1 ++ ([46] ++ d2 ++ rest)) = (d1, [46] ++ d2 ++ rest) := spanP_append isDigit d1 _ h1 hdot
  have s2 : spanP isDigit (d2 ++ rest) = (d2, rest) := spanP_append isDigit d2 rest h2 hr
  cases hd : d1 with
  | nil => exact absurd hd hne
  | cons a as =>
    have ha : isDigit a = true := h1 a (by rw [hd]; simp)
    have hns : a ≠ 43 ∧ a ≠ 45 := by constructor <;> (intro e; subst e; simp [isDigit] at ha)
    have hsign : ∀ r : Bytes, optSign (a :: r) = ([], a :: r) := by
      intro r
      unfold optSign
      split
      · rename_i heq; injection heq with e _; exact absurd e hns.1
      · rename_i heq; injection heq with e _; exact absurd e hns.2
      · rfl
    cases neg
    · simp only [Bool.false_eq_true, if_false, List.nil_append, List.append_assoc]
      rw [hd] at s1
      unfold pReal
      simp only [List.cons_append, List.nil_append, List.append_assoc] at s1 ⊢
      rw [hsign]
      simp only [s1]
      simp [s2]
    · simp only [if_true, List.cons_append, List.nil_append, List.append_assoc]
      rw [hd] at s1
      unfold pReal
      simp only [List.cons_append, List.nil_append, List.append_assoc, optSign] at s1 ⊢
      simp only [s1]
      simp [s2]

example : IsDecimal [45, 48, 46, 53] :=
  ⟨⟨true, [48], [53], rfl, by simp, by intro b hb; simp at hb; subst hb; decide, by intro b hb; simp at hb; subst hb; decide⟩⟩

end Lopdf
