import LopdfModel.Thm.FileLoadStream
import LopdfModel.Thm.FilePrev
/-
  C07 (file level) — a two-revision history written by `save` + `IncrementalDocument::save`:
  what the reader computes (start table, then the `Prev` walk) is `mergeChain [new, old]`.
  Also: `saveFrom` succeeds on every valid binary mark (non-vacuity of the file theorems).
-/
namespace Lopdf.FileRT
open Lopdf Gen

/-- `save` only fails on an invalid binary mark -/
theorem saveFrom_some (pre : Bytes) (d : SDoc) (hm : (d.binaryMark.all fun b => b ≥ 128) = true) :
    ∃ out d', saveFrom pre d = some (out, d') := by
  unfold saveFrom
  simp only [hm, Bool.not_true, Bool.false_eq_true, if_false]
  cases d.xrefKind <;> exact ⟨_, _, rfl⟩

/-- non-vacuity of `startxref_found` / `load_xref_of_save_*`: every document with a valid mark
(here: the default mark, no objects) is saved, in both kinds -/
example : ∃ out d', saveFrom [] (SDoc.mk [49, 46, 55] [187, 173, 192, 222] [] [] 0 .table) = some (out, d') :=
  saveFrom_some _ _ (by decide)

/-- the bytes an incremental save starts from: the previous file and a newline if it lacks one -/
def incrPre (prev : Bytes) : Bytes :=
  prev ++ (match prev.getLast? with | none => [] | some b => if b = 10 then [] else [10])

theorem saveIncr_eq (prev : Bytes) (d : SDoc) : saveIncr prev d = saveFrom (incrPre prev) d := rfl

/-- **Two revisions, as the reader sees them (C07).** `d1` saved plainly (table), then `d2` saved
incrementally on top (table) with `Prev` = offset of the first cross-reference section (what
`IncrementalDocument` records), file < 4 GiB, `u16` generations, distinct trailer keys, not
hybrid, trailer dictionaries read back (object-level hypothesis): the reader finds the NEW
`startxref`, reads the new section, and its `Prev` walk ends after the old section with the
merged table in which every object number has the entry of the newest revision defining it. -/
theorem load_xref_of_incr_save (d1 d2 : SDoc) (out1 out2 : Bytes) (d1' d2' : SDoc)
    (hk1 : d1.xrefKind = .table) (hk2 : d2.xrefKind = .table)
    (h1 : saveFrom [] d1 = some (out1, d1')) (h2 : saveIncr out1 d2 = some (out2, d2'))
    (hlen : out2.length < 4294967296)
    (hmax1 : d1.maxId + 1 ≤ 4294967295) (hmax2 : d2.maxId + 1 ≤ 4294967295)
    (hg1 : GensOk d1) (hg2 : GensOk d2) (hnd : d2.trailer.keys.Nodup)
    (hprev : d2.trailer.get PREV = some (.int ((bodyOf [] d1).length : Int)))
    (hnoprev : d1.trailer.get PREV = none) (hstm : d2.trailer.get XREFSTM = none)
    (hD1 : ∀ rest, DictReadsBack d1'.trailer (10 :: rest))
    (hD2 : ∀ rest, DictReadsBack d2'.trailer (10 :: rest)) :
    ∃ xs x0 sz x, getXrefStart out2 = some xs ∧
      xrefAndTrailer (out2.drop xs) = .ok (x0, sz, d2'.trailer) ∧
      prevLoop out2 (out2.length + 2) (d2'.trailer.get PREV) [] x0 (d2'.trailer.remove PREV)
        = .ok (x, d2'.trailer.remove PREV) ∧
      ∀ n, x.get n =
        (if 1 ≤ n ∧ n < d2.maxId + 1 then normalOf (xmapOf (incrPre out1) d2) n else none).orElse
          (fun _ => if 1 ≤ n ∧ n < d1.maxId + 1 then normalOf (xmapOf [] d1) n else none) := by
  have h2' : saveFrom (incrPre out1) d2 = some (out2, d2') := h2
  -- the new revision
  have hD2' : DictReadsBack d2'.trailer (STARTXREF_KW ++ natDigits (bodyOf (incrPre out1) d2).length ++ EOF_KW) := by
    have := hD2 ([115, 116, 97, 114, 116, 120, 114, 101, 102, 10] ++ natDigits (bodyOf (incrPre out1) d2).length ++ EOF_KW)
    simpa [STARTXREF_KW] using this
  obtain ⟨xs, table2, hstart, _, hxt2, hget2, _, _⟩ :=
    load_xref_of_save_table (incrPre out1) d2 out2 d2' hk2 h2' hlen hmax2 hg2 hD2'
  obtain ⟨_, htr2⟩ := saveFrom_table_eq (incrPre out1) d2 out2 d2' hk2 h2'
  -- the old revision inside the new file
  obtain ⟨hout1, htr1⟩ := saveFrom_table_eq [] d1 out1 d1' hk1 h1
  obtain ⟨R, hR⟩ : ∃ R, out2 = out1 ++ R := by
    obtain ⟨R, hR⟩ := incr_prefix out1 d2 out2 d2' h2
    exact ⟨R, hR.symm⟩
  have e1 : out2 = bodyOf [] d1 ++ (writeXrefTable (xmapOf [] d1) (d1.maxId + 1) ++ (TRAILER_KW ++
      (writeObj (.dict d1'.trailer) ++ (10 :: ([115, 116, 97, 114, 116, 120, 114, 101, 102, 10]
        ++ natDigits (bodyOf [] d1).length ++ EOF_KW ++ R))))) := by
    rw [hR, hout1, htr1]
    simp [STARTXREF_KW]
  obtain ⟨table1, hxt1, hget1, _⟩ := xrefAndTrailer_table (xmapOf [] d1) (d1.maxId + 1) d1'.trailer
    (10 :: ([115, 116, 97, 114, 116, 120, 114, 101, 102, 10] ++ natDigits (bodyOf [] d1).length ++ EOF_KW ++ R))
    (xmapOf_ok [] d1 hg1) hmax1 (hD1 _) (by rw [htr1, Dict.get_set_same]; simp)
  have hb1 : (bodyOf [] d1).length ≤ out2.length := by
    have := body_le_out [] d1 out1 d1' h1
    rw [hR]; simp only [List.length_append]; omega
  have k1 : ¬ SIZE = PREV := by decide
  have k2 : ¬ SIZE = XREFSTM := by decide
  have k3 : ¬ PREV = XREFSTM := by decide
  have hp2 : d2'.trailer.get PREV = some (.int ((bodyOf [] d1).length : Int)) := by
    rw [htr2, Dict_get_set]; simp only [k1, if_false]; exact hprev
  have hp1 : d1'.trailer.get PREV = none := by
    rw [htr1, Dict_get_set]; simp only [k1, if_false]; exact hnoprev
  have hstm' : (d2'.trailer.remove PREV).get XREFSTM = none := by
    rw [Dict_get_remove _ _ _ (by rw [htr2]; exact Dict_nodup_set _ _ _ hnd), htr2, Dict_get_set]
    simp only [k3, k2, if_false]; exact hstm
  have hchain : ChainOk out2 (d2'.trailer.get PREV) []
      [(((bodyOf [] d1).length : Int), table1, d1'.trailer)] := by
    rw [hp2]
    refine ⟨rfl, by simp, by omega, by simpa using hb1, ⟨d1.maxId + 1, ?_⟩, ?_⟩
    · rw [Int.toNat_natCast]
      have hd := congrArg (List.drop (bodyOf [] d1).length) e1
      rw [List.drop_left] at hd
      rw [hd]; exact hxt1
    · simp [ChainOk, hp1]
  obtain ⟨hpl, hlw⟩ := prevLoop_chain out2 (d2'.trailer.remove PREV) hstm' _ _ [] table2 hchain
  refine ⟨xs, table2, _, _, hstart, hxt2, hpl, ?_⟩
  intro n
  rw [hlw n]
  simp only [List.map_cons, List.map_nil, List.findSome?_cons, List.findSome?_nil, hget2 n, hget1 n]
  cases (if 1 ≤ n ∧ n < d2.maxId + 1 then normalOf (xmapOf (incrPre out1) d2) n else none) with
  | some v => simp
  | none => cases (if 1 ≤ n ∧ n < d1.maxId + 1 then normalOf (xmapOf [] d1) n else none) <;> simp

end Lopdf.FileRT
