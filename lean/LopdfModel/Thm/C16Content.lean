import LopdfModel.Thm.C14
import LopdfModel.Thm.C16
import LopdfModel.Model.TextExtract
/-
  C16 — extraction, end to end on the model: text shown in a content stream built by
  `Content::encode` (Model/Content.lean, property C14) and read back through
  `Content::decode` + the `extract_text` loop (Model/Text.lean) is returned unchanged.

  Composition: C14's operand/operator theorems (name, hexadecimal string, operator) and C01's
  token theorems (integer, literal string without parentheses) give
  `decodeContent (encodeContent ops) = ok ops` for operation lists whose operands are of those
  kinds (`c16e_decode_encode`); `extract_shown_text` (Thm/C16) then gives the text.
  After save/load the content stream bytes must come back unchanged — that is C01/C09's
  statement (stream round trip), used here as a hypothesis-free remark only: this file is about
  the content bytes.
-/
namespace Lopdf
open Gen Spec

/-! ### operands `Content::encode` writes and `operand` reads back -/

/-- an operand whose written form, followed by the separating space, is read back by `operand`
as the same object; its text starts with a byte that is not blank, not `%` and not `B` -/
structure C16eOperand (o : Obj) : Prop where
  rt : ∀ rest, pOperand (writeObj o ++ 32 :: rest) = .ok o (contentSpace rest)
  head : ∃ b t, writeObj o = b :: t ∧ isContentSpace b = false ∧ b ≠ 37 ∧ b ≠ 66

theorem c16e_operand_name (n : Bytes) : C16eOperand (.name n) where
  rt rest := by rw [operand_name_rt, contentSpace_cons_space]
  head := ⟨47, writeNameBody n, by simp [writeObj, writeName], by decide, by decide, by decide⟩

theorem c16e_operand_hex (s : Bytes) : C16eOperand (.str s .hex) where
  rt rest := by rw [operand_hex_rt, contentSpace_cons_space]
  head := ⟨60, writeHexBody s ++ [62], by simp [writeObj, writeString], by decide, by decide, by decide⟩

/-- literal strings without parenthesis bytes (C01's `lit_rt_partial`), through the `alt` of `operand` -/
theorem c16e_operand_lit (s : Bytes) (hs : NoParens s) : C16eOperand (.str s .lit) where
  rt rest := by
    have hl := lit_rt_partial s (32 :: rest) hs
    rw [writeString_lit_noparens s hs] at hl
    simp only [writeObj, pOperand, operandObj]
    rw [writeString_lit_noparens s hs]
    simp only [List.cons_append, List.nil_append, List.append_assoc] at hl ⊢
    simp [NULL_KW, TRUE_KW, FALSE_KW, tag, pReal, optSign, pInteger, spanP, isDigit, digit1, pName, hl,
      contentSpace_cons_space]
  head := ⟨40, escBytes s ++ [41], by rw [writeObj, writeString_lit_noparens s hs]; simp, by decide, by decide, by decide⟩

/-- non-negative integers (the size operand of `Tf`), through the `alt` of `operand`: the keywords,
`real` (no point follows the digits) fail, `integer` reads the number (C01's `int_rt`) -/
theorem c16e_operand_nat (n : Nat) (hn : n ≤ I64_MAX) : C16eOperand (.int (Int.ofNat n)) where
  rt rest := by
    have hsp : NoDigitAhead (32 :: rest) := by intro b r h; simp at h; obtain ⟨rfl, _⟩ := h; decide
    have hi := int_rt (Int.ofNat n) (32 :: rest) (by simp; omega) (by simpa using hn) hsp
    have hspan : spanP isDigit (natDigits n ++ 32 :: rest) = (natDigits n, 32 :: rest) :=
      spanP_append isDigit _ _ (natDigits_all_digit n) hsp
    simp only [writeObj, writeInt, pOperand, operandObj] at hi ⊢
    cases hnd : natDigits n with
    | nil => exact absurd hnd (natDigits_ne_nil n)
    | cons a as =>
      have ha : isDigit a = true := natDigits_all_digit n a (by rw [hnd]; simp)
      have hne : a ≠ 110 ∧ a ≠ 116 ∧ a ≠ 102 ∧ a ≠ 43 ∧ a ≠ 45 := by
        refine ⟨?_, ?_, ?_, ?_, ?_⟩ <;> (intro e; subst e; simp [isDigit] at ha)
      rw [hnd] at hi hspan
      simp only [List.cons_append] at hi hspan ⊢
      have hsign : optSign (a :: (as ++ 32 :: rest)) = ([], a :: (as ++ 32 :: rest)) := by
        unfold optSign
        split
        · rename_i heq; injection heq with e _; exact absurd e hne.2.2.2.1
        · rename_i heq; injection heq with e _; exact absurd e hne.2.2.2.2
        · rfl
      have hreal : pReal (a :: (as ++ 32 :: rest)) = none := by
        unfold pReal
        rw [hsign]
        simp [hspan]
      simp [NULL_KW, TRUE_KW, FALSE_KW, tag, hne.1.symm, hne.2.1.symm, hne.2.2.1.symm, hreal, hi, contentSpace_cons_space]
  head := by
    cases hnd : natDigits n with
    | nil => exact absurd hnd (natDigits_ne_nil n)
    | cons a as =>
      have ha : isDigit a = true := natDigits_all_digit n a (by rw [hnd]; simp)
      refine ⟨a, as, by simp [writeObj, writeInt, hnd], ?_, ?_, ?_⟩
      · revert ha; revert a; intro a _; exact fun ha => by
          have : a ≠ 32 ∧ a ≠ 9 ∧ a ≠ 13 ∧ a ≠ 10 := by
            refine ⟨?_, ?_, ?_, ?_⟩ <;> (intro e; subst e; simp [isDigit] at ha)
          simp [isContentSpace, CONTENT_SPACE, this.1, this.2.1, this.2.2.1, this.2.2.2]
      · intro e; subst e; simp [isDigit] at ha
      · intro e; subst e; simp [isDigit] at ha

/-! ### arrays of hexadecimal strings (operand of `TJ`) -/

theorem c16e_space_head (b : UInt8) (t : Bytes) (hw : isWhitespace b = false) (hc : b ≠ 37) :
    space (b :: t) = b :: t := by
  have hcom : comment (b :: t) = none := by
    simp only [comment]
    split
    · rename_i heq; injection heq with e _; exact absurd e hc
    · rfl
  simp [space, spaceF, spanP, hw, hcom]

theorem c16e_directObject_hex (s rest : Bytes) (fuel depth : Nat) :
    directObject (fuel + 1) depth (writeString s .hex ++ rest) = .ok (.str s .hex) (space rest) := by
  have hs := hexstr_rt s rest
  simp only [writeString, List.cons_append, List.nil_append, List.append_assoc] at hs ⊢
  unfold directObject directObjects
  simp [NULL_KW, TRUE_KW, FALSE_KW, tag, pReference, pUnsigned, digit1, pReal, optSign,
    pInteger, spanP, isDigit, pName, pLiteral, hs]

theorem c16e_directObject_close (rest : Bytes) (fuel depth : Nat) :
    directObject (fuel + 1) depth (93 :: rest) = .error := by
  unfold directObject directObjects
  simp [NULL_KW, TRUE_KW, FALSE_KW, tag, pReference, pUnsigned, digit1, pReal, optSign,
    pInteger, spanP, isDigit, pName, pLiteral, pHexString]

def c16eHexItems (ss : List Bytes) : Bytes := (ss.map fun s => writeString s .hex).flatten

theorem c16e_writeArr_hex : ∀ (first : Bool) (ss : List Bytes),
    writeArr first (ss.map fun s => Obj.str s .hex) = c16eHexItems ss
  | _, [] => by simp [writeArr, c16eHexItems]
  | first, s :: ss => by
    simp [writeArr, writeObj, needSeparator, c16eHexItems, c16e_writeArr_hex false ss]

theorem c16e_hexItems_head (ss : List Bytes) (rest : Bytes) :
    ∃ b t, c16eHexItems ss ++ 93 :: rest = b :: t ∧ isWhitespace b = false ∧ b ≠ 37 := by
  cases ss with
  | nil => exact ⟨93, rest, by simp [c16eHexItems], by decide, by decide⟩
  | cons s ss => exact ⟨60, _, by simp [c16eHexItems, writeString]; rfl, by decide, by decide⟩

theorem c16e_manyObjects_hex1 (fuel depth : Nat) : ∀ (ss : List Bytes) (rest : Bytes) (n : Nat), ss.length < n →
    manyObjects (fuel + 1) depth n (c16eHexItems ss ++ 93 :: rest)
      = some (ss.map (fun s => Obj.str s .hex), 93 :: rest)
  | [], rest, n, hn => by
    cases n with
    | zero => simp at hn
    | succ n =>
      rw [manyObjects]
      simp [c16eHexItems, c16e_directObject_close]
  | s :: ss, rest, n, hn => by
    cases n with
    | zero => simp at hn
    | succ n =>
      have ih := c16e_manyObjects_hex1 fuel depth ss rest n (by simp at hn; omega)
      obtain ⟨b, t, hbt, hw, hc⟩ := c16e_hexItems_head ss rest
      have e : c16eHexItems (s :: ss) ++ 93 :: rest = writeString s .hex ++ (c16eHexItems ss ++ 93 :: rest) := by
        simp [c16eHexItems]
      rw [e, manyObjects, c16e_directObject_hex, hbt, c16e_space_head b t hw hc, ← hbt]
      simp [ih]

theorem c16e_manyObjects_hex (F depth : Nat) (ss : List Bytes) (rest : Bytes) (n : Nat) (hF : 0 < F) (hn : ss.length < n) :
    manyObjects F depth n (c16eHexItems ss ++ 93 :: rest) = some (ss.map (fun s => Obj.str s .hex), 93 :: rest) := by
  obtain ⟨f, rfl⟩ : ∃ f, F = f + 1 := ⟨F - 1, by omega⟩
  exact c16e_manyObjects_hex1 f depth ss rest n hn

theorem c16eHexItems_length (ss : List Bytes) : ss.length ≤ (c16eHexItems ss).length := by
  induction ss with
  | nil => simp [c16eHexItems]
  | cons s ss ih =>
    simp only [c16eHexItems, List.map_cons, List.flatten_cons, List.length_append, List.length_cons, writeString,
      List.length_nil, List.cons_append, List.nil_append] at ih ⊢
    omega

/-- arrays of hexadecimal strings (the operand of `TJ` without kerning numbers) -/
theorem c16e_operand_hexarr (ss : List Bytes) : C16eOperand (.arr (ss.map fun s => Obj.str s .hex)) where
  rt rest := by
    obtain ⟨b, t, hbt, hw, hc⟩ := c16e_hexItems_head ss (32 :: rest)
    have hlen := c16eHexItems_length ss
    have hm : manyObjects ((c16eHexItems ss ++ 93 :: 32 :: rest).length + 1 + 1) 1
        ((c16eHexItems ss ++ 93 :: 32 :: rest).length + 1 + 1) (c16eHexItems ss ++ 93 :: 32 :: rest)
        = some (ss.map (fun s => Obj.str s .hex), 93 :: 32 :: rest) :=
      c16e_manyObjects_hex _ 1 ss (32 :: rest) _ (by omega) (by simp only [List.length_append]; omega)
    have hsp : space (c16eHexItems ss ++ 93 :: 32 :: rest) = c16eHexItems ss ++ 93 :: 32 :: rest := by
      rw [hbt]; exact c16e_space_head b t hw hc
    simp only [writeObj, c16e_writeArr_hex, pOperand, operandObj, List.cons_append, List.nil_append, List.append_assoc]
    generalize c16eHexItems ss ++ 93 :: 32 :: rest = X at hm hsp
    simp [NULL_KW, TRUE_KW, FALSE_KW, tag, pReal, optSign, spanP, isDigit, pInteger, digit1, pName, pLiteral,
      pHexString, hsp, hm, contentSpace_cons_space]
  head := ⟨91, writeArr true (ss.map fun s => Obj.str s .hex) ++ [93], by simp [writeObj], by decide, by decide, by decide⟩

/-! ### one operation -/

/-- the operands part of `Content::encode`: every operand followed by one space -/
def c16eEncOperands (os : List Obj) : Bytes := (os.map fun o => writeObj o ++ [32]).flatten

theorem c16eEncOperands_cons (o : Obj) (os : List Obj) (tail : Bytes) :
    c16eEncOperands (o :: os) ++ tail = writeObj o ++ 32 :: (c16eEncOperands os ++ tail) := by
  simp [c16eEncOperands]

theorem c16e_contentSpace_head (b : UInt8) (t : Bytes) (h : isContentSpace b = false) :
    contentSpace (b :: t) = b :: t := by
  simp [contentSpace, spanP, h]

/-- the text operators used below: BT ET Tf Tj TJ -/
def c16eTextOps : List Bytes := [[66, 84], [69, 84], [84, 102], [84, 106], [84, 74]]

/-- at a text operator the `many0(operand)` loop stops with a recoverable error, the operator is
read whole, it is not the inline-image keyword and not a comment -/
theorem c16e_textop_facts (opr : Bytes) (h : opr ∈ c16eTextOps) (rest : Bytes)
    (hr : ∀ b r, rest = b :: r → isOperatorByte b = false) :
    pOperand (opr ++ rest) = .error ∧ pOperator (opr ++ rest) = some (opr, rest) ∧
    tag [66, 73] (opr ++ rest) = none ∧ comment (opr ++ rest) = none ∧
    (∃ b t, opr = b :: t ∧ isContentSpace b = false) ∧ opr ≠ [66, 73] := by
  have hop : pOperator (opr ++ rest) = some (opr, rest) := by
    apply operator_rt opr rest
    · intro e; subst e; simp [c16eTextOps] at h
    · simp only [c16eTextOps, List.mem_cons, List.not_mem_nil, or_false] at h
      rcases h with h | h | h | h | h <;> subst h <;> decide
    · exact hr
  refine ⟨?_, hop, ?_, ?_, ?_, ?_⟩
  all_goals
    simp only [c16eTextOps, List.mem_cons, List.not_mem_nil, or_false] at h
    rcases h with h | h | h | h | h <;> subst h <;>
      simp [pOperand, operandObj, NULL_KW, TRUE_KW, FALSE_KW, tag, pReal, optSign, spanP, isDigit, pInteger, digit1,
        pName, pLiteral, pHexString, comment, isContentSpace, CONTENT_SPACE]

theorem c16e_manyOperands : ∀ (os : List Obj) (tail : Bytes) (n : Nat),
    (∀ o ∈ os, C16eOperand o) → pOperand tail = .error → (∃ b t, tail = b :: t ∧ isContentSpace b = false) →
    os.length < n → manyOperands n (c16eEncOperands os ++ tail) = some (os, tail)
  | [], tail, n, _, herr, _, hn => by
    cases n with
    | zero => simp at hn
    | succ n => simp [c16eEncOperands, manyOperands, herr]
  | o :: os, tail, n, hos, herr, hhead, hn => by
    cases n with
    | zero => simp at hn
    | succ n =>
      have ho := hos o (by simp)
      have ih := c16e_manyOperands os tail n (fun x hx => hos x (by simp [hx])) herr hhead (by simp at hn; omega)
      -- what follows the separating space starts with a non-blank byte
      have hnext : contentSpace (c16eEncOperands os ++ tail) = c16eEncOperands os ++ tail := by
        cases os with
        | nil =>
          obtain ⟨b, t, ht, hb⟩ := hhead
          simp only [c16eEncOperands, List.map_nil, List.flatten_nil, List.nil_append, ht]
          exact c16e_contentSpace_head b t hb
        | cons o2 os2 =>
          obtain ⟨b, t, hw, hb, _, _⟩ := (hos o2 (by simp)).head
          rw [c16eEncOperands_cons, hw]
          exact c16e_contentSpace_head b _ hb
      rw [c16eEncOperands_cons]
      simp only [manyOperands, ho.rt, hnext, ih, Option.map_some]

theorem c16eEncOperands_length (os : List Obj) : os.length ≤ (c16eEncOperands os).length := by
  induction os with
  | nil => simp [c16eEncOperands]
  | cons o os ih =>
    simp only [c16eEncOperands, List.map_cons, List.flatten_cons, List.length_append, List.length_cons,
      List.length_nil] at ih ⊢
    omega

/-- a text operation: one of the operators above, operands of the kinds `operand` reads back -/
structure C16eOp (op : Operation) : Prop where
  operator : op.operator ∈ c16eTextOps
  operands : ∀ o ∈ op.operands, C16eOperand o

theorem c16e_encodeOperation (op : Operation) (h : C16eOp op) :
    encodeOperation op = c16eEncOperands op.operands ++ op.operator := by
  have hne := (c16e_textop_facts op.operator h.operator [] (by intro b r e; cases e)).2.2.2.2.2
  simp [encodeOperation, hne, c16eEncOperands]

/-- **one operation**: `operation` reads back what `Content::encode` wrote for it, leaving the
rest (after blanks) untouched -/
theorem c16e_pOperation (op : Operation) (h : C16eOp op) (rest : Bytes)
    (hr : ∀ b r, rest = b :: r → isOperatorByte b = false) :
    pOperation (encodeOperation op ++ rest) = .ok op (contentSpace rest) := by
  obtain ⟨herr, hop, htag, hcom, hhead, _⟩ := c16e_textop_facts op.operator h.operator rest hr
  rw [c16e_encodeOperation op h, List.append_assoc]
  -- first byte of the operation: not `%`, not `BI`
  have hfirst : comment (c16eEncOperands op.operands ++ (op.operator ++ rest)) = none ∧
      tag [66, 73] (c16eEncOperands op.operands ++ (op.operator ++ rest)) = none := by
    cases hos : op.operands with
    | nil => simpa [c16eEncOperands] using ⟨hcom, htag⟩
    | cons o os =>
      obtain ⟨b, t, hw, _, h37, h66⟩ := (h.operands o (by rw [hos]; simp)).head
      rw [c16eEncOperands_cons, hw]
      constructor
      · simp only [List.cons_append, comment]
        split
        · rename_i heq; injection heq with e _; exact absurd e h37
        · rfl
      · simp [tag, Ne.symm h66]
  have hmc : ∀ n inp, comment inp = none → manyComments n inp = inp := by
    intro n inp hc; cases n <;> simp [manyComments, hc]
  obtain ⟨b, t, hopr, hb⟩ := hhead
  have hmo := c16e_manyOperands op.operands (op.operator ++ rest)
    ((c16eEncOperands op.operands ++ (op.operator ++ rest)).length + 1) h.operands herr
    ⟨b, t ++ rest, by rw [hopr]; rfl, hb⟩
    (by have := c16eEncOperands_length op.operands; simp only [List.length_append]; omega)
  simp only [pOperation, hmc _ _ hfirst.1, hfirst.2, hmo, hop]

/-! ### whole content streams -/

theorem c16e_encodeContent_cons (op : Operation) (ops : List Operation) :
    encodeContent (op :: ops) = encodeOperation op ++ (if ops = [] then [] else 10 :: encodeContent ops) := by
  cases ops with
  | nil => simp [encodeContent]
  | cons o2 os => simp [encodeContent]

/-- an encoded text operation starts with a byte that is not blank -/
theorem c16e_encodeOperation_head (op : Operation) (h : C16eOp op) :
    ∃ b t, encodeOperation op = b :: t ∧ isContentSpace b = false := by
  rw [c16e_encodeOperation op h]
  cases hos : op.operands with
  | nil =>
    obtain ⟨b, t, hopr, hb⟩ := (c16e_textop_facts op.operator h.operator [] (by intro b r e; cases e)).2.2.2.2.1
    exact ⟨b, t, by simp [c16eEncOperands, hopr], hb⟩
  | cons o os =>
    obtain ⟨b, t, hw, hb, _, _⟩ := (h.operands o (by rw [hos]; simp)).head
    exact ⟨b, _, by rw [c16eEncOperands_cons, hw]; rfl, hb⟩

theorem c16e_encodeContent_space (ops : List Operation) (h : ∀ op ∈ ops, C16eOp op) :
    contentSpace (encodeContent ops) = encodeContent ops := by
  cases ops with
  | nil => simp [encodeContent, contentSpace, spanP]
  | cons op rest =>
    obtain ⟨b, t, he, hb⟩ := c16e_encodeOperation_head op (h op (by simp))
    rw [c16e_encodeContent_cons, he]
    exact c16e_contentSpace_head b _ hb

theorem c16e_pOperation_nil : pOperation [] = .error := by
  simp [pOperation, manyComments, comment, tag, manyOperands, pOperand, operandObj, NULL_KW, TRUE_KW, FALSE_KW,
    pReal, optSign, spanP, pInteger, digit1, pName, pLiteral, pHexString, pOperator]

theorem c16e_manyOperations : ∀ (ops : List Operation) (n : Nat), (∀ op ∈ ops, C16eOp op) → ops.length < n →
    manyOperations n (encodeContent ops) = .ok ops
  | [], n, _, hn => by
    cases n with
    | zero => simp at hn
    | succ n => simp [encodeContent, manyOperations, c16e_pOperation_nil]
  | op :: ops, n, h, hn => by
    cases n with
    | zero => simp at hn
    | succ n =>
      have hop := h op (by simp)
      have ih := c16e_manyOperations ops n (fun x hx => h x (by simp [hx])) (by simp at hn; omega)
      rw [c16e_encodeContent_cons]
      by_cases he : ops = []
      · subst he
        have := c16e_pOperation op hop [] (by intro b r e; cases e)
        simp only [if_true, List.append_nil] at this ⊢
        simp only [manyOperations, this]
        have hz : contentSpace [] = [] := by simp [contentSpace, spanP]
        rw [hz]
        simp only [encodeContent] at ih
        rw [ih]
      · have := c16e_pOperation op hop (10 :: encodeContent ops)
          (by intro b r e; injection e with e1 _; subst e1; decide)
        have hsp : contentSpace (10 :: encodeContent ops) = encodeContent ops := by
          have h10 : contentSpace (10 :: encodeContent ops) = contentSpace (encodeContent ops) := by
            simp [contentSpace, spanP, isContentSpace, CONTENT_SPACE]
          rw [h10, c16e_encodeContent_space ops (fun x hx => h x (by simp [hx]))]
        simp only [he, if_false, manyOperations, this, hsp, ih]

theorem c16e_encodeContent_length : ∀ (ops : List Operation), (∀ op ∈ ops, C16eOp op) →
    ops.length ≤ (encodeContent ops).length
  | [], _ => by simp [encodeContent]
  | op :: ops, h => by
    obtain ⟨b, t, he, _⟩ := c16e_encodeOperation_head op (h op (by simp))
    have ih := c16e_encodeContent_length ops (fun x hx => h x (by simp [hx]))
    rw [c16e_encodeContent_cons, he]
    by_cases hn : ops = []
    · subst hn; simp
    · simp only [hn, if_false, List.cons_append, List.length_cons, List.length_append]; omega

/-- **`Content::decode ∘ Content::encode = id`** on operation lists made of the text operators
BT ET Tf Tj TJ with name / hexadecimal-string / parenthesis-free literal-string / non-negative
integer operands — any number of operations, any operand values -/
theorem c16e_decode_encode (ops : List Operation) (h : ∀ op ∈ ops, C16eOp op) :
    decodeContent (encodeContent ops) = .ok ops := by
  unfold decodeContent
  simp only [c16e_encodeContent_space ops h]
  exact c16e_manyOperations ops _ h (by have := c16e_encodeContent_length ops h; omega)

/-! ### extraction from the encoded content stream -/

/-- one text-showing operation: `Tj` with a literal or hexadecimal string, or `TJ` with an array
of hexadecimal strings -/
inductive C16eShow where
  | tj (s : UStr) (f : StrFmt)
  | tjArr (ss : List UStr)

/-- the operation as `Content::encode` receives it: strings encoded with `string_to_bytes` -/
def C16eShow.op (t : Table) : C16eShow → Operation
  | .tj s f => { operator := OP_TJ, operands := [Obj.str (stringToBytes t s) f] }
  | .tjArr ss => { operator := OP_TJ_ARR, operands := [Obj.arr ((ss.map (stringToBytes t)).map fun b => Obj.str b .hex)] }

/-- the text the operation shows, as `extract_text` renders it (a `TJ` array is followed by one space) -/
def C16eShow.text : C16eShow → UStr
  | .tj s _ => s
  | .tjArr ss => ss.flatten ++ [32]

/-- strings over the table's repertoire; literal strings without parenthesis bytes (C01's guard) -/
def C16eShow.Ok (t : Table) : C16eShow → Prop
  | .tj s f => (∀ c ∈ s, Scalar c) ∧ (∀ u ∈ stdEncodeUtf16 s, some u ∈ t) ∧ (f = .lit → NoParens (stringToBytes t s))
  | .tjArr ss => ∀ s ∈ ss, (∀ c ∈ s, Scalar c) ∧ (∀ u ∈ stdEncodeUtf16 s, some u ∈ t)

theorem c16e_collect_strs (t : Table) (hl : t.length ≤ 256) : ∀ (ss : List UStr) (text : UStr),
    (∀ s ∈ ss, (∀ c ∈ s, Scalar c) ∧ (∀ u ∈ stdEncodeUtf16 s, some u ∈ t)) →
    collectList (.oneByte t) text ((ss.map (stringToBytes t)).map fun b => Obj.str b .hex) = .ok (text ++ ss.flatten)
  | [], text, _ => by simp [collectList]
  | s :: ss, text, h => by
    have h1 := h s (by simp)
    have hd := encode_decode_repertoire t hl s h1.1 h1.2
    have ih := c16e_collect_strs t hl ss (text ++ s) (fun x hx => h x (by simp [hx]))
    simp only [List.map_cons, collectList, collectObj, decodeText, hd, ih]
    simp [List.append_assoc]

/-- a run of text-showing operations under a one-byte encoding appends the shown texts -/
theorem c16e_extractLoop_shows (encs : List (Bytes × Enc)) (t : Table) (hl : t.length ≤ 256) :
    ∀ (shows : List C16eShow) (rest : List (Bytes × List Obj)) (st : XState),
      st.cur = some (.oneByte t) → (∀ p ∈ shows, p.Ok t) →
      extractLoop encs (opsView (shows.map (C16eShow.op t)) ++ rest) st
        = extractLoop encs rest { st with text := st.text ++ (shows.map C16eShow.text).flatten }
  | [], rest, st, _, _ => by simp [opsView]
  | p :: shows, rest, st, hc, hs => by
    have h1 := hs p (by simp)
    have ih := fun st' (hc' : st'.cur = some (.oneByte t)) =>
      c16e_extractLoop_shows encs t hl shows rest st' hc' (fun x hx => hs x (by simp [hx]))
    cases p with
    | tj s f =>
      have hd := encode_decode_repertoire t hl s h1.1 h1.2.1
      have ne1 : OP_TJ ≠ OP_TF := by decide
      simp only [opsView, List.map_cons, C16eShow.op, List.cons_append, extractLoop, ne1, if_false, Bool.true_or,
        if_true, beq_self_eq_true, hc, collectList, collectObj, decodeText, hd, decide_true]
      have := ih { st with text := st.text ++ s } hc
      simp only [opsView, hc] at this
      rw [this]
      simp [C16eShow.text, List.append_assoc]
    | tjArr ss =>
      have hcs := c16e_collect_strs t hl ss st.text h1
      have ne1 : OP_TJ_ARR ≠ OP_TF := by decide
      simp only [opsView, List.map_cons, C16eShow.op, List.cons_append, extractLoop, ne1, if_false, Bool.or_true,
        if_true, hc, collectList, collectObj, hcs, decide_true]
      have := ih { st with text := st.text ++ ss.flatten ++ [32] } hc
      simp only [opsView, hc] at this
      rw [this]
      simp [C16eShow.text, List.append_assoc]

/-- the content operations of a page that selects font `fname` at `size` and shows `shows` in one text object -/
def c16eShowOps (fname : Bytes) (size : Nat) (t : Table) (shows : List C16eShow) : List Operation :=
  { operator := [66, 84], operands := [] } ::
  { operator := OP_TF, operands := [.name fname, .int (Int.ofNat size)] } ::
  (shows.map (C16eShow.op t) ++ [{ operator := OP_ET, operands := [] }])

theorem c16e_showOps_good (fname : Bytes) (size : Nat) (hsize : size ≤ I64_MAX) (t : Table) (shows : List C16eShow)
    (hs : ∀ p ∈ shows, p.Ok t) : ∀ op ∈ c16eShowOps fname size t shows, C16eOp op := by
  intro op hop
  simp only [c16eShowOps, List.mem_cons, List.mem_append, List.mem_map, List.not_mem_nil, or_false] at hop
  rcases hop with rfl | rfl | ⟨p, hp, rfl⟩ | rfl
  · exact ⟨by show ([66, 84] : Bytes) ∈ c16eTextOps; decide, by simp⟩
  · refine ⟨by show OP_TF ∈ c16eTextOps; decide, ?_⟩
    intro o ho
    simp only [List.mem_cons, List.not_mem_nil, or_false] at ho
    rcases ho with rfl | rfl
    · exact c16e_operand_name fname
    · exact c16e_operand_nat size hsize
  · have hok := hs p hp
    cases p with
    | tj s f =>
      refine ⟨by show OP_TJ ∈ c16eTextOps; decide, ?_⟩
      intro o ho
      simp only [C16eShow.op, List.mem_cons, List.not_mem_nil, or_false] at ho
      subst ho
      cases f with
      | hex => exact c16e_operand_hex _
      | lit => exact c16e_operand_lit _ (hok.2.2 rfl)
    | tjArr ss =>
      refine ⟨by show OP_TJ_ARR ∈ c16eTextOps; decide, ?_⟩
      intro o ho
      simp only [C16eShow.op, List.mem_cons, List.not_mem_nil, or_false] at ho
      subst ho
      exact c16e_operand_hexarr _
  · exact ⟨by show OP_ET ∈ c16eTextOps; decide, by simp⟩

/-- **Extraction, end to end on the model.** For every font dictionary whose encoding is a
predefined one-byte table `t`, every font size, and every list of text-showing operations over
`t`'s repertoire — `Tj` with a hexadecimal string, `Tj` with a literal string (no parenthesis byte
in the encoded text: C01's guard), `TJ` with an array of hexadecimal strings — the bytes
`Content::encode` produces for `BT /F size Tf … ET` are decoded by `Content::decode` to the same
operations, and `extract_text` returns exactly the shown strings in order (one space after each
`TJ` array) followed by the newline `ET` contributes. -/
theorem c16e_extract_end_to_end (fname : Bytes) (font : Dict) (t : Table) (size : Nat) (shows : List C16eShow)
    (hf : getFontEncoding font = some (.oneByte t)) (hsize : size ≤ I64_MAX) (hs : ∀ p ∈ shows, p.Ok t) :
    let shown := (shows.map C16eShow.text).flatten
    decodeContent (encodeContent (c16eShowOps fname size t shows)) = .ok (c16eShowOps fname size t shows) ∧
    extractTextOfContent [(fname, font)] (encodeContent (c16eShowOps fname size t shows))
      = .ok (if shown.getLast? = some 10 then shown else shown ++ [10]) := by
  intro shown
  have hl : t.length ≤ 256 := by
    have := (tables_no_surrogate t (font_encoding_in_tables font t hf)).1; omega
  have hdec := c16e_decode_encode _ (c16e_showOps_good fname size hsize t shows hs)
  refine ⟨hdec, ?_⟩
  have ne2 : OP_ET ≠ OP_TF := by decide
  have ne3 : (OP_ET = OP_TJ) = False := by simp; decide
  have ne4 : (OP_ET = OP_TJ_ARR) = False := by simp; decide
  have nb1 : ([66, 84] : Bytes) ≠ OP_TF := by decide
  have nb2 : (([66, 84] : Bytes) = OP_TJ) = False := by simp; decide
  have nb3 : (([66, 84] : Bytes) = OP_TJ_ARR) = False := by simp; decide
  have nb4 : ([66, 84] : Bytes) ≠ OP_ET := by decide
  have hview : opsView (c16eShowOps fname size t shows) =
      ([66, 84], []) :: (OP_TF, [.name fname, .int (Int.ofNat size)]) ::
        (opsView (shows.map (C16eShow.op t)) ++ [(OP_ET, [])]) := by
    simp [opsView, c16eShowOps]
  simp only [extractTextOfContent, hdec, hview, extractText, fontEncodings, hf, extractLoop, nb1, nb2, nb3, nb4,
    if_true, if_false, Bool.or_self, Bool.false_eq_true, decide_false, Obj.asName, lookupEnc]
  rw [c16e_extractLoop_shows _ t hl shows _ _ rfl hs]
  simp [extractLoop, ne2, ne3, ne4, shown]

/-- non-vacuity: "Hé€" as a literal string, "!" as a hexadecimal string, then a TJ array, in WinAnsi -/
example : (C16eShow.tj [0x48, 0xE9, 0x20AC] .lit).Ok WIN_ANSI_ENCODING ∧ (C16eShow.tj [0x21] .hex).Ok WIN_ANSI_ENCODING
    ∧ (C16eShow.tjArr [[0x41], [0x42, 0x43]]).Ok WIN_ANSI_ENCODING := by
  refine ⟨⟨by decide, by decide +kernel, fun _ => ?_⟩, ⟨by decide, by decide +kernel, fun h => by cases h⟩, ?_⟩
  · have e : stringToBytes WIN_ANSI_ENCODING [0x48, 0xE9, 0x20AC] = [72, 233, 128] := by decide +kernel
    rw [e]
    intro b hb
    simp only [List.mem_cons, List.not_mem_nil, or_false] at hb
    rcases hb with h | h | h <;> subst h <;> decide
  · intro s hs
    simp only [List.mem_cons, List.not_mem_nil, or_false] at hs
    rcases hs with rfl | rfl <;> exact ⟨by decide, by decide +kernel⟩

end Lopdf
