import LopdfModel.Lemmas.C09LzwMain
import LopdfModel.Thm.C09
/-
  C09 — LZW as a theorem.  `Spec/LzwCodec.lean` holds a reference encoder and decoder for the PDF LZW variant
  (9–12 bit MSB-first codes, clear code first and again when the table is full, EOD, EarlyChange 0/1); here the
  round trip is proved for EVERY byte string, so the `hlzw` hypothesis of `chain_rt` is a proved fact about the
  specification.  weezl is tied to the specification on every run (ops `lzwspec`, `lzwenc`).
-/
namespace Lopdf
open Gen Spec.LzwC

/-- **LZW round trip** — every byte string, both `EarlyChange` settings; the proof covers the classic invariant
(decoder table = encoder table minus its newest entry), the KwKwK case, every code-width switch and the
table-full / clear-code path. -/
theorem lzw_round_trip (ec : Bool) (x : Bytes) : lzwDecode ec (lzwEncode ec x) = some x :=
  Spec.LzwC.lzw_round_trip ec x

/-- the known answer of ISO 32000-1 §7.4.4.2: the encoder writes exactly the bytes of the standard's example -/
theorem lzw_iso_example :
    lzwEncode true [45, 45, 45, 45, 45, 65, 45, 45, 45, 66] = [0x80, 0x0B, 0x60, 0x50, 0x22, 0x0C, 0x0C, 0x85, 0x01] := by
  have h : encBits true [45, 45, 45, 45, 45, 65, 45, 45, 45, 66]
      = toBits [0x80, 0x0B, 0x60, 0x50, 0x22, 0x0C, 0x0C, 0x85, 0x01] := by decide
  rw [lzwEncode, h, ofBits_toBits]

/-- bit layer: `w`-bit codes written most-significant-bit first are read back -/
theorem lzw_bits_rt (w c : Nat) (rest : List Bool) (h : c < 2 ^ w) :
    readBits w (codeBits w c ++ rest) = some (c, rest) := readBits_codeBits w c rest h

/-- the specification codec as the `lzw` parameter of the filter model -/
def specLzwExt (inflate : Bytes → Bytes) : Ext :=
  { inflate := inflate, lzw := fun ec y => (lzwDecode ec y).getD [] }

/-- the LZW hypothesis of `chain_rt` / `stream_png_rt`, discharged for the specification codec -/
theorem lzw_hypothesis_spec (inflate : Bytes → Bytes) :
    ∀ e x, (specLzwExt inflate).lzw e (lzwEncode e x) = x := by
  intro e x; simp [specLzwExt, lzw_round_trip]

/-- `chain_rt` with the LZW stages decoded by the proved specification codec: only the flate2 hypotheses remain -/
theorem chain_rt_spec_lzw (inflate deflate : Bytes → Bytes)
    (hfl : ∀ x, inflate (deflate x) = x) (hne : ∀ x, deflate x ≠ [])
    (s : Strm) (c : StageEnc) (cs : List StageEnc) (x : Bytes)
    (hF : s.dict.get K_FILTER = some (.arr ((c :: cs).map fun c => Obj.name c.f.name)))
    (hP : ∀ k (h : k < (c :: cs).length), stageParms s.dict k = ((c :: cs)[k]).p)
    (hv : ChainValid deflate lzwEncode (c :: cs) x)
    (hc : s.content = encChainP deflate lzwEncode (c :: cs) x) :
    decompressedContent (specLzwExt inflate) s = .ok x ∧ getPlainContent (specLzwExt inflate) s = .ok x :=
  chain_rt (specLzwExt inflate) deflate lzwEncode hfl hne (lzw_hypothesis_spec inflate) s c cs x hF hP hv hc

/-- non-vacuity: `Filter [/ASCII85Decode /LZWDecode]`, really LZW-encoded content -/
def lzwToyStream : Strm :=
  { dict := [(K_FILTER, .arr [.name F_A85, .name F_LZW])],
    content := encChainP (fun x => 0 :: x) lzwEncode [⟨.a85, none, none⟩, ⟨.lzw, none, none⟩] [1, 2, 1, 2, 1, 2, 1] }
example : decompressedContent (specLzwExt fun y => y.tail) lzwToyStream = .ok [1, 2, 1, 2, 1, 2, 1] :=
  (chain_rt_spec_lzw (fun y => y.tail) (fun x => 0 :: x) (fun _ => rfl) (fun _ => by simp)
    lzwToyStream ⟨.a85, none, none⟩ [⟨.lzw, none, none⟩] _ rfl
    (by intro k hk; have : k = 0 ∨ k = 1 := by simp at hk; omega
        rcases this with rfl | rfl <;> rfl)
    ⟨Or.inl rfl, Or.inr (by trivial), trivial⟩ rfl).1

end Lopdf
