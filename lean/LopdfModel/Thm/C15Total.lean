import LopdfModel.Thm.C15
import LopdfModel.Thm.C04CMap
import LopdfModel.Spec.CMapSeg
/-
  C15 — `decode_text` on ARBITRARY byte strings, and two shapes of `cmap_get` spelled out.

  * `cmap_decode_total_spec` : for every stored map whose lookups do not panic (every map
    `from_sections` returns) and EVERY byte string, the loop of `Encoding::bytes_to_string`
    (UnicodeMapEncoding) computes exactly `segSpec` (Spec/CMapSeg.lean): lengths 1..4 tried in order,
    first mapped length wins, up to four unmatched bytes become ONE U+FFFD.
  * `cmap_decode_total` / `cmap_decode_total_defines` : the same from the sections of a CMap; for
    a well-formed CMap the lookup is `defines`.
  * `seg_not_longest_match`, `seg_unmapped_byte_swallows`, `seg_five_unmapped` : where this differs from
    other plausible readings.
  * `range_target_carry`, `range_single_carry`, `code4_msb` : corollaries of `cmap_get` for the two
    shapes the seeded changes of round 3 attacked.
-/
namespace Lopdf.CMap
open Lopdf Lopdf.Gen Lopdf.CMapSpec

set_option linter.unusedSimpArgs false

/-! ### the search for the first mapped length -/

theorem firstMapped_hit (f : Nat → Nat → Option (List Nat)) (bs : List Nat) :
    ∀ (tries j k : Nat) (v : List Nat), j ≤ k → k < j + tries → k < bs.length →
      (∀ i, j ≤ i → i < k → f (codeOfBytes (bs.take (i + 1))) (i + 1) = none) →
      f (codeOfBytes (bs.take (k + 1))) (k + 1) = some v →
      firstMapped f bs j tries = some (k, v) := by
  intro tries
  induction tries with
  | zero => intro j k v h1 h2; omega
  | succ t ih =>
    intro j k v h1 h2 h3 hnone hsome
    unfold firstMapped
    have hj : j < bs.length := by omega
    simp only [hj, if_true]
    by_cases e : j = k
    · subst e; simp only [hsome]
    · rw [hnone j (Nat.le_refl _) (by omega)]
      exact ih (j + 1) k v (by omega) (by omega) h3 (fun i hi1 hi2 => hnone i (by omega) hi2) hsome

theorem firstMapped_miss (f : Nat → Nat → Option (List Nat)) (bs : List Nat) :
    ∀ (tries j : Nat),
      (∀ i, j ≤ i → i < j + tries → i < bs.length → f (codeOfBytes (bs.take (i + 1))) (i + 1) = none) →
      firstMapped f bs j tries = none := by
  intro tries
  induction tries with
  | zero => intro j _; rfl
  | succ t ih =>
    intro j h
    unfold firstMapped
    by_cases hj : j < bs.length
    · simp only [hj, if_true, h j (Nat.le_refl _) (by omega) hj]
      exact ih (j + 1) (fun i h1 h2 h3 => h i (by omega) (by omega) h3)
    · simp only [hj, if_false]

theorem segSpec_nil (f : Nat → Nat → Option (List Nat)) : segSpec f [] = [] := by
  rw [segSpec]; simp

theorem segSpec_hit (f : Nat → Nat → Option (List Nat)) (bs : List Nat) (hne : bs ≠ []) {k : Nat} {v : List Nat}
    (h : firstMapped f bs 0 4 = some (k, v)) : segSpec f bs = v ++ segSpec f (bs.drop (k + 1)) := by
  rw [segSpec]; simp only [hne, dite_false, h]

theorem segSpec_miss (f : Nat → Nat → Option (List Nat)) (bs : List Nat) (hne : bs ≠ [])
    (h : firstMapped f bs 0 4 = none) : segSpec f bs = 0xFFFD :: segSpec f (bs.drop 4) := by
  rw [segSpec]; simp only [hne, dite_false, h]

/-! ### the loop computes the specification -/

theorem codeVal_eq (bs : List Nat) : codeVal bs = codeOfBytes bs := rfl

theorem getOrReplacement_of (m : UMap) (f : Nat → Nat → Option (List Nat)) (hg : ∀ c l, get m c l = .ok (f c l))
    (c l : Nat) : getOrReplacement m c l = .ok ((f c l).getD [0xFFFD]) := by
  unfold getOrReplacement
  rw [hg]
  cases f c l <;> rfl

/-- the state after the bytes `pre` (none of whose prefixes is mapped) followed by `rest` -/
theorem seg_total_aux (m : UMap) (f : Nat → Nat → Option (List Nat)) (hg : ∀ c l, get m c l = .ok (f c l)) :
    ∀ (rest pre : List Nat), pre.length ≤ 4 →
      (∀ i, i < pre.length → f (codeOfBytes (pre.take (i + 1))) (i + 1) = none) →
      segLoop m (pre.length, codeVal pre) rest = .ok (segSpec f (pre ++ rest)) := by
  intro rest
  induction rest with
  | nil =>
    intro pre hlen hpre
    cases pre with
    | nil => simp [segLoop, segSpec_nil]
    | cons p pre' =>
      have hn : (p :: pre').length > 0 := by simp
      have hlast := hpre ((p :: pre').length - 1) (by simp)
      have e1 : (p :: pre').length - 1 + 1 = (p :: pre').length := by simp
      rw [e1, List.take_length] at hlast
      rw [segLoop]
      simp only [hn, if_true, getOrReplacement_of m f hg, codeVal_eq, hlast, Option.getD_none, List.append_nil]
      have hmiss : firstMapped f (p :: pre') 0 4 = none :=
        firstMapped_miss f _ 4 0 (fun i _ _ h3 => hpre i h3)
      rw [segSpec_miss f _ (by simp) hmiss]
      have : (p :: pre').drop 4 = [] := List.drop_eq_nil_of_le hlen
      rw [this, segSpec_nil]
  | cons b rest ih =>
    -- fewer than four pending bytes: read `b`
    have step : ∀ pre : List Nat, pre.length < 4 →
        (∀ i, i < pre.length → f (codeOfBytes (pre.take (i + 1))) (i + 1) = none) →
        segLoop m (pre.length, codeVal pre) (b :: rest) = .ok (segSpec f (pre ++ b :: rest)) := by
      intro pre hlen hpre
      have hn : pre.length ≠ CMAP_SEG_MAX := by simp [CMAP_SEG_MAX]; omega
      have htk : (pre ++ b :: rest).take (pre.length + 1) = pre ++ [b] := by
        rw [List.take_length_add_append]; rfl
      have hdrop : (pre ++ b :: rest).drop (pre.length + 1) = rest := by
        rw [List.drop_length_add_append]; rfl
      have hpfx : ∀ i, i < pre.length → (pre ++ b :: rest).take (i + 1) = pre.take (i + 1) := by
        intro i hi
        exact List.take_append_of_le_length (by omega)
      have hsn : codeVal pre * 256 + b = codeOfBytes (pre ++ [b]) := by
        rw [← codeVal_eq, codeVal_snoc]
      rw [segLoop_cons]
      cases hf : f (codeOfBytes (pre ++ [b])) (pre.length + 1) with
      | some v =>
        have hget : get m (codeVal pre * 256 + b) (pre.length + 1) = .ok (some v) := by rw [hg, hsn, hf]
        rw [segStep_hit hn hget]
        dsimp only
        have ih0 := ih [] (by simp) (fun i hi => by simp at hi)
        simp only [List.length_nil, List.nil_append] at ih0
        have hc0 : codeVal [] = 0 := rfl
        rw [hc0] at ih0
        rw [ih0]
        have hhit : firstMapped f (pre ++ b :: rest) 0 4 = some (pre.length, v) :=
          firstMapped_hit f _ 4 0 pre.length v (Nat.zero_le _) (by omega) (by simp)
            (fun i _ hi => by rw [hpfx i hi]; exact hpre i hi) (by rw [htk]; exact hf)
        rw [segSpec_hit f _ (by simp) hhit, hdrop]
      | none =>
        have hget : get m (codeVal pre * 256 + b) (pre.length + 1) = .ok none := by rw [hg, hsn, hf]
        rw [segStep_miss hn hget]
        dsimp only
        have := ih (pre ++ [b]) (by simp; omega) (fun i hi => by
          by_cases h : i < pre.length
          · have : (pre ++ [b]).take (i + 1) = pre.take (i + 1) := List.take_append_of_le_length (by omega)
            rw [this]; exact hpre i h
          · have e : i = pre.length := by simp at hi; omega
            subst e
            have : (pre ++ [b]).take (pre.length + 1) = pre ++ [b] := List.take_of_length_le (by simp)
            rw [this]; exact hf)
        simp only [List.length_append, List.length_singleton, List.append_assoc, List.cons_append, List.nil_append] at this
        rw [hsn, ← codeVal_eq, this]
        simp
    intro pre hlen hpre
    by_cases h4 : pre.length < 4
    · exact step pre h4 hpre
    · -- four pending unmatched bytes: they are flushed as one U+FFFD, then `b` starts a new code
      have e4 : pre.length = 4 := by omega
      have hlast := hpre 3 (by omega)
      have e : pre.take (3 + 1) = pre := List.take_of_length_le (by omega)
      rw [e] at hlast
      have h0 := step [] (by simp) (fun i hi => by simp at hi)
      simp only [List.length_nil, List.nil_append] at h0
      have hc0 : codeVal [] = 0 := rfl
      rw [hc0] at h0
      have hflush : segLoop m (pre.length, codeVal pre) (b :: rest) = prependOk [0xFFFD] (segLoop m (0, 0) (b :: rest)) := by
        rw [segLoop_cons, segLoop_cons]
        have hrep : getOrReplacement m (codeVal pre) CMAP_SEG_MAX = .ok [0xFFFD] := by
          rw [getOrReplacement_of m f hg, codeVal_eq]
          have : CMAP_SEG_MAX = 4 := rfl
          rw [this, hlast]; rfl
        have hs : segStep m (pre.length, codeVal pre) b =
            match segStep m (0, 0) b with
            | .ok (st, out) => .ok (st, 0xFFFD :: out)
            | .err x => .err x
            | .panic x => .panic x := by
          have hmax : pre.length = CMAP_SEG_MAX := e4
          have h0n : (0 : Nat) ≠ CMAP_SEG_MAX := by decide
          simp only [segStep, hmax, if_true, hrep, h0n, if_false, hg]
          cases f (0 * 256 + b) (0 + 1) <;> simp
        rw [hs]
        cases segStep m (0, 0) b with
        | ok r =>
          obtain ⟨st, out⟩ := r
          dsimp only
          cases segLoop m st rest <;> simp [prependOk]
        | err x => rfl
        | panic x => rfl
      rw [hflush, h0]
      have hmiss : firstMapped f (pre ++ b :: rest) 0 4 = none :=
        firstMapped_miss f _ 4 0 (fun i _ hi4 _ => by
          have : (pre ++ b :: rest).take (i + 1) = pre.take (i + 1) := List.take_append_of_le_length (by omega)
          rw [this]; exact hpre i (by omega))
      rw [segSpec_miss f _ (by simp) hmiss]
      have : (pre ++ b :: rest).drop 4 = b :: rest := by rw [← e4]; simp
      rw [this]; rfl

/-- **cmap_decode_total_spec** — for every stored map whose lookups answer `f` (no panic) and EVERY byte
string — any length, mapped or unmapped codes, prefix-free or not, trailing partial codes — the loop of
`Encoding::bytes_to_string` produces exactly the units `segSpec f` denotes. -/
theorem cmap_decode_total_spec (m : UMap) (f : Nat → Nat → Option (List Nat))
    (hg : ∀ c l, get m c l = .ok (f c l)) (bytes : List Nat) :
    bytesToUnits m bytes = .ok (segSpec f bytes) := by
  have := seg_total_aux m f hg bytes [] (by simp) (fun i hi => by simp at hi)
  simp only [List.length_nil, List.nil_append] at this
  exact this

/-! ### from the sections of a CMap -/

/-- the lookup of a stored map as a plain function (`none` also where `get` would panic — which it
never does on a map `from_sections` returned) -/
def getOpt (m : UMap) (c l : Nat) : Option (List Nat) :=
  match get m c l with
  | .ok v => v
  | _ => none

theorem targetAt_not_err (c : Nat) (t : Target) : ∀ e, targetAt c t ≠ .err e := by
  intro e
  cases t with
  | hex st v =>
    simp only [targetAt]
    cases hv : v.getLast? with
    | none => simp
    | some last => by_cases h : c < st <;> simp [h]
  | cp off => simp [targetAt]
  | arr st vs => simp only [targetAt]; by_cases h : c < st <;> simp [h]

theorem get_not_err (m : UMap) (c l : Nat) : ∀ e, get m c l ≠ .err e := by
  intro e
  unfold get
  by_cases hb : badLen l = true
  · simp [hb]
  · simp only [hb, Bool.false_eq_true, if_false]
    cases rmGetKV (m l) c with
    | none => simp
    | some r => obtain ⟨_, _, t⟩ := r; exact targetAt_not_err c t e

theorem get_eq_getOpt (m : UMap) (hp : ∀ c l, (get m c l).isPanic = false) (c l : Nat) :
    get m c l = .ok (getOpt m c l) := by
  unfold getOpt
  cases h : get m c l with
  | ok v => rfl
  | err e => exact absurd h (get_not_err m c l e)
  | panic s => have := hp c l; rw [h] at this; simp [Outcome.isPanic] at this

/-- **cmap_decode_total** — for EVERY CMap `from_sections` accepts (well-formed or not) and every byte
string, `bytes_to_string`'s loop neither fails nor panics and produces the units `segSpec` denotes
under the map's own lookup. -/
theorem cmap_decode_total (ss : List Section) (m : UMap) (h : fromSections ss = some m) (bytes : List Nat) :
    bytesToUnits m bytes = .ok (segSpec (getOpt m) bytes) :=
  cmap_decode_total_spec m (getOpt m) (get_eq_getOpt m (cmap_get_never_panics ss m h)) bytes

theorem lastCovering_bound {ds : List Def} (hwf : ∀ d ∈ ds, d.wf) {c l : Nat} (hc : U32 ≤ c) :
    lastCovering ds c l = none := by
  cases hl : lastCovering ds c l with
  | none => rfl
  | some D =>
    have hD := lastCoveringFrom_some hl
    simp only [reduceCtorEq, or_false] at hD
    obtain ⟨hmem, hcov⟩ := hD
    obtain ⟨_, _, hhi⟩ := covers_iff.mp hcov
    have w := hwf D hmem
    exfalso
    have hp : ∀ len, len ≤ 4 → 256 ^ len ≤ U32 := by
      intro len h; have := Nat.pow_le_pow_right (show 1 ≤ 256 by omega) h; unfold U32; omega
    cases D with
    | char code len dst =>
      simp only [Def.hi] at hhi
      have := hp len w.2.1; have := w.2.2.1; omega
    | range lo hi len dsts =>
      simp only [Def.hi] at hhi
      have := hp len w.2.1; have := w.2.2.2.1; omega

/-- `cmap_get` without the bound on the code: beyond `u32` nothing is mapped and nothing is defined -/
theorem cmap_get_any (ss : List Section) (hwf : ∀ d ∈ defsOf ss, d.wf) (c l : Nat) :
    ∃ m, fromSections ss = some m ∧ get m c l = .ok (defines (defsOf ss) c l) := by
  by_cases hc : c < U32
  · exact cmap_get ss hwf c l hc
  · obtain ⟨m, hm, hget⟩ := get_eq_stored ss (wf_ok hwf) c l
    refine ⟨m, hm, ?_⟩
    have hn := lastCovering_bound hwf (c := c) (l := l) (by omega)
    rw [hget]; unfold defines; rw [hn]; rfl

/-- **cmap_decode_total_defines** — the property for ARBITRARY byte strings: for every well-formed CMap
and every byte string, the decoded units are `segSpec` under what the CMap `defines`. (For strings of
mapped prefix-free codes this is the concatenation of the targets: `cmap_decode`.) -/
theorem cmap_decode_total_defines (ss : List Section) (hwf : ∀ d ∈ defsOf ss, d.wf) (bytes : List Nat) :
    ∃ m, fromSections ss = some m ∧ bytesToUnits m bytes = .ok (segSpec (defines (defsOf ss)) bytes) := by
  obtain ⟨m, hm, _⟩ := cmap_get_any ss hwf 0 0
  refine ⟨m, hm, cmap_decode_total_spec m _ (fun c l => ?_) bytes⟩
  obtain ⟨m', hm', hg⟩ := cmap_get_any ss hwf c l
  rw [hm] at hm'
  rw [Option.some.inj hm']; exact hg

/-- … and the text `decode_text` returns -/
theorem cmap_decode_text_total (ss : List Section) (hwf : ∀ d ∈ defsOf ss, d.wf) (bytes : List Nat) :
    ∃ m, fromSections ss = some m ∧
      (bytesToUnits m bytes).map decodeUnits = .ok (utf16Scalars (segSpec (defines (defsOf ss)) bytes)) := by
  obtain ⟨m, hm, hb⟩ := cmap_decode_total_defines ss hwf bytes
  exact ⟨m, hm, by rw [hb]; rfl⟩

/-! ### what the specification says where readings differ (each also a run of the model) -/

/-- a 1-byte code `<41>` and a 2-byte code `<4142>` -/
def witShort : List Section := [.bfChar [((0x41, 1), [0x41]), ((0x4142, 2), [0x58])]]

theorem witShort_wf : ∀ d ∈ defsOf witShort, d.wf := by
  intro d hd
  simp [witShort, defsOf, defsOfChars] at hd
  rcases hd with h | h <;> subst h <;> simp [Def.wf]

/-- value of the specification on a concrete CMap and string, read off a run of the model -/
theorem segSpec_eval (ss : List Section) (hwf : ∀ d ∈ defsOf ss, d.wf) (bytes us : List Nat)
    (h : (fromSections ss).map (fun m => bytesToUnits m bytes) = some (.ok us)) :
    segSpec (defines (defsOf ss)) bytes = us := by
  obtain ⟨m, hm, hb⟩ := cmap_decode_total_defines ss hwf bytes
  rw [hm, Option.map_some, hb] at h
  injection h with h; injection h with h

/-- **shortest match first, not longest match**: with `<41>` and `<4142>` both mapped, the bytes `41 42`
are "A" followed by U+FFFD (the lone `42`), although the longest mapped prefix is the whole string. -/
theorem seg_not_longest_match :
    segSpec (defines (defsOf witShort)) [0x41, 0x42] = [0x41, 0xFFFD] ∧
    lastMapped (defines (defsOf witShort)) [0x41, 0x42] 4 = some (1, [0x58]) := by
  refine ⟨segSpec_eval witShort witShort_wf _ _ (by decide), by decide⟩

/-- **an unmapped byte is not skipped alone**: with only `<41>` mapped, `FF 41` is ONE U+FFFD (the "A" is
swallowed into the unmatched code `FF41`), and `FF 41 41 41 41` is U+FFFD followed by one "A". -/
def witA1 : List Section := [.bfChar [((0x41, 1), [0x41])]]
theorem witA1_wf : ∀ d ∈ defsOf witA1, d.wf := by
  intro d hd
  simp [witA1, defsOf, defsOfChars] at hd
  subst hd; simp [Def.wf]
theorem seg_unmapped_byte_swallows :
    segSpec (defines (defsOf witA1)) [0xFF, 0x41] = [0xFFFD] ∧
    segSpec (defines (defsOf witA1)) [0xFF, 0x41, 0x41, 0x41, 0x41] = [0xFFFD, 0x41] ∧
    segSpec (defines (defsOf witA1)) [0x41, 0xFF] = [0x41, 0xFFFD] := by
  refine ⟨segSpec_eval witA1 witA1_wf _ _ (by decide), segSpec_eval witA1 witA1_wf _ _ (by decide),
    segSpec_eval witA1 witA1_wf _ _ (by decide)⟩

/-- **one U+FFFD per four unmatched bytes**: four unmapped bytes give one, five give two, eight two, nine three. -/
theorem seg_five_unmapped :
    segSpec (defines (defsOf witA1)) [1, 2, 3, 4] = [0xFFFD] ∧
    segSpec (defines (defsOf witA1)) [1, 2, 3, 4, 5] = [0xFFFD, 0xFFFD] ∧
    segSpec (defines (defsOf witA1)) [1, 2, 3, 4, 5, 6, 7, 8] = [0xFFFD, 0xFFFD] ∧
    segSpec (defines (defsOf witA1)) [1, 2, 3, 4, 5, 6, 7, 8, 9] = [0xFFFD, 0xFFFD, 0xFFFD] := by
  refine ⟨segSpec_eval witA1 witA1_wf _ _ (by decide), segSpec_eval witA1 witA1_wf _ _ (by decide),
    segSpec_eval witA1 witA1_wf _ _ (by decide), segSpec_eval witA1 witA1_wf _ _ (by decide)⟩

/-- on prefix-free mapped codes the specification is the concatenation of the targets (it agrees with
`cmap_decode`; stated here for the specification itself) -/
theorem segSpec_prefix_free (ss : List Section) (hwf : ∀ d ∈ defsOf ss, d.wf)
    (codes : List (List Nat × List Nat)) (hcodes : ∀ p ∈ codes, DefinedCode (defsOf ss) p.1 p.2) :
    segSpec (defines (defsOf ss)) (codes.flatMap (·.1)) = codes.flatMap (·.2) := by
  obtain ⟨m, hm, hb⟩ := cmap_decode ss hwf codes hcodes
  obtain ⟨m', hm', hb'⟩ := cmap_decode_total_defines ss hwf (codes.flatMap (·.1))
  rw [hm] at hm'
  rw [← Option.some.inj hm', hb] at hb'
  injection hb' with h; exact h.symm

/-! ### two shapes of `cmap_get` spelled out (the seeded changes of round 3 attacked exactly these) -/

/-- **range_target_carry** — a multi-unit incrementing bfrange target: wherever the definition
`<lo> <hi> <… last>` is the last one covering the code, `get` returns the target with the WHOLE 16-bit last
unit increased by the offset — a low byte that passes FF carries into the high byte of that unit (and
never into the unit before it). -/
theorem range_target_carry (ss : List Section) (hwf : ∀ d ∈ defsOf ss, d.wf)
    (lo hi len : Nat) (t : List Nat) (last c : Nat)
    (hD : lastCovering (defsOf ss) c len = some (.range lo hi len [t])) (hl : t.getLast? = some last) :
    ∃ m, fromSections ss = some m ∧
      get m c len = .ok (some (t.dropLast ++ [last + (c - lo)])) ∧
      (last + (c - lo)) / 256 = last / 256 + (last % 256 + (c - lo)) / 256 ∧
      (last + (c - lo)) % 256 = (last % 256 + (c - lo)) % 256 ∧
      last + (c - lo) < 65536 := by
  obtain ⟨m, hm, hg⟩ := cmap_get_any ss hwf c len
  have hDm := lastCoveringFrom_some hD
  simp only [reduceCtorEq, or_false] at hDm
  obtain ⟨_, _, hhi⟩ := covers_iff.mp hDm.2
  have w := hwf _ hDm.1
  have hfit : last + (hi - lo) < 65536 := w.2.2.2.2.2.2 last hl
  simp only [Def.hi] at hhi
  refine ⟨m, hm, ?_, by omega, by omega, by omega⟩
  rw [hg]
  simp only [defines, hD, Option.bind_some, Def.target, hl]

/-- the same for a single-unit incrementing target (stored as an offset) -/
theorem range_single_carry (ss : List Section) (hwf : ∀ d ∈ defsOf ss, d.wf)
    (lo hi len u c : Nat) (hD : lastCovering (defsOf ss) c len = some (.range lo hi len [[u]])) :
    ∃ m, fromSections ss = some m ∧ get m c len = .ok (some [u + (c - lo)]) ∧
      (u + (c - lo)) / 256 = u / 256 + (u % 256 + (c - lo)) / 256 := by
  obtain ⟨m, hm, hg⟩ := cmap_get_any ss hwf c len
  refine ⟨m, hm, ?_, by omega⟩
  rw [hg]
  simp [defines, hD, Def.target]

/-- instances: `<10> <13> <004100FE>` at code 12 is `0041 0100`; `<00> <FF> <00F0>` at code 20 is `0110` -/
def witCarry : List Section :=
  [.bfRange [((0x10, 0x13, 1), [[0x41, 0x00FE]])], .bfRange [((0x00, 0xFF, 2), [[0x00F0]])]]
theorem range_target_carry_example :
    getAfter witCarry 0x12 1 = some (.ok (some [0x41, 0x0100])) ∧
    getAfter witCarry 0x13 1 = some (.ok (some [0x41, 0x0101])) ∧
    getAfter witCarry 0x20 2 = some (.ok (some [0x0110])) ∧
    (fromSections witCarry).map (fun m => bytesToUnits m [0x12, 0x00, 0x20]) = some (.ok [0x41, 0x0100, 0x0110]) := by
  decide

/-- **code4_msb** — 4-byte source codes with a non-zero first byte: the code is the full 32-bit big-endian
number (≥ 2^24); `get` with length 4 returns what the CMap defines for it; and a string consisting of such
a code, mapped and with no mapped proper prefix, decodes to its target. -/
theorem code4_msb (ss : List Section) (hwf : ∀ d ∈ defsOf ss, d.wf) (b0 b1 b2 b3 : Nat)
    (h0 : 0 < b0) (hb0 : b0 < 256) (hb1 : b1 < 256) (hb2 : b2 < 256) (hb3 : b3 < 256) :
    codeOfBytes [b0, b1, b2, b3] = b0 * 16777216 + b1 * 65536 + b2 * 256 + b3 ∧
    16777216 ≤ codeOfBytes [b0, b1, b2, b3] ∧
    ∃ m, fromSections ss = some m ∧
      get m (codeOfBytes [b0, b1, b2, b3]) 4 = .ok (defines (defsOf ss) (codeOfBytes [b0, b1, b2, b3]) 4) ∧
      ∀ v, DefinedCode (defsOf ss) [b0, b1, b2, b3] v → bytesToUnits m [b0, b1, b2, b3] = .ok v := by
  have e : codeOfBytes [b0, b1, b2, b3] = b0 * 16777216 + b1 * 65536 + b2 * 256 + b3 := by
    simp [codeOfBytes]; omega
  refine ⟨e, by omega, ?_⟩
  obtain ⟨m, hm, hg⟩ := cmap_get_any ss hwf (codeOfBytes [b0, b1, b2, b3]) 4
  refine ⟨m, hm, hg, fun v hv => ?_⟩
  obtain ⟨m', hm', hd⟩ := cmap_decode ss hwf [([b0, b1, b2, b3], v)] (fun p hp => by simp at hp; subst hp; exact hv)
  rw [hm] at hm'
  rw [Option.some.inj hm']
  simpa using hd

/-- the parser reads a written 4-byte code with a non-zero first byte back as that 32-bit number -/
theorem code4_msb_parse (c : Nat) (h : 16777216 ≤ c) (hc : c < 4294967296) (rest : Bytes) :
    psourceCode (CMapRender.renderCode c 4 ++ rest) = .ok (c, 4) rest :=
  psourceCode_render c 4 (by omega) (by omega) (by omega) rest

/-- instance: `<80000001> <263A>` next to a 1-byte code -/
def witMsb : List Section := [.bfChar [((0x80000001, 4), [0x263A]), ((0x41, 1), [0x41])]]
theorem code4_msb_example :
    getAfter witMsb 0x80000001 4 = some (.ok (some [0x263A])) ∧ getAfter witMsb 0x00000001 4 = some (.ok none) ∧
    getAfter witMsb 0x000001 3 = some (.ok none) ∧
    (fromSections witMsb).map (fun m => bytesToUnits m [0x80, 0x00, 0x00, 0x01, 0x41]) = some (.ok [0x263A, 0x41]) := by
  decide

end Lopdf.CMap
