import LopdfModel.Thm.C11Dangle
/-
  C11 — property theorems, part 8: the invariant bundle `Sound`, the precondition of every editing call, and
  `sound_step` / `sound_run`.
-/
namespace Lopdf.Ed
open Lopdf Lopdf.DictL

/-! ### the remaining calls on a well-formed document -/

/-- the ids the page-tree invariant talks about: catalog, `Pages` nodes, pages -/
def InTree (cat rid : ObjId) (ks : List PT) (x : ObjId) : Prop :=
  x = cat ∨ x ∈ nodeIds (.pages rid ks) ∨ x ∈ PT.leavesL ks

mutual
theorem shape_isDict (os : Objects) : ∀ (t : PT) (top : Option ObjId), Shape os top t →
    ∀ x, (x ∈ nodeIds t ∨ x ∈ t.leaves) → ∃ nd, os.get x = some (.dict nd)
  | .page id, top, h, x, hx => by
    simp only [Shape] at h
    obtain ⟨pd, h1, _⟩ := h
    simp [nodeIds, PT.leaves] at hx; subst hx; exact ⟨pd, h1⟩
  | .pages id ks, top, h, x, hx => by
    simp only [Shape] at h
    obtain ⟨nd, h1, _, _, _, hch⟩ := h
    simp only [nodeIds, List.mem_cons, PT.leaves] at hx
    rcases hx with (rfl | hx) | hx
    · exact ⟨nd, h1⟩
    · exact shapeL_isDict os ks (some id) hch x (Or.inl hx)
    · exact shapeL_isDict os ks (some id) hch x (Or.inr hx)
theorem shapeL_isDict (os : Objects) : ∀ (ks : List PT) (top : Option ObjId), ShapeL os top ks →
    ∀ x, (x ∈ nodeIdsL ks ∨ x ∈ PT.leavesL ks) → ∃ nd, os.get x = some (.dict nd)
  | [], _, _, x, hx => by simp [nodeIdsL, PT.leavesL] at hx
  | t :: ts, top, h, x, hx => by
    simp only [ShapeL] at h
    simp only [nodeIdsL, PT.leavesL, List.mem_append] at hx
    rcases hx with (hx | hx) | (hx | hx)
    · exact shape_isDict os t top h.1 x (Or.inl hx)
    · exact shapeL_isDict os ts top h.2 x (Or.inl hx)
    · exact shape_isDict os t top h.1 x (Or.inr hx)
    · exact shapeL_isDict os ts top h.2 x (Or.inr hx)
end

theorem inTree_isDict (d : Doc) (cat rid : ObjId) (ks : List PT) (h : PagesInv d cat rid ks) (x : ObjId)
    (hx : InTree cat rid ks x) : ∃ nd, d.objects.get x = some (.dict nd) := by
  rcases hx with rfl | hx | hx
  · obtain ⟨cd, hc, _⟩ := h.catObj; exact ⟨cd, hc⟩
  · exact shape_isDict d.objects _ none h.shape x (Or.inl hx)
  · exact shape_isDict d.objects _ none h.shape x (Or.inr (by simpa [PT.leaves] using hx))

mutual
theorem shape_reach (roots : List ObjId) (os : Objects) : ∀ (t : PT) (top : Option ObjId), Shape os top t →
    Reach roots (fun id => os.get id) t.id →
    ∀ x, (x ∈ nodeIds t ∨ x ∈ t.leaves) → Reach roots (fun id => os.get id) x
  | .page id, top, _, hr, x, hx => by
    simp [nodeIds, PT.leaves] at hx; subst hx; exact hr
  | .pages id ks, top, h, hr, x, hx => by
    simp only [Shape] at h
    obtain ⟨nd, h1, _, _, hk, hch⟩ := h
    have hkids : ∀ t ∈ ks, Reach roots (fun id => os.get id) t.id := by
      intro t ht
      apply Reach.step hr (o := .dict nd) h1
      simp only [refsOf]
      exact refs_of_get nd KIDS _ hk t.id (by simp only [refsOf]; exact mem_refs_idsL ks t ht)
    simp only [nodeIds, List.mem_cons, PT.leaves] at hx
    rcases hx with (rfl | hx) | hx
    · exact hr
    · exact shapeL_reach roots os ks (some id) hch hkids x (Or.inl hx)
    · exact shapeL_reach roots os ks (some id) hch hkids x (Or.inr hx)
theorem shapeL_reach (roots : List ObjId) (os : Objects) : ∀ (ks : List PT) (top : Option ObjId), ShapeL os top ks →
    (∀ t ∈ ks, Reach roots (fun id => os.get id) t.id) →
    ∀ x, (x ∈ nodeIdsL ks ∨ x ∈ PT.leavesL ks) → Reach roots (fun id => os.get id) x
  | [], _, _, _, x, hx => by simp [nodeIdsL, PT.leavesL] at hx
  | t :: ts, top, h, hr, x, hx => by
    simp only [ShapeL] at h
    simp only [nodeIdsL, PT.leavesL, List.mem_append] at hx
    have h1 := hr t List.mem_cons_self
    have h2 : ∀ t' ∈ ts, Reach roots (fun id => os.get id) t'.id := fun t' ht => hr t' (List.mem_cons_of_mem _ ht)
    rcases hx with (hx | hx) | (hx | hx)
    · exact shape_reach roots os t top h.1 h1 x (Or.inl hx)
    · exact shapeL_reach roots os ts top h.2 h2 x (Or.inl hx)
    · exact shape_reach roots os t top h.1 h1 x (Or.inr hx)
    · exact shapeL_reach roots os ts top h.2 h2 x (Or.inr hx)
end

/-- catalog, `Pages` nodes and pages of a well-formed document are reachable from the trailer -/
theorem inTree_reach (d : Doc) (cat rid : ObjId) (ks : List PT) (h : PagesInv d cat rid ks) (x : ObjId)
    (hx : InTree cat rid ks x) : Reach (refsOfD d.trailer) (fun id => d.objects.get id) x := by
  have hcat : Reach (refsOfD d.trailer) (fun id => d.objects.get id) cat :=
    Reach.root (refs_of_get d.trailer ROOT _ h.trRoot cat (by simp [refsOf]))
  obtain ⟨cd, hc1, _, hc3⟩ := h.catObj
  have hrid : Reach (refsOfD d.trailer) (fun id => d.objects.get id) rid :=
    Reach.step hcat (o := .dict cd) hc1 (by simp only [refsOf]; exact refs_of_get cd PAGES _ hc3 rid (by simp [refsOf]))
  rcases hx with rfl | hx | hx
  · exact hcat
  · exact shape_reach _ d.objects _ none h.shape hrid x (Or.inl hx)
  · exact shape_reach _ d.objects _ none h.shape hrid x (Or.inr (by simpa [PT.leaves] using hx))

/-- `prune_objects` keeps the page tree -/
theorem pagesInv_prune (d : Doc) (cat rid : ObjId) (ks : List PT) (h : PagesInv d cat rid ks) :
    PagesInv (pruneObjects d).1 cat rid ks := by
  obtain ⟨htr, hob⟩ := prune_exact d
  exact pagesInv_keep d _ cat rid ks h htr
    (fun x hx => keepAt_of_eq _ _ x ((hob x).1 (inTree_reach d cat rid ks h x hx)))

/-- `prune_objects` introduces no dangling reference -/
theorem noNew_prune (d : Doc) : NoNew d (pruneObjects d).1 := by
  obtain ⟨htr, hob⟩ := prune_exact d
  have hkeep : ∀ k o, (pruneObjects d).1.objects.get k = some o →
      Reach (refsOfD d.trailer) (fun id => d.objects.get id) k ∧ d.objects.get k = some o := by
    intro k o hk
    by_cases hr : Reach (refsOfD d.trailer) (fun id => d.objects.get id) k
    · exact ⟨hr, by rw [← (hob k).1 hr]; exact hk⟩
    · rw [(hob k).2 hr] at hk; cases hk
  intro r ⟨hh, hn⟩
  have hreach : Reach (refsOfD d.trailer) (fun id => d.objects.get id) r ∧ HasRef d r := by
    rcases hh with hh | ⟨k, o, hk, hr⟩
    · rw [htr] at hh; exact ⟨Reach.root hh, Or.inl hh⟩
    · obtain ⟨h1, h2⟩ := hkeep k o hk
      exact ⟨Reach.step h1 h2 hr, Or.inr ⟨k, o, h2, hr⟩⟩
  exact ⟨hreach.2, by rw [← (hob r).1 hreach.1]; exact hn⟩

/-- `delete_object(p)` for an object outside the page tree keeps the tree, bookkeeping included -/
theorem pagesInv_delete (d : Doc) (cat rid : ObjId) (ks : List PT) (h : PagesInv d cat rid ks) (p : ObjId)
    (hp : ¬ InTree cat rid ks p) : PagesInv (deleteObject d p).1 cat rid ks := by
  have hpn : p ∉ nodeIds (.pages rid ks) := fun hm => hp (Or.inr (Or.inl hm))
  have hpc : p ≠ cat := fun e => hp (Or.inl e)
  have hpl : p ∉ PT.leavesL ks := fun hm => hp (Or.inr (Or.inr hm))
  obtain ⟨a, b, c, s, t⟩ := inv_deleteObject d cat rid ks h p hpn hpc
  rw [removeLeafL_of_not_mem p ks hpl] at s
  exact { trN := a, trRoot := b, catObj := c, shape := s, counts := t, nodesN := h.nodesN, leavesN := h.leavesN,
          disj := h.disj, catOut := h.catOut, height := h.height }

theorem pagesInv_foldl_delete (cat rid : ObjId) (ks : List PT) : ∀ (ids : List ObjId) (d : Doc),
    PagesInv d cat rid ks → (∀ p ∈ ids, ¬ InTree cat rid ks p) →
    PagesInv (ids.foldl (fun d id => (deleteObject d id).1) d) cat rid ks
  | [], _, h, _ => h
  | p :: ps, d, h, ho => by
    simp only [List.foldl_cons]
    exact pagesInv_foldl_delete cat rid ks ps _ (pagesInv_delete d cat rid ks h p (ho p List.mem_cons_self))
      (fun q hq => ho q (List.mem_cons_of_mem _ hq))

/-- `delete_zero_length_streams` keeps the page tree (its nodes are dictionaries, not streams) -/
theorem pagesInv_delZero (d : Doc) (cat rid : ObjId) (ks : List PT) (h : PagesInv d cat rid ks) :
    PagesInv (deleteZeroLengthStreams d).1 cat rid ks := by
  unfold deleteZeroLengthStreams
  apply pagesInv_foldl_delete cat rid ks _ d h
  intro p hp hin
  obtain ⟨nd, hnd⟩ := inTree_isDict d cat rid ks h p hin
  have := (List.mem_filter.mp hp).2
  rw [hnd] at this; simp [isEmptyStream] at this

/-- `set_object(id, o)` / `objects.insert` outside the page tree -/
theorem pagesInv_insert (d : Doc) (cat rid : ObjId) (ks : List PT) (h : PagesInv d cat rid ks) (id : ObjId) (o : Obj)
    (m : Nat) (hp : ¬ InTree cat rid ks id) :
    PagesInv { d with maxId := m, objects := d.objects.insert id o } cat rid ks :=
  pagesInv_keep d _ cat rid ks h rfl (fun x hx => keepAt_of_eq _ _ x (by
    have : id ≠ x := fun e => hp (e ▸ hx)
    simp [Objects.get_insert, this]))

theorem noNew_insert (d : Doc) (id : ObjId) (o : Obj) (m : Nat)
    (hr : ∀ r ∈ refsOf o, (d.objects.get r).isSome ∨ r = id ∨ HasRef d r) :
    NoNew d { d with maxId := m, objects := d.objects.insert id o } := by
  intro r ⟨hh, hn⟩
  simp only [Objects.get_insert] at hn
  by_cases e : id = r
  · simp [e] at hn
  · simp only [e, if_false] at hn
    refine ⟨?_, hn⟩
    rcases hh with hh | ⟨k, o', hk, hro⟩
    · exact Or.inl hh
    · simp only [Objects.get_insert] at hk
      by_cases e2 : id = k
      · simp only [e2, if_true, Option.some.injEq] at hk; subst hk
        rcases hr r hro with h1 | h1 | h1
        · rw [hn] at h1; cases h1
        · exact absurd h1.symm e
        · exact h1
      · simp only [e2, if_false] at hk; exact Or.inr ⟨k, o', hk, hro⟩

/-! ### the bundle -/

/-- **what "sound" means for a document under edit**: `max_id` bounds every object number and the map is sorted
(so `max_id + 1` is fresh); every stream's `Length` is the length of its content; trailer → catalog → page tree
with exact `Kids`, `Parent` and `Count` everywhere (`page_iter` = the tree's leaves). The reference part of the
property is relational (`NoNew`), so that documents that already hold dangling references are covered. -/
structure Sound (d : Doc) (cat rid : ObjId) (ks : List PT) : Prop where
  wf : WF d
  len : LenInv d
  pages : PagesInv d cat rid ks

/-- the zero-length streams `delete_zero_length_streams` deletes, in its order -/
def zeroIds (d : Doc) : List ObjId := d.objects.keys.filter (fun k => isEmptyStream (d.objects.get k))

/-- **the precondition of each call.** `True` = none. -/
def opGuard (d : Doc) (cat rid : ObjId) (ks : List PT) : Op → Prop
  | .newId => True
  -- the object handed in: consistent `Length` if a stream; its references resolve (or name the object itself)
  | .add o => LenOK o ∧ ∀ r ∈ refsOf o, (d.objects.get r).isSome ∨ r = (d.maxId + 1, 0) ∨ HasRef d r
  -- likewise; and it does not overwrite the catalog, a `Pages` node or a page
  | .set id o => LenOK o ∧ (∀ r ∈ refsOf o, (d.objects.get r).isSome ∨ r = id ∨ HasRef d r) ∧ ¬ InTree cat rid ks id
  -- F-C11-a (narrowed): the holders of references to `id` are visited and are not bare references; and `id` is
  -- not part of the page tree (pages are deleted with `delete_pages`, which also repairs `Count`)
  | .del id => DelGuard d id ∧ ¬ InTree cat rid ks id
  | .prune => True
  | .delZero => delAllGuard d (zeroIds d)
  -- not a step of this bundle: `renumber_objects` renames ids; what it preserves is C10's `renumber_iso`
  | .renumber _ => False
  | .delPages ns => delPagesGuard (pageIter d.trailer d.objects) d ns
  | .addContent _ _ => True
  | .removeAnnot _ => True
  -- the resource name is not one of the five keys the page tree reads (matters only when the XObject dictionary
  -- is, through a reference, a page-tree node); the target resolves
  | .addXObject _ name xid => name ∉ Prot ∧ ((d.objects.get xid).isSome ∨ HasRef d xid)
  | .addGState _ _ gid => (d.objects.get gid).isSome ∨ HasRef d gid
  | .changeStream _ _ _ => True
  | .changePage _ _ _ => True
  | .compress _ => True
  | .decompress _ => True

/-- the page list after a call -/
def leavesAfter (ls : List ObjId) : Op → List ObjId
  | .delPages ns => ls.filter (fun x => !(namedPages ls ns).contains x)
  | _ => ls

theorem sound_of (d d' : Doc) (cat rid : ObjId) (ks ks' : List PT) (op : Op) (out : Out) (h : Sound d cat rid ks)
    (hlen : opLenGuard op) (hs : step d op = .ok (d', out)) (hp : PagesInv d' cat rid ks') : Sound d' cat rid ks' :=
  ⟨wf_step d op h.wf d' out hs, len_step d op h.len hlen d' out hs, hp⟩

/-- **C11, one call.** On a sound document, a call that meets its precondition and returns leaves a sound
document, introduces no dangling reference, and the page list is what it was — minus the named pages for
`delete_pages`. -/
theorem sound_step (d : Doc) (cat rid : ObjId) (ks : List PT) (op : Op) (h : Sound d cat rid ks)
    (hg : opGuard d cat rid ks op) (d' : Doc) (out : Out) (hs : step d op = .ok (d', out)) :
    ∃ ks', Sound d' cat rid ks' ∧ NoNew d d' ∧ PT.leavesL ks' = leavesAfter (PT.leavesL ks) op := by
  have hinv : Inv d := h.wf.inv
  -- the mild calls
  have mild : ∀ (Ex : ObjId → Prop), opLenGuard op → MildStep Ex d d' →
      (∀ r, Ex r → (d'.objects.get r).isSome ∨ HasRef d r) → (∀ ns, op ≠ .delPages ns) →
      ∃ ks', Sound d' cat rid ks' ∧ NoNew d d' ∧ PT.leavesL ks' = leavesAfter (PT.leavesL ks) op := by
    intro Ex hl m hex hop
    refine ⟨ks, sound_of d d' cat rid ks ks op out h hl hs (pagesInv_of_mild m cat rid ks h.pages), noNew_of_mild m hex, ?_⟩
    cases op <;> first | rfl | exact absurd rfl (hop _)
  cases op with
  | newId =>
    have hs' := hs
    simp only [step] at hs'; split at hs' <;> cases hs'
    exact mild (fun _ => False) trivial (mildStep_of_same _ d _ rfl rfl) (fun _ h => h.elim) (fun _ e => by cases e)
  | add o =>
    have hs' := hs
    simp only [step] at hs'; split at hs' <;> cases hs'
    simp only [opGuard] at hg
    have m := mildStep_addObject (fun r => (d.objects.get r).isSome ∨ r = (d.maxId + 1, 0) ∨ HasRef d r) d o
      (fresh_id d hinv) hg.2
    refine mild _ hg.1 m ?_ (fun _ e => by cases e)
    intro r hr
    rcases hr with hr | hr | hr
    · exact Or.inl (mildStep_isSome m r hr)
    · subst hr; left; rw [addObject_get]; simp
    · exact Or.inr hr
  | set id o =>
    have hs' := hs
    simp only [step] at hs'; cases hs'
    simp only [opGuard] at hg
    exact ⟨ks, sound_of d _ cat rid ks ks (.set id o) _ h hg.1 hs (pagesInv_insert d cat rid ks h.pages id o _ hg.2.2),
      noNew_insert d id o _ hg.2.1, rfl⟩
  | del id =>
    have hs' := hs
    simp only [step] at hs'; cases hs'
    simp only [opGuard] at hg
    exact ⟨ks, sound_of d _ cat rid ks ks (.del id) _ h trivial hs (pagesInv_delete d cat rid ks h.pages id hg.2),
      noNew_delete d id hg.1.1 hg.1.2, rfl⟩
  | prune =>
    have hs' := hs
    simp only [step] at hs'; cases hs'
    exact ⟨ks, sound_of d _ cat rid ks ks .prune _ h trivial hs (pagesInv_prune d cat rid ks h.pages), noNew_prune d, rfl⟩
  | delZero =>
    have hs' := hs
    simp only [step] at hs'; cases hs'
    simp only [opGuard] at hg
    exact ⟨ks, sound_of d _ cat rid ks ks .delZero _ h trivial hs (pagesInv_delZero d cat rid ks h.pages),
      noNew_foldl_delete _ d hg, rfl⟩
  | renumber s => exact hg.elim
  | delPages ns =>
    have hs' := hs
    simp only [step] at hs'; cases hs'
    simp only [opGuard] at hg
    obtain ⟨ks', a1, a2, _, _⟩ := delete_pages_spec d cat rid ks h.pages ns
    exact ⟨ks', sound_of d _ cat rid ks ks' (.delPages ns) _ h trivial hs a1, noNew_deletePages d ns hg, a2⟩
  | addContent p c =>
    have hs' := hs
    simp only [step] at hs'
    refine mild _ trivial (mildStep_addPageContents d p c d' out hinv hs') ?_ (fun _ e => by cases e)
    intro r hr
    rcases hr with ⟨_, hr⟩ | hr
    · exact Or.inl hr
    · exact Or.inr hr
  | removeAnnot id =>
    have hs' := hs
    simp only [step] at hs'
    have e := congrArg Prod.fst (Outcome.ok.inj hs'); simp only at e
    refine mild (fun _ => False) trivial (by rw [← e]; exact mildStep_removeAnnot _ id _ d) (fun _ h => h.elim) (fun _ e => by cases e)
  | addXObject p n x =>
    have hs' := hs
    simp only [step] at hs'
    have e := congrArg Prod.fst (Outcome.ok.inj hs'); simp only at e
    simp only [opGuard] at hg
    have m : MildStep (fun r => r = x ∨ HasRef d r) d d' := by rw [← e]; exact mildStep_addXObject d p n x hg.1
    refine mild _ trivial m ?_ (fun _ e => by cases e)
    intro r hr
    rcases hr with rfl | hr
    · exact hg.2.imp (mildStep_isSome m r) id
    · exact Or.inr hr
  | addGState p n x =>
    have hs' := hs
    simp only [step] at hs'
    have e := congrArg Prod.fst (Outcome.ok.inj hs'); simp only at e
    simp only [opGuard] at hg
    have m : MildStep (fun r => r = x ∨ HasRef d r) d d' := by rw [← e]; exact mildStep_addGState d p n x
    refine mild _ trivial m ?_ (fun _ e => by cases e)
    intro r hr
    rcases hr with rfl | hr
    · exact hg.imp (mildStep_isSome m r) id
    · exact Or.inr hr
  | changeStream sid c f =>
    have hs' := hs
    simp only [step] at hs'; cases hs'
    exact mild (fun _ => False) trivial (mildStep_changeContentStream _ _ d sid c) (fun _ h => h.elim) (fun _ e => by cases e)
  | changePage p c f =>
    have hs' := hs
    simp only [step] at hs'
    refine mild _ trivial (mildStep_changePageContent _ d p c d' out hinv hs') (fun r hr => Or.inl hr.2) (fun _ e => by cases e)
  | compress f =>
    have hs' := hs
    simp only [step] at hs'; cases hs'
    exact mild (fun _ => False) trivial (mildStep_compress _ f _ d) (fun _ h => h.elim) (fun _ e => by cases e)
  | decompress e =>
    have hs' := hs
    simp only [step] at hs'; cases hs'
    exact mild (fun _ => False) trivial (mildStep_decompress _ e d) (fun _ h => h.elim) (fun _ e => by cases e)

/-- the precondition as a caller states it, without naming the tree -/
def opGuardA (cat rid : ObjId) (d : Doc) (op : Op) : Prop := ∀ ks, PagesInv d cat rid ks → opGuard d cat rid ks op

/-- every call of the program meets its precondition at the time it is made -/
def runGuard (cat rid : ObjId) : Doc → List Op → Prop
  | _, [] => True
  | d, op :: rest => opGuardA cat rid d op ∧ ∀ d' out, step d op = .ok (d', out) → runGuard cat rid d' rest

/-- **C11, arbitrary programs.** A program whose calls meet their preconditions takes a sound document to a
sound document and introduces no dangling reference. -/
theorem sound_run (cat rid : ObjId) : ∀ (ops : List Op) (d : Doc) (ks : List PT), Sound d cat rid ks →
    runGuard cat rid d ops → ∀ d', runOps d ops = .ok d' → ∃ ks', Sound d' cat rid ks' ∧ NoNew d d'
  | [], d, ks, h, _, d', hr => by simp [runOps] at hr; subst hr; exact ⟨ks, h, noNew_refl d⟩
  | op :: rest, d, ks, h, hg, d', hr => by
    simp only [runOps] at hr
    split at hr
    · rename_i d1 out hs
      obtain ⟨ks1, s1, n1, _⟩ := sound_step d cat rid ks op h (hg.1 ks h.pages) d1 out hs
      obtain ⟨ks2, s2, n2⟩ := sound_run cat rid rest d1 ks1 s1 (hg.2 d1 out hs) d' hr
      exact ⟨ks2, s2, noNew_trans n1 n2⟩
    · cases hr
    · cases hr

/-- what a sound document gives: the next id is fresh, `page_iter` is the tree's leaves, every stream's `Length`
is right — and, if it started closed, every reference still resolves -/
theorem sound_facts (d : Doc) (cat rid : ObjId) (ks : List PT) (h : Sound d cat rid ks) :
    d.objects.get (d.maxId + 1, 0) = none ∧ pageIter d.trailer d.objects = PT.leavesL ks ∧
    TreeOK d.objects none (.pages rid ks) ∧ LenInv d :=
  ⟨fresh_id d h.wf.inv, pageIter_of_inv d cat rid ks h.pages, h.pages.counts, h.len⟩

theorem sound_run_closed (cat rid : ObjId) (ops : List Op) (d : Doc) (ks : List PT) (h : Sound d cat rid ks)
    (hc : Closed d) (hg : runGuard cat rid d ops) (d' : Doc) (hr : runOps d ops = .ok d') : Closed d' := by
  obtain ⟨_, _, n⟩ := sound_run cat rid ops d ks h hg d' hr
  exact closed_of_noNew n hc

/-! ### a sufficient condition for the deletion precondition, on the document as it is before the call -/

theorem mem_removeKeys_of_not_key (d : Dict) (hn : NoDup d) (ks : List Bytes) (e : Bytes × Obj) (he : e ∈ d) (hk : e.1 ∉ ks) :
    e ∈ removeKeys d ks := by
  have h1 : Dict.get d e.1 = some e.2 := get_some_of_mem hn he
  have h2 := (get_removeKeys hn ks e.1 hk).1
  rw [h1] at h2
  exact DictL.mem_of_get h2

theorem mem_stripDict_of (p : ObjId) (es : Dict) (hn : NoDup es) (e : Bytes × Obj) (he : e ∈ es)
    (hr : isRefTo p e.2 = false) : e ∈ stripDict p es := by
  apply mem_removeKeys_of_not_key es hn _ e he
  intro hk
  obtain ⟨e', he', hek⟩ := List.mem_map.mp hk
  have hm := List.mem_filter.mp he'
  have h1 : Dict.get es e.1 = some e.2 := get_some_of_mem hn he
  have h2 : Dict.get es e'.1 = some e'.2 := get_some_of_mem hn hm.1
  rw [hek, h1] at h2
  have : e.2 = e'.2 := Option.some.inj h2
  rw [this, hm.2] at hr; cases hr

theorem mem_refs_deepDict (a : Action) (r : ObjId) : ∀ (es : List (Bytes × Obj)) (e : Bytes × Obj), e ∈ es →
    r ∈ refsOf (deepObj a e.2) → r ∈ refsOfD (deepDict a es)
  | [], _, he, _ => by cases he
  | (k, v) :: es, e, he, hr => by
    rw [deepDict]; simp only [refsOfD, List.mem_append]
    rcases List.mem_cons.mp he with rfl | he
    · exact Or.inl hr
    · exact Or.inr (mem_refs_deepDict a r es e he hr)

theorem mem_refs_deepList (a : Action) (r : ObjId) : ∀ (xs : List Obj) (x : Obj), x ∈ xs →
    r ∈ refsOf (deepObj a x) → r ∈ refsOfL (deepList a xs)
  | [], _, he, _ => by cases he
  | y :: ys, x, he, hr => by
    rw [deepList]; simp only [refsOfL, List.mem_append]
    rcases List.mem_cons.mp he with rfl | he
    · exact Or.inl hr
    · exact Or.inr (mem_refs_deepList a r ys x he hr)

theorem not_isRefTo_of_ref_ne (p r : ObjId) (o : Obj) (hr : r ∈ refsOf o) (hne : r ≠ p) : isRefTo p o = false := by
  cases h : isRefTo p o with
  | false => rfl
  | true =>
    have := (isRefTo_iff p o).mp h
    subst this; simp [refsOf] at hr; exact absurd hr hne

/-- the deletion action removes nothing but references to `p` -/
theorem refs_deep_del_conv (p : ObjId) :
    (∀ o, DeepND o → ∀ r ∈ refsOf o, r ≠ p → r ∈ refsOf (deepObj (delAct p) o)) ∧
    (∀ es, DeepNDD es → ∀ e ∈ es, ∀ r ∈ refsOf e.2, r ≠ p → r ∈ refsOf (deepObj (delAct p) e.2)) ∧
    (∀ xs, DeepNDL xs → ∀ x ∈ xs, ∀ r ∈ refsOf x, r ≠ p → r ∈ refsOf (deepObj (delAct p) x)) := by
  apply deepObj.mutual_induct (delAct p)
    (motive1 := fun o => DeepND o → ∀ r ∈ refsOf o, r ≠ p → r ∈ refsOf (deepObj (delAct p) o))
    (motive2 := fun es => DeepNDD es → ∀ e ∈ es, ∀ r ∈ refsOf e.2, r ≠ p → r ∈ refsOf (deepObj (delAct p) e.2))
    (motive3 := fun xs => DeepNDL xs → ∀ x ∈ xs, ∀ r ∈ refsOf x, r ≠ p → r ∈ refsOf (deepObj (delAct p) x))
  · intro o items h ih hd r hr hne
    rw [deepObj_arr h]
    cases o <;> simp only [delAct, delFn] at h <;> try (cases h; done)
    rename_i xs
    cases h
    simp only [DeepND] at hd
    have hd' : DeepNDL (xs.filter (fun o => !isRefTo p o)) :=
      (deepNDL_iff _).mpr (fun x hx => (deepNDL_iff xs).mp hd x (List.mem_filter.mp hx).1)
    simp only [refsOf] at hr ⊢
    obtain ⟨x, hx, hrx⟩ := (mem_refsOfL_iff r xs).mp hr
    have hx' : x ∈ xs.filter (fun o => !isRefTo p o) :=
      List.mem_filter.mpr ⟨hx, by simp [not_isRefTo_of_ref_ne p r x hrx hne]⟩
    exact mem_refs_deepList _ r _ x hx' (ih hd' x hx' r hrx hne)
  · intro o es h ih hd r hr hne
    rw [deepObj_dict h]
    cases o <;> simp only [delAct, delFn] at h <;> try (cases h; done)
    rename_i es0
    cases h
    simp only [DeepND] at hd
    have hd' : DeepNDD (stripDict p es0) :=
      (deepNDD_iff _).mpr (fun e he => (deepNDD_iff es0).mp hd.2 e (mem_stripDict p es0 hd.1 e he).1)
    simp only [refsOf] at hr ⊢
    obtain ⟨e, he, hre⟩ := (mem_refsOfD_iff r es0).mp hr
    have he' := mem_stripDict_of p es0 hd.1 e he (not_isRefTo_of_ref_ne p r e.2 hre hne)
    exact mem_refs_deepDict _ r _ e he' (ih hd' e he' r hre hne)
  · intro o es c h ih hd r hr hne
    rw [deepObj_stream h]
    cases o <;> simp only [delAct, delFn] at h <;> try (cases h; done)
    rename_i es0 c0
    cases h
    simp only [DeepND] at hd
    have hd' : DeepNDD (stripDict p es0) :=
      (deepNDD_iff _).mpr (fun e he => (deepNDD_iff es0).mp hd.2 e (mem_stripDict p es0 hd.1 e he).1)
    simp only [refsOf] at hr ⊢
    obtain ⟨e, he, hre⟩ := (mem_refsOfD_iff r es0).mp hr
    have he' := mem_stripDict_of p es0 hd.1 e he (not_isRefTo_of_ref_ne p r e.2 hre hne)
    exact mem_refs_deepDict _ r _ e he' (ih hd' e he' r hre hne)
  · intro o h1 h2 h3 _ r hr _
    rw [deepObj_other (fun i hh => h1 i hh) (fun i hh => h2 i hh) (fun i c hh => h3 i c hh)]
    cases o <;> simp only [delAct, delFn] <;> first | exact hr | exact absurd rfl (h1 _) | exact absurd rfl (h2 _) | exact absurd rfl (h3 _ _)
  · intro _ e he; cases he
  · intro k v es ih1 ih2 hd e he r hr hne
    simp only [DeepNDD] at hd
    rcases List.mem_cons.mp he with rfl | he
    · exact ih1 hd.1 r hr hne
    · exact ih2 hd.2 e he r hr hne
  · intro _ e he; cases he
  · intro x xs ih1 ih2 hd e he r hr hne
    simp only [DeepNDL] at hd
    rcases List.mem_cons.mp he with rfl | he
    · exact ih1 hd.1 r hr hne
    · exact ih2 hd.2 e he r hr hne

/-- reachable from the trailer along references none of which is a reference to `p` (so never through `p`) -/
inductive ReachAvoid (p : ObjId) (d : Doc) : ObjId → Prop
  | root {r} : r ∈ refsOfD d.trailer → r ≠ p → ReachAvoid p d r
  | step {id o r} : ReachAvoid p d id → d.objects.get id = some o → r ∈ refsOf o → r ≠ p → ReachAvoid p d r

/-- what is reachable without passing `p` is visited by `delete_object(p)`'s traversal -/
theorem reachAvoid_visited (d : Doc) (p : ObjId) (hk : DistinctKeys d) (k : ObjId) (h : ReachAvoid p d k) :
    k ∈ delRefs d p := by
  have hcl := traverse_closed (delAct p) (stripDict p d.trailer) d.objects
  induction h with
  | root hr hne =>
    apply hcl.1
    have e : (traverse (delAct p) (stripDict p d.trailer) d.objects).1 = delDict p d.trailer :=
      (traverse_visits_once (delAct p) (stripDict p d.trailer) d.objects).1
    rw [e]
    have := (refs_deep_del_conv p).1 (.dict d.trailer) ⟨hk.1, hk.2.1⟩ _ (by simpa [refsOf] using hr) hne
    rw [deep_del_dict] at this; simpa [refsOf] using this
  | @step id o r _ hg hr hne ih =>
    apply hcl.2 id ih (deepObj (delAct p) o)
    · have := delMid_get d p id
      simp only [ih, if_true, hg, Option.map_some] at this
      exact this
    · exact (refs_deep_del_conv p).1 o (hk.2.2 id o hg) r hr hne

/-- **the deletion precondition, stated on the document before the call**: every object that holds a reference
to `p` is reachable from the trailer without passing `p`, and is not a bare reference to `p` -/
theorem delClean_of_reach (d : Doc) (p : ObjId) (hk : DistinctKeys d)
    (h : ∀ k o, d.objects.get k = some o → k ≠ p → p ∈ refsOf o → ReachAvoid p d k ∧ o ≠ .ref p.1 p.2) :
    DelClean d p := fun k o hg hkp hr => ⟨reachAvoid_visited d p hk k (h k o hg hkp hr).1, (h k o hg hkp hr).2⟩

/-! ### non-vacuity: a concrete sound document and a program that meets its preconditions -/

/-- catalog 1, root 3 with pages 2 and 4 -/
def wsound : Doc :=
  { trailer := [(ROOT, .ref 1 0)], maxId := 5, bookmarks := [], bmTable := [],
    objects := [((1,0), .dict [(PAGES, .ref 3 0)]),
                ((2,0), .dict [(TYPE, .name PAGE), (PARENT, .ref 3 0)]),
                ((3,0), .dict [(TYPE, .name PAGES), (KIDS, .arr [.ref 2 0, .ref 4 0]), (COUNT, .int 2)]),
                ((4,0), .dict [(TYPE, .name PAGE), (PARENT, .ref 3 0)])] }

theorem wsound_cases (k : ObjId) (o : Obj) (h : wsound.objects.get k = some o) :
    (k = (1,0) ∧ o = .dict [(PAGES, .ref 3 0)]) ∨
    (k = (2,0) ∧ o = .dict [(TYPE, .name PAGE), (PARENT, .ref 3 0)]) ∨
    (k = (3,0) ∧ o = .dict [(TYPE, .name PAGES), (KIDS, .arr [.ref 2 0, .ref 4 0]), (COUNT, .int 2)]) ∨
    (k = (4,0) ∧ o = .dict [(TYPE, .name PAGE), (PARENT, .ref 3 0)]) := by
  have := Lopdf.Ed.mem_of_get _ k o h
  simp only [wsound, List.mem_cons, Prod.mk.injEq, List.mem_nil_iff, or_false] at this
  rcases this with ⟨a, b⟩ | ⟨a, b⟩ | ⟨a, b⟩ | ⟨a, b⟩ <;> simp [a, b]

theorem wsound_sound : Sound wsound (1,0) (3,0) [.page (2,0), .page (4,0)] := by
  refine ⟨⟨?_, by simp [wsound, Objects.Sorted, Objects.keys, idLt]⟩, ?_, ?_⟩
  · intro k hk
    cases hg : wsound.objects.get k with
    | none => rw [hg] at hk; cases hk
    | some o => rcases wsound_cases k o hg with ⟨a, _⟩ | ⟨a, _⟩ | ⟨a, _⟩ | ⟨a, _⟩ <;> (subst a; decide)
  · intro k o hg
    rcases wsound_cases k o hg with ⟨_, b⟩ | ⟨_, b⟩ | ⟨_, b⟩ | ⟨_, b⟩ <;> (subst b; trivial)
  · refine ⟨by simp [wsound, NoDup], by simp [wsound, Dict.get], ⟨_, rfl, by simp [NoDup], by simp [Dict.get]⟩, ?_, ?_,
      by decide, by decide, by decide, by decide, by decide⟩
    · simp [wsound, Shape, ShapeL, Objects.get, Dict.get, NoDup, TYPE, KIDS, PARENT, PAGE, PAGES, COUNT, PT.idsL, PT.kidObj, PT.id, Obj.asRef]
    · simp [wsound, TreeOK, TreeOKL, Objects.get, Dict.get, TYPE, KIDS, COUNT, PARENT, PT.leavesL, PT.leaves, Obj.asInt, Obj.asRef]

theorem wsound_distinct : DistinctKeys wsound := by
  refine ⟨by simp [wsound, NoDup], by simp [wsound, DeepNDD, DeepND], ?_⟩
  intro k o hg
  rcases wsound_cases k o hg with ⟨_, b⟩ | ⟨_, b⟩ | ⟨_, b⟩ | ⟨_, b⟩ <;>
    (subst b; simp [DeepND, DeepNDD, DeepNDL, NoDup, TYPE, KIDS, PARENT, COUNT])

/-- deleting page 1 (object 2): its only holder is the `Kids` array of node 3, reached through the catalog -/
theorem wsound_delClean : DelClean wsound (2,0) := by
  apply delClean_of_reach wsound (2,0) wsound_distinct
  intro k o hg hk hr
  rcases wsound_cases k o hg with ⟨a, b⟩ | ⟨a, b⟩ | ⟨a, b⟩ | ⟨a, b⟩
  · subst b; simp [refsOf, refsOfD] at hr
  · exact absurd a hk
  · subst a; subst b
    refine ⟨?_, by simp⟩
    have h1 : ReachAvoid (2,0) wsound (1,0) := ReachAvoid.root (by simp [wsound, refsOfD, refsOf]) (by decide)
    exact ReachAvoid.step h1 (o := .dict [(PAGES, .ref 3 0)]) (by simp [wsound, Objects.get]) (by simp [refsOf, refsOfD]) (by decide)
  · subst b; simp [refsOf, refsOfD] at hr

/-- the program `delete_pages([1]); prune_objects()` meets its preconditions on `wsound` -/
theorem wsound_guard : runGuard (1,0) (3,0) wsound [.delPages [1], .prune] := by
  refine ⟨?_, ?_⟩
  · intro ks _
    simp only [opGuard]
    rw [pageIter_of_inv wsound (1,0) (3,0) _ wsound_sound.pages]
    refine ⟨?_, trivial⟩
    intro p hp
    simp [pickPage, PT.leavesL, PT.leaves] at hp
    subst hp
    exact ⟨wsound_distinct, wsound_delClean⟩
  · intro d' out _
    exact ⟨fun _ _ => trivial, fun _ _ _ => trivial⟩

/-- so `sound_run` applies: page 2 is gone, page 4 is the only page, `Count` is 1, nothing dangles that did not -/
example : ∃ d', runOps wsound [.delPages [1], .prune] = .ok d' ∧ ∃ ks', Sound d' (1,0) (3,0) ks' ∧ NoNew wsound d' := by
  have hr : ∃ d', runOps wsound [.delPages [1], .prune] = .ok d' := by
    exact ⟨_, rfl⟩
  obtain ⟨d', hd⟩ := hr
  exact ⟨d', hd, sound_run (1,0) (3,0) _ wsound _ wsound_sound wsound_guard d' hd⟩

end Lopdf.Ed
