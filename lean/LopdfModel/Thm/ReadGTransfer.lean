import LopdfModel.Thm.ReadG
/-
  **Transfer.** Whenever the reader of Model/Read.lean answers anything but `err "ext"` ("outside
  the model"), the reader the driver runs against lopdf (`loadDocWithG flateDec`, filtered
  structural streams decoded by the specification codecs) answers THE SAME. Hence every theorem of
  the form `loadDocOrd order file = .ok L` — `file_rt_table`, `file_rt_stream`, `file_rt_history`,
  `loadDoc_complete*`, `strict`-side lemmas, C07's newest-wins theorems — is literally a theorem
  about the reader that is compared with lopdf on every run.
-/
namespace Lopdf
open Gen

/-- `b` (the answer with filtered streams decoded) agrees with `a` unless `a` declined -/
def Agree {α} (a b : Outcome α) : Prop := a ≠ .err "ext" → b = a

theorem agree_refl {α} (a : Outcome α) : Agree a a := fun _ => rfl

theorem xref_agree (d : Dict) (c : Bytes) : Agree (plainDec.xref d c) (flateDec.xref d c) := by
  intro h
  simp only [plainDec, flateDec] at h ⊢
  by_cases hf : d.has FILTER = true
  · exfalso; apply h; unfold decodeXrefStream; simp [hf]
  · simp only [hf, Bool.false_eq_true, if_false]

theorem objstm_agree (d : Dict) (c : Bytes) : Agree (plainDec.objstm d c) (flateDec.objstm d c) := by
  intro h
  simp only [plainDec, flateDec] at h ⊢
  by_cases hf : d.has FILTER = true
  · exfalso; apply h; unfold objStmObjects; simp [hf]
  · simp only [hf, Bool.false_eq_true, if_false]

theorem deferred_agree (d : Dict) : Agree (plainDec.deferred d) (flateDec.deferred d) := by
  intro h
  simp only [plainDec, flateDec] at h ⊢
  by_cases hf : d.has FILTER = true
  · exfalso; apply h; simp [hf]
  · simp only [hf, Bool.false_eq_true, if_false]

theorem xrefStreamAltG_agree (inp : Bytes) : Agree (xrefStreamAltG plainDec inp) (xrefStreamAltG flateDec inp) := by
  unfold xrefStreamAltG
  split
  · exact xref_agree _ _
  · exact xref_agree _ _
  · exact agree_refl _

theorem xrefAndTrailerG_agree (inp : Bytes) : Agree (xrefAndTrailerG plainDec inp) (xrefAndTrailerG flateDec inp) := by
  unfold xrefAndTrailerG
  split
  · exact agree_refl _
  · exact agree_refl _
  · split
    · split <;> exact agree_refl _
    · exact xrefStreamAltG_agree inp
  · exact xrefStreamAltG_agree inp

/-- the step used at every level: two computations that consult the structural-stream decoders
agree as soon as the consulted answers agree and `err "ext"` is handed on -/
theorem Agree.elim2 {α β} {A B : Outcome α} (ha : Agree A B) (fp ff : Outcome α → Outcome β)
    (hext : fp (.err "ext") = .err "ext")
    (hk : ∀ r, r ≠ .err "ext" → Agree (fp r) (ff r)) : Agree (fp A) (ff B) := by
  intro h
  have hA : A ≠ .err "ext" := by intro e; apply h; rw [e, hext]
  rw [ha hA]
  exact hk A hA h

theorem hybridMergeG_agree (buf : Bytes) (x1 : XTable) (stm : Option Obj) :
    Agree (hybridMergeG plainDec buf x1 stm) (hybridMergeG flateDec buf x1 stm) := by
  unfold hybridMergeG
  split
  · exact agree_refl _
  · split
    · exact agree_refl _
    · rename_i p _ _
      exact Agree.elim2 (xrefAndTrailerG_agree (List.drop p.toNat buf))
        (fun r => match r with | .ok (sx, _, _) => .ok (x1.merge sx) | .err e => .err e | .panic s => .panic s)
        (fun r => match r with | .ok (sx, _, _) => .ok (x1.merge sx) | .err e => .err e | .panic s => .panic s)
        rfl (fun r _ => agree_refl _)

theorem prevLoopG_agree (buf : Bytes) : ∀ (fuel : Nat) (p : Option Obj) (seen : List Int) (x : XTable) (tr : Dict),
    Agree (prevLoopG plainDec buf fuel p seen x tr) (prevLoopG flateDec buf fuel p seen x tr) := by
  intro fuel
  induction fuel with
  | zero => intro p seen x tr; exact agree_refl _
  | succ n ih =>
    intro p seen x tr
    unfold prevLoopG
    split
    · exact agree_refl _
    · rename_i prev _
      split
      · exact agree_refl _
      · split
        · exact agree_refl _
        · refine Agree.elim2 (xrefAndTrailerG_agree (List.drop prev.toNat buf))
            (fun r => match r with
              | .panic s => .panic s
              | .err e => .err e
              | .ok (px, _, ptr) =>
                match hybridMergeG plainDec buf (x.merge px) (tr.get XREFSTM) with
                | .ok x3 => prevLoopG plainDec buf n (ptr.get PREV) (prev :: seen) x3 (tr.remove XREFSTM)
                | .err e => .err e
                | .panic s => .panic s)
            (fun r => match r with
              | .panic s => .panic s
              | .err e => .err e
              | .ok (px, _, ptr) =>
                match hybridMergeG flateDec buf (x.merge px) (tr.get XREFSTM) with
                | .ok x3 => prevLoopG flateDec buf n (ptr.get PREV) (prev :: seen) x3 (tr.remove XREFSTM)
                | .err e => .err e
                | .panic s => .panic s)
            rfl ?_
          intro r _
          cases r with
          | panic s => exact agree_refl _
          | err e => exact agree_refl _
          | ok v =>
            obtain ⟨px, sz, ptr⟩ := v
            exact Agree.elim2 (hybridMergeG_agree buf (x.merge px) (tr.get XREFSTM))
              (fun r => match r with
                | .ok x3 => prevLoopG plainDec buf n (ptr.get PREV) (prev :: seen) x3 (tr.remove XREFSTM)
                | .err e => .err e
                | .panic s => .panic s)
              (fun r => match r with
                | .ok x3 => prevLoopG flateDec buf n (ptr.get PREV) (prev :: seen) x3 (tr.remove XREFSTM)
                | .err e => .err e
                | .panic s => .panic s)
              rfl (fun r _ => by cases r with
                | ok x3 => exact ih _ _ _ _
                | err e => exact agree_refl _
                | panic s => exact agree_refl _)

theorem loadStepG_agree (buf : Bytes) (x : XTable) (n : Nat) (acc : Outcome (LObjects × List Block)) (e : Nat × XEntry) :
    Agree (loadStepG plainDec buf x n acc e) (loadStepG flateDec buf x n acc e) := by
  unfold loadStepG
  cases acc with
  | err s => exact agree_refl _
  | panic s => exact agree_refl _
  | ok p =>
    obtain ⟨os, fromStm⟩ := p
    simp only
    cases e.2 with
    | compressed a b => exact agree_refl _
    | normal off g =>
      simp only
      split
      · exact agree_refl _
      · cases hp : pIndirect (lengthOf buf x (n + 1) []) none off (List.drop off buf) with
        | none => exact agree_refl _
        | some r =>
          obtain ⟨id, lo⟩ := r
          simp only
          cases lo with
          | plain o =>
            cases o with
            | stream d c =>
              simp only
              split
              · exact Agree.elim2 (objstm_agree d c)
                  (fun r => match r with
                    | .ok (d', c', objs) => .ok (os.insert id (.plain (.stream d' c')), fromStm ++ [(e.1, objs)])
                    | .err "ext" => .err "ext"
                    | .err _ => .ok (os, fromStm)
                    | .panic s => .panic s)
                  (fun r => match r with
                    | .ok (d', c', objs) => .ok (os.insert id (.plain (.stream d' c')), fromStm ++ [(e.1, objs)])
                    | .err "ext" => .err "ext"
                    | .err _ => .ok (os, fromStm)
                    | .panic s => .panic s)
                  rfl (fun r _ => agree_refl _)
              · exact agree_refl _
            | _ => exact agree_refl _
          | pending d st =>
            simp only
            split
            · exact Agree.elim2 (deferred_agree d)
                (fun r => match r with
                  | .ok none => .ok (os.insert id (.pending d st), fromStm)
                  | .ok (some (d', c')) => .ok (os.insert id (.plain (.stream d' c')), fromStm ++ [(e.1, [])])
                  | .err "ext" => .err "ext"
                  | .err _ => .ok (os, fromStm)
                  | .panic s => .panic s)
                (fun r => match r with
                  | .ok none => .ok (os.insert id (.pending d st), fromStm)
                  | .ok (some (d', c')) => .ok (os.insert id (.plain (.stream d' c')), fromStm ++ [(e.1, [])])
                  | .err "ext" => .err "ext"
                  | .err _ => .ok (os, fromStm)
                  | .panic s => .panic s)
                rfl (fun r _ => agree_refl _)
            · exact agree_refl _

theorem loadStepG_err (sd : StructDec) (buf : Bytes) (x : XTable) (n : Nat) (s : String) :
    ∀ (l : List (Nat × XEntry)), l.foldl (loadStepG sd buf x n) (.err s) = .err s := by
  intro l
  induction l with
  | nil => rfl
  | cons e rest ih => simp only [List.foldl_cons, loadStepG]; exact ih

theorem foldl_loadStepG_agree (buf : Bytes) (x : XTable) (n : Nat) : ∀ (l : List (Nat × XEntry))
    (acc : Outcome (LObjects × List Block)),
    Agree (l.foldl (loadStepG plainDec buf x n) acc) (l.foldl (loadStepG flateDec buf x n) acc) := by
  intro l
  induction l with
  | nil => intro acc; exact agree_refl _
  | cons e rest ih =>
    intro acc h
    simp only [List.foldl_cons] at h ⊢
    have hs := loadStepG_agree buf x n acc e
    by_cases hx : loadStepG plainDec buf x n acc e = .err "ext"
    · rw [hx, loadStepG_err] at h
      exact absurd rfl h
    · rw [hs hx]
      exact ih _ h

/-- the tail of `Reader::read` once the object pass has answered (identical in both readers) -/
def finishLoad (arr : List Block → List Block) (arr2 : List ObjId → List ObjId) (buf version mark : Bytes) (x : XTable) (tr : Dict)
    (xs : Nat) (r : Outcome (LObjects × List Block)) : Outcome Loaded :=
  match r with
  | .panic s => .panic s
  | .err e => .err e
  | .ok (os, fromStm) =>
    let arrived := arr fromStm
    let os1 := mergeBlocksX x os arrived
    let os2 := (arr2 (pendingIds os1)).foldl (completeOne buf) os1
    let fin := os2.map fun (p : ObjId × LObj) =>
      match p.2 with
      | .plain o => (p.1, o)
      | .pending d _ => (p.1, Obj.stream d [])
    let objects := fin.foldr (fun (p : ObjId × Obj) acc => insertSortedO p.1 p.2 acc) []
    .ok { version := version, binaryMark := mark, trailer := tr, objects := objects,
          maxId := x.maxId + 1 - 1, xrefStart := xs }

/-- everything after the first cross-reference section -/
def afterXref (sd : StructDec) (arr : List Block → List Block) (arr2 : List ObjId → List ObjId) (buf version mark : Bytes) (xs : Nat)
    (r : Outcome (XTable × Nat × Dict)) : Outcome Loaded :=
  match r with
  | .panic s => .panic s
  | .err e => .err e
  | .ok (x0, _, tr0) =>
    match prevLoopG sd buf (buf.length + 2) (tr0.get PREV) [] x0 (tr0.remove PREV) with
    | .panic s => .panic s
    | .err e => .err e
    | .ok (x, tr) =>
      if x.maxId + 1 ≥ U32 then .err "InvalidXref" else
      if tr.has ENCRYPT then .err "ext" else
      finishLoad arr arr2 buf version mark x tr xs (x.sorted.foldl (loadStepG sd buf x x.sorted.length) (.ok ([], [])))

theorem loadDocWithG_eq (sd : StructDec) (arr : List Block → List Block) (arr2 : List ObjId → List ObjId) (file : Bytes) :
    loadDocWithG sd arr arr2 file =
      (let buf := file.drop (match findFrom PDF_KW (file.length + 1) file 0 with | some i => i | none => 0)
       match pHeader buf with
       | none => .err "InvalidFileHeader"
       | some version =>
         let mark : Bytes :=
           match findFrom [10] (buf.length + 1) buf 0 with
           | some pos =>
             (match pBinaryMark (buf.drop (pos + 1)) with
              | some m => if m.all (fun b => b ≥ 128) then m else DEFAULT_MARK
              | none => DEFAULT_MARK)
           | none => DEFAULT_MARK
         match getXrefStart buf with
         | none => .err "XrefStart"
         | some xs =>
           if xs > buf.length then .err "XrefStart" else
           afterXref sd arr arr2 buf version mark xs (xrefAndTrailerG sd (buf.drop xs))) := by
  unfold loadDocWithG afterXref finishLoad
  rfl

theorem afterXref_agree (arr : List Block → List Block) (arr2 : List ObjId → List ObjId) (buf version mark : Bytes) (xs : Nat)
    (inp : Bytes) :
    Agree (afterXref plainDec arr arr2 buf version mark xs (xrefAndTrailerG plainDec inp))
          (afterXref flateDec arr arr2 buf version mark xs (xrefAndTrailerG flateDec inp)) := by
  refine Agree.elim2 (xrefAndTrailerG_agree inp) (afterXref plainDec arr arr2 buf version mark xs)
    (afterXref flateDec arr arr2 buf version mark xs) rfl ?_
  intro r _
  cases r with
  | panic s => exact agree_refl _
  | err e => exact agree_refl _
  | ok v =>
    obtain ⟨x0, sz, tr0⟩ := v
    unfold afterXref
    simp only
    refine Agree.elim2 (prevLoopG_agree buf (buf.length + 2) (tr0.get PREV) [] x0 (tr0.remove PREV))
      (fun r => match r with
        | .panic s => .panic s
        | .err e => .err e
        | .ok (x, tr) =>
          if x.maxId + 1 ≥ U32 then .err "InvalidXref" else
          if tr.has ENCRYPT then .err "ext" else
          finishLoad arr arr2 buf version mark x tr xs (x.sorted.foldl (loadStepG plainDec buf x x.sorted.length) (.ok ([], []))))
      (fun r => match r with
        | .panic s => .panic s
        | .err e => .err e
        | .ok (x, tr) =>
          if x.maxId + 1 ≥ U32 then .err "InvalidXref" else
          if tr.has ENCRYPT then .err "ext" else
          finishLoad arr arr2 buf version mark x tr xs (x.sorted.foldl (loadStepG flateDec buf x x.sorted.length) (.ok ([], []))))
      rfl ?_
    intro r _
    cases r with
    | panic s => exact agree_refl _
    | err e => exact agree_refl _
    | ok w =>
      obtain ⟨x, tr⟩ := w
      simp only
      split
      · exact agree_refl _
      · split
        · exact agree_refl _
        · exact Agree.elim2 (foldl_loadStepG_agree buf x x.sorted.length x.sorted (.ok ([], [])))
            (finishLoad arr arr2 buf version mark x tr xs) (finishLoad arr arr2 buf version mark x tr xs) rfl
            (fun r _ => agree_refl _)

/-- **the transfer theorem** -/
theorem loadDocWithG_agree (arr : List Block → List Block) (arr2 : List ObjId → List ObjId) (file : Bytes) :
    Agree (loadDocWithG plainDec arr arr2 file) (loadDocWithG flateDec arr arr2 file) := by
  rw [loadDocWithG_eq plainDec, loadDocWithG_eq flateDec]
  simp only
  repeat' split
  all_goals first | exact agree_refl _ | exact afterXref_agree _ _ _ _ _ _ _

/-- **Every `ok` answer of the reader of Model/Read.lean is the answer of the reader the driver
runs** — for every schedule of both hooks. -/
theorem loadDocF2_of_loadDocOrd2 (order : Option (List Nat)) (zero : Option Nat) (file : Bytes) (L : Loaded)
    (h : loadDocOrd2 order zero file = .ok L) : loadDocF2 order zero file = .ok L := by
  unfold loadDocOrd2 at h
  unfold loadDocF2
  have h' := h
  rw [← loadDocWithG_plain] at h'
  have := loadDocWithG_agree _ _ file (by rw [h']; simp)
  exact this.trans h'

end Lopdf
