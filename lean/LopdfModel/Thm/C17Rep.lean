import LopdfModel.Thm.C17
/-
  C17 (1) — `rep_of_ops`: for EVERY sequence of `add_bookmark` calls (children attached in any
  order, parents that do not exist, parents that are themselves unreachable) the bookmark table
  represents the forest the calls denote.  This is the bridge from the public API to the forest the
  theorems `ocLoop_spec` / `outline_links` / `walk_emb` speak of.
-/
namespace Lopdf.C17
open Lopdf

theorem bmGet_put (t : BmTable) (k q : Nat) (b : Bm) :
    (t.put k b).get q = if k = q then some b else t.get q := by
  simp [BmTable.put, BmTable.get]

theorem bmGet_modify (t : BmTable) (x q : Nat) (f : Bm → Bm) :
    (t.modify x f).get q = if q = x then (t.get x).map f else t.get q := by
  induction t with
  | nil => simp [BmTable.modify, BmTable.get]
  | cons e r ih =>
    obtain ⟨k, d⟩ := e
    by_cases hk : k = x
    · subst hk
      by_cases hq : q = k
      · subst hq; simp [BmTable.modify, BmTable.get]
      · have : ¬ k = q := fun h => hq h.symm
        simp [BmTable.modify, BmTable.get, hq, this]
    · by_cases hq : q = x
      · subst hq; simp [BmTable.modify, BmTable.get, hk, ih]
      · simp only [BmTable.modify, hk, if_false, BmTable.get, ih, hq]

/- heap order: every bookmark id lies in `(lo, hi]` and children have larger ids than their parent -/
mutual
def wfN (lo hi : Nat) : BT → Prop
  | .node id _ _ _ _ kids => lo < id ∧ id ≤ hi ∧ wfL id hi kids
def wfL (lo hi : Nat) : List BT → Prop
  | [] => True
  | t :: ts => wfN lo hi t ∧ wfL lo hi ts
end

theorem wfL_mono : ∀ (n : Nat) (ts : List BT), BT.sizeL ts ≤ n → ∀ (lo lo' hi hi' : Nat), lo' ≤ lo → hi ≤ hi' →
    wfL lo hi ts → wfL lo' hi' ts := by
  intro n
  induction n with
  | zero => intro ts h; have := BT.sizeL_eq_zero (Nat.le_zero.mp h); subst this; intros; simp [wfL]
  | succ n ih =>
    intro ts hsz lo lo' hi hi' h1 h2 hw
    cases ts with
    | nil => simp [wfL]
    | cons t r =>
      cases t with
      | node id title f c page kids =>
        simp only [wfL, wfN, BT.sizeL, BT.size] at hw hsz ⊢
        obtain ⟨⟨a, b, c'⟩, d⟩ := hw
        exact ⟨⟨by omega, by omega, ih kids (by omega) _ _ _ _ (Nat.le_refl _) h2 c'⟩,
               ih r (by omega) _ _ _ _ h1 h2 d⟩

theorem wfL_append (lo hi : Nat) : ∀ (a b : List BT), wfL lo hi a → wfL lo hi b → wfL lo hi (a ++ b) := by
  intro a
  induction a with
  | nil => intro b _ hb; simpa using hb
  | cons t r ih => intro b ha hb; simp only [wfL, List.cons_append] at ha ⊢; exact ⟨ha.1, ih b ha.2 hb⟩

theorem repL_cons_inv {t : BmTable} {ids : List Nat} {id : Nat} {title : List Nat} {f : Nat}
    {c : List Bytes} {page : ObjId} {kids ns : List BT}
    (h : repL t ids (.node id title f c page kids :: ns) = true) :
    ∃ is b, ids = id :: is ∧ t.get id = some b ∧ b.title = title ∧ b.format = f ∧ b.color = c ∧
      b.page = page ∧ repL t b.children kids = true ∧ repL t is ns = true := by
  cases ids with
  | nil => simp [repL] at h
  | cons i is =>
    simp only [repL, repN, Bool.and_eq_true] at h
    obtain ⟨h1, h2⟩ := h
    cases hb : t.get i with
    | none => simp [hb] at h1
    | some b =>
      simp only [hb, Bool.and_eq_true, decide_eq_true_eq] at h1
      obtain ⟨⟨⟨⟨⟨a1, a2⟩, a3⟩, a4⟩, a5⟩, a6⟩ := h1
      subst a1
      exact ⟨is, b, rfl, hb, a2, a3, a4, a5, a6, h2⟩

theorem repL_cons_intro {t : BmTable} {is : List Nat} {id : Nat} {title : List Nat} {f : Nat}
    {c : List Bytes} {page : ObjId} {kids ns : List BT} {b : Bm}
    (hb : t.get id = some b) (h1 : b.title = title) (h2 : b.format = f) (h3 : b.color = c) (h4 : b.page = page)
    (h5 : repL t b.children kids = true) (h6 : repL t is ns = true) :
    repL t (id :: is) (.node id title f c page kids :: ns) = true := by
  simp [repL, repN, hb, h1, h2, h3, h4, h5, h6]

theorem repL_append {t : BmTable} : ∀ (as : List BT) (a b : List Nat) (bs : List BT),
    repL t a as = true → repL t b bs = true → repL t (a ++ b) (as ++ bs) = true := by
  intro as
  induction as with
  | nil => intro a b bs ha hb; rw [repL_nil_right ha]; simpa using hb
  | cons n ns ih =>
    intro a b bs ha hb
    cases a with
    | nil => simp [repL] at ha
    | cons i is =>
      simp only [repL, Bool.and_eq_true, List.cons_append] at ha ⊢
      exact ⟨ha.1, ih is b bs ha.2 hb⟩

/-- representation only depends on the table entries with ids in `(lo, hi]` -/
theorem rep_congr : ∀ (n : Nat) (ts : List BT), BT.sizeL ts ≤ n → ∀ (t t' : BmTable) (lo hi : Nat) (ids : List Nat),
    (∀ i, lo < i → i ≤ hi → t'.get i = t.get i) → wfL lo hi ts → repL t ids ts = true → repL t' ids ts = true := by
  intro n
  induction n with
  | zero =>
    intro ts h; have := BT.sizeL_eq_zero (Nat.le_zero.mp h); subst this
    intro t t' lo hi ids _ _ hr; rw [repL_nil_right hr]; simp [repL]
  | succ n ih =>
    intro ts hsz t t' lo hi ids hg hw hr
    cases ts with
    | nil => rw [repL_nil_right hr]; simp [repL]
    | cons tr r =>
      cases tr with
      | node id title f c page kids =>
        obtain ⟨is, b, rfl, hb, h1, h2, h3, h4, h5, h6⟩ := repL_cons_inv hr
        simp only [wfL, wfN, BT.sizeL, BT.size] at hw hsz
        obtain ⟨⟨a1, a2, a3⟩, a4⟩ := hw
        refine repL_cons_intro (b := b) ?_ h1 h2 h3 h4 ?_ ?_
        · rw [hg id a1 a2]; exact hb
        · exact ih kids (by omega) t t' id hi _ (fun i x y => hg i (by omega) y) a3 h5
        · exact ih r (by omega) t t' lo hi _ hg a4 h6

/-- the table update `add_bookmark(b, Some(p))` performs, uniformly (a missing `p` changes nothing) -/
def attach (t : BmTable) (p k : Nat) (b : Bm) : BmTable :=
  (t.modify p (fun pb => { pb with children := pb.children ++ [k] })).put k b

theorem rep_insert : ∀ (n : Nat) (ts : List BT), BT.sizeL ts ≤ n → ∀ (t : BmTable) (ids : List Nat) (lo hi p k : Nat)
    (bnew : Bm), wfL lo hi ts → hi < k → bnew.children = [] → repL t ids ts = true →
    repL (attach t p k bnew) ids
      (BT.insertUnderL p (.node k bnew.title bnew.format bnew.color bnew.page []) ts) = true := by
  intro n
  induction n with
  | zero =>
    intro ts h; have := BT.sizeL_eq_zero (Nat.le_zero.mp h); subst this
    intro t ids lo hi p k bnew _ _ _ hr; rw [repL_nil_right hr]; simp [repL, BT.insertUnderL]
  | succ n ih =>
    intro ts hsz t ids lo hi p k bnew hw hk hc hr
    cases ts with
    | nil => rw [repL_nil_right hr]; simp [repL, BT.insertUnderL]
    | cons tr r =>
      cases tr with
      | node id title f c page kids =>
        obtain ⟨is, b, rfl, hb, h1, h2, h3, h4, h5, h6⟩ := repL_cons_inv hr
        simp only [wfL, wfN, BT.sizeL, BT.size] at hw hsz
        obtain ⟨⟨a1, a2, a3⟩, a4⟩ := hw
        have hrest := ih r (by omega) t is lo hi p k bnew a4 hk hc h6
        simp only [BT.insertUnderL, BT.insertUnder]
        by_cases hp : id = p
        · subst hp
          simp only [if_true]
          have hget : (attach t id k bnew).get id = some { b with children := b.children ++ [k] } := by
            have : ¬ k = id := by omega
            simp [attach, bmGet_put, bmGet_modify, this, hb]
          refine repL_cons_intro hget h1 h2 h3 h4 ?_ hrest
          refine repL_append kids b.children [k] _ ?_ ?_
          · refine rep_congr _ kids (Nat.le_refl _) t _ id hi _ ?_ a3 h5
            intro i x y
            have e1 : ¬ k = i := by omega
            have e2 : ¬ i = id := by omega
            simp [attach, bmGet_put, bmGet_modify, e1, e2]
          · have hk' : (attach t id k bnew).get k = some bnew := by simp [attach, bmGet_put]
            simp [repL, repN, hk', hc]
        · simp only [hp, if_false]
          have hget : (attach t p k bnew).get id = some b := by
            have : ¬ k = id := by omega
            simp [attach, bmGet_put, bmGet_modify, this, hp, hb]
          exact repL_cons_intro hget h1 h2 h3 h4 (ih kids (by omega) t _ id hi p k bnew a3 hk hc h5) hrest

theorem wf_insert : ∀ (n : Nat) (ts : List BT), BT.sizeL ts ≤ n → ∀ (lo hi p k : Nat) (new : BT),
    wfL lo hi ts → hi < k → (∀ l, l < k → wfN l k new) →
    wfL lo k (BT.insertUnderL p new ts) := by
  intro n
  induction n with
  | zero =>
    intro ts h; have := BT.sizeL_eq_zero (Nat.le_zero.mp h); subst this
    intros; simp [wfL, BT.insertUnderL]
  | succ n ih =>
    intro ts hsz lo hi p k new hw hk hnew
    cases ts with
    | nil => simp [wfL, BT.insertUnderL]
    | cons tr r =>
      cases tr with
      | node id title f c page kids =>
        simp only [wfL, wfN, BT.sizeL, BT.size] at hw hsz
        obtain ⟨⟨a1, a2, a3⟩, a4⟩ := hw
        simp only [BT.insertUnderL, BT.insertUnder, wfL]
        refine ⟨?_, ih r (by omega) lo hi p k new a4 hk hnew⟩
        by_cases hp : id = p
        · simp only [hp, if_true, wfN]
          subst hp
          refine ⟨a1, by omega, wfL_append _ _ _ _ (wfL_mono _ kids (Nat.le_refl _) _ _ _ _ (Nat.le_refl _) (by omega) a3) ?_⟩
          simp only [wfL, and_true]
          exact hnew id (by omega)
        · simp only [hp, if_false, wfN]
          exact ⟨a1, by omega, ih kids (by omega) id hi p k new a3 hk hnew⟩

theorem bmModify_absent (t : BmTable) (p : Nat) (f : Bm → Bm) (h : t.get p = none) : t.modify p f = t := by
  induction t with
  | nil => rfl
  | cons e r ih =>
    obtain ⟨k, d⟩ := e
    simp only [BmTable.get] at h
    by_cases hk : k = p
    · simp [hk] at h
    · simp only [hk, if_false] at h
      simp [BmTable.modify, hk, ih h]

/-- invariant linking the bookmark state with (counter, forest) of `forestStep` -/
def Inv (s : BmState) (st : Nat × List BT) : Prop :=
  s.maxBm = st.1 ∧ wfL 0 st.1 st.2 ∧ repL s.table s.roots st.2 = true

theorem inv_step (s : BmState) (st : Nat × List BT) (b : Bm) (parent : Option Nat) (h : Inv s st)
    (hc : b.children = []) :
    Inv (addBookmark s b parent).1 (forestStep st (b, parent)) := by
  obtain ⟨hm, hw, hr⟩ := h
  have hnew : ∀ l, l < st.1 + 1 → wfN l (st.1 + 1) (.node (st.1 + 1) b.title b.format b.color b.page []) := by
    intro l hl; simp [wfN, wfL]; omega
  cases parent with
  | none =>
    refine ⟨by simp [addBookmark, forestStep, hm], ?_, ?_⟩
    · simp only [forestStep]
      refine wfL_append _ _ _ _ (wfL_mono _ _ (Nat.le_refl _) _ _ _ _ (Nat.le_refl _) (by omega) hw) ?_
      simp only [wfL, and_true]; exact hnew 0 (by omega)
    · simp only [addBookmark, forestStep, hm]
      refine repL_append _ _ _ _ ?_ ?_
      · refine rep_congr _ _ (Nat.le_refl _) s.table _ 0 st.1 _ ?_ hw hr
        intro i _ hi
        have : ¬ st.1 + 1 = i := by omega
        simp [bmGet_put, this]
      · simp [repL, repN, bmGet_put, hc]
  | some p =>
    refine ⟨by simp [addBookmark, forestStep, hm], ?_, ?_⟩
    · simp only [forestStep]
      exact wf_insert _ _ (Nat.le_refl _) 0 st.1 p (st.1 + 1) _ hw (by omega) hnew
    · have := rep_insert _ _ (Nat.le_refl _) s.table s.roots 0 st.1 p (st.1 + 1)
        { b with id := st.1 + 1 } hw (by omega) hc hr
      simp only [attach] at this
      simp only [addBookmark, forestStep, hm]
      cases hg : s.table.get p with
      | some _ => simpa using this
      | none =>
        rw [bmModify_absent _ _ _ hg] at this
        simpa using this

theorem inv_addAll : ∀ (ops : List (Bm × Option Nat)) (s : BmState) (st : Nat × List BT),
    (∀ op ∈ ops, op.1.children = []) → Inv s st → Inv (addAll s ops) (ops.foldl forestStep st) := by
  intro ops
  induction ops with
  | nil => intro s st _ h; exact h
  | cons op r ih =>
    intro s st hc h
    obtain ⟨b, p⟩ := op
    simp only [addAll, List.foldl_cons]
    exact ih _ _ (fun o ho => hc o (by simp [ho])) (inv_step s st b p h (hc (b, p) (by simp)))

/-- **rep_of_ops.** For EVERY sequence of `add_bookmark(Bookmark::new(..), parent)` calls — children
attached in any order and interleaving, parents that do not exist (yet), parents that are themselves
unreachable — the bookmark table of the document represents, at `Document.bookmarks`, exactly the
forest the calls denote (`forestOfOps`: children in insertion order under their parent).
`children = []` is what `Bookmark::new` constructs. -/
theorem rep_of_ops (ops : List (Bm × Option Nat)) (hc : ∀ op ∈ ops, op.1.children = []) :
    repL (addAll BmState.empty ops).table (addAll BmState.empty ops).roots (forestOfOps ops) = true :=
  (inv_addAll ops BmState.empty (0, []) hc ⟨rfl, by simp [wfL], by simp [BmState.empty, repL]⟩).2.2

/-- **outline_links for the public API.** Any `add_bookmark` sequence with at least one reachable
bookmark, any old `max_id`, all fuel ≥ the number of reachable bookmarks: `build_outline` succeeds
and the created objects embed the forest of the calls (statement of `outline_links`). -/
theorem outline_links_of_ops (ops : List (Bm × Option Nat)) (hc : ∀ op ∈ ops, op.1.children = [])
    (maxId fuel : Nat) (hne : forestOfOps ops ≠ []) (hfuel : BT.sizeL (forestOfOps ops) ≤ fuel) :
    ∃ b, buildOutline fuel (addAll BmState.empty ops) maxId = some (some b) ∧ b.root = (maxId + 1, 0) ∧
      b.maxId = maxId + 1 + 2 * BT.sizeL (forestOfOps ops) ∧
      b.objs.get (maxId + 1, 0) = some (rootDict (forestOfOps ops) (maxId + 1)) ∧
      EmbL b.objs.get (maxId + 1) (maxId + 1, 0) none (forestOfOps ops) :=
  outline_links _ _ maxId fuel (rep_of_ops ops hc) hne hfuel


end Lopdf.C17
