import LopdfModel.Thm.C11Pages
import LopdfModel.Thm.C11Frames
/-
  C11 — property theorems, part 5: references of a document ("no new dangling reference"), the frame of the
  page-tree invariant, and "mild" steps (objects rewritten one at a time, nothing disappears).
-/
namespace Lopdf.Ed
open Lopdf Lopdf.DictL

/-! ### references of a document; "no new dangling reference" -/

/-- some value of the document (trailer or an object) contains the reference `r`, at any depth -/
def HasRef (d : Doc) (r : ObjId) : Prop :=
  r ∈ refsOfD d.trailer ∨ ∃ k o, d.objects.get k = some o ∧ r ∈ refsOf o

/-- a reference the document holds that resolves to no object -/
def Dangling (d : Doc) (r : ObjId) : Prop := HasRef d r ∧ d.objects.get r = none

/-- the step from `d` to `d'` introduced no dangling reference: whatever dangles afterwards dangled before -/
def NoNew (d d' : Doc) : Prop := ∀ r, Dangling d' r → Dangling d r

/-- every reference resolves -/
def Closed (d : Doc) : Prop := ∀ r, ¬ Dangling d r

theorem noNew_refl (d : Doc) : NoNew d d := fun _ h => h
theorem noNew_trans {a b c : Doc} (h1 : NoNew a b) (h2 : NoNew b c) : NoNew a c := fun r h => h1 r (h2 r h)
theorem closed_of_noNew {d d' : Doc} (h : NoNew d d') (hc : Closed d) : Closed d' := fun r hr => hc r (h r hr)

theorem mem_refsOfD_iff (r : ObjId) : ∀ es : List (Bytes × Obj), r ∈ refsOfD es ↔ ∃ e ∈ es, r ∈ refsOf e.2
  | [] => by simp [refsOfD]
  | (k, v) :: es => by
    simp only [refsOfD, List.mem_append, mem_refsOfD_iff r es, List.mem_cons]
    constructor
    · rintro (h | ⟨e, he, hr⟩)
      · exact ⟨(k, v), Or.inl rfl, h⟩
      · exact ⟨e, Or.inr he, hr⟩
    · rintro ⟨e, he | he, hr⟩
      · subst he; exact Or.inl hr
      · exact Or.inr ⟨e, he, hr⟩

theorem mem_refsOfL_iff (r : ObjId) : ∀ xs : List Obj, r ∈ refsOfL xs ↔ ∃ x ∈ xs, r ∈ refsOf x
  | [] => by simp [refsOfL]
  | x :: xs => by
    simp only [refsOfL, List.mem_append, mem_refsOfL_iff r xs, List.mem_cons]
    constructor
    · rintro (h | ⟨e, he, hr⟩)
      · exact ⟨x, Or.inl rfl, h⟩
      · exact ⟨e, Or.inr he, hr⟩
    · rintro ⟨e, he | he, hr⟩
      · subst he; exact Or.inl hr
      · exact Or.inr ⟨e, he, hr⟩

theorem mem_dictSet (d : Dict) (k : Bytes) (v : Obj) (e : Bytes × Obj) (h : e ∈ Dict.set d k v) : e ∈ d ∨ e = (k, v) := by
  induction d with
  | nil => simp [Dict.set] at h; exact Or.inr h
  | cons p rest ih =>
    obtain ⟨k', v'⟩ := p
    simp only [Dict.set] at h
    split at h
    · rcases List.mem_cons.mp h with h | h
      · exact Or.inr h
      · exact Or.inl (List.mem_cons_of_mem _ h)
    · rcases List.mem_cons.mp h with h | h
      · exact Or.inl (by rw [h]; exact List.mem_cons_self)
      · rcases ih h with h | h
        · exact Or.inl (List.mem_cons_of_mem _ h)
        · exact Or.inr h

theorem mem_dictRemove (d : Dict) (k : Bytes) (e : Bytes × Obj) (h : e ∈ Dict.remove d k) : e ∈ d := by
  unfold Dict.remove at h
  split at h
  · exact h
  · split at h
    · exact h
    · rename_i last hl
      have hlast : last ∈ d := List.mem_of_getLast? hl
      simp only at h
      split at h
      · exact List.dropLast_subset _ h
      · rcases List.mem_or_eq_of_mem_set h with h | h
        · exact List.dropLast_subset _ h
        · rw [h]; exact hlast

theorem refs_dictSet (d : Dict) (k : Bytes) (v : Obj) (r : ObjId) (h : r ∈ refsOfD (Dict.set d k v)) :
    r ∈ refsOfD d ∨ r ∈ refsOf v := by
  obtain ⟨e, he, hr⟩ := (mem_refsOfD_iff r _).mp h
  rcases mem_dictSet d k v e he with he | he
  · exact Or.inl ((mem_refsOfD_iff r _).mpr ⟨e, he, hr⟩)
  · subst he; exact Or.inr hr

theorem refs_dictRemove (d : Dict) (k : Bytes) (r : ObjId) (h : r ∈ refsOfD (Dict.remove d k)) : r ∈ refsOfD d := by
  obtain ⟨e, he, hr⟩ := (mem_refsOfD_iff r _).mp h
  exact (mem_refsOfD_iff r _).mpr ⟨e, mem_dictRemove d k e he, hr⟩

theorem refs_removeKeys (ks : List Bytes) : ∀ (d : Dict) (r : ObjId), r ∈ refsOfD (removeKeys d ks) → r ∈ refsOfD d := by
  induction ks with
  | nil => intro d r h; exact h
  | cons k ks ih =>
    intro d r h
    simp only [removeKeys, List.foldl_cons] at h
    exact refs_dictRemove d k r (ih (Dict.remove d k) r h)

theorem refs_of_get (d : Dict) (k : Bytes) (v : Obj) (h : Dict.get d k = some v) (r : ObjId) (hr : r ∈ refsOf v) :
    r ∈ refsOfD d := Ren.mem_refsOfD_of_get d k v h r hr

/-! ### the page-tree invariant only reads five keys of the catalog, `Pages` and `Page` dictionaries -/

/-- the keys `PagesInv` reads -/
def Prot : List Bytes := [TYPE, KIDS, COUNT, PARENT, PAGES]

/-- a dictionary stays a dictionary with distinct keys and the same protected entries -/
def Keep (o o' : Obj) : Prop :=
  ∀ nd, o = .dict nd → ∃ nd', o' = .dict nd' ∧ (NoDup nd → NoDup nd') ∧ ∀ key ∈ Prot, Dict.get nd' key = Dict.get nd key

def KeepAt (os os' : Objects) (x : ObjId) : Prop := ∀ o, os.get x = some o → ∃ o', os'.get x = some o' ∧ Keep o o'

theorem keep_refl (o : Obj) : Keep o o := fun nd h => ⟨nd, h, fun h => h, fun _ _ => rfl⟩

theorem keepAt_of_eq (os os' : Objects) (x : ObjId) (h : os'.get x = os.get x) : KeepAt os os' x :=
  fun o ho => ⟨o, by rw [h]; exact ho, keep_refl o⟩

mutual
theorem shape_keep (os os' : Objects) : ∀ (t : PT) (top : Option ObjId), Shape os top t →
    (∀ x ∈ nodeIds t, KeepAt os os' x) → (∀ x ∈ t.leaves, KeepAt os os' x) → Shape os' top t
  | .page id, top, h, _, hl => by
    simp only [Shape] at h ⊢
    obtain ⟨pd, h1, hn, hty, hp⟩ := h
    obtain ⟨o', e', r⟩ := hl id (by simp [PT.leaves]) _ h1
    obtain ⟨nd', rfl, n1, g1⟩ := r pd rfl
    exact ⟨nd', e', n1 hn, by rw [g1 TYPE (by simp [Prot])]; exact hty, by rw [g1 PARENT (by simp [Prot])]; exact hp⟩
  | .pages id ks, top, h, hnodes, hl => by
    simp only [Shape] at h ⊢
    obtain ⟨nd0, h1, hn, hty, hk, hch⟩ := h
    obtain ⟨o', e', r⟩ := hnodes id (by simp [nodeIds]) _ h1
    obtain ⟨nd', rfl, n1, g1⟩ := r nd0 rfl
    exact ⟨nd', e', n1 hn, by rw [g1 TYPE (by simp [Prot])]; exact hty, by rw [g1 KIDS (by simp [Prot])]; exact hk,
      shapeL_keep os os' ks (some id) hch (fun x hx => hnodes x (by simp [nodeIds, hx])) (fun x hx => hl x (by simpa [PT.leaves] using hx))⟩
theorem shapeL_keep (os os' : Objects) : ∀ (ks : List PT) (top : Option ObjId), ShapeL os top ks →
    (∀ x ∈ nodeIdsL ks, KeepAt os os' x) → (∀ x ∈ PT.leavesL ks, KeepAt os os' x) → ShapeL os' top ks
  | [], _, _, _, _ => trivial
  | t :: ts, top, h, hnodes, hl => by
    simp only [ShapeL] at h ⊢
    exact ⟨shape_keep os os' t top h.1 (fun x hx => hnodes x (by simp [nodeIdsL, hx])) (fun x hx => hl x (by simp [PT.leavesL, hx])),
      shapeL_keep os os' ts top h.2 (fun x hx => hnodes x (by simp [nodeIdsL, hx])) (fun x hx => hl x (by simp [PT.leavesL, hx]))⟩
end

mutual
theorem treeOK_keep (os os' : Objects) : ∀ (t : PT) (top : Option ObjId), TreeOK os top t →
    (∀ x ∈ nodeIds t, KeepAt os os' x) → TreeOK os' top t
  | .page _, _, _, _ => trivial
  | .pages id ks, top, h, hf => by
    simp only [TreeOK] at h ⊢
    obtain ⟨⟨d, h1, h2, h3⟩, h4⟩ := h
    obtain ⟨o', e', r⟩ := hf id (by simp [nodeIds]) _ h1
    obtain ⟨nd', rfl, _, g1⟩ := r d rfl
    refine ⟨⟨nd', e', by rw [g1 COUNT (by simp [Prot])]; exact h2, by rw [g1 PARENT (by simp [Prot])]; exact h3⟩, ?_⟩
    exact treeOKL_keep os os' ks (some id) h4 (fun x hx => hf x (by simp [nodeIds, hx]))
theorem treeOKL_keep (os os' : Objects) : ∀ (ks : List PT) (top : Option ObjId), TreeOKL os top ks →
    (∀ x ∈ nodeIdsL ks, KeepAt os os' x) → TreeOKL os' top ks
  | [], _, _, _ => trivial
  | t :: ts, top, h, hf => by
    simp only [TreeOKL] at h ⊢
    exact ⟨treeOK_keep os os' t top h.1 (fun x hx => hf x (by simp [nodeIdsL, hx])),
           treeOKL_keep os os' ts top h.2 (fun x hx => hf x (by simp [nodeIdsL, hx]))⟩
end

/-- **frame of the page-tree invariant**: a step that leaves the trailer alone and keeps the protected entries of
the catalog, the `Pages` nodes and the pages keeps the invariant, for the same tree -/
theorem pagesInv_keep (d d' : Doc) (cat rid : ObjId) (ks : List PT) (h : PagesInv d cat rid ks)
    (htr : d'.trailer = d.trailer)
    (hk : ∀ x, x = cat ∨ x ∈ nodeIds (.pages rid ks) ∨ x ∈ PT.leavesL ks → KeepAt d.objects d'.objects x) :
    PagesInv d' cat rid ks := by
  obtain ⟨cd, hc1, hc2, hc3⟩ := h.catObj
  obtain ⟨o', e', r⟩ := hk cat (Or.inl rfl) _ hc1
  obtain ⟨cd', rfl, n1, g1⟩ := r cd rfl
  exact {
    trN := by rw [htr]; exact h.trN
    trRoot := by rw [htr]; exact h.trRoot
    catObj := ⟨cd', e', n1 hc2, by rw [g1 PAGES (by simp [Prot])]; exact hc3⟩
    shape := shape_keep _ _ _ none h.shape (fun x hx => hk x (Or.inr (Or.inl hx))) (fun x hx => hk x (Or.inr (Or.inr (by simpa [PT.leaves] using hx))))
    counts := treeOK_keep _ _ _ none h.counts (fun x hx => hk x (Or.inr (Or.inl hx)))
    nodesN := h.nodesN
    leavesN := h.leavesN
    disj := h.disj
    catOut := h.catOut
    height := h.height }

/-! ### "mild" steps: objects are rewritten one at a time, nothing disappears -/

/-- an object before / after a mild step: every reference it now holds it held before, or is in the allowed set
`Ex`; a dictionary stays a dictionary with distinct keys and the same protected entries -/
def Mild (Ex : ObjId → Prop) (o o' : Obj) : Prop := (∀ r ∈ refsOf o', r ∈ refsOf o ∨ Ex r) ∧ Keep o o'

structure MildStep (Ex : ObjId → Prop) (d d' : Doc) : Prop where
  tr : d'.trailer = d.trailer
  old : ∀ k o, d.objects.get k = some o → ∃ o', d'.objects.get k = some o' ∧ Mild Ex o o'
  fresh : ∀ k o', d.objects.get k = none → d'.objects.get k = some o' → ∀ r ∈ refsOf o', Ex r

theorem mild_refl (Ex : ObjId → Prop) (o : Obj) : Mild Ex o o := ⟨fun _ h => Or.inl h, keep_refl o⟩

theorem keep_trans {a b c : Obj} (h1 : Keep a b) (h2 : Keep b c) : Keep a c := by
  intro nd e
  obtain ⟨nd1, e1, n1, g1⟩ := h1 nd e
  obtain ⟨nd2, e2, n2, g2⟩ := h2 nd1 e1
  exact ⟨nd2, e2, fun h => n2 (n1 h), fun key hk => (g2 key hk).trans (g1 key hk)⟩

theorem mild_trans {Ex : ObjId → Prop} {a b c : Obj} (h1 : Mild Ex a b) (h2 : Mild Ex b c) : Mild Ex a c := by
  refine ⟨?_, keep_trans h1.2 h2.2⟩
  intro r hr
  rcases h2.1 r hr with h | h
  · exact h1.1 r h
  · exact Or.inr h

theorem mildStep_refl (Ex : ObjId → Prop) (d : Doc) : MildStep Ex d d :=
  ⟨rfl, fun _ o h => ⟨o, h, mild_refl Ex o⟩, fun k o' h1 h2 => by rw [h1] at h2; cases h2⟩

theorem mildStep_trans {Ex : ObjId → Prop} {a b c : Doc} (h1 : MildStep Ex a b) (h2 : MildStep Ex b c) : MildStep Ex a c := by
  refine ⟨h2.tr.trans h1.tr, ?_, ?_⟩
  · intro k o ho
    obtain ⟨o1, e1, m1⟩ := h1.old k o ho
    obtain ⟨o2, e2, m2⟩ := h2.old k o1 e1
    exact ⟨o2, e2, mild_trans m1 m2⟩
  · intro k o' hn hc r hr
    cases hb : b.objects.get k with
    | none => exact h2.fresh k o' hb hc r hr
    | some o1 =>
      obtain ⟨o2, e2, m2⟩ := h2.old k o1 hb
      rw [hc] at e2; cases e2
      rcases m2.1 r hr with h | h
      · exact h1.fresh k o1 hn hb r h
      · exact h

/-- only `max_id` differs -/
theorem mildStep_of_same (Ex : ObjId → Prop) (d d' : Doc) (ht : d'.trailer = d.trailer) (ho : d'.objects = d.objects) :
    MildStep Ex d d' :=
  ⟨ht, fun k o h => ⟨o, by rw [ho]; exact h, mild_refl Ex o⟩, fun k o' h1 h2 => by rw [ho, h1] at h2; cases h2⟩

theorem mildStep_setObj (Ex : ObjId → Prop) (d : Doc) (t : ObjId) (o v : Obj) (h : d.objects.get t = some o)
    (hm : Mild Ex o v) : MildStep Ex d { d with objects := d.objects.set t v } := by
  refine ⟨rfl, ?_, ?_⟩
  · intro k o0 h0
    simp only [Objects.get_set]
    by_cases e : t = k
    · subst e; rw [h] at h0; cases h0; simp [h]; exact hm
    · simp [e]; exact ⟨o0, h0, mild_refl Ex o0⟩
  · intro k o' h1 h2
    simp only [Objects.get_set] at h2
    by_cases e : t = k
    · subst e; rw [h] at h1; cases h1
    · simp [e] at h2; rw [h1] at h2; cases h2

theorem mildStep_addObject (Ex : ObjId → Prop) (d : Doc) (o : Obj) (hf : d.objects.get (d.maxId + 1, 0) = none)
    (hr : ∀ r ∈ refsOf o, Ex r) : MildStep Ex d (addObject d o) := by
  refine ⟨rfl, ?_, ?_⟩
  · intro k o0 h0
    rw [addObject_get]
    by_cases e : (d.maxId + 1, 0) = k
    · subst e; rw [hf] at h0; cases h0
    · simp [e]; exact ⟨o0, h0, mild_refl Ex o0⟩
  · intro k o' h1 h2
    rw [addObject_get] at h2
    by_cases e : (d.maxId + 1, 0) = k
    · simp [e] at h2; subst h2; exact hr
    · simp [e] at h2; rw [h1] at h2; cases h2

theorem mild_dictSet (Ex : ObjId → Prop) (pd : Dict) (key : Bytes) (v : Obj) (hk : key ∉ Prot)
    (hr : ∀ r ∈ refsOf v, r ∈ refsOfD pd ∨ Ex r) : Mild Ex (.dict pd) (.dict (Dict.set pd key v)) := by
  refine ⟨?_, ?_⟩
  · intro r h
    simp only [refsOf] at h ⊢
    rcases refs_dictSet pd key v r h with h | h
    · exact Or.inl h
    · exact hr r h
  · intro nd e; cases e
    refine ⟨_, rfl, fun h => nodup_set h _ _, ?_⟩
    intro q hq
    rw [Dict.get_set_c11]
    have : key ≠ q := fun e => hk (e ▸ hq)
    simp [this]

theorem mildStep_isSome {Ex : ObjId → Prop} {d d' : Doc} (h : MildStep Ex d d') (k : ObjId) (hs : (d.objects.get k).isSome) :
    (d'.objects.get k).isSome := by
  cases hg : d.objects.get k with
  | none => rw [hg] at hs; cases hs
  | some o => obtain ⟨o', e, _⟩ := h.old k o hg; simp [e]

/-- a mild step introduces no dangling reference when the allowed new references resolve afterwards or were
references of the document already -/
theorem noNew_of_mild {Ex : ObjId → Prop} {d d' : Doc} (h : MildStep Ex d d')
    (hex : ∀ r, Ex r → (d'.objects.get r).isSome ∨ HasRef d r) : NoNew d d' := by
  intro r ⟨hh, hn⟩
  have hex' : Ex r → HasRef d r := fun e => by
    rcases hex r e with h | h
    · rw [hn] at h; cases h
    · exact h
  refine ⟨?_, ?_⟩
  · rcases hh with hh | ⟨k, o', hk, hr⟩
    · exact Or.inl (by rw [← h.tr]; exact hh)
    · cases hg : d.objects.get k with
      | none => exact hex' (h.fresh k o' hg hk r hr)
      | some o =>
        obtain ⟨o2, e2, m⟩ := h.old k o hg
        rw [hk] at e2; cases e2
        rcases m.1 r hr with h1 | h1
        · exact Or.inr ⟨k, o, hg, h1⟩
        · exact hex' h1
  · cases hg : d.objects.get r with
    | none => rfl
    | some o => obtain ⟨o2, e2, _⟩ := h.old r o hg; rw [hn] at e2; cases e2

/-- a mild step keeps the page-tree invariant, for the same tree -/
theorem pagesInv_of_mild {Ex : ObjId → Prop} {d d' : Doc} (h : MildStep Ex d d') (cat rid : ObjId) (ks : List PT)
    (hp : PagesInv d cat rid ks) : PagesInv d' cat rid ks :=
  pagesInv_keep d d' cat rid ks hp h.tr (fun x _ o ho => by obtain ⟨o', e, m⟩ := h.old x o ho; exact ⟨o', e, m.2⟩)

end Lopdf.Ed
