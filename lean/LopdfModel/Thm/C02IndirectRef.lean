import LopdfModel.Thm.C02Indirect
/-
  C02 — streams whose `Length` is an indirect reference (resolved through the cross-reference
  map while the stream is parsed).
-/
namespace Lopdf.Grammar
open Lopdf Gen

/-- **Stream objects with an INDIRECT `Length`, every spelling**: `Length` is a reference `n g R`
that the reader resolves (`len`) to the number of data bytes; the dictionary in any spelling,
any white space / comments before `stream`, optional blanks, LF or CR LF, exactly `Length` bytes
of data (ANY bytes), an optional end-of-line marker, `endstream`. -/
theorem stream_ref_complete {d : Nat} {es : List (Bytes × Obj)} {ebs : Bytes} (sp sp5 bl e data e' tail : Bytes)
    (len : ObjId → Option Int) (hsp : DerivesSpace sp) (hes : DerivesEntries d es ebs) (hd : 1 + d ≤ MAX_NESTING)
    (hsp5 : DerivesSpace sp5) (hbl : ∀ b ∈ bl, (b == 32 || b == 9) = true) (he : IsStreamEol e)
    (ln lg : Nat) (hlen : (setEntries [] es).get LENGTH = some (.ref ln lg))
    (hres : len (ln, lg) = some (data.length : Int)) (he' : IsOptEol e') :
    pStream len ((60 :: 60 :: sp ++ ebs ++ [62, 62]) ++ (sp5 ++ (STREAM_KW ++ (bl ++ (e ++ (data ++ (e' ++ (ENDSTREAM_KW ++ tail)))))))) =
      .ok (.plain (.stream ((setEntries [] es).set LENGTH (.int data.length)) data)) tail := by
  have b1 := dictionary_complete sp (sp5 ++ (STREAM_KW ++ (bl ++ (e ++ (data ++ (e' ++ (ENDSTREAM_KW ++ tail))))))) hsp hes hd
  have b2 : space (sp5 ++ (STREAM_KW ++ (bl ++ (e ++ (data ++ (e' ++ (ENDSTREAM_KW ++ tail))))))) =
      STREAM_KW ++ (bl ++ (e ++ (data ++ (e' ++ (ENDSTREAM_KW ++ tail))))) :=
    space_complete sp5 _ hsp5 (by intro b r e0; injection e0 with e0 _; subst e0; decide)
  have b3 : tag STREAM_WORD (STREAM_KW ++ (bl ++ (e ++ (data ++ (e' ++ (ENDSTREAM_KW ++ tail)))))) =
      some (bl ++ (e ++ (data ++ (e' ++ (ENDSTREAM_KW ++ tail))))) := tag_append STREAM_WORD _
  have b4 : space0 (bl ++ (e ++ (data ++ (e' ++ (ENDSTREAM_KW ++ tail))))) = e ++ (data ++ (e' ++ (ENDSTREAM_KW ++ tail))) := by
    unfold space0
    rw [spanP_append (fun b => b == 32 || b == 9) bl _ hbl (by
      intro b r e0
      cases he with
      | lf => injection e0 with e0 _; subst e0; decide
      | crlf => injection e0 with e0 _; subst e0; decide)]
  have b5 : ∃ m, eol (e ++ (data ++ (e' ++ (ENDSTREAM_KW ++ tail)))) = some (m, data ++ (e' ++ (ENDSTREAM_KW ++ tail))) := by
    cases he with
    | lf => exact ⟨_, rfl⟩
    | crlf => exact ⟨_, rfl⟩
  obtain ⟨m, b5⟩ := b5
  have b6 : List.take data.length (data ++ (e' ++ (ENDSTREAM_KW ++ tail))) = data := List.take_left' rfl
  have b7 : List.drop data.length (data ++ (e' ++ (ENDSTREAM_KW ++ tail))) = e' ++ (ENDSTREAM_KW ++ tail) := List.drop_left' rfl
  have b8 : (eol (e' ++ (ENDSTREAM_KW ++ tail)) = none ∧ e' = []) ∨
      ∃ m', eol (e' ++ (ENDSTREAM_KW ++ tail)) = some (m', ENDSTREAM_KW ++ tail) := by
    cases he' with
    | none => left; simp [ENDSTREAM_KW, eol]
    | some _ hee =>
      right
      obtain ⟨m', r, h1, h2⟩ := eol_general e' (ENDSTREAM_KW ++ tail) hee
      rcases h2 with rfl | ⟨_, h2⟩
      · exact ⟨m', h1⟩
      · simp [ENDSTREAM_KW] at h2
  have b9 : tag ENDSTREAM_WORD (ENDSTREAM_KW ++ tail) = some tail := tag_append ENDSTREAM_WORD tail
  have hlt : ¬ ((data.length : Int) < 0) := by omega
  have hge : ¬ ((data ++ (e' ++ (ENDSTREAM_KW ++ tail))).length < data.length) := by simp
  unfold pStream
  simp only [b1, b2, b3, b4, b5, hlen, hres, hlt, if_false, Int.toNat_natCast, hge, b6, b7]
  rcases b8 with ⟨h0, rfl⟩ | ⟨m', h0⟩
  · simp only [List.nil_append] at h0 ⊢
    simp only [h0, b9]
  · simp only [h0, b9]

/-- **Indirect stream objects with an indirect `Length`, every spelling**: the loaded dictionary
carries the resolved `Length` as a direct integer (as `Reader::read` stores it) -/
theorem indirect_stream_ref_complete {d : Nat} {es : List (Bytes × Obj)} {ebs : Bytes} (n g : Nat)
    (sp0 d1 sp1 d2 sp2 sp3 sp sp5 bl e data e' tail : Bytes)
    (len : ObjId → Option Int) (expected : Option ObjId) (base : Nat)
    (hsp0 : DerivesSpace sp0) (h1 : DerivesNat n d1) (hn : n ≤ 4294967295) (hs1 : IsGap sp1)
    (h2 : DerivesNat g d2) (hg : g ≤ 65535) (hs2 : IsGap sp2) (hsp3 : DerivesSpace sp3)
    (hsp : DerivesSpace sp) (hes : DerivesEntries d es ebs) (hd : 1 + d ≤ MAX_NESTING)
    (hsp5 : DerivesSpace sp5) (hbl : ∀ b ∈ bl, (b == 32 || b == 9) = true) (he : IsStreamEol e)
    (ln lg : Nat) (hlen : (setEntries [] es).get LENGTH = some (.ref ln lg))
    (hres : len (ln, lg) = some (data.length : Int)) (he' : IsOptEol e')
    (hexp : ∀ x, expected = some x → x = (n, g)) :
    pIndirect len expected base
      (sp0 ++ (d1 ++ (sp1 ++ (d2 ++ (sp2 ++ (OBJ_KW ++ (sp3 ++
        ((60 :: 60 :: sp ++ ebs ++ [62, 62]) ++ (sp5 ++ (STREAM_KW ++ (bl ++ (e ++ (data ++ (e' ++ (ENDSTREAM_KW ++ tail))))))))))))))) =
      some ((n, g), .plain (.stream ((setEntries [] es).set LENGTH (.int data.length)) data)) := by
  obtain ⟨a1, a2, a3⟩ := indirect_head n g sp0 d1 sp1 d2 sp2
    (sp3 ++ ((60 :: 60 :: sp ++ ebs ++ [62, 62]) ++ (sp5 ++ (STREAM_KW ++ (bl ++ (e ++ (data ++ (e' ++ (ENDSTREAM_KW ++ tail)))))))))
    hsp0 h1 hn hs1 h2 hg hs2
  have a4 : space (sp3 ++ ((60 :: 60 :: sp ++ ebs ++ [62, 62]) ++ (sp5 ++ (STREAM_KW ++ (bl ++ (e ++ (data ++ (e' ++ (ENDSTREAM_KW ++ tail))))))))) =
      (60 :: 60 :: sp ++ ebs ++ [62, 62]) ++ (sp5 ++ (STREAM_KW ++ (bl ++ (e ++ (data ++ (e' ++ (ENDSTREAM_KW ++ tail))))))) :=
    space_complete sp3 _ hsp3 (by intro b r e0; simp only [List.cons_append] at e0; injection e0 with e0 _; subst e0; decide)
  have a5 := stream_ref_complete sp sp5 bl e data e' tail len hsp hes hd hsp5 hbl he ln lg hlen hres he'
  unfold pIndirect
  simp only [a1, Option.bind, a2, a3, a4, a5]
  cases expected with
  | none => rfl
  | some x => have := hexp x rfl; subst this; simp

end Lopdf.Grammar
