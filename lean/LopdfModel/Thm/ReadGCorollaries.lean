import LopdfModel.Thm.ReadGTransfer
import LopdfModel.Thm.FileRt
/-
  The file round trip (C01) for the reader the driver runs: `file_rt_table` / `file_rt_stream`
  through the transfer theorem `loadDocF2_of_loadDocOrd2`.
-/
namespace Lopdf.FileRT
open Lopdf Gen Lopdf.ObjRt

theorem file_rt_table_F (order : Option (List Nat)) (d : SDoc) (out : Bytes) (d' : SDoc)
    (hk : d.xrefKind = .table) (h : saveFrom [] d = some (out, d')) (hlen : out.length < 4294967296)
    (hmax : d.maxId + 1 ≤ 4294967295) (hwf : DocWF d)
    (hobjs : ∀ p ∈ d.objects, ObjOK p.2)
    (htr : WFObj (.dict d.trailer) ∧ height (.dict d.trailer) ≤ MAX_NESTING ∧ NoRealD d.trailer)
    (hv1 : ∀ b ∈ d.version, notEol b = true) (hv2 : validUtf8 d.version = true)
    (hprev : d.trailer.get PREV = none) (henc : d.trailer.has ENCRYPT = false) :
    ∃ L : Loaded, loadDocF2 order none out = .ok L ∧ L.version = d.version ∧ L.binaryMark = d.binaryMark ∧
      L.trailer = d'.trailer ∧ (∀ id, L.objects.get id = d.objects.get id) := by
  obtain ⟨L, h1, h2, h3, h4, _, _, h7, _⟩ :=
    file_rt_table order d out d' hk h hlen hmax hwf hobjs htr hv1 hv2 hprev henc
  exact ⟨L, loadDocF2_of_loadDocOrd2 order none out L h1, h2, h3, h4, h7⟩

theorem file_rt_stream_F (order : Option (List Nat)) (d : SDoc) (out : Bytes) (d' : SDoc)
    (hk : d.xrefKind = .stream) (h : saveFrom [] d = some (out, d')) (hlen : out.length < 4294967296)
    (hmax : d.maxId + 2 ≤ 4294967295) (hwf : DocWF d)
    (hobjs : ∀ p ∈ d.objects, ObjOK p.2)
    (htr : WFObj (.dict d.trailer) ∧ height (.dict d.trailer) ≤ MAX_NESTING ∧ NoRealD d.trailer)
    (hv1 : ∀ b ∈ d.version, notEol b = true) (hv2 : validUtf8 d.version = true)
    (hprev : d.trailer.get PREV = none) (henc : d.trailer.has ENCRYPT = false) :
    ∃ L : Loaded, loadDocF2 order none out = .ok L ∧ L.version = d.version ∧ L.binaryMark = d.binaryMark ∧
      ∀ id, L.objects.get id = (objectsWithXref d).get id := by
  obtain ⟨L, h1, h2, h3, _, _, _, h7⟩ :=
    file_rt_stream order d out d' hk h hlen hmax hwf hobjs htr hv1 hv2 hprev henc
  exact ⟨L, loadDocF2_of_loadDocOrd2 order none out L h1, h2, h3, h7⟩

end Lopdf.FileRT
