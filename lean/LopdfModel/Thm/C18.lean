import LopdfModel.Model.Dates
import LopdfModel.Lemmas.Text
import LopdfModel.Spec.PdfDate
/-
  C18 — property theorems (dates convert to PDF date strings and back).
  The date-time libraries are a parameter (`DateLib`); what is assumed of them is written in each
  statement as the hypothesis `LibFormats lib` / `LibParses lib`: on in-range fields they print and
  scan field-wise, zero-padded, as `specLib` does.  Civil ↔ epoch arithmetic is not modelled.
-/
namespace Lopdf
open Gen Spec

theorem daysInMonth_le (y m : Nat) : daysInMonth y m ≤ 31 := by
  unfold daysInMonth; split <;> (try split) <;> omega

/-- valid broken-down fields: years 0000–9999, a day that exists in that month of that year
(proleptic Gregorian), offsets within ±23:59 -/
def FieldsOk (f : Fields) : Prop :=
  f.year < 10000 ∧ 1 ≤ f.month ∧ f.month ≤ 12 ∧ 1 ≤ f.day ∧ f.day ≤ daysInMonth f.year f.month ∧ f.hour < 24
    ∧ f.minute < 60 ∧ f.second < 60 ∧ f.offH < 24 ∧ f.offM < 60

theorem FieldsOk.day_le (f : Fields) (h : FieldsOk f) : f.day ≤ 31 :=
  Nat.le_trans h.2.2.2.2.1 (daysInMonth_le _ _)

instance (f : Fields) : Decidable (FieldsOk f) := by unfold FieldsOk; exact inferInstance

/-- hypothesis on the libraries' formatters: field-wise zero-padded printing on in-range fields -/
def LibFormats (lib : DateLib) : Prop :=
  ∀ fmt f, FieldsOk f → lib.strftime fmt f = specLib.strftime fmt f ∧ lib.timeFormat fmt f = specLib.timeFormat fmt f

/-- hypothesis on the libraries' parsers: field-wise fixed-width scanning -/
def LibParses (lib : DateLib) : Prop :=
  ∀ z fmt s, lib.strptime z fmt s = specLib.strptime z fmt s ∧ lib.timeParse fmt s = specLib.timeParse fmt s

example : LibFormats specLib := fun _ _ _ => ⟨rfl, rfl⟩
example : LibParses specLib := fun _ _ _ => ⟨rfl, rfl⟩

/-! ### the format strings, as regenerated from the source -/

theorem tok_chrono_local : tokStrftime CHRONO_LOCAL_FMT =
    [.lit 68, .lit 58, .year, .month, .day, .hour, .minute, .second, .offColon, .lit 39] := by decide +kernel
theorem tok_jiff_zoned : tokStrftime JIFF_ZONED_FMT =
    [.lit 68, .lit 58, .year, .month, .day, .hour, .minute, .second, .offColon, .lit 39] := by decide +kernel
theorem tok_chrono_utc : tokStrftime CHRONO_UTC_FMT =
    [.lit 68, .lit 58, .year, .month, .day, .hour, .minute, .second, .lit 90] := by decide +kernel
theorem tok_jiff_ts : tokStrftime JIFF_TS_FMT =
    [.lit 68, .lit 58, .year, .month, .day, .hour, .minute, .second, .lit 90] := by decide +kernel
theorem tok_time_odt : tokTimeFd TIME_ODT_FMT none =
    [.lit 68, .lit 58, .year, .month, .day, .hour, .minute, .second, .offHourSigned, .lit 39, .offMinute, .lit 39] := by
  decide +kernel
theorem tok_time_time : tokTimeFd TIME_TIME_FMT none =
    [.lit 68, .lit 58, .year, .month, .day, .hour, .minute, .second, .lit 90] := by decide +kernel
/-- the five parse alternatives of the time backend in source order (the same forms, in the same order, as jiff's) -/
theorem time_parse_alternatives :
    TIME_PARSE.map (fun p => (p.1, tokTimeFd p.2 none)) =
      [(0, [.year, .month, .day, .hour, .minute, .second, .offHourSigned, .offMinute]),
       (1, [.year, .month, .day, .hour, .minute, .second, .lit 90]),
       (0, [.year, .month, .day, .hour, .minute, .offHourSigned, .offMinute]),
       (1, [.year, .month, .day, .hour, .minute, .lit 90]),
       (2, [.year, .month, .day])] := by decide +kernel
theorem parse_alternatives :
    CHRONO_PARSE.map (fun p => (p.1, tokStrftime p.2)) =
      [(0, [.year, .month, .day, .hour, .minute, .second, .offPermissive]),
       (0, [.year, .month, .day, .hour, .minute, .offPermissive]),
       (2, [.year, .month, .day])] ∧
    JIFF_PARSE.map (fun p => (p.1, tokStrftime p.2)) =
      [(0, [.year, .month, .day, .hour, .minute, .second, .offPermissive]),
       (1, [.year, .month, .day, .hour, .minute, .second, .lit 90]),
       (0, [.year, .month, .day, .hour, .minute, .offPermissive]),
       (1, [.year, .month, .day, .hour, .minute, .lit 90]),
       (2, [.year, .month, .day])] := by
  constructor <;> decide +kernel

/-! ### digits -/

theorem digit_eq (d : Nat) : digit d = D1 d := rfl
theorem pad2_eq (n : Nat) : pad2 n = D2 n := rfl
theorem pad4_eq (n : Nat) : pad4 n = D4 n := rfl

theorem digit_toNat (d : Nat) : (digit d).toNat = 48 + d % 10 := by
  simp [digit, Nat.toUInt8, UInt8.toNat_ofNat']; omega

theorem digit_ne (d : Nat) (k : UInt8) (hk : k.toNat < 48 ∨ 57 < k.toNat) : digit d ≠ k := by
  intro e
  have := congrArg UInt8.toNat e
  rw [digit_toNat] at this
  omega

theorem digit_beq (d : Nat) (k : UInt8) (hk : k.toNat < 48 ∨ 57 < k.toNat) : (digit d == k) = false := by
  simpa using digit_ne d k hk

theorem isDigit_digit (d : Nat) : isDigit (digit d) = true := by
  have h := digit_toNat d
  simp only [isDigit, Bool.and_eq_true, decide_eq_true_eq, UInt8.le_iff_toNat_le, h]
  constructor
  · show (48 : UInt8).toNat ≤ _; simp; 
  · show _ ≤ (57 : UInt8).toNat; simp; omega

theorem num2_digits (a b : Nat) : num2 (digit a) (digit b) = some (a % 10 * 10 + b % 10) := by
  simp [num2, isDigit_digit, digit_toNat]

/-! ### convert_utc_offset -/

theorem replaceFirst_skip (a b : UInt8) : ∀ (l r : Bytes), (∀ x ∈ l, x ≠ a) →
    replaceFirst a b (l ++ a :: r) = l ++ b :: r
  | [], r, _ => by simp [replaceFirst]
  | c :: l, r, h => by
    have hc : c ≠ a := h c (by simp)
    simp [replaceFirst, hc, replaceFirst_skip a b l r (fun x hx => h x (by simp [hx]))]

/-- **convert_utc_offset rewrites exactly the last `:`**: whatever precedes it (other colons included) is kept -/
theorem convert_last_colon (p q : Bytes) (hq : ∀ x ∈ q, x ≠ OFFSET_FROM) :
    convertUtcOffset (p ++ OFFSET_FROM :: q) = p ++ OFFSET_TO :: q := by
  unfold convertUtcOffset
  have : (p ++ OFFSET_FROM :: q).reverse = q.reverse ++ OFFSET_FROM :: p.reverse := by simp
  rw [this, replaceFirst_skip _ _ _ _ (fun x hx => hq x (List.mem_reverse.mp hx))]
  simp

/-- no `:` at all: the string is returned unchanged (the scan runs off the front and stops) -/
theorem convert_no_colon : ∀ (bs : Bytes), (∀ x ∈ bs, x ≠ OFFSET_FROM) → convertUtcOffset bs = bs := by
  intro bs h
  unfold convertUtcOffset
  have : ∀ (l : Bytes), (∀ x ∈ l, x ≠ OFFSET_FROM) → replaceFirst OFFSET_FROM OFFSET_TO l = l := by
    intro l
    induction l with
    | nil => intro _; rfl
    | cons c l ih =>
      intro hl
      have hc := hl c (by simp)
      simp [replaceFirst, hc, ih (fun x hx => hl x (by simp [hx]))]
  rw [this _ (fun x hx => h x (List.mem_reverse.mp hx))]
  simp

/-! ### shape of the date strings -/

def Fields.pdf (f : Fields) : Bytes := pdfDate f.year f.month f.day f.hour f.minute f.second f.offNeg f.offH f.offM
def Fields.pdfZ (f : Fields) : Bytes := pdfDateZ f.year f.month f.day f.hour f.minute f.second

/-- **convert_hits_offset**: on the output of the `%:z'` format the colon rewritten is the offset's -/
theorem convert_hits_offset (f : Fields) :
    (specLib.strftime CHRONO_LOCAL_FMT f).map convertUtcOffset = some f.pdf := by
  have hq : ∀ x ∈ pad2 f.offM ++ [39], x ≠ OFFSET_FROM := by
    intro x hx
    simp only [pad2, List.cons_append, List.nil_append, List.mem_cons, List.not_mem_nil, or_false] at hx
    rcases hx with hx | hx | hx
    · rw [hx]; exact digit_ne _ _ (by decide)
    · rw [hx]; exact digit_ne _ _ (by decide)
    · rw [hx]; decide
  have e : specLib.strftime CHRONO_LOCAL_FMT f =
      some (([68, 58] ++ pad4 f.year ++ pad2 f.month ++ pad2 f.day ++ pad2 f.hour ++ pad2 f.minute ++ pad2 f.second
        ++ signByte f.offNeg :: pad2 f.offH) ++ OFFSET_FROM :: (pad2 f.offM ++ [39])) := by
    show renderToks f (tokStrftime CHRONO_LOCAL_FMT) = _
    rw [tok_chrono_local]
    simp [renderToks, renderTok, OFFSET_FROM]
  rw [e, Option.map_some, convert_last_colon _ _ hq]
  simp [Fields.pdf, pdfDate, pad2_eq, pad4_eq, signByte, OFFSET_TO]

/-- **date_string_shape**: for every in-range field tuple, every offset-carrying backend produces
`D:YYYYMMDDHHmmSS±HH'mm'` — the same string — and the UTC types produce the `Z` form,
given that the library formatters print field-wise zero-padded (`LibFormats`). -/
theorem date_string_shape (lib : DateLib) (hlib : LibFormats lib) (f : Fields) (hf : FieldsOk f) :
    chronoLocalString lib f = some f.pdf ∧ jiffZonedString lib f = some f.pdf ∧ timeOdtString lib f = some f.pdf
    ∧ chronoUtcString lib f = some f.pdfZ ∧ jiffTimestampString lib f = some f.pdfZ := by
  have hj : JIFF_ZONED_FMT = CHRONO_LOCAL_FMT := by decide
  refine ⟨?_, ?_, ?_, ?_, ?_⟩
  · unfold chronoLocalString; rw [(hlib _ f hf).1]; exact convert_hits_offset f
  · unfold jiffZonedString; rw [(hlib _ f hf).1, hj]; exact convert_hits_offset f
  · unfold timeOdtString; rw [(hlib _ f hf).2]
    show renderToks f (tokTimeFd TIME_ODT_FMT none) = _
    rw [tok_time_odt]
    simp [renderToks, renderTok, Fields.pdf, pdfDate, pad2_eq, pad4_eq, signByte]
  · unfold chronoUtcString; rw [(hlib _ f hf).1]
    show renderToks f (tokStrftime CHRONO_UTC_FMT) = _
    rw [tok_chrono_utc]
    simp [renderToks, renderTok, Fields.pdfZ, pdfDateZ, pad2_eq, pad4_eq]
  · unfold jiffTimestampString; rw [(hlib _ f hf).1]
    show renderToks f (tokStrftime JIFF_TS_FMT) = _
    rw [tok_jiff_ts]
    simp [renderToks, renderTok, Fields.pdfZ, pdfDateZ, pad2_eq, pad4_eq]

example : FieldsOk { year := 42, month := 12, day := 31, hour := 23, minute := 59, second := 59, offNeg := true, offH := 0, offM := 30 } := by
  decide
example : chronoLocalString specLib { year := 42, month := 12, day := 31, hour := 23, minute := 59, second := 59, offNeg := true, offH := 0, offM := 30 }
    = some [68, 58, 48, 48, 52, 50, 49, 50, 51, 49, 50, 51, 53, 57, 53, 57, 45, 48, 48, 39, 51, 48, 39] := by decide +kernel

/-! ### stripping and parsing back -/

/-- the date string without `D`, `:` and apostrophes -/
def Fields.stripped (f : Fields) : Bytes :=
  pad4 f.year ++ pad2 f.month ++ pad2 f.day ++ pad2 f.hour ++ pad2 f.minute ++ pad2 f.second
    ++ signByte f.offNeg :: pad2 f.offH ++ pad2 f.offM

theorem digit_contains (d : Nat) : DATE_STRIP.contains (D1 d) = false := by
  have h1 := digit_beq d 68 (by decide)
  have h2 := digit_beq d 58 (by decide)
  have h3 := digit_beq d 39 (by decide)
  rw [digit_eq] at h1 h2 h3
  simp only [DATE_STRIP, List.contains, List.elem, h1, h2, h3]

theorem strip_keep (b : UInt8) (l : Bytes) (h : DATE_STRIP.contains b = false) :
    stripDate (b :: l) = b :: stripDate l := by
  simp only [stripDate, List.filter, h, Bool.not_false]
theorem strip_drop (b : UInt8) (l : Bytes) (h : DATE_STRIP.contains b = true) :
    stripDate (b :: l) = stripDate l := by
  simp only [stripDate, List.filter, h, Bool.not_true]
theorem strip_nil : stripDate [] = [] := rfl
theorem strip_digit (d : Nat) (l : Bytes) : stripDate (D1 d :: l) = D1 d :: stripDate l := strip_keep _ _ (digit_contains d)
theorem strip_D (l : Bytes) : stripDate (68 :: l) = stripDate l := strip_drop _ _ (by decide)
theorem strip_colon (l : Bytes) : stripDate (58 :: l) = stripDate l := strip_drop _ _ (by decide)
theorem strip_apos (l : Bytes) : stripDate (39 :: l) = stripDate l := strip_drop _ _ (by decide)
theorem strip_plus (l : Bytes) : stripDate (43 :: l) = 43 :: stripDate l := strip_keep _ _ (by decide)
theorem strip_minus (l : Bytes) : stripDate (45 :: l) = 45 :: stripDate l := strip_keep _ _ (by decide)

theorem strip_pdf (f : Fields) : stripDate f.pdf = f.stripped := by
  cases hn : f.offNeg <;>
    simp only [Fields.pdf, Fields.stripped, pdfDate, pad2_eq, pad4_eq, D2, D4, signByte, hn, List.cons_append,
      List.nil_append, List.append_assoc, strip_digit, strip_D, strip_colon, strip_apos, strip_plus, strip_minus,
      strip_nil, if_true, if_false, Bool.false_eq_true]

theorem dec8_ascii : ∀ (l : List Nat), (∀ x ∈ l, x < 128) → dec8 l = some l
  | [], _ => dec8_nil
  | x :: xs, h => by
    have hx := h x (by simp)
    rw [dec8_cons, dec8_ascii xs (fun y hy => h y (by simp [hy]))]
    simp [hx]

theorem stripped_ascii (f : Fields) : ∀ x ∈ f.stripped.map UInt8.toNat, x < 128 := by
  intro x hx
  simp only [Fields.stripped, pad4, pad2, signByte, List.cons_append, List.nil_append, List.append_assoc, List.map_cons,
    List.map_nil, List.mem_cons, List.not_mem_nil, or_false, digit_toNat] at hx
  cases hn : f.offNeg <;> simp [hn] at hx <;> omega

/-- `as_datetime` of a well-formed date string is the digit/sign string -/
theorem as_datetime_pdf (f : Fields) (fmt : StrFmt) : asDatetime (.str f.pdf fmt) = some f.stripped := by
  simp only [asDatetime, strip_pdf]
  have : stdFromUtf8 f.stripped = some (f.stripped.map UInt8.toNat) := dec8_ascii _ (stripped_ascii f)
  simp [this]

theorem year_digits (y : Nat) (h : y < 10000) :
    (y / 1000 % 10 * 10 + y / 100 % 10) * 100 + (y / 10 % 10 * 10 + y % 10) = y := by omega
theorem two_digits (n : Nat) (h : n < 100) : n / 10 % 10 * 10 + n % 10 = n := by omega

theorem parse_full (z : Bool) (f : Fields) (hf : FieldsOk f) :
    parseToks z [.year, .month, .day, .hour, .minute, .second, .offPermissive] zeroFields f.stripped = some f := by
  obtain ⟨h1, h2, h3, h4, h5, h6, h7, h8, h9, h10⟩ := hf
  cases f with
  | mk y mo d h mi s neg oh om =>
    simp only at h1 h2 h3 h4 h5 h6 h7 h8 h9 h10
    have h5' : d ≤ 31 := Nat.le_trans h5 (daysInMonth_le _ _)
    cases neg <;>
      simp [Fields.stripped, pad4, pad2, parseToks, parseTok, num2_digits, signByte, zeroFields,
        year_digits y h1, two_digits mo (by omega), two_digits d (by omega), two_digits h (by omega),
        two_digits mi (by omega), two_digits s (by omega), two_digits oh (by omega), two_digits om (by omega)]

theorem parse_full_time (f : Fields) (hf : FieldsOk f) :
    parseToks false [.year, .month, .day, .hour, .minute, .second, .offHourSigned, .offMinute] zeroFields f.stripped = some f := by
  obtain ⟨h1, h2, h3, h4, h5, h6, h7, h8, h9, h10⟩ := hf
  cases f with
  | mk y mo d h mi s neg oh om =>
    simp only at h1 h2 h3 h4 h5 h6 h7 h8 h9 h10
    have h5' : d ≤ 31 := Nat.le_trans h5 (daysInMonth_le _ _)
    cases neg <;>
      simp [Fields.stripped, pad4, pad2, parseToks, parseTok, num2_digits, signByte, zeroFields,
        year_digits y h1, two_digits mo (by omega), two_digits d (by omega), two_digits h (by omega),
        two_digits mi (by omega), two_digits s (by omega), two_digits oh (by omega), two_digits om (by omega)]

theorem fieldsInRange_of_ok (f : Fields) (hf : FieldsOk f) : fieldsInRange f = true ∧ fieldsInRangeWide f = true := by
  obtain ⟨h1, h2, h3, h4, h5, h6, h7, h8, h9, h10⟩ := hf
  have h9' : f.offH < 26 := by omega
  simp [fieldsInRange, fieldsInRangeWide, fieldsInRangeH, *]

theorem chrono_alts : CHRONO_PARSE = CHRONO_PARSE.headD (0, []) :: CHRONO_PARSE.tail ∧ (CHRONO_PARSE.headD (0, [])).1 = 0 ∧
    tokStrftime (CHRONO_PARSE.headD (0, [])).2 = [.year, .month, .day, .hour, .minute, .second, .offPermissive] := by
  refine ⟨by decide +kernel, by decide +kernel, by decide +kernel⟩
theorem jiff_alts : JIFF_PARSE = JIFF_PARSE.headD (0, []) :: JIFF_PARSE.tail ∧ (JIFF_PARSE.headD (0, [])).1 = 0 ∧
    tokStrftime (JIFF_PARSE.headD (0, [])).2 = [.year, .month, .day, .hour, .minute, .second, .offPermissive] := by
  refine ⟨by decide +kernel, by decide +kernel, by decide +kernel⟩

theorem spec_strptime (z : Bool) (fmt s : Bytes) : specLib.strptime z fmt s =
    (parseToks z (tokStrftime fmt) zeroFields s).bind fun f =>
      let f := if f.second = 60 then { f with second := 59 } else f
      if (if z then fieldsInRange f else fieldsInRangeWide f) then some f else none := rfl
theorem spec_timeParse (fmt s : Bytes) : specLib.timeParse fmt s =
    (parseToks false (tokTimeFd fmt none) zeroFields s).bind fun f => if fieldsInRangeWide f then some f else none := rfl

theorem firstAlt_some (lib : DateLib) (z : Bool) (s : Bytes) (k : Nat) (fmt : Bytes) (rest : List (Nat × Bytes)) (f : Fields)
    (h : lib.strptime z fmt s = some f) : firstAlt lib z s ((k, fmt) :: rest) = some (applyKind k f) := by
  simp [firstAlt, h]
theorem firstAlt_none (lib : DateLib) (z : Bool) (s : Bytes) (k : Nat) (fmt : Bytes) (rest : List (Nat × Bytes))
    (h : lib.strptime z fmt s = none) : firstAlt lib z s ((k, fmt) :: rest) = firstAlt lib z s rest := by
  simp [firstAlt, h]
theorem firstAltTime_some (lib : DateLib) (s : Bytes) (k : Nat) (fmt : Bytes) (rest : List (Nat × Bytes)) (f : Fields)
    (h : lib.timeParse fmt s = some f) : firstAltTime lib s ((k, fmt) :: rest) = some (applyKind k f) := by
  simp [firstAltTime, h]
theorem firstAltTime_none (lib : DateLib) (s : Bytes) (k : Nat) (fmt : Bytes) (rest : List (Nat × Bytes))
    (h : lib.timeParse fmt s = none) : firstAltTime lib s ((k, fmt) :: rest) = firstAltTime lib s rest := by
  simp [firstAltTime, h]

theorem time_alts : ∃ t1 rest, TIME_PARSE = (0, t1) :: rest ∧
    tokTimeFd t1 none = [.year, .month, .day, .hour, .minute, .second, .offHourSigned, .offMinute] :=
  ⟨_, _, rfl, by decide +kernel⟩

theorem firstAlt_head (lib : DateLib) (z : Bool) (s : Bytes) (L : List (Nat × Bytes)) (f : Fields)
    (hL : L = L.headD (0, []) :: L.tail) (hk : (L.headD (0, [])).1 = 0)
    (h : lib.strptime z (L.headD (0, [])).2 s = some f) : firstAlt lib z s L = some f := by
  rw [hL]
  cases hh : L.headD (0, []) with
  | mk k fmt =>
    rw [hh] at hk h
    simp only at hk h
    simp [firstAlt, h, applyKind, hk]

/-- **strip_parse_rt**: for every in-range field tuple, stripping the date string and scanning it
with the first alternative of each backend returns exactly the same fields (date, time, offset),
given that the library parsers scan field-wise (`LibParses`). -/
theorem strip_parse_rt (lib : DateLib) (hlib : LibParses lib) (f : Fields) (hf : FieldsOk f) (fmt : StrFmt) :
    (asDatetime (.str f.pdf fmt)).bind (chronoParse lib) = some f ∧
    (asDatetime (.str f.pdf fmt)).bind (jiffParse lib) = some f ∧
    (asDatetime (.str f.pdf fmt)).bind (timeParse lib) = some f := by
  rw [as_datetime_pdf]
  simp only [Option.bind_some]
  have hr := fieldsInRange_of_ok f hf
  have hs60 : ¬ f.second = 60 := by have := hf.2.2.2.2.2.2.2.1; omega
  refine ⟨?_, ?_, ?_⟩
  · apply firstAlt_head lib true _ CHRONO_PARSE f chrono_alts.1 chrono_alts.2.1
    rw [(hlib _ _ _).1]
    show (parseToks true (tokStrftime _) zeroFields f.stripped).bind _ = _
    rw [chrono_alts.2.2, parse_full true f hf]
    simp [hr.1, hr.2, hs60]
  · apply firstAlt_head lib false _ JIFF_PARSE f jiff_alts.1 jiff_alts.2.1
    rw [(hlib _ _ _).1]
    show (parseToks false (tokStrftime _) zeroFields f.stripped).bind _ = _
    rw [jiff_alts.2.2, parse_full false f hf]
    simp [hr.1, hr.2, hs60]
  · obtain ⟨t1, rest, hL, h1⟩ := time_alts
    have e1 : lib.timeParse t1 f.stripped = some f := by
      rw [(hlib true t1 _).2, spec_timeParse, h1, parse_full_time f hf]; simp [hr.1, hr.2, hs60]
    unfold timeParse
    rw [hL, firstAltTime_some _ _ _ _ _ _ e1]
    simp [applyKind]

/-- the full trip on the model: format with any backend, strip, parse with any backend -/
theorem format_strip_parse (lib : DateLib) (hF : LibFormats lib) (hP : LibParses lib) (f : Fields) (hf : FieldsOk f) :
    ∀ s ∈ [chronoLocalString lib f, jiffZonedString lib f, timeOdtString lib f],
      ∃ bs, s = some bs ∧
        (asDatetime (.str bs .lit)).bind (chronoParse lib) = some f ∧
        (asDatetime (.str bs .lit)).bind (jiffParse lib) = some f ∧
        (asDatetime (.str bs .lit)).bind (timeParse lib) = some f := by
  have hs := date_string_shape lib hF f hf
  have hp := strip_parse_rt lib hP f hf .lit
  intro s hs'
  simp only [List.mem_cons, List.not_mem_nil, or_false] at hs'
  rcases hs' with h | h | h
  · exact ⟨f.pdf, by rw [h, hs.1], hp⟩
  · exact ⟨f.pdf, by rw [h, hs.2.1], hp⟩
  · exact ⟨f.pdf, by rw [h, hs.2.2.1], hp⟩

/-! ### the other forms of the specification -/

/-- `D:199812231952-08'00'` (minute precision) and `D:20040229` (date only) parse with all three backends
(F-C18-a repaired: the time backend now has the later alternatives too) -/
theorem spec_forms_parse :
    let minuteForm : Bytes := [68, 58, 49, 57, 57, 56, 49, 50, 50, 51, 49, 57, 53, 50, 45, 48, 56, 39, 48, 48, 39]
    let dateForm : Bytes := [68, 58, 50, 48, 48, 52, 48, 50, 50, 57]
    let m : Fields := { year := 1998, month := 12, day := 23, hour := 19, minute := 52, second := 0, offNeg := true, offH := 8, offM := 0 }
    let d : Fields := { year := 2004, month := 2, day := 29, hour := 0, minute := 0, second := 0, offNeg := false, offH := 0, offM := 0 }
    (asDatetime (.str minuteForm .lit)).bind (chronoParse specLib) = some m ∧
    (asDatetime (.str minuteForm .lit)).bind (jiffParse specLib) = some m ∧
    (asDatetime (.str dateForm .lit)).bind (chronoParse specLib) = some d ∧
    (asDatetime (.str dateForm .lit)).bind (jiffParse specLib) = some d ∧
    (asDatetime (.str minuteForm .lit)).bind (timeParse specLib) = some m ∧
    (asDatetime (.str dateForm .lit)).bind (timeParse specLib) = some d := by
  decide +kernel

/-- the `Z` form parses with chrono (permissive `%#z`), jiff and time (second alternative each) -/
theorem z_form_parses :
    let z : Bytes := [68, 58, 50, 48, 50, 52, 48, 50, 50, 57, 49, 50, 51, 52, 53, 54, 90]      -- D:20240229123456Z
    let v : Fields := { year := 2024, month := 2, day := 29, hour := 12, minute := 34, second := 56, offNeg := false, offH := 0, offM := 0 }
    (asDatetime (.str z .lit)).bind (chronoParse specLib) = some v ∧
    (asDatetime (.str z .lit)).bind (jiffParse specLib) = some v ∧
    (asDatetime (.str z .lit)).bind (timeParse specLib) = some v := by
  decide +kernel

/-! ### the `Z` form, generically: UTC producers into every backend -/

def Fields.utc (f : Fields) : Fields := { f with offNeg := false, offH := 0, offM := 0 }

/-- the `Z` date string without `D` and `:` -/
def Fields.strippedZ (f : Fields) : Bytes :=
  pad4 f.year ++ pad2 f.month ++ pad2 f.day ++ pad2 f.hour ++ pad2 f.minute ++ pad2 f.second ++ [90]

theorem strip_Z (l : Bytes) : stripDate (90 :: l) = 90 :: stripDate l := strip_keep _ _ (by decide)

theorem strip_pdfZ (f : Fields) : stripDate f.pdfZ = f.strippedZ := by
  simp only [Fields.pdfZ, Fields.strippedZ, pdfDateZ, pad2_eq, pad4_eq, D2, D4, List.cons_append,
    List.nil_append, List.append_assoc, strip_digit, strip_D, strip_colon, strip_Z, strip_nil]

theorem strippedZ_ascii (f : Fields) : ∀ x ∈ f.strippedZ.map UInt8.toNat, x < 128 := by
  intro x hx
  simp only [Fields.strippedZ, pad4, pad2, List.cons_append, List.nil_append, List.append_assoc, List.map_cons,
    List.map_nil, List.mem_cons, List.not_mem_nil, or_false, digit_toNat] at hx
  have : (90 : UInt8).toNat = 90 := by decide
  simp only [this] at hx
  omega

theorem as_datetime_pdfZ (f : Fields) (fmt : StrFmt) : asDatetime (.str f.pdfZ fmt) = some f.strippedZ := by
  simp only [asDatetime, strip_pdfZ]
  have : stdFromUtf8 f.strippedZ = some (f.strippedZ.map UInt8.toNat) := dec8_ascii _ (strippedZ_ascii f)
  simp [this]

/-- chrono's first alternative: the permissive `%#z` reads `Z` as offset zero -/
theorem parse_z_permissive (f : Fields) (hf : FieldsOk f) :
    parseToks true [.year, .month, .day, .hour, .minute, .second, .offPermissive] zeroFields f.strippedZ = some f.utc := by
  obtain ⟨h1, h2, h3, h4, h5, h6, h7, h8, h9, h10⟩ := hf
  cases f with
  | mk y mo d h mi s neg oh om =>
    simp only at h1 h2 h3 h4 h5 h6 h7 h8 h9 h10
    have h5' : d ≤ 31 := Nat.le_trans h5 (daysInMonth_le _ _)
    simp [Fields.strippedZ, Fields.utc, pad4, pad2, parseToks, parseTok, num2_digits, zeroFields,
      year_digits y h1, two_digits mo (by omega), two_digits d (by omega), two_digits h (by omega),
      two_digits mi (by omega), two_digits s (by omega)]

/-- without the permissive reading (jiff) and for time's numeric offset the first alternative rejects `Z` … -/
theorem parse_z_first_fails (f : Fields) :
    parseToks false [.year, .month, .day, .hour, .minute, .second, .offPermissive] zeroFields f.strippedZ = none ∧
    parseToks false [.year, .month, .day, .hour, .minute, .second, .offHourSigned, .offMinute] zeroFields f.strippedZ = none := by
  constructor <;>
    simp [Fields.strippedZ, pad4, pad2, parseToks, parseTok, num2_digits, zeroFields]

/-- … and the second alternative (literal `Z`) accepts it -/
theorem parse_z_literal (z : Bool) (f : Fields) (hf : FieldsOk f) :
    parseToks z [.year, .month, .day, .hour, .minute, .second, .lit 90] zeroFields f.strippedZ = some f.utc := by
  obtain ⟨h1, h2, h3, h4, h5, h6, h7, h8, h9, h10⟩ := hf
  cases f with
  | mk y mo d h mi s neg oh om =>
    simp only at h1 h2 h3 h4 h5 h6 h7 h8 h9 h10
    have h5' : d ≤ 31 := Nat.le_trans h5 (daysInMonth_le _ _)
    simp [Fields.strippedZ, Fields.utc, pad4, pad2, parseToks, parseTok, num2_digits, zeroFields,
      year_digits y h1, two_digits mo (by omega), two_digits d (by omega), two_digits h (by omega),
      two_digits mi (by omega), two_digits s (by omega)]

theorem jiff_alts2 : ∃ j1 j2 rest, JIFF_PARSE = (0, j1) :: (1, j2) :: rest ∧
    tokStrftime j1 = [.year, .month, .day, .hour, .minute, .second, .offPermissive] ∧
    tokStrftime j2 = [.year, .month, .day, .hour, .minute, .second, .lit 90] :=
  ⟨_, _, _, rfl, by decide +kernel, by decide +kernel⟩

theorem time_alts2 : ∃ t1 t2 rest, TIME_PARSE = (0, t1) :: (1, t2) :: rest ∧
    tokTimeFd t1 none = [.year, .month, .day, .hour, .minute, .second, .offHourSigned, .offMinute] ∧
    tokTimeFd t2 none = [.year, .month, .day, .hour, .minute, .second, .lit 90] :=
  ⟨_, _, _, rfl, by decide +kernel, by decide +kernel⟩

theorem utc_in_range (f : Fields) (hf : FieldsOk f) : fieldsInRange f.utc = true ∧ fieldsInRangeWide f.utc = true := by
  obtain ⟨h1, h2, h3, h4, h5, h6, h7, h8, h9, h10⟩ := hf
  simp [fieldsInRange, fieldsInRangeWide, fieldsInRangeH, Fields.utc, *]

theorem applyKind_utc (k : Nat) (f : Fields) : applyKind k f.utc = f.utc := by
  unfold applyKind; split <;> rfl

/-- **Z-form round trip**: for every in-range field tuple the `Z` date string (what `DateTime<Utc>`,
`Timestamp` and `time::Time` produce), stripped and parsed with chrono, jiff or time, returns the same
civil fields at offset zero (`LibParses`). Before the repair of F-C18-a the time conjunct was false. -/
theorem z_strip_parse_rt (lib : DateLib) (hlib : LibParses lib) (f : Fields) (hf : FieldsOk f) (fmt : StrFmt) :
    (asDatetime (.str f.pdfZ fmt)).bind (chronoParse lib) = some f.utc ∧
    (asDatetime (.str f.pdfZ fmt)).bind (jiffParse lib) = some f.utc ∧
    (asDatetime (.str f.pdfZ fmt)).bind (timeParse lib) = some f.utc := by
  rw [as_datetime_pdfZ]
  simp only [Option.bind_some]
  have hr := utc_in_range f hf
  have hs60 : ¬ f.utc.second = 60 := by have := hf.2.2.2.2.2.2.2.1; simp only [Fields.utc]; omega
  refine ⟨?_, ?_, ?_⟩
  · have := firstAlt_head lib true f.strippedZ CHRONO_PARSE f.utc chrono_alts.1 chrono_alts.2.1 (by
      rw [(hlib _ _ _).1]
      show (parseToks true (tokStrftime _) zeroFields f.strippedZ).bind _ = _
      rw [chrono_alts.2.2, parse_z_permissive f hf]
      simp [hr.1, hr.2, hs60])
    exact this
  · obtain ⟨j1, j2, rest, hL, h1, h2⟩ := jiff_alts2
    have e1 : lib.strptime false j1 f.strippedZ = none := by
      rw [(hlib false j1 _).1, spec_strptime, h1, (parse_z_first_fails f).1]; rfl
    have e2 : lib.strptime false j2 f.strippedZ = some f.utc := by
      rw [(hlib false j2 _).1, spec_strptime, h2, parse_z_literal false f hf]; simp [hr.1, hr.2, hs60]
    unfold jiffParse
    rw [hL, firstAlt_none _ _ _ _ _ _ e1, firstAlt_some _ _ _ _ _ _ _ e2, applyKind_utc]
  · obtain ⟨t1, t2, rest, hL, h1, h2⟩ := time_alts2
    have e1 : lib.timeParse t1 f.strippedZ = none := by
      rw [(hlib false t1 _).2, spec_timeParse, h1, (parse_z_first_fails f).2]; rfl
    have e2 : lib.timeParse t2 f.strippedZ = some f.utc := by
      rw [(hlib false t2 _).2, spec_timeParse, h2, parse_z_literal false f hf]; simp [hr.1, hr.2, hs60]
    unfold timeParse
    rw [hL, firstAltTime_none _ _ _ _ _ e1, firstAltTime_some _ _ _ _ _ _ e2, applyKind_utc]

/-- F-C18-b repaired: `From<time::Time>` yields the `Z` date form of `today`'s date (what
`OffsetDateTime::now_utc()` returned — assumed only to be a valid UTC date in years 0000–9999, see
`timeTimeString`) at the given time of day -/
theorem time_time_shape (lib : DateLib) (hlib : LibFormats lib) (today : Fields) (ht : FieldsOk today)
    (h mi s : Nat) (hh : h < 24) (hmi : mi < 60) (hs : s < 60) :
    timeTimeString lib today h mi s = some (pdfDateZ today.year today.month today.day h mi s) := by
  have hok : FieldsOk { today with hour := h, minute := mi, second := s, offNeg := false, offH := 0, offM := 0 } := by
    obtain ⟨h1, h2, h3, h4, h5, _, _, _, _, _⟩ := ht
    exact ⟨h1, h2, h3, h4, h5, hh, hmi, hs, by show 0 < 24; omega, by show 0 < 60; omega⟩
  unfold timeTimeString; rw [(hlib _ _ hok).2]
  show renderToks _ (tokTimeFd TIME_TIME_FMT none) = _
  rw [tok_time_time]
  simp [renderToks, renderTok, pdfDateZ, pad2_eq, pad4_eq]

/-- the UTC producers (chrono `DateTime<Utc>`, jiff `Timestamp`, `time::Time`) into every backend -/
theorem z_format_strip_parse (lib : DateLib) (hF : LibFormats lib) (hP : LibParses lib) (f : Fields) (hf : FieldsOk f) :
    ∀ s ∈ [chronoUtcString lib f, jiffTimestampString lib f, timeTimeString lib f f.hour f.minute f.second],
      ∃ bs, s = some bs ∧
        (asDatetime (.str bs .lit)).bind (chronoParse lib) = some f.utc ∧
        (asDatetime (.str bs .lit)).bind (jiffParse lib) = some f.utc ∧
        (asDatetime (.str bs .lit)).bind (timeParse lib) = some f.utc := by
  have hs := date_string_shape lib hF f hf
  have ht : timeTimeString lib f f.hour f.minute f.second = some f.pdfZ :=
    time_time_shape lib hF f hf f.hour f.minute f.second hf.2.2.2.2.2.1 hf.2.2.2.2.2.2.1 hf.2.2.2.2.2.2.2.1
  have hp := z_strip_parse_rt lib hP f hf .lit
  intro s hs'
  simp only [List.mem_cons, List.not_mem_nil, or_false] at hs'
  rcases hs' with h | h | h
  · exact ⟨f.pdfZ, by rw [h, hs.2.2.2.1], hp⟩
  · exact ⟨f.pdfZ, by rw [h, hs.2.2.2.2], hp⟩
  · exact ⟨f.pdfZ, by rw [h, ht], hp⟩

/-! ### calendar validity of what the parsers return -/

/-- a date that exists (proleptic Gregorian) and a time of day in range -/
def CalendarValid (f : Fields) : Prop :=
  1 ≤ f.month ∧ f.month ≤ 12 ∧ 1 ≤ f.day ∧ f.day ≤ daysInMonth f.year f.month ∧ f.hour < 24 ∧ f.minute < 60 ∧ f.second < 60

theorem calendarValid_of_inRange (m : Nat) (f : Fields) (h : fieldsInRangeH m f = true) : CalendarValid f := by
  simp only [fieldsInRangeH, Bool.and_eq_true, decide_eq_true_eq] at h
  obtain ⟨⟨⟨⟨⟨⟨⟨⟨h1, h2⟩, h3⟩, h4⟩, h5⟩, h6⟩, h7⟩, _⟩, _⟩ := h
  exact ⟨h1, h2, h3, h4, h5, h6, h7⟩

theorem calendarValid_applyKind (k : Nat) (f : Fields) (h : CalendarValid f) : CalendarValid (applyKind k f) := by
  unfold applyKind; split <;> exact h

theorem firstAlt_valid (lib : DateLib) (hlib : LibParses lib) (z : Bool) (s : Bytes) :
    ∀ (L : List (Nat × Bytes)) (f : Fields), firstAlt lib z s L = some f → CalendarValid f
  | [], f, h => by simp [firstAlt] at h
  | (k, fmt) :: rest, f, h => by
    simp only [firstAlt] at h
    cases hp : lib.strptime z fmt s with
    | none => rw [hp] at h; exact firstAlt_valid lib hlib z s rest f h
    | some g =>
      rw [hp] at h
      simp only [Option.some.injEq] at h
      subst h
      rw [(hlib z fmt s).1, spec_strptime] at hp
      cases hq : parseToks z (tokStrftime fmt) zeroFields s with
      | none => simp [hq] at hp
      | some g' =>
        simp only [hq, Option.bind_some] at hp
        generalize hg2 : (if g'.second = 60 then { g' with second := 59 } else g') = g2 at hp
        by_cases hr : (if z = true then fieldsInRange g2 else fieldsInRangeWide g2) = true
        · simp only [hr, if_true, Option.some.injEq] at hp; subst hp
          refine calendarValid_applyKind k _ ?_
          cases z
          · exact calendarValid_of_inRange 26 _ (by simpa [fieldsInRangeWide] using hr)
          · exact calendarValid_of_inRange 24 _ (by simpa [fieldsInRange] using hr)
        · simp [hr] at hp

theorem firstAltTime_valid (lib : DateLib) (hlib : LibParses lib) (s : Bytes) :
    ∀ (L : List (Nat × Bytes)) (f : Fields), firstAltTime lib s L = some f → CalendarValid f
  | [], f, h => by simp [firstAltTime] at h
  | (k, fmt) :: rest, f, h => by
    simp only [firstAltTime] at h
    cases hp : lib.timeParse fmt s with
    | none => rw [hp] at h; exact firstAltTime_valid lib hlib s rest f h
    | some g =>
      rw [hp] at h
      simp only [Option.some.injEq] at h
      subst h
      rw [(hlib true fmt s).2, spec_timeParse] at hp
      cases hq : parseToks false (tokTimeFd fmt none) zeroFields s with
      | none => simp [hq] at hp
      | some g' =>
        simp only [hq, Option.bind_some] at hp
        by_cases hr : fieldsInRangeWide g' = true
        · simp only [hr, if_true, Option.some.injEq] at hp; subst hp
          exact calendarValid_applyKind k _ (calendarValid_of_inRange 26 _ hr)
        · simp [hr] at hp

/-- **Only dates that exist come back**: whatever string is given, a backend that accepts it returns a
calendar-valid date and an in-range time of day (`LibParses`: the libraries check the scanned fields as
`fieldsInRange` does — day against the length of that month in that year). -/
theorem parsed_dates_valid (lib : DateLib) (hlib : LibParses lib) (s : Bytes) (f : Fields) :
    (chronoParse lib s = some f ∨ jiffParse lib s = some f ∨ timeParse lib s = some f) → CalendarValid f := by
  rintro (h | h | h)
  · exact firstAlt_valid lib hlib true s _ f h
  · exact firstAlt_valid lib hlib false s _ f h
  · exact firstAltTime_valid lib hlib s _ f h

/-- 30 February, 31 April, 29 February 1900 / 2023 are rejected by every backend in every form;
29 February 2000 / 2024 are accepted -/
theorem invalid_days_rejected :
    let bad : List Bytes := [
      [68, 58, 50, 48, 50, 51, 48, 50, 51, 48, 49, 50, 48, 48, 48, 48, 43, 48, 48, 39, 48, 48, 39],   -- D:20230230120000+00'00'
      [68, 58, 50, 48, 50, 51, 48, 52, 51, 49, 49, 50, 48, 48, 48, 48, 90],                            -- D:20230431120000Z
      [68, 58, 49, 57, 48, 48, 48, 50, 50, 57],                                                        -- D:19000229
      [68, 58, 50, 48, 50, 51, 48, 50, 50, 57],                                                        -- D:20230229
      [68, 58, 50, 48, 50, 52, 49, 51, 48, 49],                                                        -- D:20241301
      [68, 58, 50, 48, 50, 52, 48, 49, 48, 48]]                                                        -- D:20240100
    let good : List Bytes := [[68, 58, 50, 48, 48, 48, 48, 50, 50, 57], [68, 58, 50, 48, 50, 52, 48, 50, 50, 57]]
    (∀ b ∈ bad, (asDatetime (.str b .lit)).bind (chronoParse specLib) = none ∧
                (asDatetime (.str b .lit)).bind (jiffParse specLib) = none ∧
                (asDatetime (.str b .lit)).bind (timeParse specLib) = none) ∧
    (∀ g ∈ good, ((asDatetime (.str g .lit)).bind (chronoParse specLib)).isSome ∧
                 ((asDatetime (.str g .lit)).bind (jiffParse specLib)).isSome ∧
                 ((asDatetime (.str g .lit)).bind (timeParse specLib)).isSome) := by
  decide +kernel

/-! ### chrono: `DateTime<FixedOffset>` → `DateTime<Local>` -/

/-- what is assumed of `DateTime::with_timezone`: the instant is kept, the offset becomes the zone's -/
def ToOffsetKeepsInstant (lib : DateLib) : Prop :=
  ∀ (o : Int) (f : Fields), epochOf (lib.toOffset o f) = epochOf f ∧ offsetSeconds (lib.toOffset o f) = o

/-- **What `TryFrom<DateTime> for DateTime<Local>` returns**: the parsed date-time re-expressed in the
local zone — the INSTANT of the parsed string, and the local zone's offset (the offset written in the
string is not kept). This is what the check compares for chrono: `timestamp()`, and, with `TZ` set, the
offset and the civil fields of the value. -/
theorem chrono_local_conversion (lib : DateLib) (hto : ToOffsetKeepsInstant lib) (localOff : Int) (s : Bytes) (g : Fields)
    (h : chronoTryFrom lib localOff s = some g) :
    ∃ f, chronoParse lib s = some f ∧ epochOf g = epochOf f ∧ offsetSeconds g = localOff := by
  unfold chronoTryFrom at h
  cases hp : chronoParse lib s with
  | none => simp [hp] at h
  | some f =>
    simp only [hp, Option.map_some, Option.some.injEq] at h
    subst h
    exact ⟨f, rfl, (hto localOff f).1, (hto localOff f).2⟩

/-- round trip through the local zone: for every valid field tuple, any producer's string parsed by
chrono under any local offset denotes the same instant -/
theorem chrono_local_rt (lib : DateLib) (hP : LibParses lib) (hto : ToOffsetKeepsInstant lib) (localOff : Int)
    (f : Fields) (hf : FieldsOk f) (fmt : StrFmt) :
    ∃ g, (asDatetime (.str f.pdf fmt)).bind (chronoTryFrom lib localOff) = some g ∧
      epochOf g = epochOf f ∧ offsetSeconds g = localOff := by
  have h := (strip_parse_rt lib hP f hf fmt).1
  cases ha : asDatetime (.str f.pdf fmt) with
  | none => simp [ha] at h
  | some s =>
    simp only [ha, Option.bind_some] at h ⊢
    exact ⟨lib.toOffset localOff f, by simp [chronoTryFrom, h], (hto localOff f).1, (hto localOff f).2⟩

end Lopdf
