import LopdfModel.Thm.C02FileObjStm
/-
  C02 — whole files of the table style (one revision) whose bindings are defined in the general
  sense of `BindingDefined`: ordinary objects, and streams with an INDIRECT `Length` resolved
  through the same cross-reference table.
-/
namespace Lopdf.Grammar
open Lopdf Gen

/-- **Whole files (table style, one revision), general bindings** — `loadDoc_complete` with
`BindingDefined` instead of `DefinesAt`: a stream may carry its `Length` as a reference to an
integer object of the same file (then the loaded dictionary has the resolved number as a direct
`Length`, as `Reader::read` stores it). -/
theorem loadDoc_complete_table {d : Nat} {es : List (Bytes × Obj)} {ebs : Bytes} (ver e0 body : Bytes)
    (secs : List TSub) (xb sp0 sp sp1 e1 s1 ds s2 e2 post : Bytes) (size : Int) (val : Nat → Nat × Obj) (cont : Nat → List (Nat × Obj))
    (hv : ∀ b ∈ ver, b < 128 ∧ notEol b = true) (he0 : IsEol e0)
    (hx : DerivesXrefTable secs xb) (hsp0 : DerivesSpace sp0) (hsp : DerivesSpace sp)
    (hes : DerivesEntries d es ebs) (hd : 1 + d ≤ MAX_NESTING) (hsp1 : DerivesSpace sp1)
    (hsize : (setEntries [] es).get SIZE = some (.int size)) (hprev : (setEntries [] es).get PREV = none)
    (henc : (setEntries [] es).get ENCRYPT = none)
    (he1 : IsEol e1) (hs1 : AllSp s1) (hds : DerivesNat (PDF_KW ++ (ver ++ (e0 ++ body))).length ds)
    (hs2 : AllSp s2) (he2 : IsEol e2) (hpost : IsFileEnd post)
    (hshort : (STARTXREF ++ (e1 ++ (s1 ++ (ds ++ (s2 ++ e2))))).length ≤ 25)
    (hmax : (tableOf secs).maxId + 1 < 4294967296)
    (file : Bytes)
    (hfile : file = (PDF_KW ++ (ver ++ (e0 ++ body))) ++ (xb ++ (TRAILER_KW ++ (sp0 ++
      ((60 :: 60 :: sp ++ ebs ++ [62, 62]) ++ (sp1 ++ (STARTXREF ++ (e1 ++ (s1 ++ (ds ++ (s2 ++ (e2 ++
        (EOF_MARK ++ post)))))))))))))
    (hdef : ∀ k e, (tableOf secs).get k = some e → BindingDefined file (tableOf secs) val cont k e)
    (hcont : ∀ k, (∀ off g, (tableOf secs).get k ≠ some (.normal off g)) → cont k = [])
    (hlisted : ∀ k, ∀ p ∈ cont k, ∃ i, (tableOf secs).get p.1 = some (.compressed k i)) :
    ∃ L, loadDoc file = .ok L ∧ L.version = ver ∧ L.trailer = setEntries [] es ∧
      L.xrefStart = (PDF_KW ++ (ver ++ (e0 ++ body))).length ∧ L.maxId = (tableOf secs).maxId ∧
      ∀ id : ObjId, L.objects.get id = definedObject (tableOf secs) val cont id := by
  -- the startxref section
  have hlen : (PDF_KW ++ (ver ++ (e0 ++ body))).length ≤ I64MAX := by
    -- the offset text has at most 15 digits (the section is at most 25 bytes), so its value fits i64
    obtain ⟨_, hdig, hval⟩ := derivesNat_facts hds
    have hl : ds.length ≤ 15 := by
      have h1 : 1 ≤ e1.length := by cases he1 <;> simp
      have h2 : 1 ≤ e2.length := by cases he2 <;> simp
      simp only [List.length_append, STARTXREF, List.length_cons, List.length_nil] at hshort
      omega
    have hb := digitsVal_lt_pow ds hdig
    rw [hval] at hb
    have : 10 ^ ds.length ≤ 10 ^ 15 := Nat.pow_le_pow_right (by decide) hl
    simp only [I64MAX]; omega
  have hlong : 25 < ((PDF_KW ++ (ver ++ (e0 ++ body))) ++ (xb ++ (TRAILER_KW ++ (sp0 ++
      ((60 :: 60 :: sp ++ ebs ++ [62, 62]) ++ sp1)))) ++ (STARTXREF ++ (e1 ++ (s1 ++ (ds ++ (s2 ++ e2)))))).length := by
    have h1 : 1 ≤ e1.length := by cases he1 <;> simp
    simp only [List.length_append, PDF_KW, TRAILER_KW, STARTXREF, List.length_cons, List.length_nil]
    omega
  have hfile2 : file = ((PDF_KW ++ (ver ++ (e0 ++ body))) ++ (xb ++ (TRAILER_KW ++ (sp0 ++
      ((60 :: 60 :: sp ++ ebs ++ [62, 62]) ++ sp1))))) ++ (STARTXREF ++ (e1 ++ (s1 ++ (ds ++ (s2 ++ (e2 ++
        (EOF_MARK ++ post))))))) := by rw [hfile]; simp
  have g2 : getXrefStart file = some (PDF_KW ++ (ver ++ (e0 ++ body))).length := by
    rw [hfile2]
    exact getXrefStart_complete _ _ e1 s1 ds s2 e2 post he1 hs1 hds hlen hs2 he2 hpost hshort hlong
  -- header
  have hfile3 : file = PDF_KW ++ (ver ++ (e0 ++ (body ++ (xb ++ (TRAILER_KW ++ (sp0 ++
      ((60 :: 60 :: sp ++ ebs ++ [62, 62]) ++ (sp1 ++ (STARTXREF ++ (e1 ++ (s1 ++ (ds ++ (s2 ++ (e2 ++
        (EOF_MARK ++ post))))))))))))))) := by rw [hfile]; simp
  have g0 : findFrom PDF_KW (file.length + 1) file 0 = some 0 := by
    rw [hfile3]; exact findFrom_prefix PDF_KW _ (by decide)
  have g1 : pHeader file = some ver := by rw [hfile3]; exact header_complete ver e0 _ hv he0
  -- cross-reference section and trailer
  have g3 : xrefAndTrailer (file.drop (PDF_KW ++ (ver ++ (e0 ++ body))).length) =
      .ok (tableOf secs, (size % (U32 : Int)).toNat, setEntries [] es) := by
    rw [hfile, List.drop_left]
    exact xrefAndTrailer_complete secs xb sp0 sp sp1 _ size hx hsp0 hsp hes hd hsp1
      (by intro b r e; injection e with e _; subst e; decide) hsize
  have g2' : (PDF_KW ++ (ver ++ (e0 ++ body))).length ≤ file.length := by
    rw [hfile]; simp only [List.length_append]; omega
  exact loadDoc_of_defined_objstm file ver _ _ _ _ val cont g0 g1 g2 g2' g3 hprev henc hmax
    (fun k e hke => entryOk_of_binding file _ _ val cont k e (hdef k e hke)) hcont hlisted

end Lopdf.Grammar
