import LopdfModel.Lemmas.StrictBasic
/-
  C03 — **`strict_ok` for table saves**: the independent strict structural reader
  (`Spec/Strict.lean`) accepts every file `save` writes with a classic cross-reference table and
  recovers exactly the saved objects, the version and the trailer.
-/
namespace Lopdf.Strict
open Lopdf Gen Lopdf.FileRT Lopdf.ObjRt

/-! ### table entries -/

theorem tableEntry_line (e : Option (Nat × Nat)) (rest : Bytes) (h : EntryOk e) :
    tableEntry (xrefEntryLine e ++ rest) = some (entryParsed e, rest) := by
  have key : ∀ (off g : Nat) (k : UInt8), off < 4294967296 → g < 65536 → (k = 110 ∨ k = 102) →
      tableEntry (padZero 10 (natDigits off) ++ (32 :: (padZero 5 (natDigits g) ++ (32 :: k :: 32 :: 10 :: rest))))
        = some ((off, g, k == 110), rest) := by
    intro off g k ho hg hk
    have l10 : (padZero 10 (natDigits off)).length = 10 :=
      padZero_length 10 _ (natDigits_length_le 10 off (by omega) (by omega))
    have l5 : (padZero 5 (natDigits g)).length = 5 :=
      padZero_length 5 _ (natDigits_length_le 5 g (by omega) (by omega))
    have d10 : (padZero 10 (natDigits off)).all isDig = true := by
      rw [List.all_eq_true]; intro b hb; exact padZero_digits 10 off b hb
    have d5 : (padZero 5 (natDigits g)).all isDig = true := by
      rw [List.all_eq_true]; intro b hb; exact padZero_digits 5 g b hb
    have v10 : digitsVal (padZero 10 (natDigits off)) = off := by
      simp [padZero, digitsVal_zeros, digitsVal_natDigits]
    have v5 : digitsVal (padZero 5 (natDigits g)) = g := by
      simp [padZero, digitsVal_zeros, digitsVal_natDigits]
    unfold tableEntry
    simp only [List.take_left' l10, List.drop_left' l10, List.take_left' l5, List.drop_left' l5, l10, l5, d10, d5,
      v10, v5]
    rcases hk with rfl | rfl <;> simp
  cases e with
  | none =>
    have := key 0 65535 102 (by omega) (by omega) (Or.inr rfl)
    simpa [xrefEntryLine, entryParsed] using this
  | some p =>
    obtain ⟨off, g⟩ := p
    obtain ⟨h1, h2⟩ := h
    have := key off g 110 h1 h2 (Or.inl rfl)
    simpa [xrefEntryLine, entryParsed] using this

/-- the in-use assignments as strict entries -/
def inUse : List (Nat × Option (Nat × Nat)) → List Entry
  | [] => []
  | (k, some (off, g)) :: rest => (k, off, g) :: inUse rest
  | (_, none) :: rest => inUse rest

theorem inUse_append (a b : List (Nat × Option (Nat × Nat))) : inUse (a ++ b) = inUse a ++ inUse b := by
  induction a with
  | nil => rfl
  | cons p rest ih =>
    obtain ⟨k, e⟩ := p
    cases e with
    | none => simp [inUse, ih]
    | some v => obtain ⟨off, g⟩ := v; simp [inUse, ih]

theorem hasNum_append (acc : List Entry) (e : Entry) (k : Nat) :
    hasNum (acc ++ [e]) k = (hasNum acc k || e.1 == k) := by
  simp [hasNum]

/-- one subsection; `Ltail` = the assignments still to come -/
theorem tableEntries_lines : ∀ (es : List (Option (Nat × Nat))) (s : Nat) (rest : Bytes) (acc : List Entry)
    (Ltail : List (Nat × Option (Nat × Nat))),
    (∀ e ∈ es, EntryOk e) →
    ((assignsFrom s es ++ Ltail).map (·.1)).Nodup →
    (∀ k ∈ (assignsFrom s es ++ Ltail).map (·.1), hasNum acc k = false) →
    tableEntries es.length s ((es.map xrefEntryLine).flatten ++ rest) acc
        = .ok (acc ++ inUse (assignsFrom s es), rest) ∧
      ∀ k ∈ Ltail.map (·.1), hasNum (acc ++ inUse (assignsFrom s es)) k = false := by
  intro es
  induction es with
  | nil =>
    intro s rest acc Ltail _ _ hk
    simp only [List.length_nil, tableEntries, List.map_nil, List.flatten_nil, List.nil_append, assignsFrom, inUse,
      List.append_nil, true_and]
    simpa [assignsFrom] using hk
  | cons e es ih =>
    intro s rest acc Ltail hok hnd hk
    have hks : hasNum acc s = false := hk s (by simp [assignsFrom])
    simp only [assignsFrom, List.cons_append, List.map_cons, List.nodup_cons] at hnd
    have hk' : ∀ k ∈ (assignsFrom (s + 1) es ++ Ltail).map (·.1), hasNum acc k = false :=
      fun k hkm => hk k (by simp only [assignsFrom, List.cons_append, List.map_cons, List.mem_cons]; exact Or.inr hkm)
    simp only [List.length_cons, List.map_cons, List.flatten_cons, List.append_assoc, tableEntries]
    rw [tableEntry_line e _ (hok e (by simp))]
    cases e with
    | none =>
      simp only [entryParsed, Bool.false_eq_true, if_false]
      obtain ⟨i1, i2⟩ := ih (s + 1) rest acc Ltail (fun e' h' => hok e' (by simp [h'])) hnd.2 hk'
      rw [i1]
      exact ⟨by simp [assignsFrom, inUse], by simpa [assignsFrom, inUse] using i2⟩
    | some p =>
      obtain ⟨off, g⟩ := p
      obtain ⟨_, hg⟩ := hok (some (off, g)) (by simp)
      have hg' : ¬ g > 65535 := by omega
      simp only [entryParsed, if_true, hg', if_false, hks, Bool.false_eq_true]
      have hk'' : ∀ k ∈ (assignsFrom (s + 1) es ++ Ltail).map (·.1), hasNum (acc ++ [(s, off, g)]) k = false := by
        intro k hkm
        rw [hasNum_append, hk' k hkm]
        have : s ≠ k := by intro e; subst e; exact hnd.1 hkm
        simp [this]
      obtain ⟨i1, i2⟩ := ih (s + 1) rest (acc ++ [(s, off, g)]) Ltail (fun e' h' => hok e' (by simp [h'])) hnd.2 hk''
      rw [i1]
      exact ⟨by simp [assignsFrom, inUse], by simpa [assignsFrom, inUse] using i2⟩

theorem number_natDigits (n : Nat) (c : UInt8) (rest : Bytes) (hn : n < 10000000000000000000)
    (hc : isDigit c = false) : number (natDigits n ++ c :: rest) = some (n, c :: rest) := by
  have hlen : (natDigits n).length ≤ 19 := natDigits_length_le 19 n (by omega) (by omega)
  have hsp : spanDigits (natDigits n ++ c :: rest) = (natDigits n, c :: rest) :=
    spanDigits_append _ _ (natDigits_all_digit n) (by intro b r h; injection h with h1 _; subst h1; exact hc)
  have hne : (natDigits n).isEmpty = false := by
    cases h : natDigits n with
    | nil => exact absurd h (natDigits_ne_nil n)
    | cons a as => rfl
  unfold number
  simp only [hsp, hne, Bool.false_or, decide_eq_true_eq]
  have : ¬ (natDigits n).length > 19 := by omega
  simp [this, digitsVal_natDigits]

/-- all subsections of a written table -/
theorem subsections_secs : ∀ (secs : List (Nat × List (Option (Nat × Nat)))) (fuel : Nat) (rest : Bytes)
    (acc : List Entry) (count : Nat),
    (∀ sec ∈ secs, SecOk sec) → NoDigitAhead rest → secs.length + 1 ≤ fuel →
    ((assigns secs).map (·.1)).Nodup → (∀ k ∈ (assigns secs).map (·.1), hasNum acc k = false) →
    subsections fuel (secsBytes secs ++ rest) acc count
      = .ok (acc ++ inUse (assigns secs), rest, count + secs.length) := by
  intro secs
  induction secs with
  | nil =>
    intro fuel rest acc count _ hr hf _ _
    cases fuel with
    | zero => simp at hf
    | succ f =>
      simp only [secsBytes, List.map_nil, List.flatten_nil, List.nil_append, assigns, inUse, List.append_nil,
        List.length_nil, Nat.add_zero]
      cases rest with
      | nil => rfl
      | cons b r =>
        have : isDig b = false := hr b r rfl
        simp [subsections, this]
  | cons sec more ih =>
    intro fuel rest acc count hok hr hf hnd hk
    obtain ⟨s, es⟩ := sec
    obtain ⟨hb, he⟩ := hok (s, es) (by simp)
    simp only at hb he
    cases fuel with
    | zero => simp at hf
    | succ f =>
      have e0 : secsBytes ((s, es) :: more) ++ rest
          = natDigits s ++ 32 :: (natDigits es.length ++ 10 :: ((es.map xrefEntryLine).flatten ++ (secsBytes more ++ rest))) := by
        simp [secsBytes, xrefSectionBytes]
      have hassign : assigns ((s, es) :: more) = assignsFrom s es ++ assigns more := by
        simp [assigns]
      rw [hassign] at hnd hk
      obtain ⟨a, as, hda, hdig⟩ := FileRT.natDigits_head s
      obtain ⟨t1, t2⟩ := tableEntries_lines es s (secsBytes more ++ rest) acc (assigns more) he hnd hk
      have hnd' : ((assigns more).map (·.1)).Nodup := by
        simp only [List.map_append] at hnd
        exact (List.nodup_append.mp hnd).2.1
      rw [e0]
      have hfirst : ∃ b r, natDigits s ++ 32 :: (natDigits es.length ++ 10 :: ((es.map xrefEntryLine).flatten ++
          (secsBytes more ++ rest))) = b :: r ∧ isDig b = true := ⟨a, _, by rw [hda]; rfl, hdig⟩
      obtain ⟨b0, r0, hbr, hb0⟩ := hfirst
      unfold subsections
      rw [hbr]
      simp only [hb0, if_true]
      rw [← hbr, number_natDigits s 32 _ (by omega) (by decide)]
      simp only
      rw [number_natDigits es.length 10 _ (by omega) (by decide)]
      simp only [dropEol, t1]
      rw [ih f rest _ (count + 1) (fun sec' h' => hok sec' (by simp [h'])) hr (by simp at hf ⊢; omega) hnd' t2]
      simp only [List.append_assoc, List.length_cons]
      have : count + 1 + more.length = count + (more.length + 1) := by omega
      rw [this, hassign, inUse_append]

/-! ### the entries of a written table -/

/-- the in-use entries the strict reader collects from the table `write_xref` wrote -/
def tableEntriesOf (x : XrefMap) (size : Nat) : List Entry := inUse (assigns (tableSecs x size))

theorem keys_sublist (x : XrefMap) (l : List Nat) :
    ((l.filterMap (idAssign x (some : Nat × Nat → Option (Nat × Nat)))).map (·.1)).Sublist l := by
  induction l with
  | nil => simp
  | cons n rest ih =>
    simp only [List.filterMap_cons, idAssign]
    cases x.get n with
    | none => exact List.Sublist.cons _ ih
    | some e => exact List.Sublist.cons₂ _ ih

theorem assigns_tableSecs (x : XrefMap) (size : Nat) :
    assigns (tableSecs x size) = (0, none) :: (List.range' 1 (size - 1)).filterMap (idAssign x some) := by
  unfold tableSecs
  rw [loopSecs_spec x some (size - 1) 1 0 [none] (by intro _; rfl)]
  rfl

theorem assigns_tableSecs_nodup (x : XrefMap) (size : Nat) : ((assigns (tableSecs x size)).map (·.1)).Nodup := by
  rw [assigns_tableSecs]
  simp only [List.map_cons, List.nodup_cons]
  have hsub := keys_sublist x (List.range' 1 (size - 1))
  refine ⟨?_, List.Nodup.sublist hsub (List.nodup_range' 1)⟩
  intro hm
  have := hsub.subset hm
  simp [List.mem_range'_1] at this

theorem inUse_mem (L : List (Nat × Option (Nat × Nat))) (n off g : Nat) :
    (n, off, g) ∈ inUse L ↔ (n, some (off, g)) ∈ L := by
  induction L with
  | nil => simp [inUse]
  | cons p rest ih =>
    obtain ⟨k, e⟩ := p
    cases e with
    | none => simp [inUse, ih]
    | some v => obtain ⟨a, b⟩ := v; simp [inUse, ih]

theorem mem_tableEntriesOf (x : XrefMap) (size n off g : Nat) :
    (n, off, g) ∈ tableEntriesOf x size ↔ (1 ≤ n ∧ n < size) ∧ x.get n = some (off, g) := by
  unfold tableEntriesOf
  rw [inUse_mem, assigns_tableSecs]
  simp only [List.mem_cons, Prod.mk.injEq, List.mem_filterMap, List.mem_range'_1, idAssign]
  constructor
  · rintro (⟨_, h⟩ | ⟨m, hm, h⟩)
    · cases h
    · cases hx : x.get m with
      | none => simp [hx] at h
      | some e =>
        simp [hx] at h
        obtain ⟨rfl, rfl⟩ := h
        exact ⟨by omega, hx⟩
  · rintro ⟨hr, hx⟩
    exact Or.inr ⟨n, by omega, by simp [hx]⟩

theorem inUse_keys_sublist (L : List (Nat × Option (Nat × Nat))) : ((inUse L).map (·.1)).Sublist (L.map (·.1)) := by
  induction L with
  | nil => simp [inUse]
  | cons p rest ih =>
    obtain ⟨k, e⟩ := p
    cases e with
    | none => exact List.Sublist.cons _ ih
    | some v => obtain ⟨a, b⟩ := v; exact List.Sublist.cons₂ _ ih

theorem tableEntriesOf_nodup (x : XrefMap) (size : Nat) : ((tableEntriesOf x size).map (·.1)).Nodup :=
  List.Nodup.sublist (inUse_keys_sublist _) (assigns_tableSecs_nodup x size)

/-- **R2 on a written table**: the section `xref … trailer <<…>>` is read back with exactly the
recorded in-use entries, the trailer dictionary, and ends where the dictionary ends -/
theorem sectionAt_table (pre tail : Bytes) (x : XrefMap) (size : Nat) (tr : Dict) (sz : Int)
    (hx : XrefMapOk x) (hs : size ≤ 4294967295)
    (htr : WFObj (.dict tr) ∧ height (.dict tr) ≤ MAX_NESTING ∧ NoRealD tr)
    (hsz : Dict.get tr SIZE = some (.int sz)) (pv : Option Nat) (hprev : prevOf tr = .ok pv) :
    sectionAt (pre ++ (writeXrefTable x size ++ (TRAILER_KW ++ (writeObj (.dict tr) ++ tail)))) pre.length
      = .ok { entries := tableEntriesOf x size, trailer := tr,
              secEnd := (pre ++ (writeXrefTable x size ++ (TRAILER_KW ++ (writeObj (.dict tr) ++ tail)))).length
                - tail.length,
              prev := pv, size := sz, selfId := none } := by
  obtain ⟨t1, t2, t3⟩ := htr
  generalize htot : (pre ++ (writeXrefTable x size ++ (TRAILER_KW ++ (writeObj (.dict tr) ++ tail)))).length = total
  have hle : ¬ pre.length > total := by rw [← htot]; simp only [List.length_append]; omega
  have hdrop : (pre ++ (writeXrefTable x size ++ (TRAILER_KW ++ (writeObj (.dict tr) ++ tail)))).drop pre.length
      = XREF ++ (10 :: (secsBytes (tableSecs x size) ++ (TRAILER_KW ++ (writeObj (.dict tr) ++ tail)))) := by
    rw [List.drop_left, writeXrefTable_eq]
    simp [XREF_KW, XREF]
  have hsub := subsections_secs (tableSecs x size)
    ((secsBytes (tableSecs x size) ++ (TRAILER_KW ++ (writeObj (.dict tr) ++ tail))).length + 1)
    (TRAILER_KW ++ (writeObj (.dict tr) ++ tail)) [] 0 (tableSecs_ok x size hx hs) (noDigit_trailer _)
    (by have := secsBytes_length (tableSecs x size); simp only [List.length_append]; omega)
    (assigns_tableSecs_nodup x size) (by intro k _; rfl)
  have hcount : ¬ (0 + (tableSecs x size).length = 0) := by
    have := tableSecs_ne_nil x size
    cases h : tableSecs x size with
    | nil => exact absurd h this
    | cons a b => simp
  have htrl : stripPrefix TRAILER (TRAILER_KW ++ (writeObj (.dict tr) ++ tail)) = some (10 :: (writeObj (.dict tr) ++ tail)) := by
    simp [TRAILER, TRAILER_KW, stripPrefix]
  obtain ⟨w, hw⟩ := writeObj_dict_cons tr
  have hsk : skipWs (10 :: (writeObj (.dict tr) ++ tail)) = writeObj (.dict tr) ++ tail := by
    rw [hw]; simp [skipWs, isWs]
  have hfuel : ObjRt.size (.dict tr) ≤ (writeObj (.dict tr) ++ tail).length + 1 := by
    have := size_le_length _ (.dict tr) t1
    simp only [List.length_append]; omega
  have hobj := obj_rt (.dict tr) _ 0 tail t1 (by omega) hfuel trivial
  simp only [norm, normD_noReal tr t3] at hobj
  have hk1 : kSize = SIZE := rfl
  unfold sectionAt
  rw [htot]
  simp only [hle, if_false, hdrop, stripPrefix_append, tableSection, dropEol, hsub, List.nil_append, hcount, htrl, hsk,
    hobj, hk1, hsz, hprev, tableEntriesOf]

/-! ### the tiling walk over the written objects -/

def bytesOf (os : Objects) : Bytes := (os.map fun p => writeIndirect p.1.1 p.1.2 p.2).flatten

/-- where the writer puts the objects: (number, offset, generation) in write order -/
def entriesOf : Objects → Nat → List Entry
  | [], _ => []
  | p :: r, pos => (p.1.1, pos, p.1.2) :: entriesOf r (pos + (writeIndirect p.1.1 p.1.2 p.2).length)

theorem writeIndirect_pos (n g : Nat) (o : Obj) : 0 < (writeIndirect n g o).length := by
  simp [writeIndirect]; omega

theorem entriesOf_off_ge : ∀ (os : Objects) (pos : Nat), ∀ e ∈ entriesOf os pos, pos ≤ e.2.1 := by
  intro os
  induction os with
  | nil => intro pos e he; simp [entriesOf] at he
  | cons p rest ih =>
    intro pos e he
    simp only [entriesOf, List.mem_cons] at he
    rcases he with rfl | he
    · exact Nat.le_refl _
    · have := ih _ e he; omega

theorem filter_singleton {α : Type} (key : α → Nat) (p : α → Bool) (a : α) : ∀ (l : List α),
    (l.map key).Nodup → a ∈ l → (∀ b ∈ l, p b = true → b = a) → p a = true → l.filter p = [a] := by
  intro l
  induction l with
  | nil => intro _ h; simp at h
  | cons x xs ih =>
    intro hn ha hall hp
    simp only [List.map_cons, List.nodup_cons] at hn
    by_cases hx : x = a
    · subst hx
      have : xs.filter p = [] := by
        rw [List.filter_eq_nil_iff]
        intro b hb hpb
        have := hall b (by simp [hb]) hpb
        subst this
        exact hn.1 (List.mem_map.mpr ⟨b, hb, rfl⟩)
      simp [List.filter, hp, this]
    · have hpx : p x = false := by
        cases h : p x with
        | false => rfl
        | true => exact absurd (hall x (by simp) h) hx
      have ha' : a ∈ xs := by
        simp only [List.mem_cons] at ha
        rcases ha with h | h
        · exact absurd h.symm hx
        · exact h
      simp only [List.filter, hpx]
      exact ih hn.2 ha' (fun b hb => hall b (by simp [hb])) hp

/-- **R6 on the written object area**: the walk visits the objects in write order, each entry
exactly once, and ends exactly at the cross-reference section -/
theorem walk_written (resolve : ObjId → Option Int) : ∀ (os : Objects) (pre post : Bytes) (ents : List Entry)
    (acc : List (ObjId × Obj)) (fuel : Nat),
    (∀ p ∈ os, ObjOK p.2) → (ents.map (·.1)).Nodup →
    (∀ e, e ∈ ents ↔ e ∈ entriesOf os pre.length) → os.length + 1 ≤ fuel →
    walk (pre ++ (bytesOf os ++ post)) resolve fuel ents pre.length (pre.length + (bytesOf os).length) acc
      = .ok (acc.reverse ++ os) := by
  intro os
  induction os with
  | nil =>
    intro pre post ents acc fuel _ _ hiff hf
    have hnil : ents = [] := by
      rw [List.eq_nil_iff_forall_not_mem]
      intro e he
      have := (hiff e).mp he
      simp [entriesOf] at this
    cases fuel with
    | zero => simp at hf
    | succ f => simp [walk, bytesOf, hnil]
  | cons p rest ih =>
    intro pre post ents acc fuel hok hnd hiff hf
    obtain ⟨⟨n, g⟩, o⟩ := p
    cases fuel with
    | zero => simp at hf
    | succ f =>
      have hpos := writeIndirect_pos n g o
      have hb : pre ++ (bytesOf (((n, g), o) :: rest) ++ post)
          = pre ++ (writeIndirect n g o ++ (bytesOf rest ++ post)) := by
        simp [bytesOf]
      have hlenb : (bytesOf (((n, g), o) :: rest)).length = (writeIndirect n g o).length + (bytesOf rest).length := by
        simp [bytesOf]
      have hne : ¬ pre.length = pre.length + (bytesOf (((n, g), o) :: rest)).length := by
        rw [hlenb]; omega
      have hfilt : ents.filter (fun e => e.2.1 == pre.length) = [(n, pre.length, g)] := by
        apply filter_singleton (fun e : Entry => e.1) _ _ ents hnd
        · exact (hiff _).mpr (by simp [entriesOf])
        · intro b hbm hpb
          have hb' := (hiff b).mp hbm
          simp only [entriesOf, List.mem_cons] at hb'
          rcases hb' with h | h
          · exact h
          · have := entriesOf_off_ge rest _ b h
            have hoff : b.2.1 = pre.length := by simpa using hpb
            omega
        · simp
      have hobj := objectAt_written pre (bytesOf rest ++ post) n g o resolve (hok ((n, g), o) (by simp))
      rw [hb]
      unfold walk
      rw [← hb]
      simp only [hne, if_false, hfilt]
      rw [hb, hobj]
      have hgt : ¬ (pre.length + (writeIndirect n g o).length ≤ pre.length) := by omega
      simp only [hgt, if_false]
      have hb2 : pre ++ (writeIndirect n g o ++ (bytesOf rest ++ post))
          = (pre ++ writeIndirect n g o) ++ (bytesOf rest ++ post) := by simp
      have hl2 : pre.length + (writeIndirect n g o).length = (pre ++ writeIndirect n g o).length := by simp
      have hstop : pre.length + (bytesOf (((n, g), o) :: rest)).length
          = (pre ++ writeIndirect n g o).length + (bytesOf rest).length := by
        rw [hlenb]; simp only [List.length_append]; omega
      rw [hb2, hl2, hstop]
      rw [ih (pre ++ writeIndirect n g o) post _ (((n, g), o) :: acc) f (fun q hq => hok q (by simp [hq]))
        (List.Nodup.sublist (List.Sublist.map _ List.filter_sublist) hnd) ?_ (by simp at hf ⊢; omega)]
      · simp
      · intro e
        rw [List.mem_filter, hiff e]
        simp only [entriesOf, List.mem_cons, List.length_append]
        constructor
        · rintro ⟨h1 | h1, h2⟩
          · subst h1; simp at h2
          · exact h1
        · intro h1
          refine ⟨Or.inr h1, ?_⟩
          have := entriesOf_off_ge rest _ e h1
          simp only [bne_iff_ne, ne_eq]
          omega

/-! ### the writer's map and the write order -/

theorem writeObjects_kept : ∀ (os : Objects) (out : Bytes) (x : XrefMap),
    (∀ p ∈ os, skippedOnSave p.2 = false) → (writeObjects os out x).1 = out ++ bytesOf os := by
  intro os
  induction os with
  | nil => intro out x _; simp [writeObjects, bytesOf]
  | cons p rest ih =>
    intro out x hk
    obtain ⟨⟨n, g⟩, o⟩ := p
    have := hk ((n, g), o) (by simp)
    simp only at this
    simp only [writeObjects, this, Bool.false_eq_true, if_false]
    rw [ih _ _ (fun q hq => hk q (by simp [hq]))]
    simp [bytesOf]

theorem entriesOf_get : ∀ (os : Objects) (out : Bytes) (x : XrefMap),
    (os.map (·.1.1)).Nodup → (∀ p ∈ os, skippedOnSave p.2 = false) →
    ∀ e ∈ entriesOf os out.length, (writeObjects os out x).2.get e.1 = some (e.2.1 % 4294967296, e.2.2) := by
  intro os
  induction os with
  | nil => intro out x _ _ e he; simp [entriesOf] at he
  | cons p rest ih =>
    intro out x hn hk e he
    obtain ⟨⟨n, g⟩, o⟩ := p
    have hkp := hk ((n, g), o) (by simp)
    simp only at hkp
    simp only [List.map_cons, List.nodup_cons] at hn
    simp only [writeObjects, hkp, Bool.false_eq_true, if_false]
    simp only [entriesOf, List.mem_cons] at he
    rcases he with rfl | he
    · simp only
      rw [writeObjects_get_other rest _ _ n hn.1, XrefMap.get_insert_same]
    · have hl : out.length + (writeIndirect n g o).length = (out ++ writeIndirect n g o).length := by simp
      rw [hl] at he
      exact ih _ _ hn.2 (fun q hq => hk q (by simp [hq])) e he

theorem entriesOf_of_mem : ∀ (os : Objects) (pos : Nat) (p : ObjId × Obj), p ∈ os →
    ∃ e ∈ entriesOf os pos, e.1 = p.1.1 ∧ e.2.2 = p.1.2 := by
  intro os
  induction os with
  | nil => intro pos p hp; simp at hp
  | cons q rest ih =>
    intro pos p hp
    simp only [List.mem_cons] at hp
    rcases hp with rfl | hp
    · exact ⟨(p.1.1, pos, p.1.2), by simp [entriesOf], rfl, rfl⟩
    · obtain ⟨e, he, h1, h2⟩ := ih (pos + (writeIndirect q.1.1 q.1.2 q.2).length) p hp
      exact ⟨e, by simp [entriesOf, he], h1, h2⟩

theorem mem_of_entriesOf : ∀ (os : Objects) (pos : Nat), ∀ e ∈ entriesOf os pos,
    (∃ p ∈ os, p.1.1 = e.1 ∧ p.1.2 = e.2.2) ∧ e.2.1 < pos + (bytesOf os).length := by
  intro os
  induction os with
  | nil => intro pos e he; simp [entriesOf] at he
  | cons q rest ih =>
    intro pos e he
    have hpos := writeIndirect_pos q.1.1 q.1.2 q.2
    have hlen : (bytesOf (q :: rest)).length = (writeIndirect q.1.1 q.1.2 q.2).length + (bytesOf rest).length := by
      simp [bytesOf]
    simp only [entriesOf, List.mem_cons] at he
    rcases he with rfl | he
    · exact ⟨⟨q, by simp, rfl, rfl⟩, by simp only; omega⟩
    · obtain ⟨⟨p, hp, h1, h2⟩, h3⟩ := ih _ e he
      exact ⟨⟨p, by simp [hp], h1, h2⟩, by omega⟩

/-- **`strict_ok`, classic table (C03).** For every well-formed document (as in `file_rt_table`:
one object per number in `1..max_id`, `u16` generations, no dropped kinds, objects and trailer
within the nesting limit and real-free, streams with their direct `Length`, trailer without
`Prev`, version text without line breaks) saved plainly with a classic cross-reference table,
file < 4 GiB: the independent strict structural reader ACCEPTS the saved bytes — every rule
R1–R7, every byte accounted for — and returns exactly the saved objects (as the very list, in file
order), the version, the trailer `save` wrote, one revision, no cross-reference stream. -/
theorem strict_of_save_table (d : SDoc) (out : Bytes) (d' : SDoc)
    (hk : d.xrefKind = .table) (h : saveFrom [] d = some (out, d')) (hlen : out.length < 4294967296)
    (hmax : d.maxId + 1 ≤ 4294967295) (hwf : DocWF d)
    (hobjs : ∀ p ∈ d.objects, ObjOK p.2)
    (htr : WFObj (.dict d.trailer) ∧ height (.dict d.trailer) ≤ MAX_NESTING ∧ NoRealD d.trailer)
    (hv1 : ∀ b ∈ d.version, notEol b = true) (hprev : d.trailer.get PREV = none) :
    strictLoad out = .ok { version := d.version, objects := d.objects, trailer := d'.trailer, revisions := 1,
                            xrefStreamIds := [] } := by
  obtain ⟨hout, htr'⟩ := saveFrom_table_eq [] d out d' hk h
  have hmark := saveFrom_mark [] d out d' h
  -- the file, piece by piece
  have hbody : bodyOf [] d = hdrOf [] d ++ bytesOf d.objects := writeObjects_kept _ _ _ hwf.kept
  have hhdr : hdrOf [] d = PDF_KW ++ (d.version ++ 10 :: 37 :: (d.binaryMark ++ [10])) := by simp [hdrOf]
  obtain ⟨tail, htail⟩ : ∃ t, t = STARTXREF_KW ++ natDigits (bodyOf [] d).length ++ EOF_KW := ⟨_, rfl⟩
  have htr2 : WFObj (.dict d'.trailer) ∧ height (.dict d'.trailer) ≤ MAX_NESTING ∧ NoRealD d'.trailer := by
    obtain ⟨t1, t2, t3⟩ := htr
    have hi : -(I64_MAX : Int) - 1 ≤ ((d.maxId : Int) + 1) ∧ ((d.maxId : Int) + 1) ≤ I64_MAX := by
      simp [I64_MAX]; omega
    rw [htr']
    refine ⟨?_, ?_, NoRealD_set_int _ _ _ t3⟩
    · simp only [WFObj, WF] at t1 ⊢
      exact ⟨Dict_nodup_set d.trailer SIZE _ t1.1, WFD_set_int _ _ _ hi t1.2⟩
    · simp only [height] at t2 ⊢
      have := heightD_set_int d.trailer SIZE ((d.maxId : Int) + 1)
      omega
  have k1 : ¬ SIZE = PREV := by decide
  have hprev' : Dict.get d'.trailer PREV = none := by
    rw [htr', Dict_get_set]; simp only [k1, if_false]; exact hprev
  have hsz' : Dict.get d'.trailer SIZE = some (.int ((d.maxId : Int) + 1)) := by
    rw [htr', Dict.get_set_same]
  have e1 : out = bodyOf [] d ++ (writeXrefTable (xmapOf [] d) (d.maxId + 1) ++ (TRAILER_KW ++
      (writeObj (.dict d'.trailer) ++ tail))) := by
    rw [hout, htr', htail]; simp only [List.append_assoc]
  have e2 : out = (bodyOf [] d ++ writeXrefTable (xmapOf [] d) (d.maxId + 1) ++ TRAILER_KW
      ++ writeObj (.dict d'.trailer)) ++ STARTXREF_KW ++ natDigits (bodyOf [] d).length ++ EOF_KW := by
    rw [hout, htr']
  have e3 : out = hdrOf [] d ++ (bytesOf d.objects ++ (writeXrefTable (xmapOf [] d) (d.maxId + 1) ++ (TRAILER_KW ++
      (writeObj (.dict d'.trailer) ++ tail)))) := by
    rw [e1, hbody]; simp only [List.append_assoc]
  have hblen : (bodyOf [] d).length < 4294967296 := by
    have := body_le_out [] d out d' h; omega
  -- R1
  have hlast : lastXref out = .ok (bodyOf [] d).length := by
    rw [e2]; exact lastXref_tail _ _ (by omega)
  -- R2
  have hsec := sectionAt_table (bodyOf [] d) tail (xmapOf [] d) (d.maxId + 1) d'.trailer _
    (xmapOf_ok [] d hwf.gens) hmax htr2 hsz' none (by simp [prevOf, show kPrev = PREV from rfl, hprev'])
  rw [← e1] at hsec
  -- R4
  have hsecEnd : out.length - tail.length = (bodyOf [] d ++ writeXrefTable (xmapOf [] d) (d.maxId + 1) ++ TRAILER_KW
      ++ writeObj (.dict d'.trailer)).length := by
    rw [e2, htail]; simp only [List.length_append]; omega
  have htl : tailAt out (out.length - tail.length) (bodyOf [] d).length = .ok out.length := by
    rw [hsecEnd]
    have := tailAt_tail (bodyOf [] d ++ writeXrefTable (xmapOf [] d) (d.maxId + 1) ++ TRAILER_KW
      ++ writeObj (.dict d'.trailer)) (bodyOf [] d).length
    rw [← e2] at this
    exact this
  -- R7
  have hhead : headerAt out = .ok (d.version, bytesOf d.objects ++ (writeXrefTable (xmapOf [] d) (d.maxId + 1) ++
      (TRAILER_KW ++ (writeObj (.dict d'.trailer) ++ tail)))) := by
    rw [e3, hhdr]
    have := headerAt_saved d.version d.binaryMark (bytesOf d.objects ++ (writeXrefTable (xmapOf [] d) (d.maxId + 1) ++
      (TRAILER_KW ++ (writeObj (.dict d'.trailer) ++ tail)))) hv1 hmark
    simpa [List.append_assoc] using this
  have hobjStart : out.length - (bytesOf d.objects ++ (writeXrefTable (xmapOf [] d) (d.maxId + 1) ++
      (TRAILER_KW ++ (writeObj (.dict d'.trailer) ++ tail)))).length = (hdrOf [] d).length := by
    rw [e3]; simp only [List.length_append]; omega
  -- R3
  have hsize : sizeOk (Rev.mk (tableEntriesOf (xmapOf [] d) (d.maxId + 1)) d'.trailer
      (out.length - tail.length) none ((d.maxId : Int) + 1) none) = true := by
    simp only [sizeOk, List.all_eq_true, decide_eq_true_eq]
    intro e he
    obtain ⟨n, off, g⟩ := e
    have := ((mem_tableEntriesOf _ _ n off g).mp he).1
    simp only; omega
  -- R6
  have hiff : ∀ e, e ∈ tableEntriesOf (xmapOf [] d) (d.maxId + 1) ↔ e ∈ entriesOf d.objects (hdrOf [] d).length := by
    intro e
    obtain ⟨n, off, g⟩ := e
    rw [mem_tableEntriesOf]
    constructor
    · rintro ⟨_, hx⟩
      -- the number is one of the document's
      have hnum : n ∈ d.objects.map (·.1.1) := by
        cases hm : decide (n ∈ d.objects.map (·.1.1)) with
        | true => simpa using hm
        | false =>
          have hm' : n ∉ d.objects.map (·.1.1) := by simpa using hm
          have := writeObjects_get_other d.objects (hdrOf [] d) [] n hm'
          unfold xmapOf at hx
          rw [this] at hx
          simp [XrefMap.get] at hx
      obtain ⟨p, hp, hpn⟩ := List.mem_map.mp hnum
      obtain ⟨e, he, h1, h2⟩ := entriesOf_of_mem d.objects (hdrOf [] d).length p hp
      have hg := entriesOf_get d.objects (hdrOf [] d) [] hwf.nodup hwf.kept e he
      obtain ⟨_, hlt⟩ := mem_of_entriesOf d.objects _ e he
      have hoffb : e.2.1 < 4294967296 := by
        have : (bodyOf [] d).length = (hdrOf [] d).length + (bytesOf d.objects).length := by
          rw [hbody]; simp
        omega
      rw [Nat.mod_eq_of_lt hoffb] at hg
      have hen : e.1 = n := by rw [h1, hpn]
      rw [hen] at hg
      unfold xmapOf at hx
      rw [hx] at hg
      injection hg with hg
      injection hg with ho hg2
      obtain ⟨e1', e2', e3'⟩ := e
      simp only at hen ho hg2
      subst hen; subst ho; subst hg2
      exact he
    · intro he
      have hg := entriesOf_get d.objects (hdrOf [] d) [] hwf.nodup hwf.kept _ he
      obtain ⟨⟨p, hp, hp1, hp2⟩, hlt⟩ := mem_of_entriesOf d.objects _ _ he
      simp only at hp1 hp2 hlt hg
      have hoffb : off < 4294967296 := by
        have : (bodyOf [] d).length = (hdrOf [] d).length + (bytesOf d.objects).length := by
          rw [hbody]; simp
        omega
      rw [Nat.mod_eq_of_lt hoffb] at hg
      obtain ⟨hr1, hr2⟩ := hwf.range p hp
      exact ⟨by omega, hg⟩
  have hwalk := walk_written (resolveIn out (tableEntriesOf (xmapOf [] d) (d.maxId + 1))) d.objects (hdrOf [] d)
    (writeXrefTable (xmapOf [] d) (d.maxId + 1) ++ (TRAILER_KW ++ (writeObj (.dict d'.trailer) ++ tail)))
    (tableEntriesOf (xmapOf [] d) (d.maxId + 1)) [] (out.length + 1) hobjs (tableEntriesOf_nodup _ _) hiff
    (by
      have : d.objects.length ≤ (bytesOf d.objects).length := by
        clear hiff hsize hobjStart hhead htl hsecEnd hsec hlast
        generalize d.objects = os
        induction os with
        | nil => simp [bytesOf]
        | cons q r ih =>
          have := writeIndirect_pos q.1.1 q.1.2 q.2
          simp only [bytesOf, List.map_cons, List.flatten_cons, List.length_append, List.length_cons] at ih ⊢
          omega
      rw [e3]; simp only [List.length_append]; omega)
  rw [← e3] at hwalk
  have hstop : (hdrOf [] d).length + (bytesOf d.objects).length = (bodyOf [] d).length := by
    rw [hbody]; simp
  rw [hstop] at hwalk
  have hfilt : (tableEntriesOf (xmapOf [] d) (d.maxId + 1)).filter (fun e => some e.1 != (none : Option Nat))
      = tableEntriesOf (xmapOf [] d) (d.maxId + 1) := by
    rw [List.filter_eq_self]; intro e _; rfl
  -- assemble
  have hrev : revisions out (out.length + 1) (bodyOf [] d).length
      = .ok ([RevData.mk (Rev.mk (tableEntriesOf (xmapOf [] d) (d.maxId + 1)) d'.trailer
                (out.length - tail.length) none ((d.maxId : Int) + 1) none) d.objects], d.version, out.length) := by
    unfold revisions
    simp only [hsec, htl, hsize, Bool.not_true, Bool.false_eq_true, if_false, hhead, hobjStart, hfilt, hwalk,
      List.reverse_nil, List.nil_append]
  have hks : Dict.get d'.trailer kSize = some (.int ((d.maxId : Int) + 1)) := hsz'
  have hallsz : ((List.filter (fun _ => true) d.objects).all fun p => decide (((p.1.1 : Nat) : Int) < (d.maxId : Int) + 1)) = true := by
    rw [List.all_eq_true]
    intro p hp
    have := (hwf.range p (List.mem_filter.mp hp).1).2
    simp only [decide_eq_true_eq]; omega
  unfold strictLoad
  simp only [hlast, hrev, bne_self_eq_false, Bool.false_eq_true, if_false, mergeRevs, List.length_singleton,
    List.filterMap_cons, List.filterMap_nil, hks]
  simp only [List.contains_nil, Bool.not_false, List.nil_append, hallsz, Bool.not_true, Bool.false_eq_true, if_false]
  simp [mergeRevs]

/-- user view: the bookkeeping `Size` aside, the trailer the strict reader returns is the document's -/
theorem strict_of_save_table_trailer (d : SDoc) (out : Bytes) (d' : SDoc) (hk : d.xrefKind = .table)
    (h : saveFrom [] d = some (out, d')) (k : Bytes) (hk' : k ≠ SIZE) : d'.trailer.get k = d.trailer.get k := by
  rw [(saveFrom_table_eq [] d out d' hk h).2, Dict_get_set]
  have : ¬ SIZE = k := fun e => hk' e.symm
  simp [this]

/-- non-vacuity: the hypotheses are jointly satisfiable (the empty document of `Thm/FileRt.lean`),
so the strict reader's acceptance is obtained outright -/
example : ∃ out d', saveFrom [] exDoc = some (out, d') ∧ ∃ sd, strictLoad out = .ok sd ∧ sd.revisions = 1 := by
  obtain ⟨out, d', h, hlen⟩ := exDoc_saves
  refine ⟨out, d', h, _, strict_of_save_table exDoc out d' rfl h hlen (by decide)
    ⟨by simp [exDoc], by intro p hp; simp [exDoc] at hp, by intro p hp; simp [exDoc] at hp,
      by intro p hp; simp [exDoc] at hp⟩
    (by intro p hp; simp [exDoc] at hp)
    ⟨by simp [exDoc, WFObj, WF, WFD], by simp [exDoc, height, heightD, MAX_NESTING], by simp [exDoc, NoRealD]⟩
    (by intro b hb; simp [exDoc] at hb; rcases hb with h | h | h <;> subst h <;> decide)
    (by simp [exDoc, Dict.get]), rfl⟩

end Lopdf.Strict
