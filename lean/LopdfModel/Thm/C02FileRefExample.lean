import LopdfModel.Thm.C02FileRef
import LopdfModel.Thm.C02FileStmExample
/-
  Non-vacuity of `loadDoc_complete_table` with an indirect `Length`:
    %PDF-1.4 LF
    1 0 obj LF <</Length 2 0 R>> LF stream LF abc LF endstream LF endobj LF      (offset 9)
    2 0 obj LF 3 LF endobj LF                                                    (offset 63)
    xref LF 0 3 LF 0000000000 65535 f SP LF 0000000009 00000 n SP LF 0000000063 00000 n SP LF   (offset 80)
    trailer LF <</Size 3>> LF
    startxref LF 80 LF %%EOF
-/
namespace Lopdf.Grammar
open Lopdf Gen

def rVer : Bytes := [49, 46, 52]
def rEntries : List (Bytes × Obj) := [(kLength, .ref 2 0)]
def rEbs : Bytes := 47 :: kLength ++ [32] ++ ([50] ++ [32] ++ [48] ++ [32] ++ [82]) ++ [] ++ []

theorem rEntries_derive : DerivesEntries 0 rEntries rEbs :=
  .cons 0 kLength kLength _ _ [32] _ [] _ (rawName kLength (by decide)) (.ws 32 _ (by decide) .nil) (stopHead_sp _)
    (.ref 0 2 0 [50] [32] [48] [32] (.one 50 (by decide)) (by decide) (.one 48 (by decide)) (by decide)
      ⟨.ws 32 _ (by decide) .nil, by simp⟩ (.ws 32 _ (by decide) .nil))
    .nil (.nil 0)

def rDict : Dict := setEntries [] rEntries
def rData : Bytes := [97, 98, 99]

def rObj1 : Bytes :=
  [49] ++ ([32] ++ ([48] ++ ([32] ++ ([111, 98, 106] ++ ([10] ++
    (streamSpelling [] rEbs [10] [] [10] rData [10] ++ ([10] ++ [101, 110, 100, 111, 98, 106])))))))

theorem rObj1_derives : DerivesIndirectRef (1, 0) (2, 0) rDict rData rObj1 :=
  .mk 0 1 0 2 0 rEntries [49] [32] [48] [32] [10] [] rEbs [10] [] [10] rData [10] [10]
    (.one 49 (by decide)) (by decide) ⟨.ws 32 _ (by decide) .nil, by simp⟩ (.one 48 (by decide)) (by decide)
    ⟨.ws 32 _ (by decide) .nil, by simp⟩ (.ws 10 _ (by decide) .nil) .nil rEntries_derive (by decide)
    (.ws 10 _ (by decide) .nil) (by intro b hb; simp at hb) .lf rfl (.some _ .lf) (.ws 10 _ (by decide) .nil)

def rObj2 : Bytes :=
  [50] ++ ([32] ++ ([48] ++ ([32] ++ ([111, 98, 106] ++ ([10] ++ ([51] ++ ([10] ++ [101, 110, 100, 111, 98, 106])))))))

theorem rObj2_derives : DerivesIndirect (2, 0) (.int 3) rObj2 :=
  .plain 0 2 0 _ [50] [32] [48] [32] [10] [51] [10] (.one 50 (by decide)) (by decide) ⟨.ws 32 _ (by decide) .nil, by simp⟩
    (.one 48 (by decide)) (by decide) ⟨.ws 32 _ (by decide) .nil, by simp⟩ (.ws 10 _ (by decide) .nil)
    (digitObj 0 3 51 (by decide) (by decide)) (by decide) (.ws 10 _ (by decide) .nil) (fun _ => by simp)

def rBody : Bytes := rObj1 ++ [10] ++ rObj2 ++ [10]
def rSecs : List TSub := [(0, [(0, 65535, false), (9, 0, true), (63, 0, true)])]
def rXref : Bytes :=
  [120, 114, 101, 102] ++ [10] ++
    ([48] ++ [32] ++ [51] ++ [] ++ [10] ++
      (([48, 48, 48, 48, 48, 48, 48, 48, 48, 48] ++ [32] ++ [54, 53, 53, 51, 53] ++ [32, 102] ++ [32, 10]) ++
       (([48, 48, 48, 48, 48, 48, 48, 48, 48, 57] ++ [32] ++ [48, 48, 48, 48, 48] ++ [32, 110] ++ [32, 10]) ++
        (([48, 48, 48, 48, 48, 48, 48, 48, 54, 51] ++ [32] ++ [48, 48, 48, 48, 48] ++ [32, 110] ++ [32, 10]) ++ []))))

theorem rXref_derives : DerivesXrefTable rSecs rXref :=
  .mk _ _ _ .lf
    (.one _ _
      (.mk 0 [(0, 65535, false), (9, 0, true), (63, 0, true)] _ _ _ _ _ (.one 48 (by decide)) (.one 51 (by decide))
        (by decide) (by decide) .none .lf
        (.cons _ _ _ _
          (.mk 0 65535 false _ _ _ (derivesNat_lit 0 [48, 48, 48, 48, 48, 48, 48, 48, 48, 48] 9 rfl (by unfold AllDigits; decide) rfl)
            (by decide) (derivesNat_lit 65535 [54, 53, 53, 51, 53] 4 rfl (by unfold AllDigits; decide) rfl) (by decide) .spLf)
          (.cons _ _ _ _
            (.mk 9 0 true _ _ _ (derivesNat_lit 9 [48, 48, 48, 48, 48, 48, 48, 48, 48, 57] 9 rfl (by unfold AllDigits; decide) rfl)
              (by decide) (derivesNat_lit 0 [48, 48, 48, 48, 48] 4 rfl (by unfold AllDigits; decide) rfl) (by decide) .spLf)
            (.cons _ _ _ _
              (.mk 63 0 true _ _ _ (derivesNat_lit 63 [48, 48, 48, 48, 48, 48, 48, 48, 54, 51] 9 rfl (by unfold AllDigits; decide) rfl)
                (by decide) (derivesNat_lit 0 [48, 48, 48, 48, 48] 4 rfl (by unfold AllDigits; decide) rfl) (by decide) .spLf)
              .nil)))))

def rTEntries : List (Bytes × Obj) := [(kSize, .int 3)]
def rTEbs : Bytes := 47 :: kSize ++ [32] ++ [51] ++ [] ++ []
theorem rTEntries_derive : DerivesEntries 0 rTEntries rTEbs :=
  .cons 0 kSize kSize _ _ [32] [51] [] _ (rawName kSize (by decide)) (.ws 32 _ (by decide) .nil) (stopHead_sp _)
    (digitObj 0 3 51 (by decide) (by decide)) .nil (.nil 0)

def rTail : Bytes :=
  rXref ++ (TRAILER_KW ++ ([10] ++ ((60 :: 60 :: [] ++ rTEbs ++ [62, 62]) ++ ([10] ++ (STARTXREF ++ ([10] ++ ([] ++
    ([56, 48] ++ ([] ++ ([10] ++ (EOF_MARK ++ [])))))))))))
def rFile : Bytes := (PDF_KW ++ (rVer ++ ([10] ++ rBody))) ++ rTail

def rVal : Nat → Nat × Obj := fun k => if k = 1 then (0, .stream (rDict.set LENGTH (.int 3)) rData) else (0, .int 3)

set_option maxRecDepth 20000 in
/-- the stream is loaded with its three data bytes and `Length 3` resolved through object 2 -/
theorem rFile_loads : ∃ L, loadDoc rFile = .ok L ∧
    L.objects.get (1, 0) = some (.stream [(kLength, .int 3)] rData) ∧ L.objects.get (2, 0) = some (.int 3) ∧
    L.objects.get (3, 0) = none := by
  have htab : tableOf rSecs = [(1, .normal 9 0), (2, .normal 63 0)] := by decide
  obtain ⟨L, h1, _, _, _, _, h6⟩ := loadDoc_complete_table rVer [10] rBody rSecs rXref [10] [] [10] [10] [] [56, 48] [] [10] []
    3 rVal (fun _ => [])
    (by intro b hb; simp [rVer] at hb; rcases hb with rfl | rfl | rfl <;> decide) .lf rXref_derives
    (.ws 10 _ (by decide) .nil) .nil rTEntries_derive (by decide) (.ws 10 _ (by decide) .nil)
    rfl rfl rfl .lf (by intro b hb; simp at hb)
    (derivesNat_lit _ [56, 48] 1 rfl (by unfold AllDigits; decide) (by decide)) (by intro b hb; simp at hb) .lf .none
    (by decide) (by rw [htab]; decide) rFile rfl
    (by
      intro k e hke
      rw [htab] at hke ⊢
      simp only [XTable.get] at hke
      split at hke
      · rename_i hk; subst hk; injection hke with hke; subst hke
        refine ⟨rfl, Or.inr (Or.inr ⟨(2, 0), 63, rDict, rData, rfl,
          ⟨by decide, [], rObj1, [10] ++ rObj2 ++ [10] ++ rTail, by decide, .nil, rObj1_derives⟩, rfl,
          ⟨by decide, [], rObj2, [10] ++ rTail, by decide, .nil, rObj2_derives, by intro d c h; cases h⟩, ?_, rfl⟩)⟩
        intro d c h; injection h with h _; subst h; intro h'; cases h'
      · split at hke
        · rename_i hk; subst hk; injection hke with hke; subst hke
          exact ⟨rfl, Or.inl ⟨⟨by decide, [], rObj2, [10] ++ rTail, by decide, .nil, rObj2_derives,
            by intro d c h; cases h⟩, rfl⟩⟩
        · cases hke)
    (by intro k _; rfl) (by intro k p hp; simp at hp)
  refine ⟨L, h1, ?_, ?_, ?_⟩ <;> rw [h6, definedObject, htab] <;> rfl

end Lopdf.Grammar
