import LopdfModel.Thm.C05
/-
  C05 — document level: `Document::decrypt_raw` after `Document::encrypt` restores the document,
  through `EncryptionState::encode`, the Encrypt entry bookkeeping, `PasswordAlgorithm::try_from`,
  authentication, `EncryptionState::decode` and the object walks.
-/
set_option linter.unusedSectionVars false
set_option linter.unusedSimpArgs false
namespace Lopdf.Crypt
open Lopdf Lopdf.Gen

/-! ## Part I — `encode` then `try_from(&Document)` / `decode` reads back the state -/

def algOf (st : EncState) : Alg :=
  { encryptMetadata := st.encryptMetadata, length := st.keyLength, version := st.version, revision := st.revision,
    ownerValue := st.ownerValue, ownerEncrypted := st.ownerEncrypted, userValue := st.userValue,
    userEncrypted := st.userEncrypted, permissions := st.permissions, permsEncrypted := st.permsEncrypted }

theorem pValue_lt (p : Nat) (h : p &&& PERM_ALL = p) : pValue p < 2 ^ 64 := by
  unfold pValue
  apply Nat.or_lt_two_pow
  · have : p ≤ PERM_ALL := by rw [← h]; exact Nat.and_le_right
    have : PERM_ALL < 2 ^ 64 := by decide
    omega
  · decide

theorem perms_readback (p : Nat) (h : p &&& PERM_ALL = p) :
    permsTruncate ((pAsI64 (pValue p)) % (2 ^ 64 : Int)).toNat = p := by
  have hlt := pValue_lt p h
  have hx : ((pAsI64 (pValue p)) % (2 ^ 64 : Int)).toNat = pValue p := by
    unfold pAsI64
    have e : (2 : Int) ^ 64 = 18446744073709551616 := by decide
    have e2 : (2 : Nat) ^ 63 = 9223372036854775808 := by decide
    have e3 : (2 : Nat) ^ 64 = 18446744073709551616 := by decide
    rw [e3] at hlt
    split
    · rw [e]; omega
    · rw [e]; omega
  rw [hx]
  unfold permsTruncate pValue
  rw [Nat.and_or_distrib_right, h]
  have : P_RESERVED &&& PERM_ALL = 0 := by decide
  simp [this]


/-- the states `EncryptionState::try_from(EncryptionVersion)` produces -/
structure StateOK (st : EncState) : Prop where
  shape : (st.version = 1 ∧ st.revision = 2 ∧ st.keyLength = none) ∨
          (st.version = 2 ∧ st.revision = 3 ∧ ∃ l, st.keyLength = some l ∧ l % 8 = 0 ∧ 40 ≤ l ∧ l ≤ 128) ∨
          (st.version = 4 ∧ st.revision = 4 ∧ st.keyLength = some 128) ∨
          (st.version = 5 ∧ (st.revision = 5 ∨ st.revision = 6) ∧ st.keyLength = none)
  em : st.version < 4 → st.encryptMetadata = true
  lens4 : st.revision ≤ 4 → st.ownerValue.length = 32 ∧ st.userValue.length = 32 ∧
            st.ownerEncrypted = [] ∧ st.userEncrypted = [] ∧ st.permsEncrypted = []
  lens6 : st.revision ≥ 5 → st.ownerValue.length = 48 ∧ st.userValue.length = 48 ∧
            st.ownerEncrypted.length = 32 ∧ st.userEncrypted.length = 32 ∧ st.permsEncrypted.length = 16
  perms : st.permissions &&& PERM_ALL = st.permissions
  nofilters : st.version < 4 → st.cryptFilters = [] ∧ st.stmF = [] ∧ st.strF = []
  nodup : (st.cryptFilters.map (·.1)).Nodup

theorem algOfDict_encode (st : EncState) (h : StateOK st) : algOfDict st.encode = .ok (algOf st) := by
  obtain ⟨version, revision, keyLength, em, cfs, fileKey, stmF, strF, o, oe, u, ue, perms, pe⟩ := st
  obtain ⟨shape, hem, l4, l6, hp, _, _⟩ := h
  simp only at shape hem l4 l6 hp
  have hpr := perms_readback perms hp
  simp only [Int.reducePow] at hpr
  rcases shape with ⟨hv, hr, hk⟩ | ⟨hv, hr, l, hk, hl8, h40, h128⟩ | ⟨hv, hr, hk⟩ | ⟨hv, hr, hk⟩
  · subst hv hr hk
    obtain ⟨h1, h2, h3, h4, h5⟩ := l4 (by decide)
    have := hem (by decide)
    subst h3 h4 h5 this
    simp [EncState.encode, algOfDict, algOf, Dict.set, Dict.get, K_FILTER, K_V, K_R, K_LENGTH, K_ENCRYPTMETADATA, K_O, K_U,
      K_P, K_CF, K_STMF, K_STRF, K_OE, K_UE, K_PERMS, Obj.asInt, Obj.asStr, LENGTH_IGNORED_V, LENGTH_DEFAULT_V, LENGTH_DEFAULT_BITS, h1, h2, hpr]
  · subst hv hr hk
    obtain ⟨h1, h2, h3, h4, h5⟩ := l4 (by decide)
    have := hem (by decide)
    subst h3 h4 h5 this
    simp [EncState.encode, algOfDict, algOf, Dict.set, Dict.get, K_FILTER, K_V, K_R, K_LENGTH, K_ENCRYPTMETADATA, K_O, K_U,
      K_P, K_CF, K_STMF, K_STRF, K_OE, K_UE, K_PERMS, Obj.asInt, Obj.asStr, LENGTH_IGNORED_V, LENGTH_DEFAULT_V, LENGTH_DEFAULT_BITS, h1, h2, hpr]
    omega
  · subst hv hr hk
    obtain ⟨h1, h2, h3, h4, h5⟩ := l4 (by decide)
    subst h3 h4 h5
    simp [EncState.encode, algOfDict, algOf, Dict.set, Dict.get, K_FILTER, K_V, K_R, K_LENGTH, K_ENCRYPTMETADATA, K_O, K_U,
      K_P, K_CF, K_STMF, K_STRF, K_OE, K_UE, K_PERMS, Obj.asInt, Obj.asStr, LENGTH_IGNORED_V, LENGTH_DEFAULT_V, LENGTH_DEFAULT_BITS, h1, h2, hpr]
  · subst hv hk
    rcases hr with hr | hr <;> subst hr
    · obtain ⟨h1, h2, h3, h4, h5⟩ := l6 (by decide)
      simp [EncState.encode, algOfDict, algOf, Dict.set, Dict.get, K_FILTER, K_V, K_R, K_LENGTH, K_ENCRYPTMETADATA, K_O, K_U,
      K_P, K_CF, K_STMF, K_STRF, K_OE, K_UE, K_PERMS, Obj.asInt, Obj.asStr, LENGTH_IGNORED_V, LENGTH_DEFAULT_V, LENGTH_DEFAULT_BITS, h1, h2, h3, h4, h5, hpr]
    · obtain ⟨h1, h2, h3, h4, h5⟩ := l6 (by decide)
      simp [EncState.encode, algOfDict, algOf, Dict.set, Dict.get, K_FILTER, K_V, K_R, K_LENGTH, K_ENCRYPTMETADATA, K_O, K_U,
      K_P, K_CF, K_STMF, K_STRF, K_OE, K_UE, K_PERMS, Obj.asInt, Obj.asStr, LENGTH_IGNORED_V, LENGTH_DEFAULT_V, LENGTH_DEFAULT_BITS, h1, h2, h3, h4, h5, hpr]


/-! crypt filters: `encode` writes CF from the (name-sorted, duplicate-free) map, `get_crypt_filters` reads it back -/

def cfEntry (nf : Bytes × CF) : Bytes × Obj :=
  (nf.1, .dict [(K_TYPE, .name K_CRYPTFILTER), (K_CFM, .name nf.2.method)])

theorem set_new (d : Dict) (k : Bytes) (v : Obj) (h : k ∉ d.map (·.1)) : Dict.set d k v = d ++ [(k, v)] := by
  induction d with
  | nil => rfl
  | cons e rest ih =>
    obtain ⟨a, b⟩ := e
    have h1 : ¬ a = k := by intro e; apply h; simp [e]
    have h2 : k ∉ rest.map (·.1) := by intro hm; apply h; simp only [List.map_cons, List.mem_cons]; exact Or.inr hm
    simp [Dict.set, h1, ih h2]

theorem foldl_set_new (fs : List (Bytes × CF)) (acc : Dict)
    (h : (acc.map (·.1) ++ fs.map (·.1)).Nodup) :
    fs.foldl (fun d (nf : Bytes × CF) => Dict.set d nf.1 (cfEntry nf).2) acc = acc ++ fs.map cfEntry := by
  induction fs generalizing acc with
  | nil => simp
  | cons nf rest ih =>
    simp only [List.foldl_cons]
    have hn : nf.1 ∉ acc.map (·.1) := by
      intro hm
      have := List.nodup_append.mp h
      exact this.2.2 _ hm _ (by simp) rfl
    rw [set_new acc nf.1 _ hn, ih]
    · simp [cfEntry]
    · simp only [List.map_append, List.map_cons, List.map_nil, List.append_assoc, List.cons_append, List.nil_append]
      simpa using h

theorem cfDict_eq (fs : List (Bytes × CF)) (h : (fs.map (·.1)).Nodup) : cfDict fs = fs.map cfEntry := by
  have := foldl_set_new fs [] (by simpa using h)
  simpa [cfDict, cfEntry] using this

theorem cfOfMethod_method (f : CF) : cfOfMethod (some f.method) = some f := by
  cases f <;> decide

theorem readback_cfEntries (fs : List (Bytes × CF)) :
    (fs.map cfEntry).filterMap (fun (nf : Bytes × Obj) =>
      match nf.2.asDict with
      | none => none
      | some f =>
        if (Dict.get f K_TYPE).isSome && !hasType f K_CRYPTFILTER then none
        else (cfOfMethod ((Dict.get f K_CFM).bind Obj.asName)).map (fun c => (nf.1, c))) = fs := by
  induction fs with
  | nil => rfl
  | cons nf rest ih =>
    have e1 : K_TYPE ≠ K_CFM := by decide
    simp [cfEntry, Obj.asDict, Dict.get, hasType, Obj.asName, e1, cfOfMethod_method] at ih ⊢
    exact ih


theorem getCryptFilters_of (enc : Dict) (fs : List (Bytes × CF)) (hn : (fs.map (·.1)).Nodup)
    (h : Dict.get enc K_CF = some (.dict (cfDict fs))) : getCryptFilters enc = fs := by
  unfold getCryptFilters
  rw [h]
  simp only [Option.bind_some, Obj.asDict, cfDict_eq fs hn]
  exact readback_cfEntries fs

/-- what `decode` reads of the names and filters in the dictionary `encode` wrote -/
theorem names_encode (st : EncState) (h : StateOK st) :
    (if st.version < 4 then [] else getCryptFilters st.encode) = st.cryptFilters ∧
    (if (st.version = 4 || st.version = 5) then ((Dict.get st.encode K_STMF).bind Obj.asName).getD [] else []) = st.stmF ∧
    (if (st.version = 4 || st.version = 5) then ((Dict.get st.encode K_STRF).bind Obj.asName).getD [] else []) = st.strF := by
  obtain ⟨version, revision, keyLength, em, cfs, fileKey, stmF, strF, o, oe, u, ue, perms, pe⟩ := st
  obtain ⟨shape, hem, l4, l6, hp, hnf, hnd⟩ := h
  simp only at shape hem l4 l6 hp hnf hnd
  rcases shape with ⟨hv, hr, hk⟩ | ⟨hv, hr, l, hk, hl8, h40, h128⟩ | ⟨hv, hr, hk⟩ | ⟨hv, hr, hk⟩
  · subst hv hr hk
    obtain ⟨f1, f2, f3⟩ := hnf (by decide)
    subst f1 f2 f3; simp
  · subst hv hr hk
    obtain ⟨f1, f2, f3⟩ := hnf (by decide)
    subst f1 f2 f3; simp
  · subst hv hr hk
    refine ⟨?_, ?_, ?_⟩
    · simp only [show ¬ (4 < 4) by decide, ↓reduceIte]
      apply getCryptFilters_of _ _ hnd
      simp [EncState.encode, Dict.set, Dict.get, K_FILTER, K_V, K_R, K_LENGTH, K_ENCRYPTMETADATA, K_O, K_U, K_P, K_CF, K_STMF, K_STRF, K_OE, K_UE, K_PERMS]
    · simp [EncState.encode, Dict.set, Dict.get, Obj.asName, K_FILTER, K_V, K_R, K_LENGTH, K_ENCRYPTMETADATA, K_O, K_U, K_P, K_CF, K_STMF, K_STRF, K_OE, K_UE, K_PERMS]
    · simp [EncState.encode, Dict.set, Dict.get, Obj.asName, K_FILTER, K_V, K_R, K_LENGTH, K_ENCRYPTMETADATA, K_O, K_U, K_P, K_CF, K_STMF, K_STRF, K_OE, K_UE, K_PERMS]
  · subst hv hk
    rcases hr with hr | hr <;> subst hr
    · refine ⟨?_, ?_, ?_⟩
      · simp only [show ¬ (5 < 4) by decide, ↓reduceIte]
        apply getCryptFilters_of _ _ hnd
        simp [EncState.encode, Dict.set, Dict.get, K_FILTER, K_V, K_R, K_LENGTH, K_ENCRYPTMETADATA, K_O, K_U, K_P, K_CF, K_STMF, K_STRF, K_OE, K_UE, K_PERMS]
      · simp [EncState.encode, Dict.set, Dict.get, Obj.asName, K_FILTER, K_V, K_R, K_LENGTH, K_ENCRYPTMETADATA, K_O, K_U, K_P, K_CF, K_STMF, K_STRF, K_OE, K_UE, K_PERMS]
      · simp [EncState.encode, Dict.set, Dict.get, Obj.asName, K_FILTER, K_V, K_R, K_LENGTH, K_ENCRYPTMETADATA, K_O, K_U, K_P, K_CF, K_STMF, K_STRF, K_OE, K_UE, K_PERMS]
    · refine ⟨?_, ?_, ?_⟩
      · simp only [show ¬ (5 < 4) by decide, ↓reduceIte]
        apply getCryptFilters_of _ _ hnd
        simp [EncState.encode, Dict.set, Dict.get, K_FILTER, K_V, K_R, K_LENGTH, K_ENCRYPTMETADATA, K_O, K_U, K_P, K_CF, K_STMF, K_STRF, K_OE, K_UE, K_PERMS]
      · simp [EncState.encode, Dict.set, Dict.get, Obj.asName, K_FILTER, K_V, K_R, K_LENGTH, K_ENCRYPTMETADATA, K_O, K_U, K_P, K_CF, K_STMF, K_STRF, K_OE, K_UE, K_PERMS]
      · simp [EncState.encode, Dict.set, Dict.get, Obj.asName, K_FILTER, K_V, K_R, K_LENGTH, K_ENCRYPTMETADATA, K_O, K_U, K_P, K_CF, K_STMF, K_STRF, K_OE, K_UE, K_PERMS]

/-- `EncryptionState::decode` on the dictionary `encode` wrote returns the state itself, with the
file key the password yields -/
theorem decodeState_encode (P : Prims) (st : EncState) (h : StateOK st) (fid pw k : Bytes)
    (hk : (algOf st).fileKey P fid pw = .ok k) :
    decodeState P st.encode fid pw = .ok { st with fileKey := k } := by
  obtain ⟨n1, n2, n3⟩ := names_encode st h
  have ha := algOfDict_encode st h
  obtain ⟨version, revision, keyLength, em, cfs, fileKey, stmF, strF, o, oe, u, ue, perms, pe⟩ := st
  simp only [algOf] at hk ha n1 n2 n3
  unfold decodeState
  simp only [ha, hk, n1, n2, n3]

theorem filterName_encode (st : EncState) :
    (Dict.get st.encode K_FILTER).bind Obj.asName = some K_STANDARD := by
  unfold EncState.encode
  cases st.keyLength <;> by_cases h4 : st.version ≥ 4 <;> by_cases r4 : st.revision ≥ 4 <;> by_cases r5 : st.revision ≥ 5 <;>
    simp [h4, r4, r5, Dict.set, Dict.get, Obj.asName, K_FILTER, K_V, K_R, K_LENGTH, K_ENCRYPTMETADATA, K_O, K_U, K_P, K_CF, K_STMF, K_STRF, K_OE, K_UE, K_PERMS]


/-! ## Part III — the Encrypt entry bookkeeping of `Document::encrypt` / `decrypt_raw` -/

theorem get_none_not_mem (d : Dict) (k : Bytes) (h : Dict.get d k = none) : k ∉ d.map (·.1) := by
  induction d with
  | nil => simp
  | cons e rest ih =>
    obtain ⟨a, b⟩ := e
    by_cases ha : a = k
    · simp [Dict.get, ha] at h
    · simp only [Dict.get, ha, ↓reduceIte] at h
      simp only [List.map_cons, List.mem_cons, not_or]
      exact ⟨fun e => ha e.symm, ih h⟩

theorem idxOf_append_new (d : Dict) (k : Bytes) (v : Obj) (h : k ∉ d.map (·.1)) :
    Dict.idxOf (d ++ [(k, v)]) k = some d.length := by
  induction d with
  | nil => simp [Dict.idxOf]
  | cons e rest ih =>
    obtain ⟨a, b⟩ := e
    have h1 : ¬ a = k := by intro e; apply h; simp [e]
    have h2 : k ∉ rest.map (·.1) := by intro hm; apply h; simp only [List.map_cons, List.mem_cons]; exact Or.inr hm
    simp [Dict.idxOf, h1, ih h2]

/-- `trailer.set("Encrypt", …)` followed by `trailer.remove("Encrypt")` (swap_remove of the entry that
was appended last) gives back the trailer -/
theorem remove_set_new (d : Dict) (k : Bytes) (v : Obj) (h : Dict.get d k = none) :
    Dict.remove (Dict.set d k v) k = d := by
  have hn := get_none_not_mem d k h
  rw [set_new d k v hn]
  unfold Dict.remove
  rw [idxOf_append_new d k v hn]
  simp

theorem get_insert_self (os : Objects) (id : ObjId) (o : Obj) : Objects.get (Objects.insert os id o) id = some o := by
  induction os with
  | nil => simp [Objects.insert, Objects.get]
  | cons e rest ih =>
    obtain ⟨i, x⟩ := e
    unfold Objects.insert
    by_cases h1 : i = id
    · simp [h1, Objects.get]
    · simp only [h1, ↓reduceIte]
      split
      · simp [Objects.get]
      · simp [Objects.get, h1, ih]

theorem getDictionary_of_dict (os : Objects) (id : ObjId) (e : Dict) (h : Objects.get os id = some (.dict e)) :
    getDictionary os id = some e := by
  simp [getDictionary, getObject, h, deref, derefAux, Obj.asDict]

theorem erase_insert (os : Objects) (id : ObjId) (x : Obj) (h : ∀ e ∈ os, e.1 ≠ id) :
    Objects.erase (Objects.insert os id x) id = os := by
  induction os with
  | nil => simp [Objects.insert, Objects.erase]
  | cons e rest ih =>
    obtain ⟨i, o⟩ := e
    have hi : i ≠ id := h (i, o) (by simp)
    have hrest : ∀ e ∈ rest, e.1 ≠ id := fun e he => h e (by simp [he])
    have hr := ih hrest
    have hfil : List.filter (fun e : ObjId × Obj => !decide (e.1 = id)) rest = rest := by
      apply List.filter_eq_self.mpr; intro e he; simp [hrest e he]
    unfold Objects.insert
    simp only [hi, ↓reduceIte]
    split
    · simp [Objects.erase, hi, hfil]
    · simp [Objects.erase] at hr ⊢
      simp [List.filter_cons, hi, hr]

theorem decObjects_ids (P : Prims) (st : EncState) (skip : Option ObjId) (os r : Objects)
    (h : decObjects P st skip os = .ok r) : r.map (·.1) = os.map (·.1) := by
  induction os generalizing r with
  | nil => simp [decObjects] at h; subst h; rfl
  | cons e rest ih =>
    obtain ⟨i, o⟩ := e
    simp only [decObjects] at h
    split at h
    · cases h
    · split at h
      · cases h
      · rename_i rest' hr
        injection h with h; subst h
        simp [ih _ hr]

/-- the loop of `decrypt_raw` over the objects with the (skipped) Encrypt object inserted = the loop
over the objects, with the Encrypt object inserted afterwards -/
theorem decObjects_insert (P : Prims) (st : EncState) (id : ObjId) (x : Obj) (os r : Objects)
    (hf : ∀ e ∈ os, e.1 ≠ id) (h : decObjects P st (some id) os = .ok r) :
    decObjects P st (some id) (Objects.insert os id x) = .ok (Objects.insert r id x) := by
  induction os generalizing r with
  | nil => simp [decObjects] at h; subst h; simp [Objects.insert, decObjects]
  | cons e rest ih =>
    obtain ⟨i, o⟩ := e
    have hi : i ≠ id := hf (i, o) (by simp)
    have hi' : ¬ (some i = some id) := by simpa using hi
    simp only [decObjects, hi', ↓reduceIte] at h
    split at h
    · cases h
    · rename_i o' ho
      split at h
      · cases h
      · rename_i rest' hr
        injection h with h; subst h
        have ihr := ih rest' (fun e he => hf e (by simp [he])) hr
        unfold Objects.insert
        simp only [hi, ↓reduceIte]
        split
        · simp [decObjects, hi', ho, hr]
        · simp [decObjects, hi', ho, ihr]


/-! ### object streams: `decrypt_raw` re-expands them after decrypting -/

mutual
theorem normLen_strip (st : EncState) (o : Obj) : strip (normLen st o) = strip o := by
  match o with
  | .arr items => simp [normLen, strip, normLenList_strip st items]
  | .dict es =>
    simp only [normLen]
    split
    · rfl
    · simp [strip, normLenDict_strip st es]
  | .stream d c =>
    simp only [normLen]
    split
    · rfl
    · split
      · simp [strip, normLenDict_strip st d]
      · simp [setContent, strip, stripDict_set, set_set, normLenDict_strip st d]
  | .null | .bool _ | .int _ | .real _ | .name _ | .ref _ _ | .str _ _ => simp [normLen]
theorem normLenList_strip (st : EncState) (os : List Obj) : stripList (normLenList st os) = stripList os := by
  match os with
  | [] => rfl
  | o :: rest => simp [normLenList, stripList, normLen_strip st o, normLenList_strip st rest]
theorem normLenDict_strip (st : EncState) (es : List (Bytes × Obj)) : stripDict (normLenDict st es) = stripDict es := by
  match es with
  | [] => rfl
  | (k, o) :: rest => simp [normLenDict, stripDict, normLen_strip st o, normLenDict_strip st rest]
end

theorem isObjStm_strip (o : Obj) : isObjStmStream (strip o) = isObjStmStream o := by
  cases o <;> simp [strip, isObjStmStream, hasType_setLength, hasType_strip]

theorem isObjStm_normLen (st : EncState) (o : Obj) : isObjStmStream (normLen st o) = isObjStmStream o := by
  rw [← isObjStm_strip, normLen_strip, isObjStm_strip]

theorem extras_nil (os : Objects) (h : ∀ e ∈ os, isObjStmStream e.2 = false) : objStmExtras os = some [] := by
  induction os with
  | nil => rfl
  | cons e rest ih =>
    obtain ⟨i, o⟩ := e
    have h1 : isObjStmStream o = false := h (i, o) (by simp)
    have h2 := ih (fun e he => h e (by simp [he]))
    cases o <;> simp_all [objStmExtras, isObjStmStream]

theorem mem_insert (os : Objects) (id : ObjId) (x : Obj) (e : ObjId × Obj) (h : e ∈ Objects.insert os id x) :
    e = (id, x) ∨ e ∈ os := by
  induction os with
  | nil => simp [Objects.insert] at h; exact Or.inl h
  | cons e' rest ih =>
    obtain ⟨i, o⟩ := e'
    unfold Objects.insert at h
    split at h
    · simp at h; rcases h with h | h
      · exact Or.inl h
      · exact Or.inr (by simp [h])
    · split at h
      · simp at h; rcases h with h | h | h
        · exact Or.inl h
        · exact Or.inr (by simp [h])
        · exact Or.inr (by simp [h])
      · simp at h; rcases h with h | h
        · exact Or.inr (by simp [h])
        · rcases ih h with h | h
          · exact Or.inl h
          · exact Or.inr (by simp [h])

theorem get_insert_ne (os : Objects) (id id' : ObjId) (x : Obj) (h : id' ≠ id) :
    Objects.get (Objects.insert os id x) id' = Objects.get os id' := by
  induction os with
  | nil => simp [Objects.insert, Objects.get, Ne.symm h]
  | cons e rest ih =>
    obtain ⟨i, o⟩ := e
    unfold Objects.insert
    split
    · rename_i hi; subst hi; simp [Objects.get, Ne.symm h]
    · split
      · simp [Objects.get, Ne.symm h]
      · by_cases hi : i = id' <;> simp [Objects.get, hi, ih]

/-- **members of object streams never replace or remove an existing object**: whatever the containers
hold, every object that was there before the re-expansion is there afterwards, unchanged -/
theorem orInsertAll_keeps (os : Objects) (extras : List (ObjId × Obj)) (id : ObjId) (o : Obj)
    (h : Objects.get os id = some o) : Objects.get (orInsertAll os extras) id = some o := by
  induction extras generalizing os with
  | nil => exact h
  | cons e rest ih =>
    obtain ⟨i, x⟩ := e
    simp only [orInsertAll]
    apply ih
    split
    · exact h
    · rename_i hnone
      have hne : id ≠ i := by
        intro e; subst e; simp [h] at hnone
      rw [get_insert_ne _ _ _ _ hne]; exact h

/-! ## the document-level round trip, for any password that authenticates and yields the file key -/

/-- the document `decrypt_raw` must give back: every object up to `normLen` (Length of processed
streams), the trailer as it was, `max_id` one higher (the Encrypt object's number stays used) -/
def restored (st : EncState) (d : Doc) : Doc :=
  { trailer := d.trailer, objects := d.objects.map (fun e => (e.1, normLen st e.2)), maxId := d.maxId + 1 }

theorem fileId_set (d : Doc) (v : Obj) :
    ({ trailer := Dict.set d.trailer K_ENCRYPT v, objects := d.objects, maxId := d.maxId } : Doc).fileId = d.fileId := by
  simp [Doc.fileId, get_set_ne d.trailer K_ENCRYPT K_ID v (by decide)]

theorem doc_rt (P : Prims) (d enc : Doc) (st : EncState) (ivs : IVs) (pw : Bytes)
    (hk : ∀ key, BlockOK P key) (hiv : ∀ n, (ivs n).length = 16)
    (hst : StateOK st)
    (htr : Dict.get d.trailer K_ENCRYPT = none)
    (hfresh : ∀ e ∈ d.objects, e.1 ≠ (d.maxId + 1, 0))
    (hfid : st.revision ≤ 4 → d.fileId.isSome = true)
    (hnos : ∀ e ∈ d.objects, isObjStmStream e.2 = false)
    (henc : d.encrypt P st ivs = .ok enc)
    (hauth : (algOf st).authAny P (d.fileId.getD []) pw = .ok ())
    (hkey : (algOf st).fileKey P (d.fileId.getD []) pw = .ok st.fileKey) :
    enc.decryptRaw P pw = .ok (restored st d) := by
  unfold Doc.encrypt at henc
  split at henc
  · cases henc
  · split at henc
    · cases henc
    · rename_i os k' hobj
      injection henc with henc
      -- the encrypted document
      have hfid' : enc.fileId = d.fileId := by
        rw [← henc]; simp [Doc.fileId, get_set_ne d.trailer K_ENCRYPT K_ID _ (by decide)]
      have htrget : Dict.get enc.trailer K_ENCRYPT = some (.ref (d.maxId + 1) 0) := by
        rw [← henc]; exact get_set_eq _ _ _
      have hget : enc.getEncrypted = some st.encode := by
        unfold Doc.getEncrypted
        rw [htrget]
        simp only [Obj.asRef, Option.bind_some]
        apply getDictionary_of_dict
        rw [← henc]; exact get_insert_self _ _ _
      -- the object walk
      have hids : os.map (·.1) = d.objects.map (·.1) := by
        have := encObjects_ids P st ivs d.objects 0 _ hobj; simpa using this
      have hfresh' : ∀ e ∈ os, e.1 ≠ (d.maxId + 1, 0) := by
        intro e he habs
        have : e.1 ∈ os.map (·.1) := List.mem_map_of_mem he
        rw [hids] at this
        obtain ⟨e', he', hee⟩ := List.mem_map.mp this
        exact hfresh e' he' (by rw [hee, habs])
      have hdec := objects_rt P st ivs hk hiv (some (d.maxId + 1, 0)) d.objects 0 _ hobj
        (by intro e he habs; injection habs with habs; exact hfresh e he habs)
      simp only at hdec
      have hdec' := decObjects_insert P st (d.maxId + 1, 0) (.dict st.encode) os _ hfresh' hdec
      have hrev : (algOf st).revision = st.revision := rfl
      unfold Doc.decryptRaw
      simp only [hget, hfid', algOfDict_encode st hst, filterName_encode, hauth,
        decodeState_encode P st hst _ pw st.fileKey hkey, htrget, Obj.asRef, Option.bind_some]
      have hmiss : (decide ((algOf st).revision ≤ 4) && d.fileId.isNone) = false := by
        by_cases h4 : st.revision ≤ 4
        · have := hfid h4; cases hd : d.fileId <;> simp_all
        · simp [hrev, h4]
      simp only [hmiss]
      have hsame : ({ st with fileKey := st.fileKey } : EncState) = st := rfl
      rw [hsame, ← henc]
      simp only [hdec']
      have hex : objStmExtras (Objects.insert (List.map (fun e => (e.1, normLen st e.2)) d.objects) (d.maxId + 1, 0)
          (.dict st.encode)) = some [] := by
        apply extras_nil
        intro e he
        rcases mem_insert _ _ _ _ he with h | h
        · rw [h]; rfl
        · obtain ⟨e', he', hee⟩ := List.mem_map.mp h
          rw [← hee]; simp only [isObjStm_normLen]; exact hnos e' he'
      simp only [hex, orInsertAll]
      have hmap : ∀ e ∈ d.objects.map (fun e => (e.1, normLen st e.2)), e.1 ≠ (d.maxId + 1, 0) := by
        intro e he
        obtain ⟨e', he', hee⟩ := List.mem_map.mp he
        rw [← hee]; exact hfresh e' he'
      simp [restored, erase_insert _ _ _ hmap, remove_set_new d.trailer K_ENCRYPT _ htr]


/-! ## Part II — the states `try_from` builds: well-formed, the passwords authenticate and yield the key -/

structure PrimsOK (P : Prims) : Prop where
  block : ∀ key, BlockOK P key
  md5_len : ∀ x, (P.md5 x).length = 16
  sha256_len : ∀ x, (P.sha256 x).length = 32
  sha384_len : ∀ x, 32 ≤ (P.sha384 x).length
  sha512_len : ∀ x, 32 ≤ (P.sha512 x).length

theorem rc4Up_length (k : Bytes) (cnt i : Nat) (d : Bytes) : (rc4Up k cnt i d).length = d.length := by
  induction cnt generalizing i d with
  | zero => rfl
  | succ n ih => simp [rc4Up, ih, rc4_length]

theorem computeO_length (P : Prims) (a : Alg) (o u r : Bytes) (h : a.computeO P o u = .ok r) : r.length = 32 := by
  unfold Alg.computeO at h
  split at h
  · cases h
  · injection h with h; subst h
    split <;> simp [rc4Up_length, rc4_length, padPw_length]

theorem fileKeyR4_indep (P : Prims) (a b : Alg) (fid pw : Bytes)
    (h1 : a.revision = b.revision) (h2 : a.length = b.length) (h3 : a.ownerValue = b.ownerValue)
    (h4 : a.permissions = b.permissions) (h5 : a.encryptMetadata = b.encryptMetadata) :
    a.fileKeyR4 P fid pw = b.fileKeyR4 P fid pw := by
  simp [Alg.fileKeyR4, h1, h2, h3, h4, h5]


/-- the common body of the V1 / V2 / V4 arms of `EncryptionState::try_from` -/
def build4 (P : Prims) (version revision : Nat) (length : Option Nat) (em : Bool)
    (cfs : List (Bytes × CF)) (stmF strF : Bytes) (perms : Nat) (owner user fid uTail : Bytes) : Except Err EncState :=
  let a0 : Alg := { encryptMetadata := em, length := length, version := version, revision := revision,
                    ownerValue := [], ownerEncrypted := [], userValue := [], userEncrypted := [],
                    permissions := perms, permsEncrypted := [] }
  match a0.computeO P owner user with
  | .error e => .error e
  | .ok o =>
    let a1 := { a0 with ownerValue := o }
    match (if revision = 2 then a1.computeU2 P fid user
           else (a1.computeU34 P fid user).map (fun u => u ++ uTail.take 16)) with
    | .error e => .error e
    | .ok u =>
      match a1.fileKeyR4 P fid user with
      | .error e => .error e
      | .ok k =>
        .ok { version := version, revision := revision, keyLength := length, encryptMetadata := em,
              cryptFilters := cfs, fileKey := k, stmF := stmF, strF := strF,
              ownerValue := o, ownerEncrypted := [], userValue := u, userEncrypted := [],
              permissions := perms, permsEncrypted := [] }

theorem stateOfConfig_v1 (P : Prims) (c : Config) (fid : Bytes) (rnd : Rand) (hv : c.ver = .v1) :
    stateOfConfig P c fid rnd = build4 P 1 2 none true [] [] [] c.permissions c.ownerPw c.userPw fid rnd.uTail := by
  simp only [stateOfConfig, hv, build4]
  first | rfl | (simp; rfl) | simp
theorem stateOfConfig_v2 (P : Prims) (c : Config) (fid : Bytes) (rnd : Rand) (l : Nat) (hv : c.ver = .v2 l) :
    stateOfConfig P c fid rnd = build4 P 2 3 (some l) true [] [] [] c.permissions c.ownerPw c.userPw fid rnd.uTail := by
  simp only [stateOfConfig, hv, build4]
  first | rfl | (simp; rfl) | simp
theorem stateOfConfig_v4 (P : Prims) (c : Config) (fid : Bytes) (rnd : Rand) (hv : c.ver = .v4) :
    stateOfConfig P c fid rnd =
      build4 P 4 4 (some 128) c.encryptMetadata c.cryptFilters c.stmF c.strF c.permissions c.ownerPw c.userPw fid rnd.uTail := by
  simp only [stateOfConfig, hv, build4]
  first | rfl | (simp; rfl) | simp

/-- what a state built by the R2–R4 arms satisfies -/
structure Built4 (P : Prims) (st : EncState) (owner user fid : Bytes) : Prop where
  lenO : st.ownerValue.length = 32
  lenU : st.userValue.length = 32
  empties : st.ownerEncrypted = [] ∧ st.userEncrypted = [] ∧ st.permsEncrypted = []
  hO : (algOf st).computeO P owner user = .ok st.ownerValue
  hU : (algOf st).authUserR4 P fid user = .ok ()
  hK : (algOf st).fileKeyR4 P fid user = .ok st.fileKey

theorem build4_facts (P : Prims) (hP : PrimsOK P) (version revision : Nat) (length : Option Nat) (em : Bool)
    (cfs : List (Bytes × CF)) (stmF strF : Bytes) (perms : Nat) (owner user fid uTail : Bytes) (st : EncState)
    (hr : revision = 2 ∨ revision = 3 ∨ revision = 4) (hut : 16 ≤ uTail.length)
    (hb : build4 P version revision length em cfs stmF strF perms owner user fid uTail = .ok st) :
    st.version = version ∧ st.revision = revision ∧ st.keyLength = length ∧ st.encryptMetadata = em ∧
    st.cryptFilters = cfs ∧ st.stmF = stmF ∧ st.strF = strF ∧ st.permissions = perms ∧ Built4 P st owner user fid := by
  by_cases h2 : revision = 2
  · simp only [build4, h2, ↓reduceIte] at hb
    split at hb
    · cases hb
    · rename_i o hO
      split at hb
      · cases hb
      · rename_i u hU
        split at hb
        · cases hb
        · rename_i k hK
          injection hb with hb; subst hb
          refine ⟨rfl, h2.symm, rfl, rfl, rfl, rfl, rfl, rfl, ?_⟩
          have hOlen := computeO_length P _ _ _ _ hO
          have hUk : u = rc4 k PAD_BYTES := by
            unfold Alg.computeU2 at hU; rw [hK] at hU; injection hU with hU; exact hU.symm
          have hUlen : u.length = 32 := by rw [hUk, rc4_length]; decide
          refine ⟨hOlen, hUlen, ⟨rfl, rfl, rfl⟩, ?_, ?_, ?_⟩
          · simpa [algOf, Alg.computeO, Alg.ownerKey] using hO
          · simp only [algOf]
            unfold Alg.fileKeyR4 at hK
            simp only [Alg.authUserR4, ↓reduceIte, Alg.computeU2, Alg.fileKeyR4, hK]
            simp [← hUk]
          · simp only [algOf]; rw [← hK]; exact fileKeyR4_indep P _ _ fid user rfl rfl rfl rfl rfl
  · have h34 : revision = 3 ∨ revision = 4 := by omega
    simp only [build4, h2, ↓reduceIte] at hb
    split at hb
    · cases hb
    · rename_i o hO
      split at hb
      · cases hb
      · rename_i u hU
        split at hb
        · cases hb
        · rename_i k hK
          injection hb with hb; subst hb
          refine ⟨rfl, rfl, rfl, rfl, rfl, rfl, rfl, rfl, ?_⟩
          have hOlen := computeO_length P _ _ _ _ hO
          have hU16 : ∃ u16, u = u16 ++ uTail.take 16 ∧ u16.length = 16 ∧
              u16 = rc4Up k RC4_ROUNDS 1 (rc4 k (P.md5 (PAD_BYTES ++ fid))) := by
            unfold Alg.computeU34 at hU; rw [hK] at hU
            simp only [Except.map] at hU
            injection hU with hU
            exact ⟨_, hU.symm, by simp [rc4Up_length, rc4_length, hP.md5_len], rfl⟩
          obtain ⟨u16, hu, hu16, hu16def⟩ := hU16
          have hUlen : u.length = 32 := by rw [hu]; simp [hu16]; omega
          refine ⟨hOlen, hUlen, ⟨rfl, rfl, rfl⟩, ?_, ?_, ?_⟩
          · simpa [algOf, Alg.computeO, Alg.ownerKey] using hO
          · simp only [algOf]
            unfold Alg.fileKeyR4 at hK
            simp only [Alg.authUserR4, h2, ↓reduceIte, Alg.computeU34, Alg.fileKeyR4, hK]
            have h34' : (decide (revision = 3) || decide (revision = 4)) = true := by
              rcases h34 with h | h <;> simp [h]
            simp only [h34', ↓reduceIte]
            have : ¬ (u.length < 16) := by omega
            simp only [this, ↓reduceIte, ← hu16def]
            rw [hu, List.take_append_of_le_length (by omega)]
            simp
          · simp only [algOf]; rw [← hK]; exact fileKeyR4_indep P _ _ fid user rfl rfl rfl rfl rfl


/-- the V1 / V2 / V4 configurations the property quantifies over -/
def Cfg4 (c : Config) : Prop :=
  c.ver = .v1 ∨ (∃ l, c.ver = .v2 l ∧ l % 8 = 0 ∧ 40 ≤ l ∧ l ≤ 128) ∨ c.ver = .v4

theorem state4_ok (P : Prims) (hP : PrimsOK P) (c : Config) (fid : Bytes) (rnd : Rand) (st : EncState)
    (hv : Cfg4 c) (hst : stateOfConfig P c fid rnd = .ok st) (hut : 16 ≤ rnd.uTail.length)
    (hperm : c.permissions &&& PERM_ALL = c.permissions) (hnd : (c.cryptFilters.map (·.1)).Nodup) :
    StateOK st ∧ (2 ≤ st.revision ∧ st.revision ≤ 4) ∧ Built4 P st c.ownerPw c.userPw fid := by
  rcases hv with hv | ⟨l, hv, hl8, h40, h128⟩ | hv
  · rw [stateOfConfig_v1 P c fid rnd hv] at hst
    obtain ⟨e1, e2, e3, e4, e5, e6, e7, e8, hb⟩ := build4_facts P hP _ _ _ _ _ _ _ _ _ _ _ _ st (Or.inl rfl) hut hst
    refine ⟨⟨Or.inl ⟨e1, e2, e3⟩, fun _ => e4, fun _ => ⟨hb.lenO, hb.lenU, hb.empties⟩, fun h => by omega, by rw [e8]; exact hperm,
      fun _ => ⟨e5, e6, e7⟩, by rw [e5]; simp⟩, by omega, hb⟩
  · rw [stateOfConfig_v2 P c fid rnd l hv] at hst
    obtain ⟨e1, e2, e3, e4, e5, e6, e7, e8, hb⟩ := build4_facts P hP _ _ _ _ _ _ _ _ _ _ _ _ st (Or.inr (Or.inl rfl)) hut hst
    refine ⟨⟨Or.inr (Or.inl ⟨e1, e2, l, e3, hl8, h40, h128⟩), fun _ => e4, fun _ => ⟨hb.lenO, hb.lenU, hb.empties⟩, fun h => by omega,
      by rw [e8]; exact hperm, fun _ => ⟨e5, e6, e7⟩, by rw [e5]; simp⟩, by omega, hb⟩
  · rw [stateOfConfig_v4 P c fid rnd hv] at hst
    obtain ⟨e1, e2, e3, e4, e5, e6, e7, e8, hb⟩ := build4_facts P hP _ _ _ _ _ _ _ _ _ _ _ _ st (Or.inr (Or.inr rfl)) hut hst
    refine ⟨⟨Or.inr (Or.inr (Or.inl ⟨e1, e2, e3⟩)), fun h => by omega, fun _ => ⟨hb.lenO, hb.lenU, hb.empties⟩, fun h => by omega,
      by rw [e8]; exact hperm, fun h => by omega, by rw [e5]; exact hnd⟩, by omega, hb⟩

/-- **doc_rt_user, revisions 2–4.**  For every document, every V1 / V2 (40…128) / V4 configuration
(any crypt-filter assignment), every password pair, file identifier and random bytes:
`decrypt_raw(user password)` after `encrypt` restores every object (up to the `Length` of processed
streams), the trailer and removes the encryption dictionary.  Hypotheses: the primitives' (`PrimsOK`),
well-formedness of the input document, and that the user password does not accidentally pass the
owner test with a different recovered password (`hno`; automatic when there is no owner password or
owner = user). -/
theorem doc_rt_user_r234 (P : Prims) (hP : PrimsOK P) (d enc : Doc) (c : Config) (fid : Bytes) (rnd : Rand)
    (st : EncState) (ivs : IVs) (hv : Cfg4 c)
    (hfid : d.fileId = some fid) (hst : stateOfConfig P c fid rnd = .ok st) (hut : 16 ≤ rnd.uTail.length)
    (hperm : c.permissions &&& PERM_ALL = c.permissions) (hnd : (c.cryptFilters.map (·.1)).Nodup)
    (hiv : ∀ n, (ivs n).length = 16) (htr : Dict.get d.trailer K_ENCRYPT = none)
    (hfresh : ∀ e ∈ d.objects, e.1 ≠ (d.maxId + 1, 0))
    (hnos : ∀ e ∈ d.objects, isObjStmStream e.2 = false) (henc : d.encrypt P st ivs = .ok enc)
    (hno : okB ((algOf st).authUserR4 P fid ((algOf st).recoverUser P c.userPw)) = false ∨
           effOwner c.ownerPw c.userPw = c.userPw) :
    enc.decryptRaw P c.userPw = .ok (restored st d) := by
  obtain ⟨hok, hr, hb⟩ := state4_ok P hP c fid rnd st hv hst hut hperm hnd
  have hrev : (decide (2 ≤ (algOf st).revision) && decide ((algOf st).revision ≤ 4)) = true := by
    simp [algOf, hr.1, hr.2]
  apply doc_rt P d enc st ivs c.userPw hP.block hiv hok htr hfresh (fun _ => by simp [hfid]) hnos henc
  · rw [hfid]; apply authAny_ok_of_user; unfold Alg.authUser; simp only [hrev, ↓reduceIte]; exact hb.hU
  · rw [hfid]; simp only [Option.getD_some]
    rcases hno with hno | hno
    · rw [user_key_r234 P (algOf st) fid c.userPw hr hno]; exact hb.hK
    · have := owner_key_r234 P (algOf st) fid c.ownerPw c.userPw hr hb.hO hb.hU
      rw [hno] at this; rw [this]; exact hb.hK

/-- **doc_rt_owner, revisions 2–4** (F-C05-a repaired): the same with the owner password (the user
password when no owner password was given) — no coincidence hypothesis needed. -/
theorem doc_rt_owner_r234_restores (P : Prims) (hP : PrimsOK P) (d enc : Doc) (c : Config) (fid : Bytes) (rnd : Rand)
    (st : EncState) (ivs : IVs) (hv : Cfg4 c)
    (hfid : d.fileId = some fid) (hst : stateOfConfig P c fid rnd = .ok st) (hut : 16 ≤ rnd.uTail.length)
    (hperm : c.permissions &&& PERM_ALL = c.permissions) (hnd : (c.cryptFilters.map (·.1)).Nodup)
    (hiv : ∀ n, (ivs n).length = 16) (htr : Dict.get d.trailer K_ENCRYPT = none)
    (hfresh : ∀ e ∈ d.objects, e.1 ≠ (d.maxId + 1, 0))
    (hnos : ∀ e ∈ d.objects, isObjStmStream e.2 = false) (henc : d.encrypt P st ivs = .ok enc) :
    enc.decryptRaw P (effOwner c.ownerPw c.userPw) = .ok (restored st d) := by
  obtain ⟨hok, hr, hb⟩ := state4_ok P hP c fid rnd st hv hst hut hperm hnd
  have hrev : (decide (2 ≤ (algOf st).revision) && decide ((algOf st).revision ≤ 4)) = true := by
    simp [algOf, hr.1, hr.2]
  apply doc_rt P d enc st ivs _ hP.block hiv hok htr hfresh (fun _ => by simp [hfid]) hnos henc
  · rw [hfid]; simp only [Option.getD_some]
    unfold Alg.authAny Alg.authOwner
    simp only [hrev, ↓reduceIte, authOwnerR4_of_user P (algOf st) fid c.ownerPw c.userPw hb.hO hb.hU]
  · rw [hfid]; simp only [Option.getD_some]
    rw [owner_key_r234 P (algOf st) fid c.ownerPw c.userPw hr hb.hO hb.hU]; exact hb.hK


/-! ### revisions 5 and 6 -/

/-- `compute_hash` depends on the algorithm state only through its revision -/
def hashRev (P : Prims) (rev : Nat) (pw salt udata : Bytes) : Bytes :=
  if rev = 5 then P.sha256 (pw ++ salt ++ udata) else hash2B P pw salt udata

theorem hash_eq_hashRev (P : Prims) (a : Alg) : a.hash P = hashRev P a.revision := by
  funext pw salt u; rfl

def permsPlainOf (perms : Nat) (em : Bool) (rnd : Bytes) : Bytes :=
  leBytes 8 (pValue perms) ++ [if em then 84 else 70] ++ PERMS_TAG ++ rnd.take 4

/-- the state the R5 / V5 arms of `try_from` build -/
def build6 (P : Prims) (rev : Nat) (c : Config) (rnd : Rand) : EncState :=
  let tu := trunc127 c.userPw
  let to := trunc127 c.ownerPw
  let u := hashRev P rev tu (rnd.uSalts.take 8) [] ++ rnd.uSalts.take 8 ++ slice rnd.uSalts 8 8
  let o := hashRev P rev to (rnd.oSalts.take 8) u ++ rnd.oSalts.take 8 ++ slice rnd.oSalts 8 8
  { version := 5, revision := rev, keyLength := none, encryptMetadata := c.encryptMetadata,
    cryptFilters := c.cryptFilters, fileKey := c.fileKey, stmF := c.stmF, strF := c.strF,
    ownerValue := o, ownerEncrypted := cbc0Enc P (hashRev P rev to (slice rnd.oSalts 8 8) u) c.fileKey,
    userValue := u, userEncrypted := cbc0Enc P (hashRev P rev tu (slice rnd.uSalts 8 8) []) c.fileKey,
    permissions := c.permissions,
    permsEncrypted := P.aesEnc c.fileKey (permsPlainOf c.permissions c.encryptMetadata rnd.permsRnd) }

theorem stateOfConfig_r5 (P : Prims) (c : Config) (fid : Bytes) (rnd : Rand) (hv : c.ver = .r5) (hk : c.fileKey.length = 32) :
    stateOfConfig P c fid rnd = .ok (build6 P 5 c rnd) := by
  simp only [stateOfConfig, hv, hk]
  rfl
theorem stateOfConfig_v5 (P : Prims) (c : Config) (fid : Bytes) (rnd : Rand) (hv : c.ver = .v5) (hk : c.fileKey.length = 32) :
    stateOfConfig P c fid rnd = .ok (build6 P 6 c rnd) := by
  simp only [stateOfConfig, hv, hk]
  rfl


theorem hash2BLoop_len (P : Prims) (hP : PrimsOK P) (pw udata : Bytes) (left round : Nat) (k : Bytes)
    (hk : 32 ≤ k.length) : 32 ≤ (hash2BLoop P pw udata left round k).length := by
  induction left generalizing round k with
  | zero => exact hk
  | succ l ih =>
    have hr : 32 ≤ (hash2BRound P pw udata k).1.length := by
      simp only [hash2BRound]
      split
      · rw [hP.sha256_len]; omega
      · split
        · exact hP.sha384_len _
        · exact hP.sha512_len _
    simp only [hash2BLoop]
    split
    · exact hr
    · exact ih _ _ hr

theorem hashRev_len (P : Prims) (hP : PrimsOK P) (rev : Nat) (x s u : Bytes) : (hashRev P rev x s u).length = 32 := by
  unfold hashRev
  split
  · exact hP.sha256_len _
  · unfold hash2B
    have := hash2BLoop_len P hP x u 287 1 (P.sha256 (x ++ s ++ u)) (by rw [hP.sha256_len]; omega)
    rw [List.length_take]; omega

theorem cbc0_rt (P : Prims) (hP : PrimsOK P) (k d : Bytes) (hd : d.length = 32) : cbc0Dec P k (cbc0Enc P k d) = d := by
  unfold cbc0Dec cbc0Enc
  exact cbc_dec_enc _ _ (hP.block k).enc_len (hP.block k).dec_enc _ d (by simp) (by omega)

theorem cbc0Enc_len (P : Prims) (hP : PrimsOK P) (k d : Bytes) (hd : d.length = 32) : (cbc0Enc P k d).length = 32 := by
  unfold cbc0Enc; rw [cbcEnc_length _ (hP.block k).enc_len]; omega

/-- the 48-byte U / O strings: hash ‖ validation salt ‖ key salt -/
theorem salted (h salts : Bytes) (hh : h.length = 32) (hs : 16 ≤ salts.length) :
    (h ++ salts.take 8 ++ slice salts 8 8).length = 48 ∧
    slice (h ++ salts.take 8 ++ slice salts 8 8) 32 8 = salts.take 8 ∧
    slice (h ++ salts.take 8 ++ slice salts 8 8) 40 8 = slice salts 8 8 ∧
    (h ++ salts.take 8 ++ slice salts 8 8).take 32 = h := by
  have l1 : (salts.take 8).length = 8 := by simp; omega
  have l2 : (slice salts 8 8).length = 8 := by simp [slice]; omega
  refine ⟨by simp [hh, l1, l2], ?_, ?_, ?_⟩
  · unfold slice at *
    rw [List.append_assoc, List.drop_append_of_le_length (by omega), List.drop_of_length_le (by omega)]
    simp [List.take_append_of_le_length, l1]
  · have : (h ++ salts.take 8).length = 40 := by simp [hh, l1]
    unfold slice at *
    rw [List.drop_append_of_le_length (by omega), List.drop_of_length_le (by omega)]
    simp [List.take_take]
  · rw [List.append_assoc, List.take_append_of_le_length (by omega), List.take_of_length_le (by omega)]


theorem validatePerms_plain (P : Prims) (hP : PrimsOK P) (a : Alg) (key rnd : Bytes) (hr : 4 ≤ rnd.length)
    (h : a.permsEncrypted = P.aesEnc key (permsPlainOf a.permissions a.encryptMetadata rnd)) :
    a.validatePerms P key = .ok () := by
  have e : PERMS_TAG = [0x61, 0x64, 0x62] := by decide
  have l8 : (leBytes 8 (pValue a.permissions)).length = 8 := by simp [leBytes]
  have hb : (permsPlainOf a.permissions a.encryptMetadata rnd).length = 16 := by
    simp [permsPlainOf, l8, e]; omega
  unfold Alg.validatePerms
  rw [h, (hP.block key).dec_enc _ hb]
  have s1 : slice (permsPlainOf a.permissions a.encryptMetadata rnd) 9 3 = PERMS_TAG := by
    simp [permsPlainOf, slice, leBytes, e]
  have s2 : (permsPlainOf a.permissions a.encryptMetadata rnd).take 3 = (leBytes 8 (pValue a.permissions)).take 3 := by
    simp [permsPlainOf, leBytes]
  have s3 : slice (permsPlainOf a.permissions a.encryptMetadata rnd) 8 1 = [if a.encryptMetadata then 84 else 70] := by
    simp [permsPlainOf, slice, leBytes, e]
  simp [s1, s2, s3]

/-- the R5 / V5 configurations (and the random bytes `try_from` draws) the property quantifies over -/
structure Cfg6 (c : Config) (rnd : Rand) (rev : Nat) : Prop where
  ver : (c.ver = .r5 ∧ rev = 5) ∨ (c.ver = .v5 ∧ rev = 6)
  key : c.fileKey.length = 32
  us : 16 ≤ rnd.uSalts.length
  os : 16 ≤ rnd.oSalts.length
  pr : 4 ≤ rnd.permsRnd.length
  perm : c.permissions &&& PERM_ALL = c.permissions
  nodup : (c.cryptFilters.map (·.1)).Nodup

theorem build6_ok (P : Prims) (hP : PrimsOK P) (c : Config) (rnd : Rand) (rev : Nat) (h : Cfg6 c rnd rev) :
    StateOK (build6 P rev c rnd) := by
  have hrev : rev = 5 ∨ rev = 6 := by rcases h.ver with ⟨_, r⟩ | ⟨_, r⟩ <;> simp [r]
  have hu := salted (hashRev P rev (trunc127 c.userPw) (rnd.uSalts.take 8) []) rnd.uSalts (hashRev_len P hP _ _ _ _) h.us
  refine ⟨Or.inr (Or.inr (Or.inr ⟨rfl, hrev, rfl⟩)), fun hv => by simp [build6] at hv, fun hr => ?_, fun _ => ?_, h.perm,
    fun hv => by simp [build6] at hv, h.nodup⟩
  · simp only [build6] at hr; omega
  · refine ⟨(salted _ rnd.oSalts (hashRev_len P hP _ _ _ _) h.os).1, hu.1, cbc0Enc_len P hP _ _ h.key, cbc0Enc_len P hP _ _ h.key, ?_⟩
    simp [build6, (hP.block c.fileKey).enc_len]

/-- an algorithm state whose U / UE / O / OE / Perms entries are those Algorithms 8, 9 and 10 (as
coded) produce for the passwords `userPw` / `ownerPw` and the key `key` -/
structure Built6 (P : Prims) (a : Alg) (key userPw ownerPw uS oS rnd : Bytes) : Prop where
  rev : a.revision = 5 ∨ a.revision = 6
  klen : key.length = 32
  us : 16 ≤ uS.length
  os : 16 ≤ oS.length
  pr : 4 ≤ rnd.length
  hU : a.userValue = hashRev P a.revision (trunc127 userPw) (uS.take 8) [] ++ uS.take 8 ++ slice uS 8 8
  hUE : a.userEncrypted = cbc0Enc P (hashRev P a.revision (trunc127 userPw) (slice uS 8 8) []) key
  hO : a.ownerValue = hashRev P a.revision (trunc127 ownerPw) (oS.take 8) a.userValue ++ oS.take 8 ++ slice oS 8 8
  hOE : a.ownerEncrypted = cbc0Enc P (hashRev P a.revision (trunc127 ownerPw) (slice oS 8 8) a.userValue) key
  hPerms : a.permsEncrypted = P.aesEnc key (permsPlainOf a.permissions a.encryptMetadata rnd)

section built6
variable (P : Prims) (hP : PrimsOK P) (a : Alg) (key userPw ownerPw uS oS rnd : Bytes)
variable (hb : Built6 P a key userPw ownerPw uS oS rnd)
include hP hb

theorem dispatch56 (fid pw : Bytes) :
    a.fileKey P fid pw = a.fileKeyR6 P pw ∧ a.authOwner P fid pw = a.authOwnerR6 P pw ∧
    a.authUser P fid pw = a.authUserR6 P pw := by
  have h4 : (decide (2 ≤ a.revision) && decide (a.revision ≤ 4)) = false := by rcases hb.rev with r | r <;> simp [r]
  have h56 : (decide (a.revision = 5) || decide (a.revision = 6)) = true := by rcases hb.rev with r | r <;> simp [r]
  simp [Alg.fileKey, Alg.authOwner, Alg.authUser, h4, h56]

theorem authOwnerR6_built : a.authOwnerR6 P ownerPw = .ok () := by
  have ho := salted _ oS (hashRev_len P hP a.revision (trunc127 ownerPw) (oS.take 8) a.userValue) hb.os
  unfold Alg.authOwnerR6
  rw [hash_eq_hashRev, hb.hO, ho.2.1, ho.2.2.2]
  simp

theorem authUserR6_built : a.authUserR6 P userPw = .ok () := by
  have hu := salted _ uS (hashRev_len P hP a.revision (trunc127 userPw) (uS.take 8) []) hb.us
  unfold Alg.authUserR6
  rw [hash_eq_hashRev, hb.hU, hu.2.1, hu.2.2.2]
  simp

theorem fileKeyR6_owner_built : a.fileKeyR6 P ownerPw = .ok key := by
  have ho := salted _ oS (hashRev_len P hP a.revision (trunc127 ownerPw) (oS.take 8) a.userValue) hb.os
  unfold Alg.fileKeyR6
  simp only [hash_eq_hashRev]
  rw [hb.hO, ho.2.1, ho.2.2.2, ho.2.2.1]
  simp only [↓reduceIte]
  rw [hb.hOE, cbc0_rt P hP _ _ hb.klen]

/-- the user password yields the key too, unless it passes the OWNER test without being (after
truncation) the owner password — a hash coincidence, excluded by hypothesis `hno` -/
theorem fileKeyR6_user_built
    (hno : hashRev P a.revision (trunc127 userPw) (oS.take 8) a.userValue
             = hashRev P a.revision (trunc127 ownerPw) (oS.take 8) a.userValue → trunc127 userPw = trunc127 ownerPw) :
    a.fileKeyR6 P userPw = .ok key := by
  have ho := salted _ oS (hashRev_len P hP a.revision (trunc127 ownerPw) (oS.take 8) a.userValue) hb.os
  have hu := salted _ uS (hashRev_len P hP a.revision (trunc127 userPw) (uS.take 8) []) hb.us
  have hOslice : slice a.ownerValue 32 8 = oS.take 8 := by rw [hb.hO]; exact ho.2.1
  have hOkey : slice a.ownerValue 40 8 = slice oS 8 8 := by rw [hb.hO]; exact ho.2.2.1
  have hOtake : a.ownerValue.take 32 = hashRev P a.revision (trunc127 ownerPw) (oS.take 8) a.userValue := by
    rw [hb.hO]; exact ho.2.2.2
  have hUslice : slice a.userValue 32 8 = uS.take 8 := by rw [hb.hU]; exact hu.2.1
  have hUkey : slice a.userValue 40 8 = slice uS 8 8 := by rw [hb.hU]; exact hu.2.2.1
  have hUtake : a.userValue.take 32 = hashRev P a.revision (trunc127 userPw) (uS.take 8) [] := by
    rw [hb.hU]; exact hu.2.2.2
  unfold Alg.fileKeyR6
  simp only [hash_eq_hashRev, hOslice, hOkey, hOtake, hUslice, hUkey, hUtake]
  split
  · rename_i heq
    rw [hno heq, hb.hOE, cbc0_rt P hP _ _ hb.klen]
  · simp only [↓reduceIte]
    rw [hb.hUE, cbc0_rt P hP _ _ hb.klen, validatePerms_plain P hP a key rnd hb.pr hb.hPerms]

end built6

theorem built6_of_build6 (P : Prims) (c : Config) (rnd : Rand) (rev : Nat) (h : Cfg6 c rnd rev) :
    Built6 P (algOf (build6 P rev c rnd)) c.fileKey c.userPw c.ownerPw rnd.uSalts rnd.oSalts rnd.permsRnd := by
  have hrev : rev = 5 ∨ rev = 6 := by rcases h.ver with ⟨_, r⟩ | ⟨_, r⟩ <;> simp [r]
  exact ⟨hrev, h.key, h.us, h.os, h.pr, rfl, rfl, rfl, rfl, rfl⟩

/-- **doc_rt_owner, revisions 5 and 6**: `decrypt_raw(owner password)` after `encrypt` restores the
document, for every document, configuration, password pair, salts and IVs. -/
theorem doc_rt_owner_r56 (P : Prims) (hP : PrimsOK P) (d enc : Doc) (c : Config) (rnd : Rand) (rev : Nat) (ivs : IVs)
    (h : Cfg6 c rnd rev) (hiv : ∀ n, (ivs n).length = 16) (htr : Dict.get d.trailer K_ENCRYPT = none)
    (hfresh : ∀ e ∈ d.objects, e.1 ≠ (d.maxId + 1, 0))
    (hnos : ∀ e ∈ d.objects, isObjStmStream e.2 = false)
    (henc : d.encrypt P (build6 P rev c rnd) ivs = .ok enc) :
    enc.decryptRaw P c.ownerPw = .ok (restored (build6 P rev c rnd) d) := by
  have hrev : rev = 5 ∨ rev = 6 := by rcases h.ver with ⟨_, r⟩ | ⟨_, r⟩ <;> simp [r]
  have hb := built6_of_build6 P c rnd rev h
  have hd := dispatch56 P hP _ _ _ _ _ _ _ hb
  apply doc_rt P d enc _ ivs c.ownerPw hP.block hiv (build6_ok P hP c rnd rev h) htr hfresh
    (fun hr => by simp only [build6] at hr; omega) hnos henc
  · unfold Alg.authAny
    rw [(hd _ _).2.1, authOwnerR6_built P hP _ _ _ _ _ _ _ hb]
  · rw [(hd _ _).1]; exact fileKeyR6_owner_built P hP _ _ _ _ _ _ _ hb

/-- **doc_rt_user, revisions 5 and 6**: the same with the user password (hypothesis `hno`: the user
password does not pass the owner test unless it is the owner password — no hash coincidence). -/
theorem doc_rt_user_r56 (P : Prims) (hP : PrimsOK P) (d enc : Doc) (c : Config) (rnd : Rand) (rev : Nat) (ivs : IVs)
    (h : Cfg6 c rnd rev) (hiv : ∀ n, (ivs n).length = 16) (htr : Dict.get d.trailer K_ENCRYPT = none)
    (hfresh : ∀ e ∈ d.objects, e.1 ≠ (d.maxId + 1, 0))
    (hnos : ∀ e ∈ d.objects, isObjStmStream e.2 = false)
    (henc : d.encrypt P (build6 P rev c rnd) ivs = .ok enc)
    (hno : hashRev P rev (trunc127 c.userPw) (rnd.oSalts.take 8) (build6 P rev c rnd).userValue
             = hashRev P rev (trunc127 c.ownerPw) (rnd.oSalts.take 8) (build6 P rev c rnd).userValue →
           trunc127 c.userPw = trunc127 c.ownerPw) :
    enc.decryptRaw P c.userPw = .ok (restored (build6 P rev c rnd) d) := by
  have hb := built6_of_build6 P c rnd rev h
  have hd := dispatch56 P hP _ _ _ _ _ _ _ hb
  apply doc_rt P d enc _ ivs c.userPw hP.block hiv (build6_ok P hP c rnd rev h) htr hfresh
    (fun hr => by have hrev : rev = 5 ∨ rev = 6 := by (rcases h.ver with ⟨_, r⟩ | ⟨_, r⟩ <;> simp [r])
                  simp only [build6] at hr; omega) hnos henc
  · apply authAny_ok_of_user
    rw [(hd _ _).2.2]; exact authUserR6_built P hP _ _ _ _ _ _ _ hb
  · rw [(hd _ _).1]; exact fileKeyR6_user_built P hP _ _ _ _ _ _ _ hb hno


/-- the same two theorems stated on the result of `try_from` (`stateOfConfig`) -/
theorem doc_rt_r56_of_config (P : Prims) (hP : PrimsOK P) (d enc : Doc) (c : Config) (fid : Bytes) (rnd : Rand)
    (rev : Nat) (st : EncState) (ivs : IVs)
    (h : Cfg6 c rnd rev) (hst : stateOfConfig P c fid rnd = .ok st)
    (hiv : ∀ n, (ivs n).length = 16) (htr : Dict.get d.trailer K_ENCRYPT = none)
    (hfresh : ∀ e ∈ d.objects, e.1 ≠ (d.maxId + 1, 0))
    (hnos : ∀ e ∈ d.objects, isObjStmStream e.2 = false) (henc : d.encrypt P st ivs = .ok enc) :
    enc.decryptRaw P c.ownerPw = .ok (restored st d) ∧
    ((hashRev P rev (trunc127 c.userPw) (rnd.oSalts.take 8) st.userValue
        = hashRev P rev (trunc127 c.ownerPw) (rnd.oSalts.take 8) st.userValue → trunc127 c.userPw = trunc127 c.ownerPw) →
      enc.decryptRaw P c.userPw = .ok (restored st d)) := by
  have hst' : st = build6 P rev c rnd := by
    rcases h.ver with ⟨hv, hr⟩ | ⟨hv, hr⟩
    · rw [stateOfConfig_r5 P c fid rnd hv h.key] at hst; injection hst with hst; rw [← hst, hr]
    · rw [stateOfConfig_v5 P c fid rnd hv h.key] at hst; injection hst with hst; rw [← hst, hr]
  subst hst'
  exact ⟨doc_rt_owner_r56 P hP d enc c rnd rev ivs h hiv htr hfresh hnos henc,
         fun hno => doc_rt_user_r56 P hP d enc c rnd rev ivs h hiv htr hfresh hnos henc hno⟩

/-- non-vacuity: the witness instance of the primitives satisfies `PrimsOK` -/
theorem toy_primsOK : PrimsOK toy :=
  ⟨toy_blockOK, fun x => by simp [toy, fit], fun x => by simp [toy, fit], fun x => by simp [toy, fit],
   fun x => by simp [toy, fit]⟩


/-! ### documents that hold object streams -/

theorem get_erase_ne (os : Objects) (id id' : ObjId) (h : id' ≠ id) :
    Objects.get (Objects.erase os id) id' = Objects.get os id' := by
  induction os with
  | nil => rfl
  | cons e rest ih =>
    obtain ⟨i, o⟩ := e
    simp [Objects.erase] at ih ⊢
    by_cases hi : i = id
    · subst hi
      have : ¬ (i = id') := fun e => h e.symm
      simp [List.filter_cons, Objects.get, this, ih]
    · by_cases hi' : i = id'
      · subst hi'; simp [List.filter_cons, hi, Objects.get]
      · simp [List.filter_cons, hi, Objects.get, hi', ih]

theorem get_map_of_mem (st : EncState) (os : Objects) (e : ObjId × Obj) (hn : (os.map (·.1)).Nodup) (he : e ∈ os) :
    Objects.get (os.map (fun e => (e.1, normLen st e.2))) e.1 = some (normLen st e.2) := by
  induction os with
  | nil => cases he
  | cons x rest ih =>
    obtain ⟨i, o⟩ := x
    simp only [List.map_cons, List.nodup_cons] at hn
    rcases List.mem_cons.mp he with h | h
    · subst h; simp [Objects.get]
    · have hne : ¬ (i = e.1) := by
        intro hi; apply hn.1; rw [hi]; exact List.mem_map_of_mem h
      simp [Objects.get, hne, ih hn.2 h]

/-- **doc_rt for documents with object streams.**  Without the "no ObjStm" hypothesis: whatever the
(decrypted) object streams hold, `decrypt_raw` after `encrypt` still gives back EVERY original object
(up to `normLen`), the trailer, and removes the encryption dictionary; the members of the object
streams are only added under ids that were absent (`or_insert`). -/
theorem doc_rt_objstm (P : Prims) (d enc : Doc) (st : EncState) (ivs : IVs) (pw : Bytes)
    (hk : ∀ key, BlockOK P key) (hiv : ∀ n, (ivs n).length = 16)
    (hst : StateOK st)
    (htr : Dict.get d.trailer K_ENCRYPT = none)
    (hfresh : ∀ e ∈ d.objects, e.1 ≠ (d.maxId + 1, 0))
    (hnodup : (d.objects.map (·.1)).Nodup)
    (hfid : st.revision ≤ 4 → d.fileId.isSome = true)
    (henc : d.encrypt P st ivs = .ok enc)
    (hauth : (algOf st).authAny P (d.fileId.getD []) pw = .ok ())
    (hkey : (algOf st).fileKey P (d.fileId.getD []) pw = .ok st.fileKey)
    (extras : List (ObjId × Obj))
    (hex : objStmExtras (Objects.insert (d.objects.map (fun e => (e.1, normLen st e.2))) (d.maxId + 1, 0)
             (.dict st.encode)) = some extras) :
    ∃ d', enc.decryptRaw P pw = .ok d' ∧ d'.trailer = d.trailer ∧
      ∀ e ∈ d.objects, Objects.get d'.objects e.1 = some (normLen st e.2) := by
  unfold Doc.encrypt at henc
  split at henc
  · cases henc
  · split at henc
    · cases henc
    · rename_i os k' hobj
      injection henc with henc
      have hfid' : enc.fileId = d.fileId := by
        rw [← henc]; simp [Doc.fileId, get_set_ne d.trailer K_ENCRYPT K_ID _ (by decide)]
      have htrget : Dict.get enc.trailer K_ENCRYPT = some (.ref (d.maxId + 1) 0) := by
        rw [← henc]; exact get_set_eq _ _ _
      have hget : enc.getEncrypted = some st.encode := by
        unfold Doc.getEncrypted
        rw [htrget]
        simp only [Obj.asRef, Option.bind_some]
        apply getDictionary_of_dict
        rw [← henc]; exact get_insert_self _ _ _
      have hids : os.map (·.1) = d.objects.map (·.1) := by
        have := encObjects_ids P st ivs d.objects 0 _ hobj; simpa using this
      have hfresh' : ∀ e ∈ os, e.1 ≠ (d.maxId + 1, 0) := by
        intro e he habs
        have : e.1 ∈ os.map (·.1) := List.mem_map_of_mem he
        rw [hids] at this
        obtain ⟨e', he', hee⟩ := List.mem_map.mp this
        exact hfresh e' he' (by rw [hee, habs])
      have hdec := objects_rt P st ivs hk hiv (some (d.maxId + 1, 0)) d.objects 0 _ hobj
        (by intro e he habs; injection habs with habs; exact hfresh e he habs)
      simp only at hdec
      have hdec' := decObjects_insert P st (d.maxId + 1, 0) (.dict st.encode) os _ hfresh' hdec
      have hrev : (algOf st).revision = st.revision := rfl
      have hmiss : (decide ((algOf st).revision ≤ 4) && d.fileId.isNone) = false := by
        by_cases h4 : st.revision ≤ 4
        · have := hfid h4; cases hd : d.fileId <;> simp_all
        · simp [hrev, h4]
      have hsame : ({ st with fileKey := st.fileKey } : EncState) = st := rfl
      refine ⟨{ trailer := Dict.remove (Dict.set d.trailer K_ENCRYPT (.ref (d.maxId + 1) 0)) K_ENCRYPT,
                objects := Objects.erase (orInsertAll (Objects.insert (d.objects.map (fun e => (e.1, normLen st e.2)))
                  (d.maxId + 1, 0) (.dict st.encode)) extras) (d.maxId + 1, 0),
                maxId := d.maxId + 1 }, ?_, ?_, ?_⟩
      · unfold Doc.decryptRaw
        simp only [hget, hfid', algOfDict_encode st hst, filterName_encode, hauth,
          decodeState_encode P st hst _ pw st.fileKey hkey, htrget, Obj.asRef, Option.bind_some, hmiss]
        rw [hsame, ← henc]
        simp only [hdec', hex]
        rfl
      · simp [remove_set_new d.trailer K_ENCRYPT _ htr]
      · intro e he
        simp only
        rw [get_erase_ne _ _ _ (hfresh e he)]
        apply orInsertAll_keeps
        rw [get_insert_ne _ _ _ _ (hfresh e he)]
        exact get_map_of_mem st d.objects e hnodup he

end Lopdf.Crypt
