import LopdfModel.Thm.C17
/-
  C17 (2) — `toc_readback`: on a document that embeds the outline of a forest with pairwise distinct
  titles whose target pages are in the page tree, `get_toc` returns the preorder of the forest with
  levels and page numbers (no fuel: the reader terminates by its own guard).
-/
namespace Lopdf.C17
open Lopdf Gen

abbrev IdsTab := List (Bytes × ObjId × Nat)

def entry (e : Nat × List Nat × ObjId) : Bytes × ObjId × Nat := (titleBytes e.2.1, e.2.2, e.1)
def tbOf (e : Nat × List Nat × ObjId) : Bytes := titleBytes e.2.1

theorem tocInsert_absent (m : IdsTab) (k : Bytes) (v : ObjId × Nat) (h : k ∉ m.map (·.1)) :
    Q13.tocInsert k v m = m ++ [(k, v)] := by
  induction m with
  | nil => rfl
  | cons e r ih =>
    obtain ⟨k', v'⟩ := e
    simp only [List.map_cons, List.mem_cons, not_or] at h
    have : ¬ k' = k := fun e => h.1 e.symm
    simp [Q13.tocInsert, this, ih h.2]

theorem tocIdsList_append (lvl : Nat) : ∀ (a b : List Q13.Outline) (acc : IdsTab),
    Q13.tocIdsList lvl (a ++ b) acc =
      match Q13.tocIdsList lvl a acc with
      | none => none
      | some acc' => Q13.tocIdsList lvl b acc' := by
  intro a
  induction a with
  | nil => intro b acc; simp [Q13.tocIdsList]
  | cons o r ih =>
    intro b acc
    simp only [List.cons_append, Q13.tocIdsList]
    cases Q13.tocIdsOne lvl o acc with
    | none => rfl
    | some acc' => exact ih b acc'

/-- `setup_outline_page_ids` on one destination of a built item -/
theorem tocIdsOne_dest (lvl : Nat) (title : List Nat) (page : ObjId) (acc : IdsTab) :
    Q13.tocIdsOne lvl (destOf title page) acc = some (Q13.tocInsert (titleBytes title) (page, lvl) acc) := by
  have h1 : (Q13.mkDest (.str (titleBytes title) .lit) (oref page) (.name OL_FIT)).get Q13.K_Title =
      some (.str (titleBytes title) .lit) := by
    simp only [Q13.mkDest]
    rw [Dict.get_set_ne _ _ _ _ (by decide), Dict.get_set_ne _ _ _ _ (by decide), Dict.get_set_eq]
  have h2 : (Q13.mkDest (.str (titleBytes title) .lit) (oref page) (.name OL_FIT)).get PAGE = some (oref page) := by
    simp only [Q13.mkDest]
    rw [Dict.get_set_ne _ _ _ _ (by decide), Dict.get_set_eq]
  simp only [destOf, Q13.tocIdsOne, h1, h2]
  simp [Obj.asStr, oref, Obj.asRef]

theorem map_entry_keys (l : List (Nat × List Nat × ObjId)) : (l.map entry).map (·.1) = l.map tbOf := by
  induction l with
  | nil => rfl
  | cons e r ih => simp [entry, tbOf, ih]

theorem preL_cons_node (lvl id : Nat) (title : List Nat) (f : Nat) (c : List Bytes) (page : ObjId) (kids r : List BT) :
    BT.preL lvl (.node id title f c page kids :: r) =
      (lvl, title, page) :: (BT.preL (lvl + 1) kids ++ BT.preL lvl r) := by
  simp [BT.preL, BT.pre]

/-- **flattening.** `setup_outline_page_ids` on the outline tree of a forest appends one entry per
bookmark in preorder — (title bytes, page, level) — provided the title bytes are pairwise distinct
and not yet in the table (otherwise `IndexMap::insert` overwrites: F-C17-a). -/
theorem setupIds_out : ∀ (n : Nat) (ts : List BT), BT.sizeL ts ≤ n → ∀ (lvl : Nat) (acc : IdsTab),
    (acc.map (·.1) ++ (BT.preL lvl ts).map tbOf).Nodup →
    Q13.tocIdsList lvl (outL ts) acc = some (acc ++ (BT.preL lvl ts).map entry) := by
  intro n
  induction n with
  | zero =>
    intro ts h; have := BT.sizeL_eq_zero (Nat.le_zero.mp h); subst this
    intro lvl acc _; simp [outL, Q13.tocIdsList, BT.preL]
  | succ n ih =>
    intro ts hsz lvl acc hnd
    cases ts with
    | nil => simp [outL, Q13.tocIdsList, BT.preL]
    | cons t r =>
      cases t with
      | node id title f c page kids =>
        simp only [BT.sizeL, BT.size] at hsz
        rw [preL_cons_node] at hnd ⊢
        simp only [List.map_cons, List.map_append, tbOf] at hnd
        -- K ++ x :: (Tk ++ Tr)
        have hnd' : ((acc.map (·.1) ++ [titleBytes title]) ++ ((BT.preL (lvl + 1) kids).map tbOf ++ (BT.preL lvl r).map tbOf)).Nodup := by
          simpa [tbOf, List.append_assoc] using hnd
        have hx : titleBytes title ∉ acc.map (·.1) := by
          have := (List.nodup_append.mp hnd').1
          have := (List.nodup_append.mp this).2.2
          intro hmem; exact this _ hmem _ (by simp) rfl
        have hins : Q13.tocInsert (titleBytes title) (page, lvl) acc = acc ++ [(titleBytes title, page, lvl)] :=
          tocInsert_absent acc _ _ hx
        have hkeys1 : (acc ++ [(titleBytes title, page, lvl)]).map (·.1) = acc.map (·.1) ++ [titleBytes title] := by simp
        simp only [outL, outN]
        rw [List.cons_append, Q13.tocIdsList]
        simp only [tocIdsOne_dest, hins]
        cases kids with
        | nil =>
          simp only [List.isEmpty_nil, if_true, List.nil_append, BT.preL, List.map_nil, List.nil_append] at hnd' ⊢
          rw [ih r (by omega) lvl _ (by rw [hkeys1]; exact hnd')]
          simp [entry, List.append_assoc]
        | cons k ks =>
          simp only [List.isEmpty_cons, Bool.false_eq_true, if_false, List.cons_append, List.nil_append, Q13.tocIdsList, Q13.tocIdsOne]
          have hk := ih (k :: ks) (by simp only [BT.sizeL] at hsz ⊢; omega) (lvl + 1) (acc ++ [(titleBytes title, page, lvl)])
            (by
              rw [hkeys1]
              refine List.Nodup.sublist ?_ hnd'
              exact List.Sublist.append (List.Sublist.refl _) (List.sublist_append_left _ _))
          rw [hk]
          simp only
          rw [ih r (by omega) lvl _ (by
            simp only [List.map_append, map_entry_keys, hkeys1]
            simpa [List.append_assoc] using hnd')]
          simp [entry, List.append_assoc]

/-! ## page numbers -/

/-- 0-based position of the first occurrence -/
def pageIndex : List ObjId → ObjId → Nat
  | [], _ => 0
  | q :: r, p => if q = p then 0 else pageIndex r p + 1

theorem pageNumIn_none (pages : List ObjId) (p : ObjId) (h : p ∉ pages) : ∀ start, pageNumIn pages start p = none := by
  induction pages with
  | nil => intro _; rfl
  | cons q r ih =>
    intro start
    simp only [List.mem_cons, not_or] at h
    have : ¬ q = p := fun e => h.1 e.symm
    simp [pageNumIn, ih h.2, this]

/-- `setup_page_id_to_num` on a page list without repetitions: page number = position + 1 -/
theorem pageNumIn_nodup (pages : List ObjId) (p : ObjId) (hn : pages.Nodup) (hp : p ∈ pages) :
    ∀ start, pageNumIn pages start p = some (start + pageIndex pages p) := by
  induction pages with
  | nil => simp at hp
  | cons q r ih =>
    intro start
    rw [List.nodup_cons] at hn
    by_cases hq : q = p
    · subst hq
      simp [pageNumIn, pageNumIn_none r q hn.1, pageIndex]
    · have hpr : p ∈ r := by
        simp only [List.mem_cons] at hp
        rcases hp with e | e
        · exact absurd e.symm hq
        · exact e
      simp only [pageNumIn, ih hn.2 hpr, pageIndex, hq, if_false]
      congr 1; omega

/-! ## `get_toc` -/

theorem tocEntries_map (tr : Dict) (os : Objects) (pn : ObjId → Nat) :
    ∀ (l : List (Nat × List Nat × ObjId)) (acc : List TocEntry) (ne : Nat),
    (∀ e ∈ l, pageNum tr os e.2.2 = some (pn e.2.2)) → (∀ e ∈ l, ∀ c ∈ e.2.1, IsScalar c) →
    tocEntries tr os (l.map entry) acc ne =
      some (acc ++ l.map (fun e => { level := e.1, title := e.2.1, page := pn e.2.2 }), ne) := by
  intro l
  induction l with
  | nil => intro acc ne _ _; simp [tocEntries]
  | cons e r ih =>
    intro acc ne h1 h2
    have a := h1 e (by simp)
    have b := title_roundtrip e.2.1 (h2 e (by simp))
    simp only [List.map_cons, entry, tocEntries, a, b]
    rw [ih _ _ (fun x hx => h1 x (by simp [hx])) (fun x hx => h2 x (by simp [hx]))]
    simp [List.append_assoc]

theorem rootDict_get_first (ts : List BT) (m : Nat) : (rootDict ts m).get RD_FIRST = (firstId ts m).map oref := by
  have e : RD_FIRST = OLR_FIRST := by decide
  rw [e]
  simp (disch := decide) only [rootDict, Dict.get_set_ne, setOpt_get_ne, setOpt_get_eq]
  cases firstId ts m <;> simp [Dict.get_nil]

theorem nodup_titleBytes : ∀ (l : List (Nat × List Nat × ObjId)),
    (l.map (fun e => e.2.1)).Nodup → (∀ e ∈ l, ∀ c ∈ e.2.1, IsScalar c) → (l.map tbOf).Nodup := by
  intro l
  induction l with
  | nil => intro _ _; simp
  | cons e r ih =>
    intro hn hs
    simp only [List.map_cons, List.nodup_cons] at hn ⊢
    refine ⟨?_, ih hn.2 (fun x hx => hs x (by simp [hx]))⟩
    intro hmem
    simp only [List.mem_map] at hmem
    obtain ⟨x, hx, hxe⟩ := hmem
    apply hn.1
    have := titleBytes_injective x.2.1 e.2.1 (hs x (by simp [hx])) (hs e (by simp)) hxe
    simp only [List.mem_map]
    exact ⟨x, hx, this⟩

/-- **toc_readback.** Let the document hold, under its catalog's `Outlines` entry, the outline root
of a non-empty forest `ts` and embed the forest (`EmbL`, the conclusion of `outline_links`); let the
catalog have no `Dests`/`Names`; let the page tree enumerate `pages` without repetition and contain
every bookmark's target page; let the titles be strings (scalar values) and pairwise distinct.  Then
`get_toc` — whose walk over `First`/`Next` is fuel-free and guarded by the `seen` set of bca5e67, which
never fires on a built outline — returns exactly the preorder of the forest: level (top level = 1),
title, page number (position in the page tree + 1), and no errors. -/
theorem toc_readback (tr : Dict) (os : Objects) (catd : Dict) (ts : List BT) (m : Nat) (pages : List ObjId)
    (hcat : Q13.catalog tr os = some catd)
    (hout : catd.get RD_OUTLINES = some (.ref m 0))
    (hnd : catd.get RD_DESTS = none) (hnn : catd.get RD_NAMES = none)
    (hroot : dictAt os (m, 0) = some (rootDict ts m))
    (hemb : EmbL (dictAt os) m (m, 0) none ts) (hne : ts ≠ [])
    (hpages : pageIter tr os = pages) (hnodup : pages.Nodup)
    (htarget : ∀ e ∈ BT.preL 1 ts, e.2.2 ∈ pages)
    (hscalar : ∀ e ∈ BT.preL 1 ts, ∀ c ∈ e.2.1, IsScalar c)
    (hdistinct : ((BT.preL 1 ts).map (fun e => e.2.1)).Nodup) :
    getToc tr os =
      .ok ((BT.preL 1 ts).map (fun e => { level := e.1, title := e.2.1, page := pageIndex pages e.2.2 + 1 })) 0 := by
  cases ts with
  | nil => exact absurd rfl hne
  | cons t r =>
    have hrootd := getDictionary_of_dictAt hroot
    have hfirst := getDictionary_of_dictAt (EmbL_head hemb)
    obtain ⟨seen', hwalk, _⟩ := walk_emb os _ t r (Nat.le_refl _) m (m, 0) none [] [] [] hemb (by intro q hq; cases hq)
    have e1 : Q13.K_Outlines = RD_OUTLINES := by decide
    have e2 : Q13.K_First = RD_FIRST := by decide
    have e3 : Q13.K_Dests = RD_DESTS := by decide
    have e4 : Q13.K_Names = RD_NAMES := by decide
    have hgo : Q13.getOutlines tr os = .ok (outL (t :: r), []) := by
      simp only [Q13.getOutlines, hcat, Q13.getDictInDict, Q13.destTree, e1, e2, e3, e4, hout, hrootd,
        rootDict_get_first, firstId_cons, Option.map, oref, hfirst, hnd, hnn, Option.bind, hwalk]
      simp
    have hflat := setupIds_out _ (t :: r) (Nat.le_refl _) 1 []
      (by simpa using nodup_titleBytes _ hdistinct hscalar)
    have hpn : ∀ e ∈ BT.preL 1 (t :: r), pageNum tr os e.2.2 = some ((fun p => pageIndex pages p + 1) e.2.2) := by
      intro e he
      simp only [pageNum, hpages, pageNumIn_nodup pages e.2.2 hnodup (htarget e he) 1]
      congr 1; omega
    have htoc := tocEntries_map tr os (fun p => pageIndex pages p + 1) (BT.preL 1 (t :: r)) [] 0 hpn hscalar
    simp only [getToc, hgo, hflat, List.nil_append, htoc]

end Lopdf.C17
