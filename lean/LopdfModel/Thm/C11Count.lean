import LopdfModel.Thm.C11
import LopdfModel.Thm.C12
import LopdfModel.Lemmas.DictNoDup
/-
  C11 — property theorems, part 2: the page-tree `Count` bookkeeping of `delete_pages`
  (`delete_pages_count`), over abstract page trees of any shape and size.
-/
namespace Lopdf.Ed
open Lopdf

/-! ### page-tree `Count` bookkeeping of `delete_pages` -/

mutual
/-- ids of the intermediate (`Pages`) nodes of a tree -/
def nodeIds : PT → List ObjId
  | .page _ => []
  | .pages id ks => id :: nodeIdsL ks
def nodeIdsL : List PT → List ObjId
  | [] => []
  | t :: ts => nodeIds t ++ nodeIdsL ts
end

mutual
/-- the tree without the leaf page `p` -/
def removeLeaf (p : ObjId) : PT → PT
  | .page id => .page id
  | .pages id ks => .pages id (removeLeafL p ks)
def removeLeafL (p : ObjId) : List PT → List PT
  | [] => []
  | .page id :: ts => if id = p then removeLeafL p ts else .page id :: removeLeafL p ts
  | .pages id ks :: ts => .pages id (removeLeafL p ks) :: removeLeafL p ts
end

mutual
/-- the document holds the tree's bookkeeping: every `Pages` node is a dictionary whose `Count` is the number
of leaf pages below it and whose `Parent` is its parent node (`top` for the root) -/
def TreeOK (os : Objects) : Option ObjId → PT → Prop
  | _, .page _ => True
  | top, .pages id ks =>
    (∃ d, os.get id = some (.dict d) ∧ (Dict.get d COUNT).bind Obj.asInt = some ((PT.leavesL ks).length : Int) ∧
      (Dict.get d PARENT).bind Obj.asRef = top) ∧ TreeOKL os (some id) ks
def TreeOKL (os : Objects) : Option ObjId → List PT → Prop
  | _, [] => True
  | top, t :: ts => TreeOK os top t ∧ TreeOKL os top ts
end

/-- `.page p` is a direct child -/
def DirectLeaf (p : ObjId) : List PT → Prop
  | [] => False
  | .page id :: ts => id = p ∨ DirectLeaf p ts
  | .pages _ _ :: ts => DirectLeaf p ts

mutual
/-- `q` is the `Pages` node that has the leaf `p` as a direct child -/
def IsParent (q p : ObjId) : PT → Prop
  | .page _ => False
  | .pages id ks => (id = q ∧ DirectLeaf p ks) ∨ IsParentL q p ks
def IsParentL (q p : ObjId) : List PT → Prop
  | [] => False
  | t :: ts => IsParent q p t ∨ IsParentL q p ts
end

mutual
theorem leaves_removeLeaf (p : ObjId) : ∀ t : PT, (∀ id, t ≠ .page id) → (removeLeaf p t).leaves = t.leaves.filter (fun x => !decide (x = p))
  | .page id, h => absurd rfl (h id)
  | .pages id ks, _ => by simp [removeLeaf, PT.leaves, leavesL_removeLeafL p ks]
theorem leavesL_removeLeafL (p : ObjId) : ∀ ks : List PT, PT.leavesL (removeLeafL p ks) = (PT.leavesL ks).filter (fun x => !decide (x = p))
  | [] => by simp [removeLeafL, PT.leavesL]
  | .page id :: ts => by
    simp only [removeLeafL]
    by_cases h : id = p
    · simp [h, PT.leavesL, PT.leaves, leavesL_removeLeafL p ts]
    · simp [h, PT.leavesL, PT.leaves, leavesL_removeLeafL p ts]
  | .pages id ks :: ts => by
    simp [removeLeafL, PT.leavesL, PT.leaves, leavesL_removeLeafL p ks, leavesL_removeLeafL p ts]
end

theorem filter_of_not_mem {l : List ObjId} {p : ObjId} (hp : p ∉ l) : l.filter (fun x => !decide (x = p)) = l := by
  apply List.filter_eq_self.mpr
  intro a ha
  have : a ≠ p := fun e => hp (e ▸ ha)
  simp [this]

theorem filter_length_of_mem {l : List ObjId} {p : ObjId} (hn : l.Nodup) (hp : p ∈ l) :
    ((l.filter (fun x => !decide (x = p))).length : Int) = (l.length : Int) - 1 := by
  induction l with
  | nil => cases hp
  | cons x xs ih =>
    simp only [List.nodup_cons] at hn
    by_cases e : x = p
    · subst e
      rw [List.filter_cons]
      simp only [decide_true, Bool.not_true, Bool.false_eq_true, if_false]
      rw [filter_of_not_mem hn.1]; simp
    · have hp' : p ∈ xs := by
        rcases List.mem_cons.mp hp with h | h
        · exact absurd h.symm e
        · exact h
      have := ih hn.2 hp'
      rw [List.filter_cons]
      simp only [e, decide_false, Bool.not_false, if_true, List.length_cons]
      omega


mutual
theorem removeLeaf_of_not_mem (p : ObjId) : ∀ t : PT, p ∉ t.leaves → removeLeaf p t = t
  | .page id, _ => rfl
  | .pages id ks, h => by simp only [removeLeaf]; rw [removeLeafL_of_not_mem p ks (by simpa [PT.leaves] using h)]
theorem removeLeafL_of_not_mem (p : ObjId) : ∀ ks : List PT, p ∉ PT.leavesL ks → removeLeafL p ks = ks
  | [], _ => by simp [removeLeafL]
  | .page id :: ts, h => by
    simp only [PT.leavesL, PT.leaves, List.mem_append, List.mem_singleton, not_or] at h
    have : ¬ id = p := fun e => h.1 e.symm
    simp only [removeLeafL, this, if_false]; rw [removeLeafL_of_not_mem p ts h.2]
  | .pages id ks :: ts, h => by
    simp only [PT.leavesL, PT.leaves, List.mem_append, not_or] at h
    simp only [removeLeafL]; rw [removeLeafL_of_not_mem p ks h.1, removeLeafL_of_not_mem p ts h.2]
end

mutual
theorem nodeIds_removeLeaf (p : ObjId) : ∀ t : PT, nodeIds (removeLeaf p t) = nodeIds t
  | .page id => rfl
  | .pages id ks => by simp [removeLeaf, nodeIds, nodeIdsL_removeLeafL p ks]
theorem nodeIdsL_removeLeafL (p : ObjId) : ∀ ks : List PT, nodeIdsL (removeLeafL p ks) = nodeIdsL ks
  | [] => by simp [removeLeafL]
  | .page id :: ts => by
    simp only [removeLeafL]; split <;> simp [nodeIdsL, nodeIds, nodeIdsL_removeLeafL p ts]
  | .pages id ks :: ts => by
    simp [removeLeafL, nodeIdsL, nodeIds, nodeIdsL_removeLeafL p ks, nodeIdsL_removeLeafL p ts]
end

mutual
theorem treeOK_frame (os os' : Objects) : ∀ (t : PT) (top : Option ObjId), TreeOK os top t →
    (∀ x ∈ nodeIds t, os'.get x = os.get x) → TreeOK os' top t
  | .page _, _, _, _ => trivial
  | .pages id ks, top, h, hf => by
    simp only [TreeOK] at h ⊢
    obtain ⟨⟨d, h1, h2, h3⟩, h4⟩ := h
    refine ⟨⟨d, by rw [hf id (by simp [nodeIds])]; exact h1, h2, h3⟩, ?_⟩
    exact treeOKL_frame os os' ks (some id) h4 (fun x hx => hf x (by simp [nodeIds, hx]))
theorem treeOKL_frame (os os' : Objects) : ∀ (ks : List PT) (top : Option ObjId), TreeOKL os top ks →
    (∀ x ∈ nodeIdsL ks, os'.get x = os.get x) → TreeOKL os' top ks
  | [], _, _, _ => trivial
  | t :: ts, top, h, hf => by
    simp only [TreeOKL] at h ⊢
    exact ⟨treeOK_frame os os' t top h.1 (fun x hx => hf x (by simp [nodeIdsL, hx])),
           treeOKL_frame os os' ts top h.2 (fun x hx => hf x (by simp [nodeIdsL, hx]))⟩
end

theorem directLeaf_mem (p : ObjId) : ∀ ks : List PT, DirectLeaf p ks → p ∈ PT.leavesL ks
  | [], h => by cases h
  | .page id :: ts, h => by
    simp only [DirectLeaf] at h
    simp only [PT.leavesL, PT.leaves, List.mem_append, List.mem_singleton]
    rcases h with h | h
    · exact Or.inl h.symm
    · exact Or.inr (directLeaf_mem p ts h)
  | .pages id ks :: ts, h => by
    simp only [DirectLeaf] at h
    simp only [PT.leavesL, List.mem_append]
    exact Or.inr (directLeaf_mem p ts h)

mutual
theorem isParent_mem (q p : ObjId) : ∀ t : PT, IsParent q p t → p ∈ t.leaves
  | .page _, h => by cases h
  | .pages id ks, h => by
    simp only [IsParent] at h
    simp only [PT.leaves]
    rcases h with h | h
    · exact directLeaf_mem p ks h.2
    · exact isParentL_mem q p ks h
theorem isParentL_mem (q p : ObjId) : ∀ ks : List PT, IsParentL q p ks → p ∈ PT.leavesL ks
  | [], h => by cases h
  | t :: ts, h => by
    simp only [IsParentL] at h
    simp only [PT.leavesL, List.mem_append]
    rcases h with h | h
    · exact Or.inl (isParent_mem q p t h)
    · exact Or.inr (isParentL_mem q p ts h)
end

theorem count_ne_parent : ¬ (COUNT = PARENT) := by decide

/-- one iteration of the `while let Ok(page_tree_id) = page_tree_ref` loop on a well-kept node -/
theorem decCounts_step (seen : List ObjId) (os : Objects) (id : ObjId) (d : Dict) (c : Int) (top : Option ObjId)
    (h1 : os.get id = some (.dict d)) (h2 : (Dict.get d COUNT).bind Obj.asInt = some c)
    (h3 : (Dict.get d PARENT).bind Obj.asRef = top) (hs : id ∉ seen) :
    decCounts os seen (some id) = decCounts (os.set id (.dict (Dict.set d COUNT (.int (c - 1))))) (id :: seen) top := by
  rw [decCounts_dict os seen id d (by simpa using hs) h1]
  simp only [decCount, h2]
  rw [Dict.get_set_c11]; simp only [count_ne_parent, if_false, h3]

/-- a direct leaf of a duplicate-free leaf list is in none of the sibling subtrees -/
theorem direct_not_deep (p : ObjId) : ∀ ks : List PT, DirectLeaf p ks → (PT.leavesL ks).Nodup →
    ∀ m ∈ ks, ∀ id ks2, m = .pages id ks2 → p ∉ PT.leavesL ks2
  | [], h, _, _, _, _, _, _ => by cases h
  | .page id0 :: ts, h, hn, m, hm, id, ks2, e => by
    simp only [PT.leavesL, PT.leaves] at hn
    have hn' := List.nodup_append.mp hn
    simp only [DirectLeaf] at h
    rcases List.mem_cons.mp hm with rfl | hm'
    · cases e
    · rcases h with h | h
      · subst h
        intro hp
        -- id0 ∈ leaves of m ⊆ leavesL ts, contradiction with nodup
        have : id0 ∈ PT.leavesL ts := by
          subst e
          clear hn hn' hm
          induction ts with
          | nil => cases hm'
          | cons x xs ih =>
            simp only [PT.leavesL, List.mem_append]
            rcases List.mem_cons.mp hm' with rfl | h2
            · exact Or.inl (by simpa [PT.leaves] using hp)
            · exact Or.inr (ih h2)
        exact hn'.2.2 id0 (by simp) id0 this rfl
      · exact direct_not_deep p ts h hn'.2.1 m hm' id ks2 e
  | .pages id0 ks0 :: ts, h, hn, m, hm, id, ks2, e => by
    simp only [PT.leavesL, PT.leaves] at hn
    have hn' := List.nodup_append.mp hn
    simp only [DirectLeaf] at h
    have hpts : p ∈ PT.leavesL ts := directLeaf_mem p ts h
    rcases List.mem_cons.mp hm with rfl | hm'
    · cases e
      intro hp; exact hn'.2.2 p hp p hpts rfl
    · exact direct_not_deep p ts h hn'.2.1 m hm' id ks2 e

theorem treeOKL_remove_shallow (os : Objects) (top : Option ObjId) (p : ObjId) : ∀ ks : List PT, TreeOKL os top ks →
    (∀ m ∈ ks, ∀ id ks2, m = .pages id ks2 → p ∉ PT.leavesL ks2) → TreeOKL os top (removeLeafL p ks)
  | [], _, _ => by simp [removeLeafL, TreeOKL]
  | .page id :: ts, h, hs => by
    simp only [TreeOKL] at h
    have := treeOKL_remove_shallow os top p ts h.2 (fun m hm => hs m (List.mem_cons_of_mem _ hm))
    simp only [removeLeafL]; split
    · exact this
    · simp only [TreeOKL]; exact ⟨trivial, this⟩
  | .pages id ks2 :: ts, h, hs => by
    simp only [TreeOKL] at h
    have := treeOKL_remove_shallow os top p ts h.2 (fun m hm => hs m (List.mem_cons_of_mem _ hm))
    have hno := hs _ (List.mem_cons_self) id ks2 rfl
    simp only [removeLeafL, TreeOKL]
    rw [removeLeafL_of_not_mem p ks2 hno]
    exact ⟨h.1, this⟩

mutual
/-- walking `Parent` from the node that held the deleted leaf up to (and out of) the subtree `t` decrements
exactly the `Count`s on that path, which is what the tree without the leaf needs -/
theorem walk_node (p q : ObjId) : ∀ (t : PT) (top : Option ObjId) (os : Objects),
    ∀ (seen : List ObjId), IsParent q p t → (nodeIds t).Nodup → t.leaves.Nodup → TreeOK os top t →
    (∀ x ∈ nodeIds t, x ∉ seen) →
    ∃ osn seen', (∀ x ∈ seen', x ∈ seen ∨ x ∈ nodeIds t) ∧ decCounts os seen (some q) = decCounts osn seen' top ∧
      TreeOK osn top (removeLeaf p t) ∧ (∀ x, x ∉ nodeIds t → osn.get x = os.get x)
  | .page _, _, _, _, h, _, _, _, _ => by cases h
  | .pages id ks, top, os, seen, hpar, hnd, hlv, hok, hseen => by
    simp only [TreeOK] at hok
    obtain ⟨⟨d, h1, h2, h3⟩, hkids⟩ := hok
    simp only [nodeIds, List.nodup_cons] at hnd
    simp only [PT.leaves] at hlv
    have hpmem : p ∈ PT.leavesL ks := by simpa [PT.leaves] using isParent_mem q p (.pages id ks) hpar
    have hcount : ((PT.leavesL (removeLeafL p ks)).length : Int) = ((PT.leavesL ks).length : Int) - 1 := by
      rw [leavesL_removeLeafL]; exact filter_length_of_mem hlv hpmem
    simp only [IsParent] at hpar
    rcases hpar with ⟨hq, hdl⟩ | hdeep
    · subst hq
      refine ⟨os.set id (.dict (Dict.set d COUNT (.int (((PT.leavesL ks).length : Int) - 1)))), id :: seen, ?_, ?_, ?_, ?_⟩
      · intro x hx; rcases List.mem_cons.mp hx with rfl | hx
        · exact Or.inr (by simp [nodeIds])
        · exact Or.inl hx
      · exact decCounts_step seen os id d _ top h1 h2 h3 (hseen id (by simp [nodeIds]))
      · simp only [removeLeaf, TreeOK]
        refine ⟨⟨Dict.set d COUNT (.int (((PT.leavesL ks).length : Int) - 1)), by simp [Objects.get_set, h1], by simp [Dict.get_set_c11, Obj.asInt, hcount], ?_⟩, ?_⟩
        · rw [Dict.get_set_c11]; simp only [count_ne_parent, if_false, h3]
        · apply treeOKL_frame os _ _ _ (treeOKL_remove_shallow os (some id) p ks hkids (direct_not_deep p ks hdl hlv))
          intro x hx
          rw [nodeIdsL_removeLeafL] at hx
          have : id ≠ x := fun e => hnd.1 (e ▸ hx)
          simp [Objects.get_set, this]
      · intro x hx
        simp only [nodeIds, List.mem_cons, not_or] at hx
        have : id ≠ x := fun e => hx.1 e.symm
        simp [Objects.get_set, this]
    · obtain ⟨osn1, seen1, wk, w1, w2, w3⟩ := walk_list p q ks (some id) os seen hdeep hnd.2 hlv hkids
        (fun x hx => hseen x (by simp [nodeIds, hx]))
      have hid1 : osn1.get id = some (.dict d) := by rw [w3 id hnd.1]; exact h1
      have hidns : id ∉ seen1 := by
        intro hm
        rcases wk id hm with h | h
        · exact hseen id (by simp [nodeIds]) h
        · exact hnd.1 h
      refine ⟨osn1.set id (.dict (Dict.set d COUNT (.int (((PT.leavesL ks).length : Int) - 1)))), id :: seen1, ?_, ?_, ?_, ?_⟩
      · intro x hx; rcases List.mem_cons.mp hx with rfl | hx
        · exact Or.inr (by simp [nodeIds])
        · rcases wk x hx with h | h
          · exact Or.inl h
          · exact Or.inr (by simp [nodeIds, h])
      · rw [w1]
        exact decCounts_step seen1 osn1 id d _ top hid1 h2 h3 hidns
      · simp only [removeLeaf, TreeOK]
        refine ⟨⟨Dict.set d COUNT (.int (((PT.leavesL ks).length : Int) - 1)), by simp [Objects.get_set, hid1], by simp [Dict.get_set_c11, Obj.asInt, hcount], ?_⟩, ?_⟩
        · rw [Dict.get_set_c11]; simp only [count_ne_parent, if_false, h3]
        · apply treeOKL_frame osn1 _ _ _ w2
          intro x hx
          rw [nodeIdsL_removeLeafL] at hx
          have : id ≠ x := fun e => hnd.1 (e ▸ hx)
          simp [Objects.get_set, this]
      · intro x hx
        simp only [nodeIds, List.mem_cons, not_or] at hx
        have : id ≠ x := fun e => hx.1 e.symm
        rw [Objects.get_set]; simp only [this, if_false]; exact w3 x hx.2
theorem walk_list (p q : ObjId) : ∀ (ks : List PT) (top : Option ObjId) (os : Objects),
    ∀ (seen : List ObjId), IsParentL q p ks → (nodeIdsL ks).Nodup → (PT.leavesL ks).Nodup → TreeOKL os top ks →
    (∀ x ∈ nodeIdsL ks, x ∉ seen) →
    ∃ osn seen', (∀ x ∈ seen', x ∈ seen ∨ x ∈ nodeIdsL ks) ∧ decCounts os seen (some q) = decCounts osn seen' top ∧
      TreeOKL osn top (removeLeafL p ks) ∧ (∀ x, x ∉ nodeIdsL ks → osn.get x = os.get x)
  | [], _, _, _, h, _, _, _, _ => by cases h
  | t :: ts, top, os, seen, hpar, hnd, hlv, hok, hseen => by
    simp only [TreeOKL] at hok
    simp only [nodeIdsL] at hnd
    simp only [PT.leavesL] at hlv
    have hnd' := List.nodup_append.mp hnd
    have hlv' := List.nodup_append.mp hlv
    simp only [IsParentL] at hpar
    rcases hpar with hhead | htail
    · obtain ⟨osn, k, wk, w1, w2, w3⟩ := walk_node p q t top os seen hhead hnd'.1 hlv'.1 hok.1
        (fun x hx => hseen x (by simp [nodeIdsL, hx]))
      have hpt : p ∈ t.leaves := isParent_mem q p t hhead
      have hpts : p ∉ PT.leavesL ts := fun h => hlv'.2.2 p hpt p h rfl
      refine ⟨osn, k, fun x hx => (wk x hx).imp id (fun h => by simp [nodeIdsL, h]), w1, ?_, ?_⟩
      · have hts : TreeOKL osn top ts := treeOKL_frame os osn ts top hok.2 (fun x hx => w3 x (fun hx' => hnd'.2.2 x hx' x hx rfl))
        cases t with
        | page id => cases hhead
        | pages id ks2 =>
          simp only [removeLeafL, TreeOKL]
          rw [removeLeafL_of_not_mem p ts hpts]
          exact ⟨by simpa [removeLeaf] using w2, hts⟩
      · intro x hx
        simp only [nodeIdsL, List.mem_append, not_or] at hx
        exact w3 x hx.1
    · obtain ⟨osn, k, wk, w1, w2, w3⟩ := walk_list p q ts top os seen htail hnd'.2.1 hlv'.2.1 hok.2
        (fun x hx => hseen x (by simp [nodeIdsL, hx]))
      have hpts : p ∈ PT.leavesL ts := isParentL_mem q p ts htail
      have hpt : p ∉ t.leaves := fun h => hlv'.2.2 p h p hpts rfl
      have ht : TreeOK osn top t := treeOK_frame os osn t top hok.1 (fun x hx => w3 x (fun hx' => hnd'.2.2 x hx x hx' rfl))
      refine ⟨osn, k, fun x hx => (wk x hx).imp id (fun h => by simp [nodeIdsL, h]), w1, ?_, ?_⟩
      · cases t with
        | page id =>
          have : ¬ id = p := fun e => hpt (by simp [PT.leaves, e])
          simp only [removeLeafL, this, if_false, TreeOKL]; exact ⟨trivial, w2⟩
        | pages id ks2 =>
          simp only [removeLeafL, TreeOKL]
          rw [removeLeafL_of_not_mem p ks2 (by simpa [PT.leaves] using hpt)]
          exact ⟨ht, w2⟩
      · intro x hx
        simp only [nodeIdsL, List.mem_append, not_or] at hx
        exact w3 x hx.2
end

theorem nodup_subset_length {l m : List ObjId} (hn : l.Nodup) (hs : ∀ x ∈ l, x ∈ m) : l.length ≤ m.length := by
  induction l generalizing m with
  | nil => simp
  | cons x xs ih =>
    simp only [List.nodup_cons] at hn
    have hx : x ∈ m := hs x (by simp)
    have := ih (m := m.erase x) hn.2 (fun y hy => by
      have hne : y ≠ x := fun e => hn.1 (e ▸ hy)
      exact (List.mem_erase_of_ne hne).mpr (hs y (by simp [hy])))
    rw [List.length_erase_of_mem hx] at this
    have hpos : 0 < m.length := List.length_pos_of_mem hx
    simp only [List.length_cons]; omega

mutual
theorem treeOK_nodes_keys (os : Objects) : ∀ (t : PT) (top : Option ObjId), TreeOK os top t → ∀ x ∈ nodeIds t, x ∈ os.keys
  | .page _, _, _, x, hx => by simp [nodeIds] at hx
  | .pages id ks, top, h, x, hx => by
    simp only [TreeOK] at h
    obtain ⟨⟨d, h1, _, _⟩, h4⟩ := h
    simp only [nodeIds, List.mem_cons] at hx
    rcases hx with rfl | hx
    · exact Objects.mem_keys_of_get h1
    · exact treeOKL_nodes_keys os ks (some id) h4 x hx
theorem treeOKL_nodes_keys (os : Objects) : ∀ (ks : List PT) (top : Option ObjId), TreeOKL os top ks → ∀ x ∈ nodeIdsL ks, x ∈ os.keys
  | [], _, _, x, hx => by simp [nodeIdsL] at hx
  | t :: ts, top, h, x, hx => by
    simp only [TreeOKL] at h
    simp only [nodeIdsL, List.mem_append] at hx
    rcases hx with hx | hx
    · exact treeOK_nodes_keys os t top h.1 x hx
    · exact treeOKL_nodes_keys os ts top h.2 x hx
end

/-- **C11, delete_pages_count.**  Let the document hold a page tree `t` with exact bookkeeping (`TreeOK`:
every `Pages` node's `Count` = number of leaf pages below it, `Parent` = its parent; the root has no
`Parent` reference), pairwise distinct node ids and no page listed twice, and let `q` be the node that had
the leaf `p` as a direct child.  Then the `Parent` walk of `delete_pages` (which since the fix of F-C11-c
stops at an ancestor it has seen before, and so always returns) leaves the bookkeeping exact for the tree
WITHOUT `p`: on the path from `q` to the root every `Count` went down by one, every other object is untouched. -/
theorem delete_pages_count (p q : ObjId) (t : PT) (os : Objects)
    (hpar : IsParent q p t) (hnd : (nodeIds t).Nodup) (hlv : t.leaves.Nodup) (hok : TreeOK os none t) :
    TreeOK (decCounts os [] (some q)) none (removeLeaf p t) ∧
      (∀ x, x ∉ nodeIds t → (decCounts os [] (some q)).get x = os.get x) := by
  obtain ⟨osn, seen', _, w1, w2, w3⟩ := walk_node p q t none os [] hpar hnd hlv hok (by simp)
  rw [w1, decCounts_none]
  exact ⟨w2, w3⟩

/- non-vacuity: a two-level tree with exact counts -/
example : TreeOK [((1,0), .dict [(COUNT, .int 2)]), ((2,0), .dict [(COUNT, .int 1), (PARENT, .ref 1 0)])] none
    (.pages (1,0) [.page (5,0), .pages (2,0) [.page (6,0)]]) ∧
    IsParent (2,0) (6,0) (.pages (1,0) [.page (5,0), .pages (2,0) [.page (6,0)]]) := by
  constructor
  · simp [TreeOK, TreeOKL, Objects.get, Dict.get, PT.leavesL, PT.leaves, Obj.asInt, Obj.asRef, COUNT, PARENT]
  · simp [IsParent, IsParentL, DirectLeaf]


/-! ### dictionaries with distinct keys: `delete_object` keeps the bookkeeping; content edits -/

open Lopdf.DictL

/-- content edits, with the dictionary hypothesis discharged: for a stream dictionary with pairwise
distinct keys (every `IndexMap`) `set_plain_content` really leaves no `Filter` key -/
theorem change_content_decodes_nodup (inflate : Bytes → Option Bytes) (deflate : Bytes → Bytes)
    (hcodec : ∀ x, inflate (deflate x) = some x) (dict : Dict) (hn : NoDup dict) (c : Bytes) :
    decodeStream inflate (plainThenCompress (deflate c) dict c) = some c := by
  apply change_content_decodes inflate deflate hcodec dict c
  rw [get_remove (nodup_remove hn _) kFilter kFilter]; simp

/-- what `delete_object`'s action does to a dictionary entry that is not itself a reference to the deleted id -/
theorem get_deep_del (p : ObjId) (nd : Dict) (hn : NoDup nd) (key : Bytes) (v : Obj)
    (hv : Dict.get nd key = some v) (hnr : isRefTo p v = false) :
    ∃ nd', deepObj (delAct p) (.dict nd) = .dict nd' ∧ Dict.get nd' key = some (deepObj (delAct p) v) := by
  have hf : (delAct p).f (.dict nd) = .dict (removeKeys nd ((nd.filter (fun kv => isRefTo p kv.2)).map (·.1))) := rfl
  refine ⟨_, deepObj_dict hf, ?_⟩
  rw [dictGet_deepDict]
  have hq : key ∉ (nd.filter (fun kv => isRefTo p kv.2)).map (·.1) := by
    intro hm
    obtain ⟨e, he, hek⟩ := List.mem_map.mp hm
    have hmem := List.mem_filter.mp he
    have : Dict.get nd key = some e.2 := get_some_of_mem hn (by rw [← hek]; exact hmem.1)
    rw [hv] at this; cases this
    rw [hnr] at hmem; exact absurd hmem.2 (by simp)
  rw [(get_removeKeys hn _ key hq).1, hv]; rfl

theorem deep_del_int (p : ObjId) (i : Int) : deepObj (delAct p) (.int i) = .int i := by
  rw [deepObj_other] <;> simp [delAct, delFn]
theorem deep_del_ref (p : ObjId) (n g : Nat) : deepObj (delAct p) (.ref n g) = .ref n g := by
  rw [deepObj_other] <;> simp [delAct, delFn]


theorem asRef_deep_del (p : ObjId) (v : Obj) : (deepObj (delAct p) v).asRef = v.asRef := by
  cases v with
  | arr items => rw [deepObj_arr (a := delAct p) (items := items.filter (fun o => !isRefTo p o)) rfl]; rfl
  | dict es => rw [deepObj_dict (a := delAct p) (es := removeKeys es ((es.filter (fun kv => isRefTo p kv.2)).map (·.1))) rfl]; rfl
  | stream es c => rw [deepObj_stream (a := delAct p) (es := stripDict p es) (c := c) rfl]; rfl
  | _ => rw [deepObj_other] <;> simp [delAct, delFn]

theorem asInt_deep_del (p : ObjId) (v : Obj) : (deepObj (delAct p) v).asInt = v.asInt := by
  cases v with
  | arr items => rw [deepObj_arr (a := delAct p) (items := items.filter (fun o => !isRefTo p o)) rfl]; rfl
  | dict es => rw [deepObj_dict (a := delAct p) (es := removeKeys es ((es.filter (fun kv => isRefTo p kv.2)).map (·.1))) rfl]; rfl
  | stream es c => rw [deepObj_stream (a := delAct p) (es := stripDict p es) (c := c) rfl]; rfl
  | _ => rw [deepObj_other] <;> simp [delAct, delFn]

/-- an entry whose value does not point at the deleted object survives `delete_object`'s rewriting of its
dictionary; an absent key stays absent -/
theorem get_deep_del' (p : ObjId) (nd : Dict) (hn : NoDup nd) (key : Bytes)
    (hnr : ∀ v, Dict.get nd key = some v → isRefTo p v = false) :
    ∃ nd', deepObj (delAct p) (.dict nd) = .dict nd' ∧
      Dict.get nd' key = (Dict.get nd key).map (deepObj (delAct p)) := by
  have hf : (delAct p).f (.dict nd) = .dict (removeKeys nd ((nd.filter (fun kv => isRefTo p kv.2)).map (·.1))) := rfl
  refine ⟨_, deepObj_dict hf, ?_⟩
  rw [dictGet_deepDict]
  have hq : key ∉ (nd.filter (fun kv => isRefTo p kv.2)).map (·.1) := by
    intro hm
    obtain ⟨e, he, hek⟩ := List.mem_map.mp hm
    have hmem := List.mem_filter.mp he
    have : Dict.get nd key = some e.2 := get_some_of_mem hn (by rw [← hek]; exact hmem.1)
    have := hnr e.2 this
    rw [this] at hmem; exact absurd hmem.2 (by simp)
  rw [(get_removeKeys hn _ key hq).1]

theorem isRefTo_false_of_asRef (p : ObjId) (v : Obj) (top : Option ObjId) (h : v.asRef = top) (ht : top ≠ some p) :
    isRefTo p v = false := by
  cases v <;> simp [isRefTo, Obj.asRef] at h ⊢
  rename_i n g
  intro e; apply ht; rw [← h, e]

theorem isRefTo_false_of_asInt (p : ObjId) (v : Obj) (c : Int) (h : v.asInt = some c) : isRefTo p v = false := by
  cases v <;> simp [isRefTo, Obj.asInt] at h ⊢

/-- the bookkeeping entries of a `Pages` node (or the `Parent` of a page) survive the deletion of another object -/
theorem book_preserved (p : ObjId) (nd : Dict) (hn : NoDup nd) (top : Option ObjId) (htop : top ≠ some p)
    (hp : (Dict.get nd PARENT).bind Obj.asRef = top) :
    ∃ nd', deepObj (delAct p) (.dict nd) = .dict nd' ∧
      (Dict.get nd' PARENT).bind Obj.asRef = top ∧
      ∀ c, (Dict.get nd COUNT).bind Obj.asInt = some c → (Dict.get nd' COUNT).bind Obj.asInt = some c := by
  have hf : (delAct p).f (.dict nd) = .dict (removeKeys nd ((nd.filter (fun kv => isRefTo p kv.2)).map (·.1))) := rfl
  obtain ⟨nd1, e1, g1⟩ := get_deep_del' p nd hn PARENT (by
    intro v hv
    rw [hv] at hp
    exact isRefTo_false_of_asRef p v top hp htop)
  refine ⟨nd1, e1, ?_, ?_⟩
  · rw [g1]; cases hg : Dict.get nd PARENT with
    | none => rw [hg] at hp; simpa using hp
    | some v => rw [hg] at hp; simp only [Option.map_some, Option.bind_some, asRef_deep_del]; simpa using hp
  · intro c hc
    cases hg : Dict.get nd COUNT with
    | none => rw [hg] at hc; cases hc
    | some v =>
      rw [hg] at hc; simp only [Option.bind_some] at hc
      obtain ⟨nd2, e2, g2⟩ := get_deep_del' p nd hn COUNT (by
        intro v' hv'; rw [hg] at hv'; cases hv'; exact isRefTo_false_of_asInt p v c hc)
      rw [e1] at e2; cases e2
      rw [g2, hg]; simp only [Option.map_some, Option.bind_some, asInt_deep_del]; exact hc

/-- the dictionaries of the tree's `Pages` nodes have pairwise distinct keys (every `IndexMap`) -/
def NodesNoDup (os : Objects) (ids : List ObjId) : Prop := ∀ id ∈ ids, ∀ nd, os.get id = some (.dict nd) → NoDup nd

mutual
/-- `delete_object(p)` for a leaf page `p` leaves the tree's bookkeeping (`Count`, `Parent`) as it was -/
theorem treeOK_delete (d : Doc) (p : ObjId) : ∀ (t : PT) (top : Option ObjId),
    TreeOK d.objects top t → top ≠ some p → p ∉ nodeIds t → NodesNoDup d.objects (nodeIds t) →
    TreeOK (deleteObject d p).1.objects top t
  | .page _, _, _, _, _, _ => trivial
  | .pages id ks, top, h, htop, hp, hnd => by
    simp only [TreeOK] at h ⊢
    obtain ⟨⟨nd, h1, h2, h3⟩, h4⟩ := h
    simp only [nodeIds, List.mem_cons, not_or] at hp
    have hne : id ≠ p := fun e => hp.1 e.symm
    have hnn : NoDup nd := hnd id (by simp [nodeIds]) nd h1
    obtain ⟨nd', e1, b1, b2⟩ := book_preserved p nd hnn top htop h3
    refine ⟨?_, treeOKL_delete d p ks (some id) h4 (by simp; exact hne) hp.2
      (fun x hx => hnd x (by simp [nodeIds, hx]))⟩
    rw [(delete_effect d p).2.2 id hne, h1]
    by_cases hv : id ∈ (traverse (delAct p) (stripDict p d.trailer) d.objects).2.2
    · simp only [hv, if_true, Option.map_some, e1]
      exact ⟨nd', rfl, b2 _ h2, b1⟩
    · simp only [hv, if_false]
      exact ⟨nd, rfl, h2, h3⟩
theorem treeOKL_delete (d : Doc) (p : ObjId) : ∀ (ks : List PT) (top : Option ObjId),
    TreeOKL d.objects top ks → top ≠ some p → p ∉ nodeIdsL ks → NodesNoDup d.objects (nodeIdsL ks) →
    TreeOKL (deleteObject d p).1.objects top ks
  | [], _, _, _, _, _ => trivial
  | t :: ts, top, h, htop, hp, hnd => by
    simp only [TreeOKL] at h ⊢
    simp only [nodeIdsL, List.mem_append, not_or] at hp
    exact ⟨treeOK_delete d p t top h.1 htop hp.1 (fun x hx => hnd x (by simp [nodeIdsL, hx])),
           treeOKL_delete d p ts top h.2 htop hp.2 (fun x hx => hnd x (by simp [nodeIdsL, hx]))⟩
end

/-- **C11, `delete_pages` on one page: the `Count` bookkeeping end to end.**  The document holds a page
tree `t` with exact bookkeeping, distinct node ids, no page listed twice; page number `n` of the page list
is the leaf `p`, a dictionary whose `Parent` is the node `q` that has it as a direct child; node and page
dictionaries have distinct keys.  Then after `delete_pages(&[n])`'s iteration the page object is gone,
and the bookkeeping is exact for the tree without `p`. -/
theorem deletePage1_count (d : Doc) (pages : List ObjId) (n : Nat) (p q : ObjId) (t : PT) (pd : Dict)
    (hn0 : n ≠ 0) (hpg : pages[n - 1]? = some p)
    (hok : TreeOK d.objects none t) (hpar : IsParent q p t) (hnd : (nodeIds t).Nodup) (hlv : t.leaves.Nodup)
    (hpn : p ∉ nodeIds t) (hdup : NodesNoDup d.objects (nodeIds t))
    (hpo : d.objects.get p = some (.dict pd)) (hpdn : NoDup pd)
    (hpp : (Dict.get pd PARENT).bind Obj.asRef = some q) (hqp : q ≠ p) :
    (deletePage1 pages d n).objects.get p = none ∧ TreeOK (deletePage1 pages d n).objects none (removeLeaf p t) := by
  have hD := treeOK_delete d p t none hok (by simp) hpn hdup
  -- the object handed back by delete_object still names q as its Parent
  have hret : ∃ pd', (deleteObject d p).2 = some (.dict pd') ∧ (Dict.get pd' PARENT).bind Obj.asRef = some q := by
    obtain ⟨pd1, e1, b1, _⟩ := book_preserved p pd hpdn (some q) (by simp; exact hqp) hpp
    have hv := (traverse_visits_once (delAct p) (stripDict p d.trailer) d.objects).2.2 p
    simp only [deleteObject]
    rw [hv, hpo]
    by_cases hvis : p ∈ (traverse (delAct p) (stripDict p d.trailer) d.objects).2.2
    · simp only [hvis, if_true, Option.map_some, e1]; exact ⟨pd1, rfl, b1⟩
    · simp only [hvis, if_false]; exact ⟨pd, rfl, hpp⟩
  obtain ⟨pd', hr1, hr2⟩ := hret
  obtain ⟨w2, w3⟩ := delete_pages_count p q t (deleteObject d p).1.objects hpar hnd hlv hD
  have hdp : deletePage1 pages d n =
      { (deleteObject d p).1 with objects := decCounts (deleteObject d p).1.objects [] (some q) } := by
    unfold deletePage1
    simp only [hn0, if_false, hpg]
    cases hdo : deleteObject d p with
    | mk d1 ro =>
      rw [hdo] at hr1
      simp only at hr1
      subst hr1
      simp only [Obj.asDict, Option.bind_some, hr2]
  rw [hdp]
  refine ⟨?_, w2⟩
  simp only
  rw [w3 p hpn]
  exact (delete_effect d p).1

end Lopdf.Ed
