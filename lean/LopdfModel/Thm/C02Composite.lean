import LopdfModel.Thm.C02Obj
import LopdfModel.Thm.C02Xref
import LopdfModel.Spec.GrammarObj
import LopdfModel.Lemmas.ObjRtCore
/-
  C02 — COMPOSITE direct objects: every spelling the object grammar allows (`DerivesObj`:
  arrays and dictionaries nested up to MAX_NESTING, arbitrary white space / comments between the
  tokens, empty separators wherever a delimiter separates) is read by `_direct_objects` /
  `direct_object` to the object it denotes.  This includes `int int` NOT followed by `R`
  (two integers), by the soundness direction of the `reference` look-ahead: inside a derivable
  array the text after an integer never continues to `space u16 space R` (`items_stop`).
-/
namespace Lopdf.Grammar
open Lopdf Gen
open Lopdf.ObjRt (StopCtx refTail refTailS)

/-! ### first bytes -/

/-- first byte of the spelling of an object -/
def isItemHead (c : UInt8) : Bool :=
  isDigit c || c == 43 || c == 45 || c == 46 || c == 110 || c == 116 || c == 102 || c == 47 || c == 40 ||
    c == 60 || c == 91

theorem itemHead_facts : ∀ c : UInt8, isItemHead c = true →
    isWhitespace c = false ∧ c ≠ 37 ∧ c ≠ 82 ∧ (isDigit c = false → c ≠ 10) := by
  apply forall_uint8; decide +kernel

theorem numhead_item : ∀ c : UInt8, (isDigit c = true ∨ c = 43 ∨ c = 45 ∨ c = 46) → isItemHead c = true := by
  apply forall_uint8; decide +kernel

theorem obj_head {d : Nat} {o : Obj} {b : Bytes} (h : DerivesObj d o b) (z : Bytes) :
    ∃ c r, b ++ z = c :: r ∧ isItemHead c = true := by
  match h with
  | .null _ => exact ⟨110, _, rfl, by decide⟩
  | .true _ => exact ⟨116, _, rfl, by decide⟩
  | .false _ => exact ⟨102, _, rfl, by decide⟩
  | .int _ i bs hi => obtain ⟨c, r, h1, h2⟩ := int_head i bs z hi; exact ⟨c, r, h1, numhead_item c h2⟩
  | .real _ bs hr => obtain ⟨c, r, h1, h2⟩ := real_head bs z hr; exact ⟨c, r, h1, numhead_item c h2⟩
  | .name _ n bs hn => exact ⟨47, bs ++ z, rfl, by decide⟩
  | .lit _ s bs hl => exact ⟨40, bs ++ [41] ++ z, by simp, by decide⟩
  | .hex _ s bs hh => exact ⟨60, bs ++ [62] ++ z, by simp, by decide⟩
  | .ref _ n g d1 sp1 d2 sp2 h1 hn h2 hg hs1 hs2 =>
    obtain ⟨c, r, h, hd⟩ := head_digit h1 (sp1 ++ d2 ++ sp2 ++ [82] ++ z)
    exact ⟨c, r, by simpa using h, numhead_item c (Or.inl hd)⟩
  | .arr d items sp bs hsp hi => exact ⟨91, sp ++ bs ++ [93] ++ z, by simp, by decide⟩
  | .dict d es sp bs hsp he => exact ⟨60, 60 :: sp ++ bs ++ [62, 62] ++ z, by simp, by decide⟩

theorem obj_ne_nil {d : Nat} {o : Obj} {b : Bytes} (h : DerivesObj d o b) : b ≠ [] := by
  obtain ⟨c, r, h1, _⟩ := obj_head h []
  intro h0; subst h0; simp at h1

theorem obj_len_pos {d : Nat} {o : Obj} {b : Bytes} (h : DerivesObj d o b) : 1 ≤ b.length := by
  have := obj_ne_nil h
  cases b with
  | nil => exact absurd rfl this
  | cons x xs => simp

theorem spaceStop_of_itemHead (c : UInt8) (r : Bytes) (h : isItemHead c = true) : SpaceStop (c :: r) := by
  intro b r' e; injection e with e _; subst e
  exact ⟨(itemHead_facts _ h).1, (itemHead_facts _ h).2.1⟩

theorem space_head_stop {sp : Bytes} (h : DerivesSpace sp) (hne : sp ≠ []) (t : Bytes) : StopHead (sp ++ t) := by
  cases h with
  | nil => exact absurd rfl hne
  | ws b bs hb _ =>
    intro c r e; simp only [List.cons_append] at e; injection e with e _; subst e
    simp [isRegular, hb]
  | comment body e bs _ _ _ =>
    intro c r e'; simp only [List.cons_append, List.append_assoc] at e'; injection e' with e' _; subst e'; decide

/-! ### the stop context after a token -/

/-- in front of a token head: derivable separating text whose first byte (or, when it is empty,
the token's) is not regular, and a token on which the reference look-ahead fails -/
theorem stopCtx_tok (sp : Bytes) (c : UInt8) (r : Bytes) (hsp : DerivesSpace sp)
    (hstop : StopHead (sp ++ c :: r)) (hc : isWhitespace c = false ∧ c ≠ 37 ∧ c ≠ 82)
    (hrt : refTailS (c :: r) = none) : StopCtx (sp ++ c :: r) := by
  have hs : space (sp ++ c :: r) = c :: r :=
    space_complete sp (c :: r) hsp (by intro b r' e; injection e with e _; subst e; exact ⟨hc.1, hc.2.1⟩)
  refine ⟨hstop, ?_, ?_⟩
  · unfold refTail; rw [hs]; exact hrt
  · intro r' e; rw [hs] at e; injection e with e _; exact hc.2.2 e

/-- what an object needs from the text that follows it -/
def After (o : Obj) (rest : Bytes) : Prop := NeedsStop o = true → StopCtx rest

theorem refTailS_digits {n : Nat} {ds : Bytes} (hd : DerivesNat n ds) (Y : Bytes) (hnd : NoDigitAhead Y)
    (hsp : ∀ r, space Y ≠ 82 :: r) : refTailS (ds ++ Y) = none := by
  unfold refTailS
  by_cases hle : n ≤ U16_MAX
  · rw [unsigned_complete hd U16_MAX hle Y hnd]
    simp only [Option.bind]
  · obtain ⟨_, _, hv⟩ := derivesNat_facts hd
    have : pUnsigned U16_MAX (ds ++ Y) = none := by
      simp [pUnsigned, digit1_complete hd Y hnd, hv, hle]
    simp [this]

/-- **soundness of the reference look-ahead, one object**: the look-ahead `u16 space R` fails on
the spelling of any object followed by its stop context -/
theorem obj_refTailS {d : Nat} {o : Obj} {b : Bytes} (h : DerivesObj d o b) (Y : Bytes) (hY : After o Y) :
    refTailS (b ++ Y) = none := by
  have nondigit : ∀ c r, b ++ Y = c :: r → isDigit c = false → refTailS (b ++ Y) = none := by
    intro c r e hc; rw [e]; exact ObjRt.refTailS_nondigit c r hc
  match h with
  | .null _ => exact nondigit 110 _ rfl (by decide)
  | .true _ => exact nondigit 116 _ rfl (by decide)
  | .false _ => exact nondigit 102 _ rfl (by decide)
  | .name _ n bs hn => exact nondigit 47 _ rfl (by decide)
  | .lit _ s bs hl => exact nondigit 40 _ rfl (by decide)
  | .hex _ s bs hh => exact nondigit 60 _ rfl (by decide)
  | .arr d items sp bs hsp hi => exact nondigit 91 _ rfl (by decide)
  | .dict d es sp bs hsp he => exact nondigit 60 _ rfl (by decide)
  | .int _ i _ hi =>
    have hst : StopCtx Y := hY rfl
    match hi with
    | .unsigned n _ hd hn => exact refTailS_digits hd Y (ObjRt.nameStop_noDigit hst.1) hst.2.2
    | .plus n ds hd hn => exact nondigit 43 _ rfl (by decide)
    | .minus n ds hd hn => exact nondigit 45 _ rfl (by decide)
  | .real _ _ hr =>
    match hr with
    | .mk sign d1 d2 hs h1 h2 hne =>
      match hs with
      | .plus => exact nondigit 43 (d1 ++ [46] ++ d2 ++ Y) (by simp) (by decide)
      | .minus => exact nondigit 45 (d1 ++ [46] ++ d2 ++ Y) (by simp) (by decide)
      | .none =>
        match d1, h1, hne with
        | [], _, _ => exact nondigit 46 (d2 ++ Y) (by simp) (by decide)
        | a :: as, h1, _ =>
          have hdn : DerivesNat (digitsVal (a :: as)) (a :: as) :=
            derivesNat_of_digits as.length (a :: as) (by simp) h1
          have e : [] ++ (a :: as) ++ [46] ++ d2 ++ Y = (a :: as) ++ (46 :: (d2 ++ Y)) := by simp
          rw [e]
          have hsp : space (46 :: (d2 ++ Y)) = 46 :: (d2 ++ Y) :=
            space_stop _ (by intro b r e; injection e with e _; subst e; decide)
          exact refTailS_digits hdn _ (by intro b r e; injection e with e _; subst e; decide)
            (by intro r e; rw [hsp] at e; injection e with e _; cases e)
  | .ref _ n g d1 sp1 d2 sp2 h1 hn h2 hg hs1 hs2 =>
    have e : d1 ++ sp1 ++ d2 ++ sp2 ++ [82] ++ Y = d1 ++ (sp1 ++ (d2 ++ (sp2 ++ 82 :: Y))) := by simp
    rw [e]
    obtain ⟨c, r, hcr, hc⟩ := head_digit h2 (sp2 ++ 82 :: Y)
    have hsp : space (sp1 ++ (d2 ++ (sp2 ++ 82 :: Y))) = d2 ++ (sp2 ++ 82 :: Y) :=
      space_complete sp1 _ hs1.1 (by
        rw [hcr]; intro b r' e'; injection e' with e' _; subst e'
        exact ⟨digit_not_ws' _ hc, by intro h37; rw [h37] at hc; simp [isDigit] at hc⟩)
    exact refTailS_digits h1 _ (gap_head sp1 _ ⟨hs1.1, hs1.2⟩)
      (by intro r' e'; rw [hsp, hcr] at e'; injection e' with e' _; rw [e'] at hc; simp [isDigit] at hc)

theorem stopHead_prefix (A Z : Bytes) (hne : A ≠ []) (h : StopHead A) : StopHead (A ++ Z) := by
  cases A with
  | nil => exact absurd rfl hne
  | cons a as => intro b r e; simp only [List.cons_append] at e; injection e with e _; subst e; exact h _ as rfl

/-- **soundness of the reference look-ahead, inside an array**: the text after an item — the
separating text, the remaining items and the closing bracket — is a stop context -/
theorem items_stop : ∀ {d : Nat} {os : List Obj} {bs : Bytes}, DerivesItems d os bs →
    ∀ (sp rest : Bytes), DerivesSpace sp → StopHead (sp ++ bs) → StopCtx (sp ++ (bs ++ 93 :: rest))
  | _, _, _, .nil d, sp, rest, hsp, _ => by
    simp only [List.nil_append]
    refine stopCtx_tok sp 93 rest hsp ?_ (by decide) (ObjRt.refTailS_nondigit 93 rest (by decide))
    by_cases hne : sp = []
    · subst hne; intro b r e; simp only [List.nil_append] at e; injection e with e _; subst e; decide
    · exact space_head_stop hsp hne _
  | _, _, _, .cons d o os b sp' bs' ho hsp' hitems hsep, sp, rest, hsp, hstop => by
    obtain ⟨c, r, hcr, hc⟩ := obj_head ho (sp' ++ (bs' ++ 93 :: rest))
    have e : b ++ sp' ++ bs' ++ 93 :: rest = b ++ (sp' ++ (bs' ++ 93 :: rest)) := by simp
    have hY : After o (sp' ++ (bs' ++ 93 :: rest)) := fun hn => items_stop hitems sp' rest hsp' (hsep hn)
    have hrt := obj_refTailS ho _ hY
    rw [e, hcr]
    rw [hcr] at hrt
    have hf := itemHead_facts c hc
    refine stopCtx_tok sp c r hsp ?_ ⟨hf.1, hf.2.1, hf.2.2.1⟩ hrt
    rw [← hcr]
    have hne : sp ++ (b ++ sp' ++ bs') ≠ [] := by
      have := obj_len_pos ho
      intro h0; have hl := congrArg List.length h0; simp only [List.length_append, List.length_nil] at hl; omega
    have := stopHead_prefix (sp ++ (b ++ sp' ++ bs')) (93 :: rest) hne hstop
    simpa using this

/-- the text after a dictionary value — separating text, then `/` of the next key or `>>` — is a
stop context -/
theorem entries_stop {d : Nat} {es : List (Bytes × Obj)} {bs : Bytes} (h : DerivesEntries d es bs)
    (sp rest : Bytes) (hsp : DerivesSpace sp) : StopCtx (sp ++ (bs ++ 62 :: 62 :: rest)) := by
  have hd : ∃ c r, bs ++ 62 :: 62 :: rest = c :: r ∧ (c = 47 ∨ c = 62) := by
    match h with
    | .nil _ => exact ⟨62, 62 :: rest, rfl, Or.inr rfl⟩
    | .cons _ k kbs v es sp1 vb sp2 bs' _ _ _ _ _ _ =>
      exact ⟨47, kbs ++ sp1 ++ vb ++ sp2 ++ bs' ++ 62 :: 62 :: rest, by simp, Or.inl rfl⟩
  obtain ⟨c, r, hcr, hc⟩ := hd
  rw [hcr]
  have hfacts : isWhitespace c = false ∧ c ≠ 37 ∧ c ≠ 82 ∧ isDigit c = false ∧ isRegular c = false := by
    rcases hc with rfl | rfl <;> decide
  refine stopCtx_tok sp c r hsp ?_ ⟨hfacts.1, hfacts.2.1, hfacts.2.2.1⟩
    (ObjRt.refTailS_nondigit c r hfacts.2.2.2.1)
  by_cases hne : sp = []
  · subst hne; intro b r' e; simp only [List.nil_append] at e; injection e with e _; subst e; exact hfacts.2.2.2.2
  · exact space_head_stop hsp hne _

theorem items_spaceStop {d : Nat} {os : List Obj} {bs : Bytes} (h : DerivesItems d os bs) (rest : Bytes) :
    SpaceStop (bs ++ 93 :: rest) := by
  match h with
  | .nil _ => intro b r e; injection e with e _; subst e; decide
  | .cons _ o os b sp' bs' ho _ _ _ =>
    obtain ⟨c, r, hcr, hc⟩ := obj_head ho (sp' ++ bs' ++ 93 :: rest)
    have e2 : b ++ sp' ++ bs' ++ 93 :: rest = b ++ (sp' ++ bs' ++ 93 :: rest) := by simp
    rw [e2, hcr]; exact spaceStop_of_itemHead c r hc

theorem entries_spaceStop {d : Nat} {es : List (Bytes × Obj)} {bs : Bytes} (h : DerivesEntries d es bs)
    (rest : Bytes) : SpaceStop (bs ++ 62 :: 62 :: rest) := by
  match h with
  | .nil _ => intro b r e; injection e with e _; subst e; decide
  | .cons _ k kbs v es sp1 vb sp2 bs' _ _ _ _ _ _ =>
    intro b r e; simp only [List.cons_append] at e; injection e with e _; subst e; decide

theorem objItems_length : ∀ {d : Nat} {os : List Obj} {bs : Bytes}, DerivesItems d os bs → os.length ≤ bs.length
  | _, _, _, .nil _ => by simp
  | _, _, _, .cons _ o os b sp bs ho _ hi _ => by
    have := objItems_length hi
    have h1 := obj_len_pos ho
    simp only [List.length_cons, List.length_append]; omega

theorem objEntries_length : ∀ {d : Nat} {es : List (Bytes × Obj)} {bs : Bytes}, DerivesEntries d es bs →
    es.length ≤ bs.length
  | _, _, _, .nil _ => by simp
  | _, _, _, .cons _ k kbs v es sp1 vb sp2 bs _ _ _ _ _ he => by
    have := objEntries_length he
    simp only [List.length_cons, List.length_append]; omega

/-! ### atomic objects in a stop context -/

theorem pReference_int_stop (i : Int) (bs rest : Bytes) (h : DerivesInt i bs) (hst : StopCtx rest) :
    pReference (bs ++ rest) = none := by
  match h with
  | .unsigned n _ hd hn =>
    obtain ⟨_, _, hv⟩ := derivesNat_facts hd
    have hnd := ObjRt.nameStop_noDigit hst.1
    rw [ObjRt.pReference_eq]
    by_cases hle : n ≤ U32_MAX
    · simp [unsigned_complete hd U32_MAX hle rest hnd, hst.2.1]
    · have : pUnsigned U32_MAX (bs ++ rest) = none := by
        simp [pUnsigned, digit1_complete hd rest hnd, hv, hle]
      simp [this]
  | .plus n ds hd hn => exact pReference_none_first 43 _ (by decide)
  | .minus n ds hd hn => exact pReference_none_first 45 _ (by decide)

/-- **Integers as direct objects, every spelling, in any stop context** — in particular in
front of another integer that is not followed by `R`. -/
theorem direct_int_stop (i : Int) (bs rest : Bytes) (fuel depth : Nat) (h : DerivesInt i bs)
    (hst : StopCtx rest) : directObjects (fuel + 1) depth (bs ++ rest) = .ok (.int i) rest := by
  obtain ⟨c, r, hcr, hc⟩ := int_head i bs rest h
  have hk := kw_fail_numhead c r hc
  rw [← hcr] at hk
  obtain ⟨a1, a2, a3⟩ := hk
  have hnd := ObjRt.nameStop_noDigit hst.1
  unfold directObjects
  simp only [a1, a2, a3, pReference_int_stop i bs rest h hst,
    pReal_int i bs rest h hnd (ObjRt.nameStop_noDot hst.1), int_complete i bs rest h hnd]

/-! ### the mutual induction -/

theorem setEntries_eq (acc : Dict) (es : List (Bytes × Obj)) (k : Bytes) (v : Obj) :
    setEntries acc ((k, v) :: es) = setEntries (acc.set k v) es := rfl

mutual
/-- **Direct objects, every spelling.** -/
theorem obj_complete : ∀ {d : Nat} {o : Obj} {bs : Bytes}, DerivesObj d o bs →
    ∀ (fuel depth : Nat) (rest : Bytes), depth + d ≤ MAX_NESTING → bs.length < fuel → After o rest →
    directObjects fuel depth (bs ++ rest) = .ok o rest
  | _, _, _, .null d, fuel, depth, rest, _, hf, _ => by
    match fuel, hf with
    | f + 1, _ => exact direct_null rest f depth
  | _, _, _, .true d, fuel, depth, rest, _, hf, _ => by
    match fuel, hf with
    | f + 1, _ => exact direct_true rest f depth
  | _, _, _, .false d, fuel, depth, rest, _, hf, _ => by
    match fuel, hf with
    | f + 1, _ => exact direct_false rest f depth
  | _, _, _, .int d i bs hi, fuel, depth, rest, _, hf, ha => by
    match fuel, hf with
    | f + 1, _ => exact direct_int_stop i bs rest f depth hi (ha rfl)
  | _, _, _, .real d bs hr, fuel, depth, rest, _, hf, ha => by
    match fuel, hf with
    | f + 1, _ => exact direct_real_complete bs rest f depth hr (ObjRt.nameStop_noDigit (ha rfl).1)
  | _, _, _, .name d n bs hn, fuel, depth, rest, _, hf, ha => by
    match fuel, hf with
    | f + 1, _ => exact direct_name_complete n bs rest f depth hn (ha rfl).1
  | _, _, _, .lit d s bs hl, fuel, depth, rest, _, hf, _ => by
    match fuel, hf with
    | f + 1, _ =>
      have := direct_lit_complete s bs rest f depth hl
      simpa using this
  | _, _, _, .hex d s bs hh, fuel, depth, rest, _, hf, _ => by
    match fuel, hf with
    | f + 1, _ =>
      have := direct_hex_complete s bs rest f depth hh
      simpa using this
  | _, _, _, .ref d n g d1 sp1 d2 sp2 h1 hn h2 hg hs1 hs2, fuel, depth, rest, _, hf, _ => by
    match fuel, hf with
    | f + 1, _ =>
      have := direct_reference_complete n g d1 sp1 d2 sp2 rest f depth h1 hn h2 hg ⟨hs1.1, hs1.2⟩ hs2
      simpa using this
  | _, _, _, .arr d items sp bs hsp hitems, fuel, depth, rest, hd, hf, _ => by
    match fuel, hf with
    | f + 1, hf =>
      have e : (91 :: sp ++ bs ++ [93]) ++ rest = 91 :: (sp ++ (bs ++ 93 :: rest)) := by simp
      rw [e, ObjRt.directObjects_compound f depth _ (ObjRt.scalars_arr_none true _)]
      have hstop : SpaceStop (bs ++ 93 :: rest) := by
        exact items_spaceStop hitems rest
      have hs := space_complete sp _ hsp hstop
      simp only [List.length_cons, List.length_append] at hf
      have hm := items_complete hitems f (depth + 1) f rest (by omega) (by omega)
        (by have := objItems_length hitems; omega)
      have hdd : ¬ depth ≥ MAX_NESTING := by omega
      simp only [ObjRt.compound, hdd, if_false, hs, hm]
  | _, _, _, .dict d es sp bs hsp hes, fuel, depth, rest, hd, hf, _ => by
    match fuel, hf with
    | f + 1, hf =>
      have e : (60 :: 60 :: sp ++ bs ++ [62, 62]) ++ rest = 60 :: 60 :: (sp ++ (bs ++ 62 :: 62 :: rest)) := by simp
      rw [e, ObjRt.directObjects_compound f depth _ (ObjRt.scalars_dict_none true _)]
      have hstop : SpaceStop (bs ++ 62 :: 62 :: rest) := by
        exact entries_spaceStop hes rest
      have hs := space_complete sp _ hsp hstop
      simp only [List.length_cons, List.length_append] at hf
      have hm := entries_complete hes f (depth + 1) f rest [] (by omega) (by omega)
        (by have := objEntries_length hes; omega)
      have hdd : ¬ depth ≥ MAX_NESTING := by omega
      simp only [ObjRt.compound, hdd, if_false, hs, hm]
/-- the items of an array up to the closing bracket -/
theorem items_complete : ∀ {d : Nat} {os : List Obj} {bs : Bytes}, DerivesItems d os bs →
    ∀ (fuel depth n : Nat) (rest : Bytes), depth + d ≤ MAX_NESTING → bs.length < fuel → os.length ≤ n →
    manyObjects fuel depth n (bs ++ 93 :: rest) = some (os, 93 :: rest)
  | _, _, _, .nil d, fuel, depth, n, rest, _, _, _ => by
    simpa using ObjRt.manyObjects_error fuel depth n (93 :: rest)
      (ObjRt.directObject_close fuel depth 93 rest (Or.inl rfl))
  | _, _, _, .cons d o os b sp bs ho hsp hitems hsep, fuel, depth, n, rest, hd, hf, hn => by
    match n, hn with
    | n + 1, hn =>
      simp only [List.length_append] at hf
      have hY : After o (sp ++ (bs ++ 93 :: rest)) := fun h => items_stop hitems sp rest hsp (hsep h)
      have ho' := obj_complete ho fuel depth (sp ++ (bs ++ 93 :: rest)) hd (by omega) hY
      have hstop : SpaceStop (bs ++ 93 :: rest) := by
        exact items_spaceStop hitems rest
      have hr := items_complete hitems fuel depth n rest hd (by omega) (by simpa using hn)
      have e : b ++ sp ++ bs ++ 93 :: rest = b ++ (sp ++ (bs ++ 93 :: rest)) := by simp
      rw [e, ObjRt.manyObjects_succ_ok fuel depth n _ _ _ (ObjRt.directObject_of _ _ _ _ _ ho'),
        space_complete sp _ hsp hstop, hr]
      rfl
/-- the pairs of a dictionary up to the closing `>>` -/
theorem entries_complete : ∀ {d : Nat} {es : List (Bytes × Obj)} {bs : Bytes}, DerivesEntries d es bs →
    ∀ (fuel depth n : Nat) (rest : Bytes) (acc : Dict), depth + d ≤ MAX_NESTING → bs.length < fuel →
    es.length ≤ n →
    dictEntries fuel depth n (bs ++ 62 :: 62 :: rest) acc = some (setEntries acc es, 62 :: 62 :: rest)
  | _, _, _, .nil d, fuel, depth, n, rest, acc, _, _, _ => by
    simpa [setEntries] using ObjRt.dictEntries_noname fuel depth n (62 :: 62 :: rest) acc
      (pName_none_first 62 _ (by decide))
  | _, _, _, .cons d k kbs v es sp1 vb sp2 bs hk hsp1 hst1 hv hsp2 hes, fuel, depth, n, rest, acc, hd, hf, hn => by
    match n, hn with
    | n + 1, hn =>
      simp only [List.length_append, List.length_cons] at hf
      -- the key
      have hX : NameStop (sp1 ++ (vb ++ (sp2 ++ (bs ++ 62 :: 62 :: rest)))) := by
        have hne : sp1 ++ vb ≠ [] := by
          have := obj_len_pos hv
          intro h0; have hl := congrArg List.length h0; simp only [List.length_append, List.length_nil] at hl; omega
        have h1 := stopHead_prefix (sp1 ++ vb) (sp2 ++ (bs ++ 62 :: 62 :: rest)) hne hst1
        have h2 : StopHead (sp1 ++ (vb ++ (sp2 ++ (bs ++ 62 :: 62 :: rest)))) := by simpa using h1
        exact fun b r e => h2 b r e
      have hname := name_complete k kbs _ hk hX
      -- the value
      obtain ⟨c, r, hcr, hc⟩ := obj_head hv (sp2 ++ (bs ++ 62 :: 62 :: rest))
      have hsv : space (sp1 ++ (vb ++ (sp2 ++ (bs ++ 62 :: 62 :: rest)))) = vb ++ (sp2 ++ (bs ++ 62 :: 62 :: rest)) :=
        space_complete sp1 _ hsp1 (by rw [hcr]; exact spaceStop_of_itemHead c r hc)
      have hY : After v (sp2 ++ (bs ++ 62 :: 62 :: rest)) := fun _ => entries_stop hes sp2 rest hsp2
      have hv' := obj_complete hv fuel depth (sp2 ++ (bs ++ 62 :: 62 :: rest)) hd (by omega) hY
      have hstop : SpaceStop (bs ++ 62 :: 62 :: rest) := by
        exact entries_spaceStop hes rest
      have hr := entries_complete hes fuel depth n rest (acc.set k v) hd (by omega) (by simpa using hn)
      have e : 47 :: kbs ++ sp1 ++ vb ++ sp2 ++ bs ++ 62 :: 62 :: rest =
          47 :: kbs ++ (sp1 ++ (vb ++ (sp2 ++ (bs ++ 62 :: 62 :: rest)))) := by simp
      rw [e, ObjRt.dictEntries_succ_ok fuel depth n _ acc k _ _ v hname
        (by rw [hsv]; exact ObjRt.directObject_of _ _ _ _ _ hv'),
        space_complete sp2 _ hsp2 hstop, hr]
      rfl
end

/-! ### `direct_object` and `parser::direct_object` -/

/-- a stop context from first bytes only: derivable separating text, then the end of the input or
a token that starts with neither a digit nor `R` (a delimiter, a keyword such as `endobj`, …) -/
theorem stopCtx_of_head (sp rest : Bytes) (hsp : DerivesSpace sp) (hstop : StopHead (sp ++ rest))
    (hr : ∀ b r, rest = b :: r → isWhitespace b = false ∧ b ≠ 37 ∧ b ≠ 82 ∧ isDigit b = false) :
    StopCtx (sp ++ rest) := by
  cases rest with
  | nil =>
    have hs : space (sp ++ []) = [] := space_complete sp [] hsp (by intro b r e; cases e)
    refine ⟨hstop, ?_, ?_⟩
    · unfold refTail; rw [hs]; exact ObjRt.refTailS_nil
    · intro r e; rw [hs] at e; cases e
  | cons c r =>
    obtain ⟨h1, h2, h3, h4⟩ := hr c r rfl
    exact stopCtx_tok sp c r hsp hstop ⟨h1, h2, h3⟩ (ObjRt.refTailS_nondigit c r h4)

/-- **`_direct_object` (object + the white space / comments after it), every spelling.** -/
theorem directObject_complete {d : Nat} {o : Obj} {bs : Bytes} (h : DerivesObj d o bs) (fuel depth : Nat)
    (sp rest : Bytes) (hd : depth + d ≤ MAX_NESTING) (hf : bs.length < fuel) (hsp : DerivesSpace sp)
    (hst : SpaceStop rest) (ha : After o (sp ++ rest)) :
    directObject fuel depth (bs ++ (sp ++ rest)) = .ok o rest := by
  rw [ObjRt.directObject_of _ _ _ _ _ (obj_complete h fuel depth (sp ++ rest) hd hf ha),
    space_complete sp rest hsp hst]

/-- **`parser::direct_object`, every spelling of every direct object**: arrays and dictionaries
nested up to MAX_NESTING, any white space / comments between the tokens and after the object. -/
theorem parseDirect_complete {d : Nat} {o : Obj} {bs : Bytes} (h : DerivesObj d o bs) (sp rest : Bytes)
    (hd : d ≤ MAX_NESTING) (hsp : DerivesSpace sp) (hst : SpaceStop rest) (ha : After o (sp ++ rest)) :
    parseDirect (bs ++ (sp ++ rest)) = some (o, rest) := by
  unfold parseDirect
  rw [directObject_complete h _ 0 sp rest (by omega) (by simp only [List.length_append]; omega) hsp hst ha]

/-! ### non-vacuity -/

theorem stopHead_sp (t : Bytes) : StopHead (32 :: t) := by
  intro b r e; injection e with e _; subst e; decide

/-- `[1 2 3]`: three integers, the second one preceded by an integer and not followed by `R` -/
theorem exArr : DerivesObj 1 (.arr [.int 1, .int 2, .int 3]) (91 :: [] ++ ([49] ++ [32] ++ ([50] ++ [32] ++ ([51] ++ [] ++ []))) ++ [93]) :=
  .arr 0 _ [] _ .nil
    (.cons 0 _ _ [49] [32] _ (.int 0 1 _ (.unsigned 1 _ (.one 49 (by decide)) (by decide))) (.ws 32 _ (by decide) .nil)
      (.cons 0 _ _ [50] [32] _ (.int 0 2 _ (.unsigned 2 _ (.one 50 (by decide)) (by decide))) (.ws 32 _ (by decide) .nil)
        (.cons 0 _ _ [51] [] _ (.int 0 3 _ (.unsigned 3 _ (.one 51 (by decide)) (by decide))) .nil (.nil 0)
          (fun _ b r e => by cases e))
        (fun _ => stopHead_sp _))
      (fun _ => stopHead_sp _))

example : parseDirect ([91, 49, 32, 50, 32, 51, 93] ++ ([10] ++ [101, 110, 100])) =
    some (.arr [.int 1, .int 2, .int 3], [101, 110, 100]) :=
  parseDirect_complete exArr [10] [101, 110, 100] (by decide) (.ws 10 _ (by decide) .nil)
    (by intro b r e; injection e with e _; subst e; decide) (fun h => by cases h)

/-- `<</K 7 0 R/L[/A(x)]>>`: a reference value, no space before the next key, a nested array
whose items are separated by delimiters only -/
theorem exDict : DerivesObj 2 (.dict (setEntries [] [([75], .ref 7 0), ([76], .arr [.name [65], .str [120] .lit])]))
    (60 :: 60 :: [] ++ ((47 :: [75] ++ [32] ++ ([55] ++ [32] ++ [48] ++ [32] ++ [82]) ++ [] ++
      (47 :: [76] ++ [] ++ (91 :: [] ++ ((47 :: [65]) ++ [] ++ ((40 :: [120] ++ [41]) ++ [] ++ [])) ++ [93]) ++ [] ++ []))) ++ [62, 62]) :=
  .dict 1 _ [] _ .nil
    (.cons 1 [75] [75] _ _ [32] _ [] _ (.raw 75 _ _ (by decide) (by decide) .nil) (.ws 32 _ (by decide) .nil)
      (stopHead_sp _)
      (.ref 1 7 0 [55] [32] [48] [32] (.one 55 (by decide)) (by decide) (.one 48 (by decide)) (by decide)
        ⟨.ws 32 _ (by decide) .nil, by simp⟩ (.ws 32 _ (by decide) .nil))
      .nil
      (.cons 1 [76] [76] _ _ [] _ [] _ (.raw 76 _ _ (by decide) (by decide) .nil) .nil
        (by intro b r e; injection e with e _; subst e; decide)
        (.arr 0 _ [] _ .nil
          (.cons 0 _ _ (47 :: [65]) [] _ (.name 0 [65] [65] (.raw 65 _ _ (by decide) (by decide) .nil)) .nil
            (.cons 0 _ _ (40 :: [120] ++ [41]) [] _
              (.lit 0 [120] [120] (.raw _ 120 _ _ (by decide) (by decide) (by decide) (by decide) (.nil _))) .nil (.nil 0)
              (fun h => by cases h))
            (fun _ => by intro b r e; injection e with e _; subst e; decide)))
        .nil (.nil 1)))

example : setEntries [] [([75], Obj.ref 7 0), ([76], .arr [.name [65], .str [120] .lit])] =
    [([75], .ref 7 0), ([76], .arr [.name [65], .str [120] .lit])] := rfl

end Lopdf.Grammar
