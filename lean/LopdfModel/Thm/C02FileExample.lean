import LopdfModel.Thm.C02File
/-
  Non-vacuity of `loadDoc_complete`: a concrete 107-byte file meets every hypothesis.
    %PDF-1.4 LF
    1 0 obj LF /A LF endobj LF
    xref LF 0 2 LF 0000000000 65535 f SP LF 0000000009 00000 n SP LF
    trailer LF <</Size 2>> LF
    startxref LF 27 LF %%EOF
-/
namespace Lopdf.Grammar
open Lopdf Gen

def exVer : Bytes := [49, 46, 52]
def exBody : Bytes := [49, 32, 48, 32, 111, 98, 106, 10, 47, 65, 10, 101, 110, 100, 111, 98, 106, 10]
def exSecs : List TSub := [(0, [(0, 65535, false), (9, 0, true)])]
def exXref : Bytes :=
  [120, 114, 101, 102] ++ [10] ++
    ([48] ++ [32] ++ [50] ++ [] ++ [10] ++
      (([48, 48, 48, 48, 48, 48, 48, 48, 48, 48] ++ [32] ++ [54, 53, 53, 51, 53] ++ [32, 102] ++ [32, 10]) ++
       (([48, 48, 48, 48, 48, 48, 48, 48, 48, 57] ++ [32] ++ [48, 48, 48, 48, 48] ++ [32, 110] ++ [32, 10]) ++ [])))
def exEntries : List (Bytes × Obj) := [([83, 105, 122, 101], .int 2)]
def exEbs : Bytes := 47 :: [83, 105, 122, 101] ++ [32] ++ [50] ++ [] ++ []

theorem exXref_derives : DerivesXrefTable exSecs exXref :=
  .mk _ _ _ .lf
    (.one _ _
      (.mk 0 [(0, 65535, false), (9, 0, true)] _ _ _ _ _ (.one 48 (by decide)) (.one 50 (by decide)) (by decide)
        (by decide) .none .lf
        (.cons _ _ _ _
          (.mk 0 65535 false _ _ _ (derivesNat_lit 0 [48, 48, 48, 48, 48, 48, 48, 48, 48, 48] 9 rfl (by unfold AllDigits; decide) rfl)
            (by decide) (derivesNat_lit 65535 [54, 53, 53, 51, 53] 4 rfl (by unfold AllDigits; decide) rfl) (by decide) .spLf)
          (.cons _ _ _ _
            (.mk 9 0 true _ _ _ (derivesNat_lit 9 [48, 48, 48, 48, 48, 48, 48, 48, 48, 57] 9 rfl (by unfold AllDigits; decide) rfl)
              (by decide) (derivesNat_lit 0 [48, 48, 48, 48, 48] 4 rfl (by unfold AllDigits; decide) rfl) (by decide) .spLf)
            .nil))))

theorem exEntries_derive : DerivesEntries 0 exEntries exEbs :=
  .cons 0 [83, 105, 122, 101] [83, 105, 122, 101] (.int 2) [] [32] [50] [] []
    (.raw 83 _ _ (by decide) (by decide) (.raw 105 _ _ (by decide) (by decide) (.raw 122 _ _ (by decide) (by decide)
      (.raw 101 _ _ (by decide) (by decide) .nil))))
    (.ws 32 _ (by decide) .nil) (by intro b r e; injection e with e _; subst e; decide)
    (.int 0 2 _ (.unsigned 2 _ (.one 50 (by decide)) (by decide))) .nil (.nil 0)

def exTail : Bytes :=
  exXref ++ (TRAILER_KW ++ ([10] ++ ((60 :: 60 :: [] ++ exEbs ++ [62, 62]) ++ ([10] ++ (STARTXREF ++ ([10] ++ ([] ++
    ([50, 55] ++ ([] ++ ([10] ++ (EOF_MARK ++ [])))))))))))

def exFile : Bytes := (PDF_KW ++ (exVer ++ ([10] ++ exBody))) ++ exTail

theorem exIndirect : DerivesIndirect (1, 0) (.name [65])
    ([49] ++ ([32] ++ ([48] ++ ([32] ++ ([111, 98, 106] ++ ([10] ++ ((47 :: [65]) ++ ([10] ++ [101, 110, 100, 111, 98, 106])))))))) :=
  .plain 0 1 0 _ [49] [32] [48] [32] [10] _ [10] (.one 49 (by decide)) (by decide) ⟨.ws 32 _ (by decide) .nil, by simp⟩
    (.one 48 (by decide)) (by decide) ⟨.ws 32 _ (by decide) .nil, by simp⟩ (.ws 10 _ (by decide) .nil)
    (.name 0 [65] [65] (.raw 65 _ _ (by decide) (by decide) .nil)) (by decide) (.ws 10 _ (by decide) .nil)
    (fun _ => by simp)

/-- the concrete file loads to version `1.4`, trailer `<</Size 2>>`, and exactly object `1 0 = /A` -/
theorem exFile_loads : ∃ L, loadDoc exFile = .ok L ∧ L.version = exVer ∧
    L.trailer = [([83, 105, 122, 101], .int 2)] ∧ L.xrefStart = 27 ∧
    L.objects.get (1, 0) = some (.name [65]) ∧ L.objects.get (2, 0) = none := by
  have htab : tableOf exSecs = [(1, .normal 9 0)] := by decide
  obtain ⟨L, h1, h2, h3, h4, _, h6, h7⟩ := loadDoc_complete exVer [10] exBody exSecs exXref [10] [] [10] [10] [] [50, 55] [] [10] []
    2 (fun _ => (0, .name [65]))
    (by intro b hb; simp [exVer] at hb; rcases hb with rfl | rfl | rfl <;> decide) .lf exXref_derives
    (.ws 10 _ (by decide) .nil) .nil exEntries_derive (by decide) (.ws 10 _ (by decide) .nil)
    rfl rfl rfl .lf (by intro b hb; simp at hb)
    (derivesNat_lit _ [50, 55] 1 rfl (by unfold AllDigits; decide) (by decide)) (by intro b hb; simp at hb) .lf .none
    (by decide) (by rw [htab]; decide) exFile rfl
    (by
      intro k e hke
      rw [htab] at hke
      simp only [XTable.get] at hke
      split at hke
      · rename_i hk; subst hk; injection hke with hke; subst hke
        refine ⟨9, rfl, by decide, [], _, [10] ++ exTail, ?_, .nil, exIndirect, ?_⟩
        · decide
        · intro d c h; cases h
      · cases hke)
  refine ⟨L, h1, h2, h3, h4, ?_, ?_⟩
  · exact h6 1 (.normal 9 0) (by rw [htab]; decide)
  · exact h7 (2, 0) (Or.inl (by rw [htab]; decide))

end Lopdf.Grammar
