import LopdfModel.Thm.C15Text
/-
  C15 — non-vacuity of `parseCMap_complete` (a text with tabs, CR LF, a comment, lower-case hex,
  white space inside a target, an array target, `/Procset`, metadata in the other order) and what
  the frame does NOT tolerate (`parse` answers an error).
-/
namespace Lopdf.CMapText
open Lopdf Lopdf.CMap Lopdf.Gen

theorem ms_lf : MS [10] := .ws 10 _ (by simp) .nil
theorem ms1_lf : MS1 [10] := ⟨ms_lf, by simp⟩
theorem ms1_crlf : MS1 [13, 10] := ⟨.ws 13 _ (by simp) ms_lf, by simp⟩
theorem blank1_sp : Blank1 [32] := ⟨by intro b hb; simp at hb; simp [hb], by simp⟩
theorem blank1_tab : Blank1 [9] := ⟨by intro b hb; simp at hb; simp [hb], by simp⟩
theorem blank0_nil : Blank0 [] := by intro b hb; simp at hb
theorem digits1 (c : UInt8) (h : isDigit c = true) : AllDigitsC [c] := ⟨by intro b hb; simp at hb; rw [hb]; exact h, by simp⟩

/-- `<0a>` -/
theorem src_0a : DSrc (10, 1) (60 :: [48, 97] ++ [62]) :=
  .mk [10] [48, 97] (.cons 48 97 [] [] (by decide) (by decide) .nil) (by decide) (by decide)
/-- `<0B>` -/
theorem src_0B : DSrc (11, 1) (60 :: [48, 66] ++ [62]) :=
  .mk [11] [48, 66] (.cons 48 66 [] [] (by decide) (by decide) .nil) (by decide) (by decide)
theorem hb (a b : UInt8) (ha : isHexDigit a = true) (hb' : isHexDigit b = true) :
    DHexBytes [(hexVal a).toNat * 16 + (hexVal b).toNat] [a, b] := .cons a b [] [] ha hb' .nil
/-- `<0041 0042>` : two units with a blank after the first -/
theorem tgt_AB : DTarget [65, 66] (60 :: ([48, 48] ++ [52, 49] ++ [32] ++ ([48, 48] ++ [52, 50] ++ [] ++ [])) ++ [62]) :=
  .mk _ _ (.cons 0 65 [48, 48] [52, 49] [32] _ _ (hb 48 48 (by decide) (by decide)) (hb 52 49 (by decide) (by decide))
      (.ws 32 _ (by simp) .nil)
      (.cons 0 66 [48, 48] [52, 50] [] _ _ (hb 48 48 (by decide) (by decide)) (hb 52 50 (by decide) (by decide)) .nil .nil))
    (by decide) (by decide)
/-- `<0043>` -/
theorem tgt_C : DTarget [67] (60 :: ([48, 48] ++ [52, 51] ++ [] ++ []) ++ [62]) :=
  .mk _ _ (.cons 0 67 [48, 48] [52, 51] [] _ _ (hb 48 48 (by decide) (by decide)) (hb 52 51 (by decide) (by decide)) .nil .nil)
    (by decide) (by decide)

/-- `<0a>` TAB `<0041 0042>` `% c` CR LF -/
theorem exCharLine : DCharLine ((10, 1), [65, 66])
    ((60 :: [48, 97] ++ [62]) ++ [9] ++ (60 :: ([48, 48] ++ [52, 49] ++ [32] ++ ([48, 48] ++ [52, 50] ++ [] ++ [])) ++ [62]) ++
      (37 :: [32, 99] ++ 13 :: [10])) :=
  .mk _ _ _ [9] _ _ src_0a blank1_tab.1 tgt_AB
    ⟨.comment [32, 99] 13 [10] (by intro b hb; simp at hb; rcases hb with rfl | rfl <;> decide) (Or.inr rfl) ms_lf, by simp⟩

/-- `<0a><0B> [ <0043> <0043> ]` LF : a range with an array target, no blank between the codes -/
theorem exRangeLine : DRangeLine ((10, 11, 1), [[67], [67]])
    (((60 :: [48, 97] ++ [62]) ++ [] ++ (60 :: [48, 66] ++ [62])) ++ [32] ++
      (91 :: [32] ++ (60 :: ([48, 48] ++ [52, 51] ++ [] ++ []) ++ [62]) ++
        ([32] ++ (60 :: ([48, 48] ++ [52, 51] ++ [] ++ []) ++ [62]) ++ []) ++ [32] ++ [93]) ++ [10]) :=
  .mk _ _ _ [32] _ _ (.mk 10 11 1 _ [] _ src_0a blank0_nil src_0B) blank1_sp.1
    (.array [67] [[67]] [32] _ _ [32] blank1_sp.1 tgt_C (.cons [67] [] [32] _ [] blank1_sp tgt_C .nil) blank1_sp.1)
    ms1_lf

def exSecs : List Section := [.bfRange [((10, 11, 1), [[67], [67]])], .bfChar [((10, 1), [65, 66])]]

/-- the whole text: `/Procset`, `/CMapType` before `/CMapName`, the range section before the char
section, counts 7 and 1 -/
theorem exText : ∃ text, DerivesCMapText exSecs text :=
  ⟨_, .mk exSecs [] [32] (strBytes "/Procset") [32] [9] [13, 10] [49, 50] [32] [32] [10] [10] _ _ [10] [32] [32] [32] [32]
    [10] [10] [10, 37, 37, 69, 79, 70] [(), ()]
    .nil blank1_sp.1 (Or.inr rfl) blank1_sp blank1_tab ms1_crlf
    ⟨by intro b hb; simp at hb; rcases hb with rfl | rfl <;> decide, by simp⟩ blank1_sp blank1_sp ms1_lf ms1_lf
    (.cons () [()] _ _ (.type [32] [50] [32] [10] blank1_sp (digits1 50 (by decide)) blank1_sp ms1_lf)
      (.cons () [] _ _ (.name [] [65, 45, 66] [32] [10] blank0_nil (by intro b hb; simp at hb; rcases hb with rfl | rfl | rfl <;> decide)
        blank1_sp ms1_lf) .nil))
    (by decide) (by decide) (by simp [exSecs])
    (.cons _ _ _ _ (.bfRange _ [55] [32] [10] _ [10] (digits1 55 (by decide)) blank1_sp ms1_lf (by simp)
        (.cons _ [] _ [] exRangeLine .nil) ms1_lf)
      (.cons _ [] _ [] (.bfChar _ [49] [32] [10] _ [10] (digits1 49 (by decide)) blank1_sp ms1_lf (by simp)
        (.cons _ [] _ [] exCharLine .nil) ms1_lf) .nil))
    ms1_lf blank1_sp blank1_sp blank1_sp blank1_sp ms1_lf ms1_lf⟩

/-- the example text is parsed to its two sections -/
example : ∃ text, parseCMap text = some exSecs := by
  obtain ⟨text, h⟩ := exText
  exact ⟨text, parseCMap_complete h⟩

/-- `/CIDSystemInfo` LF `<< /Registry (Adobe)/Supplement 0 >> def` LF : a literal value, no space
before the next key, an integer value followed by a blank -/
example : DMeta (strBytes "/CIDSystemInfo" ++ [10] ++ [60, 60] ++ [32] ++
    ((47 :: [82] ++ [32] ++ (40 :: [65, 100] ++ [41]) ++ []) ++ ((47 :: [83] ++ [32] ++ [48] ++ [32]) ++ [])) ++
    [62, 62] ++ [32] ++ strBytes "def" ++ [10]) :=
  .cid [10] [32] _ [32] [10] [(), ()] ms_lf (.ws 32 _ (by simp) .nil)
    (.cons () [()] _ _
      (.mk [82] [32] _ [] (by intro b hb; simp at hb; subst hb; decide) (.ws 32 _ (by simp) .nil)
        (.lit [65, 100] (by intro c hc; simp at hc; rcases hc with rfl | rfl <;> decide)) (Or.inl (by simp)) .nil)
      (.cons () [] _ _
        (.mk [83] [32] [48] [32] (by intro b hb; simp at hb; subst hb; decide) (.ws 32 _ (by simp) .nil)
          (.int [48] (digits1 48 (by decide))) (Or.inl (by simp)) (.ws 32 _ (by simp) .nil)) .nil))
    ⟨.ws 32 _ (by simp) .nil, by simp⟩ ms1_lf

/-! ### what the frame does not tolerate -/

/-- an END-OF-LINE between `/CIDInit` and `/ProcSet` (the parser skips only blanks there):
`parse` fails, whatever follows -/
theorem rejects_eol_after_CIDInit (m0 t : Bytes) (hm0 : MS m0) :
    parseCMap (m0 ++ (strBytes "/CIDInit" ++ 10 :: t)) = none := by
  have h10 : space0 (10 :: t) = 10 :: t := by simp [space0]
  have e1 : ptagS "/ProcSet" (10 :: t) = .error := ptagS_head_ne "/ProcSet" 47 _ (by rw [kwb_ProcSet]) (by decide) t
  have e2 : ptagS "/Procset" (10 :: t) = .error := ptagS_head_ne "/Procset" 47 _ (by rw [kwb_Procset]) (by decide) t
  unfold parseCMap pcmapStream pcidinitProcset
  simp only [pthen, pms0, pspace0, PR.bind]
  rw [ms0_tok m0 _ hm0 (hn_s_CIDInit.append _)]
  simp only [ptagS_append, h10, palt, e1, e2]

/-- NO metadata item between `begincmap` and the first section (at least one of `/CIDSystemInfo`,
`/CMapName`, `/CMapType` is required): `parse` fails -/
theorem rejects_no_metadata (m0 b1 b2 b3 m1 n b4 b5 m2 m3 : Bytes) (y : UInt8) (t : Bytes)
    (hm0 : MS m0) (hb1 : Blank0 b1) (hb2 : Blank1 b2) (hb3 : Blank1 b3) (hm1 : MS1 m1) (hn : AllDigitsC n)
    (hb4 : Blank1 b4) (hb5 : Blank1 b5) (hm2 : MS1 m2) (hm3 : MS1 m3) (hy : NonWs y) (hy47 : y ≠ 47) :
    parseCMap (m0 ++ (strBytes "/CIDInit" ++ (b1 ++ (strBytes "/ProcSet" ++ (b2 ++ (strBytes "findresource" ++ (b3 ++
      (strBytes "begin" ++ (m1 ++ (n ++ (b4 ++ (strBytes "dict" ++ (b5 ++ (strBytes "begin" ++ (m2 ++
        (strBytes "begincmap" ++ (m3 ++ y :: t))))))))))))))))) = none := by
  unfold parseCMap pcmapStream
  rw [frame_procset m0 b1 _ b2 b3 m1 _ hm0 hb1 (Or.inl rfl) hb2 hb3 hm1 (digits_headNonWs n _ hn)]
  simp only [PR.bind]
  unfold presourceDict
  rw [frame_dict n b4 b5 m2 _ hn hb4 hb5 hm2 (hn_begincmap.append _)]
  simp only [PR.bind]
  unfold pcmapData
  simp only [pthen, ptagS_append, PR.bind]
  rw [pms1_ms1 m3 y t hm3 hy]
  have : pmetaGo 4 (y :: t) = .ok 0 (y :: t) := by
    show pmetaGo (3 + 1) (y :: t) = _
    rw [pmetaGo]; simp [pmetaItem_stop y t hy47]
  simp [PR.bind, pmetadata, this]

end Lopdf.CMapText
