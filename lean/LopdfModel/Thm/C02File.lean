import LopdfModel.Thm.C02Indirect
import LopdfModel.Thm.C02Tail
import LopdfModel.Thm.C02Load
import LopdfModel.Spec.GrammarFile
/-
  C02 — WHOLE FILES, classic (table) style, one revision: a file made of a header, any body, a
  cross-reference table, a trailer and a `startxref` section — each in every spelling the
  grammars allow — in which every object the table lists is defined at the listed offset
  (`DefinesAt`) loads (model `loadDoc` of `Reader::read`) to exactly the document it defines.
-/
namespace Lopdf.Grammar
open Lopdf Gen

/-! ### an indirect object of the file grammar -/

theorem indirect_any {id : ObjId} {o : Obj} {ibs : Bytes} (h : DerivesIndirect id o ibs) (sp0 rest : Bytes)
    (hsp0 : DerivesSpace sp0) (len : ObjId → Option Int) (expected : Option ObjId) (base : Nat)
    (hexp : ∀ e, expected = some e → e = id) :
    pIndirect len expected base (sp0 ++ (ibs ++ rest)) = some (id, .plain o) := by
  match h with
  | .plain d n g o d1 sp1 d2 sp2 sp3 bs sp4 h1 hn hs1 h2 hg hs2 hsp3 ho hd hsp4 hsep =>
    have := indirect_complete n g sp0 d1 sp1 d2 sp2 sp3 sp4 rest len expected base hsp0 h1 hn ⟨hs1.1, hs1.2⟩
      h2 hg ⟨hs2.1, hs2.2⟩ hsp3 ho hd hsp4 hsep hexp
    simpa [OBJ_KW, ENDOBJ_KW] using this
  | .stream d n g es d1 sp1 d2 sp2 sp3 sp ebs sp5 bl e data e' sp6 h1 hn hs1 h2 hg hs2 hsp3 hsp hes hd hsp5 hbl he
      hlen he' hsp6 =>
    have he2 : IsStreamEol e := by cases he; exact .lf; exact .crlf
    have he3 : IsOptEol e' := by cases he' with | none => exact .none | some _ h => exact .some _ h
    have := indirect_stream_complete n g sp0 d1 sp1 d2 sp2 sp3 sp sp5 bl e data e'
      (sp6 ++ ([101, 110, 100, 111, 98, 106] ++ rest)) len expected base hsp0 h1 hn ⟨hs1.1, hs1.2⟩
      h2 hg ⟨hs2.1, hs2.2⟩ hsp3 hsp hes hd hsp5 hbl he2 hlen he3 hexp
    simpa [OBJ_KW, STREAM_KW, ENDSTREAM_KW, streamSpelling] using this

theorem digit_val_le9 : ∀ b : UInt8, isDigit b = true → (b - 48).toNat ≤ 9 := by
  apply forall_uint8; decide +kernel

theorem digitsVal_lt_pow (ds : Bytes) (h : AllDigits ds) : digitsVal ds < 10 ^ ds.length := by
  have key : ∀ (l : Bytes) (a : Nat), AllDigits l →
      l.foldl (fun acc (d : UInt8) => acc * 10 + (d - 48).toNat) a < (a + 1) * 10 ^ l.length := by
    intro l
    induction l with
    | nil => intro a _; simp
    | cons b rest ih =>
      intro a hl
      have hb : (b - 48).toNat ≤ 9 := digit_val_le9 b (hl b (by simp))
      have := ih (a * 10 + (b - 48).toNat) (fun x hx => hl x (by simp [hx]))
      simp only [List.foldl_cons, List.length_cons, Nat.pow_succ]
      have h2 : (a * 10 + (b - 48).toNat + 1) * 10 ^ rest.length ≤ (a + 1) * (10 ^ rest.length * 10) := by
        have : a * 10 + (b - 48).toNat + 1 ≤ (a + 1) * 10 := by omega
        calc (a * 10 + (b - 48).toNat + 1) * 10 ^ rest.length ≤ ((a + 1) * 10) * 10 ^ rest.length :=
              Nat.mul_le_mul_right _ this
          _ = (a + 1) * (10 ^ rest.length * 10) := by rw [Nat.mul_assoc, Nat.mul_comm 10]
      omega
  have := key ds 0 h
  simpa [digitsVal] using this

/-! ### the header -/

theorem findFrom_prefix (pat r : Bytes) (hne : pat ≠ []) : findFrom pat ((pat ++ r).length + 1) (pat ++ r) 0 = some 0 := by
  cases pat with
  | nil => exact absurd rfl hne
  | cons p ps =>
    have : (p :: ps).isPrefixOf (p :: (ps ++ r)) = true := by
      have := List.prefix_append (p :: ps) r
      simpa [List.isPrefixOf_iff_prefix] using this
    show findFrom (p :: ps) ((p :: (ps ++ r)).length + 1) (p :: (ps ++ r)) 0 = some 0
    unfold findFrom
    simp [this]

theorem validUtf8_ascii (v : Bytes) (h : ∀ b ∈ v, b < 128) : validUtf8 v = true := by
  induction v with
  | nil => rfl
  | cons b rest ih =>
    have hb := h b (by simp)
    unfold validUtf8
    simp [hb, ih (fun x hx => h x (by simp [hx]))]

/-- **The header line**: `%PDF-`, a version text (ASCII, no end-of-line byte), an end-of-line marker -/
theorem header_complete (ver e0 body : Bytes) (hv : ∀ b ∈ ver, b < 128 ∧ notEol b = true) (he0 : IsEol e0) :
    pHeader (PDF_KW ++ (ver ++ (e0 ++ body))) = some ver := by
  obtain ⟨c, r, hcr, hc⟩ := eol_head e0 he0 body
  have hs : spanP notEol (ver ++ (e0 ++ body)) = (ver, e0 ++ body) :=
    spanP_append notEol ver _ (fun b hb => (hv b hb).2) (by
      intro b r' e; rw [hcr] at e; injection e with e _; subst e; rcases hc with rfl | rfl <;> decide)
  obtain ⟨m, r', h1, _⟩ := eol_general e0 body he0
  unfold pHeader
  simp only [tag_append, Option.bind, hs, h1, validUtf8_ascii ver (fun b hb => (hv b hb).1), if_true]

/-! ### cross-reference section and trailer -/

theorem xrefAndTrailer_complete {d : Nat} {es : List (Bytes × Obj)} {ebs : Bytes} (secs : List TSub)
    (xb sp0 sp sp1 rest : Bytes) (size : Int) (hx : DerivesXrefTable secs xb) (hsp0 : DerivesSpace sp0)
    (hsp : DerivesSpace sp) (hes : DerivesEntries d es ebs) (hd : 1 + d ≤ MAX_NESTING) (hsp1 : DerivesSpace sp1)
    (hst : SpaceStop rest) (hsize : (setEntries [] es).get SIZE = some (.int size)) :
    xrefAndTrailer (xb ++ (TRAILER_KW ++ (sp0 ++ ((60 :: 60 :: sp ++ ebs ++ [62, 62]) ++ (sp1 ++ rest))))) =
      .ok (tableOf secs, (size % (U32 : Int)).toNat, setEntries [] es) := by
  have hT : SpaceStop (TRAILER_KW ++ (sp0 ++ ((60 :: 60 :: sp ++ ebs ++ [62, 62]) ++ (sp1 ++ rest)))) := by
    intro b r e; injection e with e _; subst e; decide
  have h1 := xref_complete secs xb (TRAILER_KW ++ (sp0 ++ ((60 :: 60 :: sp ++ ebs ++ [62, 62]) ++ (sp1 ++ rest)))) hx
    (by
      have : whiteSpace (TRAILER_KW ++ (sp0 ++ ((60 :: 60 :: sp ++ ebs ++ [62, 62]) ++ (sp1 ++ rest)))) =
          TRAILER_KW ++ (sp0 ++ ((60 :: 60 :: sp ++ ebs ++ [62, 62]) ++ (sp1 ++ rest))) :=
        whiteSpace_nonws 116 _ (by decide)
      rw [this]; intro b r e; injection e with e _; subst e; decide)
  rw [space_stop _ hT] at h1
  have h2 := trailer_complete sp0 sp sp1 rest hsp0 hsp hes hd hsp1 hst
  unfold xrefAndTrailer
  simp only [h1, h2, hsize, Option.bind, Obj.asInt]

/-! ### the cross-reference map in key order -/

theorem get_insertSorted (k : Nat) (v : XEntry) (t : XTable) (n : Nat) :
    (insertSorted k v t).get n = if k = n then some v else t.get n := by
  induction t with
  | nil => simp [insertSorted, XTable.get]
  | cons p rest ih =>
    obtain ⟨k', v'⟩ := p
    simp only [insertSorted]
    by_cases h1 : k < k'
    · simp [h1, XTable.get]
    · by_cases h2 : k = k'
      · subst h2; simp only [Nat.lt_irrefl, if_false, if_true, XTable.get]
        by_cases h3 : k = n <;> simp [h3]
      · simp only [h1, h2, if_false, XTable.get, ih]
        by_cases h3 : k' = n
        · subst h3; simp [h2]
        · simp [h3]

theorem sorted_get (x : XTable) (n : Nat) : x.sorted.get n = x.get n := by
  induction x with
  | nil => rfl
  | cons p rest ih =>
    obtain ⟨k, v⟩ := p
    have : XTable.sorted ((k, v) :: rest) = insertSorted k v (XTable.sorted rest) := rfl
    rw [this, get_insertSorted, ih]
    simp [XTable.get]

theorem mem_insertSorted (k : Nat) (v : XEntry) (t : XTable) (q : Nat × XEntry) (h : q ∈ insertSorted k v t) :
    q = (k, v) ∨ q ∈ t := by
  induction t with
  | nil => simp [insertSorted] at h; exact Or.inl h
  | cons p rest ih =>
    obtain ⟨k', v'⟩ := p
    simp only [insertSorted] at h
    by_cases h1 : k < k'
    · simp only [h1, if_true, List.mem_cons] at h
      rcases h with h | h | h
      · exact Or.inl h
      · exact Or.inr (by simp [h])
      · exact Or.inr (by simp [h])
    · by_cases h2 : k = k'
      · subst h2
        simp only [Nat.lt_irrefl, if_false, if_true, List.mem_cons] at h
        rcases h with h | h
        · exact Or.inl h
        · exact Or.inr (by simp [h])
      · simp only [h1, h2, if_false, List.mem_cons] at h
        rcases h with h | h
        · exact Or.inr (by simp [h])
        · rcases ih h with h | h
          · exact Or.inl h
          · exact Or.inr (by simp [h])

def KeysAsc (t : XTable) : Prop := t.Pairwise fun a b => a.1 < b.1

theorem keysAsc_insertSorted (k : Nat) (v : XEntry) (t : XTable) (h : KeysAsc t) : KeysAsc (insertSorted k v t) := by
  induction t with
  | nil => simp [insertSorted, KeysAsc]
  | cons p rest ih =>
    obtain ⟨k', v'⟩ := p
    have hp := List.pairwise_cons.mp h
    simp only [insertSorted]
    by_cases h1 : k < k'
    · simp only [h1, if_true]
      refine List.pairwise_cons.mpr ⟨?_, h⟩
      intro q hq
      rcases List.mem_cons.mp hq with rfl | hq
      · exact h1
      · exact Nat.lt_trans h1 (hp.1 q hq)
    · by_cases h2 : k = k'
      · subst h2
        simp only [Nat.lt_irrefl, if_false, if_true]
        exact List.pairwise_cons.mpr ⟨hp.1, hp.2⟩
      · simp only [h1, h2, if_false]
        refine List.pairwise_cons.mpr ⟨?_, ih hp.2⟩
        intro q hq
        rcases mem_insertSorted k v rest q hq with rfl | hq
        · show k' < k; omega
        · exact hp.1 q hq

theorem keysAsc_sorted (x : XTable) : KeysAsc x.sorted := by
  induction x with
  | nil => simp [XTable.sorted, KeysAsc]
  | cons p rest ih => exact keysAsc_insertSorted p.1 p.2 _ ih

theorem get_of_mem_asc (t : XTable) (h : KeysAsc t) (p : Nat × XEntry) (hp : p ∈ t) : t.get p.1 = some p.2 := by
  induction t with
  | nil => simp at hp
  | cons a rest ih =>
    obtain ⟨ak, av⟩ := a
    have ha := List.pairwise_cons.mp h
    rcases List.mem_cons.mp hp with rfl | hp'
    · simp [XTable.get]
    · have : ak ≠ p.1 := Nat.ne_of_lt (ha.1 p hp')
      simp only [XTable.get, this, if_false]
      exact ih ha.2 hp'

theorem mem_of_get (t : XTable) (k : Nat) (e : XEntry) (h : t.get k = some e) : (k, e) ∈ t := by
  induction t with
  | nil => simp [XTable.get] at h
  | cons a rest ih =>
    obtain ⟨ak, av⟩ := a
    by_cases hk : ak = k
    · subst hk; simp [XTable.get] at h; subst h; simp
    · simp only [XTable.get, hk, if_false] at h
      exact List.mem_cons_of_mem _ (ih h)

/-- the entries `Reader::read` walks through are exactly the bindings of the map -/
theorem mem_sorted_iff (x : XTable) (k : Nat) (e : XEntry) : (k, e) ∈ x.sorted ↔ x.get k = some e := by
  constructor
  · intro h
    have := get_of_mem_asc x.sorted (keysAsc_sorted x) (k, e) h
    rwa [sorted_get] at this
  · intro h
    exact mem_of_get _ k e (by rw [sorted_get]; exact h)

/-! ### the objects -/

theorem lget_insert (os : LObjects) (id id' : ObjId) (lo : LObj) :
    (os.insert id lo).get id' = if id = id' then some lo else os.get id' := by
  induction os with
  | nil => simp [LObjects.insert, LObjects.get]
  | cons p rest ih =>
    obtain ⟨i, o'⟩ := p
    simp only [LObjects.insert]
    by_cases h : i = id
    · subst h; simp only [if_true, LObjects.get]
      by_cases h2 : i = id' <;> simp [h2]
    · simp only [h, if_false, LObjects.get, ih]
      by_cases h2 : i = id'
      · subst h2; simp [h, Ne.symm h]
      · simp [h2]

theorem allPlain_insert (os : LObjects) (id : ObjId) (o : Obj) (h : AllPlain os) : AllPlain (os.insert id (.plain o)) := by
  induction os with
  | nil => intro p hp; simp [LObjects.insert] at hp; exact ⟨o, by rw [hp]⟩
  | cons a rest ih =>
    obtain ⟨i, o'⟩ := a
    have hr : AllPlain rest := fun p hp => h p (List.mem_cons_of_mem _ hp)
    intro p hp
    simp only [LObjects.insert] at hp
    by_cases hi : i = id
    · simp only [hi, if_true, List.mem_cons] at hp
      rcases hp with rfl | hp
      · exact ⟨o, rfl⟩
      · exact hr p hp
    · simp only [hi, if_false, List.mem_cons] at hp
      rcases hp with rfl | hp
      · exact h _ (by simp)
      · exact ih hr p hp

theorem getTypeIs_notObjStm (d : Dict) (h : d.get TYPE ≠ some (Obj.name OBJSTM)) : Dict.getTypeIs d OBJSTM = false := by
  unfold Dict.getTypeIs
  cases hg : d.get TYPE with
  | none => rfl
  | some v =>
    cases v <;> simp [Obj.asName]
    rename_i n
    intro hn; subst hn; exact h hg

/-- one step of the loading pass on an entry whose object the file defines -/
theorem loadStep_defined (buf : Bytes) (x : XTable) (N : Nat) (os : LObjects) (k off g : Nat) (o : Obj)
    (hoff : off ≤ buf.length)
    (hind : ∀ len, pIndirect len none off (buf.drop off) = some ((k, g), .plain o))
    (hno : NotObjStm o) :
    loadStep buf x N (.ok (os, [])) (k, .normal off g) = .ok (os.insert (k, g) (.plain o), []) := by
  have h1 : ¬ (off > buf.length) := by omega
  unfold loadStep
  simp only [h1, if_false, hind]
  cases o with
  | stream d c =>
    have := getTypeIs_notObjStm d (hno d c rfl)
    simp [this]
  | _ => rfl

/-- the number, generation and value of the object a binding of the cross-reference map stands for -/
def loadedOf (val : Nat → Nat × Obj) (os : LObjects) (l : XTable) : LObjects :=
  l.foldl (fun acc p => acc.insert (p.1, (val p.1).1) (.plain (val p.1).2)) os

theorem loadSteps_defined (buf : Bytes) (x : XTable) (N : Nat) (val : Nat → Nat × Obj) :
    ∀ (l : XTable) (os : LObjects),
    (∀ p ∈ l, ∃ off, p.2 = .normal off (val p.1).1 ∧ off ≤ buf.length ∧
      (∀ len, pIndirect len none off (buf.drop off) = some ((p.1, (val p.1).1), .plain (val p.1).2)) ∧
      NotObjStm (val p.1).2) →
    l.foldl (loadStep buf x N) (.ok (os, [])) = .ok (loadedOf val os l, []) := by
  intro l
  induction l with
  | nil => intro os _; rfl
  | cons p rest ih =>
    intro os h
    obtain ⟨off, h1, h2, h3, h4⟩ := h p (by simp)
    obtain ⟨k, e⟩ := p
    simp only at h1 h3 h4
    subst h1
    simp only [List.foldl_cons, loadedOf]
    rw [loadStep_defined buf x N os k off _ _ h2 h3 h4]
    exact ih _ (fun q hq => h q (List.mem_cons_of_mem _ hq))

theorem allPlain_loadedOf (val : Nat → Nat × Obj) : ∀ (l : XTable) (os : LObjects), AllPlain os →
    AllPlain (loadedOf val os l) := by
  intro l
  induction l with
  | nil => intro os h; exact h
  | cons p rest ih => intro os h; exact ih _ (allPlain_insert os _ _ h)

theorem loadedOf_get (val : Nat → Nat × Obj) : ∀ (l : XTable) (os : LObjects) (id : ObjId),
    (loadedOf val os l).get id =
      if (∃ p ∈ l, p.1 = id.1) ∧ id.2 = (val id.1).1 then some (.plain (val id.1).2) else os.get id := by
  intro l
  induction l with
  | nil => intro os id; simp [loadedOf]
  | cons p rest ih =>
    intro os id
    have : loadedOf val os (p :: rest) = loadedOf val (os.insert (p.1, (val p.1).1) (.plain (val p.1).2)) rest := rfl
    rw [this, ih, lget_insert]
    by_cases hg : id.2 = (val id.1).1
    · by_cases hr : ∃ q ∈ rest, q.1 = id.1
      · have : ∃ q ∈ p :: rest, q.1 = id.1 := by obtain ⟨q, hq, h⟩ := hr; exact ⟨q, List.mem_cons_of_mem _ hq, h⟩
        simp [hg, hr, this]
      · by_cases hp : p.1 = id.1
        · have : ∃ q ∈ p :: rest, q.1 = id.1 := ⟨p, by simp, hp⟩
          have hid : (p.1, (val p.1).1) = id := by
            obtain ⟨a, b⟩ := id
            simp only at hp hg
            subst hp; rw [hg]
          simp only [hr, false_and, if_false, hid, if_true, this, hg, true_and]
          simp only [← hid]
        · have h1 : ¬ ∃ q ∈ p :: rest, q.1 = id.1 := by
            rintro ⟨q, hq, h⟩
            rcases List.mem_cons.mp hq with rfl | hq
            · exact hp h
            · exact hr ⟨q, hq, h⟩
          have h2 : (p.1, (val p.1).1) ≠ id := by intro h; apply hp; rw [← h]
          simp [hr, h1, h2, hp]
    · have h2 : (p.1, (val p.1).1) ≠ id := by
        intro h; apply hg; rw [← h]
      simp [hg, h2]

theorem oget_insertSortedO (k : ObjId) (v : Obj) (t : Objects) (id : ObjId) :
    Objects.get (insertSortedO k v t) id = if k = id then some v else Objects.get t id := by
  induction t with
  | nil => simp [insertSortedO, Objects.get]
  | cons p rest ih =>
    obtain ⟨k', v'⟩ := p
    simp only [insertSortedO]
    by_cases h : idLe k k' = true
    · simp [h, Objects.get]
    · have hne : k ≠ k' := by
        intro e; subst e; apply h; simp [idLe]
      by_cases h2 : k' = id
      · subst h2
        simp [h, Objects.get, hne]
      · simp [h, Objects.get, ih, h2]

theorem asObjects_get (os : LObjects) (id : ObjId) :
    Objects.get (asObjects (os.map fun p => (p.1, unplain p.2))) id = (os.get id).map unplain := by
  induction os with
  | nil => rfl
  | cons p rest ih =>
    obtain ⟨i, lo⟩ := p
    have : asObjects (((i, lo) :: rest).map fun p => (p.1, unplain p.2)) =
        insertSortedO i (unplain lo) (asObjects (rest.map fun p => (p.1, unplain p.2))) := rfl
    rw [this, oget_insertSortedO, ih]
    by_cases h : i = id <;> simp [LObjects.get, h]

/-! ### whole files -/

/-- **Whole files (table style, one revision), every spelling.**
The file: `%PDF-` version EOL, ANY body, a cross-reference table (`DerivesXrefTable`), `trailer`
and its dictionary (`DerivesEntries`, with an integer `Size`, no `Prev`, no `Encrypt`), the
`startxref` section stating the offset of the table, `%%EOF`.  If every object number the table
binds (`tableOf secs`, by `tableOf_get` the last in-use line for the number) is DEFINED by the
file at the bound offset (`DefinesAt`: an indirect object in any spelling, value `val k`), then
`Reader::read` (model `loadDoc`) succeeds and the loaded document has the version text, the
trailer dictionary, the `startxref` offset, and EXACTLY the objects the file defines: each bound
number loads to its object, every other id is absent. -/
theorem loadDoc_complete {d : Nat} {es : List (Bytes × Obj)} {ebs : Bytes} (ver e0 body : Bytes)
    (secs : List TSub) (xb sp0 sp sp1 e1 s1 ds s2 e2 post : Bytes) (size : Int) (val : Nat → Nat × Obj)
    (hv : ∀ b ∈ ver, b < 128 ∧ notEol b = true) (he0 : IsEol e0)
    (hx : DerivesXrefTable secs xb) (hsp0 : DerivesSpace sp0) (hsp : DerivesSpace sp)
    (hes : DerivesEntries d es ebs) (hd : 1 + d ≤ MAX_NESTING) (hsp1 : DerivesSpace sp1)
    (hsize : (setEntries [] es).get SIZE = some (.int size)) (hprev : (setEntries [] es).get PREV = none)
    (henc : (setEntries [] es).get ENCRYPT = none)
    (he1 : IsEol e1) (hs1 : AllSp s1) (hds : DerivesNat (PDF_KW ++ (ver ++ (e0 ++ body))).length ds)
    (hs2 : AllSp s2) (he2 : IsEol e2) (hpost : IsFileEnd post)
    (hshort : (STARTXREF ++ (e1 ++ (s1 ++ (ds ++ (s2 ++ e2))))).length ≤ 25)
    (hmax : (tableOf secs).maxId + 1 < 4294967296)
    (file : Bytes)
    (hfile : file = (PDF_KW ++ (ver ++ (e0 ++ body))) ++ (xb ++ (TRAILER_KW ++ (sp0 ++
      ((60 :: 60 :: sp ++ ebs ++ [62, 62]) ++ (sp1 ++ (STARTXREF ++ (e1 ++ (s1 ++ (ds ++ (s2 ++ (e2 ++
        (EOF_MARK ++ post)))))))))))))
    (hdef : ∀ k e, (tableOf secs).get k = some e →
      ∃ off, e = .normal off (val k).1 ∧ DefinesAt file off k (val k).1 (val k).2) :
    ∃ L, loadDoc file = .ok L ∧ L.version = ver ∧ L.trailer = setEntries [] es ∧
      L.xrefStart = (PDF_KW ++ (ver ++ (e0 ++ body))).length ∧ L.maxId = (tableOf secs).maxId ∧
      (∀ k e, (tableOf secs).get k = some e → L.objects.get (k, (val k).1) = some (val k).2) ∧
      (∀ id : ObjId, ((tableOf secs).get id.1 = none ∨ id.2 ≠ (val id.1).1) → L.objects.get id = none) := by
  -- the startxref section
  have hlen : (PDF_KW ++ (ver ++ (e0 ++ body))).length ≤ I64MAX := by
    -- the offset text has at most 15 digits (the section is at most 25 bytes), so its value fits i64
    obtain ⟨_, hdig, hval⟩ := derivesNat_facts hds
    have hl : ds.length ≤ 15 := by
      have h1 : 1 ≤ e1.length := by cases he1 <;> simp
      have h2 : 1 ≤ e2.length := by cases he2 <;> simp
      simp only [List.length_append, STARTXREF, List.length_cons, List.length_nil] at hshort
      omega
    have hb := digitsVal_lt_pow ds hdig
    rw [hval] at hb
    have : 10 ^ ds.length ≤ 10 ^ 15 := Nat.pow_le_pow_right (by decide) hl
    simp only [I64MAX]; omega
  have hlong : 25 < ((PDF_KW ++ (ver ++ (e0 ++ body))) ++ (xb ++ (TRAILER_KW ++ (sp0 ++
      ((60 :: 60 :: sp ++ ebs ++ [62, 62]) ++ sp1)))) ++ (STARTXREF ++ (e1 ++ (s1 ++ (ds ++ (s2 ++ e2)))))).length := by
    have h1 : 1 ≤ e1.length := by cases he1 <;> simp
    simp only [List.length_append, PDF_KW, TRAILER_KW, STARTXREF, List.length_cons, List.length_nil]
    omega
  have hfile2 : file = ((PDF_KW ++ (ver ++ (e0 ++ body))) ++ (xb ++ (TRAILER_KW ++ (sp0 ++
      ((60 :: 60 :: sp ++ ebs ++ [62, 62]) ++ sp1))))) ++ (STARTXREF ++ (e1 ++ (s1 ++ (ds ++ (s2 ++ (e2 ++
        (EOF_MARK ++ post))))))) := by rw [hfile]; simp
  have g2 : getXrefStart file = some (PDF_KW ++ (ver ++ (e0 ++ body))).length := by
    rw [hfile2]
    exact getXrefStart_complete _ _ e1 s1 ds s2 e2 post he1 hs1 hds hlen hs2 he2 hpost hshort hlong
  -- header
  have hfile3 : file = PDF_KW ++ (ver ++ (e0 ++ (body ++ (xb ++ (TRAILER_KW ++ (sp0 ++
      ((60 :: 60 :: sp ++ ebs ++ [62, 62]) ++ (sp1 ++ (STARTXREF ++ (e1 ++ (s1 ++ (ds ++ (s2 ++ (e2 ++
        (EOF_MARK ++ post))))))))))))))) := by rw [hfile]; simp
  have g0 : findFrom PDF_KW (file.length + 1) file 0 = some 0 := by
    rw [hfile3]; exact findFrom_prefix PDF_KW _ (by decide)
  have g1 : pHeader file = some ver := by rw [hfile3]; exact header_complete ver e0 _ hv he0
  -- cross-reference section and trailer
  have g3 : xrefAndTrailer (file.drop (PDF_KW ++ (ver ++ (e0 ++ body))).length) =
      .ok (tableOf secs, (size % (U32 : Int)).toNat, setEntries [] es) := by
    rw [hfile, List.drop_left]
    exact xrefAndTrailer_complete secs xb sp0 sp sp1 _ size hx hsp0 hsp hes hd hsp1
      (by intro b r e; injection e with e _; subst e; decide) hsize
  have g2' : (PDF_KW ++ (ver ++ (e0 ++ body))).length ≤ file.length := by
    rw [hfile]; simp only [List.length_append]; omega
  -- the objects
  have hobj : ∀ p ∈ (tableOf secs).sorted, ∃ off, p.2 = .normal off (val p.1).1 ∧ off ≤ file.length ∧
      (∀ len, pIndirect len none off (file.drop off) = some ((p.1, (val p.1).1), .plain (val p.1).2)) ∧
      NotObjStm (val p.1).2 := by
    intro p hp
    obtain ⟨k, e⟩ := p
    obtain ⟨off, h1, h2, sp', ibs, rest, h3, h4, h5, h6⟩ := hdef k e ((mem_sorted_iff _ k e).mp hp)
    refine ⟨off, h1, h2, ?_, h6⟩
    intro len
    rw [h3]
    exact indirect_any h5 sp' rest h4 len none off (by intro e he; cases he)
  have g7 := loadSteps_defined file (tableOf secs) (tableOf secs).sorted.length val (tableOf secs).sorted [] hobj
  have g9 : AllPlain (loadedOf val [] (tableOf secs).sorted) :=
    allPlain_loadedOf val _ [] (by intro p hp; simp at hp)
  have g6 : (setEntries [] es).has ENCRYPT = false := by simp [Dict.has, henc]
  obtain ⟨mark, hload⟩ := loadDocWith_of_parts id id file ver _ (tableOf secs) _ (setEntries [] es) _
    g0 g1 g2 g2' g3 hprev (by simpa [U32] using hmax) g6 g7 rfl rfl g9
  refine ⟨_, hload, rfl, rfl, rfl, rfl, ?_, ?_⟩
  · intro k e hke
    show Objects.get (asObjects _) (k, (val k).1) = some (val k).2
    rw [asObjects_get, loadedOf_get]
    have : (∃ p ∈ (tableOf secs).sorted, p.1 = (k, (val k).1).1) ∧ (k, (val k).1).2 = (val (k, (val k).1).1).1 :=
      ⟨⟨(k, e), (mem_sorted_iff _ k e).mpr hke, rfl⟩, rfl⟩
    rw [if_pos this]
    rfl
  · intro id hid
    show Objects.get (asObjects _) id = none
    rw [asObjects_get, loadedOf_get]
    have : ¬ ((∃ p ∈ (tableOf secs).sorted, p.1 = id.1) ∧ id.2 = (val id.1).1) := by
      rintro ⟨⟨p, hp, h1⟩, h2⟩
      rcases hid with h | h
      · obtain ⟨pk, pe⟩ := p
        have := (mem_sorted_iff _ pk pe).mp hp
        simp only at h1; subst h1
        rw [h] at this; cases this
      · exact h h2
    rw [if_neg this]
    rfl

end Lopdf.Grammar
