import LopdfModel.Thm.FileLoadObjects
/-
  C01 (file level) — `load ∘ save` for cross-reference-STREAM saves, down to the objects
  (modulo the object-level round trips): the reader also loads the cross-reference stream
  object itself, under the number `max_id + 1` the writer gave it.
-/
namespace Lopdf.FileRT
open Lopdf Gen

theorem Dict_set_same (d : Dict) (k : Bytes) (v : Obj) (h : d.get k = some v) : d.set k v = d := by
  induction d with
  | nil => simp [Dict.get] at h
  | cons e r ih =>
    obtain ⟨k', v'⟩ := e
    by_cases hk : k' = k
    · subst hk
      simp only [Dict.get, if_true] at h
      injection h with h
      subst h
      simp [Dict.set]
    · simp only [Dict.get, hk, if_false] at h
      simp [Dict.set, hk, ih h]

theorem Objects_get_append (a b : Objects) (id : ObjId) :
    Objects.get (a ++ b) id = (Objects.get a id).orElse (fun _ => Objects.get b id) := by
  induction a with
  | nil => simp [Objects.get]
  | cons p rest ih =>
    obtain ⟨i, o⟩ := p
    by_cases h : i = id <;> simp [Objects.get, h, ih]

/-! ### the dictionaries of a cross-reference-stream save -/

section
variable (pre : Bytes) (d : SDoc) (hnd : d.trailer.keys.Nodup)
include hnd

theorem t4_nodup :
    (((((d.trailer.set TYPE (.name XREF_NAME)).set SIZE (.int (d.maxId + 1 + 1))).set W_KEY
      (.arr (XREF_W.map fun (w : Nat) => Obj.int (Int.ofNat w)))).set INDEX
      (xrefStreamIndex (streamSecs (xmapStream pre d) (d.maxId + 1)))).keys).Nodup :=
  Dict_nodup_set _ _ _ (Dict_nodup_set _ _ _ (Dict_nodup_set _ _ _ (Dict_nodup_set _ _ _ hnd)))

theorem streamTrailer_nodup : (streamTrailer pre d).keys.Nodup :=
  Dict_nodup_set _ _ _ (Dict_nodup_remove _ _ (t4_nodup pre d hnd))

theorem streamTrailer_get_other (k : Bytes) (h1 : ¬ TYPE = k) (h2 : ¬ SIZE = k) (h3 : ¬ W_KEY = k)
    (h4 : ¬ INDEX = k) (h5 : ¬ FILTER = k) (h6 : ¬ LENGTH = k) :
    (streamTrailer pre d).get k = d.trailer.get k := by
  simp only [streamTrailer, Dict_get_set, Dict_get_remove _ _ _ (t4_nodup pre d hnd), h1, h2, h3, h4, h5, h6,
    if_false]

theorem streamTrailer_get_type : (streamTrailer pre d).get TYPE = some (.name XREF_NAME) := by
  have k1 : ¬ LENGTH = TYPE := by decide
  have k2 : ¬ FILTER = TYPE := by decide
  have k3 : ¬ INDEX = TYPE := by decide
  have k4 : ¬ W_KEY = TYPE := by decide
  have k5 : ¬ SIZE = TYPE := by decide
  simp only [streamTrailer, Dict_get_set, Dict_get_remove _ _ _ (t4_nodup pre d hnd), k1, k2, k3, k4, k5,
    if_false, if_true]

theorem streamTrailerRead_get_other (k : Bytes) (h1 : ¬ TYPE = k) (h2 : ¬ SIZE = k) (h3 : ¬ W_KEY = k)
    (h4 : ¬ INDEX = k) (h5 : ¬ FILTER = k) (h6 : ¬ LENGTH = k) :
    (streamTrailerRead pre d).get k = d.trailer.get k := by
  have n0 := Dict_nodup_set _ LENGTH
    (.int (xrefStreamContent (streamSecs (xmapStream pre d) (d.maxId + 1))).length) (streamTrailer_nodup pre d hnd)
  have n1 := Dict_nodup_remove _ LENGTH n0
  have n2 := Dict_nodup_remove _ W_KEY n1
  unfold streamTrailerRead
  rw [Dict_get_remove _ _ _ n2, Dict_get_remove _ _ _ n1, Dict_get_remove _ _ _ n0, Dict_get_set]
  simp only [h4, h3, h6, if_false]
  exact streamTrailer_get_other pre d hnd k h1 h2 h3 h4 h5 h6

end

/-- **`Reader::read` on a cross-reference-stream save, up to the object pass.** -/
theorem load_front_of_save_stream (arr : List Block → List Block) (arr2 : List ObjId → List ObjId) (d : SDoc) (out : Bytes) (d' : SDoc)
    (hk : d.xrefKind = .stream) (h : saveFrom [] d = some (out, d')) (hlen : out.length < 4294967296)
    (hmax : d.maxId + 2 ≤ 4294967295) (hg : GensOk d) (hnd : d.trailer.keys.Nodup)
    (hD : DictReadsBack d'.trailer (STREAM_KW ++ (xrefStreamContent (streamSecs (xmapStream [] d) (d.maxId + 1))
      ++ (ENDSTREAM_KW ++ 32 :: (ENDOBJ_TAIL ++ (STARTXREF_KW ++ natDigits (bodyOf [] d).length ++ EOF_KW))))))
    (hv1 : ∀ b ∈ d.version, notEol b = true) (hv2 : validUtf8 d.version = true)
    (hprev : d.trailer.get PREV = none) (henc : d.trailer.has ENCRYPT = false) :
    ∃ table,
      (∀ n, table.get n = if 1 ≤ n ∧ n ≤ d.maxId + 1 then normalOf (xmapStream [] d) n else none) ∧
      (table.map (·.1)).Nodup ∧
      loadDocWith arr arr2 out
        = objectPass arr arr2 out d.version d.binaryMark table (streamTrailerRead [] d) (bodyOf [] d).length := by
  obtain ⟨xs, table, hxs, hle, hxt, hget, _, hnodup⟩ :=
    load_xref_of_save_stream [] d out d' hk h hlen hmax hg hnd hD
  have hxs' : xs = (bodyOf [] d).length := by
    have := startxref_found [] d out d' h hlen
    rw [hxs] at this; injection this
  subst hxs'
  obtain ⟨R, hR⟩ := saveFrom_header d out d' h
  refine ⟨table, hget, hnodup, ?_⟩
  apply load_front arr arr2 out d.version d.binaryMark R hR hv1 hv2 (saveFrom_mark [] d out d' h) _ hxs hle
    table (d.maxId + 2) (streamTrailerRead [] d) hxt
  · rw [streamTrailerRead_get_other [] d hnd PREV (by decide) (by decide) (by decide) (by decide) (by decide)
      (by decide)]
    exact hprev
  · have : table.maxId ≤ d.maxId + 1 := by
      apply XTable_maxId_le
      intro p hp
      have h1 := XTable_mem_get table p.1 p.2 hp
      rw [hget p.1] at h1
      split at h1
      · omega
      · simp at h1
    simp only [U32]; omega
  · rw [Dict_has_eq, streamTrailerRead_get_other [] d hnd ENCRYPT (by decide) (by decide) (by decide) (by decide)
      (by decide) (by decide), ← Dict_has_eq]
    exact henc

/-- the cross-reference stream object a stream save writes -/
def xrefObj (d : SDoc) : Obj :=
  .stream (streamTrailer [] d) (xrefStreamContent (streamSecs (xmapStream [] d) (d.maxId + 1)))

/-- the objects a reader finds in a stream save: the document's and the cross-reference stream -/
def objectsWithXref (d : SDoc) : Objects := d.objects ++ [((d.maxId + 1, 0), xrefObj d)]

/-- **`load ∘ save`, cross-reference-stream kind (C01 `file_rt` modulo the object-level round
trips).** As `load_of_save_table_with`; the loaded document additionally holds the
cross-reference stream object under `(max_id + 1, 0)`, and its trailer is the stream dictionary
minus `Length`, `W`, `Index`. -/
theorem load_of_save_stream_with (arr : List Block → List Block) (arr2 : List ObjId → List ObjId) (harr : arr [] = []) (harr2 : arr2 [] = []) (d : SDoc) (out : Bytes)
    (d' : SDoc) (hk : d.xrefKind = .stream) (h : saveFrom [] d = some (out, d'))
    (hlen : out.length < 4294967296) (hmax : d.maxId + 2 ≤ 4294967295) (hwf : DocWF d)
    (hnd : d.trailer.keys.Nodup)
    (hD : DictReadsBack d'.trailer (STREAM_KW ++ (xrefStreamContent (streamSecs (xmapStream [] d) (d.maxId + 1))
      ++ (ENDSTREAM_KW ++ 32 :: (ENDOBJ_TAIL ++ (STARTXREF_KW ++ natDigits (bodyOf [] d).length ++ EOF_KW))))))
    (hobj : ∀ p ∈ d.objects, IndirectReadsBack p.1.1 p.1.2 p.2)
    (hv1 : ∀ b ∈ d.version, notEol b = true) (hv2 : validUtf8 d.version = true)
    (hprev : d.trailer.get PREV = none) (henc : d.trailer.has ENCRYPT = false) :
    ∃ L : Loaded, loadDocWith arr arr2 out = .ok L ∧ L.version = d.version ∧ L.binaryMark = d.binaryMark ∧
      L.trailer = streamTrailerRead [] d ∧ L.xrefStart = (bodyOf [] d).length ∧ L.maxId ≤ d.maxId + 1 ∧
      ∀ id, L.objects.get id = (objectsWithXref d).get id := by
  obtain ⟨table, hget, hnodup, hload⟩ :=
    load_front_of_save_stream arr arr2 d out d' hk h hlen hmax hwf.gens hnd hD hv1 hv2 hprev henc
  obtain ⟨hout, htr⟩ := saveFrom_stream_eq [] d out d' hk h
  have hb := body_le_out [] d out d' h
  have hbl : (bodyOf [] d).length < 4294967296 := by omega
  rw [htr] at hD
  -- look-ups in the extended object list
  have hnotin : ∀ g, d.objects.get (d.maxId + 1, g) = none := by
    intro g
    cases hg : d.objects.get (d.maxId + 1, g) with
    | none => rfl
    | some o =>
      have := (hwf.range _ (Objects_mem_of_get d.objects _ o hg)).2
      simp only at this
      omega
  have hallN : (objectsWithXref d).get (d.maxId + 1, 0) = some (xrefObj d) := by
    simp [objectsWithXref, Objects_get_append, hnotin 0, Objects.get]
  have hallOther : ∀ k g, k ≠ d.maxId + 1 → (objectsWithXref d).get (k, g) = d.objects.get (k, g) := by
    intro k g hk'
    have : ¬ ((d.maxId + 1, 0) : ObjId) = (k, g) := by
      intro e; injection e with e1 _; exact hk' e1.symm
    cases hd : d.objects.get (k, g) <;> simp [objectsWithXref, Objects_get_append, hd, Objects.get, this]
  -- where the objects stand
  have hrec0 : Recorded (bodyOf [] d) (xmapOf [] d) d.objects :=
    writeObjects_recorded d.objects d.objects (hdrOf [] d) []
      (by intro n off g hg; simp [XrefMap.get] at hg)
      (fun p hp => Objects_get_of_mem d.objects hwf.nodup p hp)
      (by unfold bodyOf at hbl; exact hbl)
  have e : out = bodyOf [] d ++ (writeIndirect (d.maxId + 1) 0 (xrefObj d) ++
      (STARTXREF_KW ++ natDigits (bodyOf [] d).length ++ EOF_KW)) := by
    rw [hout]; simp only [xrefObj, List.append_assoc]
  have hxtype : NotObjStm (xrefObj d) := by
    show Dict.getTypeIs (streamTrailer [] d) OBJSTM = false
    unfold Dict.getTypeIs
    rw [streamTrailer_get_type [] d hnd]
    simp [Obj.asName, XREF_NAME, OBJSTM]
  have hrec : Recorded out (xmapStream [] d) (objectsWithXref d) := by
    intro n off g hx
    by_cases hn : n = d.maxId + 1
    · subst hn
      simp only [xmapStream, XrefMap.get_insert_same] at hx
      injection hx with hx
      injection hx with h1 h2
      subst h1; subst h2
      rw [Nat.mod_eq_of_lt hbl]
      refine ⟨hb, xrefObj d, hallN, hxtype, ?_⟩
      unfold ObjAt
      rw [e, List.drop_left]
      exact List.prefix_append _ _
    · simp only [xmapStream, XrefMap.get_insert_other _ _ _ _ hn] at hx
      obtain ⟨h1, o, h2, h3, h4⟩ := hrec0 n off g hx
      refine ⟨by omega, o, by rw [hallOther n g hn]; exact h2, h3, ?_⟩
      rw [e]
      exact ObjAt_append _ _ _ _ _ _ h4
  -- table entries are exactly the recorded ones
  have hentry : ∀ k v, (k, v) ∈ table →
      ∃ off g, v = .normal off g ∧ (xmapStream [] d).get k = some (off, g) := by
    intro k v hm
    have h1 := XTable_get_of_mem table hnodup k v hm
    rw [hget k] at h1
    split at h1
    · simp only [normalOf] at h1
      cases hx : (xmapStream [] d).get k with
      | none => simp [hx] at h1
      | some p =>
        obtain ⟨a, b⟩ := p
        simp [hx] at h1
        exact ⟨a, b, h1.symm, rfl⟩
    · cases h1
  have hgood : ∀ e ∈ table.sorted, EntryGood out table table.sorted.length (objectsWithXref d) e := by
    intro e' he
    obtain ⟨k, v⟩ := e'
    rw [mem_sorted table hnodup] at he
    obtain ⟨off, g, hv, hx⟩ := hentry k v he
    obtain ⟨hoff, o, hog, hkept, hat⟩ := hrec k off g hx
    obtain ⟨rest, hrest⟩ := hat
    refine ⟨off, g, o, hv, hoff, hog, hkept, ?_⟩
    rw [← hrest]
    by_cases hn : k = d.maxId + 1
    · subst hn
      have hg0 : g = 0 := by
        simp only [xmapStream, XrefMap.get_insert_same] at hx
        injection hx with hx
        injection hx with _ h2
        exact h2.symm
      subst hg0
      rw [hallN] at hog
      injection hog with hog
      subst hog
      obtain ⟨_, _, _, _, f5⟩ := streamTrailer_facts [] d hnd (.int 0)
      -- the written object is followed by `rest`; the dictionary hypothesis fixes the follower
      have hrest' : rest = STARTXREF_KW ++ natDigits (bodyOf [] d).length ++ EOF_KW := by
        have h1 : out.drop (bodyOf [] d).length = writeIndirect (d.maxId + 1) 0 (xrefObj d) ++ rest := by
          have : off = (bodyOf [] d).length := by
            simp only [xmapStream, XrefMap.get_insert_same] at hx
            injection hx with hx
            injection hx with h1 _
            rw [← h1, Nat.mod_eq_of_lt hbl]
          rw [← this, hrest]
        rw [e, List.drop_left] at h1
        exact (List.append_cancel_left h1).symm
      rw [hrest']
      have := pIndirect_xrefStream (lengthOf out table (table.sorted.length + 1) []) off (d.maxId + 1)
        (streamTrailer [] d) (xrefStreamContent (streamSecs (xmapStream [] d) (d.maxId + 1)))
        (STARTXREF_KW ++ natDigits (bodyOf [] d).length ++ EOF_KW) (by simp [U32_MAX]; omega) f5 hD
      rw [Dict_set_same _ _ _ f5] at this
      exact this
    · rw [hallOther k g hn] at hog
      exact hobj ((k, g), o) (Objects_mem_of_get d.objects (k, g) o hog) _ _ _
  obtain ⟨L, hL, l1, l2, l3, l4, l5, l6, _⟩ := objectPass_good arr arr2 harr harr2 out d.version d.binaryMark table
    (streamTrailerRead [] d) (bodyOf [] d).length (objectsWithXref d) hgood
  refine ⟨L, by rw [hload]; exact hL, l1, l2, l3, l4, ?_, ?_⟩
  · rw [l5]
    apply XTable_maxId_le
    intro p hp
    have h1 := XTable_mem_get table p.1 p.2 hp
    rw [hget p.1] at h1
    split at h1
    · omega
    · simp at h1
  · intro id
    rw [l6 id]
    by_cases hany : table.sorted.any (entryIs id) = true
    · simp only [hany, if_true]
      rw [List.any_eq_true] at hany
      obtain ⟨e', he, hid⟩ := hany
      obtain ⟨k, v⟩ := e'
      rw [mem_sorted table hnodup] at he
      obtain ⟨off, g, hv, hx⟩ := hentry k v he
      subst hv
      simp only [entryIs, Bool.and_eq_true, beq_iff_eq] at hid
      obtain ⟨hk1, hg1⟩ := hid
      obtain ⟨_, o, hog, _, _⟩ := hrec k off g hx
      have : id = (k, g) := Prod.ext hk1.symm hg1.symm
      subst this
      rw [hog]; rfl
    · simp only [hany, Bool.false_eq_true, if_false]
      cases hd : (objectsWithXref d).get id with
      | none => rfl
      | some o =>
        exfalso
        apply hany
        -- the id is recorded by the writer, hence in the table
        have hrecd : ∃ off, (xmapStream [] d).get id.1 = some (off, id.2) ∧ 1 ≤ id.1 ∧ id.1 ≤ d.maxId + 1 := by
          by_cases hn : id.1 = d.maxId + 1
          · have hid2 : id.2 = 0 := by
              cases hg : d.objects.get id with
              | some o' =>
                have := (hwf.range _ (Objects_mem_of_get d.objects _ o' hg)).2
                simp only at this; omega
              | none =>
                simp only [objectsWithXref, Objects_get_append, hg, Option.orElse_none, Objects.get] at hd
                split at hd
                · rename_i heq; rw [← heq]
                · cases hd
            refine ⟨(bodyOf [] d).length % 4294967296, ?_, by omega, by omega⟩
            rw [hn, hid2]
            simp [xmapStream, XrefMap.get_insert_same]
          · have hd' : d.objects.get id = some o := by
              have := hallOther id.1 id.2 hn
              rw [← this]; exact hd
            have hm := Objects_mem_of_get d.objects id o hd'
            obtain ⟨off, hx⟩ := writeObjects_complete d.objects (hdrOf [] d) [] hwf.nodup (id, o) hm (hwf.kept _ hm)
            obtain ⟨hr1, hr2⟩ := hwf.range _ hm
            simp only at hx hr1 hr2
            refine ⟨off, ?_, hr1, by omega⟩
            simp only [xmapStream, XrefMap.get_insert_other _ _ _ _ hn]
            exact hx
        obtain ⟨off, hx, hr1, hr2⟩ := hrecd
        have hg2 : table.get id.1 = some (.normal off id.2) := by
          rw [hget id.1]
          simp only [hr1, hr2, and_self, if_true, normalOf]
          rw [hx]; rfl
        rw [List.any_eq_true]
        refine ⟨(id.1, .normal off id.2), ?_, by simp [entryIs]⟩
        rw [mem_sorted table hnodup]
        exact XTable_mem_of_get table _ _ hg2

end Lopdf.FileRT
