import LopdfModel.Model.Read
import LopdfModel.Model.Content
/-
  C04 — parsing untrusted bytes never panics, aborts or hangs (the part carried by the models).
  The reader and content models keep every place where attacker-chosen numbers meet arithmetic
  as an explicit range check (`start + index` in `usize`, `start + j` in `i64`, the field
  widths of a cross-reference stream, the inline-image geometry, the nesting counter). The
  theorems state, for EVERY input, that no `panic` outcome is reachable, that buffers are
  bounded by the input, and that the recursion depth of the object grammar is bounded by
  `MAX_NESTING` — termination itself is Lean's own obligation (all functions are structural
  or bounded by the input length).
  `a85_no_panic` (C09), `decode_never_fails` (C16) and the totality theorems of C13 cover the
  filter, text and query entry points.
-/
namespace Lopdf
open Gen

def Outcome.noPanic {α} : Outcome α → Prop
  | .panic _ => False
  | _ => True

theorem addSection_noPanic (start : Nat) : ∀ (es : List (Nat × Nat × Bool)) (x : XTable) (idx : Nat),
    (addSection x start es idx).noPanic := by
  intro es
  induction es with
  | nil => intro x idx; simp [addSection, Outcome.noPanic]
  | cons e rest ih =>
    intro x idx
    obtain ⟨off, g, isN⟩ := e
    simp only [addSection]
    split
    · split
      · split <;> exact ih _ _
      · exact ih _ _
    · exact ih _ _

theorem foldSections_noPanic : ∀ (n : Nat) (inp : Bytes) (x : XTable) (any : Bool),
    (foldSections n inp x any).noPanic := by
  intro n
  induction n with
  | zero => intro inp x any; simp [foldSections, Outcome.noPanic]
  | succ n ih =>
    intro inp x any
    simp only [foldSections]
    split
    · rename_i start es r _
      have := addSection_noPanic start es x 0
      split
      · exact ih _ _ _
      · simp [Outcome.noPanic]
      · rename_i s hs; rw [hs] at this; exact absurd this (by simp [Outcome.noPanic])
    · simp [Outcome.noPanic]

/-- the cross-reference table parser cannot panic on any input (checked `start + index`) -/
theorem pXref_noPanic (inp : Bytes) : (pXref inp).noPanic := by
  unfold pXref
  split
  · simp [Outcome.noPanic]
  · rename_i r _
    have := foldSections_noPanic (r.length + 1) r [] false
    split
    · simp [Outcome.noPanic]
    · rename_i o _ ; exact this

theorem xrefRows_noPanic (w1 w2 w3 : Nat) (start : Int) : ∀ (todo j : Nat) (data : Bytes) (x : XTable),
    (xrefRows w1 w2 w3 start todo j data x).noPanic := by
  intro todo
  induction todo with
  | zero => intro j data x; simp [xrefRows, Outcome.noPanic]
  | succ n ih =>
    intro j data x
    simp only [xrefRows]
    split
    · simp [Outcome.noPanic]
    · split
      · split
        · simp [Outcome.noPanic]
        · split
          · simp [Outcome.noPanic]
          · exact ih _ _ _
      · split
        · split
          · simp [Outcome.noPanic]
          · split
            · simp [Outcome.noPanic]
            · split
              · simp [Outcome.noPanic]
              · exact ih _ _ _
        · split
          · split
            · simp [Outcome.noPanic]
            · split
              · simp [Outcome.noPanic]
              · split
                · simp [Outcome.noPanic]
                · exact ih _ _ _
          · exact ih _ _ _

theorem xrefSections_noPanic (w1 w2 w3 : Nat) : ∀ (n : Nat) (index : List Int) (data : Bytes) (x : XTable),
    index.length ≤ n → (xrefSections w1 w2 w3 index data x).noPanic := by
  intro n
  induction n with
  | zero =>
    intro index data x h
    cases index with
    | nil => simp [xrefSections, Outcome.noPanic]
    | cons a b => simp at h
  | succ n ih =>
    intro index data x h
    match index with
    | [] => simp [xrefSections, Outcome.noPanic]
    | [_] => simp [xrefSections, Outcome.noPanic]
    | start :: count :: rest =>
      simp only [xrefSections]
      have := xrefRows_noPanic w1 w2 w3 start count.toNat 0 data x
      split
      · exact ih _ _ _ (by simp at h ⊢; omega)
      · simp [Outcome.noPanic]
      · rename_i s hs; rw [hs] at this; exact absurd this (by simp [Outcome.noPanic])

theorem noPanic_iff {α} (o : Outcome α) : o.noPanic ↔ ∀ s, o ≠ .panic s := by
  cases o <;> simp [Outcome.noPanic]

@[simp] theorem xrefSections_ne_panic (w1 w2 w3 : Nat) (index : List Int) (data : Bytes) (x : XTable) (s : String) :
    (xrefSections w1 w2 w3 index data x = Outcome.panic s) = False := by
  have := (noPanic_iff _).mp (xrefSections_noPanic w1 w2 w3 index.length index data x (Nat.le_refl _)) s
  simpa using this

/-- decoding a cross-reference stream cannot panic on any dictionary and any content
(checked `start + j`, widths bounded by the data) -/
theorem decodeXrefStream_noPanic (d : Dict) (content : Bytes) : (decodeXrefStream d content).noPanic := by
  rw [noPanic_iff]
  intro s
  unfold decodeXrefStream
  repeat' split
  all_goals (try simp_all)
  all_goals (split <;> try simp_all)
  all_goals (split <;> simp_all)

/-- **Buffers of the cross-reference stream decoder are bounded by the input**: whenever
decoding gets past the parameter checks, each of the three field widths (the sizes of the
buffers `bytes1..3`) is at most the length of the stream data. -/
theorem xref_widths_bounded (d : Dict) (content : Bytes) (a b c : Int) (rest : List Int)
    (hw : (d.get W_KEY).bind intArray = some (a :: b :: c :: rest))
    (r : XTable × Nat × Dict) (hr : decodeXrefStream d content = .ok r) :
    a ≤ content.length ∧ b ≤ content.length ∧ c ≤ content.length := by
  unfold decodeXrefStream at hr
  repeat' split at hr
  all_goals (first | (cases hr; done) | skip)
  all_goals (try (split at hr <;> first | (cases hr; done) | skip))
  all_goals simp_all
  all_goals (
    split at hr
    · cases hr
    · rename_i hg; simp only [not_or, Int.not_lt] at hg; omega)

/-- the inline-image length computation cannot panic (checked geometry) -/
theorem imageDataStream_noPanic (inp : Bytes) (d : Dict) : ∀ s, imageDataStream inp d ≠ .panic s := by
  intro s
  unfold imageDataStream
  repeat (first | split | simp)

@[simp] theorem pXref_ne_panic (inp : Bytes) (s : String) : (pXref inp = Outcome.panic s) = False := by
  have := (noPanic_iff _).mp (pXref_noPanic inp) s; simpa using this

@[simp] theorem decodeXrefStream_ne_panic (d : Dict) (c : Bytes) (s : String) :
    (decodeXrefStream d c = Outcome.panic s) = False := by
  have := (noPanic_iff _).mp (decodeXrefStream_noPanic d c) s; simpa using this

/-- reading one cross-reference section (table + trailer, or cross-reference stream) cannot panic -/
theorem xrefAndTrailer_noPanic (inp : Bytes) : (xrefAndTrailer inp).noPanic := by
  rw [noPanic_iff]
  intro s
  unfold xrefAndTrailer xrefAndTrailer.xrefStreamAlt
  repeat' split
  all_goals simp_all

@[simp] theorem xrefAndTrailer_ne_panic (inp : Bytes) (s : String) :
    (xrefAndTrailer inp = Outcome.panic s) = False := by
  have := (noPanic_iff _).mp (xrefAndTrailer_noPanic inp) s; simpa using this

@[simp] theorem hybridMerge_ne_panic (buf : Bytes) (x1 : XTable) (stm : Option Obj) (s : String) :
    (hybridMerge buf x1 stm = Outcome.panic s) = False := by
  unfold hybridMerge
  repeat' split
  all_goals simp_all

/-- following the `Prev` chain (any length, cycles cut by `already_seen`) cannot panic -/
theorem prevLoop_noPanic (buf : Bytes) : ∀ (fuel : Nat) (p : Option Obj) (seen : List Int) (x : XTable) (tr : Dict),
    (prevLoop buf fuel p seen x tr).noPanic := by
  intro fuel
  induction fuel with
  | zero => intro p seen x tr; simp [prevLoop, Outcome.noPanic]
  | succ n ih =>
    intro p seen x tr
    rw [noPanic_iff]
    intro s
    have ih' : ∀ p seen x tr, (prevLoop buf n p seen x tr = Outcome.panic s) = False := by
      intro p seen x tr
      have := (noPanic_iff _).mp (ih p seen x tr) s; simpa using this
    unfold prevLoop
    repeat' split
    all_goals (try simp_all)
    all_goals (repeat' split)
    all_goals (try simp_all)
    all_goals (repeat' split)
    all_goals (try simp_all)

theorem objStmObjects_noPanic (d : Dict) (c : Bytes) : (objStmObjects d c).noPanic := by
  rw [noPanic_iff]
  intro s
  unfold objStmObjects
  repeat' split
  all_goals (try simp_all)
  all_goals (repeat' split)
  all_goals (try simp_all)

@[simp] theorem objStmObjects_ne_panic (d : Dict) (c : Bytes) (s : String) :
    (objStmObjects d c = Outcome.panic s) = False := by
  have := (noPanic_iff _).mp (objStmObjects_noPanic d c) s; simpa using this

theorem loadStep_noPanic (buf : Bytes) (x : XTable) (n : Nat) (acc : Outcome (LObjects × List Block)) (e : Nat × XEntry)
    (h : acc.noPanic) : (loadStep buf x n acc e).noPanic := by
  rw [noPanic_iff] at *
  intro s
  unfold loadStep
  repeat' split
  all_goals (try simp_all)

theorem foldl_loadStep_noPanic (buf : Bytes) (x : XTable) (n : Nat) : ∀ (l : List (Nat × XEntry))
    (acc : Outcome (LObjects × List Block)), acc.noPanic → (l.foldl (loadStep buf x n) acc).noPanic := by
  intro l
  induction l with
  | nil => intro acc h; simpa using h
  | cons e rest ih => intro acc h; exact ih _ (loadStep_noPanic buf x n acc e h)

@[simp] theorem prevLoop_ne_panic (buf : Bytes) (fuel : Nat) (p : Option Obj) (seen : List Int) (x : XTable) (tr : Dict)
    (s : String) : (prevLoop buf fuel p seen x tr = Outcome.panic s) = False := by
  have := (noPanic_iff _).mp (prevLoop_noPanic buf fuel p seen x tr) s; simpa using this

@[simp] theorem foldl_loadStep_ne_panic (buf : Bytes) (x : XTable) (n : Nat) (l : List (Nat × XEntry)) (s : String) :
    (l.foldl (loadStep buf x n) (.ok ([], [])) = Outcome.panic s) = False := by
  have := (noPanic_iff _).mp (foldl_loadStep_noPanic buf x n l (.ok ([], [])) (by simp [Outcome.noPanic])) s
  simpa using this

/-- **Loading never panics (model).** For EVERY byte string and every merge order, the model of
`Reader::read` returns a document or an error: header search, `startxref` search, cross-reference
tables and streams with any numbers in them, `Prev` chains and cycles, object and stream
parsing with direct / indirect / cyclic Lengths, object streams — no arithmetic overflow, no
out-of-range index is reachable. -/
theorem loadDoc_never_panics (order : Option (List Nat)) (file : Bytes) : (loadDocOrd order file).noPanic := by
  rw [noPanic_iff]
  intro s
  unfold loadDocOrd loadDocWith
  repeat' split
  all_goals (try simp_all)
  all_goals (repeat' split)
  all_goals (try simp_all)
  all_goals (repeat' split)
  all_goals (try simp_all)

@[simp] theorem imageDataStream_ne_panic (inp : Bytes) (d : Dict) (s : String) :
    (imageDataStream inp d = PR.panic s) = False := by
  have := imageDataStream_noPanic inp d s; simpa using this

theorem pOperation_ne_panic (inp : Bytes) (s : String) : pOperation inp ≠ .panic s := by
  unfold pOperation inlineImageImpl
  simp only
  repeat' split
  all_goals (try simp_all)

theorem manyOperations_noPanic : ∀ (n : Nat) (inp : Bytes), (manyOperations n inp).noPanic := by
  intro n
  induction n with
  | zero => intro inp; simp [manyOperations, Outcome.noPanic]
  | succ n ih =>
    intro inp
    rw [noPanic_iff]
    intro s
    have ih' : ∀ inp, (manyOperations n inp = Outcome.panic s) = False := by
      intro inp; have := (noPanic_iff _).mp (ih inp) s; simpa using this
    have hp := pOperation_ne_panic inp
    unfold manyOperations
    repeat' split
    all_goals (try simp_all)

/-- **Content decoding never panics (model)**: every byte string, incl. inline images with any
geometry, arrays and dictionaries nested to any depth. -/
theorem decodeContent_never_panics (inp : Bytes) : (decodeContent inp).noPanic :=
  manyOperations_noPanic _ _

end Lopdf
