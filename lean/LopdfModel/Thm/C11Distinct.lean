import LopdfModel.Thm.C11Sound
/-
  C11 — `DistinctKeys` is an INVARIANT of the editing calls, not only a hypothesis.

  `DistinctKeys d` (every dictionary of the trailer and of every object has pairwise distinct keys
  at every depth — what `IndexMap` gives by construction) was a hypothesis of the `delete_object`
  reference theorems (`hasRef_delete`, `noNew_delete`, `dangling_delete_only`, `delClean_of_reach`).
  Here it is proved preserved by every editing call of `Model/Edit.lean` — the caller-supplied
  objects of `add` / `set` being distinct-keyed themselves (`OpND`) — hence it holds after every
  program of calls started on a distinct-keyed document (`distinct_run`).
-/
namespace Lopdf.Ed
open Lopdf Lopdf.DictL

/-- all stored objects are distinct-keyed at every depth -/
def ObjsND (os : Objects) : Prop := ∀ k o, os.get k = some o → DeepND o

theorem distinctKeys_iff (d : Doc) : DistinctKeys d ↔ (NoDup d.trailer ∧ DeepNDD d.trailer) ∧ ObjsND d.objects := by
  unfold DistinctKeys ObjsND; constructor
  · intro h; exact ⟨⟨h.1, h.2.1⟩, h.2.2⟩
  · intro h; exact ⟨h.1.1, h.1.2, h.2⟩

/-! ### dictionaries -/

/-- a distinct-keyed dictionary (as the value `.dict es`) -/
def DictND (es : Dict) : Prop := NoDup es ∧ DeepNDD es

theorem dictND_nil : DictND [] := by
  refine ⟨?_, ?_⟩
  · simp [NoDup]
  · simp [DeepNDD]

theorem dictND_set {es : Dict} (h : DictND es) (k : Bytes) (v : Obj) (hv : DeepND v) : DictND (Dict.set es k v) := by
  refine ⟨nodup_set h.1 k v, ?_⟩
  rw [deepNDD_iff]
  intro e he
  rcases mem_dictSet es k v e he with h1 | h1
  · exact (deepNDD_iff es).mp h.2 e h1
  · subst h1; exact hv

theorem dictND_remove {es : Dict} (h : DictND es) (k : Bytes) : DictND (Dict.remove es k) := by
  refine ⟨nodup_remove h.1 k, ?_⟩
  rw [deepNDD_iff]
  intro e he
  exact (deepNDD_iff es).mp h.2 e (mem_dictRemove es k e he)

theorem dictND_removeKeys (ks : List Bytes) : ∀ {es : Dict}, DictND es → DictND (removeKeys es ks) := by
  induction ks with
  | nil => intro es h; exact h
  | cons k ks ih =>
    intro es h
    simp only [removeKeys, List.foldl_cons]
    exact ih (dictND_remove h k)

theorem dictND_get {es : Dict} (h : DictND es) (k : Bytes) (v : Obj) (hg : Dict.get es k = some v) : DeepND v := by
  have hm : (k, v) ∈ es := by
    clear h
    induction es with
    | nil => simp [Dict.get] at hg
    | cons p rest ih =>
      obtain ⟨k0, v0⟩ := p
      simp only [Dict.get] at hg
      split at hg
      · rename_i hk
        have : k0 = k := by simpa using hk
        cases hg; subst this; exact List.mem_cons_self
      · exact List.mem_cons_of_mem _ (ih hg)
  exact (deepNDD_iff es).mp h.2 (k, v) hm

theorem deepND_dict (es : Dict) : DeepND (.dict es) ↔ DictND es := by simp [DeepND, DictND]
theorem deepND_stream (es : Dict) (c : Bytes) : DeepND (.stream es c) ↔ DictND es := by simp [DeepND, DictND]
theorem deepND_arr (xs : List Obj) : DeepND (.arr xs) ↔ ∀ x ∈ xs, DeepND x := by
  simp only [DeepND]; exact deepNDL_iff xs

theorem deepND_filter (xs : List Obj) (p : Obj → Bool) (h : DeepND (.arr xs)) : DeepND (.arr (xs.filter p)) := by
  rw [deepND_arr] at *
  intro x hx
  exact h x (List.mem_filter.mp hx).1

/-! ### the object map -/

theorem objsND_insert {os : Objects} (h : ObjsND os) (k : ObjId) (v : Obj) (hv : DeepND v) : ObjsND (os.insert k v) := by
  intro q o hq
  rw [Objects.get_insert] at hq
  split at hq
  · cases hq; exact hv
  · exact h q o hq

theorem objsND_set {os : Objects} (h : ObjsND os) (k : ObjId) (v : Obj) (hv : DeepND v) : ObjsND (os.set k v) := by
  intro q o hq
  rw [Objects.get_set] at hq
  split at hq
  · cases hg : os.get q with
    | none => rw [hg] at hq; cases hq
    | some o' => rw [hg] at hq; simp at hq; subst hq; exact hv
  · exact h q o hq

theorem objsND_remove {os : Objects} (h : ObjsND os) (k : ObjId) : ObjsND (os.remove k) := by
  intro q o hq
  rw [Objects.get_remove] at hq
  split at hq
  · cases hq
  · exact h q o hq

theorem objsND_foldl_remove (ids : List ObjId) : ∀ {os : Objects}, ObjsND os → ObjsND (ids.foldl Objects.remove os) := by
  induction ids with
  | nil => intro os h; exact h
  | cons k ks ih => intro os h; exact ih (objsND_remove h k)

/-! ### the traversal: an action that keeps objects distinct-keyed keeps the document so -/

/-- the action maps distinct-keyed objects to distinct-keyed objects (one node) -/
def ActND (a : Action) : Prop := ∀ o, DeepND o → DeepND (a.f o)

theorem deepObj_nd (a : Action) (ha : ActND a) (o : Obj) : DeepND o → DeepND (deepObj a o) := by
  induction o using deepObj.induct (a := a)
      (motive2 := fun es => DictND es → DictND (deepDict a es))
      (motive3 := fun xs => (∀ x ∈ xs, DeepND x) → ∀ x ∈ deepList a xs, DeepND x) with
  | case1 o items hf ih =>
    intro ho
    have := ha o ho
    rw [hf] at this
    rw [deepObj, hf]
    rw [deepND_arr] at this ⊢
    exact ih this
  | case2 o es hf ih =>
    intro ho
    have := ha o ho
    rw [hf] at this
    rw [deepObj, hf]
    rw [deepND_dict] at this ⊢
    exact ih this
  | case3 o es c hf ih =>
    intro ho
    have := ha o ho
    rw [hf] at this
    rw [deepObj, hf]
    rw [deepND_stream] at this ⊢
    exact ih this
  | case4 o h1 h2 h3 =>
    intro ho
    have := ha o ho
    rw [deepObj]
    split <;> simp_all
  | case5 => rename_i h; rw [deepDict]; exact h
  | case6 k v rest ih1 ih2 =>
    rename_i h
    rw [deepDict]
    have hv : DeepND v := (deepNDD_iff _).mp h.2 (k, v) List.mem_cons_self
    have hrest : DictND rest := by
      refine ⟨?_, ?_⟩
      · have := h.1; simp only [NoDup, List.map_cons, List.nodup_cons] at this; exact this.2
      · have := h.2; simp only [DeepNDD] at this; exact this.2
    have r := ih2 hrest
    refine ⟨?_, ?_⟩
    · have := h.1
      simp only [NoDup, List.map_cons, List.nodup_cons] at this ⊢
      refine ⟨?_, r.1⟩
      rw [keys_deepDict]; exact this.1
    · simp only [DeepNDD]; exact ⟨ih1 hv, r.2⟩
  | case7 => rename_i _ x hx; simp [deepList] at hx
  | case8 x xs ih1 ih2 =>
    rename_i h y hy
    rw [deepList] at hy
    rcases List.mem_cons.mp hy with rfl | hy
    · exact ih1 (h x List.mem_cons_self)
    · exact ih2 (fun z hz => h z (List.mem_cons_of_mem _ hz)) y hy

theorem deepDict_nd (a : Action) (ha : ActND a) : ∀ (es : Dict), DictND es → DictND (deepDict a es) := by
  intro es h
  have := deepObj_nd idAct (fun o ho => ho) (.dict es)
  have h2 := deepObj_nd a ha
  induction es with
  | nil => rw [deepDict]; exact h
  | cons p rest ih =>
    obtain ⟨k, v⟩ := p
    rw [deepDict]
    have hv : DeepND v := (deepNDD_iff _).mp h.2 (k, v) List.mem_cons_self
    have hrest : DictND rest := by
      refine ⟨?_, ?_⟩
      · have := h.1; simp only [NoDup, List.map_cons, List.nodup_cons] at this; exact this.2
      · have := h.2; simp only [DeepNDD] at this; exact this.2
    have r := ih hrest (deepObj_nd idAct (fun o ho => ho) (.dict rest))
    refine ⟨?_, ?_⟩
    · have := h.1
      simp only [NoDup, List.map_cons, List.nodup_cons] at this ⊢
      refine ⟨?_, r.1⟩
      rw [keys_deepDict]; exact this.1
    · simp only [DeepNDD]; exact ⟨h2 v hv, r.2⟩

/-- **`traverse_objects` keeps a distinct-keyed document distinct-keyed** when its action does -/
theorem traverse_nd (a : Action) (ha : ActND a) (tr : Dict) (os : Objects) (htr : DictND tr) (hos : ObjsND os) :
    DictND (traverse a tr os).1 ∧ ObjsND (traverse a tr os).2.1 := by
  obtain ⟨h1, _, h3⟩ := traverse_visits_once a tr os
  refine ⟨?_, ?_⟩
  · rw [h1]; exact deepDict_nd a ha tr htr
  · intro q o hq
    rw [h3 q] at hq
    split at hq
    · cases hg : os.get q with
      | none => rw [hg] at hq; cases hq
      | some o' =>
        rw [hg] at hq; simp at hq; subst hq
        exact deepObj_nd a ha o' (hos q o' hg)
    · exact hos q o hq

theorem idAct_nd : ActND idAct := fun _ h => h

theorem stripDict_nd (id : ObjId) {es : Dict} (h : DictND es) : DictND (stripDict id es) := by
  unfold stripDict; exact dictND_removeKeys _ h

theorem delAct_nd (id : ObjId) : ActND (delAct id) := by
  intro o ho
  show DeepND (delFn id o)
  cases o with
  | arr items => simp only [delFn]; exact deepND_filter items _ ho
  | dict es => simp only [delFn]; rw [deepND_dict] at *; exact stripDict_nd id ho
  | stream es c => simp only [delFn]; rw [deepND_stream] at *; exact stripDict_nd id ho
  | _ => simpa [delFn] using ho

theorem renameAct_nd (m : List (ObjId × ObjId)) : ActND (renameAct m) := by
  intro o ho
  show DeepND (renameFn m o)
  cases o with
  | ref n g => simp only [renameFn]; split <;> simp [DeepND]
  | _ => simpa [renameFn] using ho

/-! ### the calls -/

theorem distinct_delete (d : Doc) (id : ObjId) (h : DistinctKeys d) : DistinctKeys (deleteObject d id).1 := by
  rw [distinctKeys_iff] at *
  obtain ⟨h1, h2⟩ := traverse_nd (delAct id) (delAct_nd id) (stripDict id d.trailer) d.objects (stripDict_nd id h.1) h.2
  exact ⟨h1, objsND_remove h2 id⟩

theorem distinct_prune (d : Doc) (h : DistinctKeys d) : DistinctKeys (pruneObjects d).1 := by
  rw [distinctKeys_iff] at *
  obtain ⟨h1, h2⟩ := traverse_nd idAct idAct_nd d.trailer d.objects h.1 h.2
  exact ⟨h1, objsND_foldl_remove _ h2⟩

theorem distinct_foldl_delete (ids : List ObjId) : ∀ (d : Doc), DistinctKeys d →
    DistinctKeys (ids.foldl (fun d id => (deleteObject d id).1) d) := by
  induction ids with
  | nil => intro d h; exact h
  | cons k ks ih => intro d h; exact ih _ (distinct_delete d k h)

theorem distinct_delZero (d : Doc) (h : DistinctKeys d) : DistinctKeys (deleteZeroLengthStreams d).1 :=
  distinct_foldl_delete _ d h

theorem decCount_nd {pt : Dict} (h : DictND pt) : DictND (decCount pt) := by
  unfold decCount
  split
  · exact dictND_set h _ _ (by simp [DeepND])
  · exact h

theorem objsND_decCounts (os : Objects) (seen : List ObjId) (r : Option ObjId) : ObjsND os → ObjsND (decCounts os seen r) := by
  induction os, seen, r using decCounts.induct with
  | case1 os seen => intro h; rw [decCounts_none]; exact h
  | case2 os seen id hs => intro h; rw [decCounts_seen os seen id hs]; exact h
  | case3 os seen id hs pt hg ih =>
    intro h
    rw [decCounts_dict os seen id pt (by simpa using hs) hg]
    apply ih
    apply objsND_set h
    rw [deepND_dict]
    exact decCount_nd ((deepND_dict pt).mp (h id _ hg))
  | case4 os seen id hs hne =>
    intro h
    rw [decCounts_other os seen id (by simpa using hs) (fun pt hpt => hne pt hpt)]
    exact h

theorem distinct_deletePage1 (pages : List ObjId) (d : Doc) (n : Nat) (h : DistinctKeys d) :
    DistinctKeys (deletePage1 pages d n) := by
  unfold deletePage1
  split
  · exact h
  · rename_i pid _
    have hd := distinct_delete d pid h
    split
    · rename_i d' page heq
      rw [heq] at hd
      rw [distinctKeys_iff] at hd ⊢
      exact ⟨hd.1, objsND_decCounts _ _ _ hd.2⟩
    · rename_i d' heq
      rw [heq] at hd
      exact hd

theorem distinct_deletePages (d : Doc) (nums : List Nat) (h : DistinctKeys d) : DistinctKeys (deletePages d nums) := by
  unfold deletePages
  generalize pageIter d.trailer d.objects = pages
  induction nums generalizing d with
  | nil => exact h
  | cons n ns ih => simp only [List.foldl_cons]; exact ih _ (distinct_deletePage1 pages d n h)

theorem getDictionary_nd {os : Objects} (h : ObjsND os) (id : ObjId) (page : Dict) (hg : getDictionary os id = some page) :
    DictND page := by
  obtain ⟨k, hk⟩ := getDictionary_mem os id page hg
  exact (deepND_dict page).mp (h k _ hk)

theorem distinct_objects {d : Doc} (h : DistinctKeys d) (os : Objects) (hos : ObjsND os) : DistinctKeys { d with objects := os } := by
  rw [distinctKeys_iff] at *; exact ⟨h.1, hos⟩

theorem distinct_setDictEntry (d : Doc) (id : ObjId) (key : Bytes) (v : Obj) (h : DistinctKeys d) (hv : DeepND v) :
    DistinctKeys (setDictEntry d id key v).1 := by
  unfold setDictEntry
  split
  · exact h
  · split
    · rename_i target _ pd hg
      apply distinct_objects h
      apply objsND_set ((distinctKeys_iff d).mp h).2
      rw [deepND_dict]
      exact dictND_set ((deepND_dict pd).mp (((distinctKeys_iff d).mp h).2 _ _ hg)) key v hv
    · exact h

theorem distinct_addObject (d : Doc) (o : Obj) (h : DistinctKeys d) (ho : DeepND o) : DistinctKeys (addObject d o) := by
  unfold addObject
  rw [distinctKeys_iff] at *
  exact ⟨h.1, objsND_insert h.2 _ _ ho⟩

theorem streamNew_nd (content : Bytes) : DeepND (streamNew [] content) := by
  unfold streamNew
  rw [deepND_stream]
  exact dictND_set dictND_nil _ _ (by simp [DeepND])

theorem contentsList_nd {page : Dict} (h : DictND page) : ∀ x ∈ contentsList page, DeepND x := by
  unfold contentsList
  split
  · intro x hx; simp at hx; subst hx; simp [DeepND]
  · rename_i a hg
    have := dictND_get h _ _ hg
    rw [deepND_arr] at this
    exact this
  · intro x hx; simp at hx

theorem distinct_addPageContents (d : Doc) (pageId : ObjId) (content : Bytes) (h : DistinctKeys d) (r : Doc × Out)
    (hr : addPageContents d pageId content = .ok r) : DistinctKeys r.1 := by
  unfold addPageContents at hr
  split at hr
  · cases hr; exact h
  · rename_i page hg
    split at hr
    · cases hr
    · cases hr
      apply distinct_setDictEntry _ _ _ _ (distinct_addObject d _ h (streamNew_nd content))
      rw [deepND_arr]
      intro x hx
      rcases List.mem_append.mp hx with hx | hx
      · exact contentsList_nd (getDictionary_nd ((distinctKeys_iff d).mp h).2 pageId page hg) x hx
      · simp at hx; subst hx; simp [DeepND]

theorem distinct_removeAnnot (id : ObjId) : ∀ (pages : List ObjId) (d : Doc), DistinctKeys d →
    DistinctKeys (removeAnnot id pages d).1 := by
  intro pages
  induction pages with
  | nil => intro d h; exact h
  | cons pid rest ih =>
    intro d h
    unfold removeAnnot
    split
    · exact h
    · split
      · rename_i t _ pd hg
        split
        · rename_i a ha
          apply ih
          apply distinct_objects h
          apply objsND_set ((distinctKeys_iff d).mp h).2
          have hpd := (deepND_dict pd).mp (((distinctKeys_iff d).mp h).2 _ _ hg)
          rw [deepND_dict]
          apply dictND_set hpd
          exact deepND_filter a _ (dictND_get hpd _ _ ha)
        · exact h
      · exact h

theorem inheritedResAux_nd {os : Objects} (h : ObjsND os) : ∀ (fuel : Nat) (st : Option ObjId) (res : Dict),
    inheritedResAux os fuel st = some res → DictND res := by
  intro fuel
  induction fuel with
  | zero => intro st res hr; simp [inheritedResAux] at hr
  | succ n ih =>
    intro st res hr
    cases st with
    | none => simp [inheritedResAux] at hr
    | some id =>
      simp only [inheritedResAux] at hr
      split at hr
      · cases hr
      · rename_i anc hanc
        have hancnd := getDictionary_nd h id anc hanc
        split at hr
        · rename_i n' g' _
          exact getDictionary_nd h _ res hr
        · rename_i r hg
          cases hr
          exact (deepND_dict _).mp (dictND_get hancnd _ _ hg)
        · cases hr
        · exact ih _ res hr

theorem inheritedRes_nd {os : Objects} (h : ObjsND os) (node : Dict) : DictND (inheritedRes os node) := by
  unfold inheritedRes
  cases hr : inheritedResAux os (os.length + 1) ((Dict.get node PARENT).bind Obj.asRef) with
  | none => exact dictND_nil
  | some res => exact inheritedResAux_nd h _ _ res hr

theorem distinct_getOrCreate (d : Doc) (pageId : ObjId) (d1 : Doc) (loc : ResLoc) (h : DistinctKeys d)
    (hr : getOrCreateResources d pageId = some (d1, loc)) : DistinctKeys d1 := by
  unfold getOrCreateResources at hr
  split at hr
  · cases hr
  · rename_i page hpage
    simp only at hr
    split at hr
    · cases ho : objectMutId d.objects _ with
      | none => rw [ho] at hr; cases hr
      | some t => rw [ho] at hr; simp at hr; rw [← hr.1]; exact h
    · split at hr
      · cases hr
      · split at hr
        · rename_i t _ pd hg
          split at hr
          · cases hr; exact h
          · cases hr
            apply distinct_objects h
            apply objsND_set ((distinctKeys_iff d).mp h).2
            rw [deepND_dict]
            apply dictND_set ((deepND_dict pd).mp (((distinctKeys_iff d).mp h).2 _ _ hg))
            rw [deepND_dict]
            exact inheritedRes_nd ((distinctKeys_iff d).mp h).2 page
        · cases hr

theorem readLoc_nd {os : Objects} (h : ObjsND os) (loc : ResLoc) (o : Obj) (hr : readLoc os loc = some o) : DeepND o := by
  cases loc with
  | obj id => exact h id o hr
  | entry t =>
    simp only [readLoc] at hr
    split at hr
    · rename_i pd hg
      exact dictND_get ((deepND_dict pd).mp (h _ _ hg)) _ _ hr
    · cases hr

theorem writeLoc_nd {os : Objects} (h : ObjsND os) (loc : ResLoc) (v : Obj) (hv : DeepND v) : ObjsND (writeLoc os loc v) := by
  cases loc with
  | obj id => exact objsND_set h id v hv
  | entry t =>
    simp only [writeLoc]
    split
    · rename_i pd hg
      apply objsND_set h
      rw [deepND_dict]
      exact dictND_set ((deepND_dict pd).mp (h _ _ hg)) _ _ hv
    · exact h

theorem res1_nd {res : Dict} (h : DictND res) (key : Bytes) :
    DictND (if Dict.has res key then res else Dict.set res key (.dict [])) := by
  split
  · exact h
  · exact dictND_set h _ _ ((deepND_dict []).mpr dictND_nil)

theorem distinct_addXObject (d : Doc) (pageId : ObjId) (name : Bytes) (xid : ObjId) (h : DistinctKeys d) :
    DistinctKeys (addXObject d pageId name xid).1 := by
  unfold addXObject
  split
  · exact h
  · rename_i d1 loc hgc
    have h1 := distinct_getOrCreate d pageId d1 loc h hgc
    have hos := ((distinctKeys_iff d1).mp h1).2
    split
    · rename_i res hres
      have hresnd : DictND res := (deepND_dict res).mp (readLoc_nd hos loc _ hres)
      have hr1 := res1_nd hresnd kXObject
      simp only
      split
      · split
        · exact h1
        · split
          · rename_i t _ xd hg
            apply distinct_objects h1
            apply objsND_set hos
            rw [deepND_dict]
            exact dictND_set ((deepND_dict xd).mp (hos _ _ hg)) _ _ (by simp [DeepND])
          · exact h1
      · rename_i xd hg
        apply distinct_objects h1
        apply writeLoc_nd hos
        rw [deepND_dict]
        apply dictND_set hr1
        rw [deepND_dict]
        exact dictND_set ((deepND_dict xd).mp (dictND_get hr1 _ _ hg)) _ _ (by simp [DeepND])
      · exact h1
    · exact h1

theorem distinct_addGraphicsState (d : Doc) (pageId : ObjId) (name : Bytes) (gid : ObjId) (h : DistinctKeys d) :
    DistinctKeys (addGraphicsState d pageId name gid).1 := by
  unfold addGraphicsState
  split
  · exact h
  · rename_i d1 loc hgc
    have h1 := distinct_getOrCreate d pageId d1 loc h hgc
    have hos := ((distinctKeys_iff d1).mp h1).2
    split
    · rename_i res hres
      have hresnd : DictND res := (deepND_dict res).mp (readLoc_nd hos loc _ hres)
      have hr1 := res1_nd hresnd kExtGState
      simp only
      split
      · rename_i sd hg
        apply distinct_objects h1
        apply writeLoc_nd hos
        rw [deepND_dict]
        apply dictND_set hr1
        rw [deepND_dict]
        exact dictND_set ((deepND_dict sd).mp (dictND_get hr1 _ _ hg)) _ _ (by simp [DeepND])
      · exact h1
    · exact h1

theorem plainThenCompress_nd (deflated : Bytes) {dict : Dict} (h : DictND dict) (content : Bytes) :
    DeepND (plainThenCompress deflated dict content) := by
  unfold plainThenCompress
  have h1 : DictND (Dict.set (Dict.remove (Dict.remove dict kDecodeParms) kFilter) LENGTHE (.int content.length)) :=
    dictND_set (dictND_remove (dictND_remove h _) _) _ _ (by simp [DeepND])
  simp only
  split
  · rw [deepND_stream]
    exact dictND_set (dictND_set (dictND_remove h1 _) _ _ (by simp [DeepND])) _ _ (by simp [DeepND])
  · rw [deepND_stream]; exact h1

theorem distinct_changeContentStream (deflate : Bytes → Bytes) (d : Doc) (sid : ObjId) (content : Bytes) (h : DistinctKeys d) :
    DistinctKeys (changeContentStream deflate d sid content) := by
  unfold changeContentStream
  split
  · rename_i dict c hg
    apply distinct_objects h
    apply objsND_set ((distinctKeys_iff d).mp h).2
    exact plainThenCompress_nd _ ((deepND_stream dict c).mp (((distinctKeys_iff d).mp h).2 _ _ hg)) content
  · exact h

theorem distinct_changePageContent (deflate : Bytes → Bytes) (d : Doc) (pageId : ObjId) (content : Bytes) (h : DistinctKeys d)
    (r : Doc × Out) (hr : changePageContent deflate d pageId content = .ok r) : DistinctKeys r.1 := by
  unfold changePageContent at hr
  split at hr
  · cases hr; exact h
  · cases hr; exact distinct_changeContentStream deflate d _ content h
  · cases hr; exact distinct_changeContentStream deflate d _ content h
  · cases hr; exact h
  · split at hr
    · cases hr
    · cases hr
      exact distinct_setDictEntry _ _ _ _ (distinct_addObject d _ h (streamNew_nd content)) (by simp [DeepND])
  · cases hr; exact h

/-! ### `compress` / `decompress` (model of C09) -/

theorem get_map_val (os : Objects) (g : ObjId → Obj → Obj) (q : ObjId) :
    Objects.get (os.map fun (p : ObjId × Obj) => (p.1, g p.1 p.2)) q = (os.get q).map (g q) := by
  induction os with
  | nil => simp [Objects.get]
  | cons p rest ih =>
    obtain ⟨k, v⟩ := p
    simp only [List.map_cons, Objects.get]
    by_cases hk : k = q
    · subst hk; simp
    · simp [hk, ih]

theorem objsND_map {os : Objects} (h : ObjsND os) (g : ObjId → Obj → Obj) (hg : ∀ k o, DeepND o → DeepND (g k o)) :
    ObjsND (os.map fun (p : ObjId × Obj) => (p.1, g p.1 p.2)) := by
  intro q o hq
  rw [get_map_val] at hq
  cases hos : os.get q with
  | none => rw [hos] at hq; cases hq
  | some o' => rw [hos] at hq; simp at hq; subst hq; exact hg q o' (h q o' hos)

theorem removeKeysSeq_nd (ks : List Bytes) : ∀ {d : Dict}, DictND d → DictND (removeKeysSeq d ks) := by
  induction ks with
  | nil => intro d h; exact h
  | cons k ks ih => intro d h; simp only [removeKeysSeq]; exact ih (dictND_remove h k)

theorem setContent_nd {s : Strm} (h : DictND s.dict) (c : Bytes) : DictND (setContent s c).dict := by
  unfold setContent; exact dictND_set h _ _ (by simp [lenObj, DeepND])

theorem compress_nd (deflate : Bytes → Bytes) {s : Strm} (h : DictND s.dict) : DictND (compress deflate s).dict := by
  unfold compress
  split
  · exact h
  · simp only
    split
    · exact setContent_nd (s := { s with dict := _ }) (dictND_set (dictND_remove h _) _ _ (by simp [DeepND])) _
    · exact h

theorem decompress_nd (ext : Ext) {s : Strm} (h : DictND s.dict) (s' : Strm) (hr : decompress ext s = .ok s') : DictND s'.dict := by
  unfold decompress at hr
  cases hc : decompressedContent ext s with
  | ok data =>
    rw [hc] at hr; simp only [Outcome.map] at hr; cases hr
    exact setContent_nd (s := { s with dict := _ }) (removeKeysSeq_nd _ h) _
  | err e => rw [hc] at hr; simp [Outcome.map] at hr
  | panic p => rw [hc] at hr; simp [Outcome.map] at hr

def compG (deflate : Bytes → Bytes) (allows : ObjId → Bool) (id : ObjId) (o : Obj) : Obj :=
  match o with
  | .stream d c => if allows id then .stream (compress deflate ⟨d, c⟩).dict (compress deflate ⟨d, c⟩).content else o
  | _ => o

def decG (ext : Ext) (_ : ObjId) (o : Obj) : Obj :=
  match o with
  | .stream d c => (match decompress ext ⟨d, c⟩ with
    | .ok s => .stream s.dict s.content
    | _ => o)
  | _ => o

theorem docCompress_nd (deflate : Bytes → Bytes) (allows : ObjId → Bool) {os : Objects} (h : ObjsND os) :
    ObjsND (docCompress deflate allows os) := by
  have e : docCompress deflate allows os = os.map fun (p : ObjId × Obj) => (p.1, compG deflate allows p.1 p.2) := by
    unfold docCompress
    apply List.map_congr_left
    intro p _
    obtain ⟨id, o⟩ := p
    cases o <;> simp [compG]
    split <;> rfl
  rw [e]
  refine objsND_map h (compG deflate allows) ?_
  intro k o ho
  cases o with
  | stream d c =>
    simp only [compG]
    split
    · rw [deepND_stream] at *; exact compress_nd deflate (s := ⟨d, c⟩) ho
    · exact ho
  | _ => exact ho

theorem docDecompress_nd (ext : Ext) {os : Objects} (h : ObjsND os) : ObjsND (docDecompress ext os) := by
  have e : docDecompress ext os = os.map fun (p : ObjId × Obj) => (p.1, decG ext p.1 p.2) := by
    unfold docDecompress
    apply List.map_congr_left
    intro p _
    obtain ⟨id, o⟩ := p
    cases o <;> simp [decG]
    generalize decompress ext _ = r
    cases r <;> rfl
  rw [e]
  refine objsND_map h (decG ext) ?_
  intro k o ho
  cases o with
  | stream d c =>
    simp only [decG]
    split
    · rename_i s hs
      rw [deepND_stream] at *
      exact decompress_nd ext (s := ⟨d, c⟩) ho s hs
    · exact ho
  | _ => exact ho

/-! ### `renumber_objects_with` -/

/-- membership form (for the temporary map of the move loop, which is iterated, not looked up) -/
def ValsND (os : Objects) : Prop := ∀ kv ∈ os, DeepND kv.2

theorem mem_insert (os : Objects) (k : ObjId) (v : Obj) (kv : ObjId × Obj) (h : kv ∈ os.insert k v) : kv = (k, v) ∨ kv ∈ os := by
  induction os with
  | nil => simp [Objects.insert] at h; exact Or.inl h
  | cons p rest ih =>
    obtain ⟨k', v'⟩ := p
    simp only [Objects.insert] at h
    split at h
    · rcases List.mem_cons.mp h with h | h
      · exact Or.inl h
      · exact Or.inr (List.mem_cons_of_mem _ h)
    · split at h
      · rcases List.mem_cons.mp h with h | h
        · exact Or.inl h
        · exact Or.inr h
      · rcases List.mem_cons.mp h with h | h
        · exact Or.inr (h ▸ List.mem_cons_self)
        · rcases ih h with h | h
          · exact Or.inl h
          · exact Or.inr (List.mem_cons_of_mem _ h)

theorem valsND_insert {os : Objects} (h : ValsND os) (k : ObjId) (v : Obj) (hv : DeepND v) : ValsND (os.insert k v) := by
  intro kv hkv
  rcases mem_insert os k v kv hkv with e | e
  · subst e; exact hv
  · exact h kv e

theorem moveObj_nd (st : MoveSt) (p : ObjId × ObjId) (h : ObjsND st.objects ∧ ValsND st.tmp) :
    ObjsND (moveObj st p).objects ∧ ValsND (moveObj st p).tmp := by
  unfold moveObj
  split
  · rename_i o hg
    exact ⟨objsND_remove h.1 _, valsND_insert h.2 _ _ (h.1 _ _ hg)⟩
  · exact h

theorem foldl_move_nd (bookmarks : List Nat) : ∀ (pairs : List (ObjId × ObjId)) (st : MoveSt),
    (ObjsND st.objects ∧ ValsND st.tmp) →
    ObjsND (pairs.foldl (moveStep bookmarks) st).objects ∧ ValsND (pairs.foldl (moveStep bookmarks) st).tmp := by
  intro pairs
  induction pairs with
  | nil => intro st h; exact h
  | cons p rest ih => intro st h; simp only [List.foldl_cons]; exact ih _ (moveObj_nd st p h)

theorem foldl_insert_nd : ∀ (tmp : Objects) (os : Objects), ValsND tmp → ObjsND os →
    ObjsND (tmp.foldl (fun acc kv => acc.insert kv.1 kv.2) os) := by
  intro tmp
  induction tmp with
  | nil => intro os _ h; exact h
  | cons kv rest ih =>
    intro os ht h
    simp only [List.foldl_cons]
    exact ih _ (fun x hx => ht x (List.mem_cons_of_mem _ hx)) (objsND_insert h _ _ (ht kv List.mem_cons_self))

theorem movePass_nd (bookmarks : List Nat) (os : Objects) (bm : BkTable) (pairs : List (ObjId × ObjId)) (h : ObjsND os) :
    ObjsND (movePass bookmarks os bm pairs).objects := by
  unfold movePass
  have := foldl_move_nd bookmarks pairs ⟨os, [], [], bm⟩ ⟨h, by intro kv hkv; cases hkv⟩
  exact foldl_insert_nd _ _ this.2 this.1

theorem distinct_pagePass (d : Doc) (h : DistinctKeys d) : DistinctKeys (pagePass d) := by
  unfold pagePass
  split
  · rename_i pairs _
    rw [distinctKeys_iff] at *
    exact traverse_nd _ (renameAct_nd _) d.trailer _ h.1 (movePass_nd _ _ _ _ h.2)
  · exact h

theorem distinct_densePass (d1 : Doc) (start : Nat) (d' : Doc) (h : DistinctKeys d1) (hr : densePass d1 start = .ok d') :
    DistinctKeys d' := by
  unfold densePass at hr
  split at hr
  · cases hr
  · cases hr
    rw [distinctKeys_iff] at *
    exact traverse_nd _ (renameAct_nd _) d1.trailer _ h.1 (movePass_nd _ _ _ _ h.2)

theorem distinct_renumber (d : Doc) (start : Nat) (d' : Doc) (h : DistinctKeys d) (hr : renumber d start = .ok d') :
    DistinctKeys d' :=
  distinct_densePass (pagePass d) start d' (distinct_pagePass d h) hr

/-! ### every call, every program -/

/-- what the caller must supply: objects handed to `add_object` / `set_object` are distinct-keyed
(they are built from `IndexMap`s) -/
def OpND : Op → Prop
  | .add o => DeepND o
  | .set _ o => DeepND o
  | _ => True

/-- **`DistinctKeys` is preserved by every editing call.** -/
theorem distinct_step (d : Doc) (op : Op) (h : DistinctKeys d) (hop : OpND op) (r : Doc × Out)
    (hr : step d op = .ok r) : DistinctKeys r.1 := by
  cases op with
  | newId =>
    simp only [step] at hr
    split at hr
    · cases hr
    · cases hr; rw [distinctKeys_iff] at *; exact h
  | add o =>
    simp only [step] at hr
    split at hr
    · cases hr
    · cases hr; exact distinct_addObject d o h hop
  | set id o =>
    simp only [step] at hr
    cases hr
    rw [distinctKeys_iff] at *
    exact ⟨h.1, objsND_insert h.2 _ _ hop⟩
  | del id => simp only [step] at hr; cases hr; exact distinct_delete d id h
  | prune => simp only [step] at hr; cases hr; exact distinct_prune d h
  | delZero => simp only [step] at hr; cases hr; exact distinct_delZero d h
  | renumber start =>
    simp only [step] at hr
    split at hr
    · rename_i d' hd; cases hr; exact distinct_renumber d start d' h hd
    · cases hr
    · cases hr
  | delPages nums => simp only [step] at hr; cases hr; exact distinct_deletePages d nums h
  | addContent page content => simp only [step] at hr; exact distinct_addPageContents d page content h r hr
  | removeAnnot id => simp only [step] at hr; cases hr; exact distinct_removeAnnot id _ d h
  | addXObject page name xid => simp only [step] at hr; cases hr; exact distinct_addXObject d page name xid h
  | addGState page name gid => simp only [step] at hr; cases hr; exact distinct_addGraphicsState d page name gid h
  | changeStream sid content deflated =>
    simp only [step] at hr; cases hr; exact distinct_changeContentStream _ d sid content h
  | changePage page content deflated =>
    simp only [step] at hr; exact distinct_changePageContent _ d page content h r hr
  | compress deflate =>
    simp only [step] at hr; cases hr
    rw [distinctKeys_iff] at *; exact ⟨h.1, docCompress_nd deflate (fun _ => true) h.2⟩
  | decompress ext =>
    simp only [step] at hr; cases hr
    rw [distinctKeys_iff] at *; exact ⟨h.1, docDecompress_nd ext h.2⟩

/-- **…hence it holds after every program of calls** started on a distinct-keyed document. -/
theorem distinct_run : ∀ (ops : List Op) (d d' : Doc), DistinctKeys d → (∀ op ∈ ops, OpND op) →
    runOps d ops = .ok d' → DistinctKeys d' := by
  intro ops
  induction ops with
  | nil => intro d d' h _ hr; simp only [runOps] at hr; cases hr; exact h
  | cons op rest ih =>
    intro d d' h hops hr
    simp only [runOps] at hr
    split at hr
    · rename_i d1 out hs
      exact ih d1 d' (distinct_step d op h (hops op List.mem_cons_self) (d1, out) hs)
        (fun o ho => hops o (List.mem_cons_of_mem _ ho)) hr
    · cases hr
    · cases hr

/-- the reference theorems of `delete_object` on every REACHABLE state: the `DistinctKeys` hypothesis
is discharged by `distinct_run` -/
theorem noNew_delete_reachable (d0 : Doc) (ops : List Op) (d : Doc) (p : ObjId) (h0 : DistinctKeys d0)
    (hops : ∀ op ∈ ops, OpND op) (hr : runOps d0 ops = .ok d) (hc : DelClean d p) : NoNew d (deleteObject d p).1 :=
  noNew_delete d p (distinct_run ops d0 d h0 hops hr) hc

/-- non-vacuity: the witness document of `Thm/C11Sound` is distinct-keyed and stays so under a program
that deletes a page, prunes, adds content and a resource -/
example : ∀ d', runOps wsound [.delPages [1], .prune, .addContent (4, 0) [66, 84], .addXObject (4, 0) [88] (9, 0)] = .ok d' →
    DistinctKeys d' :=
  fun d' hr => distinct_run _ wsound d' wsound_distinct (by intro op hop; simp at hop; rcases hop with rfl | rfl | rfl | rfl <;> trivial) hr

end Lopdf.Ed
