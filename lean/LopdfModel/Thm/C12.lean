import LopdfModel.Model.Pages
/-
  C12 — property theorems.
  * `run_forest`  : generalised depth-first theorem (any sibling stack, any budget)
  * `iter_dfs`    : page enumeration of an embedded page tree = its leaves, left to right
  * `iter_only_pages` : on *any* graph every yielded id was classified as a Page
  * termination of the iterator on every graph is `run`'s own (fuel-free) definition.
-/
namespace Lopdf
open Gen

/-- abstract page tree -/
inductive PT where
  | page (id : ObjId)
  | pages (id : ObjId) (kids : List PT)

mutual
def PT.size : PT → Nat
  | .page _ => 1
  | .pages _ ks => 1 + PT.sizeL ks
def PT.sizeL : List PT → Nat
  | [] => 0
  | t :: ts => t.size + PT.sizeL ts
end

mutual
def PT.leaves : PT → List ObjId
  | .page id => [id]
  | .pages _ ks => PT.leavesL ks
def PT.leavesL : List PT → List ObjId
  | [] => []
  | t :: ts => t.leaves ++ PT.leavesL ts
end

mutual
def PT.height : PT → Nat
  | .page _ => 0
  | .pages _ ks => 1 + PT.heightL ks
def PT.heightL : List PT → Nat
  | [] => 0
  | t :: ts => max t.height (PT.heightL ts)
end

def PT.id : PT → ObjId
  | .page id => id
  | .pages id _ => id

def PT.kidObj (t : PT) : Obj := .ref t.id.1 t.id.2

def PT.idsL (ts : List PT) : List Obj := ts.map PT.kidObj

/- `Embeds cls t`: the document (seen through `cls`) contains the tree: every
node's kid entry is classified as what the tree says, an intermediate node's
`Kids` are exactly its children's references. -/
mutual
def Embeds (cls : Obj → Cls) : PT → Prop
  | .page id => cls (.ref id.1 id.2) = .page id
  | .pages id ks => cls (.ref id.1 id.2) = .pages (some (PT.idsL ks)) ∧ EmbedsL cls ks
def EmbedsL (cls : Obj → Cls) : List PT → Prop
  | [] => True
  | t :: ts => Embeds cls t ∧ EmbedsL cls ts
end

theorem idsL_cons (t : PT) (ts : List PT) : PT.idsL (t :: ts) = t.kidObj :: PT.idsL ts := rfl

theorem run_nil_nonempty (cls : Obj → Cls) (r : List Obj) (stk : List (List Obj)) (lim : Nat)
    (h : r ≠ []) : run cls (some []) (r :: stk) lim = run cls (some r) stk lim := by
  rw [run]

theorem PT.size_pos (t : PT) : 0 < t.size := by
  cases t <;> simp [PT.size] <;> omega

/-- Generalised DFS theorem: for a forest `ts` embedded in the document, any
sibling stack `stk` that leaves room for the forest's height and any budget
`lim` at least the forest's size, the iterator yields the forest's leaves in
order and continues as if the forest's entries had been consumed. -/
theorem run_forest (cls : Obj → Cls) :
    ∀ (n : Nat) (ts : List PT) (stk : List (List Obj)) (lim : Nat),
      PT.sizeL ts ≤ n →
      EmbedsL cls ts → PT.sizeL ts ≤ lim → stk.length + PT.heightL ts ≤ PAGE_TREE_DEPTH_LIMIT →
      run cls (some (PT.idsL ts)) stk lim
        = PT.leavesL ts ++ run cls (some []) stk (lim - PT.sizeL ts) := by
  intro n
  induction n with
  | zero =>
    intro ts stk lim hn _ _ _
    cases ts with
    | nil => simp [PT.idsL, PT.leavesL, PT.sizeL]
    | cons t ts =>
      have := PT.size_pos t
      simp [PT.sizeL] at hn; omega
  | succ n ih =>
    intro ts stk lim hn hemb hlim hh
    cases ts with
    | nil => simp [PT.idsL, PT.leavesL, PT.sizeL]
    | cons t ts =>
      rw [idsL_cons]
      cases t with
      | page id =>
        simp only [EmbedsL, Embeds] at hemb
        simp only [PT.sizeL, PT.size] at hn hlim
        simp only [PT.heightL, PT.height] at hh
        have hlim0 : lim ≠ 0 := by omega
        rw [run]
        simp only [hlim0, if_false, PT.kidObj, PT.id, hemb.1]
        have := ih ts stk (lim - 1) (by omega) hemb.2 (by omega) (by omega)
        rw [this]
        have e : lim - 1 - PT.sizeL ts = lim - (1 + PT.sizeL ts) := by omega
        simp [PT.leavesL, PT.leaves, PT.sizeL, PT.size, e]
      | pages id ks =>
        simp only [EmbedsL, Embeds] at hemb
        simp only [PT.sizeL, PT.size] at hn hlim
        simp only [PT.heightL, PT.height] at hh
        have hlim0 : lim ≠ 0 := by omega
        have hdepth : stk.length < PAGE_TREE_DEPTH_LIMIT := by omega
        rw [run]
        simp only [hlim0, if_false, PT.kidObj, PT.id, hemb.1.1, hdepth, if_true]
        by_cases hr : (PT.idsL ts).isEmpty = true
        · -- no siblings left: nothing is pushed
          simp only [hr, if_true]
          have hts : ts = [] := by
            cases ts with
            | nil => rfl
            | cons a b => simp [PT.idsL] at hr
          subst hts
          have := ih ks stk (lim - 1) (by omega) hemb.1.2 (by omega) (by omega)
          rw [this]
          have e : lim - 1 - PT.sizeL ks = lim - (1 + PT.sizeL ks + PT.sizeL []) := by
            simp [PT.sizeL]; omega
          simp [PT.leavesL, PT.leaves, PT.sizeL, PT.size, e]
        · simp only [hr]
          have hne : PT.idsL ts ≠ [] := by
            intro h; rw [h] at hr; simp at hr
          have h1 := ih ks (PT.idsL ts :: stk) (lim - 1) (by omega) hemb.1.2 (by omega)
            (by simp only [List.length_cons]; omega)
          simp only [Bool.false_eq_true, if_false]
          rw [h1, run_nil_nonempty cls _ _ _ hne]
          have h2 := ih ts stk (lim - 1 - PT.sizeL ks) (by omega) hemb.2 (by omega) (by omega)
          rw [h2]
          have e : lim - 1 - PT.sizeL ks - PT.sizeL ts = lim - (1 + PT.sizeL ks + PT.sizeL ts) := by omega
          simp [PT.leavesL, PT.leaves, PT.sizeL, PT.size, e]

/-- the documented nesting limit of the page tree (the property's "documented limit") -/
theorem depth_limit_documented : PAGE_TREE_DEPTH_LIMIT = 256 := rfl

theorem run_done (cls : Obj → Cls) (lim : Nat) : run cls (some []) [] lim = [] := by
  rw [run]

/-- **C12, depth-first order.** If the page tree rooted at `Pages` is embedded in
the document with intermediate-node nesting within the documented limit, the
drained iterator is exactly the leaf pages, depth first, left to right
(`get_pages` numbers them 1..n by `enumerate`). The budget hypothesis is the
iterator's own `iter_limit = |objects|`; it holds whenever the nodes are
distinct objects of the document. -/
theorem iter_dfs (cls : Obj → Cls) (ks : List PT) (lim : Nat)
    (hemb : EmbedsL cls ks) (hbudget : PT.sizeL ks ≤ lim)
    (hdepth : PT.heightL ks ≤ PAGE_TREE_DEPTH_LIMIT) :
    run cls (some (PT.idsL ks)) [] lim = PT.leavesL ks := by
  have := run_forest cls (PT.sizeL ks) ks [] lim (Nat.le_refl _) hemb hbudget (by simpa using hdepth)
  rw [this, run_done]; simp

/-- **C12, malformed trees.** On *any* graph — cycles, dangling or ill-typed kids,
wrong counts — every id the iterator yields was classified as a `Page`
dictionary (and `run` is total: termination is part of its definition). -/
theorem iter_only_pages (cls : Obj → Cls) :
    ∀ (k : Option (List Obj)) (stk : List (List Obj)) (lim : Nat) (id : ObjId),
      id ∈ run cls k stk lim → ∃ kid, cls kid = .page id := by
  intro k stk lim
  induction k, stk, lim using run.induct (cls := cls) with
  | case1 kid rest stack => intro id hid; rw [run] at hid; simp at hid
  | case2 kid rest stack limit h hc ih =>
    intro id hid; rw [run] at hid; simp [h, hc] at hid; exact ih id hid
  | case3 kid rest stack limit h pid hc ih =>
    intro id hid; rw [run] at hid; simp [h, hc] at hid
    rcases hid with rfl | hid
    · exact ⟨kid, hc⟩
    · exact ih id hid
  | case4 kid rest stack limit h ks hc hd ih =>
    intro id hid; rw [run] at hid; simp [h, hc, hd] at hid; exact ih id (by simpa using hid)
  | case5 kid rest stack limit h ks hc hd ih =>
    intro id hid; rw [run] at hid; simp [h, hc, hd] at hid; exact ih id hid
  | case6 top st limit ih => intro id hid; rw [run] at hid; exact ih id hid
  | case7 top st limit ih => intro id hid; rw [run] at hid; exact ih id hid
  | case8 l => intro id hid; rw [run] at hid; simp at hid
  | case9 l => intro id hid; rw [run] at hid; simp at hid

/-- `classify` yields `.page id` only for an object whose dictionary has `Type = Page`. -/
theorem classify_page (os : Objects) (kid : Obj) (id : ObjId) (h : classify os kid = .page id) :
    kid.asRef = some id ∧ (getDictionary os id).bind Dict.getType = some PAGE := by
  unfold classify at h
  split at h
  · cases h
  · rename_i id' hid
    split at h
    · cases h
    · rename_i t ht
      split at h
      · rename_i hp; cases h; subst hp; exact ⟨hid, ht⟩
      · split at h <;> cases h

/-- Instance for concrete documents: everything `page_iter` yields is a `Page` dictionary. -/
theorem pageIter_only_pages (trailer : Dict) (os : Objects) (id : ObjId)
    (h : id ∈ pageIter trailer os) : (getDictionary os id).bind Dict.getType = some PAGE := by
  unfold pageIter at h
  simp only at h
  split at h
  · obtain ⟨kid, hk⟩ := iter_only_pages _ _ _ _ _ h
    exact (classify_page os kid id hk).2
  · simp at h

/-- the number of yielded pages never exceeds the number of objects (`iter_limit`) -/
theorem run_length_le (cls : Obj → Cls) :
    ∀ (k : Option (List Obj)) (stk : List (List Obj)) (lim : Nat), (run cls k stk lim).length ≤ lim := by
  intro k stk lim
  induction k, stk, lim using run.induct (cls := cls) with
  | case1 kid rest stack => rw [run]; simp
  | case2 kid rest stack limit h hc ih => rw [run]; simp [h, hc]; omega
  | case3 kid rest stack limit h pid hc ih => rw [run]; simp [h, hc]; omega
  | case4 kid rest stack limit h ks hc hd ih => rw [run]; simp [h, hc, hd]; simp at ih; omega
  | case5 kid rest stack limit h ks hc hd ih => rw [run]; simp [h, hc, hd]; omega
  | case6 top st limit ih => rw [run]; exact ih
  | case7 top st limit ih => rw [run]; exact ih
  | case8 l => rw [run]; simp
  | case9 l => rw [run]; simp

/- Non-vacuity: a concrete two-level tree with an empty intermediate node, embedded in a
concrete classification, meets the hypotheses and enumerates as 3,5. -/
private def exTree : List PT :=
  [.pages (2,0) [.page (3,0), .pages (4,0) []], .page (5,0)]
private def exCls : Obj → Cls
  | .ref 2 0 => .pages (some [.ref 3 0, .ref 4 0])
  | .ref 3 0 => .page (3,0)
  | .ref 4 0 => .pages (some [])
  | .ref 5 0 => .page (5,0)
  | _ => .skip
example : EmbedsL exCls exTree ∧ PT.sizeL exTree ≤ 4 ∧ PT.heightL exTree ≤ PAGE_TREE_DEPTH_LIMIT := by
  refine ⟨?_, by decide, by decide⟩
  simp [exTree, EmbedsL, Embeds, exCls, PT.idsL, PT.kidObj, PT.id]
example : run exCls (some (PT.idsL exTree)) [] 4 = [(3,0), (5,0)] := by
  rw [iter_dfs exCls exTree 4 (by simp [exTree, EmbedsL, Embeds, exCls, PT.idsL, PT.kidObj, PT.id])
    (by decide) (by decide)]
  rfl

end Lopdf

namespace Lopdf
open Gen

/-! ### concrete documents: the budget `iter_limit = |objects|` is always enough for an embedded
tree whose nodes are distinct objects -/

mutual
def PT.allIds : PT → List ObjId
  | .page id => [id]
  | .pages id ks => id :: PT.allIdsL ks
def PT.allIdsL : List PT → List ObjId
  | [] => []
  | t :: ts => t.allIds ++ PT.allIdsL ts
end

mutual
theorem PT.allIds_length : ∀ t : PT, t.allIds.length = t.size
  | .page _ => by simp [PT.allIds, PT.size]
  | .pages _ ks => by simp [PT.allIds, PT.size, PT.allIdsL_length ks]; omega
theorem PT.allIdsL_length : ∀ ts : List PT, (PT.allIdsL ts).length = PT.sizeL ts
  | [] => by simp [PT.allIdsL, PT.sizeL]
  | t :: ts => by simp [PT.allIdsL, PT.sizeL, PT.allIds_length t, PT.allIdsL_length ts]
end

def Objects.eraseKey (os : Objects) (id : ObjId) : Objects := os.filter (fun p => p.1 != id)

theorem Objects.get_eraseKey_ne (os : Objects) (a id : ObjId) (h : id ≠ a) :
    (os.eraseKey a).get id = os.get id := by
  induction os with
  | nil => rfl
  | cons p rest ih =>
    obtain ⟨k, v⟩ := p
    unfold Objects.eraseKey at *
    by_cases hk : k = a
    · subst hk
      have : ¬ k = id := fun e => h e.symm
      have hf : ((k, v).1 != k) = false := by simp
      rw [List.filter_cons_of_neg (by simp)]
      simp [Objects.get, this, ih]
    · have hf : List.filter (fun p : ObjId × Obj => p.1 != a) ((k, v) :: rest)
          = (k, v) :: List.filter (fun p : ObjId × Obj => p.1 != a) rest := by simp [List.filter_cons, hk]
      rw [hf]
      by_cases hi : k = id
      · simp [Objects.get, hi]
      · simp [Objects.get, hi, ih]

theorem Objects.length_eraseKey_lt (os : Objects) (a : ObjId) (h : (os.get a).isSome) :
    (os.eraseKey a).length < os.length := by
  induction os with
  | nil => simp [Objects.get] at h
  | cons p rest ih =>
    obtain ⟨k, v⟩ := p
    unfold Objects.eraseKey at *
    by_cases hk : k = a
    · subst hk
      rw [List.filter_cons_of_neg (by simp)]
      have := List.length_filter_le (fun p : ObjId × Obj => p.1 != k) rest
      simp only [List.length_cons]
      omega
    · have hrest : (Objects.get rest a).isSome := by simpa [Objects.get, hk] using h
      have := ih hrest
      have hf : List.filter (fun p : ObjId × Obj => p.1 != a) ((k, v) :: rest)
          = (k, v) :: List.filter (fun p : ObjId × Obj => p.1 != a) rest := by simp [List.filter_cons, hk]
      rw [hf]
      simp only [List.length_cons]
      omega

/-- distinct ids that all name objects of the document are at most as many as the objects -/
theorem nodup_present_le (ids : List ObjId) : ∀ (os : Objects), ids.Nodup →
    (∀ id ∈ ids, (os.get id).isSome) → ids.length ≤ os.length := by
  induction ids with
  | nil => intro os _ _; simp
  | cons a rest ih =>
    intro os hnd hpres
    have ha := hpres a (by simp)
    have hnd' := List.nodup_cons.mp hnd
    have := ih (os.eraseKey a) hnd'.2 (by
      intro id hid
      have hne : id ≠ a := fun e => hnd'.1 (e ▸ hid)
      rw [Objects.get_eraseKey_ne os a id hne]
      exact hpres id (by simp [hid]))
    have hl := Objects.length_eraseKey_lt os a ha
    simp only [List.length_cons]
    omega

theorem getDictionary_some_present (os : Objects) (id : ObjId) (h : (getDictionary os id).isSome) :
    (os.get id).isSome := by
  unfold getDictionary getObject at h
  cases hg : os.get id with
  | none => simp [hg] at h
  | some _ => simp

theorem classify_present (os : Objects) (id : ObjId) (c : Cls) (hc : classify os (.ref id.1 id.2) = c)
    (hne : c ≠ .skip) : (os.get id).isSome := by
  unfold classify at hc
  simp only [Obj.asRef] at hc
  cases hd : getDictionary os id with
  | none => simp [hd] at hc; exact absurd hc.symm hne
  | some d => exact getDictionary_some_present os id (by simp [hd])

mutual
theorem Embeds_present (os : Objects) : ∀ t : PT, Embeds (classify os) t → ∀ id ∈ t.allIds, (os.get id).isSome
  | .page pid, h, id, hid => by
    simp only [PT.allIds, List.mem_singleton] at hid
    rw [hid]
    exact classify_present os pid (.page pid) h (by simp)
  | .pages pid ks, h, id, hid => by
    simp only [Embeds] at h
    simp only [PT.allIds, List.mem_cons] at hid
    rcases hid with hid | hid
    · rw [hid]; exact classify_present os pid _ h.1 (by simp)
    · exact EmbedsL_present os ks h.2 id hid
theorem EmbedsL_present (os : Objects) : ∀ ts : List PT, EmbedsL (classify os) ts → ∀ id ∈ PT.allIdsL ts, (os.get id).isSome
  | [], _, id, hid => by simp [PT.allIdsL] at hid
  | t :: ts, h, id, hid => by
    simp only [EmbedsL] at h
    simp only [PT.allIdsL, List.mem_append] at hid
    rcases hid with hid | hid
    · exact Embeds_present os t h.1 id hid
    · exact EmbedsL_present os ts h.2 id hid
end

/-- **C12 for concrete documents.** If the catalog's `Pages` node has the forest `ks` as its
kids, the forest is embedded in the document (every node is a `Page` / `Pages` dictionary with
exactly these kids), its nodes are pairwise distinct objects, and intermediate nodes nest at
most PAGE_TREE_DEPTH_LIMIT deep, then `page_iter` yields exactly the leaf pages, depth first,
left to right — the iterator's own budget `|objects|` always suffices. -/
theorem pageIter_dfs (trailer : Dict) (os : Objects) (cat pid : ObjId) (catd : Dict) (ks : List PT)
    (hroot : (trailer.get ROOT).bind Obj.asRef = some cat)
    (hcat : getDictionary os cat = some catd)
    (hpages : (catd.get PAGES).bind Obj.asRef = some pid)
    (hkids : kidsOf os pid = some (PT.idsL ks))
    (hemb : EmbedsL (classify os) ks)
    (hnodup : (PT.allIdsL ks).Nodup)
    (hdepth : PT.heightL ks ≤ PAGE_TREE_DEPTH_LIMIT) :
    pageIter trailer os = PT.leavesL ks := by
  have hbudget : PT.sizeL ks ≤ os.length := by
    rw [← PT.allIdsL_length]
    exact nodup_present_le _ os hnodup (EmbedsL_present os ks hemb)
  unfold pageIter
  simp only [hroot, Option.bind_some, hcat, hpages, hkids]
  exact iter_dfs (classify os) ks os.length hemb hbudget hdepth

end Lopdf
