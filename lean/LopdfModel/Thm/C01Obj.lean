import LopdfModel.Lemmas.ObjRtCore
import LopdfModel.Lemmas.LitFull
/-
  C01 — object level.  What `Writer::write_object` writes for a direct object is read back by
  `_direct_objects` / `_direct_object` / `parser::direct_object` as the same object (an
  integral-valued real comes back as the integer it denotes), for EVERY direct object — null,
  booleans, all i64 integers, reals in `Display` form, names and strings with arbitrary bytes,
  references within u32 × u16, arrays and dictionaries nested up to MAX_NESTING, distinct
  dictionary keys — followed by ANY text the separator logic can produce, for all sufficient
  parser fuel.  Definitions: `Lemmas/ObjRt{Base,Rec,Core}.lean`, `Lemmas/LitFull.lean`.
-/
namespace Lopdf.ObjRt
open Lopdf Gen

/-- **Literal strings, every byte string** (the full statement `lit_rt_partial` left open):
parentheses balanced up to `MAX_BRACKET` levels stay raw, unbalanced and deeper ones, backslash
and CR are escaped, and `literal_string` reads the string back exactly, whatever follows. -/
theorem lit_rt (s rest : Bytes) : pLiteral (writeString s .lit ++ rest) = some (s, rest) :=
  LitRt.lit_rt_full s rest

example : pLiteral (writeString [40, 40, 41, 92, 41, 41, 40, 13] .lit ++ [47]) =
    some ([40, 40, 41, 92, 41, 41, 40, 13], [47]) := lit_rt _ _

/-- well-formed direct objects (no constraint on literal strings) -/
abbrev WFObj : Obj → Prop := WF (fun _ => True)

theorem litOK_all : ∀ s : Bytes, (fun _ : Bytes => True) s → LitOK s := fun s _ rest => lit_rt s rest

/-- **Object round trip through `_direct_objects`.** -/
theorem obj_rt (o : Obj) (fuel depth : Nat) (rest : Bytes) (hwf : WFObj o)
    (hdepth : depth + height o ≤ MAX_NESTING) (hfuel : size o ≤ fuel) (hstop : Follow true o rest) :
    directObjects fuel depth (writeObj o ++ rest) = .ok (norm o) rest :=
  obj_core _ litOK_all o fuel depth rest hwf hdepth hfuel hstop

/-- … through `_direct_object` (= `terminated(_direct_objects, space)`): the rest has the
following `space` consumed. -/
theorem directObject_rt (o : Obj) (fuel depth : Nat) (rest : Bytes) (hwf : WFObj o)
    (hdepth : depth + height o ≤ MAX_NESTING) (hfuel : size o ≤ fuel) (hstop : Follow true o rest) :
    directObject fuel depth (writeObj o ++ rest) = .ok (norm o) (space rest) :=
  directObject_of _ _ _ _ _ (obj_rt o fuel depth rest hwf hdepth hfuel hstop)

/-- **The stop-context invariant holds where the writer continues**: after an array item come
the remaining items and `]`, after a dictionary value the remaining entries and `>>`; both are
stop contexts, and a stop context is an admissible following text for every object. -/
theorem stop_context_established (items : List Obj) (es : List (Bytes × Obj)) (rest : Bytes)
    (h : WFL (fun _ => True) items) :
    StopCtx (writeArr false items ++ 93 :: rest) ∧ StopCtx (writeDictBody es ++ 62 :: 62 :: rest) ∧
    ∀ (C : Bytes), StopCtx C → ∀ (wr : Bool) (o : Obj), Follow wr o C :=
  ⟨stop_arr _ items rest h, (stop_dict es rest).1, fun _ hC wr o => hC.follow wr o⟩

/-! ### fuel: the input length always suffices -/

mutual
theorem size_le_length (L : Bytes → Prop) : ∀ (o : Obj), WF L o → size o ≤ (writeObj o).length
  | .arr items, h => by
    simp only [WF] at h
    have := sizeL_le_length L items true h
    simp [size, writeObj]; omega
  | .dict es, h => by
    simp only [WF] at h
    have := sizeD_le_length L es h.2
    simp [size, writeObj]; omega
  | .null, _ => by simp [size, writeObj]
  | .bool b, _ => by cases b <;> simp [size, writeObj]
  | .int i, h => by
    obtain ⟨b, r, e, _⟩ := head_obj L (.int i) [] h
    have := congrArg List.length e
    simp at this; simp [size]; omega
  | .real t, h => by
    obtain ⟨b, r, e, _⟩ := head_obj L (.real t) [] h
    have := congrArg List.length e
    simp at this; simp [size]; omega
  | .name n, _ => by simp [size, writeObj, writeName]
  | .str s f, _ => by cases f <;> simp [size, writeObj, writeString]
  | .ref n g, _ => by simp [size, writeObj]; omega
  | .stream es c, h => by simp [WF] at h
theorem sizeL_le_length (L : Bytes → Prop) : ∀ (items : List Obj) (first : Bool), WFL L items →
    sizeL items ≤ (writeArr first items).length
  | [], _, _ => by simp [sizeL]
  | o :: r, first, h => by
    simp only [WFL] at h
    have h1 := size_le_length L o h.1
    have h2 := sizeL_le_length L r false h.2
    rw [writeArr_cons]
    simp only [sizeL, List.length_append]
    omega
theorem sizeD_le_length (L : Bytes → Prop) : ∀ (es : List (Bytes × Obj)), WFD L es →
    sizeD es ≤ (writeDictBody es).length
  | [], _ => by simp [sizeD]
  | (k, v) :: r, h => by
    simp only [WFD] at h
    have h1 := size_le_length L v h.1
    have h2 := sizeD_le_length L r h.2
    rw [writeDictBody_cons]
    simp only [sizeD, List.length_append]
    omega
end

/-- **Object round trip through `parser::direct_object`** (the entry point with its own fuel):
no fuel hypothesis left. -/
theorem parseDirect_rt (o : Obj) (rest : Bytes) (hwf : WFObj o) (hdepth : height o ≤ MAX_NESTING)
    (hstop : Follow true o rest) : parseDirect (writeObj o ++ rest) = some (norm o, space rest) := by
  have hf : size o ≤ (writeObj o ++ rest).length + 1 := by
    have := size_le_length _ o hwf
    simp; omega
  unfold parseDirect
  rw [directObject_rt o _ 0 rest hwf (by omega) hf hstop]

/-! ### `norm` changes nothing but integral-valued reals, and is idempotent -/

mutual
def NoReal : Obj → Prop
  | .real _ => False
  | .arr items => NoRealL items
  | .dict es => NoRealD es
  | _ => True
def NoRealL : List Obj → Prop
  | [] => True
  | o :: r => NoReal o ∧ NoRealL r
def NoRealD : List (Bytes × Obj) → Prop
  | [] => True
  | (_, v) :: r => NoReal v ∧ NoRealD r
end

mutual
theorem norm_noReal : ∀ (o : Obj), NoReal o → norm o = o
  | .arr items, h => by simp only [NoReal] at h; simp [norm, normL_noReal items h]
  | .dict es, h => by simp only [NoReal] at h; simp [norm, normD_noReal es h]
  | .real _, h => by simp [NoReal] at h
  | .null, _ | .bool _, _ | .int _, _ | .name _, _ | .str _ _, _ | .ref _ _, _ | .stream _ _, _ => by simp [norm]
theorem normL_noReal : ∀ (items : List Obj), NoRealL items → normL items = items
  | [], _ => rfl
  | o :: r, h => by simp only [NoRealL] at h; simp [normL, norm_noReal o h.1, normL_noReal r h.2]
theorem normD_noReal : ∀ (es : List (Bytes × Obj)), NoRealD es → normD es = es
  | [], _ => rfl
  | (k, v) :: r, h => by simp only [NoRealD] at h; simp [normD, norm_noReal v h.1, normD_noReal r h.2]
end

/-- a real with a fraction is unchanged; an integral text inside the `i64` range becomes that integer -/
theorem norm_real_decimal (t : Bytes) (h : IsDecimal t) : norm (.real t) = .real t := by
  obtain ⟨neg, d1, d2, rfl, _, _, _⟩ := h.parts
  simp [norm, normReal]

/-! ### non-vacuity -/

/-- `[5 6 7 0 R/A<</B 1.5/C(())/D -0>>null]`-like sample: every kind, nested -/
def sampleObj : Obj :=
  .arr [.int 5, .int 6, .ref 7 0, .name [65],
    .dict [([66], .real [49, 46, 53]), ([67], .str [40, 41, 40] .lit), ([68], .real [45, 48])],
    .str [0, 255] .hex, .bool true, .null, .arr []]

theorem sample_wf : WFObj sampleObj := by
  simp only [sampleObj, WFObj, WF, WFL, WFD, RealOK]
  refine ⟨by decide, by decide, by decide, trivial, ⟨by decide, ?_, trivial, ?_, trivial⟩, trivial, trivial, trivial, trivial, trivial⟩
  · exact Or.inl ⟨⟨false, [49], [53], rfl, by simp, by decide, by decide⟩⟩
  · exact Or.inr ⟨true, [48], rfl, by simp, by intro b hb; simp at hb; subst hb; decide, by decide⟩

example : parseDirect (writeObj sampleObj ++ [10, 101]) = some (norm sampleObj, space [10, 101]) :=
  parseDirect_rt sampleObj _ sample_wf (by decide) (by simp [sampleObj, Follow])

example : norm sampleObj =
    .arr [.int 5, .int 6, .ref 7 0, .name [65],
      .dict [([66], .real [49, 46, 53]), ([67], .str [40, 41, 40] .lit), ([68], .int 0)],
      .str [0, 255] .hex, .bool true, .null, .arr []] := by
  rfl

/-- the look-ahead condition is needed: `5` followed by ` 6 R` is a reference, not the integer -/
example : writeObj (.int 5) = [53] ∧ ∀ fuel depth,
    directObjects (fuel + 1) depth ([53] ++ [32, 54, 32, 82]) = .ok (.ref 5 6) [] := by
  refine ⟨by simp [writeObj, writeInt, natDigits], fun fuel depth => directObjects_scalar fuel depth _ _ _ ?_⟩
  have : (match scalars true ([53] ++ [32, 54, 32, 82]) with | some (.ref 5 6, []) => true | _ => false) = true := by
    decide +kernel
  revert this
  cases scalars true ([53] ++ [32, 54, 32, 82]) with
  | none => simp
  | some p =>
    obtain ⟨o, r⟩ := p
    cases o <;> cases r <;> simp
    rename_i n g
    intro h
    split at h <;> simp_all
/-- … and it is what `write_array` guarantees: in `[5 6 7 0 R]` the first integers read back as integers -/
example : StopCtx (writeArr false [.int 6, .ref 7 0] ++ 93 :: []) :=
  stop_arr (fun _ => True) _ _ (by simp [WFL, WF]; decide)

end Lopdf.ObjRt
