import LopdfModel.Lemmas.Lex
import LopdfModel.Spec.GrammarTokens
/-
  C02 — white space and comments between tokens: every spelling (`DerivesSpace`) is skipped by
  `space`, whatever follows.  Includes the fuel-independence of `spaceF` (the fuel `space`
  supplies always suffices).
-/
namespace Lopdf.Grammar
open Lopdf Gen

theorem spanP_length (p : UInt8 → Bool) (inp : Bytes) :
    (spanP p inp).1.length + (spanP p inp).2.length = inp.length := by
  induction inp with
  | nil => simp [spanP]
  | cons b r ih =>
    simp only [spanP]
    split
    · simp only [List.length_cons]; omega
    · simp

theorem eol_length (inp : Bytes) (e r : Bytes) (h : eol inp = some (e, r)) : r.length < inp.length := by
  unfold eol at h
  split at h <;> simp at h <;> obtain ⟨_, rfl⟩ := h <;> simp only [List.length_cons] <;> omega

theorem comment_length (inp r : Bytes) (h : comment inp = some r) : r.length < inp.length := by
  unfold comment at h
  split at h
  · rename_i r0
    have hl := spanP_length (fun b => b != 13 && b != 10) r0
    revert h
    cases hs : spanP (fun b => b != 13 && b != 10) r0 with
    | mk a r' =>
      rw [hs] at hl
      simp only [Option.map_eq_some_iff]
      rintro ⟨⟨e, r2⟩, he, rfl⟩
      have := eol_length _ _ _ he
      simp only [List.length_cons] at hl ⊢
      omega
  · cases h

/-- **The fuel of `space` is irrelevant**: any two amounts of fuel above the input length give
the same result (each round consumes at least one byte). -/
theorem spaceF_fuel : ∀ (f f' : Nat) (inp : Bytes), inp.length < f → inp.length < f' →
    spaceF f inp = spaceF f' inp := by
  intro f
  induction f with
  | zero => intro f' inp h; omega
  | succ f ih =>
    intro f' inp h h'
    cases f' with
    | zero => omega
    | succ f' =>
      simp only [spaceF]
      have hl := spanP_length isWhitespace inp
      cases hs : spanP isWhitespace inp with
      | mk a r =>
        rw [hs] at hl
        cases a with
        | cons x xs =>
          simp only [List.length_cons] at hl
          exact ih f' r (by omega) (by omega)
        | nil =>
          simp only
          cases hc : comment inp with
          | none => rfl
          | some r' =>
            have := comment_length _ _ hc
            exact ih f' r' (by omega) (by omega)

theorem space_eq_spaceF (inp : Bytes) (f : Nat) (h : inp.length < f) : space inp = spaceF f inp :=
  spaceF_fuel _ _ inp (by omega) h

/-- one white-space byte is skipped -/
theorem space_ws_cons (b : UInt8) (x : Bytes) (hb : isWhitespace b = true) : space (b :: x) = space x := by
  rw [space_eq_spaceF (b :: x) (x.length + 2) (by simp)]
  simp only [spaceF, spanP, hb, if_true]
  have hl := spanP_length isWhitespace x
  cases hs : spanP isWhitespace x with
  | mk a r =>
    rw [hs] at hl
    simp only
    cases a with
    | nil =>
      simp only [List.length_nil, Nat.zero_add] at hl
      have hx : r = x := by
        have : (spanP isWhitespace x).1 ++ (spanP isWhitespace x).2 = x := by
          clear hs hl
          induction x with
          | nil => simp [spanP]
          | cons y ys ih => simp only [spanP]; split <;> simp_all
        rw [hs] at this; simpa using this
      subst hx
      rfl
    | cons y ys =>
      simp only [List.length_cons] at hl
      rw [space_eq_spaceF x (x.length + 1) (by omega)]
      simp only [spaceF, hs]
      exact spaceF_fuel (x.length + 1) x.length r (by omega) (by omega)

/-- a comment is skipped -/
theorem space_comment (x r : Bytes) (hc : comment (37 :: x) = some r) : space (37 :: x) = space r := by
  rw [space_eq_spaceF (37 :: x) (x.length + 2) (by simp)]
  simp only [spaceF, spanP, show isWhitespace 37 = false by decide, Bool.false_eq_true, if_false, hc]
  have := comment_length _ _ hc
  exact (space_eq_spaceF r _ (by simp at this; omega)).symm

/-- a context in which white space ends: end of input, or a byte that neither is white space
nor starts a comment -/
def SpaceStop (rest : Bytes) : Prop := ∀ b r, rest = b :: r → isWhitespace b = false ∧ b ≠ 37

theorem space_stop (rest : Bytes) (h : SpaceStop rest) : space rest = rest := by
  cases rest with
  | nil => rfl
  | cons b r =>
    obtain ⟨h1, h2⟩ := h b r rfl
    have hc : comment (b :: r) = none := by
      unfold comment
      split
      · rename_i heq; injection heq with e _; exact absurd e h2
      · rfl
    simp only [space, spaceF, spanP, h1, Bool.false_eq_true, if_false, hc]

theorem eol_cr_other (c : UInt8) (t : Bytes) (hc : c ≠ 10) : eol (13 :: c :: t) = some ([13], c :: t) := by
  unfold eol
  split <;> simp_all

theorem comment_skip (body e y : Bytes) (hb : NoEolByte body) (he : IsEol e) :
    ∃ r, comment (37 :: body ++ e ++ y) = some r ∧ space r = space y := by
  have hspan : ∀ t : Bytes, (∀ b r, t = b :: r → (b != 13 && b != 10) = false) →
      spanP (fun b => b != 13 && b != 10) (body ++ t) = (body, t) :=
    fun t ht => spanP_append _ body t hb ht
  cases he with
  | lf =>
    refine ⟨y, ?_, rfl⟩
    simp only [comment, List.cons_append, List.append_assoc, List.nil_append]
    rw [hspan (10 :: y) (by intro b r h; injection h with h _; subst h; decide)]
    simp [eol]
  | crlf =>
    refine ⟨y, ?_, rfl⟩
    simp only [comment, List.cons_append, List.append_assoc, List.nil_append]
    rw [hspan (13 :: 10 :: y) (by intro b r h; injection h with h _; subst h; decide)]
    simp [eol]
  | cr =>
    simp only [comment, List.cons_append, List.append_assoc, List.nil_append]
    rw [hspan (13 :: y) (by intro b r h; injection h with h _; subst h; decide)]
    cases y with
    | nil => exact ⟨[], by simp [eol], rfl⟩
    | cons c t =>
      by_cases hc : c = 10
      · subst hc
        exact ⟨t, by simp [eol], (space_ws_cons 10 t (by decide)).symm⟩
      · refine ⟨c :: t, ?_, rfl⟩
        simp only [eol_cr_other c t hc]
        rfl

/-- skipping is compositional: a derivable prefix disappears in front of ANY text -/
theorem space_derives_append {bs : Bytes} (h : DerivesSpace bs) (rest : Bytes) :
    space (bs ++ rest) = space rest := by
  induction h with
  | nil => rfl
  | ws b bs hb _ ih => rw [List.cons_append, space_ws_cons b _ hb, ih]
  | comment body e bs hb he _ ih =>
    obtain ⟨r, hc, hr⟩ := comment_skip body e (bs ++ rest) hb he
    have e1 : 37 :: body ++ e ++ bs ++ rest = 37 :: (body ++ e ++ (bs ++ rest)) := by simp
    have e2 : 37 :: body ++ e ++ (bs ++ rest) = 37 :: (body ++ e ++ (bs ++ rest)) := by simp
    rw [e1, space_comment _ r (by rw [← e2]; exact hc), hr, ih]

/-- **White space and comments, every spelling.** Whatever mix of the six white-space bytes
and of `%…EOL` comments (any of the three end-of-line markers) stands between two tokens,
`space` skips exactly that text when the next token starts with neither. -/
theorem space_complete (bs rest : Bytes) (h : DerivesSpace bs) (hs : SpaceStop rest) :
    space (bs ++ rest) = rest := by
  rw [space_derives_append h rest, space_stop rest hs]

example : DerivesSpace [32, 37, 65, 13, 10, 0, 37, 13, 12] :=
  .ws 32 _ (by decide) (.comment [65] [13, 10] _ (by intro b hb; simp at hb; subst hb; decide) .crlf
    (.ws 0 _ (by decide) (.comment [] [13] [12] (by intro b hb; simp at hb) .cr (.ws 12 _ (by decide) .nil))))
example : SpaceStop [47, 65] := by intro b r h; simp at h; obtain ⟨rfl, _⟩ := h; decide

end Lopdf.Grammar
