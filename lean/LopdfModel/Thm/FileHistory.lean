import LopdfModel.Thm.FileRevs
/-
  C07 — **`incr_again`: histories of ANY number of revisions.**  A document saved plainly and
  then updated incrementally any number of times (classic tables, `Prev` = the previous
  cross-reference offset): `Reader::read` on the final file returns, for every object id, the
  object of the NEWEST revision that holds it.  Induction over the history, `prevLoop_chain`.
-/
namespace Lopdf.FileRT
open Lopdf Gen Lopdf.ObjRt

/-- offset of the newest cross-reference section -/
def topX : List (SDoc × Bytes) → Nat
  | [] => 0
  | (d, pre) :: _ => (bodyOf pre d).length

/-- `History revs out`: `out` is the file after the revisions `revs` (newest first, each with the
bytes it was appended to): a plain save, then any number of `IncrementalDocument::save`s whose
`Prev` is the previous cross-reference offset -/
inductive History : List (SDoc × Bytes) → Bytes → Prop
  | base (d : SDoc) (out : Bytes) (d' : SDoc) : RevOK d → saveFrom [] d = some (out, d') →
      d.trailer.get PREV = none → History [(d, [])] out
  | step (d : SDoc) (prevs : List (SDoc × Bytes)) (outprev out : Bytes) (d' : SDoc) :
      History prevs outprev → RevOK d → saveIncr outprev d = some (out, d') →
      d.trailer.get PREV = some (.int (topX prevs : Int)) →
      History ((d, incrPre outprev) :: prevs) out

def ChainFacts (buf : Bytes) : List (SDoc × Bytes) → List (Int × XTable × Dict) → Prop
  | [], [] => True
  | (d, pre) :: rs, (p, X, _) :: cs => p = ((bodyOf pre d).length : Int) ∧ RevFacts buf d pre X ∧ ChainFacts buf rs cs
  | _, _ => False

theorem history_ne_nil (revs : List (SDoc × Bytes)) (out : Bytes) (h : History revs out) : revs ≠ [] := by
  cases h <;> simp

theorem history_topX_lt (revs : List (SDoc × Bytes)) (out : Bytes) (h : History revs out)
    (hlen : out.length < 4294967296) : topX revs < out.length := by
  cases h with
  | base d out d' hok hs _ =>
    obtain ⟨_, _, _, hlt, _, _⟩ := rev_section d [] out d' hok hs [] hlen
    exact hlt
  | step d prevs outprev out d' _ hok hs _ =>
    obtain ⟨_, _, _, hlt, _, _⟩ := rev_section d (incrPre outprev) out d' hok hs [] hlen
    exact hlt

/-- **the invariant of a history**: inside every extension of the file, the `Prev` walk from the
newest section visits one section per revision, each with the facts of its revision -/
theorem history_chain : ∀ (revs : List (SDoc × Bytes)) (out : Bytes), History revs out →
    out.length < 4294967296 → ∀ (R : Bytes) (seen : List Int), (∀ s ∈ seen, (topX revs : Int) < s) →
    ∃ chain, ChainOk (out ++ R) (some (.int (topX revs : Int))) seen chain ∧ ChainFacts (out ++ R) revs chain := by
  intro revs out h
  induction h with
  | base d out d' hok hs hprev =>
    intro hlen R seen hseen
    obtain ⟨table, hxt, hfacts, hlt, hfree, _⟩ := rev_section d [] out d' hok hs R hlen
    have hp := hfree PREV freeKey_PREV
    refine ⟨[(((bodyOf [] d).length : Int), table, revTrailer d [] d')], ?_, ?_⟩
    · refine ⟨rfl, ?_, by omega, ?_, ⟨revSize d, by simpa using hxt⟩, ?_⟩
      · intro hm; have := hseen _ hm; simp [topX] at this
      · simp only [Int.toNat_natCast, List.length_append]; omega
      · rw [hp, hprev]; simp [ChainOk]
    · exact ⟨rfl, hfacts, trivial⟩
  | step d prevs outprev out d' hprevH hok hs hprev ih =>
    intro hlen R seen hseen
    have hs' : saveFrom (incrPre outprev) d = some (out, d') := hs
    obtain ⟨table, hxt, hfacts, hlt, hfree, _⟩ := rev_section d (incrPre outprev) out d' hok hs' R hlen
    have hp := hfree PREV freeKey_PREV
    obtain ⟨R0, hR0⟩ : ∃ R0, out = outprev ++ R0 := by
      obtain ⟨R0, h0⟩ := incr_prefix outprev d out d' hs
      exact ⟨R0, h0.symm⟩
    have hlenp : outprev.length < 4294967296 := by
      rw [hR0] at hlen; simp only [List.length_append] at hlen; omega
    have hxprev := history_topX_lt prevs outprev hprevH hlenp
    -- the body of the new revision starts after the previous file
    have hbge : outprev.length ≤ (bodyOf (incrPre outprev) d).length := by
      have h1 : hdrOf (incrPre outprev) d <+: bodyOf (incrPre outprev) d := writeObjects_prefix _ _ _
      have h0 := h1.length_le
      have h2 : outprev.length ≤ (incrPre outprev).length := by simp [incrPre]
      have h3 : (incrPre outprev).length ≤ (hdrOf (incrPre outprev) d).length := by
        simp only [hdrOf, List.length_append]; omega
      omega
    obtain ⟨cs, hc1, hc2⟩ := ih hlenp (R0 ++ R) (((bodyOf (incrPre outprev) d).length : Int) :: seen) (by
      intro s hsm
      simp only [List.mem_cons] at hsm
      rcases hsm with rfl | hsm
      · omega
      · have := hseen s hsm
        simp only [topX] at this
        omega)
    have hbuf : out ++ R = outprev ++ (R0 ++ R) := by rw [hR0]; simp
    refine ⟨(((bodyOf (incrPre outprev) d).length : Int), table, revTrailer d (incrPre outprev) d') :: cs, ?_, ?_⟩
    · refine ⟨rfl, ?_, by omega, ?_, ⟨revSize d, by simpa using hxt⟩, ?_⟩
      · intro hm; have := hseen _ hm; simp [topX] at this
      · simp only [Int.toNat_natCast, List.length_append]; omega
      · rw [hp, hprev, hbuf]; simpa [norm] using hc1
    · refine ⟨rfl, hfacts, ?_⟩
      rw [hbuf]; exact hc2

/-! ### objects of a history, newest first -/

def allObjs (revs : List (SDoc × Bytes)) : Objects := (revs.map fun r => revObjs r.1 r.2).flatten

/-- a number re-used by another revision keeps its generation (what `IncrementalDocument` does
when an object is modified) -/
def GenConsistent (revs : List (SDoc × Bytes)) : Prop :=
  ∀ r1 ∈ revs, ∀ r2 ∈ revs, ∀ p1 ∈ revObjs r1.1 r1.2, ∀ p2 ∈ revObjs r2.1 r2.2, p1.1.1 = p2.1.1 → p1.1.2 = p2.1.2

theorem allObjs_cons (d : SDoc) (pre : Bytes) (rs : List (SDoc × Bytes)) :
    allObjs ((d, pre) :: rs) = revObjs d pre ++ allObjs rs := by simp [allObjs]

theorem allObjs_mem : ∀ (revs : List (SDoc × Bytes)) (id : ObjId) (o : Obj), (allObjs revs).get id = some o →
    ∃ r ∈ revs, (id, o) ∈ revObjs r.1 r.2 := by
  intro revs
  induction revs with
  | nil => intro id o h; simp [allObjs, Objects.get] at h
  | cons r rs ih =>
    intro id o h
    obtain ⟨d, pre⟩ := r
    rw [allObjs_cons, Objects_get_append] at h
    cases hd : (revObjs d pre).get id with
    | some o' =>
      rw [hd] at h
      simp only [Option.orElse_some] at h
      injection h with h; subst h
      exact ⟨(d, pre), by simp, Objects_mem_of_get _ _ _ hd⟩
    | none =>
      rw [hd] at h
      simp only [Option.orElse_none] at h
      obtain ⟨r, hr, hm⟩ := ih id o h
      exact ⟨r, by simp [hr], hm⟩

/-! ### one revision: table entries ↔ objects -/

theorem rev_table_of_obj (buf : Bytes) (d : SDoc) (pre : Bytes) (X : XTable) (hf : RevFacts buf d pre X)
    (id : ObjId) (o : Obj) (hd : (revObjs d pre).get id = some o) :
    ∃ off, X.get id.1 = some (.normal off id.2) := by
  obtain ⟨off, hx⟩ := hf.complete id o hd
  obtain ⟨_, hlt, h1, _⟩ := hf.objsOK _ (Objects_mem_of_get _ id o hd)
  simp only at hlt h1
  refine ⟨off, ?_⟩
  rw [hf.get id.1]
  have : 1 ≤ id.1 ∧ id.1 < revSize d := by omega
  simp only [this, and_self, if_true, normalOf]
  rw [hx]; rfl

theorem rev_obj_of_table (buf : Bytes) (d : SDoc) (pre : Bytes) (X : XTable) (hf : RevFacts buf d pre X)
    (k : Nat) (v : XEntry) (hv : X.get k = some v) :
    ∃ off g o, v = .normal off g ∧ off ≤ buf.length ∧ (revObjs d pre).get (k, g) = some o ∧ NotObjStm o ∧
      ObjAt buf off k g o := by
  rw [hf.get k] at hv
  split at hv
  · simp only [normalOf] at hv
    cases hx : (revMap d pre).get k with
    | none => simp [hx] at hv
    | some p =>
      obtain ⟨a, b⟩ := p
      simp [hx] at hv
      obtain ⟨h1, o, h2, h3, h4⟩ := hf.recd k a b hx
      exact ⟨a, b, o, hv.symm, h1, h2, h3, h4⟩
  · cases hv

/-! ### the whole chain -/

theorem chain_entry (buf : Bytes) : ∀ (revs : List (SDoc × Bytes)) (chain : List (Int × XTable × Dict)),
    ChainFacts buf revs chain → (∀ r ∈ revs, RevOK r.1) → ∀ (k : Nat) (v : XEntry),
    (chain.map (·.2.1)).findSome? (·.get k) = some v →
    ∃ off g o, v = .normal off g ∧ off ≤ buf.length ∧ (allObjs revs).get (k, g) = some o ∧ NotObjStm o ∧
      ObjAt buf off k g o ∧ ObjOKN o ∧ k < 4294967295 ∧ g < 65536 := by
  intro revs
  induction revs with
  | nil =>
    intro chain hc _ k v hv
    cases chain with
    | nil => simp at hv
    | cons c cs => simp [ChainFacts] at hc
  | cons r rs ih =>
    intro chain hc hok k v hv
    obtain ⟨d, pre⟩ := r
    cases chain with
    | nil => simp [ChainFacts] at hc
    | cons c cs =>
      obtain ⟨p, X, T⟩ := c
      obtain ⟨_, hf, hcs⟩ := hc
      simp only [List.map_cons, List.findSome?_cons] at hv
      cases hx : X.get k with
      | some v' =>
        rw [hx] at hv
        injection hv with hv; subst hv
        obtain ⟨off, g, o, h1, h2, h3, h4, h5⟩ := rev_obj_of_table buf d pre X hf k v' hx
        obtain ⟨o1, o2, _, o4⟩ := hf.objsOK _ (Objects_mem_of_get _ _ _ h3)
        have := revSize_le d
        have hmx : d.maxId + 2 ≤ 4294967295 := (hok (d, pre) (by simp)).hmax
        simp only at o2 o4
        refine ⟨off, g, o, h1, h2, ?_, h4, h5, o1, by omega, o4⟩
        rw [allObjs_cons, Objects_get_append, h3]; rfl
      | none =>
        rw [hx] at hv
        obtain ⟨off, g, o, h1, h2, h3, h4, h5, h6, h7, h8⟩ :=
          ih cs hcs (fun r hr => hok r (by simp [hr])) k v hv
        refine ⟨off, g, o, h1, h2, ?_, h4, h5, h6, h7, h8⟩
        have hno : (revObjs d pre).get (k, g) = none := by
          cases hd : (revObjs d pre).get (k, g) with
          | none => rfl
          | some o2 =>
            obtain ⟨off2, ht⟩ := rev_table_of_obj buf d pre X hf (k, g) o2 hd
            simp only at ht
            rw [hx] at ht; cases ht
        rw [allObjs_cons, Objects_get_append, hno]; exact h3

theorem chain_complete (buf : Bytes) : ∀ (revs : List (SDoc × Bytes)) (chain : List (Int × XTable × Dict)),
    ChainFacts buf revs chain → GenConsistent revs → ∀ (id : ObjId) (o : Obj),
    (allObjs revs).get id = some o →
    ∃ off, (chain.map (·.2.1)).findSome? (·.get id.1) = some (.normal off id.2) := by
  intro revs
  induction revs with
  | nil => intro chain _ _ id o h; simp [allObjs, Objects.get] at h
  | cons r rs ih =>
    intro chain hc hgen id o h
    obtain ⟨d, pre⟩ := r
    cases chain with
    | nil => simp [ChainFacts] at hc
    | cons c cs =>
      obtain ⟨p, X, T⟩ := c
      obtain ⟨_, hf, hcs⟩ := hc
      simp only [List.map_cons, List.findSome?_cons]
      rw [allObjs_cons, Objects_get_append] at h
      cases hd : (revObjs d pre).get id with
      | some o' =>
        obtain ⟨off, ht⟩ := rev_table_of_obj buf d pre X hf id o' hd
        exact ⟨off, by rw [ht]⟩
      | none =>
        rw [hd] at h
        simp only [Option.orElse_none] at h
        have hgen' : GenConsistent rs := fun r1 h1 r2 h2 => hgen r1 (by simp [h1]) r2 (by simp [h2])
        obtain ⟨off, hfs⟩ := ih cs hcs hgen' id o h
        cases hx : X.get id.1 with
        | none => exact ⟨off, hfs⟩
        | some v2 =>
          obtain ⟨off2, g2, o2, h1, _, h3, _, _⟩ := rev_obj_of_table buf d pre X hf id.1 v2 hx
          obtain ⟨r, hr, hm⟩ := allObjs_mem rs id o h
          have := hgen (d, pre) (by simp) r (by simp [hr]) ((id.1, g2), o2) (Objects_mem_of_get _ _ _ h3) (id, o) hm rfl
          simp only at this
          exact ⟨off2, by rw [h1, this]⟩

/-! ### the final file -/

/-- the document of the oldest revision (its header is the file's header) -/
def oldestDoc (revs : List (SDoc × Bytes)) : Option SDoc := revs.getLast?.map (·.1)

theorem history_header : ∀ (revs : List (SDoc × Bytes)) (out : Bytes), History revs out →
    ∃ d0 R1, oldestDoc revs = some d0 ∧ out = PDF_KW ++ (d0.version ++ 10 :: 37 :: (d0.binaryMark ++ 10 :: R1)) ∧
      (d0.binaryMark.all fun b => b ≥ 128) = true := by
  intro revs out h
  induction h with
  | base d out d' hok hs _ =>
    obtain ⟨R, hR⟩ := saveFrom_header d out d' hs
    exact ⟨d, R, rfl, hR, saveFrom_mark [] d out d' hs⟩
  | step d prevs outprev out d' hprevH hok hs _ ih =>
    obtain ⟨d0, R1, h1, h2, h3⟩ := ih
    obtain ⟨R0, hR0⟩ := incr_prefix outprev d out d' hs
    refine ⟨d0, R1 ++ R0, ?_, ?_, h3⟩
    · have hne := history_ne_nil prevs outprev hprevH
      cases prevs with
      | nil => exact absurd rfl hne
      | cons a l => simpa [oldestDoc, List.getLast?_cons_cons] using h1
    · rw [← hR0, h2]; simp

/-- the newest revision and the chain behind it, as the reader meets them in the final file -/
theorem history_top (revs : List (SDoc × Bytes)) (out : Bytes) (h : History revs out)
    (hlen : out.length < 4294967296) :
    ∃ d pre prevs d' table cs, revs = (d, pre) :: prevs ∧ RevOK d ∧ saveFrom pre d = some (out, d') ∧
      xrefAndTrailer (out.drop (bodyOf pre d).length) = .ok (table, revSize d, revTrailer d pre d') ∧
      RevFacts out d pre table ∧ ChainOk out ((revTrailer d pre d').get PREV) [] cs ∧ ChainFacts out prevs cs ∧
      (∀ k, FreeKey k → (revTrailer d pre d').get k = (d.trailer.get k).map norm) ∧ (revTrailer d pre d').keys.Nodup := by
  cases h with
  | base d out d' hok hs hprev =>
    obtain ⟨table, hxt, hfacts, _, hfree, hnd⟩ := rev_section d [] out d' hok hs [] hlen
    simp only [List.append_nil] at hxt hfacts
    refine ⟨d, [], [], d', table, [], rfl, hok, hs, hxt, hfacts, ?_, trivial, hfree, hnd⟩
    rw [hfree PREV freeKey_PREV, hprev]; simp [ChainOk]
  | step d prevs outprev out d' hprevH hok hs hprev =>
    have hs' : saveFrom (incrPre outprev) d = some (out, d') := hs
    obtain ⟨table, hxt, hfacts, _, hfree, hnd⟩ := rev_section d (incrPre outprev) out d' hok hs' [] hlen
    simp only [List.append_nil] at hxt hfacts
    obtain ⟨R0, hR0⟩ := incr_prefix outprev d out d' hs
    have hlenp : outprev.length < 4294967296 := by
      rw [← hR0] at hlen; simp only [List.length_append] at hlen; omega
    obtain ⟨cs, hc1, hc2⟩ := history_chain prevs outprev hprevH hlenp R0 [] (by intro s hs; simp at hs)
    rw [hR0] at hc1 hc2
    exact ⟨d, incrPre outprev, prevs, d', table, cs, rfl, hok, hs', hxt, hfacts,
      by rw [hfree PREV freeKey_PREV, hprev]; simpa [norm] using hc1, hc2, hfree, hnd⟩

theorem history_allOK : ∀ (revs : List (SDoc × Bytes)) (out : Bytes), History revs out → ∀ r ∈ revs, RevOK r.1 := by
  intro revs out h
  induction h with
  | base d out d' hok _ _ => intro r hr; simp at hr; subst hr; exact hok
  | step d prevs outprev out d' _ hok _ _ ih =>
    intro r hr
    simp only [List.mem_cons] at hr
    rcases hr with rfl | hr
    · exact hok
    · exact ih r hr

/-- **`incr_again` (C07): histories of any length, both cross-reference styles, real numbers
included.** A well-formed document saved plainly and then updated by ANY number of incremental saves — each
revision with a classic table or a cross-reference stream, in any mix; each `Prev` = the previous
cross-reference offset; a re-used object number keeps its generation; final file < 4 GiB; the
oldest header's version text without line breaks in valid UTF-8: for every schedule,
`Reader::read` on the final file succeeds and holds, for EVERY object id, the object of the NEWEST
revision that has it (`allObjs`: the documents' objects and, for stream-style revisions, their
`/XRef` stream objects), in NORMAL FORM (`nfObj`: an integral real text is read as an integer — the
identity on real-free objects) — new objects override previous ones, untouched ones are still
there, nothing else appears; version and binary mark are those of the first header. -/
theorem file_rt_history (order : Option (List Nat)) (revs : List (SDoc × Bytes)) (out : Bytes)
    (h : History revs out) (hlen : out.length < 4294967296) (hgen : GenConsistent revs)
    (hv : ∀ d0, oldestDoc revs = some d0 → (∀ b ∈ d0.version, notEol b = true) ∧ validUtf8 d0.version = true) :
    ∃ L : Loaded, loadDocOrd order out = .ok L ∧
      (∀ id, L.objects.get id = ((allObjs revs).get id).map nfObj) ∧
      (∀ d0, oldestDoc revs = some d0 → L.version = d0.version ∧ L.binaryMark = d0.binaryMark) := by
  obtain ⟨arr, harr, hord⟩ : ∃ arr : List Block → List Block, arr [] = [] ∧
      loadDocOrd order out = loadDocWith arr id out := ⟨_, loadDocOrd_arr_nil order, rfl⟩
  obtain ⟨d, pre, prevs, d', table, cs, hrevs, hok, hs, hxt, hfacts, hchain, hcfacts, hfree, hndT⟩ :=
    history_top revs out h hlen
  obtain ⟨d0, R1, hold, hhdr, hmark⟩ := history_header revs out h
  obtain ⟨hv1, hv2⟩ := hv d0 hold
  have hallok := history_allOK revs out h
  have hstart := startxref_found pre d out d' hs hlen
  have hble := body_le_out pre d out d' hs
  -- the trailer the reader keeps
  have k3 : ¬ PREV = XREFSTM := by decide
  have k5 : ¬ PREV = ENCRYPT := by decide
  have hstm' : ((revTrailer d pre d').remove PREV).get XREFSTM = none := by
    rw [Dict_get_remove _ _ _ hndT, hfree XREFSTM freeKey_XREFSTM]
    simp only [k3, if_false]; rw [hok.nostm]; rfl
  have henc' : ((revTrailer d pre d').remove PREV).has ENCRYPT = false := by
    rw [Dict_has_eq, Dict_get_remove _ _ _ hndT, hfree ENCRYPT freeKey_ENCRYPT]
    simp only [k5, if_false]
    have : (d.trailer.get ENCRYPT).isSome = false := hok.noenc
    cases hg : d.trailer.get ENCRYPT with
    | none => rfl
    | some v => rw [hg] at this; simp at this
  -- the Prev walk
  obtain ⟨hpl, hlw⟩ := prevLoop_chain out ((revTrailer d pre d').remove PREV) hstm' cs
    ((revTrailer d pre d').get PREV) [] table hchain
  have hcf : ChainFacts out revs ((((bodyOf pre d).length : Int), table, revTrailer d pre d') :: cs) := by
    rw [hrevs]; exact ⟨rfl, hfacts, hcfacts⟩
  have hmap : (((((bodyOf pre d).length : Int), table, revTrailer d pre d') :: cs).map (·.2.1))
      = table :: cs.map (·.2.1) := rfl
  have hmnodup : ((mergeChain (table :: cs.map (·.2.1))).map (·.1)).Nodup := by
    simp only [mergeChain]
    generalize cs.map (·.2.1) = tabs
    have : ∀ (tabs : List XTable) (x : XTable), (x.map (·.1)).Nodup → ((tabs.foldl XTable.merge x).map (·.1)).Nodup := by
      intro tabs
      induction tabs with
      | nil => intro x hx; exact hx
      | cons y ys ih => intro x hx; exact ih _ (XTable_merge_nodup y x hx)
    exact this tabs table hfacts.nodup
  have hkeys : ∀ p ∈ mergeChain (table :: cs.map (·.2.1)), p.1 < 4294967295 := by
    intro p hp
    have hg := XTable_get_of_mem _ hmnodup p.1 p.2 hp
    rw [hlw p.1, ← hmap] at hg
    obtain ⟨_, _, _, _, _, _, _, _, _, h7, _⟩ := chain_entry out revs _ hcf hallok p.1 p.2 hg
    exact h7
  have hload := load_front_chain arr id out d0.version d0.binaryMark R1 hhdr hv1 hv2 hmark (bodyOf pre d).length hstart
    hble table (revSize d) (revTrailer d pre d') hxt (mergeChain (table :: cs.map (·.2.1)))
    ((revTrailer d pre d').remove PREV) hpl
    (by have := XTable_maxId_le _ 4294967294 (fun p hp => by have := hkeys p hp; omega); simp only [U32]; omega)
    henc'
  -- the object pass
  have hgood : ∀ e ∈ (mergeChain (table :: cs.map (·.2.1))).sorted,
      EntryGood out (mergeChain (table :: cs.map (·.2.1))) (mergeChain (table :: cs.map (·.2.1))).sorted.length
        ((allObjs revs).map fun p => (p.1, nfObj p.2)) e := by
    intro e he
    obtain ⟨k, v⟩ := e
    rw [mem_sorted _ hmnodup] at he
    have hg := XTable_get_of_mem _ hmnodup k v he
    rw [hlw k, ← hmap] at hg
    obtain ⟨off, g, o, h1, h2, h3, h4, ⟨rest, hrest⟩, h6, h7, h8⟩ := chain_entry out revs _ hcf hallok k v hg
    refine ⟨off, g, nfObj o, h1, h2, by rw [Objects_get_mapval, h3]; rfl, nfObj_notObjStm o h4, ?_⟩
    rw [← hrest]
    exact indirect_nf _ _ _ (by simp [U32_MAX]; omega) (by simp [U16_MAX]; omega) h6 _ _ _
  obtain ⟨L, hL, l1, l2, _, _, _, l6, _⟩ := objectPass_good arr id harr rfl out d0.version
    d0.binaryMark (mergeChain (table :: cs.map (·.2.1))) ((revTrailer d pre d').remove PREV) (bodyOf pre d).length
    ((allObjs revs).map fun p => (p.1, nfObj p.2)) hgood
  refine ⟨L, by rw [hord, hload]; exact hL, ?_, ?_⟩
  · intro id
    rw [l6 id, ← Objects_get_mapval]
    by_cases hany : (mergeChain (table :: cs.map (·.2.1))).sorted.any (entryIs id) = true
    · simp only [hany, if_true]
      rw [List.any_eq_true] at hany
      obtain ⟨e, he, hid⟩ := hany
      obtain ⟨off, g, o, hv', _, hog, _, _⟩ := hgood e he
      obtain ⟨k, v⟩ := e
      simp only at hv' hog
      subst hv'
      simp only [entryIs, Bool.and_eq_true, beq_iff_eq] at hid
      have : id = (k, g) := Prod.ext hid.1.symm hid.2.symm
      subst this
      rw [hog]; rfl
    · simp only [hany, Bool.false_eq_true, if_false]
      rw [Objects_get_mapval]
      cases hd : (allObjs revs).get id with
      | none => rfl
      | some o =>
        exfalso
        apply hany
        obtain ⟨off, hfs⟩ := chain_complete out revs _ hcf hgen id o hd
        rw [hmap, ← hlw id.1] at hfs
        rw [List.any_eq_true]
        refine ⟨(id.1, .normal off id.2), ?_, by simp [entryIs]⟩
        rw [mem_sorted _ hmnodup]
        exact XTable_mem_of_get _ _ _ hfs
  · intro d0' h0
    rw [hold] at h0
    injection h0 with h0
    subst h0
    exact ⟨l1, l2⟩

/-- **the previous view is unchanged (C07).** After one more incremental save the bytes of the
previous file are an unchanged prefix of the new file, they are themselves a history (one revision
shorter), and loading that prefix still yields the previous document: for every id the object the
previous revisions held. -/
theorem prev_view_unchanged (order : Option (List Nat)) (d : SDoc) (pre : Bytes) (prevs : List (SDoc × Bytes))
    (out : Bytes) (h : History ((d, pre) :: prevs) out) (hne : prevs ≠ []) (hlen : out.length < 4294967296)
    (hgen : GenConsistent prevs)
    (hv : ∀ d0, oldestDoc prevs = some d0 → (∀ b ∈ d0.version, notEol b = true) ∧ validUtf8 d0.version = true) :
    ∃ outprev Lprev, outprev <+: out ∧ pre = incrPre outprev ∧ History prevs outprev ∧
      loadDocOrd order outprev = .ok Lprev ∧ ∀ id, Lprev.objects.get id = ((allObjs prevs).get id).map nfObj := by
  cases h with
  | base d out d' _ _ _ => exact absurd rfl hne
  | step d prevs outprev out d' hprevH hok hs hprev =>
    have hpre := incr_prefix outprev d out d' hs
    have hlenp : outprev.length < 4294967296 := by have := hpre.length_le; omega
    obtain ⟨L, h1, h2, _⟩ := file_rt_history order prevs outprev hprevH hlenp hgen hv
    exact ⟨outprev, L, hpre, rfl, hprevH, h1, h2⟩

theorem nodup_same_gen (objs : Objects) (hn : (objs.map (·.1.1)).Nodup) (p1 p2 : ObjId × Obj)
    (h1 : p1 ∈ objs) (h2 : p2 ∈ objs) (he : p1.1.1 = p2.1.1) : p1.1.2 = p2.1.2 := by
  induction objs with
  | nil => simp at h1
  | cons q rest ih =>
    simp only [List.map_cons, List.nodup_cons] at hn
    simp only [List.mem_cons] at h1 h2
    rcases h1 with rfl | h1 <;> rcases h2 with rfl | h2
    · rfl
    · exact absurd (List.mem_map.mpr ⟨p2, h2, he.symm⟩) hn.1
    · exact absurd (List.mem_map.mpr ⟨p1, h1, he⟩) hn.1
    · exact ih hn.2 h1 h2

/-- **`file_rt` for a plain save of EITHER style, real numbers included (C01)** — the one-revision
instance of `file_rt_history`: what `load (save d)` holds under every id is the normal form of the
document's object (and, for a cross-reference-stream save, of the `/XRef` stream object). -/
theorem file_rt_save_norm (order : Option (List Nat)) (d : SDoc) (out : Bytes) (d' : SDoc) (hok : RevOK d)
    (h : saveFrom [] d = some (out, d')) (hlen : out.length < 4294967296)
    (hv1 : ∀ b ∈ d.version, notEol b = true) (hv2 : validUtf8 d.version = true)
    (hprev : d.trailer.get PREV = none) :
    ∃ L : Loaded, loadDocOrd order out = .ok L ∧ L.version = d.version ∧ L.binaryMark = d.binaryMark ∧
      ∀ id, L.objects.get id = ((revObjs d []).get id).map nfObj := by
  have hH : History [(d, [])] out := History.base d out d' hok h hprev
  have hgen : GenConsistent [(d, [])] := by
    intro r1 h1 r2 h2 p1 hp1 p2 hp2 he
    simp only [List.mem_singleton] at h1 h2
    subst h1; subst h2
    simp only at hp1 hp2
    have hnd : ((revObjs d []).map (·.1.1)).Nodup := by
      unfold revObjs
      cases d.xrefKind with
      | table => exact hok.wf.nodup
      | stream =>
        simp only [List.map_append, List.map_cons, List.map_nil]
        rw [List.nodup_append]
        refine ⟨hok.wf.nodup, by simp, ?_⟩
        intro a ha b hb
        simp only [List.mem_singleton] at hb
        subst hb
        obtain ⟨p, hp, rfl⟩ := List.mem_map.mp ha
        have := (hok.wf.range p hp).2
        omega
    exact nodup_same_gen _ hnd p1 p2 hp1 hp2 he
  obtain ⟨L, hL, hobj, hver⟩ := file_rt_history order _ out hH hlen hgen
    (by intro d0 h0; simp [oldestDoc] at h0; subst h0; exact ⟨hv1, hv2⟩)
  obtain ⟨e1, e2⟩ := hver d (by simp [oldestDoc])
  refine ⟨L, hL, e1, e2, ?_⟩
  intro id
  rw [hobj id]
  simp [allObjs]

/-! ### non-vacuity -/

theorem exDoc_revOK : RevOK exDoc :=
  ⟨by decide,
    ⟨by simp [exDoc], by intro p hp; simp [exDoc] at hp, by intro p hp; simp [exDoc] at hp,
      by intro p hp; simp [exDoc] at hp⟩,
    by intro p hp; simp [exDoc] at hp,
    ⟨by simp [exDoc, WFObj, WF, WFD], by simp [exDoc, height, heightD, MAX_NESTING]⟩,
    by simp [exDoc, Dict.get], by simp [exDoc, Dict.has, Dict.get]⟩

/-- a one-revision history meets every hypothesis of `file_rt_history` -/
example : ∃ out L, History [(exDoc, [])] out ∧ loadDocOrd none out = .ok L := by
  obtain ⟨out, d', h, hlen⟩ := exDoc_saves
  have hH : History [(exDoc, [])] out := History.base exDoc out d' exDoc_revOK h (by simp [exDoc, Dict.get])
  obtain ⟨L, hL, _⟩ := file_rt_history none _ out hH hlen
    (by intro r1 h1 r2 h2 p1 hp1; simp at h1; subst h1; simp [revObjs, exDoc] at hp1)
    (by intro d0 h0; simp [oldestDoc] at h0; subst h0
        exact ⟨by intro b hb; simp [exDoc] at hb; rcases hb with h | h | h <;> subst h <;> decide, by decide⟩)
  exact ⟨out, L, hH, hL⟩

/-- histories of length two exist: the empty document, then an (empty) incremental update whose
`Prev` is the first cross-reference offset -/
example : ∃ out1 out2 d2, History [(d2, incrPre out1), (exDoc, [])] out2 := by
  obtain ⟨out1, d1', h1, hl1⟩ := exDoc_saves
  have hH1 : History [(exDoc, [])] out1 := History.base exDoc out1 d1' exDoc_revOK h1 (by simp [exDoc, Dict.get])
  have hb1 := body_le_out [] exDoc out1 d1' h1
  let d2 : SDoc := SDoc.mk [49, 46, 53] [187, 173, 192, 222] [(PREV, .int ((bodyOf [] exDoc).length : Int))] [] 0 .table
  have hok2 : RevOK d2 :=
    ⟨by decide,
      ⟨by simp [d2], by intro p hp; simp [d2] at hp, by intro p hp; simp [d2] at hp, by intro p hp; simp [d2] at hp⟩,
      by intro p hp; simp [d2] at hp,
      ⟨by simp [d2, WFObj, WF, WFD, I64_MAX]; omega, by simp [d2, height, heightD, MAX_NESTING]⟩,
      by simp [d2, Dict.get, PREV, XREFSTM], by simp [d2, Dict.has, Dict.get, PREV, ENCRYPT]⟩
  obtain ⟨out2, d2', h2⟩ := saveFrom_some (incrPre out1) d2 (by decide)
  exact ⟨out1, out2, d2, History.step d2 _ out1 out2 d2' hH1 hok2 h2 (by simp [d2, Dict.get, topX])⟩

/-- a cross-reference-STREAM revision as base and a classic-table revision appended to it: mixed
histories exist -/
example : ∃ out1 out2 d1 d2, d1.xrefKind = .stream ∧ d2.xrefKind = .table ∧
    History [(d2, incrPre out1), (d1, [])] out2 := by
  let d1 : SDoc := SDoc.mk [49, 46, 53] [187, 173, 192, 222] [] [] 0 .stream
  have hok1 : RevOK d1 :=
    ⟨by decide,
      ⟨by simp [d1], by intro p hp; simp [d1] at hp, by intro p hp; simp [d1] at hp, by intro p hp; simp [d1] at hp⟩,
      by intro p hp; simp [d1] at hp,
      ⟨by simp [d1, WFObj, WF, WFD], by simp [d1, height, heightD, MAX_NESTING]⟩,
      by simp [d1, Dict.get], by simp [d1, Dict.has, Dict.get]⟩
  obtain ⟨out1, d1', h1⟩ := saveFrom_some [] d1 (by decide)
  have hH1 : History [(d1, [])] out1 := History.base d1 out1 d1' hok1 h1 (by simp [d1, Dict.get])
  have hlt' : (bodyOf [] d1).length = 15 := by simp [bodyOf, hdrOf, d1, writeObjects, PDF_KW]
  exact (by
    let d2 : SDoc := SDoc.mk [49, 46, 53] [187, 173, 192, 222] [(PREV, .int ((bodyOf [] d1).length : Int))] [] 0 .table
    have hok2 : RevOK d2 :=
      ⟨by decide,
        ⟨by simp [d2], by intro p hp; simp [d2] at hp, by intro p hp; simp [d2] at hp, by intro p hp; simp [d2] at hp⟩,
        by intro p hp; simp [d2] at hp,
        ⟨by simp [d2, WFObj, WF, WFD, I64_MAX]; omega, by simp [d2, height, heightD, MAX_NESTING]⟩,
        by simp [d2, Dict.get, PREV, XREFSTM], by simp [d2, Dict.has, Dict.get, PREV, ENCRYPT]⟩
    obtain ⟨out2, d2', h2⟩ := saveFrom_some (incrPre out1) d2 (by decide)
    exact ⟨out1, out2, d1, d2, rfl, rfl, History.step d2 _ out1 out2 d2' hH1 hok2 h2 (by simp [d2, Dict.get, topX])⟩)

end Lopdf.FileRT
