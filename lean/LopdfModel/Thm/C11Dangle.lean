import LopdfModel.Thm.C11Mild
/-
  C11 — property theorems, part 7: which references survive `delete_object` / `delete_pages`, and the precondition
  (F-C11-a, narrowed) under which they introduce no dangling reference.
-/
namespace Lopdf.Ed
open Lopdf Lopdf.DictL

/-! ### `delete_object`: which references survive -/

mutual
/-- every dictionary inside the object, at any depth, has pairwise distinct keys (they are `IndexMap`s) -/
def DeepND : Obj → Prop
  | .arr xs => DeepNDL xs
  | .dict es => NoDup es ∧ DeepNDD es
  | .stream es _ => NoDup es ∧ DeepNDD es
  | _ => True
def DeepNDL : List Obj → Prop
  | [] => True
  | x :: xs => DeepND x ∧ DeepNDL xs
def DeepNDD : List (Bytes × Obj) → Prop
  | [] => True
  | (_, v) :: es => DeepND v ∧ DeepNDD es
end

theorem deepNDL_iff : ∀ xs : List Obj, DeepNDL xs ↔ ∀ x ∈ xs, DeepND x
  | [] => by simp [DeepNDL]
  | x :: xs => by simp [DeepNDL, deepNDL_iff xs]

theorem deepNDD_iff : ∀ es : List (Bytes × Obj), DeepNDD es ↔ ∀ e ∈ es, DeepND e.2
  | [] => by simp [DeepNDD]
  | (k, v) :: es => by simp [DeepNDD, deepNDD_iff es]

/-- the modelling assumption `delete_object`'s reference claim needs: distinct keys everywhere -/
def DistinctKeys (d : Doc) : Prop :=
  NoDup d.trailer ∧ DeepNDD d.trailer ∧ ∀ k o, d.objects.get k = some o → DeepND o

theorem mem_removeKeys (ks : List Bytes) : ∀ (d : Dict) (e : Bytes × Obj), e ∈ removeKeys d ks → e ∈ d := by
  induction ks with
  | nil => intro d e h; exact h
  | cons k ks ih =>
    intro d e h
    simp only [removeKeys, List.foldl_cons] at h
    exact mem_dictRemove d k e (ih (Dict.remove d k) e h)

theorem get_removeKeys_none (ks : List Bytes) : ∀ (d : Dict) (_ : NoDup d) (q : Bytes), (q ∈ ks ∨ Dict.get d q = none) →
    Dict.get (removeKeys d ks) q = none := by
  induction ks with
  | nil =>
    intro d _ q h
    rcases h with h | h
    · cases h
    · exact h
  | cons k ks ih =>
    intro d hn q h
    simp only [removeKeys, List.foldl_cons]
    apply ih (Dict.remove d k) (nodup_remove hn k) q
    rw [get_remove hn k q]
    by_cases e : k = q
    · simp [e]
    · simp only [e, if_false]
      rcases h with h | h
      · rcases List.mem_cons.mp h with h | h
        · exact absurd h.symm e
        · exact Or.inl h
      · exact Or.inr h

/-- what `strip_dict(p)` keeps: entries of the dictionary, none of them a reference to `p` -/
theorem mem_stripDict (p : ObjId) (es : Dict) (hn : NoDup es) (e : Bytes × Obj) (h : e ∈ stripDict p es) :
    e ∈ es ∧ isRefTo p e.2 = false := by
  have hm := mem_removeKeys _ es e h
  refine ⟨hm, ?_⟩
  cases hr : isRefTo p e.2 with
  | false => rfl
  | true =>
    exfalso
    have hk : e.1 ∈ (es.filter (fun kv => isRefTo p kv.2)).map (·.1) :=
      List.mem_map.mpr ⟨e, List.mem_filter.mpr ⟨hm, hr⟩, rfl⟩
    have h1 := get_removeKeys_none _ es hn e.1 (Or.inl hk)
    have h2 : Dict.get (stripDict p es) e.1 = some e.2 := get_some_of_mem (nodup_removeKeys hn _) h
    unfold stripDict at h2
    rw [h1] at h2; cases h2

theorem isRefTo_iff (p : ObjId) (o : Obj) : isRefTo p o = true ↔ o = .ref p.1 p.2 := by
  cases o <;> simp [isRefTo]
  rename_i n g
  constructor
  · intro h; subst h; exact ⟨rfl, rfl⟩
  · intro ⟨a, b⟩; subst a; subst b; rfl

/-- **references after the deletion action went through an object**: each was a reference of the object, and
none is a reference to `p` — except that a bare top-level `p` reference is left alone (F-C11-a) -/
theorem refs_deep_del (p : ObjId) :
    (∀ o, DeepND o → ∀ r ∈ refsOf (deepObj (delAct p) o), r ∈ refsOf o ∧ (r = p → o = .ref p.1 p.2)) ∧
    (∀ es, DeepNDD es → ∀ r ∈ refsOfD (deepDict (delAct p) es), ∃ e ∈ es, r ∈ refsOf e.2 ∧ (r = p → e.2 = .ref p.1 p.2)) ∧
    (∀ xs, DeepNDL xs → ∀ r ∈ refsOfL (deepList (delAct p) xs), ∃ x ∈ xs, r ∈ refsOf x ∧ (r = p → x = .ref p.1 p.2)) := by
  apply deepObj.mutual_induct (delAct p)
    (motive1 := fun o => DeepND o → ∀ r ∈ refsOf (deepObj (delAct p) o), r ∈ refsOf o ∧ (r = p → o = .ref p.1 p.2))
    (motive2 := fun es => DeepNDD es → ∀ r ∈ refsOfD (deepDict (delAct p) es), ∃ e ∈ es, r ∈ refsOf e.2 ∧ (r = p → e.2 = .ref p.1 p.2))
    (motive3 := fun xs => DeepNDL xs → ∀ r ∈ refsOfL (deepList (delAct p) xs), ∃ x ∈ xs, r ∈ refsOf x ∧ (r = p → x = .ref p.1 p.2))
  · intro o items h ih hd r hr
    rw [deepObj_arr h] at hr
    cases o <;> simp only [delAct, delFn] at h <;> try (cases h; done)
    rename_i xs
    cases h
    simp only [DeepND] at hd
    have hd' : DeepNDL (xs.filter (fun o => !isRefTo p o)) :=
      (deepNDL_iff _).mpr (fun x hx => (deepNDL_iff xs).mp hd x (List.mem_filter.mp hx).1)
    obtain ⟨x, hx, hrx, hp⟩ := ih hd' r (by simpa [refsOf] using hr)
    have hx' := List.mem_filter.mp hx
    refine ⟨by simp only [refsOf]; exact (mem_refsOfL_iff r xs).mpr ⟨x, hx'.1, hrx⟩, ?_⟩
    intro e
    have := (isRefTo_iff p x).mpr (hp e)
    rw [this] at hx'; simp at hx'
  · intro o es h ih hd r hr
    rw [deepObj_dict h] at hr
    cases o <;> simp only [delAct, delFn] at h <;> try (cases h; done)
    rename_i es0
    cases h
    simp only [DeepND] at hd
    have hd' : DeepNDD (stripDict p es0) :=
      (deepNDD_iff _).mpr (fun e he => (deepNDD_iff es0).mp hd.2 e (mem_stripDict p es0 hd.1 e he).1)
    obtain ⟨e, he, hre, hp⟩ := ih hd' r (by simpa [refsOf] using hr)
    have he' := mem_stripDict p es0 hd.1 e he
    refine ⟨by simp only [refsOf]; exact (mem_refsOfD_iff r es0).mpr ⟨e, he'.1, hre⟩, ?_⟩
    intro eq
    have := (isRefTo_iff p e.2).mpr (hp eq)
    rw [this] at he'; simp at he'
  · intro o es c h ih hd r hr
    rw [deepObj_stream h] at hr
    cases o <;> simp only [delAct, delFn] at h <;> try (cases h; done)
    rename_i es0 c0
    cases h
    simp only [DeepND] at hd
    have hd' : DeepNDD (stripDict p es0) :=
      (deepNDD_iff _).mpr (fun e he => (deepNDD_iff es0).mp hd.2 e (mem_stripDict p es0 hd.1 e he).1)
    obtain ⟨e, he, hre, hp⟩ := ih hd' r (by simpa [refsOf] using hr)
    have he' := mem_stripDict p es0 hd.1 e he
    refine ⟨by simp only [refsOf]; exact (mem_refsOfD_iff r es0).mpr ⟨e, he'.1, hre⟩, ?_⟩
    intro eq
    have := (isRefTo_iff p e.2).mpr (hp eq)
    rw [this] at he'; simp at he'
  · intro o h1 h2 h3 _ r hr
    rw [deepObj_other (fun i hh => h1 i hh) (fun i hh => h2 i hh) (fun i c hh => h3 i c hh)] at hr
    cases o <;> simp only [delAct, delFn, refsOf] at hr <;> try (cases hr; done)
    · exact absurd rfl (h1 _)
    · exact absurd rfl (h2 _)
    · exact absurd rfl (h3 _ _)
    · rename_i n g
      simp at hr
      refine ⟨by simp [refsOf, hr], ?_⟩
      intro e; rw [← e, hr]
  · intro _ r hr; rw [deepDict] at hr; simp [refsOfD] at hr
  · intro k v es ih1 ih2 hd r hr
    rw [deepDict] at hr
    simp only [DeepNDD] at hd
    simp only [refsOfD, List.mem_append] at hr
    rcases hr with hr | hr
    · obtain ⟨a, b⟩ := ih1 hd.1 r hr
      exact ⟨(k, v), List.mem_cons_self, a, b⟩
    · obtain ⟨e, he, a, b⟩ := ih2 hd.2 r hr
      exact ⟨e, List.mem_cons_of_mem _ he, a, b⟩
  · intro _ r hr; rw [deepList] at hr; simp [refsOfL] at hr
  · intro x xs ih1 ih2 hd r hr
    rw [deepList] at hr
    simp only [DeepNDL] at hd
    simp only [refsOfL, List.mem_append] at hr
    rcases hr with hr | hr
    · obtain ⟨a, b⟩ := ih1 hd.1 r hr
      exact ⟨x, List.mem_cons_self, a, b⟩
    · obtain ⟨e, he, a, b⟩ := ih2 hd.2 r hr
      exact ⟨e, List.mem_cons_of_mem _ he, a, b⟩

/-- **the precondition F-C11-a (narrowed) names**: every object holding a reference to `p` is visited by
`delete_object(p)`'s traversal (it is reachable from the stripped trailer through the rewritten objects) and is
not itself a bare top-level reference to `p` -/
def DelClean (d : Doc) (p : ObjId) : Prop :=
  ∀ k o, d.objects.get k = some o → k ≠ p → p ∈ refsOf o → k ∈ delRefs d p ∧ o ≠ .ref p.1 p.2

theorem delete_trailer (d : Doc) (p : ObjId) : (deleteObject d p).1.trailer = delDict p d.trailer :=
  (traverse_visits_once (delAct p) (stripDict p d.trailer) d.objects).1

theorem delete_get_self (d : Doc) (p : ObjId) : (deleteObject d p).1.objects.get p = none := by
  simp [deleteObject, Objects.get_remove]

/-- after `delete_object(p)` under the precondition: every reference the document holds it held before, and none
is a reference to `p` -/
theorem hasRef_delete (d : Doc) (p : ObjId) (hk : DistinctKeys d) (hc : DelClean d p) (r : ObjId)
    (h : HasRef (deleteObject d p).1 r) : HasRef d r ∧ r ≠ p := by
  rcases h with h | ⟨k, o', hg, hr⟩
  · rw [delete_trailer] at h
    have := (refs_deep_del p).1 (.dict d.trailer) ⟨hk.1, hk.2.1⟩ r (by rw [deep_del_dict]; simpa [refsOf] using h)
    exact ⟨Or.inl (by simpa [refsOf] using this.1), fun e => by cases this.2 e⟩
  · have hkp : k ≠ p := fun e => by rw [e, delete_get_self] at hg; cases hg
    rw [delete_get d p k hkp, delMid_get] at hg
    cases ho : d.objects.get k with
    | none => rw [ho] at hg; simp at hg
    | some o =>
      rw [ho] at hg
      by_cases hv : k ∈ delRefs d p
      · simp only [hv, if_true, Option.map_some, Option.some.injEq] at hg
        subst hg
        obtain ⟨h1, h2⟩ := (refs_deep_del p).1 o (hk.2.2 k o ho) r hr
        refine ⟨Or.inr ⟨k, o, ho, h1⟩, fun e => ?_⟩
        exact (hc k o ho hkp (e ▸ h1)).2 (h2 e)
      · simp only [hv, if_false, Option.some.injEq] at hg
        subst hg
        exact ⟨Or.inr ⟨k, o, ho, hr⟩, fun e => hv (hc k o ho hkp (e ▸ hr)).1⟩

/-- **`delete_object` introduces no dangling reference** — under the precondition F-C11-a (narrowed) names -/
theorem noNew_delete (d : Doc) (p : ObjId) (hk : DistinctKeys d) (hc : DelClean d p) : NoNew d (deleteObject d p).1 := by
  intro r ⟨hh, hn⟩
  obtain ⟨h1, h2⟩ := hasRef_delete d p hk hc r hh
  refine ⟨h1, ?_⟩
  rw [delete_get d p r h2, delMid_get] at hn
  cases ho : d.objects.get r with
  | none => rfl
  | some o => rw [ho] at hn; split at hn <;> simp at hn

/-- without the precondition the only reference that can newly dangle is `p` itself -/
theorem dangling_delete_only (d : Doc) (p : ObjId) (hk : DistinctKeys d) (r : ObjId)
    (h : Dangling (deleteObject d p).1 r) : Dangling d r ∨ r = p := by
  by_cases e : r = p
  · exact Or.inr e
  · left
    obtain ⟨hh, hn⟩ := h
    have hg : d.objects.get r = none := by
      rw [delete_get d p r e, delMid_get] at hn
      cases ho : d.objects.get r with
      | none => rfl
      | some o => rw [ho] at hn; split at hn <;> simp at hn
    refine ⟨?_, hg⟩
    rcases hh with h | ⟨k, o', hg', hr⟩
    · rw [delete_trailer] at h
      have := (refs_deep_del p).1 (.dict d.trailer) ⟨hk.1, hk.2.1⟩ r (by rw [deep_del_dict]; simpa [refsOf] using h)
      exact Or.inl (by simpa [refsOf] using this.1)
    · have hkp : k ≠ p := fun e => by rw [e, delete_get_self] at hg'; cases hg'
      rw [delete_get d p k hkp, delMid_get] at hg'
      cases ho : d.objects.get k with
      | none => rw [ho] at hg'; simp at hg'
      | some o =>
        rw [ho] at hg'
        by_cases hv : k ∈ delRefs d p
        · simp only [hv, if_true, Option.map_some, Option.some.injEq] at hg'
          subst hg'
          exact Or.inr ⟨k, o, ho, ((refs_deep_del p).1 o (hk.2.2 k o ho) r hr).1⟩
        · simp only [hv, if_false, Option.some.injEq] at hg'
          subst hg'
          exact Or.inr ⟨k, o, ho, hr⟩

/-! ### the `Parent` walk of `delete_pages` holds no new reference -/

def RefRel (os os' : Objects) : Prop :=
  ∀ x, (os.get x = none → os'.get x = none) ∧
    ∀ o, os.get x = some o → ∃ o', os'.get x = some o' ∧ ∀ r ∈ refsOf o', r ∈ refsOf o

theorem refRel_refl (os : Objects) : RefRel os os := fun _ => ⟨fun h => h, fun o h => ⟨o, h, fun _ h => h⟩⟩

theorem refRel_trans {a b c : Objects} (h1 : RefRel a b) (h2 : RefRel b c) : RefRel a c := by
  intro x
  refine ⟨fun h => (h2 x).1 ((h1 x).1 h), ?_⟩
  intro o ho
  obtain ⟨o1, e1, r1⟩ := (h1 x).2 o ho
  obtain ⟨o2, e2, r2⟩ := (h2 x).2 o1 e1
  exact ⟨o2, e2, fun r hr => r1 r (r2 r hr)⟩

theorem refs_decCount (nd : Dict) (r : ObjId) (h : r ∈ refsOfD (decCount nd)) : r ∈ refsOfD nd := by
  unfold decCount at h
  split at h
  · rcases refs_dictSet _ _ _ r h with h | h
    · exact h
    · simp [refsOf] at h
  · exact h

theorem refRel_set (os : Objects) (id : ObjId) (nd : Dict) (h : os.get id = some (.dict nd)) :
    RefRel os (os.set id (.dict (decCount nd))) := by
  intro x
  rw [Objects.get_set]
  by_cases e : id = x
  · subst e
    refine ⟨fun hn => (by rw [h] at hn; cases hn), ?_⟩
    intro o ho; rw [h] at ho; cases ho
    exact ⟨.dict (decCount nd), by simp [h], fun r hr => by simp only [refsOf] at hr ⊢; exact refs_decCount nd r hr⟩
  · simp only [e, if_false]
    exact ⟨fun hh => hh, fun o ho => ⟨o, ho, fun _ h => h⟩⟩

theorem decCounts_refRel (os : Objects) (seen : List ObjId) (r : Option ObjId) : RefRel os (decCounts os seen r) := by
  induction os, seen, r using decCounts.induct with
  | case1 os seen => rw [decCounts_none]; exact refRel_refl os
  | case2 os seen id hs => rw [decCounts_seen _ _ _ hs]; exact refRel_refl os
  | case3 os seen id hs pt hg ih =>
    rw [decCounts_dict _ _ _ pt (by simpa using hs) hg]
    exact refRel_trans (refRel_set os id pt hg) ih
  | case4 os seen id hs hne =>
    rw [decCounts_other _ _ _ (by simpa using hs) (fun pt h' => hne pt h')]; exact refRel_refl os

theorem noNew_of_refRel (d : Doc) (os' : Objects) (h : RefRel d.objects os') : NoNew d { d with objects := os' } := by
  intro r ⟨hh, hn⟩
  refine ⟨?_, ?_⟩
  · rcases hh with hh | ⟨k, o', hk, hr⟩
    · exact Or.inl hh
    · cases hg : d.objects.get k with
      | none => have := (h k).1 hg; simp only at hk; rw [this] at hk; cases hk
      | some o =>
        obtain ⟨o2, e2, rr⟩ := (h k).2 o hg
        simp only at hk; rw [hk] at e2; cases e2
        exact Or.inr ⟨k, o, hg, rr r hr⟩
  · cases hg : d.objects.get r with
    | none => rfl
    | some o => obtain ⟨o2, e2, _⟩ := (h r).2 o hg; simp only at hn; rw [hn] at e2; cases e2

/-- the precondition of one `delete_object` call -/
def DelGuard (d : Doc) (p : ObjId) : Prop := DistinctKeys d ∧ DelClean d p

/-- one iteration of `delete_pages` -/
theorem noNew_deletePage1 (pages : List ObjId) (d : Doc) (n : Nat)
    (hg : ∀ p, pickPage pages n = some p → DelGuard d p) : NoNew d (deletePage1 pages d n) := by
  unfold deletePage1
  cases hp : pickPage pages n with
  | none => unfold pickPage at hp; rw [hp]; exact noNew_refl d
  | some pid =>
    have hp' := hp
    unfold pickPage at hp; rw [hp]; simp only
    have hn := noNew_delete d pid (hg pid hp').1 (hg pid hp').2
    cases hr : (deleteObject d pid).2 with
    | none =>
      have : deleteObject d pid = ((deleteObject d pid).1, none) := by rw [← hr]
      rw [this]; exact hn
    | some page =>
      have : deleteObject d pid = ((deleteObject d pid).1, some page) := by rw [← hr]
      rw [this]; simp only
      exact noNew_trans hn (noNew_of_refRel _ _ (decCounts_refRel _ _ _))

/-- the precondition of `delete_pages(ns)`: each `delete_object` call of the loop meets its precondition at the
time it is made -/
def delPagesGuard (pages : List ObjId) : Doc → List Nat → Prop
  | _, [] => True
  | d, n :: ns => (∀ p, pickPage pages n = some p → DelGuard d p) ∧ delPagesGuard pages (deletePage1 pages d n) ns

theorem noNew_deletePages_loop (pages : List ObjId) : ∀ (ns : List Nat) (d : Doc), delPagesGuard pages d ns →
    NoNew d (ns.foldl (fun acc n => deletePage1 pages acc n) d)
  | [], d, _ => noNew_refl d
  | n :: ns, d, hg => by
    simp only [List.foldl_cons]
    exact noNew_trans (noNew_deletePage1 pages d n hg.1) (noNew_deletePages_loop pages ns _ hg.2)

theorem noNew_deletePages (d : Doc) (ns : List Nat) (hg : delPagesGuard (pageIter d.trailer d.objects) d ns) :
    NoNew d (deletePages d ns) := noNew_deletePages_loop _ ns d hg

/-- the precondition of a run of `delete_object` calls -/
def delAllGuard : Doc → List ObjId → Prop
  | _, [] => True
  | d, p :: ps => DelGuard d p ∧ delAllGuard (deleteObject d p).1 ps

theorem noNew_foldl_delete : ∀ (ids : List ObjId) (d : Doc), delAllGuard d ids →
    NoNew d (ids.foldl (fun d id => (deleteObject d id).1) d)
  | [], d, _ => noNew_refl d
  | p :: ps, d, hg => by
    simp only [List.foldl_cons]
    exact noNew_trans (noNew_delete d p hg.1.1 hg.1.2) (noNew_foldl_delete ps _ hg.2)

end Lopdf.Ed
