import LopdfModel.Thm.C02Xref
/-
  C02 — the `startxref` section: `startxref` EOL [blanks] offset [blanks] EOL `%%EOF`, any of the
  three end-of-line markers, any number of blanks around the offset, any numeral (leading
  zeros) within i64: `xref_start` reads the offset.
-/
namespace Lopdf.Grammar
open Lopdf Gen

/-- blanks (SP only — what `xref_start` tolerates around the offset) -/
def AllSp (s : Bytes) : Prop := ∀ b ∈ s, (b == 32) = true

theorem tag_append (t r : Bytes) : tag t (t ++ r) = some r := by
  induction t with
  | nil => cases r <;> rfl
  | cons x xs ih => simp [tag, ih]

theorem skipSpaces_append (s t : Bytes) (hs : AllSp s) (ht : ∀ b r, t = b :: r → (b == 32) = false) :
    skipSpaces (s ++ t) = t := by
  unfold skipSpaces
  rw [spanP_append (fun b => b == 32) s t hs ht]

/-- **`startxref`, every spelling.** -/
theorem xrefStart_complete (n : Nat) (e1 s1 ds s2 e2 rest : Bytes) (he1 : IsEol e1) (hs1 : AllSp s1)
    (hd : DerivesNat n ds) (hn : n ≤ I64MAX) (hs2 : AllSp s2) (he2 : IsEol e2) :
    pXrefStart (STARTXREF ++ (e1 ++ (s1 ++ (ds ++ (s2 ++ (e2 ++ (EOF_MARK ++ rest))))))) = some (Int.ofNat n) := by
  -- first bytes of the pieces
  obtain ⟨c2, r2, hc2, hc2v⟩ := eol_head e2 he2 (EOF_MARK ++ rest)
  obtain ⟨cd, rd, hcd, hcdd⟩ := head_digit hd (s2 ++ (e2 ++ (EOF_MARK ++ rest)))
  have hfollow : ∀ b r, s2 ++ (e2 ++ (EOF_MARK ++ rest)) = b :: r → isDigit b = false ∧ (s2 = [] → (b == 32) = false) := by
    intro b r he
    cases s2 with
    | nil =>
      simp only [List.nil_append] at he
      rw [hc2] at he; injection he with he _; subst he
      rcases hc2v with rfl | rfl <;> exact ⟨by decide, fun _ => by decide⟩
    | cons x xs =>
      simp only [List.cons_append] at he; injection he with he _; subst he
      have := hs2 x (by simp)
      have hx : x = 32 := by simpa using this
      subst hx; exact ⟨by decide, fun h => by cases h⟩
  -- the steps
  have st1 : ∃ m, eol (e1 ++ (s1 ++ (ds ++ (s2 ++ (e2 ++ (EOF_MARK ++ rest)))))) =
      some (m, s1 ++ (ds ++ (s2 ++ (e2 ++ (EOF_MARK ++ rest))))) := by
    obtain ⟨m, r, h1, h2⟩ := eol_general e1 (s1 ++ (ds ++ (s2 ++ (e2 ++ (EOF_MARK ++ rest))))) he1
    rcases h2 with rfl | ⟨_, h2⟩
    · exact ⟨m, h1⟩
    · exfalso
      cases s1 with
      | nil =>
        simp only [List.nil_append] at h2
        rw [hcd] at h2; injection h2 with h2 _; subst h2; simp [isDigit] at hcdd
      | cons x xs =>
        simp only [List.cons_append] at h2; injection h2 with h2 _; subst h2
        have := hs1 10 (by simp); simp at this
  obtain ⟨m1, st1⟩ := st1
  have st2 : skipSpaces (s1 ++ (ds ++ (s2 ++ (e2 ++ (EOF_MARK ++ rest))))) = ds ++ (s2 ++ (e2 ++ (EOF_MARK ++ rest))) :=
    skipSpaces_append s1 _ hs1 (by
      intro b r he; rw [hcd] at he; injection he with he _; subst he
      cases h : (cd == 32) with
      | false => rfl
      | true => have : cd = 32 := by simpa using h
                subst this; simp [isDigit] at hcdd)
  have st3 : pInteger (ds ++ (s2 ++ (e2 ++ (EOF_MARK ++ rest)))) = some (Int.ofNat n, s2 ++ (e2 ++ (EOF_MARK ++ rest))) :=
    int_complete _ ds _ (.unsigned n ds hd hn) (fun b r he => (hfollow b r he).1)
  have st4 : skipSpaces (s2 ++ (e2 ++ (EOF_MARK ++ rest))) = e2 ++ (EOF_MARK ++ rest) :=
    skipSpaces_append s2 _ hs2 (by
      intro b r he; rw [hc2] at he; injection he with he _; subst he
      rcases hc2v with rfl | rfl <;> decide)
  have st5 : ∃ m, eol (e2 ++ (EOF_MARK ++ rest)) = some (m, EOF_MARK ++ rest) := by
    obtain ⟨m, r, h1, h2⟩ := eol_general e2 (EOF_MARK ++ rest) he2
    rcases h2 with rfl | ⟨_, h2⟩
    · exact ⟨m, h1⟩
    · simp [EOF_MARK] at h2
  obtain ⟨m2, st5⟩ := st5
  unfold pXrefStart
  simp only [tag_append, Option.bind, st1, st2, st3, st4, st5, Option.map]

example : pXrefStart (STARTXREF ++ ([13, 10] ++ ([32] ++ ([48, 49, 50] ++ ([] ++ ([13] ++ (EOF_MARK ++ [10]))))))) = some 12 :=
  xrefStart_complete 12 _ _ _ _ _ _ .crlf (by intro b hb; simp at hb; subst hb; decide)
    (derivesNat_lit 12 [48, 49, 50] 2 rfl (by unfold AllDigits; decide) rfl) (by decide)
    (by intro b hb; simp at hb) .cr

end Lopdf.Grammar
