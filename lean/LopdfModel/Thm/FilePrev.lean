import LopdfModel.Thm.C07
import LopdfModel.Lemmas.DictOps
/-
  C07 (file level) — **the `Prev` loop of `Reader::read` computes `mergeChain`**: on a file whose
  cross-reference sections are chained by `Prev` (any number of revisions, tables or streams),
  `prevLoop` returns the newest-first or-insert merge of the sections' tables, so
  `chain_latest_wins` describes what the reader actually holds.  The `already_seen` guard cuts
  cycles: a `Prev` that points at an offset already visited ends the walk.
-/
namespace Lopdf.FileRT
open Lopdf Gen

/-- the revisions the `Prev` walk visits from `prevObj` on: (offset, table, trailer) of each
older section in visiting order. It ends when `Prev` is absent / not an integer, or points at an
offset already seen (cycle cut). -/
def ChainOk (buf : Bytes) : Option Obj → List Int → List (Int × XTable × Dict) → Prop
  | prevObj, seen, [] =>
    match prevObj.bind Obj.asInt with
    | none => True
    | some p => p ∈ seen
  | prevObj, seen, (p, X, T) :: rest =>
    prevObj.bind Obj.asInt = some p ∧ p ∉ seen ∧ 0 ≤ p ∧ p.toNat ≤ buf.length ∧
    (∃ sz, xrefAndTrailer (buf.drop p.toNat) = .ok (X, sz, T)) ∧
    ChainOk buf (T.get PREV) (p :: seen) rest

theorem Dict_idxOf_of_get_none (d : Dict) (k : Bytes) (h : d.get k = none) : Dict.idxOf d k = none := by
  induction d with
  | nil => rfl
  | cons p rest ih =>
    obtain ⟨q, w⟩ := p
    by_cases hq : q = k
    · simp [Dict.get, hq] at h
    · simp only [Dict.get, hq, if_false] at h
      simp [Dict.idxOf, hq, ih h]

theorem Dict_remove_absent (d : Dict) (k : Bytes) (h : d.get k = none) : d.remove k = d := by
  simp [Dict.remove, Dict_idxOf_of_get_none d k h]

/-- **`prevLoop` = `mergeChain` (any chain length, any fuel that covers it).** -/
theorem prevLoop_chain_fuel (buf : Bytes) (tr : Dict) (hstm : tr.get XREFSTM = none) :
    ∀ (chain : List (Int × XTable × Dict)) (fuel : Nat) (prevObj : Option Obj) (seen : List Int) (x : XTable),
    ChainOk buf prevObj seen chain → chain.length ≤ fuel →
    prevLoop buf fuel prevObj seen x tr = .ok (mergeChain (x :: chain.map (·.2.1)), tr) := by
  intro chain
  induction chain with
  | nil =>
    intro fuel prevObj seen x hc _
    simp only [ChainOk] at hc
    cases fuel with
    | zero => simp [prevLoop, mergeChain]
    | succ f =>
      simp only [prevLoop, List.map_nil, mergeChain, List.foldl_nil]
      cases hp : prevObj.bind Obj.asInt with
      | none => rfl
      | some p =>
        rw [hp] at hc
        simp only at hc
        simp [hc]
  | cons c rest ih =>
    intro fuel prevObj seen x hc hf
    obtain ⟨p, X, T⟩ := c
    obtain ⟨h1, h2, h3, h4, ⟨sz, h5⟩, h6⟩ := hc
    cases fuel with
    | zero => simp at hf
    | succ f =>
      have hnot : ¬ (p < 0 ∨ p.toNat > buf.length) := by omega
      have hcont : seen.contains p = false := by simpa using h2
      simp only [prevLoop, h1, hcont, Bool.false_eq_true, if_false, decide_eq_true_eq, Bool.or_eq_true, hnot,
        h5, hstm, hybridMerge, Option.bind_none, Dict_remove_absent tr XREFSTM hstm]
      rw [ih f (T.get PREV) (p :: seen) (x.merge X) h6 (by simpa using hf)]
      simp [mergeChain]

/-! ### the reader's fuel always suffices -/

theorem pigeon : ∀ (n : Nat) (l : List Int), l.Nodup → (∀ a ∈ l, 0 ≤ a ∧ a ≤ (n : Int)) → l.length ≤ n + 1 := by
  intro n
  induction n with
  | zero =>
    intro l hn hb
    match l, hn, hb with
    | [], _, _ => simp
    | [a], _, _ => simp
    | a :: b :: r, hn, hb =>
      have ha := hb a (by simp)
      have hb' := hb b (by simp)
      have : a = b := by omega
      subst this
      simp at hn
  | succ n ih =>
    intro l hn hb
    by_cases hm : ((n + 1 : Nat) : Int) ∈ l
    · have h1 := List.length_erase_of_mem hm
      have h2 := ih (l.erase ((n + 1 : Nat) : Int)) (hn.erase _) (by
        intro a ha
        rw [hn.mem_erase_iff] at ha
        have := hb a ha.2
        have hne := ha.1
        omega)
      omega
    · have := ih l hn (by
        intro a ha
        have h1 := hb a ha
        have : a ≠ ((n + 1 : Nat) : Int) := by intro e; subst e; exact hm ha
        omega)
      omega

theorem ChainOk_offsets (buf : Bytes) : ∀ (chain : List (Int × XTable × Dict)) (prevObj : Option Obj) (seen : List Int),
    ChainOk buf prevObj seen chain →
    (chain.map (·.1)).Nodup ∧ (∀ p ∈ chain.map (·.1), p ∉ seen ∧ 0 ≤ p ∧ p ≤ (buf.length : Int)) := by
  intro chain
  induction chain with
  | nil => intro _ _ _; simp
  | cons c rest ih =>
    intro prevObj seen hc
    obtain ⟨p, X, T⟩ := c
    obtain ⟨_, h2, h3, h4, _, h6⟩ := hc
    obtain ⟨i1, i2⟩ := ih (T.get PREV) (p :: seen) h6
    constructor
    · simp only [List.map_cons, List.nodup_cons]
      refine ⟨?_, i1⟩
      intro hm
      exact (i2 p hm).1 (by simp)
    · intro q hq
      simp only [List.map_cons, List.mem_cons] at hq
      rcases hq with rfl | hq
      · exact ⟨h2, h3, by omega⟩
      · obtain ⟨a, b, c⟩ := i2 q hq
        exact ⟨fun hm => a (by simp [hm]), b, c⟩

/-- **The `Prev` loop of `Reader::read` (C07).** With the fuel the reader model uses
(`buf.length + 2` — one round per possible distinct offset), for every chain of revisions of
any length: the loop returns `mergeChain` of the newest table and the tables of the older
sections in `Prev` order, hence (`chain_latest_wins`) every object number resolves to the entry
of the NEWEST revision that defines it; the newest trailer is kept. Hypothesis `hstm`: the file
is not a hybrid-reference file (no `XRefStm` in the newest trailer). -/
theorem prevLoop_chain (buf : Bytes) (tr : Dict) (hstm : tr.get XREFSTM = none)
    (chain : List (Int × XTable × Dict)) (prevObj : Option Obj) (seen : List Int) (x : XTable)
    (hc : ChainOk buf prevObj seen chain) :
    prevLoop buf (buf.length + 2) prevObj seen x tr = .ok (mergeChain (x :: chain.map (·.2.1)), tr) ∧
    ∀ k, (mergeChain (x :: chain.map (·.2.1))).get k = (x :: chain.map (·.2.1)).findSome? (·.get k) := by
  obtain ⟨h1, h2⟩ := ChainOk_offsets buf chain prevObj seen hc
  have hl := pigeon buf.length (chain.map (·.1)) h1 (fun a ha => ⟨(h2 a ha).2.1, (h2 a ha).2.2⟩)
  simp only [List.length_map] at hl
  exact ⟨prevLoop_chain_fuel buf tr hstm chain _ prevObj seen x hc (by omega),
    fun k => chain_latest_wins _ k⟩

/-- non-vacuity and the cycle cut: a two-revision history whose oldest section points BACK at
the newer one (`Prev` cycle) — `ChainOk` holds with the walk ending at the repeated offset -/
example (buf : Bytes) (X1 X2 : XTable) (T1 T2 : Dict) (hb : 200 ≤ buf.length)
    (s1 : xrefAndTrailer (buf.drop 100) = .ok (X1, 5, T1)) (s2 : xrefAndTrailer (buf.drop 20) = .ok (X2, 3, T2))
    (p1 : T1.get PREV = some (.int 20)) (p2 : T2.get PREV = some (.int 100)) :
    ChainOk buf (some (.int 100)) [] [(100, X1, T1), (20, X2, T2)] := by
  refine ⟨rfl, by simp, by omega, by simp; omega, ⟨5, by simpa using s1⟩, ?_⟩
  rw [p1]
  refine ⟨rfl, by simp, by omega, by simp; omega, ⟨3, by simpa using s2⟩, ?_⟩
  rw [p2]
  simp [ChainOk, Obj.asInt]

end Lopdf.FileRT
