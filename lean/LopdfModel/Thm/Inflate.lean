import LopdfModel.Spec.Inflate
import LopdfModel.Lemmas.Bytes
/-
  C09 / C02 — **the specification inflate inverts a deflate encoder, for every byte string**:
  `zlib_stored_rt : zlibInflate (zlibStored x) = some x`. `zlibStored` is the RFC 1951 §3.2.4
  encoder (stored blocks of at most 65535 bytes, zlib header, Adler-32); the harness renders the
  same encoder in Rust, compares the bytes with the Lean encoder on every run and has flate2
  decode them — so the hypothesis `inflate (deflate x) = x` of the C09 theorems is a THEOREM for
  this encoder / the specification decoder, and flate2 is tied to both per run.
  (Fixed- and dynamic-Huffman blocks of the decoder are covered by the per-run comparison with
  flate2 at every compression level, not by a theorem.)
-/
namespace Lopdf.Inflate

theorem bitsOf_append (a b : Bytes) : bitsOf (a ++ b) = bitsOf a ++ bitsOf b := by
  induction a with
  | nil => rfl
  | cons x xs ih => simp only [List.cons_append, bitsOf, ih, List.append_assoc]

theorem bitsOf_length (a : Bytes) : (bitsOf a).length = 8 * a.length := by
  induction a with
  | nil => rfl
  | cons x xs ih => simp only [bitsOf, byteBits, List.length_append, List.length_cons, List.length_nil, ih]; omega

theorem readBits_append : ∀ (m n : Nat) (bs r1 r2 : List Bool) (v w : Nat),
    readBits m bs = some (v, r1) → readBits n r1 = some (w, r2) →
    readBits (m + n) bs = some (v + 2 ^ m * w, r2) := by
  intro m
  induction m with
  | zero =>
    intro n bs r1 r2 v w h1 h2
    simp only [readBits] at h1
    injection h1 with h1
    injection h1 with hv hr
    subst hv; subst hr
    simp [h2]
  | succ m ih =>
    intro n bs r1 r2 v w h1 h2
    cases bs with
    | nil => simp [readBits] at h1
    | cons b bs' =>
      simp only [readBits] at h1
      cases h3 : readBits m bs' with
      | none => simp [h3] at h1
      | some p =>
        obtain ⟨v', r⟩ := p
        simp only [h3] at h1
        injection h1 with h1
        injection h1 with hv hr
        subst hr
        have e : m + 1 + n = (m + n) + 1 := by omega
        rw [e]
        simp only [readBits, ih n bs' r r2 v' w h3 h2]
        have : 2 ^ (m + 1) * w = 2 * (2 ^ m * w) := by
          rw [Nat.pow_succ, Nat.mul_assoc, Nat.mul_left_comm]
        rw [← hv, this]
        congr 2
        omega

/-- the value of the eight bits of a byte, least significant first, is the byte -/
theorem byte_value : ∀ b : UInt8,
    (if (b &&& 1 != 0) = true then 1 else 0) + 2 * ((if (b &&& 2 != 0) = true then 1 else 0) + 2 * ((if (b &&& 4 != 0) = true then 1 else 0)
      + 2 * ((if (b &&& 8 != 0) = true then 1 else 0) + 2 * ((if (b &&& 16 != 0) = true then 1 else 0) + 2 * ((if (b &&& 32 != 0) = true then 1 else 0)
      + 2 * ((if (b &&& 64 != 0) = true then 1 else 0) + 2 * ((if (b &&& 128 != 0) = true then 1 else 0) + 2 * 0))))))) = b.toNat := by
  apply Lopdf.forall_uint8; decide +kernel

theorem readBits8_byte (b : UInt8) (r : List Bool) : readBits 8 (byteBits b ++ r) = some (b.toNat, r) := by
  simp only [byteBits, List.cons_append, List.nil_append, readBits]
  rw [byte_value b]

theorem readByte_byte (b : UInt8) (r : List Bool) : readByte (byteBits b ++ r) = some (b, r) := by
  simp only [readByte, readBits8_byte]
  simp

theorem readBytes_bytes : ∀ (data : Bytes) (r : List Bool), readBytes data.length (bitsOf data ++ r) = some (data, r) := by
  intro data
  induction data with
  | nil => intro r; rfl
  | cons x xs ih =>
    intro r
    simp only [List.length_cons, readBytes, bitsOf, List.append_assoc, readByte_byte, ih]

theorem ofNat_toNat_mod (n : Nat) : (UInt8.ofNat n).toNat = n % 256 := by
  simp [UInt8.toNat_ofNat']

theorem readBits16_le16 (n : Nat) (hn : n < 65536) (r : List Bool) :
    readBits 16 (bitsOf (le16 n) ++ r) = some (n, r) := by
  have h := readBits_append 8 8 (bitsOf (le16 n) ++ r) (byteBits (UInt8.ofNat (n / 256 % 256)) ++ r) r
    (UInt8.ofNat (n % 256)).toNat (UInt8.ofNat (n / 256 % 256)).toNat
    (by simp only [le16, bitsOf, List.append_assoc, List.append_nil]; exact readBits8_byte _ _)
    (readBits8_byte _ _)
  rw [h]
  simp only [ofNat_toNat_mod]
  congr 2
  omega

/-- the five padding bits of a block-header byte `0` / `1` are dropped by the alignment -/
theorem alignDrop_header (R : Bytes) :
    alignDrop ([false, false, false, false, false] ++ bitsOf R) = bitsOf R := by
  unfold alignDrop
  have : ([false, false, false, false, false] ++ bitsOf R).length % 8 = 5 := by
    simp only [List.length_append, List.length_cons, List.length_nil, bitsOf_length]; omega
  rw [this]
  rfl

/-- one stored block: header byte `h` (1 = final, 0 = more follow), LEN, NLEN, the data -/
theorem stored_block (data R : Bytes) (out : Array UInt8) (hlen : data.length ≤ 65535) :
    stored ([false, false, false, false, false] ++ bitsOf (le16 data.length ++ le16 (65535 - data.length) ++ data ++ R)) out
      = some (out ++ data.toArray, bitsOf R) := by
  unfold stored
  rw [alignDrop_header]
  simp only [List.append_assoc, bitsOf_append]
  rw [readBits16_le16 data.length (by omega)]
  simp only
  rw [readBits16_le16 (65535 - data.length) (by omega)]
  simp only
  have : data.length + (65535 - data.length) = 65535 := by omega
  simp only [this, ne_eq, not_true_eq_false, if_false]
  rw [readBytes_bytes]

theorem byteBits_one : byteBits 1 = [true, false, false, false, false, false, false, false] := by decide
theorem byteBits_zero : byteBits 0 = [false, false, false, false, false, false, false, false] := by decide

theorem storedBlocks_length : ∀ (fuel : Nat) (data : Bytes), data.length < fuel → data.length ≤ (storedBlocks fuel data).length := by
  intro fuel
  induction fuel with
  | zero => intro data h; omega
  | succ f ih =>
    intro data h
    unfold storedBlocks
    split
    · simp only [List.length_append]; omega
    · have := ih (data.drop 65535) (by simp only [List.length_drop]; omega)
      simp only [List.length_append, List.length_take, List.length_drop] at this ⊢
      omega

/-- **the block loop reads back what `storedBlocks` wrote**, whatever follows (`tail`), into
whatever output has been produced so far -/
theorem blocks_storedBlocks : ∀ (fuelS : Nat) (data tail : Bytes) (out : Array UInt8) (fuelB : Nat),
    data.length < fuelS → fuelS ≤ fuelB →
    blocks fuelB (bitsOf (storedBlocks fuelS data ++ tail)) out = some (out ++ data.toArray, bitsOf tail) := by
  intro fuelS
  induction fuelS with
  | zero => intro data tail out fuelB h; omega
  | succ f ih =>
    intro data tail out fuelB h1 h2
    obtain ⟨fb, rfl⟩ : ∃ fb, fuelB = fb + 1 := ⟨fuelB - 1, by omega⟩
    unfold storedBlocks
    split
    · rename_i hle
      simp only [List.append_assoc, List.cons_append, List.nil_append, bitsOf, byteBits_one]
      simp only [blocks, List.cons_append, readBits, List.nil_append]
      have := stored_block data tail out hle
      simp only [List.append_assoc, List.cons_append, List.nil_append] at this
      simp only [Nat.mul_zero, Nat.add_zero, Nat.zero_add, if_true, this]
      simp
    · rename_i hgt
      have htake : (data.take 65535).length = 65535 := by simp only [List.length_take]; omega
      simp only [List.append_assoc, List.cons_append, List.nil_append, bitsOf, byteBits_zero]
      simp only [blocks, List.cons_append, readBits, List.nil_append]
      have hs := stored_block (data.take 65535) (storedBlocks f (data.drop 65535) ++ tail) out (by omega)
      rw [htake] at hs
      simp only [List.append_assoc, List.cons_append, List.nil_append, le16, Nat.sub_self] at hs ⊢
      simp only [Nat.mul_zero, Nat.add_zero, Nat.zero_add, if_true, hs]
      simp only [Bool.false_eq_true, if_false, Nat.mul_zero, Nat.add_zero, if_true]
      rw [if_neg (by decide : ¬ (0 : Nat) = 1)]
      rw [ih (data.drop 65535) tail (out ++ (data.take 65535).toArray) fb (by simp only [List.length_drop]; omega) (by omega)]
      congr 2
      rw [Array.append_assoc]
      congr 1
      apply Array.ext'
      simp

theorem adler_fold_lt (data : Bytes) : ∀ (p : Nat × Nat), p.1 < 65521 → p.2 < 65521 →
    (data.foldl adlerStep p).1 < 65521 ∧ (data.foldl adlerStep p).2 < 65521 := by
  induction data with
  | nil => intro p h1 h2; exact ⟨h1, h2⟩
  | cons x xs ih =>
    intro p h1 h2
    simp only [List.foldl_cons]
    exact ih _ (Nat.mod_lt _ (by omega)) (Nat.mod_lt _ (by omega))

theorem adler32_lt (data : Bytes) : adler32 data < 4294967296 := by
  unfold adler32
  have := adler_fold_lt data (1, 0) (by omega) (by omega)
  omega

/-- the four big-endian trailer bytes denote the checksum -/
theorem be32_value (a : Nat) (h : a < 4294967296) :
    (UInt8.ofNat (a / 16777216 % 256)).toNat * 16777216 + (UInt8.ofNat (a / 65536 % 256)).toNat * 65536
      + (UInt8.ofNat (a / 256 % 256)).toNat * 256 + (UInt8.ofNat (a % 256)).toNat = a := by
  simp only [ofNat_toNat_mod]
  omega

/-- **`inflate ∘ deflate = id` for the stored-block encoder — every byte string, no size bound.** -/
theorem zlib_stored_rt (x : Bytes) : zlibInflate (zlibStored x) = some x := by
  unfold zlibStored zlibInflate
  simp only [List.cons_append, List.nil_append]
  have hhdr : ¬ ((120 : UInt8) &&& 15 ≠ 8 ∨ (120 : UInt8) >>> 4 > 7 ∨ ((120 : UInt8).toNat * 256 + (1 : UInt8).toNat) % 31 ≠ 0 ∨ (1 : UInt8) &&& 32 ≠ 0) := by
    decide
  simp only [hhdr, if_false]
  unfold inflateRaw
  have hb := blocks_storedBlocks (x.length + 1) x
    [UInt8.ofNat (adler32 x / 16777216 % 256), UInt8.ofNat (adler32 x / 65536 % 256), UInt8.ofNat (adler32 x / 256 % 256), UInt8.ofNat (adler32 x % 256)]
    #[] ((bitsOf (storedBlocks (x.length + 1) x ++
      [UInt8.ofNat (adler32 x / 16777216 % 256), UInt8.ofNat (adler32 x / 65536 % 256), UInt8.ofNat (adler32 x / 256 % 256), UInt8.ofNat (adler32 x % 256)])).length + 1)
    (by omega)
    (by
      rw [bitsOf_length, List.length_append]
      have := storedBlocks_length (x.length + 1) x (by omega)
      omega)
  simp only [hb, Option.map_some]
  have hal : alignDrop (bitsOf [UInt8.ofNat (adler32 x / 16777216 % 256), UInt8.ofNat (adler32 x / 65536 % 256), UInt8.ofNat (adler32 x / 256 % 256), UInt8.ofNat (adler32 x % 256)])
      = bitsOf [UInt8.ofNat (adler32 x / 16777216 % 256), UInt8.ofNat (adler32 x / 65536 % 256), UInt8.ofNat (adler32 x / 256 % 256), UInt8.ofNat (adler32 x % 256)] := by
    unfold alignDrop
    rw [bitsOf_length]
    simp only [List.length_cons, List.length_nil]
    rfl
  have hrd := readBytes_bytes [UInt8.ofNat (adler32 x / 16777216 % 256), UInt8.ofNat (adler32 x / 65536 % 256), UInt8.ofNat (adler32 x / 256 % 256), UInt8.ofNat (adler32 x % 256)] []
  simp only [List.append_nil, List.length_cons, List.length_nil] at hrd
  have hx : (#[] ++ x.toArray : Array UInt8).toList = x := by simp
  simp only [hal, hrd, hx, be32_value (adler32 x) (adler32_lt x), true_or, if_true]

/- the guard of the header test is exactly RFC 1950's: 0x78 0x01 passes, a wrong FCHECK does not -/
example : zlibInflate [0x78, 0x02, 1, 0, 0, 255, 255] = none := by decide
example : zlibInflate (zlibStored [7, 8, 9]) = some [7, 8, 9] := zlib_stored_rt _

end Lopdf.Inflate
