import LopdfModel.Lemmas.C09Compress
/-
  C09 — stream filters decode as specified; compression is lossless.
  Property theorems (helper lemmas: Lemmas/C09A85, C09Paeth, C09Png).
-/
namespace Lopdf
open Gen

/-! ### PNG predictors -/

/-- **all 2^24 Paeth triples**: `paeth_predict`'s `i16` arithmetic never overflows and its value is
the PaethPredictor of the PNG specification. -/
theorem paeth_eq_spec (a b c : UInt8) :
    paethPredictO a b c = some (Spec.Png.paeth a b c) ∧ paethPredict a b c = Spec.Png.paeth a b c :=
  ⟨paethPredictO_eq a b c, paethPredict_eq a b c⟩

/-- PaethPredictor is symmetric in (left, above): swapping the two arguments in `decode_row`, or making the
first tie-break of `paeth_predict` strict, are behaviour-preserving changes (both tried as mutations). -/
theorem paeth_symm (a b c : UInt8) : paethPredict a b c = paethPredict b a c := by
  rw [paethPredict_eq, paethPredict_eq, paeth_symm']

/-- **row round trip**: for each of the five filter types, every `bpp ≥ 1`, every row length and every
previous row, `decode_row` inverts the PNG specification's filter. -/
theorem row_rt (t : Spec.Png.FilterType) (bpp : Nat) (hb : 1 ≤ bpp) (prev cur : Bytes) :
    decodeRow (M t) bpp prev (Spec.Png.encodeRow t bpp prev cur) = cur := row_rt' t bpp hb prev cur

example : decodeRow .avg 1 [100, 200] (Spec.Png.encodeRow .avg 1 [100, 200] [60, 150]) = [60, 150] := by decide
/-- the regression value of the repaired Average defect (F-C09-a): filtered `[10,20]` over `[100,200]` is `[60,150]` -/
theorem avg_regression : decodeRow .avg 1 [100, 200] [10, 20] = [60, 150] := by decide

/-- **frame round trip**: any number of rows, any filter type per row (predictor 15 "optimum"
included), the row above the first being zero. -/
theorem frame_rt (bpp ppr : Nat) (hb : 1 ≤ bpp) (hsz : bpp * ppr ≤ FLT_ISIZE_MAX)
    (rows : List (Spec.Png.FilterType × Bytes)) (h : ∀ r ∈ rows, r.2.length = bpp * ppr) :
    decodeFrame (encodeImage bpp (bpp * ppr) rows) bpp ppr = .ok (joinRows rows) :=
  frame_rt' bpp ppr hb hsz rows h

example : decodeFrame (encodeImage 2 (2 * 2) [(.paeth, [1, 2, 3, 4]), (.avg, [9, 8, 7, 6]), (.sub, [0, 255, 3, 1])]) 2 2
    = .ok [1, 2, 3, 4, 9, 8, 7, 6, 0, 255, 3, 1] :=
  frame_rt 2 2 (by omega) (by decide) _ (by decide)

/-! ### ASCII85 -/

/-- **ASCII85 round trip** for EVERY byte string: full groups, the `z` shortcut, partial final
groups of 1–3 bytes, the `~>` marker. -/
theorem a85_round_trip (x : Bytes) : a85Decode (Spec.A85.encode x) = .ok x := a85_rt x

example : Spec.A85.encode [77, 97, 110, 32, 0, 0, 0, 0, 1] = [57, 106, 113, 111, 94, 122, 33, 60, 126, 62] := by decide


/-- **no panic**: `decode_ascii85` (checked `u32` arithmetic after fix 87734a4) never panics, on ANY input. -/
theorem a85_no_panic (input : Bytes) (site : String) : a85Decode input ≠ .panic site := a85_no_panic' input site

/-- regression value of the repaired overflow defect: the group `s8W-"` has value 2^32 — an error, not a panic -/
theorem a85_overflow_is_error : a85Decode [115, 56, 87, 45, 34, 126, 62] = .err "ascii85 overflow" := by decide
/-- … while the largest legal group `s8W-!` decodes to four 0xFF bytes -/
theorem a85_max_group : a85Decode [115, 56, 87, 45, 33, 126, 62] = .ok [255, 255, 255, 255] := by decide

/-! ### geometry -/

/-- for BitsPerComponent 8 or 16 lopdf's `colors * bits / 8` and `bytes_per_pixel * columns` are the
PNG specification's bytes-per-pixel and bytes-per-row -/
theorem bpp_eq_spec (colors bits columns : Nat) (hb : bits = 8 ∨ bits = 16) (hc : 1 ≤ colors) :
    colors * bits / BPP_DIV = Spec.Png.bppSpec colors bits ∧
    colors * bits / BPP_DIV * columns = Spec.Png.rowBytesSpec columns colors bits :=
  bpp_eq_spec' colors bits columns hb hc

/-- outside that domain the formulas differ (BitsPerComponent 4, three colours: 3 instead of 2 bytes per pixel) -/
theorem bpp_differs_below_8 : max 8 4 * 3 / BPP_DIV ≠ Spec.Png.bppSpec 3 4 := by decide

/-! ### filter chains -/

/-- **chains of ANY length** over {FlateDecode, LZWDecode, ASCII85Decode} with PER-STAGE parameters and PNG
predictors at any stage: if stage `k` is decoded with the parameters `cs[k].p` the chain was encoded for, decoding the
reference encoding of `x` gives `x` (flate2 / weezl enter as hypotheses). Both parameter forms are instances:
`chain_rt_dict` (one dictionary for every stage) and `chain_rt_array` (array parallel to the filters). -/
theorem chain_rt (ext : Ext) (deflate : Bytes → Bytes) (lzwEnc : Bool → Bytes → Bytes)
    (hfl : ∀ x, ext.inflate (deflate x) = x) (hne : ∀ x, deflate x ≠ [])
    (hlzw : ∀ e x, ext.lzw e (lzwEnc e x) = x)
    (s : Strm) (c : StageEnc) (cs : List StageEnc) (x : Bytes)
    (hF : s.dict.get K_FILTER = some (.arr ((c :: cs).map fun c => Obj.name c.f.name)))
    (hP : ∀ k (h : k < (c :: cs).length), stageParms s.dict k = ((c :: cs)[k]).p)
    (hv : ChainValid deflate lzwEnc (c :: cs) x)
    (hc : s.content = encChainP deflate lzwEnc (c :: cs) x) :
    decompressedContent ext s = .ok x ∧ getPlainContent ext s = .ok x := by
  have hF' : s.dict.get K_FILTER = some (.arr (((c :: cs).map (·.f)).map fun f => Obj.name f.name)) := by
    rw [hF, List.map_map]; rfl
  have h := decoded_of_filters ext s c.f (cs.map (·.f)) (by simpa using streamFilters_arr _ _ hF')
  have r := filterLoop_rtP ext deflate lzwEnc hfl hne hlzw (stageParms s.dict) x (c :: cs) 0
    (by intro k hk; simpa using hP k hk) hv
  have e : ((c :: cs).map fun c => c.f.name) = (c.f :: cs.map (·.f)).map Stage.name := by
    simp [List.map_map, Function.comp_def]
  rw [h.1, h.2, hc, ← e]
  exact ⟨r, r⟩

/-- dictionary form: the one dictionary is the parameter object of every stage -/
theorem chain_rt_dict (ext : Ext) (deflate : Bytes → Bytes) (lzwEnc : Bool → Bytes → Bytes)
    (hfl : ∀ x, ext.inflate (deflate x) = x) (hne : ∀ x, deflate x ≠ [])
    (hlzw : ∀ e x, ext.lzw e (lzwEnc e x) = x)
    (s : Strm) (c : StageEnc) (cs : List StageEnc) (x : Bytes) (d : Dict)
    (hF : s.dict.get K_FILTER = some (.arr ((c :: cs).map fun c => Obj.name c.f.name)))
    (hD : s.dict.get K_DECODEPARMS = some (.dict d))
    (hall : ∀ c' ∈ c :: cs, c'.p = some d)
    (hv : ChainValid deflate lzwEnc (c :: cs) x)
    (hc : s.content = encChainP deflate lzwEnc (c :: cs) x) :
    decompressedContent ext s = .ok x ∧ getPlainContent ext s = .ok x :=
  chain_rt ext deflate lzwEnc hfl hne hlzw s c cs x hF
    (by intro k hk; rw [stageParms_dict _ _ _ hD, hall _ (List.getElem_mem hk)]) hv hc

/-- the element of a `DecodeParms` array that denotes the parameters `p` -/
def parmsObj : Option Dict → Obj
  | some d => .dict d
  | none => .null

/-- **array form** (the clause of the property that was false before the repair of F-C09-b): `DecodeParms` is an
array parallel to the filters, element `k` a dictionary or null. -/
theorem chain_rt_array (ext : Ext) (deflate : Bytes → Bytes) (lzwEnc : Bool → Bytes → Bytes)
    (hfl : ∀ x, ext.inflate (deflate x) = x) (hne : ∀ x, deflate x ≠ [])
    (hlzw : ∀ e x, ext.lzw e (lzwEnc e x) = x)
    (s : Strm) (c : StageEnc) (cs : List StageEnc) (x : Bytes)
    (hF : s.dict.get K_FILTER = some (.arr ((c :: cs).map fun c => Obj.name c.f.name)))
    (hA : s.dict.get K_DECODEPARMS = some (.arr ((c :: cs).map fun c => parmsObj c.p)))
    (hv : ChainValid deflate lzwEnc (c :: cs) x)
    (hc : s.content = encChainP deflate lzwEnc (c :: cs) x) :
    decompressedContent ext s = .ok x ∧ getPlainContent ext s = .ok x :=
  chain_rt ext deflate lzwEnc hfl hne hlzw s c cs x hF
    (by
      intro k hk
      rw [stageParms_arr _ _ _ hA]
      have : ((c :: cs).map fun c => parmsObj c.p)[k]? = some (parmsObj ((c :: cs)[k]).p) := by
        rw [List.getElem?_map, List.getElem?_eq_getElem hk]; rfl
      rw [this]
      cases ((c :: cs)[k]).p <;> rfl) hv hc

/-- toy external codecs meeting the hypotheses (non-vacuity) -/
def toyExt : Ext := { inflate := fun y => y.tail, lzw := fun _ y => y.tail }
/-- `Filter [/ASCII85Decode /LZWDecode /FlateDecode]`, `DecodeParms [null null <</Predictor 12 /Columns 2>>]` -/
def toyChain : List StageEnc :=
  [⟨.a85, none, none⟩, ⟨.lzw, none, none⟩, ⟨.flate, some wParms, some [(.up, [1, 2]), (.paeth, [3, 4])]⟩]
def toyStream : Strm :=
  { dict := [(K_FILTER, .arr [.name F_A85, .name F_LZW, .name F_FLATE]),
             (K_DECODEPARMS, .arr [.null, .null, .dict wParms])],
    content := encChainP (fun x => 0 :: x) (fun _ x => 1 :: x) toyChain [1, 2, 3, 4] }
example : decompressedContent toyExt toyStream = .ok [1, 2, 3, 4] :=
  (chain_rt_array toyExt (fun x => 0 :: x) (fun _ x => 1 :: x) (fun _ => rfl) (fun _ => by simp) (fun _ _ => rfl)
    toyStream ⟨.a85, none, none⟩ [⟨.lzw, none, none⟩, ⟨.flate, some wParms, some [(.up, [1, 2]), (.paeth, [3, 4])]⟩]
    [1, 2, 3, 4] rfl rfl
    ⟨Or.inl rfl, Or.inr (by trivial),
     ⟨wParms, rfl, by decide, by decide, by decide, by decide, by decide, by decide, by decide⟩, trivial⟩ rfl).1

/-- **Flate / LZW stage with a PNG predictor** (Predictor 10–15, any Columns, Colors, BitsPerComponent 8 or 16),
parameters as a DICTIONARY or as a one-element ARRAY: the decoded content is the image whose rows the PNG encoder filtered. -/
theorem stream_png_rt (ext : Ext) (deflate : Bytes → Bytes) (lzwEnc : Bool → Bytes → Bytes)
    (hfl : ∀ x, ext.inflate (deflate x) = x) (hne : ∀ x, deflate x ≠ [])
    (hlzw : ∀ e x, ext.lzw e (lzwEnc e x) = x)
    (s : Strm) (f : Stage) (hf : f ≠ .a85) (p : Dict)
    (hF : s.dict.get K_FILTER = some (.name f.name) ∨ s.dict.get K_FILTER = some (.arr [.name f.name]))
    (hP : s.dict.get K_DECODEPARMS = some (.dict p) ∨ s.dict.get K_DECODEPARMS = some (.arr [.dict p]))
    (hact : (predGeom p).active = true)
    (hbits : (predGeom p).bits = 8 ∨ (predGeom p).bits = 16)
    (hsz : (predGeom p).bpp * (predGeom p).columns ≤ FLT_ISIZE_MAX)
    (hmul : (predGeom p).colors * (predGeom p).bits ≤ FLT_USIZE_MAX)
    (rows : List (Spec.Png.FilterType × Bytes))
    (hrows : ∀ r ∈ rows, r.2.length = Spec.Png.rowBytesSpec (predGeom p).columns (predGeom p).colors (predGeom p).bits)
    (hc : s.content = encStage deflate lzwEnc (earlyChange (some p)) f
        (encodeImage (Spec.Png.bppSpec (predGeom p).colors (predGeom p).bits)
          (Spec.Png.rowBytesSpec (predGeom p).columns (predGeom p).colors (predGeom p).bits) rows)) :
    decompressedContent ext s = .ok (joinRows rows) := by
  have hsf : streamFilters s.dict = some [f.name] := by
    rcases hF with h | h
    · exact streamFilters_name _ _ h
    · simpa using streamFilters_arr s.dict [f] (by simpa using h)
  have h := (decoded_of_filters ext s f [] (by simpa using hsf)).1
  have hp : stageParms s.dict 0 = some p := by
    rcases hP with h | h
    · exact stageParms_dict _ _ _ h
    · rw [stageParms_arr _ _ _ h]; rfl
  rw [h, hc]
  simp only [List.map, filterLoop, hp]
  rw [applyFilter_png ext deflate lzwEnc p hfl hne hlzw hact hbits hsz hmul f hf rows hrows]
  rfl

def toyPng : Strm :=
  { dict := [(K_FILTER, .name F_FLATE), (K_DECODEPARMS, .arr [.dict wParms])],
    content := 0 :: encodeImage 1 2 [(.up, [1, 2]), (.up, [3, 4])] }
example : decompressedContent toyExt toyPng = .ok [1, 2, 3, 4] :=
  stream_png_rt toyExt (fun x => 0 :: x) (fun _ x => 1 :: x) (fun _ => rfl) (fun _ => by simp) (fun _ _ => rfl)
    toyPng .flate (by decide) wParms (Or.inl rfl) (Or.inr rfl) (by decide) (by decide) (by decide) (by decide)
    [(.up, [1, 2]), (.up, [3, 4])] (by decide) (by decide)

/-- regression of the repaired F-C09-b: the former witness stream (`Filter [/FlateDecode]`,
`DecodeParms [<</Predictor 12 /Columns 2>>]`) now decodes to the image, exactly like the dictionary form. -/
theorem parms_array_regression :
    encodeImage 1 2 [(.up, [1, 2]), (.up, [3, 4])] = [2, 1, 2, 2, 2, 2] ∧
    decompressedContent wExt2 wDict = .ok [1, 2, 3, 4] ∧
    decompressedContent wExt2 wArr = .ok [1, 2, 3, 4] := parms_array_regression'

/-- array entries that are not dictionaries (null, numbers, references), missing entries and a `DecodeParms` that is
neither dictionary nor array mean "no parameters" -/
theorem stageParms_other :
    stageParms [(K_DECODEPARMS, .arr [.null, .int 3, .ref 7 0])] 0 = none ∧
    stageParms [(K_DECODEPARMS, .arr [.null, .int 3, .ref 7 0])] 1 = none ∧
    stageParms [(K_DECODEPARMS, .arr [.null, .int 3, .ref 7 0])] 2 = none ∧
    stageParms [(K_DECODEPARMS, .arr [.null, .int 3, .ref 7 0])] 3 = none ∧
    stageParms [(K_DECODEPARMS, .ref 9 0)] 0 = none := by decide

/-! ### compress / Length -/

/-- compress never makes the content longer; when it changes the stream it saves more than the
`COMPRESS_MARGIN` = 19 bytes that the added `/Filter/FlateDecode` entry costs. -/
theorem compress_not_longer (deflate : Bytes → Bytes) (s : Strm) :
    (compress deflate s).content.length ≤ s.content.length ∧
    (compress deflate s ≠ s → (compress deflate s).content.length + COMPRESS_MARGIN < s.content.length) :=
  compress_not_longer' deflate s

/-- the bytes the added entry `/Filter/FlateDecode` costs in the serialised dictionary -/
def filterEntrySize : Nat := (47 :: K_FILTER ++ 47 :: F_FLATE).length

/-- the serialised object never grows: whenever compress changes the stream, the new content plus the
added `/Filter/FlateDecode` entry is no longer than the old content (needs `entry size ≤ COMPRESS_MARGIN + 1`,
checked against the regenerated constant). -/
theorem compress_object_not_longer (deflate : Bytes → Bytes) (s : Strm) (h : compress deflate s ≠ s) :
    (compress deflate s).content.length + filterEntrySize ≤ s.content.length := by
  have h1 := (compress_not_longer deflate s).2 h
  have h2 : filterEntrySize ≤ COMPRESS_MARGIN + 1 := by decide
  omega

/-- **compress then decode returns the original bytes** — FULL statement (since fix 7763e3b): for EVERY stream
without a Filter, whatever else its dictionary holds (a `DecodeParms` with a PNG predictor included),
`get_plain_content (compress s)` is the original content; hypotheses: flate2 decodes what it encoded, zlib output is
never empty, dictionary keys are distinct (`IndexMap` invariant). -/
theorem compress_rt (ext : Ext) (deflate : Bytes → Bytes)
    (hfl : ∀ x, ext.inflate (deflate x) = x) (hne : ∀ x, deflate x ≠ [])
    (s : Strm) (hnd : s.dict.KeysNodup) (hnf : s.dict.has K_FILTER = false) :
    getPlainContent ext (compress deflate s) = .ok s.content :=
  compress_rt_nofilter ext deflate hfl hne s hnd hnf

/-- … and for every stream (Filter present: compress is the identity): the plain content is unchanged -/
theorem compress_preserves_plain (ext : Ext) (deflate : Bytes → Bytes)
    (hfl : ∀ x, ext.inflate (deflate x) = x) (hne : ∀ x, deflate x ≠ [])
    (s : Strm) (hnd : s.dict.KeysNodup) :
    getPlainContent ext (compress deflate s) = getPlainContent ext s :=
  compress_rt' ext deflate hfl hne s hnd

example : getPlainContent toyExt (compress (fun x => 0 :: x) ⟨[(K_LENGTH, .int 3)], [1, 2, 3]⟩) = .ok [1, 2, 3] :=
  compress_rt toyExt (fun x => 0 :: x) (fun _ => rfl) (fun _ => by simp) ⟨[(K_LENGTH, .int 3)], [1, 2, 3]⟩
    (by unfold Dict.KeysNodup; decide) (by decide)

/-- regression of the repaired F-C09-c: the former witness stream (`DecodeParms << /Predictor 12 /Columns 4 >>`, no
Filter, 40 bytes 0x09, codecs that really compress it) loses its DecodeParms and survives compress + decode. -/
theorem compress_stale_regression :
    (compress wDeflate wStale).dict.get K_DECODEPARMS = none ∧
    (compress wDeflate wStale).dict.get K_FILTER = some (.name F_FLATE) ∧
    getPlainContent wExt (compress wDeflate wStale) = .ok wStale.content := compress_stale_regression'

/-- `IndexMap::swap_remove` as modelled really removes the key (used by `compress_rt`) -/
theorem dict_remove_removes (d : Dict) (k : Bytes) (hn : d.KeysNodup) : (d.remove k).get k = none :=
  Dict.get_remove_same_c09 d k hn

/-- **Length = |content| after every content-changing operation** (set_content, set_plain_content, compress when it
changes the stream, decompress when it succeeds). -/
theorem length_inv (ext : Ext) (deflate : Bytes → Bytes) (s : Strm) (c : Bytes) :
    LengthOk (setContent s c) ∧ LengthOk (setPlainContent s c) ∧
    (compress deflate s = s ∨ LengthOk (compress deflate s)) ∧
    (∀ s', decompress ext s = .ok s' → LengthOk s') :=
  ⟨(setContent_length s c).1, (setPlainContent_length s c).1, compress_length deflate s,
   fun s' h => decompress_length ext s s' h⟩

end Lopdf
