import LopdfModel.Lemmas.C09A85
import LopdfModel.Lemmas.C09Png
/-
  C09 — stream filters decode as specified; compression is lossless.
  Property theorems (helper lemmas: Lemmas/C09A85, C09Paeth, C09Png).
-/
namespace Lopdf
open Gen

/-! ### PNG predictors -/

/-- **all 2^24 Paeth triples**: `paeth_predict`'s `i16` arithmetic never overflows and its value is
the PaethPredictor of the PNG specification. -/
theorem paeth_eq_spec (a b c : UInt8) :
    paethPredictO a b c = some (Spec.Png.paeth a b c) ∧ paethPredict a b c = Spec.Png.paeth a b c :=
  ⟨paethPredictO_eq a b c, paethPredict_eq a b c⟩

/-- **row round trip**: for each of the five filter types, every `bpp ≥ 1`, every row length and every
previous row, `decode_row` inverts the PNG specification's filter. -/
theorem row_rt (t : Spec.Png.FilterType) (bpp : Nat) (hb : 1 ≤ bpp) (prev cur : Bytes) :
    decodeRow (M t) bpp prev (Spec.Png.encodeRow t bpp prev cur) = cur := row_rt' t bpp hb prev cur

example : decodeRow .avg 1 [100, 200] (Spec.Png.encodeRow .avg 1 [100, 200] [60, 150]) = [60, 150] := by decide
/-- the regression value of the repaired Average defect (F-C09-a): filtered `[10,20]` over `[100,200]` is `[60,150]` -/
theorem avg_regression : decodeRow .avg 1 [100, 200] [10, 20] = [60, 150] := by decide

/-- **frame round trip**: any number of rows, any filter type per row (predictor 15 "optimum"
included), the row above the first being zero. -/
theorem frame_rt (bpp ppr : Nat) (hb : 1 ≤ bpp) (hsz : bpp * ppr ≤ ISIZE_MAX)
    (rows : List (Spec.Png.FilterType × Bytes)) (h : ∀ r ∈ rows, r.2.length = bpp * ppr) :
    decodeFrame (encodeImage bpp (bpp * ppr) rows) bpp ppr = .ok (joinRows rows) :=
  frame_rt' bpp ppr hb hsz rows h

example : decodeFrame (encodeImage 2 (2 * 2) [(.paeth, [1, 2, 3, 4]), (.avg, [9, 8, 7, 6]), (.sub, [0, 255, 3, 1])]) 2 2
    = .ok [1, 2, 3, 4, 9, 8, 7, 6, 0, 255, 3, 1] :=
  frame_rt 2 2 (by omega) (by decide) _ (by decide)

/-! ### ASCII85 -/

/-- **ASCII85 round trip** for EVERY byte string: full groups, the `z` shortcut, partial final
groups of 1–3 bytes, the `~>` marker. -/
theorem a85_round_trip (x : Bytes) : a85Decode (Spec.A85.encode x) = .ok x := a85_rt x

example : Spec.A85.encode [77, 97, 110, 32, 0, 0, 0, 0, 1] = [57, 106, 113, 111, 94, 122, 33, 60, 126, 62] := by decide

end Lopdf
