import LopdfModel.Thm.FileLoadObjects
/-
  C07 (file level) — **loading an incremental save**: a document saved plainly, then a new
  revision saved on top with `Prev` pointing at the first cross-reference section.  `Reader::read`
  on the two-revision file returns, for every object id, the object of the NEWEST revision that
  holds it (new objects override previous ones; untouched ones are still there).
-/
namespace Lopdf.FileRT
open Lopdf Gen

theorem XTable_get_none_iff (t : XTable) (k : Nat) : t.get k = none ↔ k ∉ t.map (·.1) := by
  induction t with
  | nil => simp [XTable.get]
  | cons p rest ih =>
    obtain ⟨q, w⟩ := p
    by_cases h : q = k
    · subst h; simp [XTable.get]
    · have h' : ¬ k = q := fun e => h e.symm
      simp [XTable.get, h, h', ih]

theorem XTable_merge_nodup (y : XTable) : ∀ x : XTable, (x.map (·.1)).Nodup → ((x.merge y).map (·.1)).Nodup := by
  intro x
  rw [merge_eq_foldl]
  induction y generalizing x with
  | nil => intro h; exact h
  | cons p rest ih =>
    intro h
    obtain ⟨k, v⟩ := p
    simp only [List.foldl_cons]
    apply ih
    unfold mergeStep
    simp only
    cases hx : x.get k with
    | some _ => exact h
    | none =>
      simp only [List.map_append, List.map_cons, List.map_nil]
      rw [List.nodup_append]
      refine ⟨h, by simp, ?_⟩
      intro a ha b hb
      simp at hb
      subst hb
      intro e; subst e
      exact (XTable_get_none_iff x a).mp hx ha

/-- **Loading an incremental save (C07 `incr_load`, modulo the object-level round trips).** -/
theorem load_of_incr_save_with (arr : List Block → List Block) (arr2 : List ObjId → List ObjId) (harr : arr [] = []) (harr2 : arr2 [] = [])
    (d1 d2 : SDoc) (out1 out2 : Bytes) (d1' d2' : SDoc)
    (hk1 : d1.xrefKind = .table) (hk2 : d2.xrefKind = .table)
    (h1 : saveFrom [] d1 = some (out1, d1')) (h2 : saveIncr out1 d2 = some (out2, d2'))
    (hlen : out2.length < 4294967296)
    (hmax1 : d1.maxId + 1 ≤ 4294967295) (hmax2 : d2.maxId + 1 ≤ 4294967295)
    (hwf1 : DocWF d1) (hwf2 : DocWF d2) (hnd : d2.trailer.keys.Nodup)
    (hgen : ∀ p2 ∈ d2.objects, ∀ p1 ∈ d1.objects, p2.1.1 = p1.1.1 → p2.1.2 = p1.1.2)
    (hprev : d2.trailer.get PREV = some (.int ((bodyOf [] d1).length : Int)))
    (hnoprev : d1.trailer.get PREV = none) (hstm : d2.trailer.get XREFSTM = none)
    (henc : d2.trailer.has ENCRYPT = false)
    (hD1 : ∀ rest, DictReadsBack d1'.trailer (10 :: rest))
    (hD2 : ∀ rest, DictReadsBack d2'.trailer (10 :: rest))
    (hobj1 : ∀ p ∈ d1.objects, IndirectReadsBack p.1.1 p.1.2 p.2)
    (hobj2 : ∀ p ∈ d2.objects, IndirectReadsBack p.1.1 p.1.2 p.2)
    (hv1 : ∀ b ∈ d1.version, notEol b = true) (hv2 : validUtf8 d1.version = true) :
    ∃ L : Loaded, loadDocWith arr arr2 out2 = .ok L ∧ L.version = d1.version ∧ L.binaryMark = d1.binaryMark ∧
      L.trailer = d2'.trailer.remove PREV ∧
      ∀ id, L.objects.get id = (d2.objects.get id).orElse (fun _ => d1.objects.get id) := by
  have h2' : saveFrom (incrPre out1) d2 = some (out2, d2') := h2
  -- the new revision
  have hD2' : DictReadsBack d2'.trailer (STARTXREF_KW ++ natDigits (bodyOf (incrPre out1) d2).length ++ EOF_KW) := by
    have := hD2 ([115, 116, 97, 114, 116, 120, 114, 101, 102, 10] ++ natDigits (bodyOf (incrPre out1) d2).length ++ EOF_KW)
    simpa [STARTXREF_KW] using this
  obtain ⟨xs, table2, hstart, hxs, hxt2, hget2, _, hnodup2⟩ :=
    load_xref_of_save_table (incrPre out1) d2 out2 d2' hk2 h2' hlen hmax2 hwf2.gens hD2'
  obtain ⟨hout2, htr2⟩ := saveFrom_table_eq (incrPre out1) d2 out2 d2' hk2 h2'
  -- the old revision inside the new file
  obtain ⟨hout1, htr1⟩ := saveFrom_table_eq [] d1 out1 d1' hk1 h1
  obtain ⟨R, hR⟩ : ∃ R, out2 = out1 ++ R := by
    obtain ⟨R, hR⟩ := incr_prefix out1 d2 out2 d2' h2
    exact ⟨R, hR.symm⟩
  have e1 : out2 = bodyOf [] d1 ++ (writeXrefTable (xmapOf [] d1) (d1.maxId + 1) ++ (TRAILER_KW ++
      (writeObj (.dict d1'.trailer) ++ (10 :: ([115, 116, 97, 114, 116, 120, 114, 101, 102, 10]
        ++ natDigits (bodyOf [] d1).length ++ EOF_KW ++ R))))) := by
    rw [hR, hout1, htr1]
    simp [STARTXREF_KW]
  obtain ⟨table1, hxt1, hget1, hnodup1⟩ := xrefAndTrailer_table (xmapOf [] d1) (d1.maxId + 1) d1'.trailer
    (10 :: ([115, 116, 97, 114, 116, 120, 114, 101, 102, 10] ++ natDigits (bodyOf [] d1).length ++ EOF_KW ++ R))
    (xmapOf_ok [] d1 hwf1.gens) hmax1 (hD1 _) (by rw [htr1, Dict.get_set_same]; simp)
  have hb1' := body_le_out [] d1 out1 d1' h1
  have hlen1 : out1.length ≤ out2.length := by rw [hR]; simp only [List.length_append]; omega
  have hb1 : (bodyOf [] d1).length ≤ out2.length := by
    rw [hR]; simp only [List.length_append]; omega
  have k1 : ¬ SIZE = PREV := by decide
  have k2 : ¬ SIZE = XREFSTM := by decide
  have k3 : ¬ PREV = XREFSTM := by decide
  have k4 : ¬ SIZE = ENCRYPT := by decide
  have k5 : ¬ PREV = ENCRYPT := by decide
  have hnd2' : d2'.trailer.keys.Nodup := by rw [htr2]; exact Dict_nodup_set _ _ _ hnd
  have hp2 : d2'.trailer.get PREV = some (.int ((bodyOf [] d1).length : Int)) := by
    rw [htr2, Dict_get_set]; simp only [k1, if_false]; exact hprev
  have hp1 : d1'.trailer.get PREV = none := by
    rw [htr1, Dict_get_set]; simp only [k1, if_false]; exact hnoprev
  have hstm' : (d2'.trailer.remove PREV).get XREFSTM = none := by
    rw [Dict_get_remove _ _ _ hnd2', htr2, Dict_get_set]
    simp only [k3, k2, if_false]; exact hstm
  have henc' : (d2'.trailer.remove PREV).has ENCRYPT = false := by
    rw [Dict_has_eq, Dict_get_remove _ _ _ hnd2', htr2, Dict_get_set]
    simp only [k5, k4, if_false]
    rw [← Dict_has_eq]; exact henc
  have hchain : ChainOk out2 (d2'.trailer.get PREV) []
      [(((bodyOf [] d1).length : Int), table1, d1'.trailer)] := by
    rw [hp2]
    refine ⟨rfl, by simp, by omega, by simpa using hb1, ⟨d1.maxId + 1, ?_⟩, ?_⟩
    · rw [Int.toNat_natCast]
      have hd := congrArg (List.drop (bodyOf [] d1).length) e1
      rw [List.drop_left] at hd
      rw [hd]; exact hxt1
    · simp [ChainOk, hp1]
  obtain ⟨hpl, hlw⟩ := prevLoop_chain out2 (d2'.trailer.remove PREV) hstm' _ _ [] table2 hchain
  simp only [List.map_cons, List.map_nil, mergeChain, List.foldl_cons, List.foldl_nil] at hpl hlw
  -- the merged table
  have hmnodup : ((table2.merge table1).map (·.1)).Nodup := XTable_merge_nodup table1 table2 hnodup2
  have hmget : ∀ n, (table2.merge table1).get n = (table2.get n).orElse (fun _ => table1.get n) := by
    intro n
    rw [hlw n]
    simp only [List.findSome?_cons, List.findSome?_nil]
    cases table2.get n with
    | some v => simp
    | none => cases table1.get n <;> simp
  have hkeys : ∀ p ∈ table2.merge table1, p.1 ≤ max d1.maxId d2.maxId := by
    intro p hp
    have hs := XTable_mem_get _ p.1 p.2 hp
    rw [hmget p.1, hget2 p.1, hget1 p.1] at hs
    by_cases c2 : 1 ≤ p.1 ∧ p.1 < d2.maxId + 1
    · omega
    · by_cases c1 : 1 ≤ p.1 ∧ p.1 < d1.maxId + 1
      · omega
      · simp [c1, c2] at hs
  -- header of the two-revision file = header of the first revision
  obtain ⟨R1, hR1⟩ := saveFrom_header d1 out1 d1' h1
  have hhdr : out2 = PDF_KW ++ (d1.version ++ 10 :: 37 :: (d1.binaryMark ++ 10 :: (R1 ++ R))) := by
    rw [hR, hR1]; simp
  have hload := load_front_chain arr arr2 out2 d1.version d1.binaryMark (R1 ++ R) hhdr hv1 hv2
    (saveFrom_mark [] d1 out1 d1' h1) xs hstart hxs table2 (d2.maxId + 1) d2'.trailer hxt2
    (table2.merge table1) (d2'.trailer.remove PREV) hpl
    (by have := XTable_maxId_le _ _ hkeys; simp only [U32]; omega) henc'
  -- where the objects stand
  have hb2 := body_le_out (incrPre out1) d2 out2 d2' h2'
  have hrec2 : Recorded out2 (xmapOf (incrPre out1) d2) d2.objects := by
    have := writeObjects_recorded d2.objects d2.objects (hdrOf (incrPre out1) d2) []
      (by intro n off g hg; simp [XrefMap.get] at hg)
      (fun p hp => Objects_get_of_mem d2.objects hwf2.nodup p hp)
      (by unfold bodyOf at hb2; omega)
    rw [hout2]
    simp only [List.append_assoc]
    exact Recorded_append _ _ _ _ this
  have hrec1 : Recorded out2 (xmapOf [] d1) d1.objects := by
    have := writeObjects_recorded d1.objects d1.objects (hdrOf [] d1) []
      (by intro n off g hg; simp [XrefMap.get] at hg)
      (fun p hp => Objects_get_of_mem d1.objects hwf1.nodup p hp)
      (by unfold bodyOf at hb1'; omega)
    rw [e1]
    exact Recorded_append _ _ _ _ this
  -- entries of the merged table
  have hentry : ∀ k v, (k, v) ∈ table2.merge table1 → ∃ off g, v = .normal off g ∧
      (((xmapOf (incrPre out1) d2).get k = some (off, g) ∧ 1 ≤ k ∧ k < d2.maxId + 1) ∨
       (table2.get k = none ∧ (xmapOf [] d1).get k = some (off, g))) := by
    intro k v hm
    have hg := XTable_get_of_mem _ hmnodup k v hm
    rw [hmget k] at hg
    cases h2g : table2.get k with
    | some v2 =>
      rw [h2g] at hg
      simp only [Option.orElse_some] at hg
      injection hg with hg
      subst hg
      rw [hget2 k] at h2g
      split at h2g
      · rename_i hr
        simp only [normalOf] at h2g
        cases hx : (xmapOf (incrPre out1) d2).get k with
        | none => simp [hx] at h2g
        | some p =>
          obtain ⟨a, b⟩ := p
          simp [hx] at h2g
          exact ⟨a, b, h2g.symm, Or.inl ⟨rfl, hr.1, hr.2⟩⟩
      · cases h2g
    | none =>
      rw [h2g] at hg
      simp only [Option.orElse_none] at hg
      rw [hget1 k] at hg
      split at hg
      · simp only [normalOf] at hg
        cases hx : (xmapOf [] d1).get k with
        | none => simp [hx] at hg
        | some p =>
          obtain ⟨a, b⟩ := p
          simp [hx] at hg
          exact ⟨a, b, hg.symm, Or.inr ⟨rfl, rfl⟩⟩
      · cases hg
  -- an object of the new revision is in the new table
  have hnew : ∀ id o, d2.objects.get id = some o → ∃ off, table2.get id.1 = some (.normal off id.2) := by
    intro id o hd
    have hm := Objects_mem_of_get d2.objects id o hd
    obtain ⟨off, hx⟩ := writeObjects_complete d2.objects (hdrOf (incrPre out1) d2) [] hwf2.nodup (id, o) hm
      (hwf2.kept _ hm)
    obtain ⟨hr1, hr2⟩ := hwf2.range _ hm
    simp only at hx hr1 hr2
    refine ⟨off, ?_⟩
    rw [hget2 id.1]
    have : 1 ≤ id.1 ∧ id.1 < d2.maxId + 1 := by omega
    simp only [this, and_self, if_true, normalOf]
    have hx' : (xmapOf (incrPre out1) d2).get id.1 = some (off, id.2) := hx
    rw [hx']; rfl
  have hold : ∀ id o, d1.objects.get id = some o → ∃ off, table1.get id.1 = some (.normal off id.2) := by
    intro id o hd
    have hm := Objects_mem_of_get d1.objects id o hd
    obtain ⟨off, hx⟩ := writeObjects_complete d1.objects (hdrOf [] d1) [] hwf1.nodup (id, o) hm (hwf1.kept _ hm)
    obtain ⟨hr1, hr2⟩ := hwf1.range _ hm
    simp only at hx hr1 hr2
    refine ⟨off, ?_⟩
    rw [hget1 id.1]
    have : 1 ≤ id.1 ∧ id.1 < d1.maxId + 1 := by omega
    simp only [this, and_self, if_true, normalOf]
    have hx' : (xmapOf [] d1).get id.1 = some (off, id.2) := hx
    rw [hx']; rfl
  -- all objects, newest first
  have hall : ∀ id, (d2.objects ++ d1.objects).get id = (d2.objects.get id).orElse (fun _ => d1.objects.get id) :=
    fun id => by
      induction d2.objects with
      | nil => simp [Objects.get]
      | cons p rest ih => obtain ⟨i, o⟩ := p; by_cases hi : i = id <;> simp [Objects.get, hi, ih]
  have hgood : ∀ e ∈ (table2.merge table1).sorted,
      EntryGood out2 (table2.merge table1) (table2.merge table1).sorted.length (d2.objects ++ d1.objects) e := by
    intro e he
    obtain ⟨k, v⟩ := e
    rw [mem_sorted _ hmnodup] at he
    obtain ⟨off, g, hv, hcase⟩ := hentry k v he
    rcases hcase with ⟨hx, _, _⟩ | ⟨hnone, hx⟩
    · obtain ⟨hoff, o, hog, hkept, hat⟩ := hrec2 k off g hx
      obtain ⟨rest, hrest⟩ := hat
      refine ⟨off, g, o, hv, hoff, by rw [hall, hog]; rfl, hkept, ?_⟩
      rw [← hrest]
      exact hobj2 ((k, g), o) (Objects_mem_of_get d2.objects (k, g) o hog) _ _ _
    · obtain ⟨hoff, o, hog, hkept, hat⟩ := hrec1 k off g hx
      obtain ⟨rest, hrest⟩ := hat
      have hno2 : d2.objects.get (k, g) = none := by
        cases hd : d2.objects.get (k, g) with
        | none => rfl
        | some o2 =>
          obtain ⟨off2, ht⟩ := hnew (k, g) o2 hd
          simp only at ht
          rw [hnone] at ht; cases ht
      refine ⟨off, g, o, hv, hoff, by rw [hall, hno2]; exact hog, hkept, ?_⟩
      rw [← hrest]
      exact hobj1 ((k, g), o) (Objects_mem_of_get d1.objects (k, g) o hog) _ _ _
  obtain ⟨L, hL, l1, l2, l3, _, _, l6, _⟩ := objectPass_good arr arr2 harr harr2 out2 d1.version d1.binaryMark
    (table2.merge table1) (d2'.trailer.remove PREV) xs (d2.objects ++ d1.objects) hgood
  refine ⟨L, by rw [hload]; exact hL, l1, l2, l3, ?_⟩
  intro id
  rw [l6 id, ← hall id]
  by_cases hany : (table2.merge table1).sorted.any (entryIs id) = true
  · simp only [hany, if_true]
    rw [List.any_eq_true] at hany
    obtain ⟨e, he, hid⟩ := hany
    have hg := hgood e he
    obtain ⟨k, v⟩ := e
    obtain ⟨off, g, o, hv, _, hog, _, _⟩ := hg
    simp only at hv hog
    subst hv
    simp only [entryIs, Bool.and_eq_true, beq_iff_eq] at hid
    have : id = (k, g) := Prod.ext hid.1.symm hid.2.symm
    subst this
    rw [hog]; rfl
  · simp only [hany, Bool.false_eq_true, if_false]
    cases hd : (d2.objects ++ d1.objects).get id with
    | none => rfl
    | some o =>
      exfalso
      apply hany
      rw [hall id] at hd
      have hex : ∃ off, (table2.merge table1).get id.1 = some (.normal off id.2) := by
        cases hd2 : d2.objects.get id with
        | some o2 =>
          obtain ⟨off, ht⟩ := hnew id o2 hd2
          exact ⟨off, by rw [hmget, ht]; rfl⟩
        | none =>
          rw [hd2] at hd
          simp only [Option.orElse_none] at hd
          obtain ⟨off, ht⟩ := hold id o hd
          -- the new revision either does not define the number or defines it with the same generation
          cases ht2 : table2.get id.1 with
          | none => exact ⟨off, by rw [hmget, ht2, ht]; rfl⟩
          | some v2 =>
            have hm2 := XTable_mem_of_get table2 _ _ ht2
            have hg2' := ht2
            rw [hget2 id.1] at hg2'
            split at hg2'
            · simp only [normalOf] at hg2'
              cases hx : (xmapOf (incrPre out1) d2).get id.1 with
              | none => simp [hx] at hg2'
              | some p =>
                obtain ⟨a, b⟩ := p
                simp [hx] at hg2'
                obtain ⟨_, o2, hog2, _, _⟩ := hrec2 id.1 a b hx
                have hm2o := Objects_mem_of_get d2.objects _ o2 hog2
                have hm1o := Objects_mem_of_get d1.objects id o hd
                have := hgen _ hm2o _ hm1o rfl
                simp only at this
                refine ⟨a, ?_⟩
                rw [hmget, ht2, ← hg2', this]; rfl
            · cases hg2'
      obtain ⟨off, hg⟩ := hex
      rw [List.any_eq_true]
      refine ⟨(id.1, .normal off id.2), ?_, by simp [entryIs]⟩
      rw [mem_sorted _ hmnodup]
      exact XTable_mem_of_get _ _ _ hg

end Lopdf.FileRT
