import LopdfModel.Model.ReadG
/-
  The generic reader instantiated with the plain structural-stream decoders IS the reader of
  Model/Read.lean: every theorem about `loadDocWith` / `loadDocOrd2` / `loadDoc` (C01, C02, C03,
  C04, C07, C08) is a theorem about the code of `loadDocWithG`, which the driver runs with
  `flateDec` against lopdf on every generated file.
-/
namespace Lopdf
open Gen

theorem xrefStreamAltG_plain (inp : Bytes) : xrefStreamAltG plainDec inp = xrefAndTrailer.xrefStreamAlt inp := by
  unfold xrefStreamAltG xrefAndTrailer.xrefStreamAlt plainDec
  rfl

theorem xrefAndTrailerG_plain (inp : Bytes) : xrefAndTrailerG plainDec inp = xrefAndTrailer inp := by
  unfold xrefAndTrailerG xrefAndTrailer
  simp only [xrefStreamAltG_plain]
  rfl

theorem hybridMergeG_plain (buf : Bytes) (x1 : XTable) (stm : Option Obj) :
    hybridMergeG plainDec buf x1 stm = hybridMerge buf x1 stm := by
  unfold hybridMergeG hybridMerge
  simp only [xrefAndTrailerG_plain]
  rfl

theorem prevLoopG_plain (buf : Bytes) : ∀ (fuel : Nat) (prevObj : Option Obj) (seen : List Int) (x : XTable) (tr : Dict),
    prevLoopG plainDec buf fuel prevObj seen x tr = prevLoop buf fuel prevObj seen x tr := by
  intro fuel
  induction fuel with
  | zero => intro _ _ _ _; rfl
  | succ n ih =>
    intro prevObj seen x tr
    unfold prevLoopG prevLoop
    simp only [xrefAndTrailerG_plain, hybridMergeG_plain, ih]
    rfl

theorem loadStepG_plain (buf : Bytes) (x : XTable) (n : Nat) (acc : Outcome (LObjects × List Block)) (e : Nat × XEntry) :
    loadStepG plainDec buf x n acc e = loadStep buf x n acc e := by
  unfold loadStepG loadStep
  cases acc with
  | ok p =>
    obtain ⟨os, fromStm⟩ := p
    simp only
    cases e.2 with
    | normal off g =>
      simp only
      split
      · rfl
      · cases hp : pIndirect (lengthOf buf x (n + 1) []) none off (List.drop off buf) with
        | none => rfl
        | some r =>
          obtain ⟨id, lo⟩ := r
          simp only
          cases lo with
          | pending d s =>
            simp only
            split
            · simp only [plainDec]
              by_cases hf : d.has FILTER = true
              · simp only [hf, if_true]
              · simp only [hf, Bool.false_eq_true, if_false]
            · rfl
          | plain o =>
            cases o with
            | stream d c =>
              simp only
              split
              · simp only [plainDec]
                cases ho : objStmObjects d c with
                | ok l => rfl
                | err s =>
                  by_cases hs : s = "ext"
                  · subst hs; rfl
                  · simp only
                | panic s => rfl
              · rfl
            | _ => rfl
    | compressed a b => rfl
  | err s => rfl
  | panic s => rfl

theorem loadStepG_plain_fun (buf : Bytes) (x : XTable) (n : Nat) :
    loadStepG plainDec buf x n = loadStep buf x n := by
  funext acc e
  exact loadStepG_plain buf x n acc e

/-- **The generic reader with the plain decoders is `Reader::read`'s model.** -/
theorem loadDocWithG_plain (arr : List Block → List Block) (arr2 : List ObjId → List ObjId) (file : Bytes) :
    loadDocWithG plainDec arr arr2 file = loadDocWith arr arr2 file := by
  unfold loadDocWithG loadDocWith
  simp only [xrefAndTrailerG_plain, prevLoopG_plain, loadStepG_plain_fun]
  rfl

end Lopdf
