import LopdfModel.Thm.C02FileObjStm
import LopdfModel.Thm.C02FileStmExample
/-
  Non-vacuity of `loadDoc_complete_objstm`: a concrete file with an object stream.
    %PDF-1.5 LF
    2 0 obj LF <</Type/ObjStm/N 1/First 4/Length 6>> LF stream LF 1 0 /A LF endstream LF endobj LF     (offset 9)
    3 0 obj LF <</Size 4/W[1 1 1]/Index[1 3]/Length 9>> LF stream LF 02 02 00 01 09 00 01 56 00 LF endstream LF endobj LF (offset 86)
    startxref LF 86 LF %%EOF
  Object 1 is a member of the object stream 2 (`/A`); 2 and 3 are ordinary type-1 entries.
-/
namespace Lopdf.Grammar
open Lopdf Gen

def kType : Bytes := [84, 121, 112, 101]
def kFirst : Bytes := [70, 105, 114, 115, 116]
def nObjStm : Bytes := [79, 98, 106, 83, 116, 109]

/-! #### the object stream -/

def oContent : Bytes := ([] ++ ([49] ++ [32] ++ ([48] ++ [32] ++ []))) ++ ([] ++ ((47 :: [65]) ++ [] ++ []))

theorem oContent_derives : DerivesObjStm [(1, .name [65])] 4 oContent :=
  .mk 0 [1] [(.name [65], 0)] [] _ [] _ (by decide) rfl (by intro b hb; simp at hb) .nil
    (.cons 1 [0] [49] [32] _ (.one 49 (by decide)) (by decide) (by intro b hb; simp at hb; subst hb; decide) (by simp)
      (.cons 0 [] [48] [32] [] (.one 48 (by decide)) (by decide) (by intro b hb; simp at hb; subst hb; decide) (by simp) .nil))
    (.cons 0 0 (.name [65]) [] (47 :: [65]) [] [] (.name 0 [65] [65] (.raw 65 _ _ (by decide) (by decide) .nil)) .nil
      (.nil 0 _) (fun _ b r e => by cases e))
    (by decide)

def oEntries : List (Bytes × Obj) :=
  [(kType, .name nObjStm), ([78], .int 1), (kFirst, .int 4), (kLength, .int 6)]

def oEbs : Bytes :=
  47 :: kType ++ [] ++ (47 :: nObjStm) ++ [] ++
   (47 :: [78] ++ [32] ++ [49] ++ [] ++
    (47 :: kFirst ++ [32] ++ [52] ++ [] ++
     (47 :: kLength ++ [32] ++ [54] ++ [] ++ [])))

theorem oEntries_derive : DerivesEntries 0 oEntries oEbs :=
  .cons 0 kType kType _ _ [] (47 :: nObjStm) [] _ (rawName kType (by decide)) .nil
    (by intro b r e; injection e with e _; subst e; decide)
    (.name 0 nObjStm nObjStm (rawName nObjStm (by decide))) .nil
    (.cons 0 [78] [78] _ _ [32] [49] [] _ (rawName [78] (by decide)) (.ws 32 _ (by decide) .nil) (stopHead_sp _)
      (digitObj 0 1 49 (by decide) (by decide)) .nil
      (.cons 0 kFirst kFirst _ _ [32] [52] [] _ (rawName kFirst (by decide)) (.ws 32 _ (by decide) .nil) (stopHead_sp _)
        (digitObj 0 4 52 (by decide) (by decide)) .nil
        (.cons 0 kLength kLength _ _ [32] [54] [] _ (rawName kLength (by decide)) (.ws 32 _ (by decide) .nil)
          (stopHead_sp _) (digitObj 0 6 54 (by decide) (by decide)) .nil (.nil 0))))

def oDict : Dict := setEntries [] oEntries

def oObj : Bytes :=
  [50] ++ ([32] ++ ([48] ++ ([32] ++ ([111, 98, 106] ++ ([10] ++
    (streamSpelling [] oEbs [10] [] [10] oContent [10] ++ ([10] ++ [101, 110, 100, 111, 98, 106])))))))

theorem oObj_derives : DerivesIndirect (2, 0) (.stream oDict oContent) oObj :=
  .stream 0 2 0 oEntries [50] [32] [48] [32] [10] [] oEbs [10] [] [10] oContent [10] [10]
    (.one 50 (by decide)) (by decide) ⟨.ws 32 _ (by decide) .nil, by simp⟩ (.one 48 (by decide)) (by decide)
    ⟨.ws 32 _ (by decide) .nil, by simp⟩ (.ws 10 _ (by decide) .nil) .nil oEntries_derive (by decide)
    (.ws 10 _ (by decide) .nil) (by intro b hb; simp at hb) .lf rfl (.some _ .lf) (.ws 10 _ (by decide) .nil)

/-! #### the cross-reference stream -/

def xSubs : List SSub := [(1, [(2, 2, 0), (1, 9, 0), (1, 86, 0)])]

def xEntries : List (Bytes × Obj) :=
  [(kSize, .int 4), ([87], .arr [.int 1, .int 1, .int 1]), (kIndex, .arr [.int 1, .int 3]), (kLength, .int 9)]

def xEbs : Bytes :=
  47 :: kSize ++ [32] ++ [52] ++ [] ++
   (47 :: [87] ++ [] ++ (91 :: [] ++ ([49] ++ [32] ++ ([49] ++ [32] ++ ([49] ++ [] ++ []))) ++ [93]) ++ [] ++
    (47 :: kIndex ++ [] ++ (91 :: [] ++ ([49] ++ [32] ++ ([51] ++ [] ++ [])) ++ [93]) ++ [] ++
     (47 :: kLength ++ [32] ++ [57] ++ [] ++ [])))

theorem xEntries_derive : DerivesEntries 1 xEntries xEbs :=
  .cons 1 kSize kSize _ _ [32] [52] [] _ (rawName kSize (by decide)) (.ws 32 _ (by decide) .nil) (stopHead_sp _)
    (digitObj 1 4 52 (by decide) (by decide)) .nil
    (.cons 1 [87] [87] _ _ [] _ [] _ (rawName [87] (by decide)) .nil
      (by intro b r e; injection e with e _; subst e; decide)
      (.arr 0 _ [] _ .nil (spItem _ _ _ _ (digitObj 0 1 49 (by decide) (by decide))
        (spItem _ _ _ _ (digitObj 0 1 49 (by decide) (by decide)) (lastItem _ _ (digitObj 0 1 49 (by decide) (by decide))))))
      .nil
      (.cons 1 kIndex kIndex _ _ [] _ [] _ (rawName kIndex (by decide)) .nil
        (by intro b r e; injection e with e _; subst e; decide)
        (.arr 0 _ [] _ .nil (spItem _ _ _ _ (digitObj 0 1 49 (by decide) (by decide))
          (lastItem _ _ (digitObj 0 3 51 (by decide) (by decide)))))
        .nil
        (.cons 1 kLength kLength _ _ [32] [57] [] _ (rawName kLength (by decide)) (.ws 32 _ (by decide) .nil)
          (stopHead_sp _) (digitObj 1 9 57 (by decide) (by decide)) .nil (.nil 1))))

def xDict : Dict := setEntries [] xEntries
def xData : Bytes := encodeSubs 1 1 1 xSubs

def xObj : Bytes :=
  [51] ++ ([32] ++ ([48] ++ ([32] ++ ([111, 98, 106] ++ ([10] ++
    (streamSpelling [] xEbs [10] [] [10] xData [10] ++ ([10] ++ [101, 110, 100, 111, 98, 106])))))))

theorem xObj_derives : DerivesIndirect (3, 0) (.stream xDict xData) xObj :=
  .stream 1 3 0 xEntries [51] [32] [48] [32] [10] [] xEbs [10] [] [10] xData [10] [10]
    (.one 51 (by decide)) (by decide) ⟨.ws 32 _ (by decide) .nil, by simp⟩ (.one 48 (by decide)) (by decide)
    ⟨.ws 32 _ (by decide) .nil, by simp⟩ (.ws 10 _ (by decide) .nil) .nil xEntries_derive (by decide)
    (.ws 10 _ (by decide) .nil) (by intro b hb; simp at hb) .lf rfl (.some _ .lf) (.ws 10 _ (by decide) .nil)

def xAfter : Bytes := [10] ++ (STARTXREF ++ ([10] ++ ([] ++ ([56, 54] ++ ([] ++ ([10] ++ (EOF_MARK ++ [])))))))
def oBody : Bytes := oObj ++ [10]
def oFile : Bytes := (PDF_KW ++ (sVer ++ ([10] ++ oBody))) ++ (xObj ++ xAfter)

def oVal : Nat → Nat × Obj := fun k => if k = 2 then (0, .stream oDict oContent) else (0, .stream xDict xData)
def oCont : Nat → List (Nat × Obj) := fun k => if k = 2 then [(1, .name [65])] else []

set_option maxRecDepth 20000 in
/-- the concrete file loads: object 1 is the member `/A` of the object stream 2; 2 and 3 are the
two streams; nothing else -/
theorem oFile_loads : ∃ L, loadDoc oFile = .ok L ∧ L.version = sVer ∧ L.xrefStart = 86 ∧
    L.objects.get (1, 0) = some (.name [65]) ∧ L.objects.get (2, 0) = some (.stream oDict oContent) ∧
    L.objects.get (3, 0) = some (.stream xDict xData) ∧ L.objects.get (1, 1) = none ∧ L.objects.get (4, 0) = none := by
  have htab : streamTableOf xSubs = [(1, .compressed 2 0), (2, .normal 9 0), (3, .normal 86 0)] := by decide
  obtain ⟨L, h1, h2, _, h4, _, h6⟩ := loadDoc_complete_objstm sVer [10] oBody xDict 4 1 1 1 xSubs [10] [10] []
    [56, 54] [] [10] [] oVal oCont
    (by intro b hb; simp [sVer] at hb; rcases hb with rfl | rfl | rfl <;> decide) .lf xObj_derives
    rfl rfl rfl (Or.inl rfl) (by unfold SubsOk xSubs RowOk; decide) (by decide) (by decide) rfl rfl
    .lf (by intro b hb; simp at hb)
    (derivesNat_lit _ [56, 54] 1 rfl (by unfold AllDigits; decide) (by decide)) (by intro b hb; simp at hb) .lf .none
    (by decide) (by rw [htab]; decide) oFile rfl
    (by
      intro k e hke
      rw [htab] at hke
      simp only [XTable.get] at hke
      split at hke
      · injection hke with hke; subst hke; trivial
      · split at hke
        · rename_i hk; subst hk; injection hke with hke; subst hke
          refine ⟨rfl, Or.inr (Or.inl ⟨oDict, oContent, rfl, by decide, [], oObj, [10] ++ (xObj ++ xAfter), 4, 1, by decide, .nil,
            oObj_derives, rfl, rfl, rfl, rfl, oContent_derives, by simp [oCont], by simp [oCont]⟩)⟩
        · split at hke
          · rename_i hk; subst hk; injection hke with hke; subst hke
            refine ⟨rfl, Or.inl ⟨⟨by decide, [], xObj, xAfter, by decide, .nil, xObj_derives, ?_⟩, rfl⟩⟩
            intro d c h; injection h with h _; subst h
            have : xDict.get [84, 121, 112, 101] = none := rfl
            rw [this]; intro h'; cases h'
          · cases hke)
    (by
      intro k hk
      simp only [oCont]
      split
      · rename_i h2; subst h2; exact absurd (by rw [htab]; rfl) (hk 9 0)
      · rfl)
    (by
      intro k p hp
      simp only [oCont] at hp
      split at hp
      · rename_i h2; subst h2; simp at hp; subst hp; exact ⟨0, by rw [htab]; rfl⟩
      · simp at hp)
  refine ⟨L, h1, h2, h4, ?_, ?_, ?_, ?_, ?_⟩ <;> rw [h6, definedObject, htab] <;> rfl

end Lopdf.Grammar
