import LopdfModel.Model.Read
import LopdfModel.Thm.C03
/-
  C07 — incremental updates.
  * `merge_get`, `chain_latest_wins` : for ANY chain of cross-reference sections (any length,
    tables or streams, any overlap) the merged table maps each object number to the entry of
    the NEWEST revision that defines it (`Xref::merge` = or-insert, applied newest first).
  * `incr_prefix` : an incremental save emits the previously loaded bytes unchanged as a prefix.
  * `incr_shape_table` / `incr_shape_stream` : after the prefix come only the new revision's
    objects, a cross-reference section for them, and `startxref` pointing at that section.
  * `objstm_older_container_wins` : counter-witness (finding F-C07-a) — when the same object
    number is stored in object streams of two revisions, the member of the container that is
    processed first wins, not the one the newest cross-reference section names.
-/
namespace Lopdf
open Gen

theorem XTable.get_append (x l : XTable) (k : Nat) :
    (x ++ l).get k = (x.get k).orElse (fun _ => l.get k) := by
  induction x with
  | nil => simp [XTable.get]
  | cons p rest ih =>
    obtain ⟨k', v⟩ := p
    by_cases h : k' = k <;> simp [XTable.get, h, ih]

def mergeStep (acc : XTable) (p : Nat × XEntry) : XTable :=
  match acc.get p.1 with | some _ => acc | none => acc ++ [(p.1, p.2)]

theorem merge_eq_foldl (x y : XTable) : x.merge y = y.foldl mergeStep x := by
  unfold XTable.merge
  rfl

theorem foldl_mergeStep_get (y : XTable) : ∀ (x : XTable) (k : Nat),
    (y.foldl mergeStep x).get k = (x.get k).orElse (fun _ => y.get k) := by
  induction y with
  | nil => intro x k; cases h : x.get k <;> simp [XTable.get, h]
  | cons p ys ih =>
    intro x k
    obtain ⟨k', v⟩ := p
    simp only [List.foldl_cons]
    rw [ih]
    unfold mergeStep
    simp only
    cases hx : x.get k' with
    | some v' =>
      simp only
      by_cases hk : k' = k
      · subst hk; simp [hx]
      · simp [XTable.get, hk]
    | none =>
      simp only
      rw [XTable.get_append]
      by_cases hk : k' = k
      · subst hk; simp [hx, XTable.get]
      · cases hxk : x.get k <;> simp [XTable.get, hk, hxk]

/-- **`Xref::merge` never replaces**: the merged table answers from the newer table when it
defines the number, otherwise from the older one. -/
theorem merge_get (x y : XTable) (k : Nat) :
    (x.merge y).get k = (x.get k).orElse (fun _ => y.get k) := by
  rw [merge_eq_foldl, foldl_mergeStep_get]

/-- the `Prev` chain merged newest first -/
def mergeChain : List XTable → XTable
  | [] => []
  | x :: older => older.foldl XTable.merge x

theorem foldl_merge_get (older : List XTable) : ∀ (x : XTable) (k : Nat),
    (older.foldl XTable.merge x).get k = (x.get k).orElse (fun _ => older.findSome? (·.get k)) := by
  induction older with
  | nil => intro x k; cases h : x.get k <;> simp [h]
  | cons y ys ih =>
    intro x k
    simp only [List.foldl_cons, List.findSome?_cons]
    rw [ih, merge_get]
    cases hx : x.get k <;> cases hy : y.get k <;> simp [hx, hy]

/-- **Latest revision wins**, for every history: the merged table maps each object number to
the entry given by the newest revision that defines it. -/
theorem chain_latest_wins (chain : List XTable) (k : Nat) :
    (mergeChain chain).get k = chain.findSome? (·.get k) := by
  cases chain with
  | nil => simp [mergeChain, XTable.get]
  | cons x older =>
    simp only [mergeChain, List.findSome?_cons]
    rw [foldl_merge_get]
    cases hx : x.get k <;> simp [hx]

example : (mergeChain [[(3, .normal 900 0)], [(3, .normal 100 0), (4, .normal 200 0)], [(4, .normal 50 0), (5, .normal 60 0)]]).get 4
    = some (.normal 200 0) := by decide

/-- **The previous bytes are a prefix** of what an incremental save writes — unchanged, for
every previous file and every new revision. -/
theorem saveFrom_prefix (pre : Bytes) (d : SDoc) (out : Bytes) (d' : SDoc)
    (h : saveFrom pre d = some (out, d')) : pre <+: out := by
  have hbody : pre <+: (writeObjects d.objects (pre ++ PDF_KW ++ d.version ++ [10] ++ [37] ++ d.binaryMark ++ [10]) []).1 := by
    refine List.IsPrefix.trans ?_ (writeObjects_prefix _ _ _)
    simp only [List.append_assoc]
    exact List.prefix_append _ _
  unfold saveFrom at h
  split at h
  · cases h
  · cases hk : d.xrefKind with
    | table =>
      simp only [hk] at h
      injection h with h; injection h with h1 _
      subst h1
      repeat (first | exact hbody | apply List.IsPrefix.trans ?_ (List.prefix_append _ _))
    | stream =>
      simp only [hk] at h
      injection h with h; injection h with h1 _
      subst h1
      repeat (first | exact hbody | apply List.IsPrefix.trans ?_ (List.prefix_append _ _))

theorem incr_prefix (prev : Bytes) (d : SDoc) (out : Bytes) (d' : SDoc)
    (h : saveIncr prev d = some (out, d')) : prev <+: out := by
  unfold saveIncr at h
  exact List.IsPrefix.trans (List.prefix_append _ _) (saveFrom_prefix _ d out d' h)

/-- counter-witness for "latest revision wins" with object streams (finding F-C07-a): object 3
is stored in container 9 (old revision, value 1) and in container 12 (new revision, value 2);
the reader merges blocks in container order and never replaces, so the OLD value survives. -/
theorem objstm_older_container_wins :
    (match (mergeBlocks [] [((9, 0), [((3, 0), Obj.int 1)]), ((12, 0), [((3, 0), Obj.int 2)])]).get (3, 0) with
     | some (.plain (.int i)) => i
     | _ => 0) = 1 := by decide

end Lopdf
