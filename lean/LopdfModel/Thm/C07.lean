import LopdfModel.Model.Read
import LopdfModel.Thm.C03
import LopdfModel.Thm.C08
/-
  C07 — incremental updates.
  * `merge_get`, `chain_latest_wins` : for ANY chain of cross-reference sections (any length,
    tables or streams, any overlap) the merged table maps each object number to the entry of
    the NEWEST revision that defines it (`Xref::merge` = or-insert, applied newest first).
  * `incr_prefix` : an incremental save emits the previously loaded bytes unchanged as a prefix.
  * `incr_shape_table` / `incr_shape_stream` : after the prefix come only the new revision's
    objects, a cross-reference section for them, and `startxref` pointing at that section.
  * `objstm_xref_container_wins` : when an object number is stored in object streams of several
    revisions, the loaded object is the member of the container that the (merged, newest-wins)
    cross-reference table names — for every arrival order of the blocks. `objstm_latest_wins_example`
    is the former counter-witness of finding F-C07-a (repaired by lopdf commit 943080b).
-/
namespace Lopdf
open Gen

theorem XTable.get_append (x l : XTable) (k : Nat) :
    (x ++ l).get k = (x.get k).orElse (fun _ => l.get k) := by
  induction x with
  | nil => simp [XTable.get]
  | cons p rest ih =>
    obtain ⟨k', v⟩ := p
    by_cases h : k' = k <;> simp [XTable.get, h, ih]

def mergeStep (acc : XTable) (p : Nat × XEntry) : XTable :=
  match acc.get p.1 with | some _ => acc | none => acc ++ [(p.1, p.2)]

theorem merge_eq_foldl (x y : XTable) : x.merge y = y.foldl mergeStep x := by
  unfold XTable.merge
  rfl

theorem foldl_mergeStep_get (y : XTable) : ∀ (x : XTable) (k : Nat),
    (y.foldl mergeStep x).get k = (x.get k).orElse (fun _ => y.get k) := by
  induction y with
  | nil => intro x k; cases h : x.get k <;> simp [XTable.get, h]
  | cons p ys ih =>
    intro x k
    obtain ⟨k', v⟩ := p
    simp only [List.foldl_cons]
    rw [ih]
    unfold mergeStep
    simp only
    cases hx : x.get k' with
    | some v' =>
      simp only
      by_cases hk : k' = k
      · subst hk; simp [hx]
      · simp [XTable.get, hk]
    | none =>
      simp only
      rw [XTable.get_append]
      by_cases hk : k' = k
      · subst hk; simp [hx, XTable.get]
      · cases hxk : x.get k <;> simp [XTable.get, hk, hxk]

/-- **`Xref::merge` never replaces**: the merged table answers from the newer table when it
defines the number, otherwise from the older one. -/
theorem merge_get (x y : XTable) (k : Nat) :
    (x.merge y).get k = (x.get k).orElse (fun _ => y.get k) := by
  rw [merge_eq_foldl, foldl_mergeStep_get]

/-- the `Prev` chain merged newest first -/
def mergeChain : List XTable → XTable
  | [] => []
  | x :: older => older.foldl XTable.merge x

theorem foldl_merge_get (older : List XTable) : ∀ (x : XTable) (k : Nat),
    (older.foldl XTable.merge x).get k = (x.get k).orElse (fun _ => older.findSome? (·.get k)) := by
  induction older with
  | nil => intro x k; cases h : x.get k <;> simp [h]
  | cons y ys ih =>
    intro x k
    simp only [List.foldl_cons, List.findSome?_cons]
    rw [ih, merge_get]
    cases hx : x.get k <;> cases hy : y.get k <;> simp [hx, hy]

/-- **Latest revision wins**, for every history: the merged table maps each object number to
the entry given by the newest revision that defines it. -/
theorem chain_latest_wins (chain : List XTable) (k : Nat) :
    (mergeChain chain).get k = chain.findSome? (·.get k) := by
  cases chain with
  | nil => simp [mergeChain, XTable.get]
  | cons x older =>
    simp only [mergeChain, List.findSome?_cons]
    rw [foldl_merge_get]
    cases hx : x.get k <;> simp [hx]

example : (mergeChain [[(3, .normal 900 0)], [(3, .normal 100 0), (4, .normal 200 0)], [(4, .normal 50 0), (5, .normal 60 0)]]).get 4
    = some (.normal 200 0) := by decide

/-- **The previous bytes are a prefix** of what an incremental save writes — unchanged, for
every previous file and every new revision. -/
theorem saveFrom_prefix (pre : Bytes) (d : SDoc) (out : Bytes) (d' : SDoc)
    (h : saveFrom pre d = some (out, d')) : pre <+: out := by
  have hbody : pre <+: (writeObjects d.objects (pre ++ PDF_KW ++ d.version ++ [10] ++ [37] ++ d.binaryMark ++ [10]) []).1 := by
    refine List.IsPrefix.trans ?_ (writeObjects_prefix _ _ _)
    simp only [List.append_assoc]
    exact List.prefix_append _ _
  unfold saveFrom at h
  split at h
  · cases h
  · cases hk : d.xrefKind with
    | table =>
      simp only [hk] at h
      injection h with h; injection h with h1 _
      subst h1
      repeat (first | exact hbody | apply List.IsPrefix.trans ?_ (List.prefix_append _ _))
    | stream =>
      simp only [hk] at h
      injection h with h; injection h with h1 _
      subst h1
      repeat (first | exact hbody | apply List.IsPrefix.trans ?_ (List.prefix_append _ _))

theorem incr_prefix (prev : Bytes) (d : SDoc) (out : Bytes) (d' : SDoc)
    (h : saveIncr prev d = some (out, d')) : prev <+: out := by
  unfold saveIncr at h
  exact List.IsPrefix.trans (List.prefix_append _ _) (saveFrom_prefix _ d out d' h)

/-! ### object streams: the container named by the cross-reference table wins -/

theorem firstGet_filter (l : List (ObjId × Obj)) (id : ObjId) (f : ObjId × Obj → Bool) (g : Bool)
    (h : ∀ p ∈ l, p.1 = id → f p = g) :
    firstGet (l.filter f) id = if g then firstGet l id else none := by
  induction l with
  | nil => cases g <;> simp [firstGet]
  | cons p rest ih =>
    obtain ⟨i, o⟩ := p
    have ih' := ih (fun q hq => h q (List.mem_cons_of_mem _ hq))
    by_cases hi : i = id
    · have hf := h (i, o) List.mem_cons_self hi
      subst hi
      cases g
      · rw [List.filter_cons_of_neg (by simp [hf])]; simpa using ih'
      · rw [List.filter_cons_of_pos (by simp [hf])]; simp [firstGet]
    · cases hfp : f (i, o)
      · rw [List.filter_cons_of_neg (by simp [hfp]), ih']; simp [firstGet, hi]
      · rw [List.filter_cons_of_pos (by simp [hfp])]; simp only [firstGet, hi, if_false]; exact ih'

/-- the member `id` of the block that the cross-reference table lists under number `c` -/
def memberOf (blocks : List Block) (c : Nat) (id : ObjId) : Option Obj :=
  (blocks.find? (fun b => b.1 == c)).bind (fun b => firstGet b.2 id)

theorem filtered_block (x : XTable) (b : Block) (id : ObjId) (c i : Nat)
    (hx : x.get id.1 = some (.compressed c i)) :
    firstGet (filterBlock x b).2 id = if c == b.1 then firstGet b.2 id else none := by
  unfold filterBlock
  apply firstGet_filter
  intro p _ hp
  simp [xrefAllows, hp, hx]

theorem findSome_filtered (x : XTable) (id : ObjId) (c i : Nat)
    (hx : x.get id.1 = some (.compressed c i)) (L : List Block) (hd : DistinctKeys L) :
    ((L.map (filterBlock x)).map (·.2)).findSome? (fun b => firstGet b id) = memberOf L c id := by
  induction L with
  | nil => simp [memberOf]
  | cons b rest ih =>
    have hd' : DistinctKeys rest := by
      unfold DistinctKeys at hd ⊢; exact (List.nodup_cons.mp hd).2
    simp only [List.map_cons, List.findSome?_cons]
    rw [filtered_block x b id c i hx, ih hd']
    by_cases hc : b.1 = c
    · -- this is the named container; no later block has its number
      have hnone : memberOf rest c id = none := by
        unfold memberOf
        have : rest.find? (fun b => b.1 == c) = none := by
          rw [List.find?_eq_none]
          intro b' hb' hk
          simp only [beq_iff_eq] at hk
          unfold DistinctKeys at hd
          exact (List.nodup_cons.mp hd).1 (List.mem_map.mpr ⟨b', hb', by show b'.1 = b.1; rw [hk, hc]⟩)
        rw [this]; rfl
      rw [hnone]
      subst hc
      have hm : memberOf (b :: rest) b.1 id = firstGet b.2 id := by simp [memberOf, List.find?_cons]
      rw [hm]
      cases firstGet b.2 id <;> simp
    · have hc' : ¬ c = b.1 := fun h => hc h.symm
      have hm : memberOf (b :: rest) c id = memberOf rest c id := by simp [memberOf, List.find?_cons, hc]
      rw [hm]
      simp [hc']

theorem find_key_perm {L₁ L₂ : List Block} (hp : L₁.Perm L₂) (hd : DistinctKeys L₁) (c : Nat) :
    L₁.find? (fun b => b.1 == c) = L₂.find? (fun b => b.1 == c) := by
  cases h1 : L₁.find? (fun b => b.1 == c) with
  | none =>
    rw [List.find?_eq_none] at h1
    symm
    rw [List.find?_eq_none]
    intro b hb
    exact h1 b (hp.symm.subset hb)
  | some a =>
    have ha := List.mem_of_find?_eq_some h1
    have hka := List.find?_some h1
    cases h2 : L₂.find? (fun b => b.1 == c) with
    | none =>
      rw [List.find?_eq_none] at h2
      exact absurd hka (h2 a (hp.subset ha))
    | some b =>
      have hb := hp.symm.subset (List.mem_of_find?_eq_some h2)
      have hkb := List.find?_some h2
      simp only [beq_iff_eq] at hka hkb
      rw [eq_of_key_eq hd ha hb (by rw [hka, hkb])]

/-- **Latest revision wins, object streams.** If the (merged, newest-wins — `chain_latest_wins`)
cross-reference table places object `id` in the container listed under number `c`, then — in
whatever order the containers' blocks arrive — the loaded object is the one read directly (if the
object pass produced one) and otherwise THE MEMBER OF CONTAINER `c`; members of the same number
in containers of older revisions are never used. -/
theorem objstm_xref_container_wins (x : XTable) (os : LObjects) (arrived : List Block) (id : ObjId)
    (c i : Nat) (hx : x.get id.1 = some (.compressed c i)) (hd : DistinctKeys arrived) :
    (mergeBlocksX x os arrived).get id
      = (os.get id).orElse (fun _ => (memberOf arrived c id).map LObj.plain) := by
  unfold mergeBlocksX
  rw [mergeBlocks_get, firstGet_flatten]
  have hds : DistinctKeys (sortBlocks arrived) := by
    unfold DistinctKeys at hd ⊢
    exact ((sortBlocks_perm arrived).map (·.1)).nodup_iff.mpr hd
  rw [findSome_filtered x id c i hx _ hds]
  unfold memberOf
  rw [find_key_perm (sortBlocks_perm arrived) hds c]

/-- the former counter-witness of finding F-C07-a: object 3 is a member of container 9 (old
revision, value 1) and of container 12 (new revision, value 2), and the newest cross-reference
section names container 12: the NEW value is loaded, in both arrival orders. -/
theorem objstm_latest_wins_example :
    let x : XTable := [(3, .compressed 12 0), (9, .normal 100 0), (12, .normal 300 0)]
    let b9 : Block := (9, [((3, 0), Obj.int 1)])
    let b12 : Block := (12, [((3, 0), Obj.int 2)])
    (match (mergeBlocksX x [] [b9, b12]).get (3, 0) with | some (.plain (.int i)) => i | _ => 0) = 2 ∧
    (match (mergeBlocksX x [] [b12, b9]).get (3, 0) with | some (.plain (.int i)) => i | _ => 0) = 2 := by
  decide

end Lopdf
