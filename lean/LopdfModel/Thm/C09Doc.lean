import LopdfModel.Lemmas.C09Doc
import LopdfModel.Thm.C09
/-
  C09 — `Stream::decompress`, `Document::compress`, `Document::decompress` as theorems
  (model: `decompress`, `docCompress`, `docDecompress` of Model/Filters.lean; helper lemmas Lemmas/C09Doc*.lean).
-/
namespace Lopdf
open Gen

/-- **`Stream::decompress`** on a stream with distinct keys, when it succeeds: no `Filter` and no `DecodeParms` entry
remains, the content is exactly the decoded content, the result is plain, `Length` is right. -/
theorem decompress_spec (ext : Ext) (s s' : Strm) (hn : s.dict.KeysNodup) (h : decompress ext s = .ok s') :
    s'.dict.get K_FILTER = none ∧ s'.dict.get K_DECODEPARMS = none ∧
    decompressedContent ext s = .ok s'.content ∧ getPlainContent ext s' = .ok s'.content ∧ LengthOk s' :=
  decompress_spec' ext s s' hn h

example : decompress toyExt toyPng = .ok ⟨[(K_LENGTH, .int 4)], [1, 2, 3, 4]⟩ ∧
    (⟨[(K_LENGTH, .int 4)], [1, 2, 3, 4]⟩ : Strm).dict.get K_FILTER = none := by
  constructor
  · have h : decompressedContent toyExt toyPng = .ok [1, 2, 3, 4] :=
      stream_png_rt toyExt (fun x => 0 :: x) (fun _ x => 1 :: x) (fun _ => rfl) (fun _ => by simp) (fun _ _ => rfl)
        toyPng .flate (by decide) wParms (Or.inl rfl) (Or.inr rfl) (by decide) (by decide) (by decide) (by decide)
        [(.up, [1, 2]), (.up, [3, 4])] (by decide) (by decide)
    simp only [decompress, h, Outcome.map]; rfl
  · rfl

/-- **`Stream::set_plain_content`**: afterwards no `Filter` / `DecodeParms` entry remains, the stream is plain with
the given content and `Length` is right. -/
theorem set_plain_content_spec (ext : Ext) (s : Strm) (c : Bytes) (hn : s.dict.KeysNodup) :
    (setPlainContent s c).dict.get K_FILTER = none ∧ (setPlainContent s c).dict.get K_DECODEPARMS = none ∧
    getPlainContent ext (setPlainContent s c) = .ok c ∧ LengthOk (setPlainContent s c) := by
  have hk : SET_PLAIN_KEYS.take 2 = [K_DECODEPARMS, K_FILTER] := by decide
  have hl : SET_PLAIN_KEYS.getD 2 [] = K_LENGTH := by decide
  have n1 : K_LENGTH ≠ K_FILTER := by decide
  have n2 : K_LENGTH ≠ K_DECODEPARMS := by decide
  have hF : (setPlainContent s c).dict.get K_FILTER = none := by
    simp only [setPlainContent, hk, hl, removeKeysSeq]
    rw [Dict.get_set_other_c09 _ _ _ _ n1]
    exact Dict.get_remove_same_c09 _ _ (Dict.keysNodup_remove_c09 _ _ hn)
  have hP : (setPlainContent s c).dict.get K_DECODEPARMS = none := by
    simp only [setPlainContent, hk, hl, removeKeysSeq]
    rw [Dict.get_set_other_c09 _ _ _ _ n2]
    exact Dict.get_remove_none_c09 _ _ _ (Dict.get_remove_same_c09 _ _ hn)
  refine ⟨hF, hP, ?_, (setPlainContent_length s c).1⟩
  simp only [getPlainContent, streamFilters, hF]
  exact congrArg Outcome.ok (setPlainContent_length s c).2

/-- decompressing never changes a stream's plain content (any `Filter`, the empty array included) -/
theorem decompress_keeps_plain (ext : Ext) (s : Strm) (hn : s.dict.KeysNodup) :
    getPlainContent ext (decompS ext s) = getPlainContent ext s := decompS_plain' ext s hn

/-- **compress then decompress** restores the plain content of every stream (flate2 hypotheses) -/
theorem compress_decompress_plain (ext : Ext) (deflate : Bytes → Bytes)
    (hfl : ∀ x, ext.inflate (deflate x) = x) (hne : ∀ x, deflate x ≠ [])
    (s : Strm) (hn : s.dict.KeysNodup) :
    getPlainContent ext (decompS ext (compress deflate s)) = getPlainContent ext s :=
  compress_decompress_plain' ext deflate hfl hne s hn

/-- **`Document::decompress`**, object by object: ids are kept; non-stream objects are untouched; a stream is either
untouched (it cannot be decoded) or has lost `Filter` and `DecodeParms`, holds exactly its decoded content and a right
`Length`. -/
theorem doc_decompress_spec (ext : Ext) (os : Objects) (id : ObjId) :
    (docDecompress ext os).map (·.1) = os.map (·.1) ∧
    Objects.get (docDecompress ext os) id = (Objects.get os id).map (decompObj ext) ∧
    (∀ o, (∀ d c, o ≠ .stream d c) → decompObj ext o = o) ∧
    (∀ (d : Dict) c, d.KeysNodup →
      decompObj ext (.stream d c) = .stream d c ∨
      ∃ s', decompObj ext (.stream d c) = .stream s'.dict s'.content ∧
        s'.dict.get K_FILTER = none ∧ s'.dict.get K_DECODEPARMS = none ∧
        decompressedContent ext ⟨d, c⟩ = .ok s'.content ∧ LengthOk s') :=
  docDecompress_spec' ext os id

/-- **`Document::compress` then `Document::decompress`**: every object keeps its id, non-streams are unchanged
(whatever their `allows_compression`), every stream keeps its plain content. -/
theorem doc_compress_decompress (ext : Ext) (deflate : Bytes → Bytes) (allows : ObjId → Bool)
    (hfl : ∀ x, ext.inflate (deflate x) = x) (hne : ∀ x, deflate x ≠ [])
    (os : Objects) (id : ObjId) :
    (docDecompress ext (docCompress deflate allows os)).map (·.1) = os.map (·.1) ∧
    Objects.get (docDecompress ext (docCompress deflate allows os)) id
      = (Objects.get os id).map (fun o => decompObj ext (compObj deflate (allows id) o)) ∧
    (∀ o allow, (∀ d c, o ≠ .stream d c) → decompObj ext (compObj deflate allow o) = o) ∧
    (∀ o allow, StreamOk o → plainOf ext (decompObj ext (compObj deflate allow o)) = plainOf ext o) :=
  doc_compress_decompress' ext deflate allows hfl hne os id

example : plainOf toyExt (decompObj toyExt (compObj (fun x => 0 :: x) true (.stream [(K_LENGTH, .int 3)] [1, 2, 3])))
    = some (.ok [1, 2, 3]) :=
  (doc_compress_decompress toyExt (fun x => 0 :: x) (fun _ => true) (fun _ => rfl) (fun _ => by simp) [] (1, 0)).2.2.2
    (.stream [(K_LENGTH, .int 3)] [1, 2, 3]) true (by unfold StreamOk Dict.KeysNodup; decide)

/-- regression of finding F-C09-d (repaired by lopdf 70e5e99): with the EMPTY filter array `decompressed_content`
is the content itself and `decompress` keeps it. (The guard `Filter ≠ []` of the theorems above is therefore no
longer necessary; it is kept because their proofs use it.) -/
theorem decompress_empty_filter_witness (ext : Ext) :
    getPlainContent ext ⟨[(K_FILTER, .arr [])], [1, 2, 3]⟩ = .ok [1, 2, 3] ∧
    (decompS ext ⟨[(K_FILTER, .arr [])], [1, 2, 3]⟩).content = [1, 2, 3] :=
  decompress_empty_filter_witness' ext

end Lopdf
