import LopdfModel.Thm.C08
import LopdfModel.Thm.ReadG
/-
  C08 for the reader with filtered structural streams (and the exact treatment of deferred
  object-stream containers) in the model: `loadDocWithG sd`, for EVERY structural-stream decoder
  `sd`, is independent of the order in which the object-stream blocks arrive and of the order in
  which the deferred streams are completed. Instances: `plainDec` (= `loadDocWith`,
  `load_schedule_independent`) and `flateDec` — the reader the driver runs against lopdf under
  every hook order and on thread pools of 1..16 threads.
-/
namespace Lopdf
open Gen

theorem loadStepG_shape (sd : StructDec) (buf : Bytes) (x : XTable) (n : Nat) (os : LObjects) (fs : List Block) (e : Nat × XEntry) :
    (∃ os2, loadStepG sd buf x n (.ok (os, fs)) e = .ok (os2, fs)) ∨
    (∃ os2 objs, loadStepG sd buf x n (.ok (os, fs)) e = .ok (os2, fs ++ [(e.1, objs)])) ∨
    (∀ p, loadStepG sd buf x n (.ok (os, fs)) e ≠ .ok p) := by
  simp only [loadStepG]
  repeat' split
  all_goals first
    | exact Or.inl ⟨_, rfl⟩
    | exact Or.inr (Or.inl ⟨_, _, rfl⟩)
    | exact Or.inr (Or.inr (fun p h => by cases h))

theorem loadStepG_notok (sd : StructDec) (buf : Bytes) (x : XTable) (n : Nat) (l : XTable)
    (acc : Outcome (LObjects × List Block)) (h : ∀ p, acc ≠ .ok p) :
    ∀ p, l.foldl (loadStepG sd buf x n) acc ≠ .ok p := by
  induction l generalizing acc with
  | nil => exact h
  | cons e rest ih =>
    simp only [List.foldl_cons]
    apply ih
    cases acc with
    | ok p => exact absurd rfl (h p)
    | err s => intro p hp; simp [loadStepG] at hp
    | panic s => intro p hp; simp [loadStepG] at hp

theorem loadStepG_blocks (sd : StructDec) (buf : Bytes) (x : XTable) (n : Nat) (l : XTable) :
    ∀ (os : LObjects) (fs : List Block) (os' : LObjects) (fs' : List Block),
    l.foldl (loadStepG sd buf x n) (.ok (os, fs)) = .ok (os', fs') →
    ∃ ks, fs'.map (·.1) = fs.map (·.1) ++ ks ∧ ks.Sublist (l.map (·.1)) := by
  induction l with
  | nil =>
    intro os fs os' fs' h
    simp only [List.foldl_nil, Outcome.ok.injEq, Prod.mk.injEq] at h
    exact ⟨[], by simp [h.2], List.Sublist.refl _⟩
  | cons e rest ih =>
    intro os fs os' fs' h
    simp only [List.foldl_cons] at h
    rcases loadStepG_shape sd buf x n os fs e with ⟨os2, h1⟩ | ⟨os2, objs, h1⟩ | h1
    · rw [h1] at h
      obtain ⟨ks, hk, hs⟩ := ih _ _ _ _ h
      exact ⟨ks, hk, hs.trans (List.sublist_cons_self _ _)⟩
    · rw [h1] at h
      obtain ⟨ks, hk, hs⟩ := ih _ _ _ _ h
      refine ⟨e.1 :: ks, ?_, ?_⟩
      · rw [hk]; simp
      · simpa using hs
    · exact absurd h (loadStepG_notok sd buf x n rest _ h1 _)

theorem fromStmG_keys_nodup (sd : StructDec) (buf : Bytes) (x : XTable) (n : Nat) (os : LObjects) (fs : List Block)
    (h : (x.sorted).foldl (loadStepG sd buf x n) (.ok ([], [])) = .ok (os, fs)) : DistinctKeys fs := by
  obtain ⟨ks, hk, hs⟩ := loadStepG_blocks sd buf x n _ _ _ _ _ h
  unfold DistinctKeys
  rw [hk]
  simp only [List.map_nil, List.nil_append]
  have : ks.Pairwise (· < ·) := (sorted_keys_lt x).sublist hs
  exact this.imp (fun h => by omega)

/-- **Schedule independence of `Reader::read`, any structural-stream decoder.** -/
theorem loadG_schedule_independent (sd : StructDec) (arr : List Block → List Block) (arr2 : List ObjId → List ObjId)
    (harr : ∀ bs, (arr bs).Perm bs) (harr2 : ∀ ids, (arr2 ids).Perm ids)
    (file : Bytes) : loadDocWithG sd arr arr2 file = loadDocWithG sd id id file := by
  have key : ∀ (buf : Bytes) (x : XTable) (n : Nat) (os : LObjects) (fs : List Block),
      (x.sorted).foldl (loadStepG sd buf x n) (.ok ([], [])) = .ok (os, fs) →
      mergeBlocksX x os (arr fs) = mergeBlocksX x os fs := by
    intro buf x n os fs h
    have hd := fromStmG_keys_nodup sd buf x n os fs h
    exact (merge_schedule_independent x os fs (arr fs) (harr fs).symm hd).symm
  have key2 : ∀ (buf : Bytes) (os : LObjects),
      (arr2 (pendingIds os)).foldl (completeOne buf) os = (pendingIds os).foldl (completeOne buf) os :=
    fun buf os => complete_order_irrelevant buf os _ _ (harr2 _)
  unfold loadDocWithG
  simp only []
  repeat' split
  all_goals try rfl
  all_goals rw [key _ _ _ _ _ (by assumption), key2]
  all_goals rfl

/-- **C08 for the reader the driver runs** (Flate / LZW / ASCII85-coded cross-reference streams and
object streams decoded inside the model): every order of the hook H1 and every rotation / reversal
of the hook H2 give the sequential reader's document, for every byte string. -/
theorem loadF_schedule_independent (order : List Nat) (k : Nat) (file : Bytes) :
    loadDocF2 (some order) (some k) file = loadDocF2 none none file := by
  unfold loadDocF2
  exact loadG_schedule_independent flateDec _ _ (fun bs => permuteBlocks_perm bs order) (fun ids => reorderZero_perm k ids) file

end Lopdf
