import LopdfModel.Thm.C14Content
import LopdfModel.Thm.C16Content
/-
  C16 — extraction end to end on the model, general form.

  A page's text program is any interleaving of `BT`, `ET`, font selections `Tf` (several fonts with
  different predefined encodings on one page, also names that are not among the page's fonts) and
  the text-showing forms: `Tj` with a literal string (ANY bytes: parentheses, backslashes, CR …),
  `Tj` with a hexadecimal string, `TJ` with an array mixing literal / hexadecimal strings and
  kerning numbers (integers and reals).  `c16f_extract_page`: the bytes `Content::encode` writes
  for the program are decoded by `Content::decode` (C14 `content_rt`, built on C01's full
  `lit_rt` / `obj_rt`) and `extract_text` returns exactly `specText` — the shown strings in order,
  a space for every kerning integer below −100 and after every `TJ` array, a newline at `ET`,
  nothing for text shown while no (known) font is selected.
-/
namespace Lopdf
open Gen Spec Lopdf.ObjRt Lopdf.ContentRt

/-- an element of a `TJ` array: a string to show (with the format it is written in) or a number -/
inductive C16fItem where
  | str (s : UStr) (f : StrFmt)
  | num (o : Obj)

/-- one step of a page's text program -/
inductive C16fCmd where
  | bt
  | et
  | font (name : Bytes) (size : Obj)
  | tj (s : UStr) (f : StrFmt)
  | tjArr (items : List C16fItem)

/-- a number operand: an `i64` integer or a real in `Display` form -/
def C16fNum (o : Obj) : Prop :=
  (∃ i : Int, o = .int i ∧ -(I64_MAX : Int) - 1 ≤ i ∧ i ≤ I64_MAX) ∨ (∃ t, o = .real t ∧ RealOK t)

/-- the page's fonts: resource name, font dictionary, and the table its `/Encoding` selects -/
abbrev C16fFonts := List (Bytes × Dict × Table)

def c16fLookup (F : C16fFonts) (n : Bytes) : Option Table :=
  match F with
  | [] => none
  | (k, _, t) :: rest => if k = n then some t else c16fLookup rest n

/-- bytes of a shown string under the current font's table (`string_to_bytes`); no font: irrelevant -/
def c16fBytes (cur : Option Table) (s : UStr) : Bytes :=
  match cur with
  | some t => stringToBytes t s
  | none => stdUtf8 s

def C16fItem.obj (cur : Option Table) : C16fItem → Obj
  | .str s f => .str (c16fBytes cur s) f
  | .num o => o

/-- the operations handed to `Content::encode` -/
def c16fOps (F : C16fFonts) : Option Table → List C16fCmd → List Operation
  | _, [] => []
  | cur, .bt :: r => { operator := [66, 84], operands := [] } :: c16fOps F cur r
  | cur, .et :: r => { operator := OP_ET, operands := [] } :: c16fOps F cur r
  | _, .font n size :: r => { operator := OP_TF, operands := [.name n, size] } :: c16fOps F (c16fLookup F n) r
  | cur, .tj s f :: r => { operator := OP_TJ, operands := [.str (c16fBytes cur s) f] } :: c16fOps F cur r
  | cur, .tjArr items :: r =>
    { operator := OP_TJ_ARR, operands := [.arr (items.map (C16fItem.obj cur))] } :: c16fOps F cur r

/-! ### the specification of the extracted text -/

/-- a kerning number as the extraction sees it after decoding: an integer below −100 is a space -/
def c16fKern : Obj → UStr
  | .int i => if i < -100 then [32] else []
  | _ => []

def c16fItemsText : List C16fItem → UStr
  | [] => []
  | .str s _ :: r => s ++ c16fItemsText r
  | .num o :: r => c16fKern (norm o) ++ c16fItemsText r

def c16fNl (chunk : UStr) : UStr := if chunk.getLast? = some 10 then chunk else chunk ++ [10]

/-- the text `extract_text` is to return; `chunk` = text shown since the last font selection -/
def c16fSpecText (F : C16fFonts) : Option Table → UStr → List C16fCmd → UStr
  | _, chunk, [] => chunk
  | cur, chunk, .bt :: r => c16fSpecText F cur chunk r
  | cur, chunk, .et :: r => c16fSpecText F cur (c16fNl chunk) r
  | _, chunk, .font n _ :: r => chunk ++ c16fSpecText F (c16fLookup F n) [] r
  | cur, chunk, .tj s _ :: r => c16fSpecText F cur (if cur.isSome then chunk ++ s else chunk) r
  | cur, chunk, .tjArr items :: r =>
    c16fSpecText F cur (if cur.isSome then chunk ++ c16fItemsText items ++ [32] else chunk) r

/-! ### admissible programs -/

/-- a string over the current table's repertoire (any Unicode string while no font is selected) -/
def C16fStrOk (cur : Option Table) (s : UStr) : Prop :=
  (∀ c ∈ s, Scalar c) ∧ ∀ t, cur = some t → ∀ u ∈ stdEncodeUtf16 s, some u ∈ t

def C16fItemOk (cur : Option Table) : C16fItem → Prop
  | .str s _ => C16fStrOk cur s
  | .num o => C16fNum o

def C16fOk (F : C16fFonts) : Option Table → List C16fCmd → Prop
  | _, [] => True
  | cur, .bt :: r => C16fOk F cur r
  | cur, .et :: r => C16fOk F cur r
  | _, .font n size :: r => C16fNum size ∧ C16fOk F (c16fLookup F n) r
  | cur, .tj s _ :: r => C16fStrOk cur s ∧ C16fOk F cur r
  | cur, .tjArr items :: r => (∀ it ∈ items, C16fItemOk cur it) ∧ C16fOk F cur r

/-! ### the operations are in the scope of C14's `content_rt` -/

theorem c16f_num_wf (o : Obj) (h : C16fNum o) : WFOperand o := by
  rcases h with ⟨i, rfl, h1, h2⟩ | ⟨t, rfl, ht⟩
  · exact ⟨by simp [WFObj, WF, h1, h2], by simp, by simp [height]⟩
  · exact ⟨by simpa [WFObj, WF] using ht, by simp, by simp [height]⟩

theorem c16f_item_wf (cur : Option Table) (it : C16fItem) (h : C16fItemOk cur it) :
    WFObj (it.obj cur) ∧ height (it.obj cur) = 0 := by
  cases it with
  | str s f => cases f <;> simp [C16fItem.obj, WFObj, WF, height]
  | num o =>
    have := c16f_num_wf o h
    rcases h with ⟨i, rfl, _, _⟩ | ⟨t, rfl, _⟩ <;> exact ⟨this.1, by simp [C16fItem.obj, height]⟩

theorem c16f_items_wf (cur : Option Table) : ∀ (items : List C16fItem), (∀ it ∈ items, C16fItemOk cur it) →
    WFL (fun _ => True) (items.map (C16fItem.obj cur)) ∧ heightL (items.map (C16fItem.obj cur)) = 0
  | [], _ => by simp [WFL, heightL]
  | it :: r, h => by
    have h1 := c16f_item_wf cur it (h it (by simp))
    have ih := c16f_items_wf cur r (fun x hx => h x (by simp [hx]))
    simp only [List.map_cons, WFL, heightL]
    exact ⟨⟨h1.1, ih.1⟩, by rw [h1.2, ih.2]; rfl⟩

theorem c16f_operator_wf (opr : Bytes) (h : opr ∈ c16eTextOps) : WFOperator opr := by
  simp only [c16eTextOps, List.mem_cons, List.not_mem_nil, or_false] at h
  rcases h with rfl | rfl | rfl | rfl | rfl <;>
    exact ⟨by simp, by decide, by decide, by decide, by decide⟩

theorem c16f_ops_wf (F : C16fFonts) : ∀ (cmds : List C16fCmd) (cur : Option Table), C16fOk F cur cmds →
    ∀ op ∈ c16fOps F cur cmds, WFOp op
  | [], _, _ => by simp [c16fOps]
  | c :: r, cur, h => by
    cases c with
    | bt =>
      intro op hop
      simp only [c16fOps, List.mem_cons] at hop
      rcases hop with rfl | hop
      · exact ⟨c16f_operator_wf _ (by decide), fun _ => by decide, by simp⟩
      · exact c16f_ops_wf F r cur h op hop
    | et =>
      intro op hop
      simp only [c16fOps, List.mem_cons] at hop
      rcases hop with rfl | hop
      · exact ⟨c16f_operator_wf _ (by decide), fun _ => by decide, by simp⟩
      · exact c16f_ops_wf F r cur h op hop
    | font n size =>
      intro op hop
      simp only [c16fOps, List.mem_cons] at hop
      rcases hop with rfl | hop
      · refine ⟨c16f_operator_wf OP_TF (by decide), fun e => by simp at e, ?_⟩
        intro o ho
        simp only [List.mem_cons, List.not_mem_nil, or_false] at ho
        rcases ho with rfl | rfl
        · exact ⟨by simp [WFObj, WF], by simp, by simp [height]⟩
        · exact c16f_num_wf _ h.1
      · exact c16f_ops_wf F r _ h.2 op hop
    | tj s f =>
      intro op hop
      simp only [c16fOps, List.mem_cons] at hop
      rcases hop with rfl | hop
      · refine ⟨c16f_operator_wf OP_TJ (by decide), fun e => by simp at e, ?_⟩
        intro o ho
        simp only [List.mem_cons, List.not_mem_nil, or_false] at ho
        subst ho
        cases f <;> exact ⟨by simp [WFObj, WF], by simp, by simp [height]⟩
      · exact c16f_ops_wf F r cur h.2 op hop
    | tjArr items =>
      intro op hop
      simp only [c16fOps, List.mem_cons] at hop
      rcases hop with rfl | hop
      · refine ⟨c16f_operator_wf OP_TJ_ARR (by decide), fun e => by simp at e, ?_⟩
        intro o ho
        simp only [List.mem_cons, List.not_mem_nil, or_false] at ho
        subst ho
        have hw := c16f_items_wf cur items h.1
        exact ⟨by simpa [WFObj, WF] using hw.1, by simp, by simp [height, hw.2, MAX_NESTING]⟩
      · exact c16f_ops_wf F r cur h.2 op hop

/-! ### the extraction loop on the decoded (normalised) operations -/

def c16fEncs (F : C16fFonts) : List (Bytes × Enc) := F.map fun x => (x.1, Enc.oneByte x.2.2)

theorem c16f_lookupEnc (n : Bytes) : ∀ (F : C16fFonts), lookupEnc n (c16fEncs F) = (c16fLookup F n).map Enc.oneByte
  | [] => rfl
  | (k, d, t) :: rest => by
    simp only [c16fEncs, List.map_cons, lookupEnc, c16fLookup]
    by_cases h : k = n
    · simp [h]
    · simp only [h, if_false]; exact c16f_lookupEnc n rest

theorem c16f_lookup_mem (n : Bytes) (t : Table) : ∀ (F : C16fFonts), c16fLookup F n = some t → ∃ x ∈ F, x.2.2 = t
  | [], h => by simp [c16fLookup] at h
  | (k, d, t') :: rest, h => by
    simp only [c16fLookup] at h
    by_cases hk : k = n
    · simp only [hk, if_true, Option.some.injEq] at h; exact ⟨(k, d, t'), by simp, h⟩
    · simp only [hk, if_false] at h
      obtain ⟨x, hx, e⟩ := c16f_lookup_mem n t rest h
      exact ⟨x, by simp [hx], e⟩

theorem c16f_fontEncodings : ∀ (F : C16fFonts), (∀ x ∈ F, getFontEncoding x.2.1 = some (.oneByte x.2.2)) →
    fontEncodings (F.map fun x => (x.1, x.2.1)) = some (c16fEncs F)
  | [], _ => rfl
  | (k, d, t) :: rest, h => by
    have h1 := h (k, d, t) (by simp)
    have ih := c16f_fontEncodings rest (fun x hx => h x (by simp [hx]))
    simp only at h1
    simp only [List.map_cons, fontEncodings, h1, ih, c16fEncs]

/-- a decoded number inside a `TJ` array -/
theorem c16f_collect_num (e : Enc) (text : UStr) (o : Obj) (h : C16fNum o) :
    collectObj e text (norm o) = .ok (text ++ c16fKern (norm o)) := by
  rcases h with ⟨i, rfl, _, _⟩ | ⟨t, rfl, _⟩
  · simp only [norm, collectObj, c16fKern]; split <;> simp
  · simp only [norm, normReal]
    split
    · simp [collectObj, c16fKern]
    · split
      · simp [collectObj, c16fKern]
      · simp only [collectObj, c16fKern]; split <;> simp

theorem c16f_collect_items (t : Table) (hl : t.length ≤ 256) : ∀ (items : List C16fItem) (text : UStr),
    (∀ it ∈ items, C16fItemOk (some t) it) →
    collectList (.oneByte t) text (normL (items.map (C16fItem.obj (some t)))) = .ok (text ++ c16fItemsText items)
  | [], text, _ => by simp [normL, collectList, c16fItemsText]
  | it :: r, text, h => by
    have h1 := h it (by simp)
    cases it with
    | str s f =>
      have hd := encode_decode_repertoire t hl s h1.1 (h1.2 t rfl)
      have ih := c16f_collect_items t hl r (text ++ s) (fun x hx => h x (by simp [hx]))
      simp only [List.map_cons, C16fItem.obj, c16fBytes, normL, norm, collectList, collectObj, decodeText, hd, ih,
        c16fItemsText, List.append_assoc]
    | num o =>
      have hn := c16f_collect_num (.oneByte t) text o h1
      have ih := c16f_collect_items t hl r (text ++ c16fKern (norm o)) (fun x hx => h x (by simp [hx]))
      simp only [List.map_cons, C16fItem.obj, normL, collectList, hn, ih, c16fItemsText, List.append_assoc]

theorem c16f_normOps_cons (op : Operation) (ops : List Operation) :
    opsView (normOps (op :: ops)) = (op.operator, normL op.operands) :: opsView (normOps ops) := by
  simp [opsView, normOps, normOp]

/-- **the loop computes `specText`** on the decoded operations of every admissible program -/
theorem c16f_loop (F : C16fFonts) (hl : ∀ x ∈ F, x.2.2.length ≤ 256) :
    ∀ (cmds : List C16fCmd) (cur : Option Table) (st : XState),
      st.cur = cur.map Enc.oneByte → (∀ t, cur = some t → t.length ≤ 256) → C16fOk F cur cmds →
      extractLoop (c16fEncs F) (opsView (normOps (c16fOps F cur cmds))) st
        = .ok (st.done ++ c16fSpecText F cur st.text cmds)
  | [], cur, st, _, _, _ => by simp [c16fOps, normOps, opsView, extractLoop, c16fSpecText]
  | c :: r, cur, st, hc, hcl, hok => by
    have nb1 : ([66, 84] : Bytes) ≠ OP_TF := by decide
    have nb2 : (([66, 84] : Bytes) = OP_TJ) = False := by simp; decide
    have nb3 : (([66, 84] : Bytes) = OP_TJ_ARR) = False := by simp; decide
    have nb4 : ([66, 84] : Bytes) ≠ OP_ET := by decide
    have ne2 : OP_ET ≠ OP_TF := by decide
    have ne3 : (OP_ET = OP_TJ) = False := by simp; decide
    have ne4 : (OP_ET = OP_TJ_ARR) = False := by simp; decide
    have nj1 : OP_TJ ≠ OP_TF := by decide
    have na1 : OP_TJ_ARR ≠ OP_TF := by decide
    cases c with
    | bt =>
      simp only [c16fOps, c16f_normOps_cons, extractLoop, nb1, nb2, nb3, nb4, if_false, Bool.or_self,
        Bool.false_eq_true, decide_false, c16fSpecText]
      exact c16f_loop F hl r cur st hc hcl hok
    | et =>
      simp only [c16fOps, c16f_normOps_cons, extractLoop, ne2, ne3, ne4, if_false, if_true, Bool.or_self,
        Bool.false_eq_true, decide_false, c16fSpecText]
      have := c16f_loop F hl r cur { st with text := c16fNl st.text } hc hcl hok
      simpa [c16fNl] using this
    | font n size =>
      simp only [c16fOps, c16f_normOps_cons, extractLoop, if_true, normL, norm, Obj.asName, c16fSpecText]
      have := c16f_loop F hl r (c16fLookup F n)
        { cur := lookupEnc n (c16fEncs F), done := st.done ++ st.text, text := [] }
        (c16f_lookupEnc n F)
        (fun t ht => by obtain ⟨x, hx, e⟩ := c16f_lookup_mem n t F ht; rw [← e]; exact hl x hx) hok.2
      simp only [this, List.append_assoc]
    | tj s f =>
      cases hcur : cur with
      | none =>
        subst hcur
        have hc' : st.cur = none := by rw [hc]; rfl
        simp only [c16fOps, c16f_normOps_cons, extractLoop, nj1, if_false, Bool.true_or, if_true, decide_true, hc',
          c16fSpecText, Option.isSome_none, Bool.false_eq_true]
        exact c16f_loop F hl r none st hc hcl hok.2
      | some t =>
        subst hcur
        have hc' : st.cur = some (.oneByte t) := by rw [hc]; rfl
        have hd := encode_decode_repertoire t (hcl t rfl) s hok.1.1 (hok.1.2 t rfl)
        simp only [c16fOps, c16f_normOps_cons, c16fBytes, normL, norm, extractLoop, nj1, if_false, Bool.true_or, if_true,
          decide_true, hc', collectList, collectObj, decodeText, hd, c16fSpecText, Option.isSome_some]
        exact c16f_loop F hl r (some t) { cur := some (.oneByte t), done := st.done, text := st.text ++ s } rfl hcl hok.2
    | tjArr items =>
      cases hcur : cur with
      | none =>
        subst hcur
        have hc' : st.cur = none := by rw [hc]; rfl
        simp only [c16fOps, c16f_normOps_cons, extractLoop, na1, if_false, Bool.or_true, if_true, decide_true, hc',
          c16fSpecText, Option.isSome_none, Bool.false_eq_true]
        exact c16f_loop F hl r none st hc hcl hok.2
      | some t =>
        subst hcur
        have hc' : st.cur = some (.oneByte t) := by rw [hc]; rfl
        have hci := c16f_collect_items t (hcl t rfl) items st.text hok.1
        simp only [c16fOps, c16f_normOps_cons, normL, norm, extractLoop, na1, if_false, Bool.or_true, if_true,
          decide_true, hc', collectList, collectObj, hci, c16fSpecText, Option.isSome_some]
        exact c16f_loop F hl r (some t)
          { cur := some (.oneByte t), done := st.done, text := st.text ++ c16fItemsText items ++ [32] } rfl hcl hok.2

/-! ### the theorem -/

/-- **Extraction, end to end on the model — all text-showing forms, any interleaving, several fonts.**
For every set of page fonts whose `/Encoding` selects a predefined one-byte table, and every
admissible text program (`C16fOk`: strings over the repertoire of the font current at that point,
numbers in `i64` / `Display` form), the bytes `Content::encode` writes for the program decode
(`Content::decode`) to the same operations up to C01's normal form of numbers, and `extract_text`
on those BYTES returns exactly `c16fSpecText`. Literal strings may contain any bytes. -/
theorem c16f_extract_page (F : C16fFonts) (hF : ∀ x ∈ F, getFontEncoding x.2.1 = some (.oneByte x.2.2))
    (cmds : List C16fCmd) (hok : C16fOk F none cmds) :
    decodeContent (encodeContent (c16fOps F none cmds)) = .ok (normOps (c16fOps F none cmds)) ∧
    extractTextOfContent (F.map fun x => (x.1, x.2.1)) (encodeContent (c16fOps F none cmds))
      = .ok (c16fSpecText F none [] cmds) := by
  have hdec := content_rt (c16fOps F none cmds) (c16f_ops_wf F cmds none hok)
  have hl : ∀ x ∈ F, x.2.2.length ≤ 256 := by
    intro x hx
    have := (tables_no_surrogate x.2.2 (font_encoding_in_tables x.2.1 x.2.2 (hF x hx))).1; omega
  refine ⟨hdec, ?_⟩
  have := c16f_loop F hl cmds none { cur := none, done := [], text := [] } rfl (fun t h => by cases h) hok
  simp only [extractTextOfContent, hdec, extractText, c16f_fontEncodings F hF]
  simpa using this

/-- non-vacuity: two fonts on one page, a literal string with parentheses and a backslash, a TJ
array mixing strings with an integer and a real kerning number, text before any font -/
def c16fSampleFonts : C16fFonts :=
  [([70, 49], [(TYPE, .name FONT), (ENCODING, .name [87, 105, 110, 65, 110, 115, 105, 69, 110, 99, 111, 100, 105, 110, 103])], WIN_ANSI_ENCODING),
   ([70, 50], [(TYPE, .name FONT), (ENCODING, .name [77, 97, 99, 82, 111, 109, 97, 110, 69, 110, 99, 111, 100, 105, 110, 103])], MAC_ROMAN_ENCODING)]

def c16fSampleCmds : List C16fCmd :=
  [.bt, .tj [0x78] .lit, .font [70, 49] (.int 12), .tj [0x28, 0x5C, 0x29, 0x20AC] .lit,
   .tjArr [.str [0x41] .hex, .num (.int (-250)), .str [0x28] .lit, .num (.real [45, 51, 48, 48, 46, 53])],
   .font [70, 50] (.real [57, 46, 53]), .tj [0xC4] .hex, .et]

theorem c16f_sample_spec : c16fSpecText c16fSampleFonts none [] c16fSampleCmds
    = [0x28, 0x5C, 0x29, 0x20AC, 0x41, 0x20, 0x28, 0x20, 0xC4, 10] := by decide +kernel

theorem c16f_sample_ok : C16fOk c16fSampleFonts none c16fSampleCmds := by
  have hw : c16fLookup c16fSampleFonts [70, 49] = some WIN_ANSI_ENCODING := by decide +kernel
  have hm : c16fLookup c16fSampleFonts [70, 50] = some MAC_ROMAN_ENCODING := by decide +kernel
  have hreal1 : RealOK [45, 51, 48, 48, 46, 53] :=
    Or.inl ⟨⟨true, [51, 48, 48], [53], rfl, by simp, by decide, by decide⟩⟩
  have hreal2 : RealOK [57, 46, 53] := Or.inl ⟨⟨false, [57], [53], rfl, by simp, by decide, by decide⟩⟩
  have str : ∀ (t : Table) (s : UStr), (∀ c ∈ s, Scalar c) → (∀ u ∈ stdEncodeUtf16 s, some u ∈ t) →
      C16fStrOk (some t) s := fun t s h1 h2 => ⟨h1, fun t' e => by cases e; exact h2⟩
  simp only [c16fSampleCmds, C16fOk, hw, hm]
  refine ⟨⟨by decide, fun t e => by cases e⟩, ⟨Or.inl ⟨12, rfl, by decide, by decide⟩, ?_⟩⟩
  refine ⟨str _ _ (by decide) (by decide +kernel), ?_, ⟨Or.inr ⟨_, rfl, hreal2⟩, ?_⟩⟩
  · intro it hit
    simp only [List.mem_cons, List.not_mem_nil, or_false] at hit
    rcases hit with rfl | rfl | rfl | rfl
    · exact str _ _ (by decide) (by decide +kernel)
    · exact Or.inl ⟨-250, rfl, by decide, by decide⟩
    · exact str _ _ (by decide) (by decide +kernel)
    · exact Or.inr ⟨_, rfl, hreal1⟩
  · exact ⟨str _ _ (by decide) (by decide +kernel), trivial⟩

example : extractTextOfContent (c16fSampleFonts.map fun x => (x.1, x.2.1))
    (encodeContent (c16fOps c16fSampleFonts none c16fSampleCmds))
    = .ok [0x28, 0x5C, 0x29, 0x20AC, 0x41, 0x20, 0x28, 0x20, 0xC4, 10] := by
  rw [← c16f_sample_spec]
  exact (c16f_extract_page c16fSampleFonts (by
    intro x hx
    simp only [c16fSampleFonts, List.mem_cons, List.not_mem_nil, or_false] at hx
    rcases hx with rfl | rfl <;> decide +kernel) c16fSampleCmds c16f_sample_ok).2

end Lopdf
