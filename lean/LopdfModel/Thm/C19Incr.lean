import LopdfModel.Thm.C19Save
import LopdfModel.Thm.FileHistory
import LopdfModel.Thm.C07
/-
  C19 × C07 — `IncrementalDocument::save_to` through an arbitrary sink.

  The incremental writer hands the sink the previously loaded bytes first (`prev_document_bytes`,
  a newline if they do not end with one — `incrPre`), in whatever requests std cuts them into
  (`pc`), and then the new revision (`before ++ after`, cut at the writer's mutation point as in
  `CutOf`). Written out here (it was "the same one-line composition" in the notes of session 3):
  * `saveSink_incr_ok`     : success ⇒ exactly the bytes `saveIncr` defines were delivered and the
                              caller holds the document a complete save leaves;
  * `saveSink_incr_prefix` : whatever the sink does, the delivered bytes are a prefix of that file;
  * `saveSink_incr_keeps_prev` : once the writer's state has changed, all previous revisions are
                              in the sink (the old file is never the casualty of a late failure);
  * `sink_incr_loads`      : a successful incremental save of a history of ANY length, both
                              cross-reference styles, loads — for every schedule — to the newest
                              object under every id (`file_rt_history` on the delivered bytes).
-/
namespace Lopdf
open Gen FileRT Lopdf.ObjRt

theorem flatten_incr (pre out : Bytes) (pc before after : List Bytes) (hpc : pc.flatten = pre)
    (hpre : pre <+: out) (hw : (before ++ after).flatten = out.drop pre.length) :
    ((pc ++ before) ++ after).flatten = out := by
  obtain ⟨t, rfl⟩ := hpre
  rw [List.append_assoc, List.flatten_append, hpc, hw]
  simp

/-- **Success of an incremental save ⇒ the complete file and the saved state.** -/
theorem saveSink_incr_ok (pre : Bytes) (d : SDoc) (out : Bytes) (d' : SDoc) (pc before after : List Bytes)
    (s : List Resp) (hpc : pc.flatten = pre) (hc : CutOf pre d out before after)
    (hs : saveFrom pre d = some (out, d')) (h : (saveSink (pc ++ before) after s).ok = true) :
    (saveSink (pc ++ before) after s).delivered = out ∧
      docAfter d d' (saveSink (pc ++ before) after s) = d' := by
  obtain ⟨h1, h2⟩ := saveSink_ok_delivered (pc ++ before) after s h
  refine ⟨?_, ?_⟩
  · rw [h1]
    exact flatten_incr pre out pc before after hpc (saveFrom_prefix pre d out d' hs) hc.whole
  · simp [docAfter, h2]

/-- **Delivered bytes are a prefix of the file the incremental save defines** — every sink. -/
theorem saveSink_incr_prefix (pre : Bytes) (d : SDoc) (out : Bytes) (d' : SDoc) (pc before after : List Bytes)
    (s : List Resp) (hpc : pc.flatten = pre) (hc : CutOf pre d out before after)
    (hs : saveFrom pre d = some (out, d')) :
    (saveSink (pc ++ before) after s).delivered <+: out := by
  have := saveSink_prefix (pc ++ before) after s
  rwa [flatten_incr pre out pc before after hpc (saveFrom_prefix pre d out d' hs) hc.whole] at this

/-- **A changed writer state ⇒ every previous revision is in the sink**, and the sink holds the
file up to the mutation point `mutationOffset pre d`. -/
theorem saveSink_incr_keeps_prev (pre : Bytes) (d : SDoc) (out : Bytes) (pc before after : List Bytes)
    (s : List Resp) (hpc : pc.flatten = pre) (hc : CutOf pre d out before after)
    (h : (saveSink (pc ++ before) after s).mutated = true) :
    pre <+: (saveSink (pc ++ before) after s).delivered ∧
      mutationOffset pre d ≤ (saveSink (pc ++ before) after s).delivered.length := by
  have hm := saveSink_mutated (pc ++ before) after s h
  rw [List.flatten_append, hpc] at hm
  refine ⟨List.IsPrefix.trans (List.prefix_append _ _) hm, ?_⟩
  have := hm.length_le
  rw [List.length_append] at this
  rw [← hc.point]
  exact this

/-- and an UNCHANGED writer state ⇒ the save failed and nothing beyond the mutation point was sent -/
theorem saveSink_incr_unmutated (pre : Bytes) (d : SDoc) (out : Bytes) (pc before after : List Bytes)
    (s : List Resp) (hpc : pc.flatten = pre) (hc : CutOf pre d out before after)
    (h : (saveSink (pc ++ before) after s).mutated = false) :
    (saveSink (pc ++ before) after s).ok = false ∧
      (saveSink (pc ++ before) after s).delivered.length ≤ mutationOffset pre d := by
  obtain ⟨h1, h2⟩ := saveSink_unmutated (pc ++ before) after s h
  refine ⟨h1, ?_⟩
  have := h2.length_le
  rw [List.flatten_append, List.length_append, hpc] at this
  rw [← hc.point]
  exact this

/-- **An incremental save that reports success — through any sink, on a history of any length —
loads back, for every schedule, to the newest object under every id.** -/
theorem sink_incr_loads (order : Option (List Nat)) (d : SDoc) (prevs : List (SDoc × Bytes))
    (outprev out : Bytes) (d' : SDoc) (pc before after : List Bytes) (s : List Resp)
    (hist : History prevs outprev) (hrev : RevOK d) (hs : saveIncr outprev d = some (out, d'))
    (hprev : d.trailer.get PREV = some (.int (topX prevs : Int)))
    (hpc : pc.flatten = incrPre outprev) (hc : CutOf (incrPre outprev) d out before after)
    (hok : (saveSink (pc ++ before) after s).ok = true)
    (hlen : out.length < 4294967296) (hgen : GenConsistent ((d, incrPre outprev) :: prevs))
    (hv : ∀ d0, oldestDoc ((d, incrPre outprev) :: prevs) = some d0 →
      (∀ b ∈ d0.version, notEol b = true) ∧ validUtf8 d0.version = true) :
    ∃ L : Loaded, loadDocOrd order (saveSink (pc ++ before) after s).delivered = .ok L ∧
      (∀ id, L.objects.get id = ((allObjs ((d, incrPre outprev) :: prevs)).get id).map nfObj) ∧
      docAfter d d' (saveSink (pc ++ before) after s) = d' := by
  have hs' : saveFrom (incrPre outprev) d = some (out, d') := by rw [← saveIncr_eq]; exact hs
  obtain ⟨hdel, hdoc⟩ := saveSink_incr_ok (incrPre outprev) d out d' pc before after s hpc hc hs' hok
  rw [hdel]
  obtain ⟨L, h1, h2, _⟩ := file_rt_history order _ out (History.step d prevs outprev out d' hist hrev hs hprev) hlen hgen hv
  exact ⟨L, h1, h2, hdoc⟩

end Lopdf
