import LopdfModel.Thm.StrictNorm
import LopdfModel.Thm.FileHistory
/-
  C03 — **`strict_of_history`**: the strict structural reader accepts every file of a `History`
  (a plain save followed by any number of incremental saves, classic tables and cross-reference
  streams in any mix): every revision's section, tail, header lines (R7) and object area tile the
  file; the result has one revision per save and the newest object of every number.
-/
namespace Lopdf.Strict
open Lopdf Gen Lopdf.FileRT Lopdf.ObjRt

theorem tailAt_ext (X R : Bytes) (n : Nat) :
    tailAt (X ++ STARTXREF_KW ++ natDigits n ++ EOF_KW ++ R) X.length n
      = .ok (X ++ STARTXREF_KW ++ natDigits n ++ EOF_KW).length := by
  have hd : (X ++ STARTXREF_KW ++ natDigits n ++ EOF_KW ++ R).drop X.length
      = (STARTXREF_LINE ++ natDigits n ++ EOF_LINE) ++ R := by
    simp [EOF_LINE_eq, STARTXREF_LINE_eq, List.append_assoc]
  have hle : ¬ X.length > (X ++ STARTXREF_KW ++ natDigits n ++ EOF_KW ++ R).length := by
    simp only [List.length_append]; omega
  unfold tailAt
  simp only [hle, if_false, hd, stripPrefix_append]
  congr 1
  simp only [List.length_append]; omega

/-- the cross-reference data the strict reader collects for one revision -/
def revEntries (d : SDoc) (pre : Bytes) : List Entry :=
  match d.xrefKind with
  | .table => tableEntriesOf (xmapOf pre d) (d.maxId + 1)
  | .stream => streamEntriesOf (xmapStream pre d) (d.maxId + 1)

/-- the dictionary a revision's section carries in the file -/
def writtenTrailer (d : SDoc) (pre : Bytes) : Dict :=
  match d.xrefKind with
  | .table => d.trailer.set SIZE (.int (d.maxId + 1))
  | .stream => streamTrailer pre d

def revSelf (d : SDoc) : Option Nat := match d.xrefKind with | .table => none | .stream => some (d.maxId + 1)

theorem writtenTrailer_free (d : SDoc) (pre : Bytes) (hnd : d.trailer.keys.Nodup) (k : Bytes) (hk : FreeKey k) :
    (writtenTrailer d pre).get k = d.trailer.get k := by
  unfold writtenTrailer
  cases d.xrefKind with
  | table => simp only; rw [Dict_get_set]; simp only [hk.2.1, if_false]
  | stream => exact streamTrailer_get_other pre d hnd k hk.1 hk.2.1 hk.2.2.1 hk.2.2.2.1 hk.2.2.2.2.1 hk.2.2.2.2.2

/-- **one revision under the strict reader**, inside any extension of the file it ends: section (R2),
tail (R1/R4), `Size` (R3) and the tiling walk over its objects (R5/R6) from the end of its header -/
theorem rev_strict (d : SDoc) (pre out : Bytes) (d' : SDoc) (hok : RevOK d)
    (h : saveFrom pre d = some (out, d')) (R : Bytes) (hlen : out.length < 4294967296)
    (pv : Option Nat) (hpv : prevOf (normD (writtenTrailer d pre)) = .ok pv) :
    ∃ rev, sectionAt (out ++ R) (bodyOf pre d).length = .ok rev ∧
      tailAt (out ++ R) rev.secEnd (bodyOf pre d).length = .ok out.length ∧ sizeOk rev = true ∧
      rev.selfId = revSelf d ∧ rev.trailer = normD (writtenTrailer d pre) ∧ rev.prev = pv ∧
      walk (out ++ R) (resolveIn (out ++ R) rev.entries) ((out ++ R).length + 1)
        (rev.entries.filter fun e => some e.1 != rev.selfId) (hdrOf pre d).length (bodyOf pre d).length []
        = .ok (d.objects.map fun p => (p.1, nfObj p.2)) := by
  have hb := body_le_out pre d out d' h
  have hbl : (bodyOf pre d).length < 4294967296 := by omega
  have hbody : bodyOf pre d = hdrOf pre d ++ bytesOf d.objects := writeObjects_kept _ _ _ hok.wf.kept
  have hstop : (hdrOf pre d).length + (bytesOf d.objects).length = (bodyOf pre d).length := by rw [hbody]; simp
  have hcount : d.objects.length ≤ (bytesOf d.objects).length := by
    generalize d.objects = os
    induction os with
    | nil => simp [bytesOf]
    | cons q r ih =>
      have := writeIndirect_pos q.1.1 q.1.2 q.2
      simp only [bytesOf, List.map_cons, List.flatten_cons, List.length_append, List.length_cons] at ih ⊢
      omega
  cases hk : d.xrefKind with
  | table =>
    obtain ⟨hout, htr⟩ := saveFrom_table_eq pre d out d' hk h
    have hwt : writtenTrailer d pre = d'.trailer := by simp only [writtenTrailer, hk, htr]
    obtain ⟨tail, htail⟩ : ∃ t, t = STARTXREF_KW ++ natDigits (bodyOf pre d).length ++ EOF_KW ++ R := ⟨_, rfl⟩
    have htr2 : WFObj (.dict d'.trailer) ∧ height (.dict d'.trailer) ≤ MAX_NESTING := by
      obtain ⟨t1, t2⟩ := hok.tr
      have hi : -(I64_MAX : Int) - 1 ≤ ((d.maxId : Int) + 1) ∧ ((d.maxId : Int) + 1) ≤ I64_MAX := by
        have := hok.hmax; simp [I64_MAX]; omega
      rw [htr]
      refine ⟨?_, ?_⟩
      · simp only [WFObj, WF] at t1 ⊢
        exact ⟨Dict_nodup_set d.trailer SIZE _ t1.1, WFD_set_int _ _ _ hi t1.2⟩
      · simp only [height] at t2 ⊢
        have := heightD_set_int d.trailer SIZE ((d.maxId : Int) + 1)
        omega
    have e1 : out ++ R = bodyOf pre d ++ (writeXrefTable (xmapOf pre d) (d.maxId + 1) ++ (TRAILER_KW ++
        (writeObj (.dict d'.trailer) ++ tail))) := by
      rw [hout, htr, htail]; simp only [List.append_assoc]
    have e2 : out ++ R = (bodyOf pre d ++ writeXrefTable (xmapOf pre d) (d.maxId + 1) ++ TRAILER_KW
        ++ writeObj (.dict d'.trailer)) ++ STARTXREF_KW ++ natDigits (bodyOf pre d).length ++ EOF_KW ++ R := by
      rw [hout, htr]
    have e3 : out ++ R = hdrOf pre d ++ (bytesOf d.objects ++ (writeXrefTable (xmapOf pre d) (d.maxId + 1) ++
        (TRAILER_KW ++ (writeObj (.dict d'.trailer) ++ tail)))) := by
      rw [e1, hbody]; simp only [List.append_assoc]
    have hsec := sectionAt_table_nf (bodyOf pre d) tail (xmapOf pre d) (d.maxId + 1) d'.trailer ((d.maxId : Int) + 1)
      (xmapOf_ok pre d hok.wf.gens) (by have := hok.hmax; omega) htr2 (by rw [htr, Dict.get_set_same]) pv
      (by rw [← hwt]; exact hpv)
    rw [← e1] at hsec
    have hsecEnd : (out ++ R).length - tail.length = (bodyOf pre d ++ writeXrefTable (xmapOf pre d) (d.maxId + 1)
        ++ TRAILER_KW ++ writeObj (.dict d'.trailer)).length := by
      rw [e2, htail]; simp only [List.length_append]; omega
    have hendlen : (bodyOf pre d ++ writeXrefTable (xmapOf pre d) (d.maxId + 1) ++ TRAILER_KW
        ++ writeObj (.dict d'.trailer) ++ STARTXREF_KW ++ natDigits (bodyOf pre d).length ++ EOF_KW).length
        = out.length := by rw [hout, htr]
    refine ⟨_, hsec, ?_, ?_, by simp [revSelf, hk], by rw [hwt], rfl, ?_⟩
    · simp only
      rw [hsecEnd]
      have := tailAt_ext (bodyOf pre d ++ writeXrefTable (xmapOf pre d) (d.maxId + 1) ++ TRAILER_KW
        ++ writeObj (.dict d'.trailer)) R (bodyOf pre d).length
      rw [← e2, hendlen] at this
      exact this
    · simp only [sizeOk, List.all_eq_true, decide_eq_true_eq]
      intro e he
      obtain ⟨n, off, g⟩ := e
      have := ((mem_tableEntriesOf _ _ n off g).mp he).1
      simp only; omega
    · simp only
      have hfilt : (tableEntriesOf (xmapOf pre d) (d.maxId + 1)).filter (fun e => some e.1 != (none : Option Nat))
          = tableEntriesOf (xmapOf pre d) (d.maxId + 1) := by
        rw [List.filter_eq_self]; intro e _; rfl
      rw [hfilt]
      have hiff : ∀ e, e ∈ tableEntriesOf (xmapOf pre d) (d.maxId + 1) ↔ e ∈ entriesOf d.objects (hdrOf pre d).length := by
        intro e
        obtain ⟨n, off, g⟩ := e
        rw [mem_tableEntriesOf, xmap_entries_iff pre d hok.wf hbl]
      have hwalk := walk_written_nf (resolveIn (out ++ R) (tableEntriesOf (xmapOf pre d) (d.maxId + 1))) d.objects
        (hdrOf pre d) (writeXrefTable (xmapOf pre d) (d.maxId + 1) ++ (TRAILER_KW ++ (writeObj (.dict d'.trailer) ++ tail)))
        (tableEntriesOf (xmapOf pre d) (d.maxId + 1)) [] ((out ++ R).length + 1) hok.objs (tableEntriesOf_nodup _ _) hiff
        (by rw [e3]; simp only [List.length_append]; omega)
      rw [← e3, hstop] at hwalk
      simpa using hwalk
  | stream =>
    obtain ⟨hout, htr⟩ := saveFrom_stream_eq pre d out d' hk h
    have hwt : writtenTrailer d pre = streamTrailer pre d := by simp only [writtenTrailer, hk]
    obtain ⟨tail, htail⟩ : ∃ t, t = STARTXREF_KW ++ natDigits (bodyOf pre d).length ++ EOF_KW ++ R := ⟨_, rfl⟩
    obtain ⟨wi, hwi⟩ : ∃ w, w = writeIndirect (d.maxId + 1) 0 (xrefObjP pre d) := ⟨_, rfl⟩
    have e1 : out ++ R = bodyOf pre d ++ (wi ++ tail) := by
      rw [hout, htail, hwi]; simp only [xrefObjP, List.append_assoc]
    have e2 : out ++ R = (bodyOf pre d ++ wi) ++ STARTXREF_KW ++ natDigits (bodyOf pre d).length ++ EOF_KW ++ R := by
      rw [hout, hwi]; simp only [xrefObjP, List.append_assoc]
    have e3 : out ++ R = hdrOf pre d ++ (bytesOf d.objects ++ (wi ++ tail)) := by
      rw [e1, hbody]; simp only [List.append_assoc]
    have hendlen : ((bodyOf pre d ++ wi) ++ STARTXREF_KW ++ natDigits (bodyOf pre d).length ++ EOF_KW).length
        = out.length := by rw [hout, hwi]; simp only [xrefObjP, List.append_assoc]
    have hsec := sectionAt_streamP_nf pre d out d' R hk h hlen hok.hmax hok.wf.gens hok.tr pv (by rw [← hwt]; exact hpv)
    rw [← hwi] at hsec
    refine ⟨_, hsec, ?_, ?_, by simp [revSelf, hk], by rw [hwt], rfl, ?_⟩
    · simp only
      have hse : (bodyOf pre d).length + wi.length = (bodyOf pre d ++ wi).length := by simp
      rw [hse]
      have := tailAt_ext (bodyOf pre d ++ wi) R (bodyOf pre d).length
      rw [← e2, hendlen] at this
      exact this
    · simp only [sizeOk, List.all_eq_true, decide_eq_true_eq]
      intro e he
      obtain ⟨n, off, g⟩ := e
      have := ((mem_streamEntriesOf _ _ n off g).mp he).1
      simp only; omega
    · simp only
      have hents_nodup : (((streamEntriesOf (xmapStream pre d) (d.maxId + 1)).filter
          (fun e => some e.1 != some (d.maxId + 1))).map (·.1)).Nodup :=
        List.Nodup.sublist (List.Sublist.map _ List.filter_sublist) (streamEntriesOf_nodup _ _)
      have hiff : ∀ e, e ∈ (streamEntriesOf (xmapStream pre d) (d.maxId + 1)).filter
          (fun e => some e.1 != some (d.maxId + 1)) ↔ e ∈ entriesOf d.objects (hdrOf pre d).length := by
        intro e
        obtain ⟨n, off, g⟩ := e
        rw [List.mem_filter, mem_streamEntriesOf, xmap_entries_iff pre d hok.wf hbl]
        simp only [bne_iff_ne, ne_eq, Option.some.injEq]
        constructor
        · rintro ⟨⟨hr, hx⟩, hn⟩
          simp only [xmapStream, XrefMap.get_insert_other _ _ _ _ hn] at hx
          exact ⟨by omega, hx⟩
        · rintro ⟨hr, hx⟩
          have hn : n ≠ d.maxId + 1 := by omega
          exact ⟨⟨by omega, by simp only [xmapStream, XrefMap.get_insert_other _ _ _ _ hn]; exact hx⟩, hn⟩
      have hwalk := walk_written_nf (resolveIn (out ++ R) (streamEntriesOf (xmapStream pre d) (d.maxId + 1))) d.objects
        (hdrOf pre d) (wi ++ tail) _ [] ((out ++ R).length + 1) hok.objs hents_nodup hiff
        (by rw [e3]; simp only [List.length_append]; omega)
      rw [← e3, hstop] at hwalk
      simpa using hwalk

/-! ### headers (R7) -/

theorem hdr_split (pre : Bytes) (d : SDoc) (out : Bytes) (d' : SDoc) (R : Bytes)
    (h : saveFrom pre d = some (out, d')) :
    ∃ rest, out ++ R = pre ++ (PDF_KW ++ (d.version ++ 10 :: 37 :: (d.binaryMark ++ 10 :: rest))) ∧
      (out ++ R).length - rest.length = (hdrOf pre d).length := by
  have h1 : hdrOf pre d <+: bodyOf pre d := writeObjects_prefix _ _ _
  have h2 : bodyOf pre d <+: out := by
    cases hk : d.xrefKind with
    | table =>
      rw [(saveFrom_table_eq pre d out d' hk h).1]
      simp only [List.append_assoc]; exact List.prefix_append _ _
    | stream =>
      rw [(saveFrom_stream_eq pre d out d' hk h).1]
      simp only [List.append_assoc]; exact List.prefix_append _ _
  obtain ⟨R0, hR0⟩ := List.IsPrefix.trans h1 h2
  refine ⟨R0 ++ R, ?_, ?_⟩
  · rw [← hR0]; simp [hdrOf]
  · rw [← hR0]; simp only [List.length_append]; omega

theorem skipEols_incr (prev X : Bytes) (hX : ∀ b r, X = b :: r → isEolByte b = false) :
    skipEols ((match prev.getLast? with | none => [] | some b => if b = 10 then [] else [10]) ++ X) = X := by
  have hstop : skipEols X = X := by
    cases X with
    | nil => rfl
    | cons b r => simp [skipEols, hX b r rfl]
  cases prev.getLast? with
  | none => simpa using hstop
  | some b =>
    by_cases hb : b = 10
    · simpa [hb] using hstop
    · simp only [hb, if_false, List.cons_append, List.nil_append, skipEols]
      simpa [isEolByte] using hstop

/-- what the strict reader's revision list must look like, revision by revision -/
def StrictFacts : List (SDoc × Bytes) → List RevData → Prop
  | [], [] => True
  | (d, pre) :: rs, rd :: rds =>
    rd.objs = d.objects.map (fun p => (p.1, nfObj p.2)) ∧ rd.rev.selfId = revSelf d ∧
      rd.rev.trailer = normD (writtenTrailer d pre) ∧ StrictFacts rs rds
  | _, _ => False

theorem prevOf_none (tr : Dict) (h : tr.get PREV = none) : prevOf (normD tr) = .ok none := by
  have : kPrev = PREV := rfl
  simp only [prevOf, this, normD_get, h, Option.map_none]

theorem prevOf_some (tr : Dict) (n : Nat) (h : tr.get PREV = some (.int (n : Int))) :
    prevOf (normD tr) = .ok (some n) := by
  have : kPrev = PREV := rfl
  have hn : ¬ ((n : Int) < 0) := by omega
  simp [prevOf, this, normD_get, h, norm]

/-- **the strict reader's walk down a history**, inside every extension of the file -/
theorem strict_chain : ∀ (revs : List (SDoc × Bytes)) (out : Bytes), History revs out →
    out.length < 4294967296 → (∀ r ∈ revs, ∀ b ∈ r.1.version, notEol b = true) →
    ∀ (R : Bytes) (fuel : Nat), revs.length ≤ fuel →
    ∃ rds v, revisions (out ++ R) fuel (topX revs) = .ok (rds, v, out.length) ∧ StrictFacts revs rds ∧
      (∀ d0, oldestDoc revs = some d0 → v = d0.version) := by
  intro revs out h
  induction h with
  | base d out d' hok hs hprev =>
    intro hlen hver R fuel hf
    have hnd : d.trailer.keys.Nodup := by
      have := hok.tr.1; simp only [WFObj, WF] at this; exact this.1
    have hpv : prevOf (normD (writtenTrailer d [])) = .ok none :=
      prevOf_none _ (by rw [writtenTrailer_free d [] hnd PREV freeKey_PREV]; exact hprev)
    obtain ⟨rev, hsec, htl, hsz, hself, htr, hpr, hwalk⟩ := rev_strict d [] out d' hok hs R hlen none hpv
    obtain ⟨rest, hsplit, hstart⟩ := hdr_split [] d out d' R hs
    have hhead : headerAt (out ++ R) = .ok (d.version, rest) := by
      rw [hsplit]
      exact headerAt_saved d.version d.binaryMark rest (hver (d, []) (by simp)) (saveFrom_mark [] d out d' hs)
    cases fuel with
    | zero => simp at hf
    | succ f =>
      refine ⟨[RevData.mk rev (d.objects.map fun p => (p.1, nfObj p.2))], d.version, ?_, ⟨rfl, hself, htr, trivial⟩, ?_⟩
      · have htop : topX [(d, ([] : Bytes))] = (bodyOf [] d).length := rfl
        rw [htop]
        unfold revisions
        simp only [hsec, htl, hsz, Bool.not_true, Bool.false_eq_true, if_false, hpr, hhead, hstart, hwalk]
      · intro d0 h0; simp [oldestDoc] at h0; rw [h0]
  | step d prevs outprev out d' hprevH hok hs hprev ih =>
    intro hlen hver R fuel hf
    have hs' : saveFrom (incrPre outprev) d = some (out, d') := hs
    have hnd : d.trailer.keys.Nodup := by
      have := hok.tr.1; simp only [WFObj, WF] at this; exact this.1
    have hpv : prevOf (normD (writtenTrailer d (incrPre outprev))) = .ok (some (topX prevs)) :=
      prevOf_some _ _ (by rw [writtenTrailer_free d _ hnd PREV freeKey_PREV]; exact hprev)
    obtain ⟨rev, hsec, htl, hsz, hself, htr, hpr, hwalk⟩ :=
      rev_strict d (incrPre outprev) out d' hok hs' R hlen (some (topX prevs)) hpv
    obtain ⟨R0, hR0⟩ := incr_prefix outprev d out d' hs
    have hlenp : outprev.length < 4294967296 := by
      rw [← hR0] at hlen; simp only [List.length_append] at hlen; omega
    have hxprev := history_topX_lt prevs outprev hprevH hlenp
    have hbge : outprev.length ≤ (bodyOf (incrPre outprev) d).length := by
      have h1 : hdrOf (incrPre outprev) d <+: bodyOf (incrPre outprev) d := writeObjects_prefix _ _ _
      have h0 := h1.length_le
      have h2 : outprev.length ≤ (incrPre outprev).length := by simp [incrPre]
      have h3 : (incrPre outprev).length ≤ (hdrOf (incrPre outprev) d).length := by
        simp only [hdrOf, List.length_append]; omega
      omega
    cases fuel with
    | zero => simp at hf
    | succ f =>
      obtain ⟨rds, v, hrec, hsf, hv0⟩ := ih hlenp (fun r hr => hver r (by simp [hr])) (R0 ++ R) f
        (by simp at hf; omega)
      have hbuf : out ++ R = outprev ++ (R0 ++ R) := by rw [← hR0]; simp
      obtain ⟨rest, hsplit, hstart⟩ := hdr_split (incrPre outprev) d out d' R hs'
      have hhead : headerAt (skipEols ((out ++ R).drop outprev.length)) = .ok (d.version, rest) := by
        have hd : (out ++ R).drop outprev.length
            = (match outprev.getLast? with | none => [] | some b => if b = 10 then [] else [10]) ++
              (PDF_KW ++ (d.version ++ 10 :: 37 :: (d.binaryMark ++ 10 :: rest))) := by
          rw [hsplit]
          simp only [incrPre, List.append_assoc]
          rw [List.drop_left]
          rfl
        rw [hd, skipEols_incr outprev _ (by intro b r hbr; simp [PDF_KW] at hbr; obtain ⟨rfl, _⟩ := hbr; decide)]
        exact headerAt_saved d.version d.binaryMark rest (hver (d, incrPre outprev) (by simp))
          (saveFrom_mark _ d out d' hs')
      have hnot : ¬ (topX prevs ≥ (bodyOf (incrPre outprev) d).length) := by omega
      refine ⟨RevData.mk rev (d.objects.map fun p => (p.1, nfObj p.2)) :: rds, v, ?_, ⟨rfl, hself, htr, hsf⟩, ?_⟩
      · have htop : topX ((d, incrPre outprev) :: prevs) = (bodyOf (incrPre outprev) d).length := rfl
        rw [htop]
        unfold revisions
        rw [← hbuf] at hrec
        simp only [hsec, htl, hsz, Bool.not_true, Bool.false_eq_true, if_false, hpr, hnot, hrec, hhead, hstart,
          hwalk]
      · intro d0 h0
        apply hv0
        have hne := history_ne_nil prevs outprev hprevH
        cases prevs with
        | nil => exact absurd rfl hne
        | cons a l => simpa [oldestDoc, List.getLast?_cons_cons] using h0

/-! ### merging the revisions: the newest object of every number -/

theorem get_filter_num (objs : List (ObjId × Obj)) (q : Nat → Bool) (id : ObjId) :
    Objects.get (objs.filter fun p => q p.1.1) id = if q id.1 then Objects.get objs id else none := by
  induction objs with
  | nil => simp [Objects.get]
  | cons p rest ih =>
    obtain ⟨i, o⟩ := p
    by_cases hq : q i.1 = true
    · simp only [List.filter, hq]
      by_cases hi : i = id
      · subst hi; simp [Objects.get, hq]
      · simp [Objects.get, hi, ih]
    · have hq' : q i.1 = false := by simpa using hq
      simp only [List.filter, hq']
      by_cases hi : i = id
      · subst hi; simp [Objects.get, hq', ih]
      · simp [Objects.get, hi, ih]

theorem get_some_of_mem_key (objs : List (ObjId × Obj)) (p : ObjId × Obj) (h : p ∈ objs) :
    (Objects.get objs p.1).isSome = true := by
  induction objs with
  | nil => simp at h
  | cons q rest ih =>
    obtain ⟨i, o⟩ := q
    by_cases hi : i = p.1
    · simp [Objects.get, hi]
    · simp only [List.mem_cons] at h
      rcases h with h | h
      · subst h; exact absurd rfl hi
      · simp [Objects.get, hi, ih h]

theorem flatten_get_mem : ∀ (L : List (List (ObjId × Obj))) (id : ObjId) (o : Obj),
    Objects.get L.flatten id = some o → ∃ l ∈ L, (id, o) ∈ l := by
  intro L
  induction L with
  | nil => intro id o h; simp [Objects.get] at h
  | cons l rest ih =>
    intro id o h
    rw [List.flatten_cons, Objects_get_append] at h
    cases hl : Objects.get l id with
    | some o' =>
      rw [hl] at h; simp only [Option.orElse_some] at h
      injection h with h; subst h
      exact ⟨l, by simp, Objects_mem_of_get _ _ _ hl⟩
    | none =>
      rw [hl] at h; simp only [Option.orElse_none] at h
      obtain ⟨l', hl', hm⟩ := ih id o h
      exact ⟨l', by simp [hl'], hm⟩

def seenWith (self : Option Nat) (seen : List Nat) : List Nat :=
  match self with | some n => if seen.contains n then seen else n :: seen | none => seen

theorem mem_seenWith (self : Option Nat) (seen : List Nat) (n : Nat) :
    n ∈ seenWith self seen ↔ n ∈ seen ∨ self = some n := by
  unfold seenWith
  cases self with
  | none => simp
  | some m =>
    by_cases hc : m ∈ seen
    · have hc' : seen.contains m = true := by simpa using hc
      simp only [hc', if_true, Option.some.injEq]
      constructor
      · intro h; exact Or.inl h
      · rintro (h | h)
        · exact h
        · rw [← h]; exact hc
    · have hc' : seen.contains m = false := by simpa using hc
      simp only [hc', Bool.false_eq_true, if_false, List.mem_cons, Option.some.injEq]
      constructor
      · rintro (h | h)
        · exact Or.inr h.symm
        · exact Or.inl h
      · rintro (h | h)
        · exact Or.inr h
        · exact Or.inl h.symm

theorem mergeRevs_cons (r : RevData) (rest : List RevData) (seen : List Nat) (acc : List (ObjId × Obj)) :
    mergeRevs (r :: rest) seen acc =
      mergeRevs rest (seenWith r.rev.selfId seen ++ (r.objs.filter fun p => !(seenWith r.rev.selfId seen).contains p.1.1).map (·.1.1))
        (acc ++ r.objs.filter fun p => !(seenWith r.rev.selfId seen).contains p.1.1) := rfl

/-- **`mergeRevs` = newest wins**: with consistent generations and no clash with cross-reference
stream numbers, looking an id up in the merged list is looking it up revision by revision,
newest first -/
theorem merge_lookup : ∀ (rds : List RevData) (seen : List Nat) (acc : List (ObjId × Obj)) (id : ObjId),
    (∀ rd ∈ rds, ∀ n, rd.rev.selfId = some n → ∀ rd' ∈ rds, ∀ p ∈ rd'.objs, p.1.1 ≠ n) →
    (∀ rd1 ∈ rds, ∀ rd2 ∈ rds, ∀ p1 ∈ rd1.objs, ∀ p2 ∈ rd2.objs, p1.1.1 = p2.1.1 → p1.1.2 = p2.1.2) →
    Objects.get (mergeRevs rds seen acc) id =
      (Objects.get acc id).orElse (fun _ => if seen.contains id.1 then none
        else Objects.get (rds.map (·.objs)).flatten id) := by
  intro rds
  induction rds with
  | nil => intro seen acc id _ _; cases h : Objects.get acc id <;> simp [mergeRevs, h, Objects.get]
  | cons r rest ih =>
    intro seen acc id hself hgen
    have hself' : ∀ rd ∈ rest, ∀ n, rd.rev.selfId = some n → ∀ rd' ∈ rest, ∀ p ∈ rd'.objs, p.1.1 ≠ n :=
      fun rd hrd n hn rd' hrd' => hself rd (by simp [hrd]) n hn rd' (by simp [hrd'])
    have hgen' : ∀ rd1 ∈ rest, ∀ rd2 ∈ rest, ∀ p1 ∈ rd1.objs, ∀ p2 ∈ rd2.objs, p1.1.1 = p2.1.1 → p1.1.2 = p2.1.2 :=
      fun rd1 h1 rd2 h2 => hgen rd1 (by simp [h1]) rd2 (by simp [h2])
    rw [mergeRevs_cons]
    generalize hs1 : seenWith r.rev.selfId seen = seen1
    rw [ih _ _ id hself' hgen', Objects_get_append, get_filter_num r.objs (fun n => !seen1.contains n) id]
    simp only [List.map_cons, List.flatten_cons, Objects_get_append]
    cases hacc : Objects.get acc id with
    | some o => simp
    | none =>
      simp only [Option.orElse_none]
      have hseen1 : ∀ n, n ∈ seen1 ↔ (n ∈ seen ∨ r.rev.selfId = some n) := by
        intro n
        rw [← hs1]
        exact mem_seenWith r.rev.selfId seen n
      by_cases hsn : id.1 ∈ seen
      · have h1 : id.1 ∈ seen1 := (hseen1 id.1).mpr (Or.inl hsn)
        simp [hsn, h1]
      · by_cases hsf : r.rev.selfId = some id.1
        · -- the number is a cross-reference stream's: no revision has an object with it
          have h1 : id.1 ∈ seen1 := (hseen1 id.1).mpr (Or.inr hsf)
          have hnone : ∀ rd ∈ r :: rest, Objects.get rd.objs id = none := by
            intro rd hrd
            cases hg : Objects.get rd.objs id with
            | none => rfl
            | some o =>
              exact absurd rfl (hself r (by simp) id.1 hsf rd hrd (id, o) (Objects_mem_of_get _ _ _ hg))
          have hrest : Objects.get (rest.map (·.objs)).flatten id = none := by
            cases hg : Objects.get (rest.map (·.objs)).flatten id with
            | none => rfl
            | some o =>
              obtain ⟨l, hl, hm⟩ := flatten_get_mem _ id o hg
              obtain ⟨rd, hrd, rfl⟩ := List.mem_map.mp hl
              have := hnone rd (by simp [hrd])
              have h2 := get_some_of_mem_key rd.objs (id, o) hm
              simp [this] at h2
          simp [hsn, h1, hnone r (by simp), hrest]
        · have h1 : id.1 ∉ seen1 := by
            intro hc
            rcases (hseen1 id.1).mp hc with h | h
            · exact hsn h
            · exact hsf h
          have c1 : seen1.contains id.1 = false := by simpa using h1
          have c0 : seen.contains id.1 = false := by simpa using hsn
          simp only [c1, c0, Bool.not_false, if_true, Bool.false_eq_true, if_false]
          cases hr : Objects.get r.objs id with
          | some o => simp
          | none =>
            simp only [Option.orElse_none]
            split
            · -- the number is taken by this revision with another generation: older ones cannot have the id
              rename_i hcont
              cases hg : Objects.get (rest.map (·.objs)).flatten id with
              | none => rfl
              | some o =>
                exfalso
                obtain ⟨l, hl, hm⟩ := flatten_get_mem _ id o hg
                obtain ⟨rd, hrd, rfl⟩ := List.mem_map.mp hl
                have hmem : id.1 ∈ seen1 ++ (r.objs.filter fun p => !seen1.contains p.1.1).map (·.1.1) := by
                  simpa using hcont
                rw [List.mem_append] at hmem
                rcases hmem with hm1 | hm1
                · exact h1 hm1
                · obtain ⟨p, hp, hpn⟩ := List.mem_map.mp hm1
                  have hp' := (List.mem_filter.mp hp).1
                  have := hgen r (by simp) rd (by simp [hrd]) p hp' (id, o) hm hpn
                  have hpid : p.1 = id := Prod.ext hpn this
                  have h2 := get_some_of_mem_key r.objs p hp'
                  rw [hpid, hr] at h2
                  cases h2
            · rfl

/-! ### the whole file -/

theorem save_tail (pre : Bytes) (d : SDoc) (out : Bytes) (d' : SDoc) (h : saveFrom pre d = some (out, d')) :
    ∃ X, out = X ++ STARTXREF_KW ++ natDigits (bodyOf pre d).length ++ EOF_KW := by
  cases hk : d.xrefKind with
  | table => exact ⟨_, (saveFrom_table_eq pre d out d' hk h).1⟩
  | stream => exact ⟨_, (saveFrom_stream_eq pre d out d' hk h).1⟩

theorem history_len : ∀ (revs : List (SDoc × Bytes)) (out : Bytes), History revs out →
    out.length < 4294967296 → revs.length ≤ out.length := by
  intro revs out h
  induction h with
  | base d out d' hok hs _ =>
    intro hlen
    have := history_topX_lt _ _ (History.base d out d' hok hs ‹_›) hlen
    simp only [List.length_singleton]; omega
  | step d prevs outprev out d' hprevH hok hs hprev ih =>
    intro hlen
    obtain ⟨R0, hR0⟩ := incr_prefix outprev d out d' hs
    have hlenp : outprev.length < 4294967296 := by
      rw [← hR0] at hlen; simp only [List.length_append] at hlen; omega
    have h1 := ih hlenp
    have hlt := history_topX_lt _ _ (History.step d prevs outprev out d' hprevH hok hs hprev) hlen
    have hbge : outprev.length ≤ (bodyOf (incrPre outprev) d).length := by
      have h1 : hdrOf (incrPre outprev) d <+: bodyOf (incrPre outprev) d := writeObjects_prefix _ _ _
      have h0 := h1.length_le
      have h2 : outprev.length ≤ (incrPre outprev).length := by simp [incrPre]
      have h3 : (incrPre outprev).length ≤ (hdrOf (incrPre outprev) d).length := by
        simp only [hdrOf, List.length_append]; omega
      omega
    simp only [topX] at hlt
    simp only [List.length_cons]; omega

theorem strictFacts_mem : ∀ (revs : List (SDoc × Bytes)) (rds : List RevData), StrictFacts revs rds →
    rds.length = revs.length ∧ rds.map (·.objs) = revs.map (fun r => r.1.objects.map fun p => (p.1, nfObj p.2)) ∧
    rds.filterMap (·.rev.selfId) = revs.filterMap (fun r => revSelf r.1) ∧
    ∀ rd ∈ rds, ∃ r ∈ revs, rd.objs = r.1.objects.map (fun p => (p.1, nfObj p.2)) ∧ rd.rev.selfId = revSelf r.1 := by
  intro revs
  induction revs with
  | nil =>
    intro rds h
    cases rds with
    | nil => simp
    | cons a b => simp [StrictFacts] at h
  | cons r rs ih =>
    intro rds h
    obtain ⟨d, pre⟩ := r
    cases rds with
    | nil => simp [StrictFacts] at h
    | cons rd rest =>
      obtain ⟨h1, h2, _, h4⟩ := h
      obtain ⟨i1, i2, i3, i4⟩ := ih rest h4
      refine ⟨by simp [i1], by simp [h1, i2], ?_, ?_⟩
      · simp only [List.filterMap_cons, h2, i3]
      · intro rd' hrd'
        simp only [List.mem_cons] at hrd'
        rcases hrd' with rfl | hrd'
        · exact ⟨(d, pre), by simp, h1, h2⟩
        · obtain ⟨r, hr, e1, e2⟩ := i4 rd' hrd'
          exact ⟨r, by simp [hr], e1, e2⟩

theorem mem_revObjs_of_doc (d : SDoc) (pre : Bytes) (p : ObjId × Obj) (h : p ∈ d.objects) : p ∈ revObjs d pre := by
  unfold revObjs
  cases d.xrefKind <;> simp [h]

/-- an object of the merged view comes from some revision (or was there before) -/
theorem mergeRevs_mem : ∀ (rds : List RevData) (seen : List Nat) (acc : List (ObjId × Obj)) (p : ObjId × Obj),
    p ∈ mergeRevs rds seen acc → p ∈ acc ∨ ∃ rd ∈ rds, p ∈ rd.objs := by
  intro rds
  induction rds with
  | nil => intro seen acc p h; simp only [mergeRevs] at h; exact Or.inl h
  | cons r rest ih =>
    intro seen acc p h
    simp only [mergeRevs] at h
    rcases ih _ _ p h with h1 | ⟨rd, hrd, hp⟩
    · rcases List.mem_append.mp h1 with h2 | h2
      · exact Or.inl h2
      · exact Or.inr ⟨r, by simp, (List.mem_filter.mp h2).1⟩
    · exact Or.inr ⟨rd, by simp [hrd], hp⟩

/-- the `Size` entry the written trailer carries -/
theorem writtenTrailer_size (d : SDoc) (pre : Bytes) (hnd : d.trailer.keys.Nodup) :
    Dict.get (normD (writtenTrailer d pre)) kSize = some (.int ((revSize d : Nat) : Int)) := by
  have hk : kSize = SIZE := rfl
  rw [hk, normD_get]
  unfold writtenTrailer revSize
  cases d.xrefKind with
  | table =>
    simp only
    rw [Dict_get_set]
    simp only [if_true, Option.map_some]
    simp [norm]
  | stream =>
    simp only
    obtain ⟨_, fS, _, _, f5⟩ := streamTrailer_facts pre d hnd
      (.int (xrefStreamContent (streamSecs (xmapStream pre d) (d.maxId + 1))).length)
    rw [Dict_set_same _ _ _ f5] at fS
    rw [fS]
    simp only [Option.map_some, norm]

/-- **`strict_of_history` (C03).** For every history — a plain save followed by any number of
incremental saves, classic tables and cross-reference streams in any mix, well-formed revisions
(real numbers allowed: the objects come back in normal form `nfObj`, the identity on real-free ones), re-used numbers keep their generation, no document object carries the number of a
cross-reference stream, version texts without line breaks, final file < 4 GiB — the strict
structural reader ACCEPTS the final file: every revision's section, tail, header lines (R7) and
object area tile it. It reports one revision per save, the first header's version, the newest
revision's dictionary as trailer, the numbers of the cross-reference streams, and for EVERY id the
object of the newest revision that holds it. -/
theorem strict_of_history (revs : List (SDoc × Bytes)) (out : Bytes) (h : History revs out)
    (hlen : out.length < 4294967296) (hver : ∀ r ∈ revs, ∀ b ∈ r.1.version, notEol b = true)
    (hgen : GenConsistent revs)
    (hclash : ∀ r1 ∈ revs, ∀ n, revSelf r1.1 = some n → ∀ r2 ∈ revs, ∀ p ∈ r2.1.objects, p.1.1 ≠ n)
    (hsize : ∀ d pre rest, revs = (d, pre) :: rest → ∀ r ∈ revs, ∀ p ∈ r.1.objects, p.1.1 < revSize d) :
    ∃ sd, strictLoad out = .ok sd ∧ sd.revisions = revs.length ∧
      (∀ d0, oldestDoc revs = some d0 → sd.version = d0.version) ∧
      (∀ d pre rest, revs = (d, pre) :: rest → sd.trailer = normD (writtenTrailer d pre)) ∧
      sd.xrefStreamIds = revs.filterMap (fun r => revSelf r.1) ∧
      ∀ id, Objects.get sd.objects id = (Objects.get (revs.map (·.1.objects)).flatten id).map nfObj := by
  obtain ⟨d, pre, prevs, d', _, _, hrevs, _, hs, _⟩ := history_top revs out h hlen
  obtain ⟨X, hX⟩ := save_tail pre d out d' hs
  have hb := body_le_out pre d out d' hs
  have hlast : lastXref out = .ok (topX revs) := by
    rw [hrevs]; simp only [topX]
    rw [hX]; exact lastXref_tail _ _ (by omega)
  obtain ⟨rds, v, hrev, hsf, hv0⟩ := strict_chain revs out h hlen hver [] (out.length + 1)
    (by have := history_len revs out h hlen; omega)
  simp only [List.append_nil] at hrev
  obtain ⟨f1, f2, f3, f4⟩ := strictFacts_mem revs rds hsf
  have hself : ∀ rd ∈ rds, ∀ n, rd.rev.selfId = some n → ∀ rd' ∈ rds, ∀ p ∈ rd'.objs, p.1.1 ≠ n := by
    intro rd hrd n hn rd' hrd' p hp
    obtain ⟨r1, hr1, _, e1⟩ := f4 rd hrd
    obtain ⟨r2, hr2, e2, _⟩ := f4 rd' hrd'
    rw [e2] at hp
    obtain ⟨q, hq, rfl⟩ := List.mem_map.mp hp
    exact hclash r1 hr1 n (by rw [← e1]; exact hn) r2 hr2 q hq
  have hgen' : ∀ rd1 ∈ rds, ∀ rd2 ∈ rds, ∀ p1 ∈ rd1.objs, ∀ p2 ∈ rd2.objs, p1.1.1 = p2.1.1 → p1.1.2 = p2.1.2 := by
    intro rd1 h1 rd2 h2 p1 hp1 p2 hp2 he
    obtain ⟨r1, hr1, e1, _⟩ := f4 rd1 h1
    obtain ⟨r2, hr2, e2, _⟩ := f4 rd2 h2
    rw [e1] at hp1; rw [e2] at hp2
    obtain ⟨q1, hq1, rfl⟩ := List.mem_map.mp hp1
    obtain ⟨q2, hq2, rfl⟩ := List.mem_map.mp hp2
    exact hgen r1 hr1 r2 hr2 q1 (mem_revObjs_of_doc _ _ _ hq1) q2 (mem_revObjs_of_doc _ _ _ hq2) he
  cases hrds : rds with
  | nil =>
    rw [hrds] at f1; rw [hrevs] at f1; simp at f1
  | cons newest older =>
    refine ⟨{ version := v, objects := mergeRevs rds [] [], trailer := newest.rev.trailer, revisions := rds.length,
              xrefStreamIds := rds.filterMap (·.rev.selfId) }, ?_, f1, hv0, ?_, f3, ?_⟩
    · have hnd0 : d.trailer.keys.Nodup := by
        have hok : RevOK d := by assumption
        have := hok.tr.1; simp only [ObjRt.WFObj, ObjRt.WF] at this; exact this.1
      have htrN : newest.rev.trailer = normD (writtenTrailer d pre) := by
        have hsf' := hsf
        rw [hrds, hrevs] at hsf'
        exact hsf'.2.2.1
      have hks : Dict.get newest.rev.trailer kSize = some (.int ((revSize d : Nat) : Int)) := by
        rw [htrN]; exact writtenTrailer_size d pre hnd0
      have hallsz : ((mergeRevs (newest :: older) [] []).all fun p => decide (((p.1.1 : Nat) : Int) < ((revSize d : Nat) : Int))) = true := by
        rw [List.all_eq_true]
        intro p hp
        rcases mergeRevs_mem _ _ _ p hp with h0 | ⟨rd, hrd, hpo⟩
        · simp at h0
        · obtain ⟨r, hr, e1, _⟩ := f4 rd (by rw [hrds]; exact hrd)
          rw [e1] at hpo
          obtain ⟨q, hq, rfl⟩ := List.mem_map.mp hpo
          have := hsize d pre prevs hrevs r hr q hq
          simp only [decide_eq_true_eq]; omega
      unfold strictLoad
      simp only [hlast, hrev, bne_self_eq_false, Bool.false_eq_true, if_false, hrds, hks, hallsz, Bool.not_true]
    · intro d1 pre1 rest1 he
      rw [hrds, he] at hsf
      exact hsf.2.2.1
    · intro id
      rw [merge_lookup rds [] [] id hself hgen', f2]
      have hfl : (revs.map fun r => r.1.objects.map fun p => (p.1, nfObj p.2)).flatten
          = ((revs.map (·.1.objects)).flatten).map fun p => (p.1, nfObj p.2) := by
        rw [List.map_flatten, List.map_map]; rfl
      rw [hfl, Objects_get_mapval]
      simp [Objects.get]

/-- non-vacuity: a one-revision history meets every hypothesis -/
example : ∃ out sd, History [(exDoc, [])] out ∧ strictLoad out = .ok sd ∧ sd.revisions = 1 := by
  obtain ⟨out, d', h, hlen⟩ := exDoc_saves
  have hH : History [(exDoc, [])] out := History.base exDoc out d' exDoc_revOK h (by simp [exDoc, Dict.get])
  obtain ⟨sd, h1, h2, _⟩ := strict_of_history _ out hH hlen
    (by intro r hr b hb; simp at hr; subst hr; simp [exDoc] at hb; rcases hb with h | h | h <;> subst h <;> decide)
    (by intro r1 h1 r2 h2 p1 hp1; simp at h1; subst h1; simp [revObjs, exDoc] at hp1)
    (by intro r1 h1 n hn; simp at h1; subst h1; simp [revSelf, exDoc] at hn)
    (by intro d pre rest he r hr p hp; simp at hr; subst hr; simp [exDoc] at hp)
  exact ⟨out, sd, hH, h1, h2⟩

end Lopdf.Strict
