import LopdfModel.Thm.C11Count
import LopdfModel.Lemmas.Iso
import LopdfModel.Thm.C12
/-
  C11 — property theorems, part 3: `delete_pages` on a well-formed page tree, the whole statement
  (`delete_pages_spec`): the enumeration afterwards is the former one without the named pages, every
  `Count` is exact, the page objects are gone — for arbitrary page-number lists.
-/
namespace Lopdf.Ed
open Lopdf Lopdf.DictL

/-! ### `delete_pages`, the Kids side -/

mutual
/-- the document holds the tree's SHAPE: every leaf is a `Page` dictionary whose `Parent` is its parent node,
every `Pages` node is a dictionary of type `Pages` whose `Kids` is the array of references to its children,
in order; all these dictionaries have pairwise distinct keys -/
def Shape (os : Objects) : Option ObjId → PT → Prop
  | top, .page id => ∃ pd, os.get id = some (.dict pd) ∧ NoDup pd ∧ Dict.get pd TYPE = some (.name PAGE) ∧
      (Dict.get pd PARENT).bind Obj.asRef = top
  | _, .pages id ks => ∃ nd, os.get id = some (.dict nd) ∧ NoDup nd ∧ Dict.get nd TYPE = some (.name PAGES) ∧
      Dict.get nd KIDS = some (.arr (PT.idsL ks)) ∧ ShapeL os (some id) ks
def ShapeL (os : Objects) : Option ObjId → List PT → Prop
  | _, [] => True
  | top, t :: ts => Shape os top t ∧ ShapeL os top ts
end

/-- the explicit form of a dictionary after `delete_object(p)`'s action went through it -/
def delDict (p : ObjId) (nd : Dict) : Dict := deepDict (delAct p) (stripDict p nd)

theorem deep_del_dict (p : ObjId) (nd : Dict) : deepObj (delAct p) (.dict nd) = .dict (delDict p nd) :=
  deepObj_dict (a := delAct p) (es := stripDict p nd) rfl

theorem nodup_delDict (p : ObjId) (nd : Dict) (hn : NoDup nd) : NoDup (delDict p nd) := by
  unfold delDict NoDup; rw [keys_deepDict]; exact nodup_removeKeys hn _

/-- every entry whose value is not itself a reference to `p` is still there, rewritten in depth -/
theorem get_delDict (p : ObjId) (nd : Dict) (hn : NoDup nd) (key : Bytes)
    (hnr : ∀ v, Dict.get nd key = some v → isRefTo p v = false) :
    Dict.get (delDict p nd) key = (Dict.get nd key).map (deepObj (delAct p)) := by
  unfold delDict stripDict
  rw [dictGet_deepDict]
  have hq : key ∉ (nd.filter (fun kv => isRefTo p kv.2)).map (·.1) := by
    intro hm
    obtain ⟨e, he, hek⟩ := List.mem_map.mp hm
    have hmem := List.mem_filter.mp he
    have : Dict.get nd key = some e.2 := get_some_of_mem hn (by rw [← hek]; exact hmem.1)
    have := hnr e.2 this
    rw [this] at hmem; exact absurd hmem.2 (by simp)
  rw [(get_removeKeys hn _ key hq).1]

theorem deep_del_name (p : ObjId) (n : Bytes) : deepObj (delAct p) (.name n) = .name n := by
  rw [deepObj_other] <;> simp [delAct, delFn]

theorem deepList_refs (p : ObjId) : ∀ ts : List PT, deepList (delAct p) (PT.idsL ts) = PT.idsL ts := by
  intro ts
  induction ts with
  | nil => rw [show PT.idsL [] = [] from rfl, deepList]
  | cons t rest ih =>
    rw [idsL_cons, deepList, ih]
    simp [PT.kidObj, deep_del_ref]

theorem isRefTo_kid (p : ObjId) (t : PT) : isRefTo p t.kidObj = decide (t.id = p) := by
  simp [PT.kidObj, isRefTo]

/-- filtering the references to `p` out of a `Kids` array = the `Kids` array of the children without the leaf `p` -/
theorem idsL_removeLeafL (p : ObjId) : ∀ ks : List PT, (∀ t ∈ ks, ∀ id ks2, t = .pages id ks2 → id ≠ p) →
    (PT.idsL ks).filter (fun o => !isRefTo p o) = PT.idsL (removeLeafL p ks)
  | [], _ => by simp [PT.idsL, removeLeafL]
  | .page id :: ts, h => by
    have ih := idsL_removeLeafL p ts (fun t ht => h t (List.mem_cons_of_mem _ ht))
    rw [idsL_cons, List.filter_cons, isRefTo_kid]
    simp only [PT.id, removeLeafL]
    by_cases e : id = p
    · simp [e, ih]
    · simp [e, ih, idsL_cons]
  | .pages id ks2 :: ts, h => by
    have ih := idsL_removeLeafL p ts (fun t ht => h t (List.mem_cons_of_mem _ ht))
    have hne : id ≠ p := h _ List.mem_cons_self id ks2 rfl
    rw [idsL_cons, List.filter_cons, isRefTo_kid]
    simp only [PT.id, removeLeafL, hne, decide_false, Bool.not_false, if_true, idsL_cons, ih]
    simp [PT.kidObj, PT.id]

theorem deep_del_kids (p : ObjId) (ks : List PT) (h : ∀ t ∈ ks, ∀ id ks2, t = .pages id ks2 → id ≠ p) :
    deepObj (delAct p) (.arr (PT.idsL ks)) = .arr (PT.idsL (removeLeafL p ks)) := by
  rw [deepObj_arr (a := delAct p) (items := (PT.idsL ks).filter (fun o => !isRefTo p o)) rfl,
    idsL_removeLeafL p ks h, deepList_refs]


theorem mem_refs_idsL : ∀ (ks : List PT) (t : PT), t ∈ ks → t.id ∈ refsOfL (PT.idsL ks)
  | [], _, h => by cases h
  | x :: xs, t, h => by
    rw [idsL_cons]
    simp only [refsOfL, List.mem_append]
    rcases List.mem_cons.mp h with rfl | h'
    · left; simp [PT.kidObj, refsOf]
    · right; exact mem_refs_idsL xs t h'

theorem mem_removeLeafL_pages (p : ObjId) : ∀ (ks : List PT) (id : ObjId) (ks2 : List PT),
    PT.pages id ks2 ∈ ks → PT.pages id (removeLeafL p ks2) ∈ removeLeafL p ks
  | [], _, _, h => by cases h
  | .page i :: ts, id, ks2, h => by
    have h' : PT.pages id ks2 ∈ ts := by
      rcases List.mem_cons.mp h with e | h'
      · cases e
      · exact h'
    have := mem_removeLeafL_pages p ts id ks2 h'
    simp only [removeLeafL]; split
    · exact this
    · exact List.mem_cons_of_mem _ this
  | .pages i k :: ts, id, ks2, h => by
    simp only [removeLeafL]
    rcases List.mem_cons.mp h with e | h'
    · cases e; exact List.mem_cons_self
    · exact List.mem_cons_of_mem _ (mem_removeLeafL_pages p ts id ks2 h')

theorem mem_nodeIdsL_of_pages : ∀ (ks : List PT) (i : ObjId) (k2 : List PT), PT.pages i k2 ∈ ks → i ∈ nodeIdsL ks
  | [], _, _, h => by cases h
  | x :: xs, i, k2, h => by
    simp only [nodeIdsL, List.mem_append]
    rcases List.mem_cons.mp h with e | h'
    · left; rw [← e]; simp [nodeIds]
    · right; exact mem_nodeIdsL_of_pages xs i k2 h'

section DeleteShape
variable (d : Doc) (p : ObjId)

/-- the ids `delete_object(p)`'s traversal pushed -/
abbrev delRefs : List ObjId := (traverse (delAct p) (stripDict p d.trailer) d.objects).2.2

/-- the object map before the final `objects.remove(p)` -/
abbrev delMid : Objects := (traverse (delAct p) (stripDict p d.trailer) d.objects).2.1

theorem delMid_get (k : ObjId) : (delMid d p).get k =
    if k ∈ delRefs d p then (d.objects.get k).map (deepObj (delAct p)) else d.objects.get k :=
  (traverse_visits_once (delAct p) (stripDict p d.trailer) d.objects).2.2 k

theorem delete_get (k : ObjId) (hk : k ≠ p) : (deleteObject d p).1.objects.get k = (delMid d p).get k := by
  simp [deleteObject, Objects.get_remove, Ne.symm hk]

/-- a page dictionary other than `p`, visited or not, is still a page with the same parent -/
theorem leaf_after (id : ObjId) (hid : id ≠ p) (pd : Dict) (top : Option ObjId) (htop : top ≠ some p)
    (h1 : d.objects.get id = some (.dict pd)) (hn : NoDup pd) (ht : Dict.get pd TYPE = some (.name PAGE))
    (hp : (Dict.get pd PARENT).bind Obj.asRef = top) :
    ∃ pd', (deleteObject d p).1.objects.get id = some (.dict pd') ∧ NoDup pd' ∧
      Dict.get pd' TYPE = some (.name PAGE) ∧ (Dict.get pd' PARENT).bind Obj.asRef = top := by
  rw [delete_get d p id hid, delMid_get, h1]
  by_cases hv : id ∈ delRefs d p
  · simp only [hv, if_true, Option.map_some, deep_del_dict]
    refine ⟨delDict p pd, rfl, nodup_delDict p pd hn, ?_, ?_⟩
    · rw [get_delDict p pd hn TYPE (by intro v hv'; rw [ht] at hv'; cases hv'; rfl), ht]
      simp [deep_del_name]
    · rw [get_delDict p pd hn PARENT (by
        intro v hv'; rw [hv'] at hp; exact isRefTo_false_of_asRef p v top hp htop)]
      cases hg : Dict.get pd PARENT with
      | none => rw [hg] at hp; simpa using hp
      | some v => rw [hg] at hp; simp only [Option.map_some, Option.bind_some, asRef_deep_del]; simpa using hp
  · simp only [hv, if_false]
    exact ⟨pd, rfl, hn, ht, hp⟩

mutual
/-- a visited `Pages` node keeps its shape, with the references to `p` gone from `Kids`, and so do its descendants
(which are visited because the node's new `Kids` still names them) -/
theorem shape_delete_node : ∀ (id : ObjId) (ks : List PT) (top : Option ObjId),
    Shape d.objects top (.pages id ks) → id ∈ delRefs d p → id ≠ p → p ∉ nodeIdsL ks →
    Shape (deleteObject d p).1.objects top (.pages id (removeLeafL p ks))
  | id, ks, top, h, hvis, hid, hpn => by
    simp only [Shape] at h ⊢
    obtain ⟨nd, h1, hn, hty, hkids, hch⟩ := h
    have hkidsne : ∀ t ∈ ks, ∀ i k2, t = .pages i k2 → i ≠ p := by
      intro t ht i k2 e e2
      subst e; subst e2
      exact hpn (mem_nodeIdsL_of_pages ks i k2 ht)
    have hmid : (delMid d p).get id = some (.dict (delDict p nd)) := by
      rw [delMid_get, h1]; simp [hvis, deep_del_dict]
    have hkids' : Dict.get (delDict p nd) KIDS = some (.arr (PT.idsL (removeLeafL p ks))) := by
      rw [get_delDict p nd hn KIDS (by intro v hv; rw [hkids] at hv; cases hv; rfl), hkids]
      simp [deep_del_kids p ks hkidsne]
    refine ⟨delDict p nd, by rw [delete_get d p id hid]; exact hmid, nodup_delDict p nd hn, ?_, hkids', ?_⟩
    · rw [get_delDict p nd hn TYPE (by intro v hv; rw [hty] at hv; cases hv; rfl), hty]; simp [deep_del_name]
    · -- children nodes are visited: the node's new Kids names them
      have hclosed := (traverse_closed (delAct p) (stripDict p d.trailer) d.objects).2 id hvis _ hmid
      have hchild : ∀ t ∈ ks, ∀ i k2, t = .pages i k2 → i ∈ delRefs d p := by
        intro t ht i k2 e
        subst e
        apply hclosed
        simp only [refsOf]
        apply Ren.mem_refsOfD_of_get (delDict p nd) KIDS _ hkids'
        simp only [refsOf]
        exact mem_refs_idsL _ _ (mem_removeLeafL_pages p ks i k2 ht)
      exact shape_delete_list ks id hch hid hchild hpn
theorem shape_delete_list : ∀ (ks : List PT) (par : ObjId),
    ShapeL d.objects (some par) ks → par ≠ p → (∀ t ∈ ks, ∀ i k2, t = .pages i k2 → i ∈ delRefs d p) →
    p ∉ nodeIdsL ks → ShapeL (deleteObject d p).1.objects (some par) (removeLeafL p ks)
  | [], _, _, _, _, _ => by simp [removeLeafL, ShapeL]
  | .page id :: ts, par, h, hpar, hvis, hpn => by
    simp only [ShapeL, Shape] at h
    obtain ⟨⟨pd, h1, hn, hty, hp⟩, hts⟩ := h
    have ih := shape_delete_list ts par hts hpar (fun t ht => hvis t (List.mem_cons_of_mem _ ht))
      (fun hm => hpn (by simp [nodeIdsL, hm]))
    simp only [removeLeafL]
    by_cases e : id = p
    · simp only [e, if_true]; exact ih
    · simp only [e, if_false, ShapeL, Shape]
      exact ⟨leaf_after d p id e pd (some par) (by simp; exact hpar) h1 hn hty hp, ih⟩
  | .pages id ks2 :: ts, par, h, hpar, hvis, hpn => by
    simp only [ShapeL] at h
    simp only [nodeIdsL, nodeIds, List.mem_append, List.mem_cons, not_or] at hpn
    have hid : id ≠ p := fun e => hpn.1.1 e.symm
    have ih := shape_delete_list ts par h.2 hpar (fun t ht => hvis t (List.mem_cons_of_mem _ ht)) hpn.2
    simp only [removeLeafL, ShapeL]
    exact ⟨shape_delete_node id ks2 (some par) h.1 (hvis _ List.mem_cons_self id ks2 rfl) hid hpn.1.2, ih⟩
end

end DeleteShape

/-- an object before / after the `Parent` walk: untouched, or a dictionary in which only `Count` may differ -/
def CountOnly (o o' : Obj) : Prop :=
  o' = o ∨ ∃ nd nd', o = .dict nd ∧ o' = .dict nd' ∧ (NoDup nd → NoDup nd') ∧
    ∀ key, key ≠ COUNT → Dict.get nd' key = Dict.get nd key

theorem countOnly_refl (o : Obj) : CountOnly o o := Or.inl rfl

theorem countOnly_trans {a b c : Obj} (h1 : CountOnly a b) (h2 : CountOnly b c) : CountOnly a c := by
  rcases h1 with rfl | ⟨nd, nd', rfl, rfl, n1, g1⟩
  · exact h2
  · rcases h2 with rfl | ⟨md, md', e, rfl, n2, g2⟩
    · exact Or.inr ⟨nd, nd', rfl, rfl, n1, g1⟩
    · cases e
      exact Or.inr ⟨nd, md', rfl, rfl, fun h => n2 (n1 h), fun k hk => (g2 k hk).trans (g1 k hk)⟩

theorem countOnly_decCount (nd : Dict) : CountOnly (.dict nd) (.dict (decCount nd)) := by
  unfold decCount
  split
  · refine Or.inr ⟨nd, _, rfl, rfl, fun h => nodup_set h _ _, ?_⟩
    intro key hk; rw [Dict.get_set_c11]; simp [Ne.symm hk]
  · exact Or.inl rfl

/-- pointwise: every object after the walk is `CountOnly`-related to what it was; no key appears or disappears -/
def WalkRel (os os' : Objects) : Prop :=
  ∀ x, (os.get x = none → os'.get x = none) ∧ ∀ o, os.get x = some o → ∃ o', os'.get x = some o' ∧ CountOnly o o'

theorem walkRel_refl (os : Objects) : WalkRel os os := fun _ => ⟨id, fun o h => ⟨o, h, countOnly_refl o⟩⟩

theorem walkRel_trans {a b c : Objects} (h1 : WalkRel a b) (h2 : WalkRel b c) : WalkRel a c := by
  intro x
  refine ⟨fun h => (h2 x).1 ((h1 x).1 h), ?_⟩
  intro o ho
  obtain ⟨o1, e1, r1⟩ := (h1 x).2 o ho
  obtain ⟨o2, e2, r2⟩ := (h2 x).2 o1 e1
  exact ⟨o2, e2, countOnly_trans r1 r2⟩

theorem walkRel_set (os : Objects) (id : ObjId) (nd : Dict) (h : os.get id = some (.dict nd)) :
    WalkRel os (os.set id (.dict (decCount nd))) := by
  intro x
  rw [Objects.get_set]
  by_cases e : id = x
  · subst e
    refine ⟨fun hn => (by rw [h] at hn; cases hn), ?_⟩
    intro o ho; rw [h] at ho; cases ho
    exact ⟨_, by simp [h], countOnly_decCount nd⟩
  · simp only [e, if_false]
    exact ⟨fun hh => hh, fun o ho => ⟨o, ho, countOnly_refl o⟩⟩

theorem decCounts_walkRel (os : Objects) (seen : List ObjId) (r : Option ObjId) : WalkRel os (decCounts os seen r) := by
  induction os, seen, r using decCounts.induct with
  | case1 os seen => rw [decCounts_none]; exact walkRel_refl os
  | case2 os seen id hs => rw [decCounts_seen _ _ _ hs]; exact walkRel_refl os
  | case3 os seen id hs pt hg ih =>
    rw [decCounts_dict _ _ _ pt (by simpa using hs) hg]
    exact walkRel_trans (walkRel_set os id pt hg) ih
  | case4 os seen id hs hne =>
    rw [decCounts_other _ _ _ (by simpa using hs) (fun pt h' => hne pt h')]; exact walkRel_refl os

theorem type_ne_count : TYPE ≠ COUNT := by decide
theorem kids_ne_count : KIDS ≠ COUNT := by decide
theorem parent_ne_count : PARENT ≠ COUNT := by decide

mutual
/-- the `Parent` walk (it only rewrites `Count` entries) keeps the tree's shape -/
theorem shape_walk (os os' : Objects) (hr : WalkRel os os') : ∀ (t : PT) (top : Option ObjId), Shape os top t → Shape os' top t
  | .page id, top, h => by
    simp only [Shape] at h ⊢
    obtain ⟨pd, h1, hn, hty, hp⟩ := h
    obtain ⟨o', e', r⟩ := (hr id).2 _ h1
    rcases r with rfl | ⟨nd, nd', e, rfl, n1, g1⟩
    · exact ⟨pd, e', hn, hty, hp⟩
    · cases e
      exact ⟨nd', e', n1 hn, by rw [g1 TYPE type_ne_count]; exact hty, by rw [g1 PARENT parent_ne_count]; exact hp⟩
  | .pages id ks, top, h => by
    simp only [Shape] at h ⊢
    obtain ⟨nd0, h1, hn, hty, hk, hch⟩ := h
    obtain ⟨o', e', r⟩ := (hr id).2 _ h1
    rcases r with rfl | ⟨nd, nd', e, rfl, n1, g1⟩
    · exact ⟨nd0, e', hn, hty, hk, shapeL_walk os os' hr ks (some id) hch⟩
    · cases e
      exact ⟨nd', e', n1 hn, by rw [g1 TYPE type_ne_count]; exact hty, by rw [g1 KIDS kids_ne_count]; exact hk,
        shapeL_walk os os' hr ks (some id) hch⟩
theorem shapeL_walk (os os' : Objects) (hr : WalkRel os os') : ∀ (ks : List PT) (top : Option ObjId), ShapeL os top ks → ShapeL os' top ks
  | [], _, _ => trivial
  | t :: ts, top, h => by
    simp only [ShapeL] at h ⊢
    exact ⟨shape_walk os os' hr t top h.1, shapeL_walk os os' hr ts top h.2⟩
end

/-! #### from the shape to the enumeration -/

theorem getDictionary_direct (os : Objects) (id : ObjId) (dd : Dict) (h : os.get id = some (.dict dd)) :
    getDictionary os id = some dd := by
  simp [getDictionary, getObject, h, deref, derefAux, Obj.asDict]

theorem getType_of_name (dd : Dict) (n : Bytes) (h : Dict.get dd TYPE = some (.name n)) : Dict.getType dd = some n := by
  simp [Dict.getType, h, Obj.asName]

theorem kidsOf_direct (os : Objects) (id : ObjId) (dd : Dict) (items : List Obj) (h : os.get id = some (.dict dd))
    (hk : Dict.get dd KIDS = some (.arr items)) : kidsOf os id = some items := by
  simp [kidsOf, getDictionary_direct os id dd h, hk, deref, derefAux, Obj.asArr]

theorem page_ne_pages : ¬ (PAGES = PAGE) := by decide

mutual
theorem embeds_of_shape (os : Objects) : ∀ (t : PT) (top : Option ObjId), Shape os top t → Embeds (classify os) t
  | .page id, top, h => by
    simp only [Shape] at h
    obtain ⟨pd, h1, _, hty, _⟩ := h
    simp only [Embeds]
    simp [classify, Obj.asRef, getDictionary_direct os id pd h1, getType_of_name pd PAGE hty]
  | .pages id ks, top, h => by
    simp only [Shape] at h
    obtain ⟨nd, h1, _, hty, hk, hch⟩ := h
    simp only [Embeds]
    refine ⟨?_, embedsL_of_shape os ks (some id) hch⟩
    simp [classify, Obj.asRef, getDictionary_direct os id nd h1, getType_of_name nd PAGES hty, page_ne_pages,
      kidsOf_direct os id nd _ h1 hk]
theorem embedsL_of_shape (os : Objects) : ∀ (ks : List PT) (top : Option ObjId), ShapeL os top ks → EmbedsL (classify os) ks
  | [], _, _ => by simp [EmbedsL]
  | t :: ts, top, h => by
    simp only [ShapeL] at h
    simp only [EmbedsL]
    exact ⟨embeds_of_shape os t top h.1, embedsL_of_shape os ts top h.2⟩
end

mutual
theorem size_eq : ∀ t : PT, t.size = (nodeIds t).length + t.leaves.length
  | .page _ => by simp [PT.size, nodeIds, PT.leaves]
  | .pages id ks => by simp [PT.size, nodeIds, PT.leaves, sizeL_eq ks]; omega
theorem sizeL_eq : ∀ ks : List PT, PT.sizeL ks = (nodeIdsL ks).length + (PT.leavesL ks).length
  | [] => by simp [PT.sizeL, nodeIdsL, PT.leavesL]
  | t :: ts => by simp [PT.sizeL, nodeIdsL, PT.leavesL, size_eq t, sizeL_eq ts]; omega
end

mutual
theorem shape_leaves_keys (os : Objects) : ∀ (t : PT) (top : Option ObjId), Shape os top t →
    (∀ x ∈ t.leaves, x ∈ os.keys) ∧ (∀ x ∈ nodeIds t, x ∈ os.keys)
  | .page id, top, h => by
    simp only [Shape] at h
    obtain ⟨pd, h1, _⟩ := h
    simp only [PT.leaves, nodeIds]
    exact ⟨fun x hx => by simp at hx; subst hx; exact Objects.mem_keys_of_get h1, fun x hx => by cases hx⟩
  | .pages id ks, top, h => by
    simp only [Shape] at h
    obtain ⟨nd, h1, _, _, _, hch⟩ := h
    have ih := shapeL_leaves_keys os ks (some id) hch
    simp only [PT.leaves, nodeIds]
    refine ⟨ih.1, fun x hx => ?_⟩
    rcases List.mem_cons.mp hx with rfl | hx'
    · exact Objects.mem_keys_of_get h1
    · exact ih.2 x hx'
theorem shapeL_leaves_keys (os : Objects) : ∀ (ks : List PT) (top : Option ObjId), ShapeL os top ks →
    (∀ x ∈ PT.leavesL ks, x ∈ os.keys) ∧ (∀ x ∈ nodeIdsL ks, x ∈ os.keys)
  | [], _, _ => by simp [PT.leavesL, nodeIdsL]
  | t :: ts, top, h => by
    simp only [ShapeL] at h
    have i1 := shape_leaves_keys os t top h.1
    have i2 := shapeL_leaves_keys os ts top h.2
    simp only [PT.leavesL, nodeIdsL, List.mem_append]
    exact ⟨fun x hx => hx.elim (i1.1 x) (i2.1 x), fun x hx => hx.elim (i1.2 x) (i2.2 x)⟩
end

/-- **the well-formed document around a page tree**: trailer → catalog → root `Pages` node `rid` with children
`ks`; shape and bookkeeping exact; node ids, leaf ids and the catalog id pairwise distinct; nesting within the
documented limit -/
structure PagesInv (d : Doc) (cat rid : ObjId) (ks : List PT) : Prop where
  trN : NoDup d.trailer
  trRoot : Dict.get d.trailer ROOT = some (.ref cat.1 cat.2)
  catObj : ∃ cd, d.objects.get cat = some (.dict cd) ∧ NoDup cd ∧ Dict.get cd PAGES = some (.ref rid.1 rid.2)
  shape : Shape d.objects none (.pages rid ks)
  counts : TreeOK d.objects none (.pages rid ks)
  nodesN : (nodeIds (.pages rid ks)).Nodup
  leavesN : (PT.leavesL ks).Nodup
  disj : ∀ x ∈ PT.leavesL ks, x ∉ nodeIds (.pages rid ks)
  catOut : cat ∉ nodeIds (.pages rid ks) ∧ cat ∉ PT.leavesL ks
  height : PT.heightL ks ≤ Gen.PAGE_TREE_DEPTH_LIMIT

/-- in a well-formed document `page_iter` enumerates exactly the tree's leaves, in order -/
theorem pageIter_of_inv (d : Doc) (cat rid : ObjId) (ks : List PT) (h : PagesInv d cat rid ks) :
    pageIter d.trailer d.objects = PT.leavesL ks := by
  obtain ⟨cd, hc1, _, hc3⟩ := h.catObj
  have hsh := h.shape
  simp only [Shape] at hsh
  obtain ⟨nd, h1, _, _, hk, hch⟩ := hsh
  unfold pageIter
  simp only [h.trRoot, Option.bind_some, Obj.asRef, getDictionary_direct d.objects cat cd hc1, hc3,
    kidsOf_direct d.objects rid nd _ h1 hk]
  apply iter_dfs (classify d.objects) ks d.objects.length (embedsL_of_shape d.objects ks (some rid) hch) _ h.height
  rw [sizeL_eq]
  have hkeys := shapeL_leaves_keys d.objects ks (some rid) hch
  have hnd : (nodeIdsL ks ++ PT.leavesL ks).Nodup := by
    rw [List.nodup_append]
    have hn := h.nodesN
    simp only [nodeIds, List.nodup_cons] at hn
    refine ⟨hn.2, h.leavesN, ?_⟩
    intro a ha b hb e
    subst e
    exact h.disj a hb (by simp [nodeIds, ha])
  have := nodup_subset_length hnd (m := d.objects.keys) (fun x hx => by
    rcases List.mem_append.mp hx with hx | hx
    · exact hkeys.2 x hx
    · exact hkeys.1 x hx)
  simpa [Objects.keys] using this

/-! #### `delete_object` on a well-formed document -/

mutual
theorem shape_nodesNoDup (os : Objects) : ∀ (t : PT) (top : Option ObjId), Shape os top t → NodesNoDup os (nodeIds t)
  | .page _, _, _ => by intro id hid; simp [nodeIds] at hid
  | .pages id ks, top, h => by
    simp only [Shape] at h
    obtain ⟨nd, h1, hn, _, _, hch⟩ := h
    intro x hx nd' hx'
    simp only [nodeIds, List.mem_cons] at hx
    rcases hx with rfl | hx
    · rw [h1] at hx'; cases hx'; exact hn
    · exact shapeL_nodesNoDup os ks (some id) hch x hx nd' hx'
theorem shapeL_nodesNoDup (os : Objects) : ∀ (ks : List PT) (top : Option ObjId), ShapeL os top ks → NodesNoDup os (nodeIdsL ks)
  | [], _, _ => by intro id hid; simp [nodeIdsL] at hid
  | t :: ts, top, h => by
    simp only [ShapeL] at h
    intro x hx nd' hx'
    simp only [nodeIdsL, List.mem_append] at hx
    rcases hx with hx | hx
    · exact shape_nodesNoDup os t top h.1 x hx nd' hx'
    · exact shapeL_nodesNoDup os ts top h.2 x hx nd' hx'
end

mutual
theorem height_removeLeaf (p : ObjId) : ∀ t : PT, (removeLeaf p t).height ≤ t.height
  | .page _ => by simp [removeLeaf]
  | .pages id ks => by simp only [removeLeaf, PT.height]; have := heightL_removeLeafL p ks; omega
theorem heightL_removeLeafL (p : ObjId) : ∀ ks : List PT, PT.heightL (removeLeafL p ks) ≤ PT.heightL ks
  | [] => by simp [removeLeafL]
  | .page id :: ts => by
    have := heightL_removeLeafL p ts
    simp only [removeLeafL]; split
    · simp only [PT.heightL, PT.height]; omega
    · simp only [PT.heightL, PT.height]; omega
  | .pages id ks2 :: ts => by
    have h1 := heightL_removeLeafL p ks2
    have h2 := heightL_removeLeafL p ts
    simp only [removeLeafL, PT.heightL, PT.height]; omega
end

theorem deep_del_ref' (p : ObjId) (x : ObjId) : deepObj (delAct p) (.ref x.1 x.2) = .ref x.1 x.2 := deep_del_ref p x.1 x.2

theorem isRefTo_ref_ne (p x : ObjId) (h : x ≠ p) : isRefTo p (.ref x.1 x.2) = false := by
  simp [isRefTo]; intro e; exact h (Prod.ext (by simpa using congrArg Prod.fst e) (by simpa using congrArg Prod.snd e))

/-- what `delete_object(p)` leaves of a well-formed document when `p` is neither a `Pages` node nor the catalog:
the anchoring (trailer → catalog → root), the shape of the tree without the leaf `p`, and the OLD bookkeeping -/
theorem inv_deleteObject (d : Doc) (cat rid : ObjId) (ks : List PT) (h : PagesInv d cat rid ks) (p : ObjId)
    (hpn : p ∉ nodeIds (.pages rid ks)) (hpc : p ≠ cat) :
    NoDup (deleteObject d p).1.trailer ∧
    Dict.get (deleteObject d p).1.trailer ROOT = some (.ref cat.1 cat.2) ∧
    (∃ cd, (deleteObject d p).1.objects.get cat = some (.dict cd) ∧ NoDup cd ∧ Dict.get cd PAGES = some (.ref rid.1 rid.2)) ∧
    Shape (deleteObject d p).1.objects none (.pages rid (removeLeafL p ks)) ∧
    TreeOK (deleteObject d p).1.objects none (.pages rid ks) := by
  have hcp : cat ≠ p := fun e => hpc e.symm
  have hrp : rid ≠ p := fun e => hpn (by simp [nodeIds, e])
  have htr : (deleteObject d p).1.trailer = delDict p d.trailer :=
    (traverse_visits_once (delAct p) (stripDict p d.trailer) d.objects).1
  have hroot : Dict.get (delDict p d.trailer) ROOT = some (.ref cat.1 cat.2) := by
    rw [get_delDict p d.trailer h.trN ROOT (by intro v hv; rw [h.trRoot] at hv; cases hv; exact isRefTo_ref_ne p cat hcp),
      h.trRoot]; simp [deep_del_ref']
  obtain ⟨cd, hc1, hc2, hc3⟩ := h.catObj
  -- the catalog is visited
  have hcatv : cat ∈ delRefs d p := by
    apply (traverse_closed (delAct p) (stripDict p d.trailer) d.objects).1
    have e : (traverse (delAct p) (stripDict p d.trailer) d.objects).1 = delDict p d.trailer :=
      (traverse_visits_once (delAct p) (stripDict p d.trailer) d.objects).1
    rw [e]
    apply Ren.mem_refsOfD_of_get (delDict p d.trailer) ROOT _ hroot
    simp [refsOf]
  have hcatmid : (delMid d p).get cat = some (.dict (delDict p cd)) := by
    rw [delMid_get, hc1]; simp [hcatv, deep_del_dict]
  have hpages : Dict.get (delDict p cd) PAGES = some (.ref rid.1 rid.2) := by
    rw [get_delDict p cd hc2 PAGES (by intro v hv; rw [hc3] at hv; cases hv; exact isRefTo_ref_ne p rid hrp), hc3]
    simp [deep_del_ref']
  -- so is the root
  have hrootv : rid ∈ delRefs d p := by
    apply (traverse_closed (delAct p) (stripDict p d.trailer) d.objects).2 cat hcatv _ hcatmid
    simp only [refsOf]
    apply Ren.mem_refsOfD_of_get (delDict p cd) PAGES _ hpages
    simp [refsOf]
  refine ⟨by rw [htr]; exact nodup_delDict p _ h.trN, by rw [htr]; exact hroot,
    ⟨delDict p cd, by rw [delete_get d p cat hcp]; exact hcatmid, nodup_delDict p cd hc2, hpages⟩, ?_, ?_⟩
  · exact shape_delete_node d p rid ks none h.shape hrootv hrp (fun hm => hpn (by simp [nodeIds, hm]))
  · exact treeOK_delete d p (.pages rid ks) none h.counts (by simp) hpn (shape_nodesNoDup d.objects _ none h.shape)

/-! #### one iteration of `delete_pages` on a well-formed document -/

/-- the explicit result of one iteration when page number `n` is a dictionary whose `Parent` is `q` -/
theorem deletePage1_eq (d : Doc) (pages : List ObjId) (n : Nat) (p q : ObjId) (pd : Dict)
    (hn0 : n ≠ 0) (hpg : pages[n - 1]? = some p)
    (hpo : d.objects.get p = some (.dict pd)) (hpdn : NoDup pd)
    (hpp : (Dict.get pd PARENT).bind Obj.asRef = some q) (hqp : q ≠ p) :
    deletePage1 pages d n =
      { (deleteObject d p).1 with objects := decCounts (deleteObject d p).1.objects [] (some q) } := by
  have hret : ∃ pd', (deleteObject d p).2 = some (.dict pd') ∧ (Dict.get pd' PARENT).bind Obj.asRef = some q := by
    obtain ⟨pd1, e1, b1, _⟩ := book_preserved p pd hpdn (some q) (by simp; exact hqp) hpp
    have hv := (traverse_visits_once (delAct p) (stripDict p d.trailer) d.objects).2.2 p
    simp only [deleteObject]
    rw [hv, hpo]
    by_cases hvis : p ∈ (traverse (delAct p) (stripDict p d.trailer) d.objects).2.2
    · simp only [hvis, if_true, Option.map_some, e1]; exact ⟨pd1, rfl, b1⟩
    · simp only [hvis, if_false]; exact ⟨pd, rfl, hpp⟩
  obtain ⟨pd', hr1, hr2⟩ := hret
  unfold deletePage1
  simp only [hn0, if_false, hpg]
  cases hdo : deleteObject d p with
  | mk d1 ro =>
    rw [hdo] at hr1
    simp only at hr1
    subst hr1
    simp only [Obj.asDict, Option.bind_some, hr2]

/-- when the page object is already gone nothing is handed back and no `Count` is touched -/
theorem deletePage1_absent (d : Doc) (pages : List ObjId) (n : Nat) (p : ObjId)
    (hn0 : n ≠ 0) (hpg : pages[n - 1]? = some p) (hpo : d.objects.get p = none) :
    deletePage1 pages d n = (deleteObject d p).1 := by
  have hret : (deleteObject d p).2 = none := by
    have hv := (traverse_visits_once (delAct p) (stripDict p d.trailer) d.objects).2.2 p
    simp only [deleteObject]; rw [hv, hpo]; simp
  unfold deletePage1
  simp only [hn0, if_false, hpg]
  cases hdo : deleteObject d p with
  | mk d1 ro => rw [hdo] at hret; simp only at hret; subst hret; rfl

mutual
/-- in a well-shaped tree every leaf names, as its `Parent`, the node that lists it -/
theorem leaf_parent_node (os : Objects) (p : ObjId) : ∀ (id : ObjId) (ks : List PT) (top : Option ObjId),
    Shape os top (.pages id ks) → p ∈ PT.leavesL ks →
    ∃ q pd, IsParent q p (.pages id ks) ∧ q ∈ nodeIds (.pages id ks) ∧ os.get p = some (.dict pd) ∧ NoDup pd ∧
      (Dict.get pd PARENT).bind Obj.asRef = some q
  | id, ks, top, h, hp => by
    simp only [Shape] at h
    obtain ⟨_, _, _, _, _, hch⟩ := h
    obtain ⟨q, pd, hq, hqn, h1, h2, h3⟩ := leaf_parent_list os p ks id hch hp
    refine ⟨q, pd, ?_, ?_, h1, h2, h3⟩
    · simp only [IsParent]
      rcases hq with ⟨e, hd⟩ | hq
      · exact Or.inl ⟨e.symm, hd⟩
      · exact Or.inr hq
    · simp only [nodeIds, List.mem_cons]
      rcases hqn with e | hqn
      · exact Or.inl e
      · exact Or.inr hqn
theorem leaf_parent_list (os : Objects) (p : ObjId) : ∀ (ks : List PT) (par : ObjId),
    ShapeL os (some par) ks → p ∈ PT.leavesL ks →
    ∃ q pd, ((q = par ∧ DirectLeaf p ks) ∨ IsParentL q p ks) ∧ (q = par ∨ q ∈ nodeIdsL ks) ∧
      os.get p = some (.dict pd) ∧ NoDup pd ∧ (Dict.get pd PARENT).bind Obj.asRef = some q
  | [], _, _, hp => by simp [PT.leavesL] at hp
  | .page id :: ts, par, h, hp => by
    simp only [ShapeL, Shape] at h
    obtain ⟨⟨pd, h1, hn, _, hpar⟩, hts⟩ := h
    simp only [PT.leavesL, PT.leaves, List.mem_append, List.mem_singleton] at hp
    by_cases e : id = p
    · subst e
      exact ⟨par, pd, Or.inl ⟨rfl, by simp [DirectLeaf]⟩, Or.inl rfl, h1, hn, hpar⟩
    · have hp' : p ∈ PT.leavesL ts := by rcases hp with hp | hp; exact absurd hp.symm e; exact hp
      obtain ⟨q, pd', hq, hqn, r1, r2, r3⟩ := leaf_parent_list os p ts par hts hp'
      refine ⟨q, pd', ?_, ?_, r1, r2, r3⟩
      · rcases hq with ⟨e1, hd⟩ | hq
        · exact Or.inl ⟨e1, by simp [DirectLeaf, hd]⟩
        · exact Or.inr (by simp [IsParentL, IsParent, hq])
      · rcases hqn with e1 | hqn
        · exact Or.inl e1
        · exact Or.inr (by simp [nodeIdsL, nodeIds, hqn])
  | .pages id ks2 :: ts, par, h, hp => by
    simp only [ShapeL] at h
    simp only [PT.leavesL, PT.leaves, List.mem_append] at hp
    rcases hp with hp | hp
    · obtain ⟨q, pd, hq, hqn, r1, r2, r3⟩ := leaf_parent_node os p id ks2 (some par) h.1 hp
      exact ⟨q, pd, Or.inr (by simp [IsParentL, hq]), Or.inr (by simp [nodeIdsL, hqn]), r1, r2, r3⟩
    · obtain ⟨q, pd, hq, hqn, r1, r2, r3⟩ := leaf_parent_list os p ts par h.2 hp
      refine ⟨q, pd, ?_, ?_, r1, r2, r3⟩
      · rcases hq with ⟨e1, hd⟩ | hq
        · exact Or.inl ⟨e1, by simp [DirectLeaf, hd]⟩
        · exact Or.inr (by simp [IsParentL, hq])
      · rcases hqn with e1 | hqn
        · exact Or.inl e1
        · exact Or.inr (by simp [nodeIdsL, hqn])
end

theorem deleteObject_none (d : Doc) (p x : ObjId) (h : d.objects.get x = none) : (deleteObject d p).1.objects.get x = none := by
  cases hg : (deleteObject d p).1.objects.get x with
  | none => rfl
  | some o => have := deleteObject_isSome d p x (by simp [hg]); rw [h] at this; cases this

/-- the structural part of the invariant moves from `ks` to `removeLeafL p ks` for free -/
theorem inv_struct (d : Doc) (cat rid : ObjId) (ks : List PT) (h : PagesInv d cat rid ks) (p : ObjId) :
    (nodeIds (.pages rid (removeLeafL p ks))).Nodup ∧ (PT.leavesL (removeLeafL p ks)).Nodup ∧
    (∀ x ∈ PT.leavesL (removeLeafL p ks), x ∉ nodeIds (.pages rid (removeLeafL p ks))) ∧
    (cat ∉ nodeIds (.pages rid (removeLeafL p ks)) ∧ cat ∉ PT.leavesL (removeLeafL p ks)) ∧
    PT.heightL (removeLeafL p ks) ≤ Gen.PAGE_TREE_DEPTH_LIMIT := by
  have e1 : nodeIds (.pages rid (removeLeafL p ks)) = nodeIds (.pages rid ks) := by simp [nodeIds, nodeIdsL_removeLeafL]
  have hsub : ∀ x ∈ PT.leavesL (removeLeafL p ks), x ∈ PT.leavesL ks := by
    intro x hx; rw [leavesL_removeLeafL] at hx; exact (List.mem_filter.mp hx).1
  refine ⟨by rw [e1]; exact h.nodesN, ?_, ?_, ⟨by rw [e1]; exact h.catOut.1, fun hm => h.catOut.2 (hsub _ hm)⟩,
    Nat.le_trans (heightL_removeLeafL p ks) h.height⟩
  · rw [leavesL_removeLeafL]; exact List.Nodup.sublist List.filter_sublist h.leavesN
  · intro x hx; rw [e1]; exact h.disj x (hsub x hx)

/-- **one iteration of `delete_pages` keeps the document well-formed**, for the tree without the page. The page
named by number `n` is a leaf of the current tree, or was deleted before (no object any more). -/
theorem inv_deletePage1 (d : Doc) (cat rid : ObjId) (ks : List PT) (h : PagesInv d cat rid ks)
    (pages : List ObjId) (n : Nat) (p : ObjId) (hn0 : n ≠ 0) (hpg : pages[n - 1]? = some p)
    (hpn : p ∉ nodeIds (.pages rid ks)) (hpc : p ≠ cat)
    (hp : p ∈ PT.leavesL ks ∨ d.objects.get p = none) :
    PagesInv (deletePage1 pages d n) cat rid (removeLeafL p ks) ∧ (deletePage1 pages d n).objects.get p = none ∧
    ∀ x, d.objects.get x = none → (deletePage1 pages d n).objects.get x = none := by
  obtain ⟨i1, i2, i3, i4, i5⟩ := inv_deleteObject d cat rid ks h p hpn hpc
  obtain ⟨s1, s2, s3, s4, s5⟩ := inv_struct d cat rid ks h p
  by_cases hgone : d.objects.get p = none
  · -- already deleted: nothing but the (idle) stripping pass happens
    rw [deletePage1_absent d pages n p hn0 hpg hgone]
    have hnl : p ∉ PT.leavesL ks := by
      intro hm
      have := (shapeL_leaves_keys d.objects ks (some rid) (by
        have := h.shape; simp only [Shape] at this; obtain ⟨_, _, _, _, _, hch⟩ := this; exact hch)).1 p hm
      have := (Objects.mem_keys_iff d.objects p).mp this
      rw [hgone] at this; cases this
    have e : removeLeafL p ks = ks := removeLeafL_of_not_mem p ks hnl
    refine ⟨?_, deleteObject_none d p p hgone, fun x hx => deleteObject_none d p x hx⟩
    rw [e]; rw [e] at i4
    exact ⟨i1, i2, i3, i4, i5, h.nodesN, h.leavesN, h.disj, h.catOut, h.height⟩
  · have hpl : p ∈ PT.leavesL ks := hp.resolve_right hgone
    obtain ⟨q, pd, hq, hqn, hpo, hpdn, hpp⟩ := leaf_parent_node d.objects p rid ks none h.shape hpl
    have hqp : q ≠ p := fun e => hpn (e ▸ hqn)
    rw [deletePage1_eq d pages n p q pd hn0 hpg hpo hpdn hpp hqp]
    obtain ⟨w1, w2⟩ := delete_pages_count p q (.pages rid ks) (deleteObject d p).1.objects hq h.nodesN
      (by simpa [PT.leaves] using h.leavesN) i5
    have hrel := decCounts_walkRel (deleteObject d p).1.objects [] (some q)
    refine ⟨⟨i1, i2, ?_, ?_, ?_, s1, s2, s3, s4, s5⟩, ?_, ?_⟩
    · obtain ⟨cd, c1, c2, c3⟩ := i3
      exact ⟨cd, by simp only; rw [w2 cat h.catOut.1]; exact c1, c2, c3⟩
    · exact shape_walk _ _ hrel _ none i4
    · simpa [removeLeaf] using w1
    · simp only; rw [w2 p hpn]; exact (delete_effect d p).1
    · intro x hx; exact (hrel x).1 (deleteObject_none d p x hx)

/-! #### the whole call -/

/-- the page a 1-based page number names in the enumeration taken at entry (`pages.get(page_number)`) -/
def pickPage (pages : List ObjId) (n : Nat) : Option ObjId := if n = 0 then none else pages[n - 1]?

/-- the pages a list of page numbers names: duplicates, 0 and numbers past the end simply name nothing new -/
def namedPages (pages : List ObjId) (ns : List Nat) : List ObjId := ns.filterMap (pickPage pages)

theorem deletePage1_noop (pages : List ObjId) (d : Doc) (n : Nat) (h : pickPage pages n = none) :
    deletePage1 pages d n = d := by
  unfold deletePage1; unfold pickPage at h; rw [h]

/-- what the loop of `delete_pages` carries from one page number to the next -/
structure LoopInv (pages : List ObjId) (cat rid : ObjId) (nodes : List ObjId) (d : Doc) (ks : List PT) : Prop where
  inv : PagesInv d cat rid ks
  nodesEq : nodeIds (.pages rid ks) = nodes
  live : ∀ x ∈ pages, x ∈ PT.leavesL ks ∨ d.objects.get x = none

theorem loop_step (pages : List ObjId) (cat rid : ObjId) (nodes : List ObjId)
    (hpn : ∀ x ∈ pages, x ∉ nodes) (hpc : cat ∉ pages) (d : Doc) (ks : List PT) (n : Nat) (p : ObjId)
    (h : LoopInv pages cat rid nodes d ks) (hp : pickPage pages n = some p) :
    LoopInv pages cat rid nodes (deletePage1 pages d n) (removeLeafL p ks) ∧
    (deletePage1 pages d n).objects.get p = none ∧
    ∀ x, d.objects.get x = none → (deletePage1 pages d n).objects.get x = none := by
  have hn0 : n ≠ 0 := by intro e; simp [pickPage, e] at hp
  have hpg : pages[n - 1]? = some p := by simpa [pickPage, hn0] using hp
  have hmem : p ∈ pages := List.mem_of_getElem? hpg
  obtain ⟨r1, r2, r3⟩ := inv_deletePage1 d cat rid ks h.inv pages n p hn0 hpg
    (by rw [h.nodesEq]; exact hpn p hmem) (fun e => hpc (e ▸ hmem)) (h.live p hmem)
  refine ⟨⟨r1, by rw [← h.nodesEq]; simp [nodeIds, nodeIdsL_removeLeafL], ?_⟩, r2, r3⟩
  intro x hx
  by_cases e : x = p
  · right; rw [e]; exact r2
  · rcases h.live x hx with hl | hg
    · left; rw [leavesL_removeLeafL]; exact List.mem_filter.mpr ⟨hl, by simp [e]⟩
    · right; exact r3 x hg

theorem loop_run (pages : List ObjId) (cat rid : ObjId) (nodes : List ObjId)
    (hpn : ∀ x ∈ pages, x ∉ nodes) (hpc : cat ∉ pages) : ∀ (ns : List Nat) (d : Doc) (ks : List PT),
    LoopInv pages cat rid nodes d ks →
    ∃ ks', LoopInv pages cat rid nodes (ns.foldl (fun acc n => deletePage1 pages acc n) d) ks' ∧
      PT.leavesL ks' = (PT.leavesL ks).filter (fun x => !(namedPages pages ns).contains x) ∧
      (∀ x, d.objects.get x = none → (ns.foldl (fun acc n => deletePage1 pages acc n) d).objects.get x = none) ∧
      (∀ x ∈ namedPages pages ns, (ns.foldl (fun acc n => deletePage1 pages acc n) d).objects.get x = none) := by
  intro ns
  induction ns with
  | nil =>
    intro d ks h
    exact ⟨ks, h, (List.filter_eq_self.mpr (by simp [namedPages])).symm, fun _ hx => hx, by simp [namedPages]⟩
  | cons n rest ih =>
    intro d ks h
    simp only [List.foldl_cons]
    cases hp : pickPage pages n with
    | none =>
      rw [deletePage1_noop pages d n hp]
      obtain ⟨ks', a1, a2, a3, a4⟩ := ih d ks h
      refine ⟨ks', a1, ?_, a3, ?_⟩
      · rw [a2]; simp [namedPages, hp]
      · intro x hx; apply a4; simpa [namedPages, hp] using hx
    | some p =>
      obtain ⟨s1, s2, s3⟩ := loop_step pages cat rid nodes hpn hpc d ks n p h hp
      obtain ⟨ks', a1, a2, a3, a4⟩ := ih _ _ s1
      refine ⟨ks', a1, ?_, fun x hx => a3 x (s3 x hx), ?_⟩
      · rw [a2, leavesL_removeLeafL, List.filter_filter]
        apply List.filter_congr
        intro x _
        simp only [namedPages, List.filterMap_cons, hp, List.contains_cons]
        by_cases e : x = p <;> simp [e]
      · intro x hx
        simp only [namedPages, List.filterMap_cons, hp, List.mem_cons] at hx
        rcases hx with rfl | hx
        · exact a3 _ s2
        · exact a4 x hx

/-- **C11, `delete_pages` on a well-formed page tree — the whole statement.**  Let `d` be a document whose page
tree (any shape, nesting within the documented limit) is well-formed (`PagesInv`: trailer → catalog → root,
every node a `Pages` dictionary whose `Kids` lists its children and whose `Count` is the number of leaf pages
below it, every leaf a `Page` dictionary naming its parent, ids pairwise distinct).  For EVERY list of page
numbers — repeated numbers, 0 and numbers past the end included — after `delete_pages(ns)`:
* the document is again well-formed, for a tree `ks'` whose leaves are the former pages without the named ones,
  in the former order; in particular every `Count` is the number of leaf pages below its node;
* `page_iter` enumerates exactly those pages, in that order;
* the named pages' objects are gone. -/
theorem delete_pages_spec (d : Doc) (cat rid : ObjId) (ks : List PT) (h : PagesInv d cat rid ks) (ns : List Nat) :
    ∃ ks', PagesInv (deletePages d ns) cat rid ks' ∧
      PT.leavesL ks' = (PT.leavesL ks).filter (fun x => !(namedPages (PT.leavesL ks) ns).contains x) ∧
      pageIter (deletePages d ns).trailer (deletePages d ns).objects =
        (pageIter d.trailer d.objects).filter (fun x => !(namedPages (pageIter d.trailer d.objects) ns).contains x) ∧
      ∀ x ∈ namedPages (pageIter d.trailer d.objects) ns, (deletePages d ns).objects.get x = none := by
  have hpi := pageIter_of_inv d cat rid ks h
  have hkeys : ∀ x ∈ PT.leavesL ks, x ∈ PT.leavesL ks ∨ d.objects.get x = none := fun x hx => Or.inl hx
  obtain ⟨ks', a1, a2, _, a4⟩ := loop_run (PT.leavesL ks) cat rid (nodeIds (.pages rid ks))
    (fun x hx => h.disj x hx) h.catOut.2 ns d ks ⟨h, rfl, hkeys⟩
  have hdp : deletePages d ns = ns.foldl (fun acc n => deletePage1 (PT.leavesL ks) acc n) d := by
    unfold deletePages; simp only [hpi]
  rw [hdp, hpi]
  refine ⟨ks', a1.inv, a2, ?_, a4⟩
  rw [pageIter_of_inv _ cat rid ks' a1.inv, a2]

/- non-vacuity: a concrete well-formed document (catalog 1, root 3 with pages 2 and 4) -/
example : PagesInv
    { trailer := [(ROOT, .ref 1 0)], maxId := 5, bookmarks := [], bmTable := [],
      objects := [((1,0), .dict [(PAGES, .ref 3 0)]),
                  ((2,0), .dict [(TYPE, .name PAGE), (PARENT, .ref 3 0)]),
                  ((3,0), .dict [(TYPE, .name PAGES), (KIDS, .arr [.ref 2 0, .ref 4 0]), (COUNT, .int 2)]),
                  ((4,0), .dict [(TYPE, .name PAGE), (PARENT, .ref 3 0)])] }
    (1,0) (3,0) [.page (2,0), .page (4,0)] := by
  refine ⟨by simp [NoDup], by simp [Dict.get], ⟨_, rfl, by simp [NoDup], by simp [Dict.get]⟩, ?_, ?_,
    by decide, by decide, by decide, by decide, by decide⟩
  · simp [Shape, ShapeL, Objects.get, Dict.get, NoDup, TYPE, KIDS, PARENT, PAGE, PAGES, COUNT, PT.idsL, PT.kidObj, PT.id, Obj.asRef]
  · simp [TreeOK, TreeOKL, Objects.get, Dict.get, TYPE, KIDS, COUNT, PARENT, PT.leavesL, PT.leaves, Obj.asInt, Obj.asRef]

end Lopdf.Ed
