import LopdfModel.Lemmas.Iso
/-
  C10 — property theorems, part 2: the whole `renumber_objects_with` call as ONE renaming
  (`renumber_iso`), and what it means for reference resolution (`renumber_resolve`).
-/
namespace Lopdf.Ren
open Lopdf

/-- **C10, renumber_iso: the two passes compose into ONE renaming.**  For every document with a sorted
object map and pairwise distinct object numbers (a page the tree lists twice is taken once) and `start + n - 1 ≤ u32::MAX` (all new ids fit),
`renumber_objects_with(start)` returns `d2`, and there is `rho` (page-order renaming followed by the dense
assignment) such that: `rho` is one-to-one on the ids in use; the new ids in use are exactly the images;
`max_id` is the last number; the trailer is the original with every reference renamed by `rho`; whatever
was reachable is reachable under its new name.  If moreover no reachable dangling reference of the original
is answered by an object after the page-order pass or at the end (`NoCap`; its failure is finding F-C10-b),
then every object sits at `rho id`, renamed by `rho` exactly when it was reachable from the ORIGINAL trailer
and untouched otherwise, and reachable dangling references are left as they are. -/
theorem renumber_iso (d : Doc) (start : Nat) (hs : d.objects.Sorted)
    (g2 : (d.objects.keys.map (·.1)).Nodup)
    (hhi : start + d.objects.length ≤ U32_MAXE + 1) :
    ∃ d2 rho, renumber d start = .ok d2 ∧ d2.maxId = start + d.objects.length - 1 ∧
      d2.objects.length = d.objects.length ∧
      (∀ a b, (d.objects.get a).isSome → (d.objects.get b).isSome → rho a = rho b → a = b) ∧
      (∀ q, (d2.objects.get q).isSome ↔ ∃ k, (d.objects.get k).isSome ∧ rho k = q) ∧
      d2.trailer = mapRefsD rho d.trailer ∧
      (∀ x, ReachIn d.trailer d.objects x → ReachIn d2.trailer d2.objects (rho x)) ∧
      (∀ r, d.objects.get r = none → (pagePass d).objects.get r = none → rho r = r) ∧
      (NoCap d.trailer d.objects (pagePass d).objects → NoCap d.trailer d.objects d2.objects →
        (∀ k o, d.objects.get k = some o →
          (ReachIn d.trailer d.objects k → d2.objects.get (rho k) = some (mapRefs rho o)) ∧
          (¬ ReachIn d.trailer d.objects k → d2.objects.get (rho k) = some o))) := by
  obtain ⟨r1, h1⟩ := pagePass_isoStep d g2
  have hs1 := pagePass_sorted d hs
  have hlen := h1.length_eq hs hs1
  obtain ⟨d2, hd2, hmax, h2, _⟩ := densePass_isoStep (pagePass d) start hs1 (by rw [hlen]; exact hhi)
  generalize rhoFn (denseSpec (sortBy idLeE (pagePass d).objects.keys) start) = r2 at h2
  have hlen2 : d2.objects.length = (pagePass d).objects.length :=
    h2.length_eq hs1 (wf_densePass (pagePass d) start hs1 d2 hd2).2
  refine ⟨d2, r2 ∘ r1, hd2, by rw [hmax, hlen], by rw [hlen2, hlen], ?_, ?_, ?_, ?_, ?_, ?_⟩
  · intro a b ha hb e
    have key1 : ∀ k, (d.objects.get k).isSome → ((pagePass d).objects.get (r1 k)).isSome :=
      fun k hk => (h1.keys _).mpr ⟨k, hk, rfl⟩
    exact h1.inj a b ha hb (h2.inj _ _ (key1 a ha) (key1 b hb) e)
  · intro q
    rw [h2.keys q]
    constructor
    · rintro ⟨k1, hk1, rfl⟩
      obtain ⟨k, hk, rfl⟩ := (h1.keys k1).mp hk1
      exact ⟨k, hk, rfl⟩
    · rintro ⟨k, hk, rfl⟩
      exact ⟨r1 k, (h1.keys _).mpr ⟨k, hk, rfl⟩, rfl⟩
  · rw [h2.trailer, h1.trailer, mapRefsD_comp]
  · intro x hx; exact h2.reach_fwd _ (h1.reach_fwd x hx)
  · intro r hr hr1
    simp only [Function.comp]; rw [h1.fix r hr]; exact h2.fix r hr1
  · intro hc1 hc2
    exact (isoStep_comp h1 h2 hc1 hc2).2.2.2.2.1

/-- finding F-C10-b, as a predicate: the dangling reference `r` is answered by an object after the
page-order pass (then the dense pass renames the reference with that object) or at the end -/
def CapturedRef (d d2 : Doc) (r : ObjId) : Prop :=
  (pagePass d).objects.get r ≠ none ∨ d2.objects.get r ≠ none

/-- **C10, reference resolution.**  Under the hypotheses of `renumber_iso`, for every reference `r` that
occurs in the trailer or in an object reachable from it (`ReachIn … r`):
* if `r` resolved to an object `o`, and no reachable dangling reference was captured, the renamed reference
  `rho r` resolves to `o` with its references renamed — the same content as before;
* if `r` resolved to nothing, then either it still is `r` and still resolves to nothing, or it is exactly the
  registered capture F-C10-b (`CapturedRef`). -/
theorem renumber_resolve (d : Doc) (start : Nat) (hs : d.objects.Sorted)
    (g2 : (d.objects.keys.map (·.1)).Nodup)
    (hhi : start + d.objects.length ≤ U32_MAXE + 1) :
    ∃ d2 rho, renumber d start = .ok d2 ∧
      (∀ a b, (d.objects.get a).isSome → (d.objects.get b).isSome → rho a = rho b → a = b) ∧
      d2.trailer = mapRefsD rho d.trailer ∧
      (NoCap d.trailer d.objects (pagePass d).objects → NoCap d.trailer d.objects d2.objects →
        ∀ r o, ReachIn d.trailer d.objects r → d.objects.get r = some o →
          d2.objects.get (rho r) = some (mapRefs rho o)) ∧
      (∀ r, ReachIn d.trailer d.objects r → d.objects.get r = none →
        (rho r = r ∧ d2.objects.get r = none) ∨ CapturedRef d d2 r) := by
  obtain ⟨d2, rho, h1, _, _, hinj, _, htr, _, hfix, hobjs⟩ := renumber_iso d start hs g2 hhi
  refine ⟨d2, rho, h1, hinj, htr, ?_, ?_⟩
  · intro hc1 hc2 r o hr ho
    exact ((hobjs hc1 hc2) r o ho).1 hr
  · intro r hr hnone
    by_cases hc : CapturedRef d d2 r
    · exact Or.inr hc
    · left
      unfold CapturedRef at hc
      have h1' : (pagePass d).objects.get r = none := by
        cases hh : (pagePass d).objects.get r with
        | none => rfl
        | some v => exact absurd (Or.inl (by simp [hh])) hc
      have h2' : d2.objects.get r = none := by
        cases hh : d2.objects.get r with
        | none => rfl
        | some v => exact absurd (Or.inr (by simp [hh])) hc
      exact ⟨hfix r hnone h1', h2'⟩

/-- **C10, page order is preserved.**  Under the hypotheses of `renumber_iso` and when no reachable dangling
reference is captured, the pages of the renumbered document are the pages of the original, in the same
order, under their new names. -/
theorem renumber_page_order (d : Doc) (start : Nat) (hs : d.objects.Sorted)
    (g2 : (d.objects.keys.map (·.1)).Nodup)
    (hhi : start + d.objects.length ≤ U32_MAXE + 1) :
    ∃ d2 rho, renumber d start = .ok d2 ∧ d2.trailer = mapRefsD rho d.trailer ∧
      (NoCap d.trailer d.objects (pagePass d).objects → NoCap d.trailer d.objects d2.objects →
        pageIter d2.trailer d2.objects = (pageIter d.trailer d.objects).map rho) := by
  obtain ⟨d2, rho, h1, _, hlen, _, _, htr, _, hfix, hobjs⟩ := renumber_iso d start hs g2 hhi
  refine ⟨d2, rho, h1, htr, ?_⟩
  intro hc1 hc2
  apply pageIter_comm (Good := ReachIn d.trailer d.objects) d.trailer d2.trailer htr hlen
  · constructor
    · intro x hx
      cases hox : d.objects.get x with
      | none =>
        rw [hfix x hox (hc1 x hx hox), hc2 x hx hox]; rfl
      | some o => rw [((hobjs hc1 hc2) x o hox).1 hx]; rfl
    · intro x o hx ho r hr; exact Reach.step hx ho hr
  · intro r hr; exact Reach.root hr

/- non-vacuity: a concrete document meets the hypotheses of `renumber_iso` -/
example : Objects.Sorted [((3, 0), Obj.null), ((7, 0), Obj.null)] ∧
    ((Objects.keys [((3, 0), Obj.null), ((7, 0), Obj.null)]).map (·.1)).Nodup := by
  refine ⟨by simp [Objects.Sorted, Objects.keys, idLt], by decide⟩


/-! ### bookmarks on arbitrary tables -/

/-- a bookmark before / after an update with `(old, new)`: same children, the target is unchanged or was
`old` and is `new` -/
def BkStep (old new : ObjId) (a b : Bookmark) : Prop :=
  a.children = b.children ∧ (b.page = a.page ∨ (a.page = old ∧ b.page = new))

/-- table before / after: same ids in the same order, entries related by `BkStep` -/
def TRel (old new : ObjId) (t t' : BkTable) : Prop :=
  t'.map (·.1) = t.map (·.1) ∧ ∀ i b, t.get i = some b → ∃ b', t'.get i = some b' ∧ BkStep old new b b'

theorem bkStep_trans (old new : ObjId) {a b c : Bookmark} (h1 : BkStep old new a b) (h2 : BkStep old new b c) :
    BkStep old new a c := by
  obtain ⟨c1, p1⟩ := h1
  obtain ⟨c2, p2⟩ := h2
  refine ⟨c1.trans c2, ?_⟩
  rcases p1 with p1 | ⟨p1a, p1b⟩
  · rcases p2 with p2 | ⟨p2a, p2b⟩
    · exact Or.inl (p2.trans p1)
    · exact Or.inr ⟨by rw [← p1]; exact p2a, p2b⟩
  · rcases p2 with p2 | ⟨_, p2b⟩
    · exact Or.inr ⟨p1a, by rw [p2]; exact p1b⟩
    · exact Or.inr ⟨p1a, p2b⟩

theorem tRel_refl (old new : ObjId) (t : BkTable) : TRel old new t t :=
  ⟨rfl, fun _ b h => ⟨b, h, rfl, Or.inl rfl⟩⟩

theorem tRel_trans (old new : ObjId) {t1 t2 t3 : BkTable} (h1 : TRel old new t1 t2) (h2 : TRel old new t2 t3) :
    TRel old new t1 t3 := by
  refine ⟨h2.1.trans h1.1, ?_⟩
  intro i b hb
  obtain ⟨b', hb', s1⟩ := h1.2 i b hb
  obtain ⟨b'', hb'', s2⟩ := h2.2 i b' hb'
  exact ⟨b'', hb'', bkStep_trans old new s1 s2⟩

theorem setPage_get (t : BkTable) (id : Nat) (pg : ObjId) (i : Nat) :
    (t.setPage id pg).get i = (t.get i).map (fun b => if i = id then { b with page := pg } else b) := by
  induction t with
  | nil => rfl
  | cons x xs ih =>
    obtain ⟨j, bx⟩ := x
    simp only [BkTable.setPage, List.map_cons] at ih ⊢
    by_cases e : j = id
    · subst e
      simp only [if_true, BkTable.get]
      by_cases e2 : j = i
      · subst e2; simp
      · simp only [e2, if_false]; exact ih
    · simp only [e, if_false, BkTable.get]
      by_cases e2 : j = i
      · subst e2; simp [e]
      · simp only [e2, if_false]; exact ih

theorem setPage_ids (t : BkTable) (id : Nat) (pg : ObjId) : (t.setPage id pg).map (·.1) = t.map (·.1) := by
  simp only [BkTable.setPage, List.map_map]
  apply List.map_congr_left
  intro p _; obtain ⟨j, b⟩ := p; simp only [Function.comp]; split <;> rfl

theorem setPage_rel (old new : ObjId) (t : BkTable) (id : Nat) (b : Bookmark) (hg : t.get id = some b) (hp : b.page = old) :
    TRel old new t (t.setPage id new) := by
  refine ⟨setPage_ids t id new, ?_⟩
  intro i bi hbi
  rw [setPage_get, hbi]
  by_cases e : i = id
  · subst e
    rw [hg] at hbi; cases hbi
    exact ⟨{ b with page := new }, by simp, rfl, Or.inr ⟨hp, rfl⟩⟩
  · exact ⟨bi, by simp [e], rfl, Or.inl rfl⟩

/-- **`update_bookmark_pages` only ever renames `old` to `new`**: on every table (any shape, shared or
missing children, any depth budget) the ids and children are kept and each target is unchanged or was `old`
and is now `new` -/
theorem updatePages_rel (old new : ObjId) : ∀ (depth : Nat) (t : BkTable) (ids : List Nat),
    TRel old new t (updatePages depth t ids old new) := by
  intro depth
  induction depth with
  | zero => intro t ids; simp only [updatePages]; exact tRel_refl old new t
  | succ n ih =>
    intro t ids
    simp only [updatePages]
    have key : ∀ (ids : List Nat) (st : BkTable × Bool), TRel old new t st.1 →
        TRel old new t (ids.foldl (fun (st : BkTable × Bool) id =>
          if st.2 then st else
          match st.1.get id with
          | none => (st.1, true)
          | some b =>
            let t1 := if b.page = old then st.1.setPage id new else st.1
            let t2 := if b.children.isEmpty then t1 else updatePages n t1 b.children old new
            (t2, false)) st).1 := by
      intro ids
      induction ids with
      | nil => intro st h; exact h
      | cons id rest ihl =>
        intro st h
        simp only [List.foldl_cons]
        apply ihl
        by_cases hs : st.2 = true
        · simp only [hs, if_true]; exact h
        · simp only [hs]
          cases hg : st.1.get id with
          | none => exact h
          | some b =>
            simp only
            have h1 : TRel old new st.1 (if b.page = old then st.1.setPage id new else st.1) := by
              split
              · rename_i hp; exact setPage_rel old new st.1 id b hg hp
              · exact tRel_refl old new _
            have h2 : TRel old new st.1
                (if b.children.isEmpty then (if b.page = old then st.1.setPage id new else st.1)
                 else updatePages n (if b.page = old then st.1.setPage id new else st.1) b.children old new) := by
              split
              · exact h1
              · exact tRel_trans old new h1 (ih _ _)
            exact tRel_trans old new h h2
    exact key ids (t, false) (tRel_refl old new t)

theorem renumberBookmarks_rel (bks : List Nat) (t : BkTable) (old new : ObjId) :
    TRel old new t (renumberBookmarks bks t old new) := by
  unfold renumberBookmarks; split
  · exact tRel_refl old new t
  · exact updatePages_rel old new _ t bks

/-- `r` is what a target `p` can become when SOME of the pairs (in order) are applied to it -/
inductive SubApply : List (ObjId × ObjId) → ObjId → ObjId → Prop
  | nil (p) : SubApply [] p p
  | skip {on rest p r} : SubApply rest p r → SubApply (on :: rest) p r
  | take {on rest r} : SubApply rest on.2 r → SubApply (on :: rest) on.1 r

theorem rhoFn_cons (o n : ObjId) (rest : List (ObjId × ObjId)) (p : ObjId) :
    rhoFn ((o, n) :: rest) p = if o = p then n else rhoFn rest p := by
  simp only [rhoFn, lookupId]; split <;> simp

/-- with distinct old ids and no chaining, applying any sub-sequence of the renames gives the old target or
its correct new name — never anything else -/
theorem subApply_safe : ∀ (pairs : List (ObjId × ObjId)), (pairs.map (·.1)).Nodup → NoChain pairs →
    ∀ p r, SubApply pairs p r → r = p ∨ r = rhoFn pairs p := by
  intro pairs
  induction pairs with
  | nil => intro _ _ p r h; cases h; exact Or.inl rfl
  | cons on rest ih =>
    intro hn hc p r h
    obtain ⟨o, n⟩ := on
    simp only [List.map_cons, List.nodup_cons] at hn
    simp only [NoChain] at hc
    rw [rhoFn_cons]
    cases h with
    | skip h' =>
      rcases ih hn.2 hc.2 p r h' with e | e
      · exact Or.inl e
      · by_cases eo : o = p
        · subst eo
          left; rw [e, rho_fix_of_not_old rest o hn.1]
        · right; simp [eo, e]
    | take h' =>
      simp only at h'
      right; simp only [if_true]
      rcases ih hn.2 hc.2 n r h' with e | e
      · exact e
      · rw [e, rho_fix_of_not_old rest n hc.1]

/-- table before / after a whole move loop -/
def SeqRel (pairs : List (ObjId × ObjId)) (t t' : BkTable) : Prop :=
  t'.map (·.1) = t.map (·.1) ∧
  ∀ i b, t.get i = some b → ∃ b', t'.get i = some b' ∧ b.children = b'.children ∧ SubApply pairs b.page b'.page

theorem seqRel_cons (o n : ObjId) (rest : List (ObjId × ObjId)) {t t1 t' : BkTable}
    (h1 : TRel o n t t1) (h2 : SeqRel rest t1 t') : SeqRel ((o, n) :: rest) t t' := by
  refine ⟨h2.1.trans h1.1, ?_⟩
  intro i b hb
  obtain ⟨b1, hb1, c1, p1⟩ := h1.2 i b hb
  obtain ⟨b', hb', c2, p2⟩ := h2.2 i b1 hb1
  refine ⟨b', hb', c1.trans c2, ?_⟩
  rcases p1 with p1 | ⟨p1a, p1b⟩
  · rw [← p1]; exact SubApply.skip p2
  · rw [p1a]; rw [p1b] at p2; exact SubApply.take p2

/- `moveLoop_seqRel` / `bookmarks_safe_partial` (about the former pair-by-pair renaming inside the move loop)
   were superseded by the exact `Lopdf.bookmarks_follow_rho` (Thm/C10.lean) when lopdf commit 69805be made
   `renumber_objects_with` rename the bookmark targets once per pass through the complete map. -/

end Lopdf.Ren
