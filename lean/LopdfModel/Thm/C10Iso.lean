import LopdfModel.Lemmas.Iso
/-
  C10 — property theorems, part 2: the whole `renumber_objects_with` call as ONE renaming
  (`renumber_iso`), and what it means for reference resolution (`renumber_resolve`).
-/
namespace Lopdf.Ren
open Lopdf

/-- **C10, renumber_iso: the two passes compose into ONE renaming.**  For every document with a sorted
object map, no page enumerated twice, pairwise distinct object numbers and `1 ≤ start + n ≤ u32::MAX`,
`renumber_objects_with(start)` returns `d2`, and there is `rho` (page-order renaming followed by the dense
assignment) such that: `rho` is one-to-one on the ids in use; the new ids in use are exactly the images;
`max_id` is the last number; the trailer is the original with every reference renamed by `rho`; whatever
was reachable is reachable under its new name.  If moreover no reachable dangling reference of the original
is answered by an object after the page-order pass or at the end (`NoCap`; its failure is finding F-C10-b),
then every object sits at `rho id`, renamed by `rho` exactly when it was reachable from the ORIGINAL trailer
and untouched otherwise, and reachable dangling references are left as they are. -/
theorem renumber_iso (d : Doc) (start : Nat) (hs : d.objects.Sorted)
    (g1 : (pageIter d.trailer d.objects).Nodup) (g2 : (d.objects.keys.map (·.1)).Nodup)
    (hlo : 1 ≤ start + d.objects.length) (hhi : start + d.objects.length ≤ U32_MAXE) :
    ∃ d2 rho, renumber d start = .ok d2 ∧ d2.maxId = start + d.objects.length - 1 ∧
      d2.objects.length = d.objects.length ∧
      (∀ a b, (d.objects.get a).isSome → (d.objects.get b).isSome → rho a = rho b → a = b) ∧
      (∀ q, (d2.objects.get q).isSome ↔ ∃ k, (d.objects.get k).isSome ∧ rho k = q) ∧
      d2.trailer = mapRefsD rho d.trailer ∧
      (∀ x, ReachIn d.trailer d.objects x → ReachIn d2.trailer d2.objects (rho x)) ∧
      (∀ r, d.objects.get r = none → (pagePass d).objects.get r = none → rho r = r) ∧
      (NoCap d.trailer d.objects (pagePass d).objects → NoCap d.trailer d.objects d2.objects →
        (∀ k o, d.objects.get k = some o →
          (ReachIn d.trailer d.objects k → d2.objects.get (rho k) = some (mapRefs rho o)) ∧
          (¬ ReachIn d.trailer d.objects k → d2.objects.get (rho k) = some o))) := by
  obtain ⟨r1, h1⟩ := pagePass_isoStep d g1 g2
  have hs1 := pagePass_sorted d hs
  have hlen := h1.length_eq hs hs1
  obtain ⟨d2, hd2, hmax, h2, _⟩ := densePass_isoStep (pagePass d) start hs1 (by rw [hlen]; exact hlo) (by rw [hlen]; exact hhi)
  generalize rhoFn (denseSpec (sortBy idLeE (pagePass d).objects.keys) start) = r2 at h2
  have hlen2 : d2.objects.length = (pagePass d).objects.length :=
    h2.length_eq hs1 (wf_densePass (pagePass d) start hs1 d2 hd2).2
  refine ⟨d2, r2 ∘ r1, hd2, by rw [hmax, hlen], by rw [hlen2, hlen], ?_, ?_, ?_, ?_, ?_, ?_⟩
  · intro a b ha hb e
    have key1 : ∀ k, (d.objects.get k).isSome → ((pagePass d).objects.get (r1 k)).isSome :=
      fun k hk => (h1.keys _).mpr ⟨k, hk, rfl⟩
    exact h1.inj a b ha hb (h2.inj _ _ (key1 a ha) (key1 b hb) e)
  · intro q
    rw [h2.keys q]
    constructor
    · rintro ⟨k1, hk1, rfl⟩
      obtain ⟨k, hk, rfl⟩ := (h1.keys k1).mp hk1
      exact ⟨k, hk, rfl⟩
    · rintro ⟨k, hk, rfl⟩
      exact ⟨r1 k, (h1.keys _).mpr ⟨k, hk, rfl⟩, rfl⟩
  · rw [h2.trailer, h1.trailer, mapRefsD_comp]
  · intro x hx; exact h2.reach_fwd _ (h1.reach_fwd x hx)
  · intro r hr hr1
    simp only [Function.comp]; rw [h1.fix r hr]; exact h2.fix r hr1
  · intro hc1 hc2
    exact (isoStep_comp h1 h2 hc1 hc2).2.2.2.2.1

/-- finding F-C10-b, as a predicate: the dangling reference `r` is answered by an object after the
page-order pass (then the dense pass renames the reference with that object) or at the end -/
def CapturedRef (d d2 : Doc) (r : ObjId) : Prop :=
  (pagePass d).objects.get r ≠ none ∨ d2.objects.get r ≠ none

/-- **C10, reference resolution.**  Under the hypotheses of `renumber_iso`, for every reference `r` that
occurs in the trailer or in an object reachable from it (`ReachIn … r`):
* if `r` resolved to an object `o`, and no reachable dangling reference was captured, the renamed reference
  `rho r` resolves to `o` with its references renamed — the same content as before;
* if `r` resolved to nothing, then either it still is `r` and still resolves to nothing, or it is exactly the
  registered capture F-C10-b (`CapturedRef`). -/
theorem renumber_resolve (d : Doc) (start : Nat) (hs : d.objects.Sorted)
    (g1 : (pageIter d.trailer d.objects).Nodup) (g2 : (d.objects.keys.map (·.1)).Nodup)
    (hlo : 1 ≤ start + d.objects.length) (hhi : start + d.objects.length ≤ U32_MAXE) :
    ∃ d2 rho, renumber d start = .ok d2 ∧
      (∀ a b, (d.objects.get a).isSome → (d.objects.get b).isSome → rho a = rho b → a = b) ∧
      d2.trailer = mapRefsD rho d.trailer ∧
      (NoCap d.trailer d.objects (pagePass d).objects → NoCap d.trailer d.objects d2.objects →
        ∀ r o, ReachIn d.trailer d.objects r → d.objects.get r = some o →
          d2.objects.get (rho r) = some (mapRefs rho o)) ∧
      (∀ r, ReachIn d.trailer d.objects r → d.objects.get r = none →
        (rho r = r ∧ d2.objects.get r = none) ∨ CapturedRef d d2 r) := by
  obtain ⟨d2, rho, h1, _, _, hinj, _, htr, _, hfix, hobjs⟩ := renumber_iso d start hs g1 g2 hlo hhi
  refine ⟨d2, rho, h1, hinj, htr, ?_, ?_⟩
  · intro hc1 hc2 r o hr ho
    exact ((hobjs hc1 hc2) r o ho).1 hr
  · intro r hr hnone
    by_cases hc : CapturedRef d d2 r
    · exact Or.inr hc
    · left
      unfold CapturedRef at hc
      have h1' : (pagePass d).objects.get r = none := by
        cases hh : (pagePass d).objects.get r with
        | none => rfl
        | some v => exact absurd (Or.inl (by simp [hh])) hc
      have h2' : d2.objects.get r = none := by
        cases hh : d2.objects.get r with
        | none => rfl
        | some v => exact absurd (Or.inr (by simp [hh])) hc
      exact ⟨hfix r hnone h1', h2'⟩

/-- **C10, page order is preserved.**  Under the hypotheses of `renumber_iso` and when no reachable dangling
reference is captured, the pages of the renumbered document are the pages of the original, in the same
order, under their new names. -/
theorem renumber_page_order (d : Doc) (start : Nat) (hs : d.objects.Sorted)
    (g1 : (pageIter d.trailer d.objects).Nodup) (g2 : (d.objects.keys.map (·.1)).Nodup)
    (hlo : 1 ≤ start + d.objects.length) (hhi : start + d.objects.length ≤ U32_MAXE) :
    ∃ d2 rho, renumber d start = .ok d2 ∧ d2.trailer = mapRefsD rho d.trailer ∧
      (NoCap d.trailer d.objects (pagePass d).objects → NoCap d.trailer d.objects d2.objects →
        pageIter d2.trailer d2.objects = (pageIter d.trailer d.objects).map rho) := by
  obtain ⟨d2, rho, h1, _, hlen, _, _, htr, _, hfix, hobjs⟩ := renumber_iso d start hs g1 g2 hlo hhi
  refine ⟨d2, rho, h1, htr, ?_⟩
  intro hc1 hc2
  apply pageIter_comm (Good := ReachIn d.trailer d.objects) d.trailer d2.trailer htr hlen
  · constructor
    · intro x hx
      cases hox : d.objects.get x with
      | none =>
        rw [hfix x hox (hc1 x hx hox), hc2 x hx hox]; rfl
      | some o => rw [((hobjs hc1 hc2) x o hox).1 hx]; rfl
    · intro x o hx ho r hr; exact Reach.step hx ho hr
  · intro r hr; exact Reach.root hr

/- non-vacuity: a concrete document meets the hypotheses of `renumber_iso` -/
example : Objects.Sorted [((3, 0), Obj.null), ((7, 0), Obj.null)] ∧
    (pageIter [] [((3, 0), Obj.null), ((7, 0), Obj.null)]).Nodup ∧
    ((Objects.keys [((3, 0), Obj.null), ((7, 0), Obj.null)]).map (·.1)).Nodup := by
  refine ⟨by simp [Objects.Sorted, Objects.keys, idLt], by decide, by decide⟩

end Lopdf.Ren
