import LopdfModel.Thm.ReadG
import LopdfModel.Thm.Inflate
/-
  The round-trip theorem of the specification inflate, carried into the reader: a cross-reference
  stream or an object stream whose content is `zlibStored c` under `/Filter /FlateDecode` (no
  DecodeParms) is read by `flateDec` exactly as the unfiltered stream with content `c` and the
  dictionary `Stream::decompress` leaves (Filter / DecodeParms removed, Length = |c|) — for every
  dictionary and every `c`.
-/
namespace Lopdf
open Gen

theorem zlibStored_ne_nil (c : Bytes) : (Inflate.zlibStored c).isEmpty = false := by
  unfold Inflate.zlibStored
  simp

theorem decompress_stored (d : Dict) (c : Bytes)
    (hf : d.get K_FILTER = some (.name F_FLATE)) (hp : d.get K_DECODEPARMS = none) :
    streamComplete d (Inflate.zlibStored c) = true ∧
    decompress specExt ⟨d, Inflate.zlibStored c⟩ =
      .ok { dict := (removeKeysSeq d DECOMPRESS_KEYS).set K_LENGTH (.int c.length), content := c } := by
  have hfilters : streamFilters d = some [F_FLATE] := by simp [streamFilters, hf]
  have hparms : stageParms d 0 = none := by simp [stageParms, hp]
  have hinfl : specExt.inflate (Inflate.zlibStored c) = c := by simp [specExt, Inflate.zlib_stored_rt]
  have happly : applyFilter specExt none F_FLATE (Inflate.zlibStored c) = .ok c := by
    simp [applyFilter, zlibStored_ne_nil, hinfl, decompressPredictor]
  refine ⟨?_, ?_⟩
  · simp [streamComplete, hfilters, chainComplete, hparms, happly, Inflate.zlib_stored_rt]
  · simp [decompress, decompressedContent, hfilters, filterLoop, hparms, happly, Outcome.bind, Outcome.map, setContent, lenObj]

/-- **a Flate-coded cross-reference stream is read as its plain content** -/
theorem flateDec_xref_stored (d : Dict) (c : Bytes)
    (hf : d.get K_FILTER = some (.name F_FLATE)) (hp : d.get K_DECODEPARMS = none) :
    flateDec.xref d (Inflate.zlibStored c) =
      decodeXrefStream ((removeKeysSeq d DECOMPRESS_KEYS).set K_LENGTH (.int c.length)) c := by
  obtain ⟨h1, h2⟩ := decompress_stored d c hf hp
  have hhas : d.has FILTER = true := by
    have : FILTER = K_FILTER := by decide
    rw [this]; simp [Dict.has, hf]
  simp [flateDec, hhas, h1, h2]

/-- **a Flate-coded object stream yields the members of its plain content**, and the container
the document keeps is the decompressed one -/
theorem flateDec_objstm_stored (d : Dict) (c : Bytes)
    (hf : d.get K_FILTER = some (.name F_FLATE)) (hp : d.get K_DECODEPARMS = none) :
    flateDec.objstm d (Inflate.zlibStored c) =
      (match objStmObjects ((removeKeysSeq d DECOMPRESS_KEYS).set K_LENGTH (.int c.length)) c with
       | .ok l => .ok ((removeKeysSeq d DECOMPRESS_KEYS).set K_LENGTH (.int c.length), c, l)
       | .err e => .err e
       | .panic p => .panic p) := by
  obtain ⟨h1, h2⟩ := decompress_stored d c hf hp
  have hhas : d.has FILTER = true := by
    have : FILTER = K_FILTER := by decide
    rw [this]; simp [Dict.has, hf]
  simp only [flateDec, hhas, h1, h2, if_true, Bool.not_true, Bool.false_eq_true, if_false]
  cases objStmObjects ((removeKeysSeq d DECOMPRESS_KEYS).set K_LENGTH (.int c.length)) c <;> rfl

end Lopdf
