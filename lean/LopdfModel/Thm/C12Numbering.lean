import LopdfModel.Thm.C12
import LopdfModel.Model.PagesMap
/-
  C12 — "numbered 1..n": `Document::get_pages` is
  `page_iter().enumerate().map(|(i, p)| ((i + 1) as u32, p)).collect::<BTreeMap<u32, ObjectId>>()`.
  The `BTreeMap` is modelled as the key-sorted association list with overwriting insert, the cast
  `as u32` as reduction mod 2^32. Theorems: as long as fewer than 2^32 pages are yielded — which
  `iter_limit = |objects|` guarantees for every document with fewer than 2^32 objects — the map
  is exactly `[(1, p₁), …, (n, pₙ)]`: keys 1..n without gap or repetition, the k-th page under k.
  Composed with `pageIter_dfs`: the map numbers the leaves of the page tree depth first.
-/
namespace Lopdf
open Gen

/-- the specification: the k-th yielded page under the number k, counted from `start + 1` -/
def numberedFrom : List ObjId → Nat → List (Nat × ObjId)
  | [], _ => []
  | p :: rest, i => (i + 1, p) :: numberedFrom rest (i + 1)

theorem pmInsert_append_last (m : List (Nat × ObjId)) (k : Nat) (v : ObjId)
    (h : ∀ q ∈ m, q.1 < k) : pmInsert k v m = m ++ [(k, v)] := by
  induction m with
  | nil => rfl
  | cons q rest ih =>
    obtain ⟨k', v'⟩ := q
    have hq : k' < k := h (k', v') (by simp)
    have h1 : ¬ k < k' := by omega
    have h2 : ¬ k = k' := by omega
    simp only [pmInsert, h1, h2, if_false, List.cons_append]
    rw [ih (fun q hq => h q (by simp [hq]))]

theorem numberedFrom_keys (ids : List ObjId) : ∀ (i : Nat), ∀ q ∈ numberedFrom ids i, i < q.1 := by
  induction ids with
  | nil => intro i q hq; simp [numberedFrom] at hq
  | cons p rest ih =>
    intro i q hq
    simp only [numberedFrom, List.mem_cons] at hq
    rcases hq with rfl | hq
    · simp
    · have := ih (i + 1) q hq; omega

theorem collectNumbered_spec (ids : List ObjId) : ∀ (i : Nat) (m : List (Nat × ObjId)),
    i + ids.length < 4294967296 → (∀ q ∈ m, q.1 ≤ i) →
    collectNumbered ids i m = m ++ numberedFrom ids i := by
  induction ids with
  | nil => intro i m _ _; simp [collectNumbered, numberedFrom]
  | cons p rest ih =>
    intro i m hlen hm
    simp only [List.length_cons] at hlen
    simp only [collectNumbered, numberedFrom]
    have hmod : (i + 1) % 4294967296 = i + 1 := Nat.mod_eq_of_lt (by omega)
    rw [hmod, pmInsert_append_last m (i + 1) p (fun q hq => by have := hm q hq; omega)]
    rw [ih (i + 1) (m ++ [(i + 1, p)]) (by omega) ?_]
    · simp
    · intro q hq
      simp only [List.mem_append, List.mem_singleton] at hq
      rcases hq with hq | rfl
      · have := hm q hq; omega
      · simp

/-- **`get_pages` numbers the yielded pages 1..n** (fewer than 2^32 of them): no gap, no
repetition, the k-th page under the number k. -/
theorem getPagesMap_numbered (ids : List ObjId) (h : ids.length < 4294967296) :
    getPagesMap ids = numberedFrom ids 0 := by
  unfold getPagesMap
  rw [collectNumbered_spec ids 0 [] (by omega) (by simp)]
  rfl

theorem numberedFrom_keys_eq (ids : List ObjId) : ∀ (i : Nat),
    (numberedFrom ids i).map (·.1) = (List.range ids.length).map (· + i + 1) := by
  induction ids with
  | nil => intro i; rfl
  | cons p rest ih =>
    intro i
    simp only [numberedFrom, List.map_cons, List.length_cons, List.range_succ_eq_map, List.map_map, ih (i + 1)]
    simp only [Nat.zero_add, List.cons.injEq, true_and]
    apply List.map_congr_left
    intro a _
    simp only [Function.comp]
    omega

theorem numberedFrom_values (ids : List ObjId) : ∀ (i : Nat), (numberedFrom ids i).map (·.2) = ids := by
  induction ids with
  | nil => intro i; rfl
  | cons p rest ih => intro i; simp [numberedFrom, ih (i + 1)]

/-- the keys of `get_pages` are exactly `1, 2, …, n` and its values, in key order, are the yielded
pages in order -/
theorem getPagesMap_keys_values (ids : List ObjId) (h : ids.length < 4294967296) :
    (getPagesMap ids).map (·.1) = (List.range ids.length).map (· + 1) ∧
    (getPagesMap ids).map (·.2) = ids := by
  rw [getPagesMap_numbered ids h]
  exact ⟨by simpa using numberedFrom_keys_eq ids 0, numberedFrom_values ids 0⟩

/-- **On every document** (fewer than 2^32 objects — `ObjectId` numbers are `u32`) **`get_pages` is
`page_iter` numbered 1..n**: `iter_limit = |objects|` bounds the number of yielded pages, so the
cast `(i + 1) as u32` never wraps — also on malformed trees. -/
theorem getPages_is_pageIter_numbered (trailer : Dict) (os : Objects) (h : os.length < 4294967296) :
    getPagesMap (pageIter trailer os) = numberedFrom (pageIter trailer os) 0 := by
  apply getPagesMap_numbered
  have : (pageIter trailer os).length ≤ os.length := by
    unfold pageIter
    simp only
    split
    · exact run_length_le _ _ _ _
    · simp
  omega

/-- **C12, numbering included**: for an embedded page tree, `get_pages` maps `k` to the k-th leaf
in depth-first, left-to-right order, `k = 1..n`, and nothing else. -/
theorem getPages_dfs (trailer : Dict) (os : Objects) (cat pid : ObjId) (catd : Dict) (ks : List PT)
    (hroot : (trailer.get ROOT).bind Obj.asRef = some cat)
    (hcat : getDictionary os cat = some catd)
    (hpages : (catd.get PAGES).bind Obj.asRef = some pid)
    (hkids : kidsOf os pid = some (PT.idsL ks))
    (hemb : EmbedsL (classify os) ks)
    (hnodup : (PT.allIdsL ks).Nodup)
    (hdepth : PT.heightL ks ≤ PAGE_TREE_DEPTH_LIMIT)
    (hsize : os.length < 4294967296) :
    getPagesMap (pageIter trailer os) = numberedFrom (PT.leavesL ks) 0 := by
  rw [getPages_is_pageIter_numbered trailer os hsize,
    pageIter_dfs trailer os cat pid catd ks hroot hcat hpages hkids hemb hnodup hdepth]

/- the cast matters: with 2^32 yielded pages the last one would land on key 0 — excluded by
`iter_limit`, shown here on the insert level -/
example : pmInsert (4294967296 % 4294967296) (9, 0) [(1, (3, 0)), (2, (5, 0))] = [(0, (9, 0)), (1, (3, 0)), (2, (5, 0))] := by
  decide
example : getPagesMap [(3, 0), (5, 0), (3, 0)] = [(1, (3, 0)), (2, (5, 0)), (3, (3, 0))] := by decide

end Lopdf
