import LopdfModel.Thm.C17Rep
/-
  C17 (3) — `adjust_zero_pages` against its bottom-up specification.
  Specification (`adjL`): a bookmark whose page number is 0 and that has children takes the first
  non-zero (adjusted) page among its children, in order; (0,0) when there is none.  Every other
  bookmark keeps its page.
-/
namespace Lopdf.C17
open Lopdf

/-! ## specification -/

def firstNZ : List BT → ObjId
  | [] => (0, 0)
  | t :: r => if t.page.1 ≠ 0 then t.page else firstNZ r

mutual
def adjN : BT → BT
  | .node id title f c page kids =>
    .node id title f c (if page.1 = 0 ∧ kids.isEmpty = false then firstNZ (adjL kids) else page) (adjL kids)
def adjL : List BT → List BT
  | [] => []
  | t :: r => adjN t :: adjL r
end

mutual
def idsN : BT → List Nat
  | .node id _ _ _ _ kids => id :: idsL kids
def idsL : List BT → List Nat
  | [] => []
  | t :: r => idsN t ++ idsL r
end

theorem idsL_length : ∀ (n : Nat) (ts : List BT), BT.sizeL ts ≤ n → (idsL ts).length = BT.sizeL ts := by
  intro n
  induction n with
  | zero => intro ts h; have := BT.sizeL_eq_zero (Nat.le_zero.mp h); subst this; rfl
  | succ n ih =>
    intro ts hsz
    cases ts with
    | nil => rfl
    | cons t r =>
      cases t with
      | node id title f c page kids =>
        simp only [BT.sizeL, BT.size] at hsz
        simp only [idsL, idsN, BT.sizeL, BT.size, List.length_append, List.length_cons,
          ih kids (by omega), ih r (by omega)]
        omega

theorem idsL_adjL : ∀ (n : Nat) (ts : List BT), BT.sizeL ts ≤ n → idsL (adjL ts) = idsL ts := by
  intro n
  induction n with
  | zero => intro ts h; have := BT.sizeL_eq_zero (Nat.le_zero.mp h); subst this; rfl
  | succ n ih =>
    intro ts hsz
    cases ts with
    | nil => rfl
    | cons t r =>
      cases t with
      | node id title f c page kids =>
        simp only [BT.sizeL, BT.size] at hsz
        simp only [adjL, adjN, idsL, idsN, ih kids (by omega), ih r (by omega)]

/-- representation only depends on the table entries of the forest's own ids -/
theorem rep_congr_ids : ∀ (n : Nat) (ts : List BT), BT.sizeL ts ≤ n → ∀ (t t' : BmTable) (ids : List Nat),
    (∀ i ∈ idsL ts, t'.get i = t.get i) → repL t ids ts = true → repL t' ids ts = true := by
  intro n
  induction n with
  | zero =>
    intro ts h; have := BT.sizeL_eq_zero (Nat.le_zero.mp h); subst this
    intro t t' ids _ hr; rw [repL_nil_right hr]; simp [repL]
  | succ n ih =>
    intro ts hsz t t' ids hg hr
    cases ts with
    | nil => rw [repL_nil_right hr]; simp [repL]
    | cons tr r =>
      cases tr with
      | node id title f c page kids =>
        obtain ⟨is, b, rfl, hb, h1, h2, h3, h4, h5, h6⟩ := repL_cons_inv hr
        simp only [BT.sizeL, BT.size] at hsz
        simp only [idsL, idsN, List.cons_append, List.mem_cons, List.mem_append] at hg
        refine repL_cons_intro (b := b) ?_ h1 h2 h3 h4 ?_ ?_
        · rw [hg id (Or.inl rfl)]; exact hb
        · exact ih kids (by omega) t t' _ (fun i hi => hg i (Or.inr (Or.inl hi))) h5
        · exact ih r (by omega) t t' _ (fun i hi => hg i (Or.inr (Or.inr hi))) h6

theorem isEmpty_of_length_eq {α β : Type} (a : List α) (b : List β) (h : a.length = b.length) :
    a.isEmpty = b.isEmpty := by
  cases a <;> cases b <;> simp at h ⊢

theorem BT.page_node (id : Nat) (title : List Nat) (f : Nat) (c : List Bytes) (page : ObjId) (kids : List BT) :
    (BT.node id title f c page kids).page = page := rfl

/-- **adjust_zero_pages, recursive core.**  For a table representing a forest with pairwise distinct
ids and all fuel ≥ its size, `recursive_fix_pages` finishes, touches only entries of the forest, the
table afterwards represents a forest `ts'` with the same ids, and
* with `first = false` it returns the first non-zero adjusted page of the list (`firstNZ (adjL ts)`)
  and `ts'` has the same adjustment as `ts` (it is `ts` with a prefix of the work done);
* with `first = true` the table represents exactly the bottom-up specification `adjL ts`. -/
theorem fix_spec : ∀ (fuel : Nat) (ts : List BT) (ids : List Nat) (t : BmTable) (first : Bool),
    repL t ids ts = true → (idsL ts).Nodup → BT.sizeL ts ≤ fuel →
    ∃ t' ts' res, fixPages fuel t ids first = some (t', res) ∧ repL t' ids ts' = true ∧ idsL ts' = idsL ts ∧
      (∀ q, q ∉ idsL ts → t'.get q = t.get q) ∧
      (first = false → res = firstNZ (adjL ts) ∧ adjL ts' = adjL ts) ∧ (first = true → ts' = adjL ts) := by
  intro fuel
  induction fuel with
  | zero =>
    intro ts ids t first hrep _ hsz
    have := BT.sizeL_eq_zero (Nat.le_zero.mp hsz); subst this
    have := repL_nil_right hrep; subst this
    exact ⟨t, [], (0, 0), by simp [fixPages], by simp [repL], rfl, fun _ _ => rfl, fun _ => ⟨rfl, rfl⟩, fun _ => rfl⟩
  | succ f ih =>
    intro ts ids t first hrep hnd hsz
    cases ts with
    | nil =>
      have := repL_nil_right hrep; subst this
      exact ⟨t, [], (0, 0), by simp [fixPages], by simp [repL], rfl, fun _ _ => rfl, fun _ => ⟨rfl, rfl⟩, fun _ => rfl⟩
    | cons tr r =>
      cases tr with
      | node id title fm c page kids =>
        obtain ⟨is, b, rfl, hget, htitle, hfm, hcol, hpage, hrk, hrr⟩ := repL_cons_inv hrep
        simp only [BT.sizeL, BT.size] at hsz
        -- distinctness facts
        simp only [idsL, idsN, List.cons_append, List.nodup_cons, List.mem_append, not_or] at hnd
        obtain ⟨⟨hid_k, hid_r⟩, hnd2⟩ := hnd
        obtain ⟨hnk, hnr, hdisj⟩ := List.nodup_append.mp hnd2
        have hce : b.children.isEmpty = kids.isEmpty := isEmpty_of_length_eq _ _ (repL_length hrk)
        -- step 1: the bookmark's own page
        have hS1 : ∃ t1 kids' page' b',
            (if b.page.1 = 0 ∧ b.children.isEmpty = false then setPage id (fixPages f t b.children false)
              else some (t, b.page)) = some (t1, page') ∧
            page' = (if page.1 = 0 ∧ kids.isEmpty = false then firstNZ (adjL kids) else page) ∧
            t1.get id = some b' ∧ b'.children = b.children ∧ b'.title = title ∧ b'.format = fm ∧ b'.color = c ∧
              b'.page = page' ∧
            repL t1 b.children kids' = true ∧ idsL kids' = idsL kids ∧ adjL kids' = adjL kids ∧
            (kids = [] → kids' = []) ∧
            (∀ q, q ≠ id → q ∉ idsL kids → t1.get q = t.get q) := by
          by_cases hcond : b.page.1 = 0 ∧ b.children.isEmpty = false
          · obtain ⟨t', kids', res, hrun, hrep', hids', hframe', hfalse, _⟩ :=
              ih kids b.children t false hrk hnk (by omega)
            obtain ⟨hres, hadj⟩ := hfalse rfl
            have hgid : t'.get id = some b := by rw [hframe' id hid_k]; exact hget
            refine ⟨t'.modify id (fun x => { x with page := res }), kids', res, { b with page := res }, ?_, ?_, ?_,
              rfl, htitle, hfm, hcol, rfl, ?_, hids', hadj, ?_, ?_⟩
            · simp only [hcond, and_self, if_true, hrun, setPage]
            · rw [← hpage, ← hce]; simp only [hcond, and_self, if_true]; exact hres
            · simp [bmGet_modify, hgid]
            · refine rep_congr_ids _ kids' (Nat.le_refl _) t' _ _ ?_ hrep'
              intro i hi
              rw [hids'] at hi
              have : ¬ i = id := fun e => hid_k (e ▸ hi)
              simp [bmGet_modify, this]
            · intro hk; rw [hk] at hce; simp [hce] at hcond
            · intro q hq hqk
              simp only [bmGet_modify, hq, if_false]
              exact hframe' q hqk
          · refine ⟨t, kids, b.page, b, ?_, ?_, hget, rfl, htitle, hfm, hcol, rfl, hrk, rfl, rfl, fun _ => ‹_›, fun _ _ _ => rfl⟩
            · simp only [hcond, if_false]
            · rw [← hpage, ← hce]; simp only [hcond, if_false]
        obtain ⟨t1, kids', page', b', hs1, hpage', hg1, hbc, hbt, hbf, hbcol, hbp, hrk1, hids1, hadj1, hknil, hframe1⟩ := hS1
        -- the node after step 1 has the same adjustment as the original node
        have hadjN : adjN (.node id title fm c page' kids') = adjN (.node id title fm c page kids) := by
          simp only [adjN, hadj1, BT.node.injEq, true_and, and_true]
          rw [hpage']
          by_cases hc2 : page.1 = 0 ∧ kids.isEmpty = false
          · simp only [hc2, and_self, if_true]; split <;> rfl
          · simp only [hc2, if_false]
            have : kids' = kids ∨ True := Or.inr trivial
            by_cases hk : kids = []
            · rw [hknil hk]; simp
            · -- page.1 ≠ 0 here
              have hp : ¬ page.1 = 0 := by
                intro hp; apply hc2; refine ⟨hp, ?_⟩
                cases kids with
                | nil => exact absurd rfl hk
                | cons _ _ => rfl
              simp [hp]
        have hpageN : (adjN (.node id title fm c page kids)).page = page' := by
          simp only [adjN, BT.page_node]; exact hpage'.symm
        have hrr1 : repL t1 is r = true := by
          refine rep_congr_ids _ r (Nat.le_refl _) t t1 _ ?_ hrr
          intro i hi
          exact hframe1 i (fun e => hid_r (e ▸ hi)) (fun hk => hdisj i hk i hi rfl)
        rw [fixPages]
        simp only [hget, hs1, Option.bind_some]
        cases first with
        | false =>
          by_cases hnz : page'.1 ≠ 0
          · -- early return
            simp only [hnz, ne_eq, not_false_eq_true, and_self, if_true]
            refine ⟨t1, .node id title fm c page' kids' :: r, page', rfl, ?_, ?_, ?_, ?_, fun h => by cases h⟩
            · exact repL_cons_intro hg1 hbt hbf hbcol hbp (hbc ▸ hrk1) hrr1
            · simp only [idsL, idsN, hids1]
            · intro q hq
              simp only [idsL, idsN, List.cons_append, List.mem_cons, List.mem_append, not_or] at hq
              exact hframe1 q hq.1 hq.2.1
            · intro _
              refine ⟨?_, ?_⟩
              · simp only [adjL, firstNZ, hpageN, hnz, ne_eq, not_false_eq_true, if_true]
              · simp only [adjL, hadjN]
          · have hz : page'.1 = 0 := by simpa using hnz
            simp only [hz, ne_eq, not_true_eq_false, and_false, if_false, Bool.false_eq_true, false_and,
              Option.bind_some]
            obtain ⟨t2, r', res2, hrun2, hrep2, hids2, hframe2, hfalse2, _⟩ := ih r is t1 false hrr1 hnr (by omega)
            obtain ⟨hres2, hadj2⟩ := hfalse2 rfl
            refine ⟨t2, .node id title fm c page' kids' :: r', res2, hrun2, ?_, ?_, ?_, ?_, fun h => by cases h⟩
            · refine repL_cons_intro (b := b') ?_ hbt hbf hbcol hbp ?_ hrep2
              · rw [hframe2 id hid_r]; exact hg1
              · rw [hbc]
                refine rep_congr_ids _ kids' (Nat.le_refl _) t1 t2 _ ?_ hrk1
                intro i hi; rw [hids1] at hi
                exact hframe2 i (fun hr => hdisj i hi i hr rfl)
            · simp only [idsL, idsN, hids1, hids2]
            · intro q hq
              simp only [idsL, idsN, List.cons_append, List.mem_cons, List.mem_append, not_or] at hq
              rw [hframe2 q hq.2.2]; exact hframe1 q hq.1 hq.2.1
            · intro _
              refine ⟨?_, ?_⟩
              · simp only [adjL, firstNZ, hpageN, hz, ne_eq, not_true_eq_false, if_false]; exact hres2
              · simp only [adjL, hadjN, hadj2]
        | true =>
          simp only [Bool.true_eq_false, false_and, if_false, true_and]
          -- step 2: the children, with `first`
          have hS2 : ∃ t2, (if b.children.isEmpty = false then (fixPages f t1 b.children true).map (·.1) else some t1) = some t2 ∧
              repL t2 b.children (adjL kids) = true ∧ (∀ q, q ∉ idsL kids → t2.get q = t1.get q) := by
            by_cases hk : b.children.isEmpty = false
            · have hsz' : BT.sizeL kids' ≤ f := by
                rw [← idsL_length _ kids' (Nat.le_refl _), hids1, idsL_length _ kids (Nat.le_refl _)]; omega
              obtain ⟨t2, ks2, res2, hrun2, hrep2, _, hframe2, _, htrue2⟩ :=
                ih kids' b.children t1 true hrk1 (hids1 ▸ hnk) hsz'
              refine ⟨t2, by simp [hk, hrun2], ?_, fun q hq => hframe2 q (hids1 ▸ hq)⟩
              rw [← hadj1, ← htrue2 rfl]; exact hrep2
            · have hk' : kids = [] := by
                rw [hce] at hk
                cases kids with
                | nil => rfl
                | cons _ _ => simp at hk
              have : kids' = [] := hknil hk'
              subst hk'; subst this
              exact ⟨t1, by simp [hk], by simpa [adjL] using hrk1, fun _ _ => rfl⟩
          obtain ⟨t2, hs2, hrk2, hframe2⟩ := hS2
          simp only [hs2, Option.bind_some]
          have hrr2 : repL t2 is r = true := by
            refine rep_congr_ids _ r (Nat.le_refl _) t1 t2 _ ?_ hrr1
            intro i hi
            exact hframe2 i (fun hk => hdisj i hk i hi rfl)
          obtain ⟨t3, r3, res3, hrun3, hrep3, _, hframe3, _, htrue3⟩ := ih r is t2 true hrr2 hnr (by omega)
          have hr3 := htrue3 rfl
          subst hr3
          refine ⟨t3, adjL (.node id title fm c page kids :: r), res3, hrun3, ?_, ?_, ?_, (fun h => by cases h), fun _ => rfl⟩
          · simp only [adjL, adjN]
            rw [← hpage']
            refine repL_cons_intro (b := b') ?_ hbt hbf hbcol hbp ?_ hrep3
            · rw [hframe3 id hid_r, hframe2 id hid_k]; exact hg1
            · rw [hbc]
              refine rep_congr_ids _ _ (Nat.le_refl _) t2 t3 _ ?_ hrk2
              intro i hi
              rw [idsL_adjL _ kids (Nat.le_refl _)] at hi
              exact hframe3 i (fun hr => hdisj i hi i hr rfl)
          · exact idsL_adjL _ _ (Nat.le_refl _)
          · intro q hq
              -- untouched outside the forest
            simp only [idsL, idsN, List.cons_append, List.mem_cons, List.mem_append, not_or] at hq
            rw [hframe3 q hq.2.2, hframe2 q hq.2.1]; exact hframe1 q hq.1 hq.2.1

end Lopdf.C17
