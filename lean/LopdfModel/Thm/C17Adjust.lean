import LopdfModel.Thm.C17Rep
/-
  C17 (3) — `adjust_zero_pages` against its bottom-up specification.
  Specification (`adjL`): a bookmark whose page number is 0 and that has children takes the first
  non-zero (adjusted) page among its children, in order; (0,0) when there is none.  Every other
  bookmark keeps its page.
-/
namespace Lopdf.C17
open Lopdf

/-! ## specification -/

def firstNZ : List BT → ObjId
  | [] => (0, 0)
  | t :: r => if t.page.1 ≠ 0 then t.page else firstNZ r

mutual
def adjN : BT → BT
  | .node id title f c page kids =>
    .node id title f c (if page.1 = 0 ∧ kids.isEmpty = false then firstNZ (adjL kids) else page) (adjL kids)
def adjL : List BT → List BT
  | [] => []
  | t :: r => adjN t :: adjL r
end

mutual
def idsN : BT → List Nat
  | .node id _ _ _ _ kids => id :: idsL kids
def idsL : List BT → List Nat
  | [] => []
  | t :: r => idsN t ++ idsL r
end

theorem idsL_length : ∀ (n : Nat) (ts : List BT), BT.sizeL ts ≤ n → (idsL ts).length = BT.sizeL ts := by
  intro n
  induction n with
  | zero => intro ts h; have := BT.sizeL_eq_zero (Nat.le_zero.mp h); subst this; rfl
  | succ n ih =>
    intro ts hsz
    cases ts with
    | nil => rfl
    | cons t r =>
      cases t with
      | node id title f c page kids =>
        simp only [BT.sizeL, BT.size] at hsz
        simp only [idsL, idsN, BT.sizeL, BT.size, List.length_append, List.length_cons,
          ih kids (by omega), ih r (by omega)]
        omega

theorem idsL_adjL : ∀ (n : Nat) (ts : List BT), BT.sizeL ts ≤ n → idsL (adjL ts) = idsL ts := by
  intro n
  induction n with
  | zero => intro ts h; have := BT.sizeL_eq_zero (Nat.le_zero.mp h); subst this; rfl
  | succ n ih =>
    intro ts hsz
    cases ts with
    | nil => rfl
    | cons t r =>
      cases t with
      | node id title f c page kids =>
        simp only [BT.sizeL, BT.size] at hsz
        simp only [adjL, adjN, idsL, idsN, ih kids (by omega), ih r (by omega)]

/-- representation only depends on the table entries of the forest's own ids -/
theorem rep_congr_ids : ∀ (n : Nat) (ts : List BT), BT.sizeL ts ≤ n → ∀ (t t' : BmTable) (ids : List Nat),
    (∀ i ∈ idsL ts, t'.get i = t.get i) → repL t ids ts = true → repL t' ids ts = true := by
  intro n
  induction n with
  | zero =>
    intro ts h; have := BT.sizeL_eq_zero (Nat.le_zero.mp h); subst this
    intro t t' ids _ hr; rw [repL_nil_right hr]; simp [repL]
  | succ n ih =>
    intro ts hsz t t' ids hg hr
    cases ts with
    | nil => rw [repL_nil_right hr]; simp [repL]
    | cons tr r =>
      cases tr with
      | node id title f c page kids =>
        obtain ⟨is, b, rfl, hb, h1, h2, h3, h4, h5, h6⟩ := repL_cons_inv hr
        simp only [BT.sizeL, BT.size] at hsz
        simp only [idsL, idsN, List.cons_append, List.mem_cons, List.mem_append] at hg
        refine repL_cons_intro (b := b) ?_ h1 h2 h3 h4 ?_ ?_
        · rw [hg id (Or.inl rfl)]; exact hb
        · exact ih kids (by omega) t t' _ (fun i hi => hg i (Or.inr (Or.inl hi))) h5
        · exact ih r (by omega) t t' _ (fun i hi => hg i (Or.inr (Or.inr hi))) h6

theorem isEmpty_of_length_eq {α β : Type} (a : List α) (b : List β) (h : a.length = b.length) :
    a.isEmpty = b.isEmpty := by
  cases a <;> cases b <;> simp at h ⊢

theorem BT.page_node (id : Nat) (title : List Nat) (f : Nat) (c : List Bytes) (page : ObjId) (kids : List BT) :
    (BT.node id title f c page kids).page = page := rfl

/-- **adjust_zero_pages, recursive core.**  For a table representing a forest with pairwise distinct
ids and all fuel ≥ its size, `recursive_fix_pages` finishes, touches only entries of the forest, the
table afterwards represents a forest `ts'` with the same ids, and
* with `first = false` it returns the first non-zero adjusted page of the list (`firstNZ (adjL ts)`)
  and `ts'` has the same adjustment as `ts` (it is `ts` with a prefix of the work done);
* with `first = true` the table represents exactly the bottom-up specification `adjL ts`. -/
theorem fix_spec : ∀ (fuel : Nat) (ts : List BT) (ids : List Nat) (t : BmTable) (first : Bool),
    repL t ids ts = true → (idsL ts).Nodup → BT.sizeL ts ≤ fuel →
    ∃ t' ts' res, fixPages fuel t ids first = some (t', res) ∧ repL t' ids ts' = true ∧ idsL ts' = idsL ts ∧
      (∀ q, q ∉ idsL ts → t'.get q = t.get q) ∧
      (first = false → res = firstNZ (adjL ts) ∧ adjL ts' = adjL ts) ∧ (first = true → ts' = adjL ts) := by
  intro fuel
  induction fuel with
  | zero =>
    intro ts ids t first hrep _ hsz
    have := BT.sizeL_eq_zero (Nat.le_zero.mp hsz); subst this
    have := repL_nil_right hrep; subst this
    exact ⟨t, [], (0, 0), by simp [fixPages], by simp [repL], rfl, fun _ _ => rfl, fun _ => ⟨rfl, rfl⟩, fun _ => rfl⟩
  | succ f ih =>
    intro ts ids t first hrep hnd hsz
    cases ts with
    | nil =>
      have := repL_nil_right hrep; subst this
      exact ⟨t, [], (0, 0), by simp [fixPages], by simp [repL], rfl, fun _ _ => rfl, fun _ => ⟨rfl, rfl⟩, fun _ => rfl⟩
    | cons tr r =>
      cases tr with
      | node id title fm c page kids =>
        obtain ⟨is, b, rfl, hget, htitle, hfm, hcol, hpage, hrk, hrr⟩ := repL_cons_inv hrep
        simp only [BT.sizeL, BT.size] at hsz
        -- distinctness facts
        simp only [idsL, idsN, List.cons_append, List.nodup_cons, List.mem_append, not_or] at hnd
        obtain ⟨⟨hid_k, hid_r⟩, hnd2⟩ := hnd
        obtain ⟨hnk, hnr, hdisj⟩ := List.nodup_append.mp hnd2
        have hce : b.children.isEmpty = kids.isEmpty := isEmpty_of_length_eq _ _ (repL_length hrk)
        -- step 1: the bookmark's own page
        have hS1 : ∃ t1 kids' page' b',
            (if b.page.1 = 0 ∧ b.children.isEmpty = false then setPage id (fixPages f t b.children false)
              else some (t, b.page)) = some (t1, page') ∧
            page' = (if page.1 = 0 ∧ kids.isEmpty = false then firstNZ (adjL kids) else page) ∧
            t1.get id = some b' ∧ b'.children = b.children ∧ b'.title = title ∧ b'.format = fm ∧ b'.color = c ∧
              b'.page = page' ∧
            repL t1 b.children kids' = true ∧ idsL kids' = idsL kids ∧ adjL kids' = adjL kids ∧
            (kids = [] → kids' = []) ∧
            (∀ q, q ≠ id → q ∉ idsL kids → t1.get q = t.get q) := by
          by_cases hcond : b.page.1 = 0 ∧ b.children.isEmpty = false
          · obtain ⟨t', kids', res, hrun, hrep', hids', hframe', hfalse, _⟩ :=
              ih kids b.children t false hrk hnk (by omega)
            obtain ⟨hres, hadj⟩ := hfalse rfl
            have hgid : t'.get id = some b := by rw [hframe' id hid_k]; exact hget
            refine ⟨t'.modify id (fun x => { x with page := res }), kids', res, { b with page := res }, ?_, ?_, ?_,
              rfl, htitle, hfm, hcol, rfl, ?_, hids', hadj, ?_, ?_⟩
            · simp only [hcond, and_self, if_true, hrun, setPage]
            · rw [← hpage, ← hce]; simp only [hcond, and_self, if_true]; exact hres
            · simp [bmGet_modify, hgid]
            · refine rep_congr_ids _ kids' (Nat.le_refl _) t' _ _ ?_ hrep'
              intro i hi
              rw [hids'] at hi
              have : ¬ i = id := fun e => hid_k (e ▸ hi)
              simp [bmGet_modify, this]
            · intro hk; rw [hk] at hce; simp [hce] at hcond
            · intro q hq hqk
              simp only [bmGet_modify, hq, if_false]
              exact hframe' q hqk
          · refine ⟨t, kids, b.page, b, ?_, ?_, hget, rfl, htitle, hfm, hcol, rfl, hrk, rfl, rfl, fun _ => ‹_›, fun _ _ _ => rfl⟩
            · simp only [hcond, if_false]
            · rw [← hpage, ← hce]; simp only [hcond, if_false]
        obtain ⟨t1, kids', page', b', hs1, hpage', hg1, hbc, hbt, hbf, hbcol, hbp, hrk1, hids1, hadj1, hknil, hframe1⟩ := hS1
        -- the node after step 1 has the same adjustment as the original node
        have hadjN : adjN (.node id title fm c page' kids') = adjN (.node id title fm c page kids) := by
          simp only [adjN, hadj1, BT.node.injEq, true_and, and_true]
          rw [hpage']
          by_cases hc2 : page.1 = 0 ∧ kids.isEmpty = false
          · simp only [hc2, and_self, if_true]; split <;> rfl
          · simp only [hc2, if_false]
            have : kids' = kids ∨ True := Or.inr trivial
            by_cases hk : kids = []
            · rw [hknil hk]; simp
            · -- page.1 ≠ 0 here
              have hp : ¬ page.1 = 0 := by
                intro hp; apply hc2; refine ⟨hp, ?_⟩
                cases kids with
                | nil => exact absurd rfl hk
                | cons _ _ => rfl
              simp [hp]
        have hpageN : (adjN (.node id title fm c page kids)).page = page' := by
          simp only [adjN, BT.page_node]; exact hpage'.symm
        have hrr1 : repL t1 is r = true := by
          refine rep_congr_ids _ r (Nat.le_refl _) t t1 _ ?_ hrr
          intro i hi
          exact hframe1 i (fun e => hid_r (e ▸ hi)) (fun hk => hdisj i hk i hi rfl)
        rw [fixPages]
        simp only [hget, hs1, Option.bind_some]
        cases first with
        | false =>
          by_cases hnz : page'.1 ≠ 0
          · -- early return
            simp only [hnz, ne_eq, not_false_eq_true, and_self, if_true]
            refine ⟨t1, .node id title fm c page' kids' :: r, page', rfl, ?_, ?_, ?_, ?_, fun h => by cases h⟩
            · exact repL_cons_intro hg1 hbt hbf hbcol hbp (hbc ▸ hrk1) hrr1
            · simp only [idsL, idsN, hids1]
            · intro q hq
              simp only [idsL, idsN, List.cons_append, List.mem_cons, List.mem_append, not_or] at hq
              exact hframe1 q hq.1 hq.2.1
            · intro _
              refine ⟨?_, ?_⟩
              · simp only [adjL, firstNZ, hpageN, hnz, ne_eq, not_false_eq_true, if_true]
              · simp only [adjL, hadjN]
          · have hz : page'.1 = 0 := by simpa using hnz
            simp only [hz, ne_eq, not_true_eq_false, and_false, if_false, Bool.false_eq_true, false_and,
              Option.bind_some]
            obtain ⟨t2, r', res2, hrun2, hrep2, hids2, hframe2, hfalse2, _⟩ := ih r is t1 false hrr1 hnr (by omega)
            obtain ⟨hres2, hadj2⟩ := hfalse2 rfl
            refine ⟨t2, .node id title fm c page' kids' :: r', res2, hrun2, ?_, ?_, ?_, ?_, fun h => by cases h⟩
            · refine repL_cons_intro (b := b') ?_ hbt hbf hbcol hbp ?_ hrep2
              · rw [hframe2 id hid_r]; exact hg1
              · rw [hbc]
                refine rep_congr_ids _ kids' (Nat.le_refl _) t1 t2 _ ?_ hrk1
                intro i hi; rw [hids1] at hi
                exact hframe2 i (fun hr => hdisj i hi i hr rfl)
            · simp only [idsL, idsN, hids1, hids2]
            · intro q hq
              simp only [idsL, idsN, List.cons_append, List.mem_cons, List.mem_append, not_or] at hq
              rw [hframe2 q hq.2.2]; exact hframe1 q hq.1 hq.2.1
            · intro _
              refine ⟨?_, ?_⟩
              · simp only [adjL, firstNZ, hpageN, hz, ne_eq, not_true_eq_false, if_false]; exact hres2
              · simp only [adjL, hadjN, hadj2]
        | true =>
          simp only [Bool.true_eq_false, false_and, if_false, true_and]
          -- step 2: the children, with `first`
          have hS2 : ∃ t2, (if b.children.isEmpty = false then (fixPages f t1 b.children true).map (·.1) else some t1) = some t2 ∧
              repL t2 b.children (adjL kids) = true ∧ (∀ q, q ∉ idsL kids → t2.get q = t1.get q) := by
            by_cases hk : b.children.isEmpty = false
            · have hsz' : BT.sizeL kids' ≤ f := by
                rw [← idsL_length _ kids' (Nat.le_refl _), hids1, idsL_length _ kids (Nat.le_refl _)]; omega
              obtain ⟨t2, ks2, res2, hrun2, hrep2, _, hframe2, _, htrue2⟩ :=
                ih kids' b.children t1 true hrk1 (hids1 ▸ hnk) hsz'
              refine ⟨t2, by simp [hk, hrun2], ?_, fun q hq => hframe2 q (hids1 ▸ hq)⟩
              rw [← hadj1, ← htrue2 rfl]; exact hrep2
            · have hk' : kids = [] := by
                rw [hce] at hk
                cases kids with
                | nil => rfl
                | cons _ _ => simp at hk
              have : kids' = [] := hknil hk'
              subst hk'; subst this
              exact ⟨t1, by simp [hk], by simpa [adjL] using hrk1, fun _ _ => rfl⟩
          obtain ⟨t2, hs2, hrk2, hframe2⟩ := hS2
          simp only [hs2, Option.bind_some]
          have hrr2 : repL t2 is r = true := by
            refine rep_congr_ids _ r (Nat.le_refl _) t1 t2 _ ?_ hrr1
            intro i hi
            exact hframe2 i (fun hk => hdisj i hk i hi rfl)
          obtain ⟨t3, r3, res3, hrun3, hrep3, _, hframe3, _, htrue3⟩ := ih r is t2 true hrr2 hnr (by omega)
          have hr3 := htrue3 rfl
          subst hr3
          refine ⟨t3, adjL (.node id title fm c page kids :: r), res3, hrun3, ?_, ?_, ?_, (fun h => by cases h), fun _ => rfl⟩
          · simp only [adjL, adjN]
            rw [← hpage']
            refine repL_cons_intro (b := b') ?_ hbt hbf hbcol hbp ?_ hrep3
            · rw [hframe3 id hid_r, hframe2 id hid_k]; exact hg1
            · rw [hbc]
              refine rep_congr_ids _ _ (Nat.le_refl _) t2 t3 _ ?_ hrk2
              intro i hi
              rw [idsL_adjL _ kids (Nat.le_refl _)] at hi
              exact hframe3 i (fun hr => hdisj i hi i hr rfl)
          · exact idsL_adjL _ _ (Nat.le_refl _)
          · intro q hq
              -- untouched outside the forest
            simp only [idsL, idsN, List.cons_append, List.mem_cons, List.mem_append, not_or] at hq
            rw [hframe3 q hq.2.2, hframe2 q hq.2.1]; exact hframe1 q hq.1 hq.2.1

/-! ## distinct ids for every `add_bookmark` sequence -/

theorem idsL_append : ∀ (a b : List BT), idsL (a ++ b) = idsL a ++ idsL b := by
  intro a
  induction a with
  | nil => intro b; rfl
  | cons t r ih => intro b; simp only [List.cons_append, idsL, ih, List.append_assoc]

theorem insert_absent : ∀ (n : Nat) (ts : List BT), BT.sizeL ts ≤ n → ∀ (p : Nat) (new : BT),
    p ∉ idsL ts → BT.insertUnderL p new ts = ts := by
  intro n
  induction n with
  | zero => intro ts h; have := BT.sizeL_eq_zero (Nat.le_zero.mp h); subst this; intros; rfl
  | succ n ih =>
    intro ts hsz p new hp
    cases ts with
    | nil => rfl
    | cons t r =>
      cases t with
      | node id title f c page kids =>
        simp only [BT.sizeL, BT.size] at hsz
        simp only [idsL, idsN, List.cons_append, List.mem_cons, List.mem_append, not_or] at hp
        have : ¬ id = p := fun e => hp.1 e.symm
        simp only [BT.insertUnderL, BT.insertUnder, this, if_false, ih kids (by omega) p new hp.2.1,
          ih r (by omega) p new hp.2.2]

theorem insert_perm : ∀ (n : Nat) (ts : List BT), BT.sizeL ts ≤ n → ∀ (p k : Nat) (new : BT), idsN new = [k] →
    (idsL ts).Nodup →
    (idsL (BT.insertUnderL p new ts)).Perm (if p ∈ idsL ts then k :: idsL ts else idsL ts) := by
  intro n
  induction n with
  | zero => intro ts h; have := BT.sizeL_eq_zero (Nat.le_zero.mp h); subst this; intros; simp [BT.insertUnderL, idsL]
  | succ n ih =>
    intro ts hsz p k new hnew hnd
    cases ts with
    | nil => simp [BT.insertUnderL, idsL]
    | cons t r =>
      cases t with
      | node id title f c page kids =>
        simp only [BT.sizeL, BT.size] at hsz
        simp only [idsL, idsN, List.cons_append, List.nodup_cons, List.mem_append, not_or] at hnd
        obtain ⟨⟨hid_k, hid_r⟩, hnd2⟩ := hnd
        obtain ⟨hnk, hnr, hdisj⟩ := List.nodup_append.mp hnd2
        simp only [BT.insertUnderL, BT.insertUnder]
        by_cases hp : id = p
        · subst hp
          have hmem : id ∈ idsL (BT.node id title f c page kids :: r) := by simp [idsL, idsN]
          simp only [if_true, hmem, insert_absent _ r (Nat.le_refl _) id new hid_r]
          simp only [idsL, idsN, idsL_append, hnew, List.append_nil]
          have e : id :: (idsL kids ++ [k]) ++ idsL r = (id :: idsL kids) ++ k :: idsL r := by simp
          rw [e]
          exact List.perm_middle
        · simp only [hp, if_false]
          have hne : ¬ p = id := fun e => hp e.symm
          by_cases hpk : p ∈ idsL kids
          · have hpr : p ∉ idsL r := fun h => hdisj p hpk p h rfl
            have hmem : p ∈ id :: (idsL kids ++ idsL r) := by simp [hpk]
            have := ih kids (by omega) p k new hnew hnk
            simp only [hpk, if_true] at this
            simp only [insert_absent _ r (Nat.le_refl _) p new hpr, idsL, idsN, List.cons_append]
            simp only [hmem, if_true]
            refine List.Perm.trans (List.Perm.cons id (List.Perm.append_right _ this)) ?_
            exact List.Perm.swap k id _
          · have := ih r (by omega) p k new hnew hnr
            simp only [insert_absent _ kids (Nat.le_refl _) p new hpk, idsL, idsN, List.cons_append]
            by_cases hpr : p ∈ idsL r
            · have hmem : p ∈ id :: (idsL kids ++ idsL r) := by simp [hpr]
              simp only [hpr, if_true] at this
              simp only [hmem, if_true]
              refine List.Perm.trans (List.Perm.cons id (List.Perm.append_left _ this)) ?_
              have e : id :: (idsL kids ++ k :: idsL r) = (id :: idsL kids) ++ k :: idsL r := by simp
              rw [e]
              exact List.perm_middle
            · have hmem : ¬ p ∈ id :: (idsL kids ++ idsL r) := by simp [hne, hpk, hpr]
              simp only [hpr, if_false] at this
              simp only [hmem, if_false]
              exact List.Perm.cons id (List.Perm.append_left _ this)

/-- the forest of any call sequence has pairwise distinct ids, all ≤ the counter -/
theorem ids_step (st : Nat × List BT) (op : Bm × Option Nat)
    (h : (idsL st.2).Nodup ∧ ∀ i ∈ idsL st.2, i ≤ st.1) :
    (idsL (forestStep st op).2).Nodup ∧ ∀ i ∈ idsL (forestStep st op).2, i ≤ (forestStep st op).1 := by
  obtain ⟨hn, hb⟩ := h
  have hk : st.1 + 1 ∉ idsL st.2 := fun hm => by have := hb _ hm; omega
  cases hp : op.2 with
  | none =>
    simp only [forestStep, hp, idsL_append, idsL, idsN, List.append_nil]
    refine ⟨?_, ?_⟩
    · rw [List.nodup_append]
      refine ⟨hn, by simp, ?_⟩
      intro a ha b hb' e
      simp at hb'; subst hb'; subst e; exact hk ha
    · intro i hi
      simp only [List.mem_append, List.mem_singleton] at hi
      rcases hi with hi | rfl
      · have := hb i hi; omega
      · omega
  | some p =>
    simp only [forestStep, hp]
    have hperm := insert_perm _ st.2 (Nat.le_refl _) p (st.1 + 1)
      (BT.node (st.1 + 1) op.1.title op.1.format op.1.color op.1.page []) (by simp [idsN, idsL]) hn
    refine ⟨?_, ?_⟩
    · rw [hperm.nodup_iff]
      split
      · exact List.nodup_cons.mpr ⟨hk, hn⟩
      · exact hn
    · intro i hi
      rw [hperm.mem_iff] at hi
      split at hi
      · simp only [List.mem_cons] at hi
        rcases hi with rfl | hi
        · omega
        · have := hb i hi; omega
      · have := hb i hi; omega

theorem ids_nodup_of_ops (ops : List (Bm × Option Nat)) : (idsL (forestOfOps ops)).Nodup := by
  have : ∀ (ops : List (Bm × Option Nat)) (st : Nat × List BT),
      ((idsL st.2).Nodup ∧ ∀ i ∈ idsL st.2, i ≤ st.1) →
      ((idsL (ops.foldl forestStep st).2).Nodup ∧ ∀ i ∈ idsL (ops.foldl forestStep st).2, i ≤ (ops.foldl forestStep st).1) := by
    intro ops
    induction ops with
    | nil => intro st h; exact h
    | cons op r ih => intro st h; simp only [List.foldl_cons]; exact ih _ (ids_step st op h)
  exact (this ops (0, []) ⟨by simp [idsL], by simp [idsL]⟩).1

/-- **adjust_zero_pages.** For EVERY sequence of `add_bookmark(Bookmark::new(..), parent)` calls and
all fuel ≥ the number of reachable bookmarks, `adjust_zero_pages` finishes, keeps `bookmarks` and the
id counter, leaves every unreachable bookmark alone, and afterwards the table represents the
bottom-up specification `adjL` of the forest: a bookmark with page number 0 that has children takes
the first non-zero adjusted page among its children (else (0,0)); every other page is unchanged. -/
theorem adjust_spec (ops : List (Bm × Option Nat)) (hc : ∀ op ∈ ops, op.1.children = [])
    (fuel : Nat) (hfuel : BT.sizeL (forestOfOps ops) ≤ fuel) :
    ∃ s', adjustZeroPages fuel (addAll BmState.empty ops) = some s' ∧
      s'.roots = (addAll BmState.empty ops).roots ∧ s'.maxBm = (addAll BmState.empty ops).maxBm ∧
      repL s'.table s'.roots (adjL (forestOfOps ops)) = true ∧
      (∀ q, q ∉ idsL (forestOfOps ops) → s'.table.get q = (addAll BmState.empty ops).table.get q) := by
  obtain ⟨t', ts', res, hrun, hrep, _, hframe, _, htrue⟩ :=
    fix_spec fuel (forestOfOps ops) _ _ true (rep_of_ops ops hc) (ids_nodup_of_ops ops) hfuel
  refine ⟨{ (addAll BmState.empty ops) with table := t' }, ?_, rfl, rfl, ?_, hframe⟩
  · simp [adjustZeroPages, hrun]
  · rw [← htrue rfl]; exact hrep

/-- adjusting keeps the shape: same ids, hence `build_outline` afterwards sees the same forest with
adjusted pages (so `outline_links` / `toc_readback` apply to `adjL (forestOfOps ops)`). -/
theorem adjust_then_build (ops : List (Bm × Option Nat)) (hc : ∀ op ∈ ops, op.1.children = [])
    (fuelA fuelB maxId : Nat) (hfA : BT.sizeL (forestOfOps ops) ≤ fuelA)
    (hne : forestOfOps ops ≠ []) (hfB : BT.sizeL (adjL (forestOfOps ops)) ≤ fuelB) :
    ∃ s' b, adjustZeroPages fuelA (addAll BmState.empty ops) = some s' ∧
      buildOutline fuelB s' maxId = some (some b) ∧ b.root = (maxId + 1, 0) ∧
      EmbL b.objs.get (maxId + 1) (maxId + 1, 0) none (adjL (forestOfOps ops)) := by
  obtain ⟨s', hrun, _, _, hrep, _⟩ := adjust_spec ops hc fuelA hfA
  have hne' : adjL (forestOfOps ops) ≠ [] := by
    cases h : forestOfOps ops with
    | nil => exact absurd h hne
    | cons _ _ => simp [adjL]
  obtain ⟨b, hb, hroot, _, _, hemb⟩ := outline_links s' _ maxId fuelB hrep hne' hfB
  exact ⟨s', b, hrun, hb, hroot, hemb⟩

/-- non-vacuity: a zero-page parent whose first child is a zero-page parent of a real page -/
example : adjL [.node 1 [65] 0 [] (0, 7) [.node 2 [66] 0 [] (0, 0) [.node 3 [67] 0 [] (5, 0) []], .node 4 [68] 0 [] (6, 0) []]]
    = [.node 1 [65] 0 [] (5, 0) [.node 2 [66] 0 [] (5, 0) [.node 3 [67] 0 [] (5, 0) []], .node 4 [68] 0 [] (6, 0) []]] := by
  rfl

end Lopdf.C17
