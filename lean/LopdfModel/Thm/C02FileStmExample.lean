import LopdfModel.Thm.C02FileStm
/-
  Non-vacuity of `loadDoc_complete_stream`: a concrete file meets every hypothesis.
    %PDF-1.5 LF
    1 0 obj LF /A LF endobj LF                                            (offset 9)
    2 0 obj LF <</Size 3/W[1 1 0]/Index[1 2]/Length 4>> LF stream LF
      01 09 01 1B  LF endstream LF endobj LF                               (offset 27)
    startxref LF 27 LF %%EOF
-/
namespace Lopdf.Grammar
open Lopdf Gen

def sVer : Bytes := [49, 46, 53]
def sBody : Bytes := [49, 32, 48, 32, 111, 98, 106, 10, 47, 65, 10, 101, 110, 100, 111, 98, 106, 10]
def sSubs : List SSub := [(1, [(1, 9, 0), (1, 27, 0)])]

theorem digitObj (d n : Nat) (c : UInt8) (hc : isDigit c = true) (hn : (c - 48).toNat = n) :
    DerivesObj d (.int (Int.ofNat n)) [c] :=
  .int d _ _ (.unsigned n [c] (hn ▸ .one c hc) (by subst hn; have := digit_val_le9 c hc; simp only [I64MAX]; omega))

theorem lastItem (o : Obj) (b : Bytes) (h : DerivesObj 0 o b) : DerivesItems 0 [o] (b ++ [] ++ []) :=
  .cons 0 o [] b [] [] h .nil (.nil 0) (fun _ b r e => by cases e)

theorem spItem (o : Obj) (os : List Obj) (b bs : Bytes) (h : DerivesObj 0 o b) (hr : DerivesItems 0 os bs) :
    DerivesItems 0 (o :: os) (b ++ [32] ++ bs) :=
  .cons 0 o os b [32] bs h (.ws 32 _ (by decide) .nil) hr (fun _ => stopHead_sp _)

def kSize : Bytes := [83, 105, 122, 101]
def kIndex : Bytes := [73, 110, 100, 101, 120]
def kLength : Bytes := [76, 101, 110, 103, 116, 104]

theorem rawName : ∀ (n : Bytes), (∀ b ∈ n, (b != 35) = true ∧ isRegular b = true) → DerivesName n n
  | [], _ => .nil
  | b :: r, h => .raw b r r (h b (by simp)).1 (h b (by simp)).2 (rawName r (fun x hx => h x (by simp [hx])))

def sEntries : List (Bytes × Obj) :=
  [(kSize, .int 3), ([87], .arr [.int 1, .int 1, .int 0]), (kIndex, .arr [.int 1, .int 2]), (kLength, .int 4)]

def sEbs : Bytes :=
  47 :: kSize ++ [32] ++ [51] ++ [] ++
   (47 :: [87] ++ [] ++ (91 :: [] ++ ([49] ++ [32] ++ ([49] ++ [32] ++ ([48] ++ [] ++ []))) ++ [93]) ++ [] ++
    (47 :: kIndex ++ [] ++ (91 :: [] ++ ([49] ++ [32] ++ ([50] ++ [] ++ [])) ++ [93]) ++ [] ++
     (47 :: kLength ++ [32] ++ [52] ++ [] ++ [])))

theorem sEntries_derive : DerivesEntries 1 sEntries sEbs :=
  .cons 1 kSize kSize _ _ [32] [51] [] _ (rawName kSize (by decide)) (.ws 32 _ (by decide) .nil) (stopHead_sp _)
    (digitObj 1 3 51 (by decide) (by decide)) .nil
    (.cons 1 [87] [87] _ _ [] _ [] _ (rawName [87] (by decide)) .nil
      (by intro b r e; injection e with e _; subst e; decide)
      (.arr 0 _ [] _ .nil (spItem _ _ _ _ (digitObj 0 1 49 (by decide) (by decide))
        (spItem _ _ _ _ (digitObj 0 1 49 (by decide) (by decide)) (lastItem _ _ (digitObj 0 0 48 (by decide) (by decide))))))
      .nil
      (.cons 1 kIndex kIndex _ _ [] _ [] _ (rawName kIndex (by decide)) .nil
        (by intro b r e; injection e with e _; subst e; decide)
        (.arr 0 _ [] _ .nil (spItem _ _ _ _ (digitObj 0 1 49 (by decide) (by decide))
          (lastItem _ _ (digitObj 0 2 50 (by decide) (by decide)))))
        .nil
        (.cons 1 kLength kLength _ _ [32] [52] [] _ (rawName kLength (by decide)) (.ws 32 _ (by decide) .nil)
          (stopHead_sp _) (digitObj 1 4 52 (by decide) (by decide)) .nil (.nil 1))))

def sDict : Dict := setEntries [] sEntries
def sData : Bytes := encodeSubs 1 1 0 sSubs

def sXrefObj : Bytes :=
  [50] ++ ([32] ++ ([48] ++ ([32] ++ ([111, 98, 106] ++ ([10] ++
    (streamSpelling [] sEbs [10] [] [10] sData [10] ++ ([10] ++ [101, 110, 100, 111, 98, 106])))))))

theorem sXrefObj_derives : DerivesIndirect (2, 0) (.stream sDict sData) sXrefObj :=
  .stream 1 2 0 sEntries [50] [32] [48] [32] [10] [] sEbs [10] [] [10] sData [10] [10]
    (.one 50 (by decide)) (by decide) ⟨.ws 32 _ (by decide) .nil, by simp⟩ (.one 48 (by decide)) (by decide)
    ⟨.ws 32 _ (by decide) .nil, by simp⟩ (.ws 10 _ (by decide) .nil) .nil sEntries_derive (by decide)
    (.ws 10 _ (by decide) .nil) (by intro b hb; simp at hb) .lf rfl (.some _ .lf) (.ws 10 _ (by decide) .nil)

def sAfter : Bytes := [10] ++ (STARTXREF ++ ([10] ++ ([] ++ ([50, 55] ++ ([] ++ ([10] ++ (EOF_MARK ++ [])))))))
def sTail : Bytes := sXrefObj ++ sAfter

def sFile : Bytes := (PDF_KW ++ (sVer ++ ([10] ++ sBody))) ++ sTail

theorem sIndirect1 : DerivesIndirect (1, 0) (.name [65])
    ([49] ++ ([32] ++ ([48] ++ ([32] ++ ([111, 98, 106] ++ ([10] ++ ((47 :: [65]) ++ ([10] ++ [101, 110, 100, 111, 98, 106])))))))) :=
  .plain 0 1 0 _ [49] [32] [48] [32] [10] _ [10] (.one 49 (by decide)) (by decide) ⟨.ws 32 _ (by decide) .nil, by simp⟩
    (.one 48 (by decide)) (by decide) ⟨.ws 32 _ (by decide) .nil, by simp⟩ (.ws 10 _ (by decide) .nil)
    (.name 0 [65] [65] (.raw 65 _ _ (by decide) (by decide) .nil)) (by decide) (.ws 10 _ (by decide) .nil)
    (fun _ => by simp)

def sVal : Nat → Nat × Obj := fun k => if k = 1 then (0, .name [65]) else (0, .stream sDict sData)

set_option maxRecDepth 10000 in
/-- the concrete cross-reference-stream file loads to exactly object `1 0 = /A` and the
cross-reference stream `2 0` itself -/
theorem sFile_loads : ∃ L, loadDoc sFile = .ok L ∧ L.version = sVer ∧ L.xrefStart = 27 ∧
    L.trailer = [(kSize, .int 3)] ∧
    L.objects.get (1, 0) = some (.name [65]) ∧ L.objects.get (2, 0) = some (.stream sDict sData) ∧
    L.objects.get (3, 0) = none := by
  have htab : streamTableOf sSubs = [(1, .normal 9 0), (2, .normal 27 0)] := by decide
  obtain ⟨L, h1, h2, h3, h4, _, h6, h7⟩ := loadDoc_complete_stream sVer [10] sBody sDict 3 1 1 0 sSubs [10] [10] []
    [50, 55] [] [10] [] sVal
    (by intro b hb; simp [sVer] at hb; rcases hb with rfl | rfl | rfl <;> decide) .lf sXrefObj_derives
    rfl rfl rfl (Or.inl rfl) (by unfold SubsOk sSubs RowOk; decide) (by decide) (by decide) rfl rfl
    .lf (by intro b hb; simp at hb)
    (derivesNat_lit _ [50, 55] 1 rfl (by unfold AllDigits; decide) (by decide)) (by intro b hb; simp at hb) .lf .none
    (by decide) (by rw [htab]; decide) sFile rfl
    (by
      intro k e hke
      rw [htab] at hke
      simp only [XTable.get] at hke
      split at hke
      · rename_i hk; subst hk; injection hke with hke; subst hke
        exact ⟨9, rfl, by decide, [], _, [10] ++ sTail, by decide, .nil, sIndirect1, by intro d c h; cases h⟩
      · split at hke
        · rename_i hk; subst hk; injection hke with hke; subst hke
          refine ⟨27, rfl, by decide, [], sXrefObj, sAfter, ?_, .nil, sXrefObj_derives, ?_⟩
          · decide
          · intro d c h; injection h with h _; subst h
            have : sDict.get [84, 121, 112, 101] = none := rfl
            rw [this]; intro h'; cases h'
        · cases hke)
  refine ⟨L, h1, h2, h4, ?_, ?_, ?_, ?_⟩
  · rw [h3]; rfl
  · exact h6 1 (.normal 9 0) (by rw [htab]; decide)
  · exact h6 2 (.normal 27 0) (by rw [htab]; decide)
  · exact h7 (3, 0) (Or.inl (by rw [htab]; decide))

end Lopdf.Grammar
