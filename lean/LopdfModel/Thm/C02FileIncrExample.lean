import LopdfModel.Thm.C02FileIncr
import LopdfModel.Thm.C02FileExample
import LopdfModel.Thm.C02FileStmExample
/-
  Non-vacuity of `loadDoc_complete_two_revisions`: the 107-byte file of C02FileExample followed by
  an appended revision that redefines object 1.
    … base (object 1 = /A at offset 9, xref at 27, trailer <</Size 2>>) …
    startxref LF 27 LF %%EOF LF
    1 0 obj LF /B LF endobj LF                                   (offset 115)
    xref LF 1 1 LF 0000000115 00000 n SP LF                       (offset 133)
    trailer LF <</Size 2/Prev 27>> LF
    startxref LF 133 LF %%EOF
-/
namespace Lopdf.Grammar
open Lopdf Gen

def iMid : Bytes :=
  STARTXREF ++ [10, 50, 55, 10] ++ EOF_MARK ++ [10] ++
    [49, 32, 48, 32, 111, 98, 106, 10, 47, 66, 10, 101, 110, 100, 111, 98, 106, 10]

def iSecs2 : List TSub := [(1, [(115, 0, true)])]
def iXref2 : Bytes :=
  [120, 114, 101, 102] ++ [10] ++
    ([49] ++ [32] ++ [49] ++ [] ++ [10] ++
      (([48, 48, 48, 48, 48, 48, 48, 49, 49, 53] ++ [32] ++ [48, 48, 48, 48, 48] ++ [32, 110] ++ [32, 10]) ++ []))

theorem iXref2_derives : DerivesXrefTable iSecs2 iXref2 :=
  .mk _ _ _ .lf
    (.one _ _
      (.mk 1 [(115, 0, true)] _ _ _ _ _ (.one 49 (by decide)) (.one 49 (by decide)) (by decide)
        (by decide) .none .lf
        (.cons _ _ _ _
          (.mk 115 0 true _ _ _ (derivesNat_lit 115 [48, 48, 48, 48, 48, 48, 48, 49, 49, 53] 9 rfl (by unfold AllDigits; decide) rfl)
            (by decide) (derivesNat_lit 0 [48, 48, 48, 48, 48] 4 rfl (by unfold AllDigits; decide) rfl) (by decide) .spLf)
          .nil)))

def kPrev : Bytes := [80, 114, 101, 118]
def iEntries2 : List (Bytes × Obj) := [(kSize, .int 2), (kPrev, .int 27)]
def iEbs2 : Bytes := 47 :: kSize ++ [32] ++ [50] ++ [] ++ (47 :: kPrev ++ [32] ++ [50, 55] ++ [] ++ [])

theorem iEntries2_derive : DerivesEntries 0 iEntries2 iEbs2 :=
  .cons 0 kSize kSize _ _ [32] [50] [] _ (rawName kSize (by decide)) (.ws 32 _ (by decide) .nil) (stopHead_sp _)
    (digitObj 0 2 50 (by decide) (by decide)) .nil
    (.cons 0 kPrev kPrev _ _ [32] [50, 55] [] _ (rawName kPrev (by decide)) (.ws 32 _ (by decide) .nil) (stopHead_sp _)
      (.int 0 27 _ (.unsigned 27 _ (derivesNat_lit 27 [50, 55] 1 rfl (by unfold AllDigits; decide) rfl) (by decide)))
      .nil (.nil 0))

def iTail : Bytes :=
  iXref2 ++ (TRAILER_KW ++ ([10] ++ ((60 :: 60 :: [] ++ iEbs2 ++ [62, 62]) ++ ([10] ++ (STARTXREF ++ ([10] ++ ([] ++
    ([49, 51, 51] ++ ([] ++ ([10] ++ (EOF_MARK ++ [])))))))))))

def iFile : Bytes :=
  (PDF_KW ++ (exVer ++ ([10] ++ exBody))) ++ (exXref ++ (TRAILER_KW ++ ([10] ++
    ((60 :: 60 :: [] ++ exEbs ++ [62, 62]) ++ ([10] ++ (iMid ++ iTail))))))

theorem iIndirectB : DerivesIndirect (1, 0) (.name [66])
    ([49] ++ ([32] ++ ([48] ++ ([32] ++ ([111, 98, 106] ++ ([10] ++ ((47 :: [66]) ++ ([10] ++ [101, 110, 100, 111, 98, 106])))))))) :=
  .plain 0 1 0 _ [49] [32] [48] [32] [10] _ [10] (.one 49 (by decide)) (by decide) ⟨.ws 32 _ (by decide) .nil, by simp⟩
    (.one 48 (by decide)) (by decide) ⟨.ws 32 _ (by decide) .nil, by simp⟩ (.ws 10 _ (by decide) .nil)
    (.name 0 [66] [66] (.raw 66 _ _ (by decide) (by decide) .nil)) (by decide) (.ws 10 _ (by decide) .nil)
    (fun _ => by simp)

set_option maxRecDepth 20000 in
/-- the updated file loads object 1 as `/B` (the NEWEST definition), with the appended trailer -/
theorem iFile_loads : ∃ L, loadDoc iFile = .ok L ∧ L.version = exVer ∧ L.trailer = [(kSize, .int 2)] ∧
    L.objects.get (1, 0) = some (.name [66]) ∧ L.objects.get (2, 0) = none := by
  have ht2 : tableOf iSecs2 = [(1, .normal 115 0)] := by decide
  have ht1 : tableOf exSecs = [(1, .normal 9 0)] := by decide
  obtain ⟨L, h1, h2, h3, h4⟩ := loadDoc_complete_two_revisions exVer [10] exBody exSecs exXref [10] [] [10] iMid 2
    iSecs2 iXref2 [10] [] [10] [10] [] [49, 51, 51] [] [10] [] 2 (fun _ => (0, .name [66])) (fun _ => [])
    (by intro b hb; simp [exVer] at hb; rcases hb with rfl | rfl | rfl <;> decide) .lf
    exXref_derives (.ws 10 _ (by decide) .nil) .nil exEntries_derive (by decide) (.ws 10 _ (by decide) .nil) rfl rfl
    (by intro b r e; injection e with e _; subst e; decide) (by decide)
    iXref2_derives (.ws 10 _ (by decide) .nil) .nil iEntries2_derive (by decide) (.ws 10 _ (by decide) .nil) rfl rfl rfl rfl
    .lf (by intro b hb; simp at hb) (by intro b hb; simp at hb) .lf .none (by decide)
    (derivesNat_lit _ [49, 51, 51] 2 rfl (by unfold AllDigits; decide) (by decide))
    (by rw [ht2, ht1]; decide) iFile rfl
    (by
      intro k e hke
      rw [ht2, ht1] at hke
      simp only [newestEntry, XTable.get] at hke
      split at hke
      · rename_i hk; subst hk; simp only [Option.orElse] at hke; injection hke with hke; subst hke
        exact ⟨rfl, Or.inl ⟨⟨by decide, [], _, [10] ++ iTail, by decide, .nil, iIndirectB, by intro d c h; cases h⟩, rfl⟩⟩
      · simp [Option.orElse] at hke)
    (by intro k _; rfl) (by intro k p hp; simp at hp)
  refine ⟨L, h1, h2, ?_, ?_, ?_⟩
  · rw [h3]; rfl
  · rw [h4, ht2, ht1]; rfl
  · rw [h4, ht2, ht1]; rfl

end Lopdf.Grammar
