import LopdfModel.Thm.C01Obj
import LopdfModel.Model.Read
/-
  C01 — indirect objects.  `dictionary` (trailer / stream dictionaries) and `_indirect_object`
  read back what `write_dictionary` / `Writer::write_indirect_object` wrote: plain objects, and
  streams whose `Length` entry is consistent with the content.
-/
namespace Lopdf.ObjRt
open Lopdf Gen

/-- **`dictionary`** reads back a written dictionary, whatever follows (e.g. `\nstartxref…`
after a trailer dictionary, `stream\n…` after a stream dictionary). -/
theorem pDictionary_rt (es : List (Bytes × Obj)) (rest : Bytes) (hwf : WFObj (.dict es))
    (hh : height (.dict es) ≤ MAX_NESTING) :
    pDictionary (writeObj (.dict es) ++ rest) = some (normD es, rest) := by
  simp only [WFObj, WF] at hwf
  simp only [height] at hh
  have hin : writeObj (.dict es) ++ rest = 60 :: 60 :: (writeDictBody es ++ 62 :: 62 :: rest) := by
    simp [writeObj]
  rw [hin]
  have hsp := space_head _ (stop_dict es rest).2
  have hlen : sizeD es ≤ (60 :: 60 :: (writeDictBody es ++ 62 :: 62 :: rest)).length + 1 := by
    have := sizeD_le_length _ es hwf.2
    simp; omega
  have hm := dict_core _ litOK_all es ((60 :: 60 :: (writeDictBody es ++ 62 :: 62 :: rest)).length + 1) 1
    ((60 :: 60 :: (writeDictBody es ++ 62 :: 62 :: rest)).length + 1) rest [] hwf.2 (by omega) hlen
    (by have := length_le_sizeD es; omega)
  have hset : setAll [] (normD es) = normD es := by
    have := setAll_nodup (normD es) [] (by simpa [normD_keys] using hwf.1)
    simpa using this
  simp only [pDictionary, hsp, hm, hset]

/-- in the shape the file-level theorems use: a dictionary without reals reads back unchanged -/
theorem pDictionary_rt_noReal (es : List (Bytes × Obj)) (rest : Bytes) (hwf : WFObj (.dict es))
    (hh : height (.dict es) ≤ MAX_NESTING) (hnr : NoRealD es) :
    pDictionary (writeObj (.dict es) ++ rest) = some (es, rest) := by
  rw [pDictionary_rt es rest hwf hh, normD_noReal es hnr]

theorem pDictionary_none (inp : Bytes) (h : ∀ r, inp ≠ 60 :: 60 :: r) : pDictionary inp = none := by
  unfold pDictionary
  split
  · rename_i r; exact absurd rfl (h r)
  · rfl

theorem hexBody_head (s x : Bytes) : ∀ r, writeHexBody s ++ 62 :: x ≠ 60 :: r := by
  intro r e
  cases s with
  | nil => simp [writeHexBody] at e
  | cons b bs =>
    simp only [writeHexBody, hex2U, List.cons_append, List.nil_append] at e
    injection e with e _
    have := (hexDigitU_facts (b >>> 4) (nibbles_join b).1).1
    rw [e] at this
    exact absurd this (by decide)

/-- what follows the object in an indirect object: the end separator, `\nendobj\n`, anything -/
def endObjTail (o : Obj) (rest : Bytes) : Bytes :=
  (if needEndSeparator o then [32] else []) ++ [10, 101, 110, 100, 111, 98, 106, 10] ++ rest

theorem space_endobj (rest : Bytes) :
    space (10 :: 101 :: 110 :: 100 :: 111 :: 98 :: 106 :: 10 :: rest) = 101 :: 110 :: 100 :: 111 :: 98 :: 106 :: 10 :: rest := by
  rw [space_ws 10 _ (by decide), space_head _ ⟨101, _, rfl, by decide, by decide⟩]

theorem follow_endobj (o : Obj) (rest : Bytes) : Follow true o (endObjTail o rest) := by
  have hsep : ∀ x : Bytes, refTail (32 :: 10 :: 101 :: 110 :: 100 :: 111 :: 98 :: 106 :: 10 :: x) = none := by
    intro x
    unfold refTail
    rw [space_sp, space_endobj]
    exact refTailS_nondigit 101 _ (by decide)
  have hnd : ∀ x : Bytes, NoDigitAhead (32 :: x) := by
    intro x b r e; injection e with e _; subst e; decide
  have hdot : ∀ (x r : Bytes), (32 :: x : Bytes) ≠ 46 :: r := by
    intro x r e; injection e with e _; exact absurd e (by decide)
  cases o <;> simp only [Follow, endObjTail, needEndSeparator, if_true, List.cons_append, List.nil_append]
  · exact ⟨⟨hnd _, hdot _⟩, fun _ => hsep rest⟩
  · exact ⟨hnd _, fun _ => ⟨hdot _, fun _ => hsep rest⟩⟩
  · intro b r e; injection e with e _; subst e; decide

theorem writeIndirect_eq (num gen : Nat) (o : Obj) (rest : Bytes) :
    writeIndirect num gen o ++ rest =
      natDigits num ++ (32 :: (natDigits gen ++ (32 :: 111 :: 98 :: 106 :: 10 ::
        ((if needSeparator o then [32] else []) ++ (writeObj o ++ endObjTail o rest))))) := by
  simp [writeIndirect, endObjTail]

/-- the header `N G obj\n` and the separator are consumed; the object starts at `space r3` -/
theorem indirect_header (num gen : Nat) (hn : num ≤ U32_MAX) (hg : gen ≤ U16_MAX) (Y : Bytes) (hY : HeadTok Y)
    (sep : Bytes) (hsep : sep = [] ∨ sep = [32]) :
    let inp := natDigits num ++ (32 :: (natDigits gen ++ (32 :: 111 :: 98 :: 106 :: 10 :: (sep ++ Y))))
    ∃ r1 r2 r3, pUnsigned U32_MAX (space inp) = some (num, r1) ∧ pUnsigned U16_MAX (space r1) = some (gen, r2) ∧
      tag OBJ_WORD (space r2) = some r3 ∧ space r3 = Y := by
  intro inp
  have hnd : ∀ x : Bytes, NoDigitAhead (32 :: x) := by
    intro x b r e; injection e with e _; subst e; decide
  obtain ⟨a, as, ha, hda⟩ := natDigits_head num
  obtain ⟨c, cs, hc, hdc⟩ := natDigits_head gen
  have hfa := digit_facts a hda
  have hfc := digit_facts c hdc
  refine ⟨32 :: (natDigits gen ++ (32 :: 111 :: 98 :: 106 :: 10 :: (sep ++ Y))),
    32 :: 111 :: 98 :: 106 :: 10 :: (sep ++ Y), 10 :: (sep ++ Y), ?_, ?_, ?_, ?_⟩
  · rw [space_head inp ⟨a, as ++ _, by simp only [inp]; rw [ha]; rfl, hfa.2.2.2.2.2.2.2.2.1, hfa.2.2.2.2.2.2.2.1⟩]
    simp only [inp]
    rw [pUnsigned_digits _ _ _ (natDigits_ne_nil num) (natDigits_all_digit num) (hnd _), digitsVal_natDigits]
    simp [hn]
  · rw [space_sp_head _ ⟨c, cs ++ _, by rw [hc]; rfl, hfc.2.2.2.2.2.2.2.2.1, hfc.2.2.2.2.2.2.2.1⟩,
      pUnsigned_digits _ _ _ (natDigits_ne_nil gen) (natDigits_all_digit gen) (hnd _), digitsVal_natDigits]
    simp [hg]
  · rw [space_sp_head _ ⟨111, _, rfl, by decide, by decide⟩]
    simp [OBJ_WORD, tag]
  · rw [space_ws 10 _ (by decide)]
    rcases hsep with rfl | rfl
    · simpa using space_head Y hY
    · simpa using space_sp_head Y hY

theorem idOk_of (expected : Option ObjId) (num gen : Nat) (h : expected = none ∨ expected = some (num, gen)) :
    (match expected with | some e => decide (e = (num, gen)) | none => true) = true := by
  rcases h with rfl | rfl <;> simp

/-- objects written with a separator start with a letter of a keyword, `-` or a digit -/
theorem head_sep (L : Bytes → Prop) (o : Obj) (x : Bytes) (h : WF L o) (hs : needSeparator o = true) :
    ∃ b r, writeObj o ++ x = b :: r ∧ b ≠ 60 := by
  have hnum : ∀ (neg : Bool) (ds y : Bytes), ds ≠ [] → AllDigits ds → ∃ b r, sgn neg ++ ds ++ y = b :: r ∧ b ≠ 60 := by
    intro neg ds y hne hd
    cases neg
    · obtain ⟨a, as, rfl⟩ := List.exists_cons_of_ne_nil hne
      refine ⟨a, as ++ y, by simp [sgn], ?_⟩
      intro e; have := hd a (by simp); rw [e] at this; exact absurd this (by decide)
    · exact ⟨45, ds ++ y, by simp [sgn], by decide⟩
  cases o with
  | null => exact ⟨110, _, rfl, by decide⟩
  | bool b =>
    cases b
    · exact ⟨102, _, rfl, by decide⟩
    · exact ⟨116, _, rfl, by decide⟩
  | int i =>
    obtain ⟨neg, m, e, _⟩ := writeInt_shape i
    simp only [writeObj, e]
    exact hnum neg _ x (natDigits_ne_nil m) (natDigits_all_digit m)
  | real t =>
    simp only [WF] at h
    simp only [writeObj]
    rcases real_cases t h with ⟨hd, _⟩ | ⟨neg, ds, e, hne, hd, _, _⟩
    · obtain ⟨neg, d1, d2, e, hne, h1, _⟩ := decimal_shape _ hd
      rw [e]
      obtain ⟨b, r, e2, hb⟩ := hnum neg d1 (46 :: d2 ++ x) hne h1
      exact ⟨b, r, by rw [← e2]; simp, hb⟩
    · rw [e]; exact hnum neg ds x hne hd
  | ref n g =>
    simp only [writeObj, List.append_assoc]
    obtain ⟨b, r, e, hb⟩ := hnum false (natDigits n) ([32] ++ (natDigits g ++ ([32, 82] ++ x)))
      (natDigits_ne_nil n) (natDigits_all_digit n)
    exact ⟨b, r, by rw [← e]; simp [sgn], hb⟩
  | name n => simp [needSeparator] at hs
  | str s f => simp [needSeparator] at hs
  | arr items => simp [needSeparator] at hs
  | dict es => simp [needSeparator] at hs
  | stream es c => simp [needSeparator] at hs

/-- `stream` declines (recoverably) on a written non-stream object followed by `endobj` -/
theorem pStream_plain (len : ObjId → Option Int) (o : Obj) (rest : Bytes) (hwf : WFObj o)
    (hh : height o ≤ MAX_NESTING) : pStream len (writeObj o ++ endObjTail o rest) = .error := by
  have hnone : ∀ (b : UInt8) (r : Bytes), b ≠ 60 → pStream len (b :: r) = .error := by
    intro b r hb
    unfold pStream
    rw [pDictionary_none _ (fun r' e => by injection e with e _; exact hb e)]
  cases o with
  | dict es =>
    unfold pStream
    rw [pDictionary_rt es _ hwf hh]
    simp only [endObjTail, needEndSeparator, Bool.false_eq_true, if_false, List.nil_append, List.cons_append]
    rw [space_endobj]
    simp [STREAM_WORD, tag]
  | str s f =>
    cases f
    · exact hnone 40 _ (by decide)
    · unfold pStream
      rw [pDictionary_none]
      intro r e
      simp only [writeObj, writeString, List.cons_append, List.nil_append, List.append_assoc] at e
      injection e with _ e
      exact hexBody_head s _ _ e
  | null => exact hnone 110 _ (by decide)
  | bool b =>
    cases b
    · exact hnone 102 _ (by decide)
    · exact hnone 116 _ (by decide)
  | name n => exact hnone 47 _ (by decide)
  | arr items => exact hnone 91 _ (by decide)
  | stream es c => simp [WFObj, WF] at hwf
  | int i =>
    obtain ⟨b, r, e, hb⟩ := head_sep _ (.int i) (endObjTail (.int i) rest) hwf rfl
    rw [e]; exact hnone b r hb
  | real t =>
    obtain ⟨b, r, e, hb⟩ := head_sep _ (.real t) (endObjTail (.real t) rest) hwf rfl
    rw [e]; exact hnone b r hb
  | ref n g =>
    obtain ⟨b, r, e, hb⟩ := head_sep _ (.ref n g) (endObjTail (.ref n g) rest) hwf rfl
    rw [e]; exact hnone b r hb

/-- **Indirect objects, plain.** `_indirect_object` reads back what `write_indirect_object`
wrote for every well-formed non-stream object, any object number within u32 and generation
within u16, with or without an expected id, whatever follows `endobj`. -/
theorem indirect_rt (len : ObjId → Option Int) (expected : Option ObjId) (base : Nat) (num gen : Nat)
    (o : Obj) (rest : Bytes) (hn : num ≤ U32_MAX) (hg : gen ≤ U16_MAX)
    (hexp : expected = none ∨ expected = some (num, gen))
    (hwf : WFObj o) (hh : height o ≤ MAX_NESTING) :
    pIndirect len expected base (writeIndirect num gen o ++ rest) = some ((num, gen), .plain (norm o)) := by
  rw [writeIndirect_eq]
  obtain ⟨r1, r2, r3, h1, h2, h3, h4⟩ := indirect_header num gen hn hg (writeObj o ++ endObjTail o rest)
    (headTok_obj _ o _ hwf) (if needSeparator o then [32] else []) (by split <;> simp)
  have hobj : directObjects ((writeObj o ++ endObjTail o rest).length + 1) 0 (writeObj o ++ endObjTail o rest) =
      .ok (norm o) (endObjTail o rest) :=
    obj_rt o _ 0 _ hwf (by omega) (by have := size_le_length _ o hwf; simp; omega) (follow_endobj o rest)
  unfold pIndirect
  simp only [h1, h2, h3, h4, Option.bind_some, pStream_plain len o rest hwf hh, hobj]
  rcases hexp with rfl | rfl <;> simp

example : pIndirect (fun _ => none) (some (7, 0)) 0 (writeIndirect 7 0 sampleObj ++ [120]) =
    some ((7, 0), .plain (norm sampleObj)) :=
  indirect_rt _ _ _ 7 0 sampleObj _ (by decide) (by decide) (Or.inr rfl) sample_wf (by decide)

/-- in the shape the file-level theorems use: an object without reals comes back unchanged -/
theorem indirect_rt_noReal (len : ObjId → Option Int) (base : Nat) (num gen : Nat)
    (o : Obj) (rest : Bytes) (hn : num ≤ U32_MAX) (hg : gen ≤ U16_MAX)
    (hwf : WFObj o) (hh : height o ≤ MAX_NESTING) (hnr : NoReal o) :
    pIndirect len none base (writeIndirect num gen o ++ rest) = some ((num, gen), .plain o) := by
  rw [indirect_rt len none base num gen o rest hn hg (Or.inl rfl) hwf hh, norm_noReal o hnr]

/-! ### streams -/

/-- the `Length` the stream parser uses: a direct integer, or an indirect one resolved by `len` -/
def lengthOf (len : ObjId → Option Int) (d : Dict) : Option Int :=
  match d.get LENGTH with
  | some (.ref n g) => len (n, g)
  | some (.int i) => some i
  | _ => none

/-- `stream` reads back a written stream whose `Length` (direct or indirect) equals the content length -/
theorem pStream_rt (len : ObjId → Option Int) (es : List (Bytes × Obj)) (c E : Bytes)
    (hwf : WFObj (.dict es)) (hh : height (.dict es) ≤ MAX_NESTING)
    (hlen : lengthOf len (normD es) = some (Int.ofNat c.length)) :
    pStream len (writeObj (.stream es c) ++ E) =
      .ok (.plain (.stream (Dict.set (normD es) LENGTH (.int c.length)) c)) E := by
  have hin : writeObj (.stream es c) ++ E = writeObj (.dict es) ++ (STREAM_KW ++ (c ++ (ENDSTREAM_KW ++ E))) := by
    simp [writeObj]
  have hsp : space (STREAM_KW ++ (c ++ (ENDSTREAM_KW ++ E))) = STREAM_KW ++ (c ++ (ENDSTREAM_KW ++ E)) :=
    space_head _ ⟨115, _, rfl, by decide, by decide⟩
  have htag : tag STREAM_WORD (STREAM_KW ++ (c ++ (ENDSTREAM_KW ++ E))) = some (10 :: (c ++ (ENDSTREAM_KW ++ E))) := by
    simp [STREAM_WORD, STREAM_KW, tag]
  have hs0 : space0 (10 :: (c ++ (ENDSTREAM_KW ++ E))) = 10 :: (c ++ (ENDSTREAM_KW ++ E)) := by
    simp [space0, spanP]
  have heol : ∀ X : Bytes, eol (10 :: X) = some ([10], X) := by intro X; simp [eol]
  have hend : tag ENDSTREAM_WORD (101 :: 110 :: 100 :: 115 :: 116 :: 114 :: 101 :: 97 :: 109 :: E) = some E := by
    simp [ENDSTREAM_WORD, tag]
  have htake : (c ++ (ENDSTREAM_KW ++ E)).take c.length = c := by simp
  have hdrop : (c ++ (ENDSTREAM_KW ++ E)).drop c.length = ENDSTREAM_KW ++ E := by simp
  have hlt : ¬ (c ++ (ENDSTREAM_KW ++ E)).length < c.length := by simp
  rw [hin]
  unfold pStream
  rw [pDictionary_rt es _ hwf hh]
  simp only [hsp, htag, hs0, heol]
  unfold lengthOf at hlen
  split at hlen
  · rename_i n g hget
    simp only [hget, hlen, Int.toNat_natCast, hlt, if_false, htake, hdrop]
    simp [ENDSTREAM_KW, heol, hend]
    rw [if_neg (by omega), if_neg (by omega)]
  · rename_i i hget
    injection hlen with hlen
    subst hlen
    simp only [hget, Int.toNat_natCast, hlt, if_false, htake, hdrop]
    simp [ENDSTREAM_KW, heol, hend]
    rw [if_neg (by omega), if_neg (by omega)]
  · cases hlen

/-- **Indirect objects, streams.** `_indirect_object` reads back a written stream object whose
`Length` is consistent; the dictionary comes back with `Length` set to the direct integer. -/
theorem indirect_stream_rt (len : ObjId → Option Int) (expected : Option ObjId) (base : Nat) (num gen : Nat)
    (es : List (Bytes × Obj)) (c rest : Bytes) (hn : num ≤ U32_MAX) (hg : gen ≤ U16_MAX)
    (hexp : expected = none ∨ expected = some (num, gen))
    (hwf : WFObj (.dict es)) (hh : height (.dict es) ≤ MAX_NESTING)
    (hlen : lengthOf len (normD es) = some (Int.ofNat c.length)) :
    pIndirect len expected base (writeIndirect num gen (.stream es c) ++ rest) =
      some ((num, gen), .plain (.stream (Dict.set (normD es) LENGTH (.int c.length)) c)) := by
  rw [writeIndirect_eq]
  obtain ⟨r1, r2, r3, h1, h2, h3, h4⟩ := indirect_header num gen hn hg
    (writeObj (.stream es c) ++ endObjTail (.stream es c) rest)
    ⟨60, _, rfl, by decide, by decide⟩ (if needSeparator (.stream es c) then [32] else [])
    (by simp [needSeparator])
  unfold pIndirect
  simp only [h1, h2, h3, h4, Option.bind_some, pStream_rt len es c _ hwf hh hlen]
  rcases hexp with rfl | rfl <;> simp

/-- a direct `Length` that is already right leaves the dictionary unchanged -/
theorem set_same (d : Dict) (k : Bytes) (v : Obj) (h : d.get k = some v) : d.set k v = d := by
  induction d with
  | nil => simp [Dict.get] at h
  | cons e r ih =>
    obtain ⟨k', v'⟩ := e
    by_cases hk : k' = k
    · subst hk
      simp only [Dict.get, if_true] at h
      injection h with h
      subst h
      simp [Dict.set]
    · simp only [Dict.get, hk, if_false] at h
      simp [Dict.set, hk, ih h]

example : pIndirect (fun _ => none) none 0 (writeIndirect 3 0 (.stream [(LENGTH, .int 2)] [1, 2]) ++ []) =
    some ((3, 0), .plain (.stream [(LENGTH, .int 2)] [1, 2])) :=
  indirect_stream_rt _ _ _ 3 0 _ _ _ (by decide) (by decide) (Or.inl rfl)
    (by simp [WFObj, WF, WFD]; decide) (by decide) (by rfl)

end Lopdf.ObjRt
