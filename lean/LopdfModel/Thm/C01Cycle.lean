import LopdfModel.Thm.C01Obj
/-
  C01 — repeated cycles and duplicate keys at object level.

  * `cycle_rt`: the normal form is a fixed point — `norm (norm o) = norm o`, `norm o` is again
    well-formed with the same nesting height and size, every following text admissible for `o`
    is admissible for `norm o`, and writing `norm o` and parsing it returns `norm o` itself:
    from the second save/load cycle on the object does not change any more.
  * duplicate keys: a `Dictionary` is an `IndexMap`; every dictionary built with
    `Dictionary::set` (`Dict.set`, from the empty one) and every dictionary the parser returns
    (`dictEntries`, which folds `Dictionary::set`) has pairwise distinct keys, so the writer is
    never handed duplicates and the hypothesis `Nodup` of `obj_rt` excludes no reachable object.
-/
namespace Lopdf.ObjRt
open Lopdf Gen

/-! ### `norm` is idempotent -/

theorem normReal_idem (t : Bytes) : norm (normReal t) = normReal t := by
  unfold normReal
  by_cases h1 : t.contains 46 = true
  · simp only [h1, if_true, norm]
    unfold normReal
    simp only [h1, if_true]
  · simp only [h1, Bool.false_eq_true, if_false]
    by_cases h2 : realOutside t = true
    · simp only [h2, if_true, norm]
      unfold normReal
      have : (t ++ [46, 48]).contains 46 = true := by simp
      simp only [this, if_true]
    · simp only [h2, Bool.false_eq_true, if_false, norm]

mutual
theorem norm_idem : ∀ (o : Obj), norm (norm o) = norm o
  | .real t => by simp only [norm]; exact normReal_idem t
  | .arr items => by simp only [norm, normL_idem items]
  | .dict es => by simp only [norm, normD_idem es]
  | .null | .bool _ | .int _ | .name _ | .str _ _ | .ref _ _ | .stream _ _ => by simp only [norm]
theorem normL_idem : ∀ (items : List Obj), normL (normL items) = normL items
  | [] => rfl
  | o :: r => by simp only [normL, norm_idem o, normL_idem r]
theorem normD_idem : ∀ (es : List (Bytes × Obj)), normD (normD es) = normD es
  | [] => rfl
  | (k, v) :: r => by simp only [normD, norm_idem v, normD_idem r]
end

/-! ### the normal form stays in the scope of `obj_rt` -/

theorem wf_normReal (L : Bytes → Prop) (t : Bytes) (h : RealOK t) : WF L (normReal t) := by
  rcases real_cases t h with ⟨hd, hn⟩ | ⟨neg, ds, _, _, _, hr, hn⟩
  · rw [hn]; simp only [WF]; exact Or.inl hd
  · rw [hn]
    simp only [WF]
    cases neg
    · simp only [Bool.false_eq_true, if_false] at hr ⊢
      constructor
      · have : (0 : Int) ≤ Int.ofNat (digitsVal ds) := Int.natCast_nonneg _
        simp [I64_MAX] at * <;> omega
      · simp [I64_MAX] at * <;> omega
    · simp only [if_true] at hr ⊢
      constructor
      · simp [I64_MAX] at * <;> omega
      · have : (0 : Int) ≤ Int.ofNat (digitsVal ds) := Int.natCast_nonneg _
        simp [I64_MAX] at * <;> omega

mutual
theorem wf_norm (L : Bytes → Prop) : ∀ (o : Obj), WF L o → WF L (norm o)
  | .real t, h => by simp only [WF] at h; simp only [norm]; exact wf_normReal L t h
  | .arr items, h => by simp only [WF] at h; simp only [norm, WF]; exact wfL_norm L items h
  | .dict es, h => by
    simp only [WF] at h
    simp only [norm, WF]
    exact ⟨by rw [normD_keys]; exact h.1, wfD_norm L es h.2⟩
  | .null, h | .bool _, h | .int _, h | .name _, h | .str _ _, h | .ref _ _, h | .stream _ _, h => by
    simpa only [norm] using h
theorem wfL_norm (L : Bytes → Prop) : ∀ (items : List Obj), WFL L items → WFL L (normL items)
  | [], _ => by simp [normL, WFL]
  | o :: r, h => by simp only [WFL] at h; simp only [normL, WFL]; exact ⟨wf_norm L o h.1, wfL_norm L r h.2⟩
theorem wfD_norm (L : Bytes → Prop) : ∀ (es : List (Bytes × Obj)), WFD L es → WFD L (normD es)
  | [], _ => by simp [normD, WFD]
  | (k, v) :: r, h => by simp only [WFD] at h; simp only [normD, WFD]; exact ⟨wf_norm L v h.1, wfD_norm L r h.2⟩
end

theorem normReal_shape (t : Bytes) : (∃ t', normReal t = .real t') ∨ (∃ i, normReal t = .int i) := by
  unfold normReal
  repeat' split
  · exact Or.inl ⟨_, rfl⟩
  · exact Or.inl ⟨_, rfl⟩
  · exact Or.inr ⟨_, rfl⟩

mutual
theorem height_norm : ∀ (o : Obj), height (norm o) = height o
  | .real t => by
    simp only [norm]
    rcases normReal_shape t with ⟨t', e⟩ | ⟨i, e⟩ <;> rw [e] <;> simp [height]
  | .arr items => by simp only [norm, height, heightL_norm items]
  | .dict es => by simp only [norm, height, heightD_norm es]
  | .null | .bool _ | .int _ | .name _ | .str _ _ | .ref _ _ | .stream _ _ => by simp only [norm]
theorem heightL_norm : ∀ (items : List Obj), heightL (normL items) = heightL items
  | [] => rfl
  | o :: r => by simp only [normL, heightL, height_norm o, heightL_norm r]
theorem heightD_norm : ∀ (es : List (Bytes × Obj)), heightD (normD es) = heightD es
  | [] => rfl
  | (k, v) :: r => by simp only [normD, heightD, height_norm v, heightD_norm r]
end

mutual
theorem size_norm : ∀ (o : Obj), size (norm o) = size o
  | .real t => by
    simp only [norm]
    rcases normReal_shape t with ⟨t', e⟩ | ⟨i, e⟩ <;> rw [e] <;> simp [size]
  | .arr items => by simp only [norm, size, sizeL_norm items]
  | .dict es => by simp only [norm, size, sizeD_norm es]
  | .null | .bool _ | .int _ | .name _ | .str _ _ | .ref _ _ | .stream _ _ => by simp only [norm]
theorem sizeL_norm : ∀ (items : List Obj), sizeL (normL items) = sizeL items
  | [] => rfl
  | o :: r => by simp only [normL, sizeL, size_norm o, sizeL_norm r]
theorem sizeD_norm : ∀ (es : List (Bytes × Obj)), sizeD (normD es) = sizeD es
  | [] => rfl
  | (k, v) :: r => by simp only [normD, sizeD, size_norm v, sizeD_norm r]
end

/-- a following text admissible for `o` is admissible for its normal form -/
theorem follow_norm (wr : Bool) (o : Obj) (rest : Bytes) (h : Follow wr o rest) : Follow wr (norm o) rest := by
  cases o with
  | real t =>
    simp only [Follow] at h
    simp only [norm]
    rcases normReal_shape t with ⟨t', e⟩ | ⟨i, e⟩
    · have hid := normReal_idem t
      rw [e] at hid ⊢
      simp only [norm] at hid
      simp only [Follow, hid, isIntObj]
      exact ⟨h.1, fun hc => by cases hc⟩
    · rw [e] at h ⊢
      simp only [Follow]
      exact ⟨⟨h.1, (h.2 rfl).1⟩, (h.2 rfl).2⟩
  | null | bool _ | int _ | name _ | str _ _ | ref _ _ | stream _ _ | arr _ | dict _ =>
    simp only [norm, Follow] at h ⊢ <;> exact h

/-- **`cycle_rt`: the second cycle is the identity.** Under the hypotheses of `obj_rt` for `o`,
writing the object that came back (`norm o`) and parsing it returns `norm o` again. -/
theorem cycle_rt (o : Obj) (fuel depth : Nat) (rest : Bytes) (hwf : WFObj o)
    (hdepth : depth + height o ≤ MAX_NESTING) (hfuel : size o ≤ fuel) (hstop : Follow true o rest) :
    directObjects fuel depth (writeObj o ++ rest) = .ok (norm o) rest ∧
    directObjects fuel depth (writeObj (norm o) ++ rest) = .ok (norm o) rest := by
  refine ⟨obj_rt o fuel depth rest hwf hdepth hfuel hstop, ?_⟩
  have := obj_rt (norm o) fuel depth rest (wf_norm _ o hwf) (by rw [height_norm]; exact hdepth)
    (by rw [size_norm]; exact hfuel) (follow_norm true o rest hstop)
  rw [norm_idem] at this
  exact this

/-- the object after `k` write/parse cycles -/
def cycles : Nat → Obj → Obj
  | 0, o => o
  | k + 1, o => cycles k (norm o)

theorem cycles_succ (k : Nat) (o : Obj) : cycles (k + 1) o = norm o := by
  have e : ∀ j x, norm x = x → cycles j x = x := by
    intro j
    induction j with
    | zero => intro x _; rfl
    | succ j ihj => intro x hx; simp only [cycles, hx]; exact ihj x hx
  exact e k (norm o) (norm_idem o)

/-- after any number `k + 1` of cycles the object is `norm o`, and one more cycle through
`parser::direct_object` returns it unchanged -/
theorem parseDirect_cycles (o : Obj) (rest : Bytes) (hwf : WFObj o) (hdepth : height o ≤ MAX_NESTING)
    (hstop : Follow true o rest) (k : Nat) :
    parseDirect (writeObj (cycles (k + 1) o) ++ rest) = some (cycles (k + 1) o, space rest) := by
  rw [cycles_succ k]
  have := parseDirect_rt (norm o) rest (wf_norm _ o hwf) (by rw [height_norm]; exact hdepth)
    (follow_norm true o rest hstop)
  rw [norm_idem] at this
  exact this

example : parseDirect (writeObj (cycles 3 sampleObj) ++ [10, 101]) = some (cycles 3 sampleObj, space [10, 101]) :=
  parseDirect_cycles sampleObj _ sample_wf (by decide) (by simp [sampleObj, Follow]) 2

/-! ### duplicate keys cannot reach the writer -/

theorem keys_set (d : Dict) (k : Bytes) (v : Obj) :
    (Dict.set d k v).map (·.1) = if k ∈ d.map (·.1) then d.map (·.1) else d.map (·.1) ++ [k] := by
  induction d with
  | nil => simp [Dict.set]
  | cons e r ih =>
    obtain ⟨k', v'⟩ := e
    by_cases hk : k' = k
    · simp [Dict.set, hk]
    · have hk' : ¬ k = k' := fun h => hk h.symm
      simp only [Dict.set, hk, if_false, List.map_cons, ih, List.mem_cons, hk', false_or]
      split <;> simp

/-- `Dictionary::set` (`IndexMap::insert`) keeps keys pairwise distinct -/
theorem set_nodup (d : Dict) (k : Bytes) (v : Obj) (h : (d.map (·.1)).Nodup) :
    ((Dict.set d k v).map (·.1)).Nodup := by
  rw [keys_set]
  split
  · exact h
  · rename_i hk
    rw [List.nodup_append]
    refine ⟨h, by simp, ?_⟩
    intro a ha b hb
    simp only [List.mem_singleton] at hb
    subst hb
    intro e; subst e; exact hk ha

/-- every dictionary built by a sequence of `set` calls from the empty one has distinct keys -/
theorem setAll_keys_nodup (es : List (Bytes × Obj)) : ∀ (acc : Dict), (acc.map (·.1)).Nodup →
    ((setAll acc es).map (·.1)).Nodup := by
  induction es with
  | nil => intro acc h; exact h
  | cons e r ih => intro acc h; obtain ⟨k, v⟩ := e; exact ih _ (set_nodup acc k v h)

/-- every dictionary `inner_dictionary` returns has pairwise distinct keys (a repeated key in
the input overwrites in place: later value, position of the first) -/
theorem dictEntries_nodup (fuel depth : Nat) : ∀ (n : Nat) (inp : Bytes) (acc d : Dict) (r : Bytes),
    (acc.map (·.1)).Nodup → dictEntries fuel depth n inp acc = some (d, r) → (d.map (·.1)).Nodup := by
  intro n
  induction n with
  | zero =>
    intro inp acc d r hacc h
    simp only [dictEntries] at h
    injection h with h; injection h with h1 _; subst h1; exact hacc
  | succ n ih =>
    intro inp acc d r hacc h
    rw [dictEntries] at h
    split at h
    · split at h
      · exact ih _ _ _ _ (set_nodup _ _ _ hacc) h
      · injection h with h; injection h with h1 _; subst h1; exact hacc
      · cases h
    · injection h with h; injection h with h1 _; subst h1; exact hacc

/-- a duplicate key in the INPUT is accepted by the parser and collapses (IndexMap semantics):
`<</A 1/A 2>>` reads as the one-entry dictionary `A ↦ 2`; what the writer emits for that is
`<</A 2>>` — so a parsed dictionary never makes the writer emit a duplicate. -/
example : setAll [] [([65], Obj.int 1), ([65], Obj.int 2)] = [([65], Obj.int 2)] := by
  simp [setAll, Dict.set]

end Lopdf.ObjRt
