import LopdfModel.Lemmas.Text
import LopdfModel.Spec.Charts
import LopdfModel.Spec.ChartsFull
/-
  C16 — property theorems (text strings and one-byte encodings round-trip text).

  tables        tables_no_surrogate, decode_never_fails, font_encoding_predefined, font_encoding_in_tables
  re-encoding   reencode_units_stable, reencode_stable (ANY table), encode_decode_repertoire
  charts        winansi_chart_agrees, pdfdoc_chart_agrees, macroman_chart_agrees (+ cp1252 / PDFDoc specials)
  UTF-16        utf16_encode_decode, utf16_decode_encode, encode_spec, decode_spec   (Lemmas/Utf16.lean)
  text strings  text_string_form, text_string_rt (FULL, every list of scalars), utf8_bom_decodes (exactly s),
                odd_length_utf16, lone_bom
  extraction    extract_shown_text, extract_never_panics
-/
namespace Lopdf
open Gen Spec

/-! ## 1. the tables -/

def cellOk (c : Option Nat) : Bool :=
  match c with
  | none => true
  | some u => (u < 0xD800 || 0xE000 ≤ u) && u < 0x10000

def tableOk (t : Table) : Bool := t.length == 256 && t.all cellOk

/-- all 7 × 256 cells regenerated from `mappings.rs`/`glyphnames.rs`, by complete enumeration -/
theorem tables_ok : ALL_TABLES.all tableOk = true := by decide +kernel

/-- **No cell of any of the seven tables is a surrogate** (and every table has 256 cells of 16 bits). -/
theorem tables_no_surrogate (t : Table) (ht : t ∈ ALL_TABLES) :
    t.length = 256 ∧ ∀ u, some u ∈ t → (u < 0xD800 ∨ 0xE000 ≤ u) ∧ u < 0x10000 := by
  have h := List.all_eq_true.mp tables_ok t ht
  simp only [tableOk, Bool.and_eq_true, beq_iff_eq, List.all_eq_true] at h
  refine ⟨h.1, fun u hu => ?_⟩
  have := h.2 (some u) hu
  simp only [cellOk, Bool.and_eq_true, Bool.or_eq_true, decide_eq_true_eq] at this
  exact this

/-- **Decoding never fails**: for each predefined table and every byte string,
`String::from_utf16(..).expect(..)` cannot fire; the result is the cell-wise image. -/
theorem decode_never_fails (t : Table) (ht : t ∈ ALL_TABLES) (bs : Bytes) :
    bytesToString t bs = .ok (bytesToUnits t bs) := by
  have h := (tables_no_surrogate t ht).2
  unfold bytesToString
  rw [decode_no_surrogate _ (fun u hu => (h u (mem_bytesToUnits t bs u hu)).1)]

/-- … and what it returns is a string of Unicode scalar values -/
theorem decode_scalars (t : Table) (ht : t ∈ ALL_TABLES) (bs : Bytes) :
    ∀ c ∈ bytesToUnits t bs, Scalar c := by
  intro c hc
  have := (tables_no_surrogate t ht).2 c (mem_bytesToUnits t bs c hc)
  unfold Scalar; omega

/-! ## 2. re-encoding decoded text -/

/-- generic over ANY table of at most 256 cells: units that came out of the table go back to
bytes that yield the same units (first-position lookup) -/
theorem reencode_units_stable (t : Table) (hl : t.length ≤ 256) (bs : Bytes) :
    bytesToUnits t (unitsToBytes t (bytesToUnits t bs)) = bytesToUnits t bs :=
  units_roundtrip t hl _ (mem_bytesToUnits t bs)

/-- **Re-encoding decoded text reproduces bytes that decode to the same text** — for ANY table
(≤ 256 cells of 16 bits), whenever decoding succeeded at all. -/
theorem reencode_stable (t : Table) (hl : t.length ≤ 256) (h16 : ∀ u, some u ∈ t → u < 0x10000)
    (bs : Bytes) (s : UStr) (h : bytesToString t bs = .ok s) :
    bytesToString t (stringToBytes t s) = .ok s := by
  unfold bytesToString at h
  cases hd : stdFromUtf16 (bytesToUnits t bs) with
  | none => simp [hd] at h
  | some s' =>
    simp only [hd, Outcome.ok.injEq] at h
    subst h
    have e := utf16_decode_encode _ _ (fun u hu => h16 u (mem_bytesToUnits t bs u hu)) hd
    unfold bytesToString stringToBytes
    rw [e, reencode_units_stable t hl bs, hd]

/-- the same for the predefined tables, where decoding always succeeds -/
theorem reencode_stable_predefined (t : Table) (ht : t ∈ ALL_TABLES) (bs : Bytes) :
    ∃ s, bytesToString t bs = .ok s ∧ bytesToString t (stringToBytes t s) = .ok s := by
  have h := tables_no_surrogate t ht
  exact ⟨_, decode_never_fails t ht bs,
    reencode_stable t (by omega) (fun u hu => (h.2 u hu).2) bs _ (decode_never_fails t ht bs)⟩

/-- text whose UTF-16 units all occur in the table survives encode + decode (ANY table) -/
theorem encode_decode_repertoire (t : Table) (hl : t.length ≤ 256) (s : UStr)
    (hs : ∀ c ∈ s, Scalar c) (hr : ∀ u ∈ stdEncodeUtf16 s, some u ∈ t) :
    bytesToString t (stringToBytes t s) = .ok s := by
  unfold bytesToString stringToBytes
  rw [units_roundtrip t hl _ hr, utf16_encode_decode s hs]

example : bytesToString WIN_ANSI_ENCODING (stringToBytes WIN_ANSI_ENCODING [0x20AC, 0x41, 0xE9]) = .ok [0x20AC, 0x41, 0xE9] := by
  decide +kernel

/-! ## 3. agreement with the published charts -/

def agrees (t : Table) (chart : Nat → Option (Option Nat)) : Bool :=
  (List.range 256).all fun b => match chart b with | none => true | some e => t[b]? == some e

theorem chart_of_agrees (t : Table) (chart : Nat → Option (Option Nat)) (h : agrees t chart = true)
    (b : UInt8) (e : Option Nat) (hc : chart b.toNat = some e) : t.cell b = e := by
  have hb : b.toNat ∈ List.range 256 := List.mem_range.mpr (UInt8.toNat_lt b)
  have := List.all_eq_true.mp h b.toNat hb
  simp only [hc, beq_iff_eq] at this
  simp [Table.cell, this]

/-- WinAnsi: printable ASCII identity; 0xA1–0xFF Latin-1 except 0xAD ↦ U+002D; 0xA0 ↦ U+0020 -/
theorem winansi_chart_agrees (b : UInt8) (e : Option Nat) (h : winAnsiChart b.toNat = some e) :
    Table.cell WIN_ANSI_ENCODING b = e :=
  chart_of_agrees _ _ (by decide +kernel) b e h

/-- PDFDoc: printable ASCII identity; 0xA1–0xFF Latin-1 with 0xAD undefined; 0xA0 ↦ U+20AC; 0x00–0x17 undefined -/
theorem pdfdoc_chart_agrees (b : UInt8) (e : Option Nat) (h : pdfDocChart b.toNat = some e) :
    Table.cell PDF_DOC_ENCODING b = e :=
  chart_of_agrees _ _ (by decide +kernel) b e h

/-- MacRoman: printable ASCII identity; 0x80–0x9F the accented-letter block -/
theorem macroman_chart_agrees (b : UInt8) (e : Option Nat) (h : macRomanChart b.toNat = some e) :
    Table.cell MAC_ROMAN_ENCODING b = e :=
  chart_of_agrees _ _ (by decide +kernel) b e h

/-- WinAnsi 0x80–0x9F is code page 1252; PDFDoc 0x18–0x1F / 0x80–0x9E are the Annex D.2 specials -/
theorem special_blocks_agree :
    cp1252Block.all (fun (b, u) => WIN_ANSI_ENCODING[b]? == some (some u)) = true ∧
    pdfDocSpecials.all (fun (b, u) => PDF_DOC_ENCODING[b]? == some (some u)) = true := by
  constructor <;> decide +kernel

example : winAnsiChart (0xE9 : UInt8).toNat = some (some 0xE9) := by decide
example : pdfDocChart (0xAD : UInt8).toNat = some none := by decide
example : macRomanChart (0x80 : UInt8).toNat = some (some 0xC4) := by decide

theorem font_tables_known_aux :
    (FONT_ENCODINGS.all (fun p => ALL_TABLES.contains p.2) = true) ∧
    (∀ p ∈ FONT_ENCODINGS, p.2 ∈ [STANDARD_ENCODING, MAC_ROMAN_ENCODING, MAC_EXPERT_ENCODING, WIN_ANSI_ENCODING, PDF_DOC_ENCODING]) := by
  refine ⟨by decide +kernel, ?_⟩
  have h : FONT_ENCODINGS.all (fun p => [STANDARD_ENCODING, MAC_ROMAN_ENCODING, MAC_EXPERT_ENCODING, WIN_ANSI_ENCODING,
      PDF_DOC_ENCODING].contains p.2) = true := by decide +kernel
  intro p hp
  have := List.all_eq_true.mp h p hp
  simpa using this

/-- **Every table equals its published chart on all 256 codes.** The charts (`Spec/ChartsFull.lean`)
come from sources other than lopdf — python3's `cp1252` / `mac_roman` / `latin_1` codecs with the
deviations ISO 32000-1 Annex D documents, Annex D.2 written out for PDFDocEncoding — except
StandardEncoding, MacExpertEncoding, Expert and Symbol, for which the sandbox has no independent
source and the table of the pinned commit is frozen as the chart. Any later change of an entry of
`mappings.rs` / `glyphnames.rs` breaks this theorem (and the harness names the differing byte). -/
theorem tables_match_charts :
    WIN_ANSI_ENCODING = CHART_WIN_ANSI_ENCODING ∧ MAC_ROMAN_ENCODING = CHART_MAC_ROMAN_ENCODING ∧
    PDF_DOC_ENCODING = CHART_PDF_DOC_ENCODING ∧ STANDARD_ENCODING = CHART_STANDARD_ENCODING ∧
    MAC_EXPERT_ENCODING = CHART_MAC_EXPERT_ENCODING ∧ EXPERT_ENCODING = CHART_EXPERT_ENCODING ∧
    SYMBOL_ENCODING = CHART_SYMBOL_ENCODING := by
  refine ⟨?_, ?_, ?_, ?_, ?_, ?_, ?_⟩ <;> decide +kernel

/-- decoding a byte with a predefined encoding yields the character the published chart assigns
(nothing where the chart has none) — for all five encodings reachable through `get_font_encoding` -/
theorem decode_byte_is_chart (name : Bytes) (t : Table) (hm : (name, t) ∈ FONT_ENCODINGS) (b : UInt8) :
    ∃ chart ∈ [CHART_STANDARD_ENCODING, CHART_MAC_ROMAN_ENCODING, CHART_MAC_EXPERT_ENCODING,
        CHART_WIN_ANSI_ENCODING, CHART_PDF_DOC_ENCODING],
      t = chart ∧ bytesToString t [b] = .ok (match chart[b.toNat]? with | some (some u) => [u] | _ => []) := by
  have hk := font_tables_known_aux
  have ht : t ∈ ALL_TABLES := by
    have := List.all_eq_true.mp hk.1 (name, t) hm
    simpa using this
  have hdec := decode_never_fails t ht [b]
  have hin : t ∈ [STANDARD_ENCODING, MAC_ROMAN_ENCODING, MAC_EXPERT_ENCODING, WIN_ANSI_ENCODING, PDF_DOC_ENCODING] :=
    hk.2 (name, t) hm
  obtain ⟨c1, c2, c3, c4, c5, _, _⟩ := tables_match_charts
  refine ⟨t, ?_, rfl, ?_⟩
  · simp only [List.mem_cons, List.not_mem_nil, or_false] at hin ⊢
    rcases hin with h | h | h | h | h
    · left; rw [h, c4]
    · right; left; rw [h, c2]
    · right; right; left; rw [h, c5]
    · right; right; right; left; rw [h, c1]
    · right; right; right; right; rw [h, c3]
  · rw [hdec]
    simp only [bytesToUnits, List.filterMap_cons, List.filterMap_nil, Table.cell]
    cases t[b.toNat]? with
    | none => rfl
    | some c => cases c <;> rfl

/-! ## 4. text strings -/

theorem beBytes_bom : beBytes WRITE_BOM_UTF16 = TEXT_BOM_UTF16 := by decide

theorem toUInt8_toNat_small (c : Nat) (h : c < 256) : c.toUInt8.toNat = c := by
  simp [Nat.toUInt8, UInt8.toNat_ofNat']; omega

theorem head_ne_of_ascii (c : Nat) (h : c < 128) (k : UInt8) (hk : 128 ≤ k.toNat) :
    (k == c.toUInt8) = false := by
  have : k ≠ c.toUInt8 := by
    intro e
    have := congrArg UInt8.toNat e
    rw [toUInt8_toNat_small c (by omega)] at this
    omega
  simpa using this

theorem pdfdoc_printable (cs : UStr) (h : ∀ c ∈ cs, 0x20 ≤ c ∧ c ≤ 0x7E) :
    bytesToUnits PDF_DOC_ENCODING (cs.map Nat.toUInt8) = cs := by
  induction cs with
  | nil => rfl
  | cons c cs ih =>
    have hc := h c (by simp)
    have hn : c.toUInt8.toNat = c := toUInt8_toNat_small c (by omega)
    have hcell : Table.cell PDF_DOC_ENCODING c.toUInt8 = some c :=
      pdfdoc_chart_agrees c.toUInt8 (some c) (by rw [hn]; simp [pdfDocChart, hc.1, hc.2])
    have ih' := ih (fun x hx => h x (by simp [hx]))
    simp only [bytesToUnits] at ih' ⊢
    simp [hcell, ih']

/-- the byte test of `text_string`, read on scalar values: literal form iff every character is 0x20–0x7E -/
theorem enc8_all (c : Nat) :
    (enc8 c).all (fun b => TEXT_LITERAL_LO ≤ b && b < TEXT_LITERAL_HI) = (decide (0x20 ≤ c) && decide (c < 0x7F)) := by
  unfold enc8
  by_cases h1 : c < 0x80
  · rw [Bool.eq_iff_iff]
    simp [h1, TEXT_LITERAL_LO, TEXT_LITERAL_HI]
    exact ⟨fun h => ⟨of_decide_eq_true h.1, of_decide_eq_true h.2⟩, fun h => ⟨decide_eq_true h.1, decide_eq_true h.2⟩⟩
  · have hc : ¬ c < 0x7F := by omega
    by_cases h2 : c < 0x800
    · have : ¬ (0xC0 + c / 64 < 127) := by omega
      simp [h1, h2, hc, this, TEXT_LITERAL_LO, TEXT_LITERAL_HI]
    · by_cases h3 : c < 0x10000
      · have : ¬ (0xE0 + c / 4096 < 127) := by omega
        simp [h1, h2, h3, hc, this, TEXT_LITERAL_LO, TEXT_LITERAL_HI]
      · have : ¬ (0xF0 + c / 262144 < 127) := by omega
        simp [h1, h2, h3, hc, this, TEXT_LITERAL_LO, TEXT_LITERAL_HI]

theorem isLiteralText_iff (s : UStr) : isLiteralText s = true ↔ ∀ c ∈ s, 0x20 ≤ c ∧ c < 0x7F := by
  induction s with
  | nil => simp [isLiteralText, enc8s]
  | cons c cs ih =>
    simp only [isLiteralText, enc8s, List.all_append, Bool.and_eq_true, enc8_all, decide_eq_true_eq] at ih ⊢
    simp only [List.mem_cons, forall_eq_or_imp]
    exact ⟨fun h => ⟨h.1, ih.mp h.2⟩, fun h => ⟨h.1, ih.mpr h.2⟩⟩

theorem enc8s_printable : ∀ (s : UStr), (∀ c ∈ s, c < 0x80) → enc8s s = s
  | [], _ => rfl
  | c :: cs, h => by
    have hc := h c (by simp)
    simp [enc8s, enc8, hc, enc8s_printable cs (fun x hx => h x (by simp [hx]))]

/-- **The form of a text string**: printable ASCII stays a PDFDocEncoding literal of the same bytes,
everything else becomes FE FF followed by UTF-16BE, as a hexadecimal string. -/
theorem text_string_form (s : UStr) :
    ((∀ c ∈ s, 0x20 ≤ c ∧ c < 0x7F) → textString s = .str (s.map Nat.toUInt8) .lit) ∧
    (¬ (∀ c ∈ s, 0x20 ≤ c ∧ c < 0x7F) → textString s = .str (TEXT_BOM_UTF16 ++ unitsBe (stdEncodeUtf16 s)) .hex) := by
  constructor
  · intro h
    have hl := (isLiteralText_iff s).mpr h
    simp only [textString, hl, if_true, stdUtf8, enc8s_printable s (fun c hc => by have := h c hc; omega)]
  · intro h
    have hl : isLiteralText s = false := by
      cases hh : isLiteralText s with
      | false => rfl
      | true => exact absurd ((isLiteralText_iff s).mp hh) h
    simp [textString, hl, encodeUtf16Be, beBytes_bom]

/-- **Text-string round trip, full statement**: encoding any Unicode string as a PDF text string
and decoding it returns the same string — for EVERY list of Unicode scalar values
(C0 controls, DEL, lone U+FEFF, astral characters included). -/
theorem text_string_rt (s : UStr) (hs : ∀ c ∈ s, Scalar c) :
    decodeTextString (textString s) = .ok s := by
  by_cases ha : ∀ c ∈ s, 0x20 ≤ c ∧ c < 0x7F
  · -- literal PDFDocEncoding form
    rw [(text_string_form s).1 ha]
    have hp : ∀ c ∈ s, 0x20 ≤ c ∧ c ≤ 0x7E := fun c hc => by have := ha c hc; omega
    have h16 : TEXT_BOM_UTF16.isPrefixOf (s.map Nat.toUInt8) = false := by
      cases s with
      | nil => rfl
      | cons c cs =>
        have := hp c (by simp)
        simp [TEXT_BOM_UTF16, List.isPrefixOf, head_ne_of_ascii c (by omega) 254 (by decide)]
    have h8 : TEXT_BOM_UTF8.isPrefixOf (s.map Nat.toUInt8) = false := by
      cases s with
      | nil => rfl
      | cons c cs =>
        have := hp c (by simp)
        simp [TEXT_BOM_UTF8, List.isPrefixOf, head_ne_of_ascii c (by omega) 239 (by decide)]
    simp only [decodeTextString, h16, h8, Bool.false_eq_true, if_false]
    unfold bytesToString
    show (match stdFromUtf16 (bytesToUnits PDF_DOC_ENCODING (s.map Nat.toUInt8)) with
      | some s => Outcome.ok s | none => Outcome.panic PANIC_FROM_UTF16) = _
    rw [pdfdoc_printable s hp, decode_no_surrogate s (fun u hu => by have := hp u hu; omega)]
  · -- UTF-16BE form
    rw [(text_string_form s).2 ha]
    have hpre : TEXT_BOM_UTF16.isPrefixOf (TEXT_BOM_UTF16 ++ unitsBe (stdEncodeUtf16 s)) = true := by
      simp [TEXT_BOM_UTF16, List.isPrefixOf]
    have hdrop : (TEXT_BOM_UTF16 ++ unitsBe (stdEncodeUtf16 s)).drop TEXT_UTF16_SKIP
        = unitsBe (stdEncodeUtf16 s) := by simp [TEXT_BOM_UTF16, TEXT_UTF16_SKIP]
    simp only [decodeTextString, hpre, if_true, hdrop]
    rw [chunkUnits_unitsBe _ (encode_units_lt s hs), utf16_encode_decode s hs]

/-- the former counter-witness of F-C16-a now round-trips -/
example : decodeTextString (textString [97, 10, 98, 9, 99]) = .ok [97, 10, 98, 9, 99] := by decide +kernel
example : ∀ c ∈ [0x442, 0x435, 0x1F600, 10, 0, 0x7F, 0xFEFF], Scalar c := by decide

/-- a lone mark is the empty string -/
theorem lone_bom (f : StrFmt) : decodeTextString (.str TEXT_BOM_UTF16 f) = .ok [] := by
  cases f <;> decide +kernel

/-- odd-length UTF-16BE: the trailing byte is read as the high byte of one more unit -/
theorem odd_length_utf16 (us : List Nat) (hu : ∀ u ∈ us, u < 0x10000) (b : UInt8) (f : StrFmt) :
    decodeTextString (.str (TEXT_BOM_UTF16 ++ (unitsBe us ++ [b])) f) =
      match stdFromUtf16 (us ++ [b.toNat * 256]) with
      | some r => .ok r
      | none => .err "TextStringDecode" := by
  have hpre : TEXT_BOM_UTF16.isPrefixOf (TEXT_BOM_UTF16 ++ (unitsBe us ++ [b])) = true := by
    simp [TEXT_BOM_UTF16, List.isPrefixOf]
  have hdrop : (TEXT_BOM_UTF16 ++ (unitsBe us ++ [b])).drop TEXT_UTF16_SKIP = unitsBe us ++ [b] := by
    simp [TEXT_BOM_UTF16, TEXT_UTF16_SKIP]
  simp only [decodeTextString, hpre, if_true, hdrop]
  rw [chunkUnits_unitsBe_odd us b hu]
  cases stdFromUtf16 (us ++ [b.toNat * 256]) <;> rfl

/-- **UTF-8 with a mark decodes** to exactly its text, for every Unicode string -/
theorem utf8_bom_decodes (s : UStr) (hs : ∀ c ∈ s, Scalar c) (f : StrFmt) :
    decodeTextString (.str (encodeUtf8 s) f) = .ok s := by
  have h16 : TEXT_BOM_UTF16.isPrefixOf (encodeUtf8 s) = false := by
    simp [encodeUtf8, WRITE_BOM_UTF8, TEXT_BOM_UTF16, List.isPrefixOf]
  have h8 : TEXT_BOM_UTF8.isPrefixOf (encodeUtf8 s) = true := by
    simp [encodeUtf8, WRITE_BOM_UTF8, TEXT_BOM_UTF8, List.isPrefixOf]
  have hdrop : (encodeUtf8 s).drop TEXT_UTF8_SKIP = stdUtf8 s := by
    simp [encodeUtf8, WRITE_BOM_UTF8, TEXT_UTF8_SKIP]
  have hdec : stdFromUtf8 (stdUtf8 s) = some s := by
    unfold stdFromUtf8 stdUtf8
    rw [map_toUInt8_toNat _ (enc8s_lt s hs)]
    exact utf8_encode_decode s hs
  simp only [decodeTextString, h16, h8, Bool.false_eq_true, if_false, if_true, hdrop, hdec]

/-- the former witness of F-C16-b: the mark is no longer part of the text -/
example : decodeTextString (.str (encodeUtf8 [97, 98, 99]) .lit) = .ok [97, 98, 99] := by decide +kernel

/-! ## 5. fonts -/

theorem lookupName_mem : ∀ (L : List (Bytes × Table)) (n : Bytes) (t : Table),
    lookupName n L = some t → (n, t) ∈ L
  | [], _, _, h => by simp [lookupName] at h
  | (k, t') :: rest, n, t, h => by
    simp only [lookupName] at h
    by_cases hk : k = n
    · simp only [hk, if_true, Option.some.injEq] at h
      simp [hk, h]
    · simp only [hk, if_false] at h
      exact List.mem_cons_of_mem _ (lookupName_mem rest n t h)

theorem font_names_distinct :
    FONT_ENCODINGS.all (fun p => lookupName p.1 FONT_ENCODINGS == some p.2) = true := by decide +kernel

theorem font_tables_known :
    (FONT_ENCODINGS.all (fun p => ALL_TABLES.contains p.2) && ALL_TABLES.contains FONT_FALLBACK_ENCODING) = true := by
  decide +kernel

/-- which table each predefined `/Encoding` name selects (arms regenerated from `get_font_encoding`) -/
theorem font_encoding_predefined (font : Dict) (n : Bytes) (t : Table)
    (hT : (font.get TYPE).bind Obj.asName = some FONT)
    (hE : (font.get ENCODING).bind Obj.asName = some n)
    (hm : (n, t) ∈ FONT_ENCODINGS) :
    getFontEncoding font = some (.oneByte t) := by
  have := List.all_eq_true.mp font_names_distinct (n, t) hm
  simp only [beq_iff_eq] at this
  simp [getFontEncoding, hT, hE, this]

/-- a one-byte encoding returned by `get_font_encoding` is always one of the seven tables -/
theorem font_encoding_in_tables (font : Dict) (t : Table)
    (h : getFontEncoding font = some (.oneByte t)) : t ∈ ALL_TABLES := by
  have hk := font_tables_known
  simp only [Bool.and_eq_true, List.all_eq_true, List.contains_iff_mem] at hk
  unfold getFontEncoding at h
  split at h
  · simp at h
  · split at h
    · split at h
      · rename_i t' hl
        simp only [Option.some.injEq, Enc.oneByte.injEq] at h
        subst h
        exact hk.1 (_, t') (lookupName_mem _ _ _ hl)
      · split at h
        · split at h <;> simp at h
        · simp at h
    · split at h
      · simp at h
      · simp only [Option.some.injEq, Enc.oneByte.injEq] at h
        subst h
        exact hk.2

example : getFontEncoding [(TYPE, .name FONT), (ENCODING, .name [87, 105, 110, 65, 110, 115, 105, 69, 110, 99, 111, 100, 105, 110, 103])]
    = some (.oneByte WIN_ANSI_ENCODING) := by decide +kernel

/-! ## 6. extraction -/

/-- `SafeEnc e`: if `e` is a one-byte encoding, its table is one of the seven -/
def SafeEnc (e : Enc) : Prop := ∀ t, e = .oneByte t → t ∈ ALL_TABLES

theorem decodeText_no_panic (e : Enc) (he : SafeEnc e) (bs : Bytes) (site : String) :
    decodeText e bs ≠ .panic site := by
  cases e with
  | oneByte t =>
    simp only [decodeText]
    rw [decode_never_fails t (he t rfl) bs]
    intro h; cases h
  | simple n =>
    simp only [decodeText]
    split <;> (intro h; cases h)
  | cmap =>
    simp only [decodeText]
    intro h; cases h

mutual
theorem collectObj_no_panic (e : Enc) (he : SafeEnc e) (site : String) :
    ∀ (o : Obj) (text : UStr), collectObj e text o ≠ .panic site
  | .str bs f, text => by
    simp only [collectObj]
    have := decodeText_no_panic e he bs
    split
    · intro h; cases h
    · intro h; cases h
    · rename_i x hx
      intro h
      simp only [Outcome.panic.injEq] at h
      subst h
      exact this _ hx
  | .arr items, text => by
    simp only [collectObj]
    have := collectList_no_panic e he site items text
    split
    · intro h; cases h
    · intro h; cases h
    · rename_i x hx
      intro h
      simp only [Outcome.panic.injEq] at h
      subst h
      exact this hx
  | .int i, text => by simp only [collectObj]; intro h; cases h
  | .null, text => by simp only [collectObj]; intro h; cases h
  | .bool _, text => by simp only [collectObj]; intro h; cases h
  | .real _, text => by simp only [collectObj]; intro h; cases h
  | .name _, text => by simp only [collectObj]; intro h; cases h
  | .dict _, text => by simp only [collectObj]; intro h; cases h
  | .stream _ _, text => by simp only [collectObj]; intro h; cases h
  | .ref _ _, text => by simp only [collectObj]; intro h; cases h
theorem collectList_no_panic (e : Enc) (he : SafeEnc e) (site : String) :
    ∀ (os : List Obj) (text : UStr), collectList e text os ≠ .panic site
  | [], text => by simp only [collectList]; intro h; cases h
  | o :: os, text => by
    simp only [collectList]
    have h1 := collectObj_no_panic e he site o text
    split
    · rename_i t ht
      exact collectList_no_panic e he site os t
    · intro h; cases h
    · rename_i x hx
      intro h
      simp only [Outcome.panic.injEq] at h
      subst h
      exact h1 hx
end

theorem lookupEnc_mem : ∀ (encs : List (Bytes × Enc)) (n : Bytes) (e : Enc),
    lookupEnc n encs = some e → (n, e) ∈ encs
  | [], _, _, h => by simp [lookupEnc] at h
  | (k, e') :: rest, n, e, h => by
    simp only [lookupEnc] at h
    by_cases hk : k = n
    · simp only [hk, if_true, Option.some.injEq] at h
      simp [hk, h]
    · simp only [hk, if_false] at h
      exact List.mem_cons_of_mem _ (lookupEnc_mem rest n e h)

theorem fontEncodings_safe : ∀ (fonts : List (Bytes × Dict)) (encs : List (Bytes × Enc)),
    fontEncodings fonts = some encs → ∀ p ∈ encs, SafeEnc p.2
  | [], encs, h => by
    simp only [fontEncodings, Option.some.injEq] at h
    subst h; simp
  | (n, f) :: rest, encs, h => by
    simp only [fontEncodings] at h
    split at h
    · rename_i e es he hes
      simp only [Option.some.injEq] at h
      subst h
      intro p hp
      simp only [List.mem_cons] at hp
      rcases hp with hp | hp
      · subst hp
        intro t ht
        simp only at ht
        subst ht
        exact font_encoding_in_tables f t he
      · exact fontEncodings_safe rest es hes p hp
    · simp at h

theorem extractLoop_no_panic (encs : List (Bytes × Enc)) (hs : ∀ p ∈ encs, SafeEnc p.2) (site : String) :
    ∀ (ops : List (Bytes × List Obj)) (st : XState), (∀ e, st.cur = some e → SafeEnc e) →
      extractLoop encs ops st ≠ .panic site
  | [], st, _ => by simp only [extractLoop]; intro h; cases h
  | (op, operands) :: rest, st, hc => by
    simp only [extractLoop]
    split
    · split
      · intro h; cases h
      · split
        · intro h; cases h
        · rename_i n hn
          apply extractLoop_no_panic encs hs site rest
          intro e he
          simp only at he
          exact hs (n, e) (lookupEnc_mem encs n e he)
    · split
      · split
        · exact extractLoop_no_panic encs hs site rest st hc
        · rename_i e he
          have h1 := collectList_no_panic e (hc e he) site operands st.text
          split
          · apply extractLoop_no_panic encs hs site rest
            intro e' he'
            simp only at he'
            exact hc e' he'
          · intro h; cases h
          · rename_i x hx
            intro h
            simp only [Outcome.panic.injEq] at h
            subst h
            exact h1 hx
      · split
        · apply extractLoop_no_panic encs hs site rest
          intro e' he'
          simp only at he'
          exact hc e' he'
        · exact extractLoop_no_panic encs hs site rest st hc

/-- **Extraction never panics**: whatever the fonts and content operations, the `expect`
inside `bytes_to_string` cannot fire during `extract_text` -/
theorem extract_never_panics (fonts : List (Bytes × Dict)) (ops : List (Bytes × List Obj)) (site : String) :
    extractText fonts ops ≠ .panic site := by
  unfold extractText
  split
  · intro h; cases h
  · rename_i encs he
    exact extractLoop_no_panic encs (fontEncodings_safe fonts encs he) site ops _
      (by intro e h; simp at h)

/-- a run of `Tj` operators under a one-byte encoding appends the shown texts -/
theorem extractLoop_tjs (encs : List (Bytes × Enc)) (t : Table) (hl : t.length ≤ 256) (f : StrFmt) :
    ∀ (ss : List UStr) (rest : List (Bytes × List Obj)) (st : XState),
      st.cur = some (.oneByte t) →
      (∀ s ∈ ss, (∀ c ∈ s, Scalar c) ∧ ∀ u ∈ stdEncodeUtf16 s, some u ∈ t) →
      extractLoop encs (ss.map (fun s => (OP_TJ, [Obj.str (stringToBytes t s) f])) ++ rest) st
        = extractLoop encs rest { st with text := st.text ++ ss.flatten }
  | [], rest, st, _, _ => by simp
  | s :: ss, rest, st, hc, hs => by
    have h1 := hs s (by simp)
    have hd := encode_decode_repertoire t hl s h1.1 h1.2
    have ne1 : OP_TJ ≠ OP_TF := by decide
    simp only [List.map_cons, List.cons_append, extractLoop, ne1, if_false, Bool.true_or, if_true, beq_self_eq_true,
      hc, collectList, collectObj, decodeText, hd]
    have := extractLoop_tjs encs t hl f ss rest { st with text := st.text ++ s } hc
      (fun x hx => hs x (by simp [hx]))
    simp only [hc] at this
    rw [this]
    simp [List.append_assoc]

/-- **Text shown with a predefined one-byte encoding is returned unchanged by extraction**:
a page whose font `F` has encoding table `t`, showing the strings `ss` (each over the table's
repertoire, encoded with `string_to_bytes`) in one text object, extracts to their concatenation
followed by the newline `ET` contributes. -/
theorem extract_shown_text (fname : Bytes) (font : Dict) (t : Table) (size : Obj) (f : StrFmt)
    (hf : getFontEncoding font = some (.oneByte t))
    (ss : List UStr)
    (hs : ∀ s ∈ ss, (∀ c ∈ s, Scalar c) ∧ ∀ u ∈ stdEncodeUtf16 s, some u ∈ t) :
    extractText [(fname, font)]
      ((OP_TF, [.name fname, size]) :: (ss.map (fun s => (OP_TJ, [Obj.str (stringToBytes t s) f])) ++ [(OP_ET, [])]))
      = .ok (if ss.flatten.getLast? = some 10 then ss.flatten else ss.flatten ++ [10]) := by
  have hl : t.length ≤ 256 := by
    have := (tables_no_surrogate t (font_encoding_in_tables font t hf)).1; omega
  have ne2 : OP_ET ≠ OP_TF := by decide
  have ne3 : (OP_ET = OP_TJ) = False := by simp; decide
  have ne4 : (OP_ET = OP_TJ_ARR) = False := by simp; decide
  simp only [extractText, fontEncodings, hf, extractLoop, if_true, Obj.asName, lookupEnc]
  rw [extractLoop_tjs _ t hl f ss _ _ rfl hs]
  simp [extractLoop, ne2, ne3, ne4]

example : (∀ c ∈ [0x48, 0xE9, 0x20AC], Scalar c) ∧ ∀ u ∈ stdEncodeUtf16 [0x48, 0xE9, 0x20AC], some u ∈ WIN_ANSI_ENCODING := by
  decide +kernel

end Lopdf
