import LopdfModel.Thm.StrictSaveStream
import LopdfModel.Thm.FileNorm
/-
  C03 — the strict-reader theorems for documents WITH real numbers: what the strict reader
  returns is the normal form (`nfObj`: an integral real text is read as an integer; `normD` inside
  dictionaries) — exactly what lopdf's own reader returns (`file_rt_table_norm`).
-/
namespace Lopdf.Strict
open Lopdf Gen Lopdf.FileRT Lopdf.ObjRt

theorem nfObj_noReal (o : Obj) (h : ObjOK o) : nfObj o = o := by
  cases o with
  | stream es c => obtain ⟨_, _, h3, _⟩ := h; simp [nfObj, normD_noReal es h3]
  | null => rfl
  | bool b => rfl
  | int i => rfl
  | real t => exact absurd h.2.2 (by simp [NoReal])
  | name n => rfl
  | str s f => rfl
  | arr items => exact norm_noReal _ h.2.2
  | dict es => exact norm_noReal _ h.2.2
  | ref a b => rfl

/-- **R5 on a written object, reals included**: the strict reader returns the normal form -/
theorem objectAt_written_nf (pre rest : Bytes) (n g : Nat) (o : Obj) (resolve : ObjId → Option Int) (h : ObjOKN o) :
    objectAt (pre ++ (writeIndirect n g o ++ rest)) pre.length n g resolve
      = .ok (nfObj o, pre.length + (writeIndirect n g o).length) := by
  have htotal : (pre ++ (writeIndirect n g o ++ rest)).length - rest.length
      = pre.length + (writeIndirect n g o).length := by
    simp only [List.length_append]; omega
  have hoff : ¬ pre.length > (pre ++ (writeIndirect n g o ++ rest)).length := by
    simp only [List.length_append]; omega
  have hhdr : (pre ++ (writeIndirect n g o ++ rest)).drop pre.length
      = (natDigits n ++ 32 :: natDigits g ++ OBJ) ++ (10 :: ((if needSeparator o then [32] else []) ++
          (writeObj o ++ endObjTail o rest))) := by
    rw [List.drop_left, writeIndirect_eq]
    simp [OBJ]
  unfold objectAt
  simp only [hoff, if_false, hhdr, stripPrefix_append, dropEol]
  cases o with
  | stream es c =>
    obtain ⟨h1, h2, h4⟩ := h
    have hsk := skipWs_sep (.dict es) (STREAM_KW ++ (c ++ (ENDSTREAM_KW ++ endObjTail (.stream es c) rest))) h1
    have hw : writeObj (.stream es c) ++ endObjTail (.stream es c) rest
        = writeObj (.dict es) ++ (STREAM_KW ++ (c ++ (ENDSTREAM_KW ++ endObjTail (.stream es c) rest))) := by
      simp [writeObj]
    have hns : needSeparator (.stream es c) = needSeparator (.dict es) := rfl
    rw [hw, hns, hsk]
    have hfuel : size (.dict es) ≤ (writeObj (.dict es) ++ (STREAM_KW ++ (c ++ (ENDSTREAM_KW ++
        endObjTail (.stream es c) rest)))).length + 1 := by
      have := size_le_length _ (.dict es) h1
      simp only [List.length_append]; omega
    rw [obj_rt (.dict es) _ 0 _ h1 (by omega) hfuel trivial]
    simp only [norm]
    have hst : stripPrefix STREAM (STREAM_KW ++ (c ++ (ENDSTREAM_KW ++ endObjTail (.stream es c) rest)))
        = some (10 :: (c ++ (ENDSTREAM_KW ++ endObjTail (.stream es c) rest))) := by
      simp [STREAM, STREAM_KW, stripPrefix]
    have hlen : streamLength resolve (normD es) = some (c.length : Int) := by
      unfold streamLength
      have : kLength = LENGTH := rfl
      rw [this, normD_get, h4]; rfl
    have hnot : ¬ ((c.length : Int) < 0 ∨
        (c ++ (ENDSTREAM_KW ++ endObjTail (.stream es c) rest)).length < (c.length : Int).toNat) := by
      simp only [List.length_append, Int.toNat_natCast]; omega
    simp only [hst, dropStreamEol, hlen, Bool.or_eq_true, decide_eq_true_eq, hnot, if_false, Int.toNat_natCast,
      List.take_left', List.drop_left']
    have he : ENDSTREAM_KW ++ endObjTail (.stream es c) rest
        = 10 :: (ENDSTREAM ++ endObjTail (.stream es c) rest) := by
      simp [ENDSTREAM_KW, ENDSTREAM]
    rw [he]
    simp only [dropEol, stripPrefix_append, finishObj_tail, htotal, nfObj]
    split
    · rename_i hh
      exfalso
      simp only [List.length_append] at hh
      omega
    · rfl
  | dict es =>
    obtain ⟨h1, h2⟩ := h
    have hfuel : size (.dict es) ≤ (writeObj (.dict es) ++ endObjTail (.dict es) rest).length + 1 := by
      have := size_le_length _ (.dict es) h1
      simp only [List.length_append]; omega
    rw [skipWs_sep _ _ h1, obj_rt _ _ 0 _ h1 (by omega) hfuel (follow_endobj _ rest)]
    obtain ⟨e1, e2⟩ := endObjTail_not_stream (.dict es) rest
    simp only [norm, e1, e2, Bool.false_eq_true, if_false, finishObj_tail, htotal, nfObj]
  | real t =>
    obtain ⟨h1, h2⟩ := h
    rw [skipWs_sep _ _ h1, obj_rt _ _ 0 _ h1 (by omega)
      (by have := size_le_length _ _ h1; simp only [List.length_append]; omega) (follow_endobj _ rest)]
    simp only [norm, normReal, nfObj]
    by_cases c1 : t.contains 46 = true
    · simp only [c1, if_true, finishObj_tail, htotal]
    · by_cases c2 : realOutside t = true
      · simp only [c1, c2, if_true, Bool.false_eq_true, if_false, finishObj_tail, htotal]
      · simp only [c1, c2, Bool.false_eq_true, if_false, finishObj_tail, htotal]
  | _ =>
    obtain ⟨h1, h2⟩ := h
    rw [skipWs_sep _ _ h1, obj_rt _ _ 0 _ h1 (by omega)
      (by have := size_le_length _ _ h1; simp only [List.length_append]; omega) (follow_endobj _ rest)]
    simp only [norm, finishObj_tail, htotal, nfObj]

/-- (reals included) **R6 on the written object area**: the walk visits the objects in write order, each entry
exactly once, and ends exactly at the cross-reference section -/
theorem walk_written_nf (resolve : ObjId → Option Int) : ∀ (os : Objects) (pre post : Bytes) (ents : List Entry)
    (acc : List (ObjId × Obj)) (fuel : Nat),
    (∀ p ∈ os, ObjOKN p.2) → (ents.map (·.1)).Nodup →
    (∀ e, e ∈ ents ↔ e ∈ entriesOf os pre.length) → os.length + 1 ≤ fuel →
    walk (pre ++ (bytesOf os ++ post)) resolve fuel ents pre.length (pre.length + (bytesOf os).length) acc
      = .ok (acc.reverse ++ os.map fun p => (p.1, nfObj p.2)) := by
  intro os
  induction os with
  | nil =>
    intro pre post ents acc fuel _ _ hiff hf
    have hnil : ents = [] := by
      rw [List.eq_nil_iff_forall_not_mem]
      intro e he
      have := (hiff e).mp he
      simp [entriesOf] at this
    cases fuel with
    | zero => simp at hf
    | succ f => simp [walk, bytesOf, hnil]
  | cons p rest ih =>
    intro pre post ents acc fuel hok hnd hiff hf
    obtain ⟨⟨n, g⟩, o⟩ := p
    cases fuel with
    | zero => simp at hf
    | succ f =>
      have hpos := writeIndirect_pos n g o
      have hb : pre ++ (bytesOf (((n, g), o) :: rest) ++ post)
          = pre ++ (writeIndirect n g o ++ (bytesOf rest ++ post)) := by
        simp [bytesOf]
      have hlenb : (bytesOf (((n, g), o) :: rest)).length = (writeIndirect n g o).length + (bytesOf rest).length := by
        simp [bytesOf]
      have hne : ¬ pre.length = pre.length + (bytesOf (((n, g), o) :: rest)).length := by
        rw [hlenb]; omega
      have hfilt : ents.filter (fun e => e.2.1 == pre.length) = [(n, pre.length, g)] := by
        apply filter_singleton (fun e : Entry => e.1) _ _ ents hnd
        · exact (hiff _).mpr (by simp [entriesOf])
        · intro b hbm hpb
          have hb' := (hiff b).mp hbm
          simp only [entriesOf, List.mem_cons] at hb'
          rcases hb' with h | h
          · exact h
          · have := entriesOf_off_ge rest _ b h
            have hoff : b.2.1 = pre.length := by simpa using hpb
            omega
        · simp
      have hobj := objectAt_written_nf pre (bytesOf rest ++ post) n g o resolve (hok ((n, g), o) (by simp))
      rw [hb]
      unfold walk
      rw [← hb]
      simp only [hne, if_false, hfilt]
      rw [hb, hobj]
      have hgt : ¬ (pre.length + (writeIndirect n g o).length ≤ pre.length) := by omega
      simp only [hgt, if_false]
      have hb2 : pre ++ (writeIndirect n g o ++ (bytesOf rest ++ post))
          = (pre ++ writeIndirect n g o) ++ (bytesOf rest ++ post) := by simp
      have hl2 : pre.length + (writeIndirect n g o).length = (pre ++ writeIndirect n g o).length := by simp
      have hstop : pre.length + (bytesOf (((n, g), o) :: rest)).length
          = (pre ++ writeIndirect n g o).length + (bytesOf rest).length := by
        rw [hlenb]; simp only [List.length_append]; omega
      rw [hb2, hl2, hstop]
      rw [ih (pre ++ writeIndirect n g o) post _ (((n, g), nfObj o) :: acc) f (fun q hq => hok q (by simp [hq]))
        (List.Nodup.sublist (List.Sublist.map _ List.filter_sublist) hnd) ?_ (by simp at hf ⊢; omega)]
      · simp
      · intro e
        rw [List.mem_filter, hiff e]
        simp only [entriesOf, List.mem_cons, List.length_append]
        constructor
        · rintro ⟨h1 | h1, h2⟩
          · subst h1; simp at h2
          · exact h1
        · intro h1
          refine ⟨Or.inr h1, ?_⟩
          have := entriesOf_off_ge rest _ e h1
          simp only [bne_iff_ne, ne_eq]
          omega

/-- (reals included) **R2 on a written table**: the section `xref … trailer <<…>>` is read back with exactly the
recorded in-use entries, the trailer dictionary, and ends where the dictionary ends -/
theorem sectionAt_table_nf (pre tail : Bytes) (x : XrefMap) (size : Nat) (tr : Dict) (sz : Int)
    (hx : XrefMapOk x) (hs : size ≤ 4294967295)
    (htr : WFObj (.dict tr) ∧ height (.dict tr) ≤ MAX_NESTING)
    (hsz : Dict.get tr SIZE = some (.int sz)) (pv : Option Nat) (hprev : prevOf (normD tr) = .ok pv) :
    sectionAt (pre ++ (writeXrefTable x size ++ (TRAILER_KW ++ (writeObj (.dict tr) ++ tail)))) pre.length
      = .ok { entries := tableEntriesOf x size, trailer := normD tr,
              secEnd := (pre ++ (writeXrefTable x size ++ (TRAILER_KW ++ (writeObj (.dict tr) ++ tail)))).length
                - tail.length,
              prev := pv, size := sz, selfId := none } := by
  obtain ⟨t1, t2⟩ := htr
  generalize htot : (pre ++ (writeXrefTable x size ++ (TRAILER_KW ++ (writeObj (.dict tr) ++ tail)))).length = total
  have hle : ¬ pre.length > total := by rw [← htot]; simp only [List.length_append]; omega
  have hdrop : (pre ++ (writeXrefTable x size ++ (TRAILER_KW ++ (writeObj (.dict tr) ++ tail)))).drop pre.length
      = XREF ++ (10 :: (secsBytes (tableSecs x size) ++ (TRAILER_KW ++ (writeObj (.dict tr) ++ tail)))) := by
    rw [List.drop_left, writeXrefTable_eq]
    simp [XREF_KW, XREF]
  have hsub := subsections_secs (tableSecs x size)
    ((secsBytes (tableSecs x size) ++ (TRAILER_KW ++ (writeObj (.dict tr) ++ tail))).length + 1)
    (TRAILER_KW ++ (writeObj (.dict tr) ++ tail)) [] 0 (tableSecs_ok x size hx hs) (noDigit_trailer _)
    (by have := secsBytes_length (tableSecs x size); simp only [List.length_append]; omega)
    (assigns_tableSecs_nodup x size) (by intro k _; rfl)
  have hcount : ¬ (0 + (tableSecs x size).length = 0) := by
    have := tableSecs_ne_nil x size
    cases h : tableSecs x size with
    | nil => exact absurd h this
    | cons a b => simp
  have htrl : stripPrefix TRAILER (TRAILER_KW ++ (writeObj (.dict tr) ++ tail)) = some (10 :: (writeObj (.dict tr) ++ tail)) := by
    simp [TRAILER, TRAILER_KW, stripPrefix]
  obtain ⟨w, hw⟩ := writeObj_dict_cons tr
  have hsk : skipWs (10 :: (writeObj (.dict tr) ++ tail)) = writeObj (.dict tr) ++ tail := by
    rw [hw]; simp [skipWs, isWs]
  have hfuel : ObjRt.size (.dict tr) ≤ (writeObj (.dict tr) ++ tail).length + 1 := by
    have := size_le_length _ (.dict tr) t1
    simp only [List.length_append]; omega
  have hobj := obj_rt (.dict tr) _ 0 tail t1 (by omega) hfuel trivial
  simp only [norm] at hobj
  have hsz' : Dict.get (normD tr) SIZE = some (.int sz) := by rw [normD_get, hsz]; rfl
  have hk1 : kSize = SIZE := rfl
  unfold sectionAt
  rw [htot]
  simp only [hle, if_false, hdrop, stripPrefix_append, tableSection, dropEol, hsub, List.nil_append, hcount, htrl, hsk,
    hobj, hk1, hsz', hprev, tableEntriesOf]

/-- (reals included; what comes back is the normal form) **`strict_ok`, classic table (C03).** For every well-formed document (as in `file_rt_table`:
one object per number in `1..max_id`, `u16` generations, no dropped kinds, objects and trailer
within the nesting limit and real-free, streams with their direct `Length`, trailer without
`Prev`, version text without line breaks) saved plainly with a classic cross-reference table,
file < 4 GiB: the independent strict structural reader ACCEPTS the saved bytes — every rule
R1–R7, every byte accounted for — and returns exactly the saved objects (as the very list, in file
order), the version, the trailer `save` wrote, one revision, no cross-reference stream. -/
theorem strict_of_save_table_norm (d : SDoc) (out : Bytes) (d' : SDoc)
    (hk : d.xrefKind = .table) (h : saveFrom [] d = some (out, d')) (hlen : out.length < 4294967296)
    (hmax : d.maxId + 1 ≤ 4294967295) (hwf : DocWF d)
    (hobjs : ∀ p ∈ d.objects, ObjOKN p.2)
    (htr : WFObj (.dict d.trailer) ∧ height (.dict d.trailer) ≤ MAX_NESTING)
    (hv1 : ∀ b ∈ d.version, notEol b = true) (hprev : d.trailer.get PREV = none) :
    strictLoad out = .ok { version := d.version, objects := d.objects.map (fun p => (p.1, nfObj p.2)),
                            trailer := normD d'.trailer, revisions := 1,
                            xrefStreamIds := [] } := by
  obtain ⟨hout, htr'⟩ := saveFrom_table_eq [] d out d' hk h
  have hmark := saveFrom_mark [] d out d' h
  -- the file, piece by piece
  have hbody : bodyOf [] d = hdrOf [] d ++ bytesOf d.objects := writeObjects_kept _ _ _ hwf.kept
  have hhdr : hdrOf [] d = PDF_KW ++ (d.version ++ 10 :: 37 :: (d.binaryMark ++ [10])) := by simp [hdrOf]
  obtain ⟨tail, htail⟩ : ∃ t, t = STARTXREF_KW ++ natDigits (bodyOf [] d).length ++ EOF_KW := ⟨_, rfl⟩
  have htr2 : WFObj (.dict d'.trailer) ∧ height (.dict d'.trailer) ≤ MAX_NESTING := by
    obtain ⟨t1, t2⟩ := htr
    have hi : -(I64_MAX : Int) - 1 ≤ ((d.maxId : Int) + 1) ∧ ((d.maxId : Int) + 1) ≤ I64_MAX := by
      simp [I64_MAX]; omega
    rw [htr']
    refine ⟨?_, ?_⟩
    · simp only [WFObj, WF] at t1 ⊢
      exact ⟨Dict_nodup_set d.trailer SIZE _ t1.1, WFD_set_int _ _ _ hi t1.2⟩
    · simp only [height] at t2 ⊢
      have := heightD_set_int d.trailer SIZE ((d.maxId : Int) + 1)
      omega
  have k1 : ¬ SIZE = PREV := by decide
  have hprev' : Dict.get d'.trailer PREV = none := by
    rw [htr', Dict_get_set]; simp only [k1, if_false]; exact hprev
  have hsz' : Dict.get d'.trailer SIZE = some (.int ((d.maxId : Int) + 1)) := by
    rw [htr', Dict.get_set_same]
  have e1 : out = bodyOf [] d ++ (writeXrefTable (xmapOf [] d) (d.maxId + 1) ++ (TRAILER_KW ++
      (writeObj (.dict d'.trailer) ++ tail))) := by
    rw [hout, htr', htail]; simp only [List.append_assoc]
  have e2 : out = (bodyOf [] d ++ writeXrefTable (xmapOf [] d) (d.maxId + 1) ++ TRAILER_KW
      ++ writeObj (.dict d'.trailer)) ++ STARTXREF_KW ++ natDigits (bodyOf [] d).length ++ EOF_KW := by
    rw [hout, htr']
  have e3 : out = hdrOf [] d ++ (bytesOf d.objects ++ (writeXrefTable (xmapOf [] d) (d.maxId + 1) ++ (TRAILER_KW ++
      (writeObj (.dict d'.trailer) ++ tail)))) := by
    rw [e1, hbody]; simp only [List.append_assoc]
  have hblen : (bodyOf [] d).length < 4294967296 := by
    have := body_le_out [] d out d' h; omega
  -- R1
  have hlast : lastXref out = .ok (bodyOf [] d).length := by
    rw [e2]; exact lastXref_tail _ _ (by omega)
  -- R2
  have hsec := sectionAt_table_nf (bodyOf [] d) tail (xmapOf [] d) (d.maxId + 1) d'.trailer _
    (xmapOf_ok [] d hwf.gens) hmax htr2 hsz' none (by simp [prevOf, show kPrev = PREV from rfl, normD_get, hprev'])
  rw [← e1] at hsec
  -- R4
  have hsecEnd : out.length - tail.length = (bodyOf [] d ++ writeXrefTable (xmapOf [] d) (d.maxId + 1) ++ TRAILER_KW
      ++ writeObj (.dict d'.trailer)).length := by
    rw [e2, htail]; simp only [List.length_append]; omega
  have htl : tailAt out (out.length - tail.length) (bodyOf [] d).length = .ok out.length := by
    rw [hsecEnd]
    have := tailAt_tail (bodyOf [] d ++ writeXrefTable (xmapOf [] d) (d.maxId + 1) ++ TRAILER_KW
      ++ writeObj (.dict d'.trailer)) (bodyOf [] d).length
    rw [← e2] at this
    exact this
  -- R7
  have hhead : headerAt out = .ok (d.version, bytesOf d.objects ++ (writeXrefTable (xmapOf [] d) (d.maxId + 1) ++
      (TRAILER_KW ++ (writeObj (.dict d'.trailer) ++ tail)))) := by
    rw [e3, hhdr]
    have := headerAt_saved d.version d.binaryMark (bytesOf d.objects ++ (writeXrefTable (xmapOf [] d) (d.maxId + 1) ++
      (TRAILER_KW ++ (writeObj (.dict d'.trailer) ++ tail)))) hv1 hmark
    simpa [List.append_assoc] using this
  have hobjStart : out.length - (bytesOf d.objects ++ (writeXrefTable (xmapOf [] d) (d.maxId + 1) ++
      (TRAILER_KW ++ (writeObj (.dict d'.trailer) ++ tail)))).length = (hdrOf [] d).length := by
    rw [e3]; simp only [List.length_append]; omega
  -- R3
  have hsize : sizeOk (Rev.mk (tableEntriesOf (xmapOf [] d) (d.maxId + 1)) (normD d'.trailer)
      (out.length - tail.length) none ((d.maxId : Int) + 1) none) = true := by
    simp only [sizeOk, List.all_eq_true, decide_eq_true_eq]
    intro e he
    obtain ⟨n, off, g⟩ := e
    have := ((mem_tableEntriesOf _ _ n off g).mp he).1
    simp only; omega
  -- R6
  have hiff : ∀ e, e ∈ tableEntriesOf (xmapOf [] d) (d.maxId + 1) ↔ e ∈ entriesOf d.objects (hdrOf [] d).length := by
    intro e
    obtain ⟨n, off, g⟩ := e
    rw [mem_tableEntriesOf]
    constructor
    · rintro ⟨_, hx⟩
      -- the number is one of the document's
      have hnum : n ∈ d.objects.map (·.1.1) := by
        cases hm : decide (n ∈ d.objects.map (·.1.1)) with
        | true => simpa using hm
        | false =>
          have hm' : n ∉ d.objects.map (·.1.1) := by simpa using hm
          have := writeObjects_get_other d.objects (hdrOf [] d) [] n hm'
          unfold xmapOf at hx
          rw [this] at hx
          simp [XrefMap.get] at hx
      obtain ⟨p, hp, hpn⟩ := List.mem_map.mp hnum
      obtain ⟨e, he, h1, h2⟩ := entriesOf_of_mem d.objects (hdrOf [] d).length p hp
      have hg := entriesOf_get d.objects (hdrOf [] d) [] hwf.nodup hwf.kept e he
      obtain ⟨_, hlt⟩ := mem_of_entriesOf d.objects _ e he
      have hoffb : e.2.1 < 4294967296 := by
        have : (bodyOf [] d).length = (hdrOf [] d).length + (bytesOf d.objects).length := by
          rw [hbody]; simp
        omega
      rw [Nat.mod_eq_of_lt hoffb] at hg
      have hen : e.1 = n := by rw [h1, hpn]
      rw [hen] at hg
      unfold xmapOf at hx
      rw [hx] at hg
      injection hg with hg
      injection hg with ho hg2
      obtain ⟨e1', e2', e3'⟩ := e
      simp only at hen ho hg2
      subst hen; subst ho; subst hg2
      exact he
    · intro he
      have hg := entriesOf_get d.objects (hdrOf [] d) [] hwf.nodup hwf.kept _ he
      obtain ⟨⟨p, hp, hp1, hp2⟩, hlt⟩ := mem_of_entriesOf d.objects _ _ he
      simp only at hp1 hp2 hlt hg
      have hoffb : off < 4294967296 := by
        have : (bodyOf [] d).length = (hdrOf [] d).length + (bytesOf d.objects).length := by
          rw [hbody]; simp
        omega
      rw [Nat.mod_eq_of_lt hoffb] at hg
      obtain ⟨hr1, hr2⟩ := hwf.range p hp
      exact ⟨by omega, hg⟩
  have hwalk := walk_written_nf (resolveIn out (tableEntriesOf (xmapOf [] d) (d.maxId + 1))) d.objects (hdrOf [] d)
    (writeXrefTable (xmapOf [] d) (d.maxId + 1) ++ (TRAILER_KW ++ (writeObj (.dict d'.trailer) ++ tail)))
    (tableEntriesOf (xmapOf [] d) (d.maxId + 1)) [] (out.length + 1) hobjs (tableEntriesOf_nodup _ _) hiff
    (by
      have : d.objects.length ≤ (bytesOf d.objects).length := by
        clear hiff hsize hobjStart hhead htl hsecEnd hsec hlast
        generalize d.objects = os
        induction os with
        | nil => simp [bytesOf]
        | cons q r ih =>
          have := writeIndirect_pos q.1.1 q.1.2 q.2
          simp only [bytesOf, List.map_cons, List.flatten_cons, List.length_append, List.length_cons] at ih ⊢
          omega
      rw [e3]; simp only [List.length_append]; omega)
  rw [← e3] at hwalk
  have hstop : (hdrOf [] d).length + (bytesOf d.objects).length = (bodyOf [] d).length := by
    rw [hbody]; simp
  rw [hstop] at hwalk
  have hfilt : (tableEntriesOf (xmapOf [] d) (d.maxId + 1)).filter (fun e => some e.1 != (none : Option Nat))
      = tableEntriesOf (xmapOf [] d) (d.maxId + 1) := by
    rw [List.filter_eq_self]; intro e _; rfl
  -- assemble
  have hrev : revisions out (out.length + 1) (bodyOf [] d).length
      = .ok ([RevData.mk (Rev.mk (tableEntriesOf (xmapOf [] d) (d.maxId + 1)) (normD d'.trailer)
                (out.length - tail.length) none ((d.maxId : Int) + 1) none) (d.objects.map fun p => (p.1, nfObj p.2))], d.version, out.length) := by
    unfold revisions
    simp only [hsec, htl, hsize, Bool.not_true, Bool.false_eq_true, if_false, hhead, hobjStart, hfilt, hwalk,
      List.reverse_nil, List.nil_append]
  have hks : Dict.get (normD d'.trailer) kSize = some (.int ((d.maxId : Int) + 1)) := by
    have : kSize = SIZE := rfl
    rw [this, normD_get, hsz']; rfl
  have hallsz : ((List.filter (fun _ => true) (d.objects.map fun p => (p.1, nfObj p.2))).all
      fun p => decide (((p.1.1 : Nat) : Int) < (d.maxId : Int) + 1)) = true := by
    rw [List.all_eq_true]
    intro q hq
    obtain ⟨p, hp, rfl⟩ := List.mem_map.mp (List.mem_filter.mp hq).1
    have := (hwf.range p hp).2
    simp only [decide_eq_true_eq]; omega
  unfold strictLoad
  simp only [hlast, hrev, bne_self_eq_false, Bool.false_eq_true, if_false, mergeRevs, List.length_singleton,
    List.filterMap_cons, List.filterMap_nil, hks]
  simp only [List.contains_nil, Bool.not_false, List.nil_append, hallsz, Bool.not_true, Bool.false_eq_true, if_false]
  simp [mergeRevs]

/-- (reals included) **R2 on a written cross-reference stream**, appended to any prefix and read inside any
extension of the file -/
theorem sectionAt_streamP_nf (pre : Bytes) (d : SDoc) (out : Bytes) (d' : SDoc) (R : Bytes) (hk : d.xrefKind = .stream)
    (h : saveFrom pre d = some (out, d')) (hlen : out.length < 4294967296) (hmax : d.maxId + 2 ≤ 4294967295)
    (hg : GensOk d)
    (htr : WFObj (.dict d.trailer) ∧ height (.dict d.trailer) ≤ MAX_NESTING)
    (pv : Option Nat) (hprev : prevOf (normD (streamTrailer pre d)) = .ok pv) :
    sectionAt (out ++ R) (bodyOf pre d).length
      = .ok (Rev.mk (streamEntriesOf (xmapStream pre d) (d.maxId + 1)) (normD (streamTrailer pre d))
          ((bodyOf pre d).length + (writeIndirect (d.maxId + 1) 0 (xrefObjP pre d)).length) pv
          ((d.maxId + 1 + 1 : Nat) : Int) (some (d.maxId + 1))) := by
  obtain ⟨hout, _⟩ := saveFrom_stream_eq pre d out d' hk h
  have hokx := xrefObjP_okN pre d out d' hk h hlen hmax hg htr
  have hnd : d.trailer.keys.Nodup := by
    have := htr.1; simp only [WFObj, WF] at this; exact this.1
  have hb := body_le_out pre d out d' h
  have hbl : (bodyOf pre d).length < 4294967296 := by omega
  obtain ⟨tail, htail⟩ : ∃ t, t = STARTXREF_KW ++ natDigits (bodyOf pre d).length ++ EOF_KW ++ R := ⟨_, rfl⟩
  have e : out ++ R = bodyOf pre d ++ (writeIndirect (d.maxId + 1) 0 (xrefObjP pre d) ++ tail) := by
    rw [hout, htail]; simp only [xrefObjP, List.append_assoc]
  -- the dictionary (normal form)
  obtain ⟨n1, n2, n3, n4, _, n6⟩ := normD_streamTrailer_facts pre d hnd hmax hg
  have hT : Dict.get (normD (streamTrailer pre d)) kType = some (.name XREF_NAME) := n6
  have hF : (Dict.get (normD (streamTrailer pre d)) kFilter).isSome = false := n1
  have hS : Dict.get (normD (streamTrailer pre d)) kSize = some (.int ((d.maxId + 1 + 1 : Nat) : Int)) := n2
  have hI : Dict.get (normD (streamTrailer pre d)) kIndex
      = some (xrefStreamIndex (streamSecs (xmapStream pre d) (d.maxId + 1))) := n3
  have hW : intList (Dict.get (normD (streamTrailer pre d)) kW) = some [1, 4, 2] := by
    have : kW = W_KEY := rfl
    rw [this, n4]
    simp [intList, XREF_W]
  -- the object
  have hobj := objectAt_written_nf (bodyOf pre d) tail (d.maxId + 1) 0 (xrefObjP pre d) (fun _ => none) hokx
  rw [← e] at hobj
  have hdrop : (out ++ R).drop (bodyOf pre d).length
      = natDigits (d.maxId + 1) ++ 32 :: (natDigits 0 ++ 32 :: (111 :: 98 :: 106 :: 10 ::
          ((if needSeparator (xrefObjP pre d) then [32] else []) ++ (writeObj (xrefObjP pre d) ++ endObjTail (xrefObjP pre d) tail)))) := by
    rw [e, List.drop_left, writeIndirect_eq]
  obtain ⟨a, as, hda, hdig⟩ := FileRT.natDigits_head (d.maxId + 1)
  have hnx : stripPrefix XREF ((out ++ R).drop (bodyOf pre d).length) = none := by
    rw [hdrop, hda]
    have : ¬ (120 : UInt8) = a := fun e => (digit_not_ws a hdig).2.2 e.symm
    simp [XREF, stripPrefix, this]
  have hle : ¬ (bodyOf pre d).length > (out ++ R).length := by simp only [List.length_append]; omega
  -- rows
  have hsecs := streamSections_secs (streamSecs (xmapStream pre d) (d.maxId + 1)) []
    (streamSecs_ok _ _ (xmapStream_ok pre d hg) (by omega)) (assigns_streamSecs_nodup _ _) (by intro k _; rfl)
  rw [← xrefStreamContent_eq] at hsecs
  obtain ⟨ix1, ix2⟩ := index_shape (streamSecs (xmapStream pre d) (d.maxId + 1))
  have hrows : rowCount (indexInts (streamSecs (xmapStream pre d) (d.maxId + 1))) * (1 + 4 + 2)
      = ((xrefStreamContent (streamSecs (xmapStream pre d) (d.maxId + 1))).length : Int) := by
    rw [rowCount_index, xrefStreamContent_length]
    omega
  have hself : (streamEntriesOf (xmapStream pre d) (d.maxId + 1)).any
      (fun en => en.1 == d.maxId + 1 && en.2.1 == (bodyOf pre d).length) = true := by
    rw [List.any_eq_true]
    refine ⟨(d.maxId + 1, (bodyOf pre d).length, 0), ?_, by simp⟩
    rw [mem_streamEntriesOf]
    refine ⟨by omega, ?_⟩
    simp [xmapStream, XrefMap.get_insert_same, Nat.mod_eq_of_lt hbl]
  unfold sectionAt
  simp only [hle, if_false, hnx, streamSection]
  rw [hdrop, number_natDigits (d.maxId + 1) 32 _ (by omega) (by decide)]
  simp only
  rw [number_natDigits 0 32 _ (by omega) (by decide)]
  simp only [hobj, xrefObjP, nfObj, hT, hF, hW, hS, hI, intList_index, hprev]
  have c1 : (!XREF_NAME == kXRef) = false := by decide
  have c2 : (decide ((1 : Int) < 0) || decide ((1 : Int) > 8) || decide ((4 : Int) < 0) || decide ((4 : Int) > 8)
      || decide ((2 : Int) < 0) || decide ((2 : Int) > 8)) = false := by decide
  have c3 : ((indexInts (streamSecs (xmapStream pre d) (d.maxId + 1))).length % 2 != 0 ||
      (indexInts (streamSecs (xmapStream pre d) (d.maxId + 1))).any fun x => decide (x < 0)) = false := by
    rw [ix1, ix2]; rfl
  have c4 : (rowCount (indexInts (streamSecs (xmapStream pre d) (d.maxId + 1))) * (1 + 4 + 2) !=
      ((xrefStreamContent (streamSecs (xmapStream pre d) (d.maxId + 1))).length : Int)) = false := by
    rw [hrows]; simp
  have t1 : Int.toNat 1 = 1 := rfl
  have t4 : Int.toNat 4 = 4 := rfl
  have t2 : Int.toNat 2 = 2 := rfl
  simp only [c1, c2, c3, c4, Bool.false_eq_true, if_false, t1, t4, t2, hsecs, List.nil_append]
  have hself' := hself
  unfold streamEntriesOf at hself'
  simp only [hself', if_true, streamEntriesOf]

/-- (reals included; normal form) **`strict_ok`, cross-reference stream (C03).** As `strict_of_save_table` for documents saved
with a cross-reference stream (`Size = max_id + 2 ≤ u32::MAX`): the strict reader accepts the file
— the `/XRef` stream object lists itself at its own offset, `Length = rows × 7`, every byte is
accounted for — and returns exactly the saved objects, the version, the stream dictionary as
trailer, one revision, and the number of the cross-reference stream. -/
theorem strict_of_save_stream_norm (d : SDoc) (out : Bytes) (d' : SDoc)
    (hk : d.xrefKind = .stream) (h : saveFrom [] d = some (out, d')) (hlen : out.length < 4294967296)
    (hmax : d.maxId + 2 ≤ 4294967295) (hwf : DocWF d)
    (hobjs : ∀ p ∈ d.objects, ObjOKN p.2)
    (htr : WFObj (.dict d.trailer) ∧ height (.dict d.trailer) ≤ MAX_NESTING)
    (hv1 : ∀ b ∈ d.version, notEol b = true) (hprev : d.trailer.get PREV = none) :
    strictLoad out = .ok { version := d.version, objects := d.objects.map (fun p => (p.1, nfObj p.2)),
                            trailer := normD d'.trailer, revisions := 1,
                            xrefStreamIds := [d.maxId + 1] } := by
  obtain ⟨hout, htr'⟩ := saveFrom_stream_eq [] d out d' hk h
  have hmark := saveFrom_mark [] d out d' h
  have hbody : bodyOf [] d = hdrOf [] d ++ bytesOf d.objects := writeObjects_kept _ _ _ hwf.kept
  have hhdr : hdrOf [] d = PDF_KW ++ (d.version ++ 10 :: 37 :: (d.binaryMark ++ [10])) := by simp [hdrOf]
  have hb := body_le_out [] d out d' h
  have hbl : (bodyOf [] d).length < 4294967296 := by omega
  obtain ⟨tail, htail⟩ : ∃ t, t = STARTXREF_KW ++ natDigits (bodyOf [] d).length ++ EOF_KW := ⟨_, rfl⟩
  obtain ⟨wi, hwi⟩ : ∃ w, w = writeIndirect (d.maxId + 1) 0 (xrefObj d) := ⟨_, rfl⟩
  have e1 : out = bodyOf [] d ++ (wi ++ tail) := by
    rw [hout, htail, hwi]; simp only [xrefObj, List.append_assoc]
  have e2 : out = (bodyOf [] d ++ wi) ++ STARTXREF_KW ++ natDigits (bodyOf [] d).length ++ EOF_KW := by
    rw [hout, hwi]; simp only [xrefObj, List.append_assoc]
  have e3 : out = hdrOf [] d ++ (bytesOf d.objects ++ (wi ++ tail)) := by
    rw [e1, hbody]; simp only [List.append_assoc]
  have hlast : lastXref out = .ok (bodyOf [] d).length := by
    rw [e2]; exact lastXref_tail _ _ (by omega)
  have hnd : d.trailer.keys.Nodup := by
    have := htr.1; simp only [WFObj, WF] at this; exact this.1
  have hP : prevOf (normD (streamTrailer [] d)) = .ok none := by
    have : kPrev = PREV := rfl
    simp only [prevOf, this, normD_get, streamTrailer_get_other [] d hnd PREV (by decide) (by decide) (by decide)
      (by decide) (by decide) (by decide), hprev, Option.map_none]
  have hsec := sectionAt_streamP_nf [] d out d' [] hk h hlen hmax hwf.gens htr none hP
  simp only [List.append_nil, ← xrefObj_eq] at hsec
  rw [← hwi] at hsec
  have hsecEnd : (bodyOf [] d).length + wi.length = (bodyOf [] d ++ wi).length := by simp
  have htl : tailAt out ((bodyOf [] d).length + wi.length) (bodyOf [] d).length = .ok out.length := by
    rw [hsecEnd]
    have := tailAt_tail (bodyOf [] d ++ wi) (bodyOf [] d).length
    rw [← e2] at this
    exact this
  have hhead : headerAt out = .ok (d.version, bytesOf d.objects ++ (wi ++ tail)) := by
    rw [e3, hhdr]
    have := headerAt_saved d.version d.binaryMark (bytesOf d.objects ++ (wi ++ tail)) hv1 hmark
    simpa [List.append_assoc] using this
  have hobjStart : out.length - (bytesOf d.objects ++ (wi ++ tail)).length = (hdrOf [] d).length := by
    rw [e3]; simp only [List.length_append]; omega
  have hsize : sizeOk (Rev.mk (streamEntriesOf (xmapStream [] d) (d.maxId + 1)) (normD (streamTrailer [] d))
      ((bodyOf [] d).length + wi.length) none ((d.maxId + 1 + 1 : Nat) : Int) (some (d.maxId + 1))) = true := by
    simp only [sizeOk, List.all_eq_true, decide_eq_true_eq]
    intro e he
    obtain ⟨n, off, g⟩ := e
    have := ((mem_streamEntriesOf _ _ n off g).mp he).1
    simp only; omega
  -- the entries of the document's objects: all but the stream's own
  have hents_nodup : (((streamEntriesOf (xmapStream [] d) (d.maxId + 1)).filter
      (fun e => some e.1 != some (d.maxId + 1))).map (·.1)).Nodup :=
    List.Nodup.sublist (List.Sublist.map _ List.filter_sublist) (streamEntriesOf_nodup _ _)
  have hiff : ∀ e, e ∈ (streamEntriesOf (xmapStream [] d) (d.maxId + 1)).filter
      (fun e => some e.1 != some (d.maxId + 1)) ↔ e ∈ entriesOf d.objects (hdrOf [] d).length := by
    intro e
    obtain ⟨n, off, g⟩ := e
    rw [List.mem_filter, mem_streamEntriesOf, xmap_entries_iff [] d hwf hbl]
    simp only [bne_iff_ne, ne_eq, Option.some.injEq]
    constructor
    · rintro ⟨⟨hr, hx⟩, hn⟩
      simp only [xmapStream, XrefMap.get_insert_other _ _ _ _ hn] at hx
      exact ⟨by omega, hx⟩
    · rintro ⟨hr, hx⟩
      have hn : n ≠ d.maxId + 1 := by omega
      exact ⟨⟨by omega, by simp only [xmapStream, XrefMap.get_insert_other _ _ _ _ hn]; exact hx⟩, hn⟩
  have hwalk := walk_written_nf (resolveIn out (streamEntriesOf (xmapStream [] d) (d.maxId + 1))) d.objects (hdrOf [] d)
    (wi ++ tail) _ [] (out.length + 1) hobjs hents_nodup hiff
    (by
      have : d.objects.length ≤ (bytesOf d.objects).length := by
        clear hiff hents_nodup hsize hobjStart hhead
        generalize d.objects = os
        induction os with
        | nil => simp [bytesOf]
        | cons q r ih =>
          have := writeIndirect_pos q.1.1 q.1.2 q.2
          simp only [bytesOf, List.map_cons, List.flatten_cons, List.length_append, List.length_cons] at ih ⊢
          omega
      rw [e3]; simp only [List.length_append]; omega)
  rw [← e3] at hwalk
  have hstop : (hdrOf [] d).length + (bytesOf d.objects).length = (bodyOf [] d).length := by
    rw [hbody]; simp
  rw [hstop] at hwalk
  have hrev : revisions out (out.length + 1) (bodyOf [] d).length
      = .ok ([RevData.mk (Rev.mk (streamEntriesOf (xmapStream [] d) (d.maxId + 1)) (normD (streamTrailer [] d))
                ((bodyOf [] d).length + wi.length) none ((d.maxId + 1 + 1 : Nat) : Int) (some (d.maxId + 1)))
              (d.objects.map fun p => (p.1, nfObj p.2))], d.version, out.length) := by
    unfold revisions
    simp only [hsec, htl, hsize, Bool.not_true, Bool.false_eq_true, if_false, hhead, hobjStart, hwalk,
      List.reverse_nil, List.nil_append]
  have hfresh : (d.objects.map fun p => (p.1, nfObj p.2)).filter (fun p => !([d.maxId + 1].contains p.1.1))
      = d.objects.map fun p => (p.1, nfObj p.2) := by
    rw [List.filter_eq_self]
    intro q hq
    obtain ⟨p, hp, rfl⟩ := List.mem_map.mp hq
    have := (hwf.range p hp).2
    have hne : ¬ (p.1.1 = d.maxId + 1) := by omega
    simp [hne]
  obtain ⟨_, fS, _, _, f5⟩ := streamTrailer_facts [] d hnd
    (.int (xrefStreamContent (streamSecs (xmapStream [] d) (d.maxId + 1))).length)
  rw [Dict_set_same _ _ _ f5] at fS
  have hks : Dict.get (normD (streamTrailer [] d)) kSize = some (.int ((d.maxId + 1 + 1 : Nat) : Int)) := by
    have : kSize = SIZE := rfl
    rw [this, normD_get, fS]; rfl
  have hallsz : ((List.filter (fun p => ![d.maxId + 1].contains p.fst.fst) (d.objects.map fun p => (p.1, nfObj p.2))).all
      fun p => decide (((p.1.1 : Nat) : Int) < ((d.maxId + 1 + 1 : Nat) : Int))) = true := by
    rw [List.all_eq_true]
    intro q hq
    obtain ⟨p, hp, rfl⟩ := List.mem_map.mp (List.mem_filter.mp hq).1
    have := (hwf.range p hp).2
    simp only [decide_eq_true_eq]; omega
  unfold strictLoad
  simp only [hlast, hrev, bne_self_eq_false, Bool.false_eq_true, if_false, mergeRevs, List.length_singleton,
    List.filterMap_cons, List.filterMap_nil, htr', hks]
  simp only [List.contains_nil, Bool.not_false, List.nil_append, List.append_nil, hallsz, Bool.not_true, Bool.false_eq_true, if_false]
  have hall : ∀ (a b : Nat) (o : Obj), ((a, b), o) ∈ d.objects → ¬ a = d.maxId + 1 := by
    intro a b o hm
    have := (hwf.range _ hm).2
    simp only at this; omega
  simp
  intro a b o x y z hm hx _ _
  subst hx
  exact hall x y z hm

end Lopdf.Strict
