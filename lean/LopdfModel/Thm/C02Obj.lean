import LopdfModel.Thm.C02
import LopdfModel.Thm.C02Space
import LopdfModel.Thm.C02Num
import LopdfModel.Thm.C02Lit
/-
  C02 — from tokens to direct objects: the order of the alternatives in `_direct_objects`
  (null, true, false, reference, real, integer, name, literal string, hexadecimal string, array,
  dictionary) never shadows a legal spelling.  For every spelling of an atomic object the
  alternatives tried earlier fail and the right one reads the denoted value; references
  `n g R` with any white space / comments between the parts are read as references.
-/
namespace Lopdf.Grammar
open Lopdf Gen

theorem digit_not_ws' : ∀ b : UInt8, isDigit b = true → isWhitespace b = false := by
  apply forall_uint8; decide +kernel

theorem unsigned_none' (mx : Nat) (y : Bytes) (h : NoDigitAhead y) : pUnsigned mx y = none := by
  cases y with
  | nil => simp [pUnsigned, digit1, spanP]
  | cons b r => simp [pUnsigned, digit1, spanP, h b r rfl]

/-! ### alternatives that fail on the first byte -/

theorem tag_none_first (kw : Bytes) (k c : UInt8) (ks r : Bytes) (hk : kw = k :: ks) (h : k ≠ c) :
    tag kw (c :: r) = none := by
  subst hk; simp [tag, h]

theorem digit1_none_first (c : UInt8) (r : Bytes) (h : isDigit c = false) : digit1 (c :: r) = none := by
  simp [digit1, spanP, h]

theorem pReference_none_first (c : UInt8) (r : Bytes) (h : isDigit c = false) : pReference (c :: r) = none := by
  simp [pReference, pUnsigned, digit1_none_first c r h]

theorem pInteger_none_first (c : UInt8) (r : Bytes) (h : isDigit c = false) (h43 : c ≠ 43) (h45 : c ≠ 45) :
    pInteger (c :: r) = none := by
  unfold pInteger
  split
  · rename_i heq; injection heq with e _; exact absurd e h43
  · rename_i heq; injection heq with e _; exact absurd e h45
  · simp [digit1_none_first c r h]

theorem pReal_none_first (c : UInt8) (r : Bytes) (h : isDigit c = false) (h43 : c ≠ 43) (h45 : c ≠ 45)
    (h46 : c ≠ 46) : pReal (c :: r) = none := by
  unfold pReal
  rw [optSign_digit c r ⟨h43, h45⟩]
  simp only [spanP, h, Bool.false_eq_true, if_false]
  split
  · rename_i heq; injection heq with e _; cases e
  · rename_i heq; injection heq with _ e; injection e with e _; exact absurd e h46
  · rfl

/-- the alternatives before `name` / `literal_string` / `hexadecimal_string` fail on a byte that
starts none of null, true, false, a number -/
def NotKwNum (c : UInt8) : Prop :=
  c ≠ 110 ∧ c ≠ 116 ∧ c ≠ 102 ∧ isDigit c = false ∧ c ≠ 43 ∧ c ≠ 45 ∧ c ≠ 46

theorem early_alts_fail (c : UInt8) (r : Bytes) (h : NotKwNum c) :
    tag NULL_KW (c :: r) = none ∧ tag TRUE_KW (c :: r) = none ∧ tag FALSE_KW (c :: r) = none ∧
    pReference (c :: r) = none ∧ pReal (c :: r) = none ∧ pInteger (c :: r) = none := by
  obtain ⟨h1, h2, h3, h4, h5, h6, h7⟩ := h
  exact ⟨tag_none_first _ 110 c _ r rfl (Ne.symm h1), tag_none_first _ 116 c _ r rfl (Ne.symm h2),
    tag_none_first _ 102 c _ r rfl (Ne.symm h3), pReference_none_first c r h4,
    pReal_none_first c r h4 h5 h6 h7, pInteger_none_first c r h4 h5 h6⟩

/-! ### names, strings -/

theorem pName_none_first (c : UInt8) (r : Bytes) (h : c ≠ 47) : pName (c :: r) = none := by
  unfold pName
  split
  · rename_i heq; injection heq with e _; exact absurd e h
  · rfl

theorem pLiteral_none_first (c : UInt8) (r : Bytes) (h : c ≠ 40) : pLiteral (c :: r) = none := by
  unfold pLiteral
  split
  · rename_i heq; injection heq with e _; exact absurd e h
  · rfl

/-- **Names as direct objects, every spelling.** -/
theorem direct_name_complete (n bs rest : Bytes) (fuel depth : Nat) (h : DerivesName n bs)
    (hs : NameStop rest) :
    directObjects (fuel + 1) depth (47 :: bs ++ rest) = .ok (.name n) rest := by
  obtain ⟨a1, a2, a3, a4, a5, a6⟩ := early_alts_fail 47 (bs ++ rest) (by unfold NotKwNum; decide)
  have hn := name_complete n bs rest h hs
  simp only [List.cons_append] at hn ⊢
  unfold directObjects; simp only [a1, a2, a3, a4, a5, a6, hn]

/-- **Literal strings as direct objects, every spelling.** -/
theorem direct_lit_complete (s bs rest : Bytes) (fuel depth : Nat) (h : DerivesLit MAX_BRACKET s bs) :
    directObjects (fuel + 1) depth (40 :: bs ++ 41 :: rest) = .ok (.str s .lit) rest := by
  obtain ⟨a1, a2, a3, a4, a5, a6⟩ := early_alts_fail 40 (bs ++ 41 :: rest) (by unfold NotKwNum; decide)
  have hl := lit_complete s bs rest h
  simp only [List.cons_append] at hl ⊢
  unfold directObjects; simp only [a1, a2, a3, a4, a5, a6, hl, pName_none_first 40 _ (by decide)]

/-- **Hexadecimal strings as direct objects, every spelling.** -/
theorem direct_hex_complete (s bs rest : Bytes) (fuel depth : Nat) (h : DerivesHex s bs) :
    directObjects (fuel + 1) depth (60 :: bs ++ 62 :: rest) = .ok (.str s .hex) rest := by
  obtain ⟨a1, a2, a3, a4, a5, a6⟩ := early_alts_fail 60 (bs ++ 62 :: rest) (by unfold NotKwNum; decide)
  have hh := hexstr_complete s bs rest h
  simp only [List.cons_append] at hh ⊢
  unfold directObjects; simp only [a1, a2, a3, a4, a5, a6, hh, pName_none_first 60 _ (by decide), pLiteral_none_first 60 _ (by decide)]

/-! ### numbers -/

theorem sign_head (sign t : Bytes) (hs : IsSign sign) (hne : sign ≠ []) :
    ∃ c r, sign ++ t = c :: r ∧ (c = 43 ∨ c = 45) := by
  cases hs with
  | none => exact absurd rfl hne
  | plus => exact ⟨43, t, rfl, Or.inl rfl⟩
  | minus => exact ⟨45, t, rfl, Or.inr rfl⟩

theorem kw_fail_numhead (c : UInt8) (r : Bytes) (h : isDigit c = true ∨ c = 43 ∨ c = 45 ∨ c = 46) :
    tag NULL_KW (c :: r) = none ∧ tag TRUE_KW (c :: r) = none ∧ tag FALSE_KW (c :: r) = none := by
  have : c ≠ 110 ∧ c ≠ 116 ∧ c ≠ 102 := by
    rcases h with h | h | h | h
    · refine ⟨?_, ?_, ?_⟩ <;> (intro hc; subst hc; simp [isDigit] at h)
    all_goals (subst h; decide)
  exact ⟨tag_none_first _ 110 c _ r rfl (Ne.symm this.1), tag_none_first _ 116 c _ r rfl (Ne.symm this.2.1),
    tag_none_first _ 102 c _ r rfl (Ne.symm this.2.2)⟩

/-- a real is never taken for the start of a reference -/
theorem pReference_real (bs rest : Bytes) (h : DerivesReal bs) : pReference (bs ++ rest) = none := by
  cases h with
  | mk sign d1 d2 hs h1 h2 hne =>
    by_cases hsn : sign = []
    · subst hsn
      cases d1 with
      | nil => exact pReference_none_first 46 _ (by decide)
      | cons a as =>
        have hd : AllDigits (a :: as) := h1
        simp only [List.nil_append, List.append_assoc, List.cons_append]
        unfold pReference pUnsigned
        have hsp := spanP_append isDigit (a :: as) (46 :: (d2 ++ rest)) hd
          (by intro b r he; injection he with he _; subst he; decide)
        simp only [List.cons_append] at hsp
        simp only [digit1, hsp, Option.bind]
        split
        · rfl
        · rename_i heq
          split at heq
          · injection heq with heq; subst heq
            have hst : space (46 :: (d2 ++ rest)) = 46 :: (d2 ++ rest) :=
              space_stop _ (by intro b r he; injection he with he _; subst he; decide)
            have hd1 := digit1_none_first 46 (d2 ++ rest) (by decide)
            unfold digit1 at hd1
            simp [hst, hd1]
          · cases heq
    · obtain ⟨c, r, hcr, hc⟩ := sign_head sign (d1 ++ [46] ++ d2 ++ rest) hs hsn
      have e : sign ++ d1 ++ [46] ++ d2 ++ rest = sign ++ (d1 ++ [46] ++ d2 ++ rest) := by simp
      rw [e, hcr]
      exact pReference_none_first c r (by rcases hc with rfl | rfl <;> decide)

theorem real_head (bs rest : Bytes) (h : DerivesReal bs) :
    ∃ c r, bs ++ rest = c :: r ∧ (isDigit c = true ∨ c = 43 ∨ c = 45 ∨ c = 46) := by
  cases h with
  | mk sign d1 d2 hs h1 h2 hne =>
    cases hs with
    | plus => exact ⟨43, d1 ++ [46] ++ d2 ++ rest, by simp, Or.inr (Or.inl rfl)⟩
    | minus => exact ⟨45, d1 ++ [46] ++ d2 ++ rest, by simp, Or.inr (Or.inr (Or.inl rfl))⟩
    | none =>
      cases d1 with
      | nil => exact ⟨46, d2 ++ rest, by simp, Or.inr (Or.inr (Or.inr rfl))⟩
      | cons a as => exact ⟨a, as ++ [46] ++ d2 ++ rest, by simp, Or.inl (h1 a (by simp))⟩

/-- **Reals as direct objects, every spelling.** -/
theorem direct_real_complete (bs rest : Bytes) (fuel depth : Nat) (h : DerivesReal bs)
    (hr : NoDigitAhead rest) :
    directObjects (fuel + 1) depth (bs ++ rest) = .ok (.real bs) rest := by
  obtain ⟨c, r, hcr, hc⟩ := real_head bs rest h
  have hk := kw_fail_numhead c r hc
  rw [← hcr] at hk
  obtain ⟨a1, a2, a3⟩ := hk
  unfold directObjects; simp only [a1, a2, a3, pReference_real bs rest h, real_complete bs rest h hr]

/-- what may follow an integer for it to stand alone: no digit, no decimal point, and — after
white space and comments — no digit either (`12 0 R` is a reference, `12 0` followed by
anything else are two integers: that case is not covered here) -/
def IntStop (rest : Bytes) : Prop :=
  NoDigitAhead rest ∧ (∀ r, rest ≠ 46 :: r) ∧ NoDigitAhead (space rest)

theorem pReal_int (i : Int) (bs rest : Bytes) (h : DerivesInt i bs) (hr : NoDigitAhead rest)
    (hdot : ∀ r, rest ≠ 46 :: r) : pReal (bs ++ rest) = none := by
  have key : ∀ (n : Nat) (ds sign : Bytes), DerivesNat n ds →
      (match spanP isDigit (ds ++ rest) with
        | (e1@(_ :: _), 46 :: r1) =>
          let (e2, r2) := spanP isDigit r1
          some (sign ++ e1 ++ [46] ++ e2, r2)
        | ([], 46 :: r1) =>
          match spanP isDigit r1 with
          | ([], _) => none
          | (e2, r2) => some (sign ++ [46] ++ e2, r2)
        | _ => none) = none := by
    intro n ds sign hd
    obtain ⟨hne, had, _⟩ := derivesNat_facts hd
    rw [spanP_append isDigit ds rest had hr]
    split
    · rename_i heq; injection heq with _ e; exact absurd e (hdot _)
    · rename_i heq; injection heq with _ e; exact absurd e (hdot _)
    · rfl
  cases h with
  | unsigned n _ hd hn =>
    obtain ⟨c, r, hcr, hc, h43, h45, _⟩ : ∃ c r, bs ++ rest = c :: r ∧ isDigit c = true ∧ c ≠ 43 ∧ c ≠ 45 ∧ c ≠ 46 := by
      obtain ⟨hne, _, _⟩ := derivesNat_facts hd
      cases hds : bs with
      | nil => exact absurd hds hne
      | cons a as => exact ⟨a, as ++ rest, rfl, first_digit_not_sign hd rest a (as ++ rest) (by rw [hds]; rfl)⟩
    unfold pReal
    rw [hcr, optSign_digit c r ⟨h43, h45⟩, ← hcr]
    exact key n bs [] hd
  | plus n ds hd hn =>
    unfold pReal
    simp only [List.cons_append, optSign]
    exact key n ds [43] hd
  | minus n ds hd hn =>
    unfold pReal
    simp only [List.cons_append, optSign]
    exact key n ds [45] hd

theorem int_head (i : Int) (bs rest : Bytes) (h : DerivesInt i bs) :
    ∃ c r, bs ++ rest = c :: r ∧ (isDigit c = true ∨ c = 43 ∨ c = 45 ∨ c = 46) := by
  cases h with
  | unsigned n _ hd hn =>
    obtain ⟨hne, _, _⟩ := derivesNat_facts hd
    cases hds : bs with
    | nil => exact absurd hds hne
    | cons a as =>
      exact ⟨a, as ++ rest, rfl, Or.inl (first_digit_not_sign hd rest a (as ++ rest) (by rw [hds]; rfl)).1⟩
  | plus n ds hd hn => exact ⟨43, ds ++ rest, rfl, Or.inr (Or.inl rfl)⟩
  | minus n ds hd hn => exact ⟨45, ds ++ rest, rfl, Or.inr (Or.inr (Or.inl rfl))⟩

/-- an integer that stands alone is not taken for the start of a reference -/
theorem pReference_int (i : Int) (bs rest : Bytes) (h : DerivesInt i bs) (hr : NoDigitAhead rest)
    (hsp : NoDigitAhead (space rest)) : pReference (bs ++ rest) = none := by
  cases h with
  | unsigned n _ hd hn =>
    obtain ⟨_, _, hv⟩ := derivesNat_facts hd
    have h2 := unsigned_none' U16_MAX (space rest) hsp
    by_cases hle : n ≤ U32_MAX
    · simp [pReference, unsigned_complete hd U32_MAX hle rest hr, h2]
    · have : pUnsigned U32_MAX (bs ++ rest) = none := by
        simp [pUnsigned, digit1_complete hd rest hr, hv, hle]
      simp [pReference, this]
  | plus n ds hd hn => exact pReference_none_first 43 _ (by decide)
  | minus n ds hd hn => exact pReference_none_first 45 _ (by decide)

/-- **Integers as direct objects, every spelling** (standing alone: see `IntStop`). -/
theorem direct_int_complete (i : Int) (bs rest : Bytes) (fuel depth : Nat) (h : DerivesInt i bs)
    (hr : IntStop rest) :
    directObjects (fuel + 1) depth (bs ++ rest) = .ok (.int i) rest := by
  obtain ⟨c, r, hcr, hc⟩ := int_head i bs rest h
  have hk := kw_fail_numhead c r hc
  rw [← hcr] at hk
  obtain ⟨a1, a2, a3⟩ := hk
  unfold directObjects
  simp only [a1, a2, a3, pReference_int i bs rest h hr.1 hr.2.2, pReal_int i bs rest h hr.1 hr.2.1,
    int_complete i bs rest h hr.1]

/-! ### references -/

/-- white space / comments that really separate two numerals: derivable and not empty -/
def IsGap (sp : Bytes) : Prop := DerivesSpace sp ∧ sp ≠ []

theorem gap_head (sp t : Bytes) (h : IsGap sp) : NoDigitAhead (sp ++ t) := by
  obtain ⟨hd, hne⟩ := h
  cases hd with
  | nil => exact absurd rfl hne
  | ws b bs hb _ =>
    intro c r he; simp only [List.cons_append] at he; injection he with he _; subst he
    cases hdg : isDigit b with
    | false => rfl
    | true => rw [digit_not_ws' b hdg] at hb; cases hb
  | comment body e bs _ _ _ =>
    intro c r he; simp only [List.cons_append, List.append_assoc] at he; injection he with he _; subst he; decide

/-- **References, every spelling.** Object number, generation number and the keyword `R`,
any numerals (leading zeros) within `u32` / `u16`, separated by ANY non-empty white space /
comments between the numbers and ANY (possibly empty) white space / comments before `R`. -/
theorem reference_complete (n g : Nat) (d1 sp1 d2 sp2 rest : Bytes) (h1 : DerivesNat n d1)
    (hn : n ≤ 4294967295) (h2 : DerivesNat g d2) (hg : g ≤ 65535) (hs1 : IsGap sp1)
    (hs2 : DerivesSpace sp2) :
    pReference (d1 ++ sp1 ++ d2 ++ sp2 ++ 82 :: rest) = some (.ref n g, rest) := by
  have eq0 : d1 ++ sp1 ++ d2 ++ sp2 ++ 82 :: rest = d1 ++ (sp1 ++ (d2 ++ (sp2 ++ 82 :: rest))) := by simp
  have hstop : SpaceStop (82 :: rest) := by intro b r he; injection he with he _; subst he; decide
  have hd2 : ∃ c r, d2 ++ (sp2 ++ 82 :: rest) = c :: r ∧ isDigit c = true := by
    obtain ⟨hne, hd, _⟩ := derivesNat_facts h2
    cases d2 with
    | nil => exact absurd rfl hne
    | cons a as => exact ⟨a, _, rfl, hd a (by simp)⟩
  obtain ⟨c, r, hcr, hc⟩ := hd2
  have hstop2 : SpaceStop (d2 ++ (sp2 ++ 82 :: rest)) := by
    rw [hcr]; intro b r' he; injection he with he _; subst he
    exact ⟨digit_not_ws' _ hc, by intro h37; rw [h37] at hc; simp [isDigit] at hc⟩
  have hnd2 : NoDigitAhead (sp2 ++ 82 :: rest) := by
    clear hstop2 hcr eq0
    cases hs2 with
    | nil => intro b r' he; simp only [List.nil_append] at he; injection he with he _; subst he; decide
    | ws b bs hb hbs => exact gap_head _ _ ⟨.ws b bs hb hbs, by simp⟩
    | comment body e bs hb he hbs => exact gap_head _ _ ⟨.comment body e bs hb he hbs, by simp⟩
  rw [eq0]
  unfold pReference
  rw [unsigned_complete h1 U32_MAX hn _ (gap_head sp1 _ hs1)]
  simp only [Option.bind]
  rw [space_complete sp1 _ hs1.1 hstop2, unsigned_complete h2 U16_MAX hg _ hnd2]
  simp only
  rw [space_complete sp2 _ hs2 hstop]
  rfl

/-- **References as direct objects.** -/
theorem direct_reference_complete (n g : Nat) (d1 sp1 d2 sp2 rest : Bytes) (fuel depth : Nat)
    (h1 : DerivesNat n d1) (hn : n ≤ 4294967295) (h2 : DerivesNat g d2) (hg : g ≤ 65535)
    (hs1 : IsGap sp1) (hs2 : DerivesSpace sp2) :
    directObjects (fuel + 1) depth (d1 ++ sp1 ++ d2 ++ sp2 ++ 82 :: rest) = .ok (.ref n g) rest := by
  have hr := reference_complete n g d1 sp1 d2 sp2 rest h1 hn h2 hg hs1 hs2
  obtain ⟨hne, hd, _⟩ := derivesNat_facts h1
  cases hds : d1 with
  | nil => exact absurd hds hne
  | cons a as =>
    rw [hds] at hr hd
    have hk := kw_fail_numhead a (as ++ sp1 ++ d2 ++ sp2 ++ 82 :: rest) (Or.inl (hd a (by simp)))
    obtain ⟨a1, a2, a3⟩ := hk
    simp only [List.cons_append] at hr a1 a2 a3 ⊢
    unfold directObjects
    simp only [a1, a2, a3, hr]

/-! ### keywords -/

theorem direct_null (rest : Bytes) (fuel depth : Nat) :
    directObjects (fuel + 1) depth (NULL_KW ++ rest) = .ok .null rest := by
  unfold directObjects; simp [NULL_KW, tag]

theorem direct_true (rest : Bytes) (fuel depth : Nat) :
    directObjects (fuel + 1) depth (TRUE_KW ++ rest) = .ok (.bool true) rest := by
  unfold directObjects; simp [NULL_KW, TRUE_KW, tag]

theorem direct_false (rest : Bytes) (fuel depth : Nat) :
    directObjects (fuel + 1) depth (FALSE_KW ++ rest) = .ok (.bool false) rest := by
  unfold directObjects; simp [NULL_KW, TRUE_KW, FALSE_KW, tag]

/-! ### `parser::direct_object`: the object and the white space / comments after it -/

/-- whatever `_direct_objects` reads (at every fuel and depth) in front of derivable white
space / comments and a next token, `direct_object` returns with that space skipped -/
theorem parseDirect_of_direct (inp sp rest : Bytes) (o : Obj)
    (h : ∀ fuel depth, directObjects (fuel + 1) depth inp = .ok o (sp ++ rest))
    (hsp : DerivesSpace sp) (hst : SpaceStop rest) : parseDirect inp = some (o, rest) := by
  unfold parseDirect directObject
  simp only [h, space_complete sp rest hsp hst]

/-- e.g. a name, in any spelling, followed by any white space / comments and another token -/
theorem parseDirect_name (n bs sp rest : Bytes) (h : DerivesName n bs) (hsp : DerivesSpace sp)
    (hst : SpaceStop rest) (hstop : NameStop (sp ++ rest)) :
    parseDirect (47 :: bs ++ (sp ++ rest)) = some (.name n, rest) :=
  parseDirect_of_direct _ sp rest _ (fun fuel depth => direct_name_complete n bs (sp ++ rest) fuel depth h hstop)
    hsp hst

theorem parseDirect_lit (s bs sp rest : Bytes) (h : DerivesLit MAX_BRACKET s bs) (hsp : DerivesSpace sp)
    (hst : SpaceStop rest) : parseDirect (40 :: bs ++ 41 :: (sp ++ rest)) = some (.str s .lit, rest) :=
  parseDirect_of_direct _ sp rest _ (fun fuel depth => direct_lit_complete s bs (sp ++ rest) fuel depth h) hsp hst

theorem parseDirect_hex (s bs sp rest : Bytes) (h : DerivesHex s bs) (hsp : DerivesSpace sp)
    (hst : SpaceStop rest) : parseDirect (60 :: bs ++ 62 :: (sp ++ rest)) = some (.str s .hex, rest) :=
  parseDirect_of_direct _ sp rest _ (fun fuel depth => direct_hex_complete s bs (sp ++ rest) fuel depth h) hsp hst

example : IsGap [32, 37, 120, 10] :=
  ⟨.ws 32 _ (by decide) (.comment [120] [10] [] (by intro b hb; simp at hb; subst hb; decide) .lf .nil), by simp⟩
example : IntStop [32, 47, 65] := by
  refine ⟨?_, ?_, ?_⟩
  · intro b r h; injection h with h _; subst h; decide
  · intro r h; injection h with h _; cases h
  · intro b r h
    rw [space_ws_cons 32 _ (by decide), space_stop [47, 65] (by intro b r h; injection h with h _; subst h; decide)] at h
    injection h with h _; subst h; decide

end Lopdf.Grammar
