import LopdfModel.Lemmas.Lex
import LopdfModel.Spec.Grammar
import LopdfModel.Model.Read
/-
  C02 — completeness of the lexer with respect to the declarative grammar: EVERY legal
  spelling is read to the value it denotes (`Derives… x bs → parse (bs ++ rest) = (x, rest)`).
  Proved: names (`name_complete`), hexadecimal strings (`hexstr_complete`), cross-reference
  merge order (`merge_keeps_newest`, shared with C07).
  Not yet proved (covered by the `load` correspondence and the reference-writer oracle):
  literal strings, numbers, whole objects, cross-reference sections, whole files.
-/
namespace Lopdf
open Gen

theorem hexdigit_regular_nothash : ∀ h : UInt8, isHexDigit h = true →
    (h != 35) = true ∧ isRegular h = true ∧ isWhitespace h = false := by
  apply forall_uint8; decide +kernel

theorem nameBody_complete {n bs : Bytes} (h : DerivesName n bs) : ∀ (fuel : Nat) (rest : Bytes),
    NameStop rest → bs.length + 1 ≤ fuel → nameBody fuel (bs ++ rest) = (n, rest) := by
  induction h with
  | nil => intro fuel rest hs _; exact nameBody_stop fuel rest hs
  | raw b n bs h1 h2 _ ih =>
    intro fuel rest hs hf
    cases fuel with
    | zero => simp at hf
    | succ f =>
      have ih' := ih f rest hs (by simp at hf ⊢; omega)
      simp only [List.cons_append]
      unfold nameBody
      split
      · rename_i heq; injection heq with e1 e2; subst e1; simp at h1
      · rename_i b' r' heq; injection heq with e1 e2; subst e1; subst e2; simp [h1, h2, ih']
      · rename_i heq; cases heq
  | esc h1 h2 n bs hh1 hh2 _ ih =>
    intro fuel rest hs hf
    cases fuel with
    | zero => simp at hf
    | succ f =>
      have ih' := ih f rest hs (by simp at hf ⊢; omega)
      simp only [List.cons_append]
      unfold nameBody
      simp [hh1, hh2, ih']

/-- **Names, every spelling.** Whatever mix of raw bytes and `#hh` escapes (either case) the
producer used, `name` reads the value the spelling denotes. -/
theorem name_complete (n bs rest : Bytes) (h : DerivesName n bs) (hs : NameStop rest) :
    pName (47 :: bs ++ rest) = some (n, rest) := by
  simp only [List.cons_append, pName]
  rw [nameBody_complete h _ rest hs (by simp <;> omega)]

example : DerivesName [65, 32, 66] [65, 35, 50, 48, 35, 52, 50] :=
  .raw 65 _ _ (by decide) (by decide) (.esc 50 48 _ _ (by decide) (by decide) (.esc 52 50 _ _ (by decide) (by decide) .nil))

theorem whiteSpace_allws (w : Bytes) (d : UInt8) (r : Bytes) (hw : AllWs w) (hd : isWhitespace d = false) :
    whiteSpace (w ++ d :: r) = d :: r := by
  unfold whiteSpace
  have := spanP_append isWhitespace w (d :: r) hw (by intro b r' h; injection h with h1 _; subst h1; exact hd)
  rw [this]

theorem hexBody_complete {s bs : Bytes} (h : DerivesHex s bs) : ∀ (fuel : Nat) (rest acc : Bytes),
    bs.length + 1 ≤ fuel →
    ∃ w, AllWs w ∧ hexBody fuel (bs ++ 62 :: rest) none acc = (acc ++ s, w ++ 62 :: rest) := by
  induction h with
  | nil w hw =>
    intro fuel rest acc hf
    cases fuel with
    | zero => simp at hf
    | succ f =>
      refine ⟨w, hw, ?_⟩
      unfold hexBody
      rw [whiteSpace_allws w 62 rest hw (by decide)]
      simp [show isHexDigit 62 = false by decide]
  | odd w1 w2 d hw1 hw2 hd =>
    intro fuel rest acc hf
    obtain ⟨_, _, hnw⟩ := hexdigit_regular_nothash d hd
    match fuel, hf with
    | 0, hf => simp at hf
    | 1, hf => simp at hf
    | f + 2, hf =>
      refine ⟨w2, hw2, ?_⟩
      simp only [List.append_assoc, List.cons_append]
      unfold hexBody
      rw [whiteSpace_allws w1 d _ hw1 hnw]
      simp only [hd, if_true]
      unfold hexBody
      rw [whiteSpace_allws w2 62 rest hw2 (by decide)]
      simp [show isHexDigit 62 = false by decide]
  | pair w1 w2 d1 d2 s bs hw1 hw2 hd1 hd2 _ ih =>
    intro fuel rest acc hf
    obtain ⟨_, _, hn1⟩ := hexdigit_regular_nothash d1 hd1
    obtain ⟨_, _, hn2⟩ := hexdigit_regular_nothash d2 hd2
    match fuel, hf with
    | 0, hf => simp at hf
    | 1, hf => simp at hf
    | f + 2, hf =>
      obtain ⟨w, hw, ihe⟩ := ih f rest (acc ++ [hexVal d1 <<< 4 ||| hexVal d2])
        (by simp only [List.length_append, List.length_cons] at hf; omega)
      refine ⟨w, hw, ?_⟩
      simp only [List.append_assoc, List.cons_append]
      unfold hexBody
      rw [whiteSpace_allws w1 d1 _ hw1 hn1]
      simp only [hd1, if_true]
      unfold hexBody
      rw [whiteSpace_allws w2 d2 _ hw2 hn2]
      simp only [hd2, if_true]
      rw [ihe]; simp

/-- **Hexadecimal strings, every spelling.** Digits of either case, white space anywhere
between them, an odd number of digits: `hexadecimal_string` reads the denoted bytes. -/
theorem hexstr_complete (s bs rest : Bytes) (h : DerivesHex s bs) :
    pHexString (60 :: bs ++ 62 :: rest) = some (s, rest) := by
  simp only [List.cons_append, pHexString]
  obtain ⟨w, hw, he⟩ := hexBody_complete h ((bs ++ 62 :: rest).length + 1) rest []
    (by simp <;> omega)
  rw [he]
  simp [whiteSpace_allws w 62 rest hw (by decide)]

example : DerivesHex [0x4a, 0xb0] [32, 52, 10, 97, 98, 32] :=
  .pair [32] [10] 52 97 _ _ (by intro b hb; simp at hb; subst hb; decide)
    (by intro b hb; simp at hb; subst hb; decide) (by decide) (by decide)
    (.odd [] [32] 98 (by intro b hb; simp at hb) (by intro b hb; simp at hb; subst hb; decide) (by decide))

end Lopdf
