import LopdfModel.Lemmas.SortedObjs
/-
  C01 (file level) — **`load ∘ save` for table saves**, composed down to the objects: given the
  object-level round trips (trailer dictionary, each indirect object) as hypotheses, `Reader::read`
  on the bytes `save` wrote returns a document with the same version, binary mark, trailer and —
  for every object id — the same object.
-/
namespace Lopdf.FileRT
open Lopdf Gen

/-! ### the writer records where each object's full text stands -/

def ObjAt (out : Bytes) (off n g : Nat) (o : Obj) : Prop := writeIndirect n g o <+: out.drop off

theorem ObjAt_append (out w : Bytes) (off n g : Nat) (o : Obj) (h : ObjAt out off n g o) :
    ObjAt (out ++ w) off n g o := by
  unfold ObjAt at *
  rw [List.drop_append]
  exact List.IsPrefix.trans h (List.prefix_append _ _)

/-- not an object-stream container (those make the reader unpack members) -/
def NotObjStm : Obj → Prop
  | .stream d _ => Dict.getTypeIs d OBJSTM = false
  | _ => True

/-- every recorded entry lies inside the output and names a kept object of `all` whose complete
text `n g obj … endobj` stands at the recorded offset -/
def Recorded (out : Bytes) (x : XrefMap) (all : Objects) : Prop :=
  ∀ n off g, x.get n = some (off, g) →
    off ≤ out.length ∧ ∃ o, all.get (n, g) = some o ∧ NotObjStm o ∧ ObjAt out off n g o

theorem Recorded_append (out w : Bytes) (x : XrefMap) (all : Objects) (h : Recorded out x all) :
    Recorded (out ++ w) x all := by
  intro n off g hg
  obtain ⟨h1, o, h2, h3, h4⟩ := h n off g hg
  exact ⟨by simp only [List.length_append]; omega, o, h2, h3, ObjAt_append _ _ _ _ _ _ h4⟩

theorem not_objstm_of_kept (d : Dict) (c : Bytes) (h : skippedOnSave (.stream d c) = false) :
    Dict.getTypeIs d OBJSTM = false := by
  unfold Dict.getTypeIs
  unfold skippedOnSave Dict.getType at h
  cases hn : (d.get TYPE).bind Obj.asName with
  | none => rfl
  | some n =>
    simp only [hn] at h
    simp only
    cases hb : (n == OBJSTM) with
    | false => rfl
    | true =>
      have : n = OBJSTM := by simpa using hb
      subst this
      simp at h

theorem notObjStm_of_kept (o : Obj) (h : skippedOnSave o = false) : NotObjStm o := by
  cases o with
  | stream d c => exact not_objstm_of_kept d c h
  | _ => trivial

theorem writeObjects_recorded (all : Objects) : ∀ (os : Objects) (out : Bytes) (x : XrefMap),
    Recorded out x all → (∀ p ∈ os, all.get p.1 = some p.2) →
    (writeObjects os out x).1.length < 4294967296 →
    Recorded (writeObjects os out x).1 (writeObjects os out x).2 all := by
  intro os
  induction os with
  | nil => intro out x h _ _; simpa [writeObjects] using h
  | cons p rest ih =>
    intro out x h hall hlen
    obtain ⟨⟨n, g⟩, o⟩ := p
    have hp := hall ((n, g), o) (by simp)
    simp only at hp
    simp only [writeObjects] at hlen ⊢
    split
    · rename_i hs; simp only [hs, if_true] at hlen
      exact ih out x h (fun q hq => hall q (by simp [hq])) hlen
    · rename_i hs
      have hs' : skippedOnSave o = false := by simpa using hs
      simp only [hs, Bool.false_eq_true, if_false] at hlen
      apply ih _ _ _ (fun q hq => hall q (by simp [hq])) hlen
      have hpre := writeObjects_prefix rest (out ++ writeIndirect n g o)
        (x.insert n (out.length % 4294967296, g))
      have hl : out.length < 4294967296 := by
        have := hpre.length_le
        simp only [List.length_append] at this
        omega
      intro m off g' hget
      by_cases hm : m = n
      · subst hm
        rw [XrefMap.get_insert_same] at hget
        injection hget with hget
        injection hget with h1 h2
        subst h1; subst h2
        rw [Nat.mod_eq_of_lt hl]
        refine ⟨by simp only [List.length_append]; omega, o, hp, notObjStm_of_kept o hs', ?_⟩
        unfold ObjAt
        rw [List.drop_left]
        exact List.prefix_refl _
      · rw [XrefMap.get_insert_other _ _ _ _ hm] at hget
        exact Recorded_append _ _ _ _ h m off g' hget

theorem writeObjects_get_other : ∀ (os : Objects) (out : Bytes) (x : XrefMap) (n : Nat),
    n ∉ os.map (·.1.1) → (writeObjects os out x).2.get n = x.get n := by
  intro os
  induction os with
  | nil => intro out x n _; rfl
  | cons p rest ih =>
    intro out x n hn
    obtain ⟨⟨m, g⟩, o⟩ := p
    simp only [List.map_cons, List.mem_cons, not_or] at hn
    simp only [writeObjects]
    split
    · exact ih out x n hn.2
    · rw [ih _ _ n hn.2, XrefMap.get_insert_other _ _ _ _ hn.1]

/-- with distinct object numbers every kept object is recorded under its own number -/
theorem writeObjects_complete : ∀ (os : Objects) (out : Bytes) (x : XrefMap),
    (os.map (·.1.1)).Nodup → ∀ p ∈ os, skippedOnSave p.2 = false →
    ∃ off, (writeObjects os out x).2.get p.1.1 = some (off, p.1.2) := by
  intro os
  induction os with
  | nil => intro out x _ p hp; simp at hp
  | cons q rest ih =>
    intro out x hn p hp hs
    obtain ⟨⟨m, g⟩, o⟩ := q
    simp only [List.map_cons, List.nodup_cons] at hn
    simp only [List.mem_cons] at hp
    rcases hp with hp | hp
    · subst hp
      simp only at hs
      simp only [writeObjects, hs, Bool.false_eq_true, if_false]
      rw [writeObjects_get_other rest _ _ m hn.1, XrefMap.get_insert_same]
      exact ⟨_, rfl⟩
    · simp only [writeObjects]
      split
      · exact ih out x hn.2 p hp hs
      · exact ih _ _ hn.2 p hp hs

/-! ### the object pass on good entries -/

/-- what the object pass does with one in-use entry whose object reads back -/
def stepOs (objs : Objects) (os : LObjects) (e : Nat × XEntry) : LObjects :=
  match e.2 with
  | .normal _ g => os.insert (e.1, g) (.plain ((objs.get (e.1, g)).getD .null))
  | .compressed _ _ => os

def EntryGood (buf : Bytes) (x : XTable) (N : Nat) (objs : Objects) (e : Nat × XEntry) : Prop :=
  ∃ off g o, e.2 = .normal off g ∧ off ≤ buf.length ∧ objs.get (e.1, g) = some o ∧ NotObjStm o ∧
    pIndirect (lengthOf buf x (N + 1) []) none off (buf.drop off) = some ((e.1, g), .plain o)

theorem loadStep_good (buf : Bytes) (x : XTable) (N : Nat) (objs : Objects) (e : Nat × XEntry)
    (os : LObjects) (fs : List Block) (h : EntryGood buf x N objs e) :
    loadStep buf x N (.ok (os, fs)) e = .ok (stepOs objs os e, fs) := by
  obtain ⟨off, g, o, he, hoff, hget, hkept, hp⟩ := h
  have hnot : ¬ (off > buf.length) := by omega
  unfold loadStep stepOs
  simp only [he, hnot, if_false, hp, hget, Option.getD_some]
  cases o with
  | stream d c =>
    have hk' : Dict.getTypeIs d OBJSTM = false := hkept
    simp [hk']
  | _ => rfl

theorem loadStep_fold (buf : Bytes) (x : XTable) (N : Nat) (objs : Objects) :
    ∀ (L : List (Nat × XEntry)) (os : LObjects), (∀ e ∈ L, EntryGood buf x N objs e) →
    L.foldl (loadStep buf x N) (.ok (os, [])) = .ok (L.foldl (stepOs objs) os, []) := by
  intro L
  induction L with
  | nil => intro os _; rfl
  | cons e rest ih =>
    intro os h
    simp only [List.foldl_cons]
    rw [loadStep_good buf x N objs e os [] (h e (by simp))]
    exact ih _ (fun e' h' => h e' (by simp [h']))

def entryIs (id : ObjId) (e : Nat × XEntry) : Bool :=
  match e.2 with
  | .normal _ g => e.1 == id.1 && g == id.2
  | .compressed _ _ => false

theorem stepOs_fold_get (objs : Objects) (id : ObjId) : ∀ (L : List (Nat × XEntry)) (os : LObjects),
    (L.foldl (stepOs objs) os).get id =
      if L.any (entryIs id) then some (.plain ((objs.get id).getD .null)) else os.get id := by
  intro L
  induction L with
  | nil => intro os; simp
  | cons e rest ih =>
    intro os
    obtain ⟨k, v⟩ := e
    simp only [List.foldl_cons, ih, List.any_cons]
    cases v with
    | compressed a b => simp only [stepOs, entryIs, Bool.false_or]
    | normal off g =>
      simp only [stepOs, entryIs, LObjects_get_insert]
      by_cases hid : (k, g) = id
      · subst hid
        simp
      · have : (k == id.1 && g == id.2) = false := by
          cases hb : (k == id.1 && g == id.2) with
          | false => rfl
          | true =>
            simp at hb
            exact absurd (Prod.ext hb.1 hb.2) hid
        simp only [this, Bool.false_or, hid, if_false]

theorem pendingIds_insert_plain (os : LObjects) (id : ObjId) (o : Obj) (h : pendingIds os = []) :
    pendingIds (os.insert id (.plain o)) = [] := by
  induction os with
  | nil => simp [LObjects.insert, pendingIds]
  | cons p rest ih =>
    obtain ⟨i, lo⟩ := p
    cases lo with
    | pending d st => simp [pendingIds] at h
    | plain o' =>
      have hr : pendingIds rest = [] := by simpa [pendingIds] using h
      by_cases hi : i = id
      · simp only [LObjects.insert, hi, if_true]
        simpa [pendingIds] using hr
      · simp only [LObjects.insert, hi, if_false]
        have := ih hr
        simpa [pendingIds] using this

theorem stepOs_fold_pending (objs : Objects) : ∀ (L : List (Nat × XEntry)) (os : LObjects),
    pendingIds os = [] → pendingIds (L.foldl (stepOs objs) os) = [] := by
  intro L
  induction L with
  | nil => intro os h; exact h
  | cons e rest ih =>
    intro os h
    simp only [List.foldl_cons]
    apply ih
    obtain ⟨k, v⟩ := e
    cases v with
    | compressed a b => exact h
    | normal off g => exact pendingIds_insert_plain os _ _ h

theorem keys_map_of_fst (os : LObjects) (G : ObjId × LObj → ObjId × Obj) (hG : ∀ p, (G p).1 = p.1) :
    (os.map G).map (·.1) = os.map (·.1) := by
  rw [List.map_map]
  apply List.map_congr_left
  intro p _
  exact hG p

theorem stepOs_fold_nodup (objs : Objects) : ∀ (L : List (Nat × XEntry)) (os : LObjects),
    (os.map (·.1)).Nodup → ((L.foldl (stepOs objs) os).map (·.1)).Nodup := by
  intro L
  induction L with
  | nil => intro os h; exact h
  | cons e rest ih =>
    intro os h
    simp only [List.foldl_cons]
    apply ih
    obtain ⟨k, v⟩ := e
    cases v with
    | compressed a b => exact h
    | normal off g => exact LObjects_insert_nodup os _ _ h

/-- **the object pass on a table all of whose entries read back**: it succeeds, keeps the
cross-reference data, and holds under each id named by an in-use entry the object read there -/
theorem objectPass_good (arr : List Block → List Block) (arr2 : List ObjId → List ObjId) (harr : arr [] = []) (harr2 : arr2 [] = []) (buf version mark : Bytes)
    (x : XTable) (tr : Dict) (xs : Nat) (objs : Objects)
    (hgood : ∀ e ∈ x.sorted, EntryGood buf x x.sorted.length objs e) :
    ∃ L : Loaded, objectPass arr arr2 buf version mark x tr xs = .ok L ∧ L.version = version ∧ L.binaryMark = mark ∧
      L.trailer = tr ∧ L.xrefStart = xs ∧ L.maxId = x.maxId ∧
      (∀ id, L.objects.get id = if x.sorted.any (entryIs id) then some ((objs.get id).getD .null) else none) ∧
      SortedO L.objects := by
  have hfold := loadStep_fold buf x x.sorted.length objs x.sorted [] hgood
  have hpend := stepOs_fold_pending objs x.sorted [] rfl
  unfold objectPass
  simp only [hfold, harr, mergeBlocksX_nil, hpend, harr2, List.foldl_nil]
  refine ⟨_, rfl, rfl, rfl, rfl, rfl, by simp, ?_, ?_⟩
  rotate_left
  · simp only
    apply (foldr_insertSortedO_sorted _ ?_).1
    have hkeys := stepOs_fold_nodup objs x.sorted [] (by simp)
    refine Eq.mpr (congrArg List.Nodup (keys_map_of_fst _ _ ?_)) hkeys
    intro p
    obtain ⟨i, lo⟩ := p
    simp only
    repeat' split
    all_goals rfl
  intro id
  simp only
  rw [Objects_get_foldr_sorted]
  refine Eq.trans (Objects_get_map _ _ ?_ id) ?_
  · intro p
    obtain ⟨i, lo⟩ := p
    simp only
    repeat' split
    all_goals rfl
  rw [stepOs_fold_get]
  by_cases hany : x.sorted.any (entryIs id) = true
  · simp only [hany, if_true, Option.map_some]
  · simp only [hany, Bool.false_eq_true, if_false, LObjects.get, Option.map_none]

/-! ### `load ∘ save` -/

/-- documents as `lopdf` holds them: one object per number (BTreeMap keyed by id; `save` records
one entry per NUMBER), numbers within `1..max_id`, `u16` generations, no object of a kind that
`save` drops (ObjStm / XRef / Linearized) -/
structure DocWF (d : SDoc) : Prop where
  nodup : (d.objects.map (·.1.1)).Nodup
  range : ∀ p ∈ d.objects, 1 ≤ p.1.1 ∧ p.1.1 ≤ d.maxId
  gens : GensOk d
  kept : ∀ p ∈ d.objects, skippedOnSave p.2 = false

/-- object-level hypothesis (C01 `obj_rt` lifted to `indirect_object`): the text
`n g obj … endobj` of `o` is read back as `o`, whatever follows -/
def IndirectReadsBack (n g : Nat) (o : Obj) : Prop :=
  ∀ (len : ObjId → Option Int) (base : Nat) (rest : Bytes),
    pIndirect len none base (writeIndirect n g o ++ rest) = some ((n, g), .plain o)

theorem Objects_get_mapval (objs : Objects) (f : Obj → Obj) (id : ObjId) :
    Objects.get (objs.map fun p => (p.1, f p.2)) id = (objs.get id).map f := by
  induction objs with
  | nil => rfl
  | cons p rest ih =>
    obtain ⟨i, o⟩ := p
    by_cases h : i = id <;> simp [Objects.get, h, ih]

/-- general form (objects read back as `nf o`, the trailer as `tr'`) of: **`load ∘ save` (table kind, C01 `file_rt` modulo the object-level round trips).** For every
well-formed document `d` saved plainly with a classic cross-reference table (file < 4 GiB,
`max_id + 1 ≤ u32::MAX`, version text without line breaks and valid UTF-8, trailer without
`Prev` / `Encrypt`), if the trailer dictionary and every object read back at the object level
(hypotheses `DictReadsBack`, `IndirectReadsBack` — the C01 object theorems), then `Reader::read`
on the saved bytes succeeds and returns the same version, binary mark and trailer (as `save`
left it, `Size` included), `xref_start` = the offset the writer stored, `max_id ≤` the old one,
and for EVERY object id exactly the object the document held (and nothing for other ids). -/
theorem load_of_save_table_withN (arr : List Block → List Block) (arr2 : List ObjId → List ObjId) (harr : arr [] = []) (harr2 : arr2 [] = []) (nf : Obj → Obj)
    (hnf : ∀ o, NotObjStm o → NotObjStm (nf o)) (d : SDoc) (out : Bytes) (d' : SDoc) (tr' : Dict)
    (hk : d.xrefKind = .table) (h : saveFrom [] d = some (out, d')) (hlen : out.length < 4294967296)
    (hmax : d.maxId + 1 ≤ 4294967295) (hwf : DocWF d)
    (hD : DictReadsBackN d'.trailer tr' (STARTXREF_KW ++ natDigits (bodyOf [] d).length ++ EOF_KW))
    (hsz : tr'.get SIZE = some (.int ((d.maxId + 1 : Nat) : Int)))
    (hobj : ∀ p ∈ d.objects, ∀ (len : ObjId → Option Int) (base : Nat) (rest : Bytes),
      pIndirect len none base (writeIndirect p.1.1 p.1.2 p.2 ++ rest) = some ((p.1.1, p.1.2), .plain (nf p.2)))
    (hv1 : ∀ b ∈ d.version, notEol b = true) (hv2 : validUtf8 d.version = true)
    (hprev : tr'.get PREV = none) (henc : tr'.has ENCRYPT = false) :
    ∃ L : Loaded, loadDocWith arr arr2 out = .ok L ∧ L.version = d.version ∧ L.binaryMark = d.binaryMark ∧
      L.trailer = tr' ∧ L.xrefStart = (bodyOf [] d).length ∧ L.maxId ≤ d.maxId ∧
      (∀ id, L.objects.get id = (d.objects.get id).map nf) ∧ SortedO L.objects := by
  obtain ⟨table, hget, _, hnodup, hload⟩ :=
    load_front_of_save_tableN arr arr2 d out d' tr' hk h hlen hmax hwf.gens hD hsz hv1 hv2 hprev henc
  have hb := body_le_out [] d out d' h
  have hrec0 : Recorded (bodyOf [] d) (xmapOf [] d) d.objects :=
    writeObjects_recorded d.objects d.objects (hdrOf [] d) []
      (by intro n off g hg; simp [XrefMap.get] at hg)
      (fun p hp => Objects_get_of_mem d.objects hwf.nodup p hp)
      (by unfold bodyOf at hb; omega)
  have hrec : Recorded out (xmapOf [] d) d.objects := by
    obtain ⟨hout, _⟩ := saveFrom_table_eq [] d out d' hk h
    rw [hout]
    simp only [List.append_assoc]
    exact Recorded_append _ _ _ _ hrec0
  have hentry : ∀ k v, (k, v) ∈ table → ∃ off g, v = .normal off g ∧ (xmapOf [] d).get k = some (off, g) := by
    intro k v hm
    have h1 := XTable_get_of_mem table hnodup k v hm
    rw [hget k] at h1
    split at h1
    · simp only [normalOf] at h1
      cases hx : (xmapOf [] d).get k with
      | none => simp [hx] at h1
      | some p =>
        obtain ⟨a, b⟩ := p
        simp [hx] at h1
        exact ⟨a, b, h1.symm, rfl⟩
    · cases h1
  have hgood : ∀ e ∈ table.sorted,
      EntryGood out table table.sorted.length (d.objects.map fun p => (p.1, nf p.2)) e := by
    intro e he
    obtain ⟨k, v⟩ := e
    rw [mem_sorted table hnodup] at he
    obtain ⟨off, g, hv, hx⟩ := hentry k v he
    obtain ⟨hoff, o, hog, hkept, hat⟩ := hrec k off g hx
    obtain ⟨rest, hrest⟩ := hat
    refine ⟨off, g, nf o, hv, hoff, by rw [Objects_get_mapval, hog]; rfl, hnf o hkept, ?_⟩
    rw [← hrest]
    exact hobj ((k, g), o) (Objects_mem_of_get d.objects (k, g) o hog) _ _ _
  obtain ⟨L, hL, l1, l2, l3, l4, l5, l6, l7⟩ := objectPass_good arr arr2 harr harr2 out d.version d.binaryMark table tr'
    (bodyOf [] d).length (d.objects.map fun p => (p.1, nf p.2)) hgood
  refine ⟨L, by rw [hload]; exact hL, l1, l2, l3, l4, ?_, ?_, l7⟩
  · rw [l5]
    apply XTable_maxId_le
    intro p hp
    have h1 := XTable_mem_get table p.1 p.2 hp
    rw [hget p.1] at h1
    split at h1
    · omega
    · simp at h1
  · intro id
    rw [l6 id, ← Objects_get_mapval]
    by_cases hany : table.sorted.any (entryIs id) = true
    · simp only [hany, if_true]
      rw [List.any_eq_true] at hany
      obtain ⟨e, he, hid⟩ := hany
      obtain ⟨k, v⟩ := e
      rw [mem_sorted table hnodup] at he
      obtain ⟨off, g, hv, hx⟩ := hentry k v he
      subst hv
      simp only [entryIs, Bool.and_eq_true, beq_iff_eq] at hid
      obtain ⟨hk1, hg1⟩ := hid
      obtain ⟨_, o, hog, _, _⟩ := hrec k off g hx
      have : id = (k, g) := Prod.ext hk1.symm hg1.symm
      subst this
      rw [Objects_get_mapval, hog]; rfl
    · simp only [hany, Bool.false_eq_true, if_false]
      rw [Objects_get_mapval]
      cases hd : d.objects.get id with
      | none => rfl
      | some o =>
        exfalso
        apply hany
        have hm := Objects_mem_of_get d.objects id o hd
        obtain ⟨off, hx⟩ := writeObjects_complete d.objects (hdrOf [] d) [] hwf.nodup (id, o) hm (hwf.kept _ hm)
        obtain ⟨hr1, hr2⟩ := hwf.range _ hm
        simp only at hx hr1 hr2
        have hg2 : table.get id.1 = some (.normal off id.2) := by
          rw [hget id.1]
          have : 1 ≤ id.1 ∧ id.1 < d.maxId + 1 := by omega
          simp only [this, and_self, if_true, normalOf]
          have hx' : (xmapOf [] d).get id.1 = some (off, id.2) := hx
          rw [hx']; rfl
        rw [List.any_eq_true]
        refine ⟨(id.1, .normal off id.2), ?_, by simp [entryIs]⟩
        rw [mem_sorted table hnodup]
        exact XTable_mem_of_get table _ _ hg2

/-- **`load ∘ save` (table kind, C01 `file_rt` modulo the object-level round trips).** For every
well-formed document `d` saved plainly with a classic cross-reference table (file < 4 GiB,
`max_id + 1 ≤ u32::MAX`, version text without line breaks and valid UTF-8, trailer without
`Prev` / `Encrypt`), if the trailer dictionary and every object read back at the object level
(hypotheses `DictReadsBack`, `IndirectReadsBack` — the C01 object theorems), then `Reader::read`
on the saved bytes succeeds and returns the same version, binary mark and trailer (as `save`
left it, `Size` included), `xref_start` = the offset the writer stored, `max_id ≤` the old one,
and for EVERY object id exactly the object the document held (and nothing for other ids). -/
theorem load_of_save_table_with (arr : List Block → List Block) (arr2 : List ObjId → List ObjId) (harr : arr [] = []) (harr2 : arr2 [] = []) (d : SDoc) (out : Bytes) (d' : SDoc)
    (hk : d.xrefKind = .table) (h : saveFrom [] d = some (out, d')) (hlen : out.length < 4294967296)
    (hmax : d.maxId + 1 ≤ 4294967295) (hwf : DocWF d)
    (hD : DictReadsBack d'.trailer (STARTXREF_KW ++ natDigits (bodyOf [] d).length ++ EOF_KW))
    (hobj : ∀ p ∈ d.objects, IndirectReadsBack p.1.1 p.1.2 p.2)
    (hv1 : ∀ b ∈ d.version, notEol b = true) (hv2 : validUtf8 d.version = true)
    (hprev : d.trailer.get PREV = none) (henc : d.trailer.has ENCRYPT = false) :
    ∃ L : Loaded, loadDocWith arr arr2 out = .ok L ∧ L.version = d.version ∧ L.binaryMark = d.binaryMark ∧
      L.trailer = d'.trailer ∧ L.xrefStart = (bodyOf [] d).length ∧ L.maxId ≤ d.maxId ∧
      (∀ id, L.objects.get id = d.objects.get id) ∧ SortedO L.objects := by
  obtain ⟨_, htr⟩ := saveFrom_table_eq [] d out d' hk h
  have k1 : ¬ SIZE = PREV := by decide
  have k2 : ¬ SIZE = ENCRYPT := by decide
  obtain ⟨L, h1, h2, h3, h4, h5, h6, h7, h8⟩ := load_of_save_table_withN arr arr2 harr harr2 id (fun o ho => ho) d out d' d'.trailer
    hk h hlen hmax hwf hD (by rw [htr, Dict.get_set_same]; simp) (fun p hp => hobj p hp) hv1 hv2
    (by rw [htr, Dict_get_set]; simp only [k1, if_false]; exact hprev)
    (by rw [Dict_has_eq, htr, Dict_get_set]; simp only [k2, if_false]; rw [← Dict_has_eq]; exact henc)
  exact ⟨L, h1, h2, h3, h4, h5, h6, fun i => by rw [h7 i]; simp, h8⟩

theorem loadDocOrd_arr_nil (order : Option (List Nat)) :
    (match order with | none => (id : List Block → List Block) | some p => fun bs => permuteBlocks bs p) [] = [] := by
  cases order with
  | none => rfl
  | some p => exact permuteBlocks_nil p

/-- `load_of_save_table_with` for `Reader::read` under every schedule of hook H1 -/
theorem load_of_save_table (order : Option (List Nat)) (d : SDoc) (out : Bytes) (d' : SDoc)
    (hk : d.xrefKind = .table) (h : saveFrom [] d = some (out, d')) (hlen : out.length < 4294967296)
    (hmax : d.maxId + 1 ≤ 4294967295) (hwf : DocWF d)
    (hD : DictReadsBack d'.trailer (STARTXREF_KW ++ natDigits (bodyOf [] d).length ++ EOF_KW))
    (hobj : ∀ p ∈ d.objects, IndirectReadsBack p.1.1 p.1.2 p.2)
    (hv1 : ∀ b ∈ d.version, notEol b = true) (hv2 : validUtf8 d.version = true)
    (hprev : d.trailer.get PREV = none) (henc : d.trailer.has ENCRYPT = false) :
    ∃ L : Loaded, loadDocOrd order out = .ok L ∧ L.version = d.version ∧ L.binaryMark = d.binaryMark ∧
      L.trailer = d'.trailer ∧ L.xrefStart = (bodyOf [] d).length ∧ L.maxId ≤ d.maxId ∧
      (∀ id, L.objects.get id = d.objects.get id) ∧ SortedO L.objects :=
  load_of_save_table_with _ _ (loadDocOrd_arr_nil order) rfl d out d' hk h hlen hmax hwf hD hobj hv1 hv2 hprev henc

end Lopdf.FileRT
