import LopdfModel.Model.Renumber
namespace Lopdf
end Lopdf
