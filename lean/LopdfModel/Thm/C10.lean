import LopdfModel.Lemmas.Move
import LopdfModel.Lemmas.Edit
/-
  C10 — property theorems (renumbering objects preserves the document graph).
  * `traverse_visits_once`, `traverse_closed`, `traverse_eq_reach` (Lemmas/Traverse.lean): the work-list
    traversal rewrites the trailer and every pushed object exactly once, never pushes an id twice,
    and the pushed ids are exactly the reachability closure; termination is `travLoop`'s definition (no fuel).
  * `renumber_dense`: numbers are start … start+n-1, `max_id` is the last (guard 1 ≤ start+n ≤ u32::MAX).
  * `rename_pass_iso_partial`: one move+rename pass is an isomorphism under explicit guards.
  * `bookmark_seq_partial` / `bookmark_chain_witness`, `dangling_capture_witness`,
    `start0_empty_panics`, `overflow_panics`: the false parts of the full statement, with proved witnesses.
  FULL STATEMENT (false of the code, kept visible): for all documents and start values there is a
  bijection rho on ids with objects'(rho id) = rename rho (objects id) for reachable ids, trailer' =
  rename rho trailer, bookmark targets renamed by rho, dangling references still dangling.
-/
namespace Lopdf

def Outcome.toOption {α} : Outcome α → Option α
  | .ok a => some a
  | _ => none

private def nm (s : String) : Bytes := s.toUTF8.toList
/-- ids 1..5: catalog 1, page 2, pages-root 3, page 4, info 5; one bookmark on page (2,0) -/
def wdoc : Doc :=
  { trailer := [(ROOT, .ref 1 0), ([73,110,102,111], .ref 5 0)],
    objects := [((1,0), .dict [(TYPE, .name [67,97,116,97,108,111,103]), (PAGES, .ref 3 0)]),
                ((2,0), .dict [(TYPE, .name PAGE), ([80,97,114,101,110,116], .ref 3 0)]),
                ((3,0), .dict [(TYPE, .name PAGES), (KIDS, .arr [.ref 2 0, .ref 4 0])]),
                ((4,0), .dict [(TYPE, .name PAGE), ([80,97,114,101,110,116], .ref 3 0)]),
                ((5,0), .dict [])],
    maxId := 5, bookmarks := [1], bmTable := [(1, { children := [], page := (2,0) })] }

theorem wdoc_pairs : densePairs (sortBy idLeE wdoc.objects.keys) 2 [] =
    some ([((1,0),(2,0)), ((2,0),(3,0)), ((3,0),(4,0)), ((4,0),(5,0)), ((5,0),(6,0))], 7) := by decide

/-- (F-C10-a fixed) Dense pass with start 2 on ids 1..5: the page object (2,0) moves to (3,0) and the
bookmark that pointed at page (2,0) follows it — targets are renamed once, through the complete map. -/
theorem bookmark_follows_example :
    ((densePass wdoc 2).toOption.bind fun d' => (d'.bmTable.get 1).map (·.page)) = some (3, 0) ∧
    lookupId [((1,0),(2,0)), ((2,0),(3,0)), ((3,0),(4,0)), ((4,0),(5,0)), ((5,0),(6,0))] (2,0) = some (3,0) := by
  constructor
  · unfold densePass
    rw [wdoc_pairs]
    simp only [Outcome.toOption]
    decide
  · decide

/-- **bookmark targets follow the renaming**: after a move pass every bookmark's page is `rho` of what it was -/
theorem bookmarks_follow_rho (bks : List Nat) (os : Objects) (bm : BkTable) (pairs : List (ObjId × ObjId))
    (h1 : (pairs.map (·.1)).Nodup) (h2 : ∀ p ∈ pairs, os.get p.1 ≠ none) :
    (movePass bks os bm pairs).bm = bm.map fun (i, b) => (i, { b with page := (lookupId pairs b.page).getD b.page }) := by
  have hrep := (movePass_get bks os bm pairs h1 h2).2
  have hbm : ∀ (pairs : List (ObjId × ObjId)) (st : MoveSt), (pairs.foldl (moveStep bks) st).bm = st.bm := by
    intro pairs
    induction pairs with
    | nil => intro st; rfl
    | cons p rest ih => intro st; simp only [List.foldl_cons]; rw [ih]; unfold moveStep moveObj; split <;> rfl
  unfold movePass at hrep ⊢
  simp only at hrep ⊢
  rw [hrep, hbm]; rfl
/-- **C10, dense numbering.** For any document (n objects, distinct keys) and any starting number for which
all new ids fit (`start + n - 1 ≤ u32::MAX`, stated as `start + n ≤ u32::MAX + 1`; no condition when the
document is empty) the dense pass returns; afterwards the object numbers are exactly `start … start+n-1`
(each new id of the assignment holds an object and nothing else does) and `max_id` is the last number
(`start - 1`, or 0, for an empty document). -/
theorem renumber_dense (d1 : Doc) (start : Nat) (hnd : d1.objects.keys.Nodup)
    (hhi : start + d1.objects.length ≤ U32_MAXE + 1) :
    ∃ d', densePass d1 start = .ok d' ∧ d'.maxId = start + d1.objects.length - 1 ∧
      (assign (sortBy idLeE d1.objects.keys) start).map (fun p => p.2.1) = List.range' start d1.objects.length ∧
      ∀ k, (d'.objects.get k).isSome ↔ ∃ p ∈ assign (sortBy idLeE d1.objects.keys) start, p.2 = k := by
  have hperm := sortBy_perm idLeE d1.objects.keys
  have hlen : (sortBy idLeE d1.objects.keys).length = d1.objects.length := by
    rw [hperm.length_eq]; simp [Objects.keys]
  have hn : (sortBy idLeE d1.objects.keys).Nodup := hperm.nodup_iff.mpr hnd
  have hk : ∀ k, k ∈ sortBy idLeE d1.objects.keys ↔ (d1.objects.get k).isSome := by
    intro k; rw [hperm.mem_iff]; exact Objects.mem_keys_iff _ _
  unfold densePass
  rw [densePairs_eq _ _ _ (by rw [hlen]; exact hhi)]
  simp only [List.nil_append, hlen]
  refine ⟨_, rfl, rfl, ?_, ?_⟩
  · rw [assign_numbers, hlen]
  · intro k
    simp only
    rw [← dense_move_isSome d1.bookmarks d1.objects d1.bmTable _ start hn hk k]
    rw [(traverse_visits_once _ _ _).2.2 k]
    split <;> simp

/-- (F-C10-c fixed) start 0 on an empty document returns, with `max_id = 0` -/
theorem start0_empty_ok (tr : Dict) (bks : List Nat) (bm : BkTable) (m : Nat) :
    ∃ d', densePass ⟨tr, [], m, bks, bm⟩ 0 = .ok d' ∧ d'.maxId = 0 := by
  obtain ⟨d', h1, h2, _⟩ := renumber_dense ⟨tr, [], m, bks, bm⟩ 0 (by simp [Objects.keys]) (by simp)
  exact ⟨d', h1, by simpa using h2⟩

/-- (F-C10-c fixed) 5 objects from `u32::MAX - 4`: every id fits, the call returns and `max_id = u32::MAX` -/
theorem last_id_u32max_ok : ∃ d', densePass wdoc (U32_MAXE - 4) = .ok d' ∧ d'.maxId = U32_MAXE := by
  obtain ⟨d', h1, h2, _⟩ := renumber_dense wdoc (U32_MAXE - 4) (by decide) (by decide)
  exact ⟨d', h1, by rw [h2]; decide⟩

/-- domain boundary: when the ids do NOT fit (`start + n - 1 > u32::MAX`) the addition that computes the
number overflows (overflow checks on) — no correct result exists -/
theorem ids_do_not_fit_panics : densePass wdoc (U32_MAXE - 3) = .panic "add" := by
  have : densePairs (sortBy idLeE wdoc.objects.keys) (U32_MAXE - 3) [] = none := by decide
  simp [densePass, this]

/-- **F-C10-b (counter-witness).** Objects 1,2,3,4,8 and a dangling `5 0 R`: the reference resolves to
nothing before; the rename action leaves it as it is; after the dense pass (start 1) id (5,0) holds an object. -/
def wdoc2 : Doc :=
  { wdoc with objects := [((1,0), .dict [(TYPE, .name [67,97,116,97,108,111,103]), (PAGES, .ref 3 0), ([68], .ref 5 0)]),
                ((2,0), .dict [(TYPE, .name PAGE)]), ((3,0), .dict [(TYPE, .name PAGES), (KIDS, .arr [.ref 2 0, .ref 4 0])]),
                ((4,0), .dict [(TYPE, .name PAGE)]), ((8,0), .dict [])],
              maxId := 8, bookmarks := [], bmTable := [] }

theorem dangling_capture_witness :
    wdoc2.objects.get (5, 0) = none ∧
    (∃ pairs n, densePairs (sortBy idLeE wdoc2.objects.keys) 1 [] = some (pairs, n) ∧
        (renameFn pairs (.ref 5 0)).asRef = some (5, 0)) ∧
    ∃ d', densePass wdoc2 1 = .ok d' ∧ (d'.objects.get (5, 0)).isSome := by
  refine ⟨by decide, ⟨[((8,0),(5,0))], 6, by decide, by decide⟩, ?_⟩
  obtain ⟨d', h1, _, _, h4⟩ := renumber_dense wdoc2 1 (by decide) (by decide)
  exact ⟨d', h1, (h4 (5,0)).mpr (by decide)⟩

/-! ### bookmarks: what is true, and when -/

/-- what `renumber_bookmarks` called pair by pair does to one bookmark target -/
def seqRename (pairs : List (ObjId × ObjId)) (p : ObjId) : ObjId :=
  pairs.foldl (fun p on => if p = on.1 then on.2 else p) p

/-- what it should do: the renaming itself -/
def rhoFn (pairs : List (ObjId × ObjId)) (p : ObjId) : ObjId := (lookupId pairs p).getD p

/-- no new id is the old id of a later pair -/
def NoChain : List (ObjId × ObjId) → Prop
  | [] => True
  | on :: rest => on.2 ∉ rest.map (·.1) ∧ NoChain rest

def NoChain.dec : (l : List (ObjId × ObjId)) → Decidable (NoChain l)
  | [] => isTrue trivial
  | on :: rest =>
    match NoChain.dec rest with
    | isTrue h2 => if h1 : on.2 ∉ rest.map (·.1) then isTrue ⟨h1, h2⟩ else isFalse (fun h => h1 h.1)
    | isFalse h2 => isFalse (fun h => h2 h.2)
instance : DecidablePred NoChain := NoChain.dec

theorem seqRename_fix (pairs : List (ObjId × ObjId)) (p : ObjId) (h : p ∉ pairs.map (·.1)) : seqRename pairs p = p := by
  induction pairs with
  | nil => rfl
  | cons on rest ih =>
    simp only [List.map_cons, List.mem_cons, not_or] at h
    simp only [seqRename, List.foldl_cons, h.1, if_false]
    exact ih h.2

/-- **C10, bookmarks (partial).** When no new id equals a later old id, renaming pair by pair is the
renaming: a bookmark target `p` ends at `rho p`. (False without the guard: `bookmark_chain_witness`.) -/
theorem bookmark_seq_partial (pairs : List (ObjId × ObjId)) (h : NoChain pairs) (p : ObjId) :
    seqRename pairs p = rhoFn pairs p := by
  induction pairs generalizing p with
  | nil => rfl
  | cons on rest ih =>
    obtain ⟨o, n⟩ := on
    simp only [NoChain] at h
    simp only [seqRename, List.foldl_cons, rhoFn, lookupId]
    by_cases e : p = o
    · subst e; simp only [if_true, Option.getD_some]
      exact seqRename_fix rest n h.1
    · have e' : ¬ o = p := fun x => e x.symm
      simp only [e, e', if_false]
      exact ih h.2 p

example : NoChain [((5,0),(2,0)), ((9,0),(3,0))] := by decide
example : ¬ NoChain [((1,0),(2,0)), ((2,0),(3,0))] := by decide
example : seqRename [((1,0),(2,0)), ((2,0),(3,0))] (1,0) = (3,0) ∧ rhoFn [((1,0),(2,0)), ((2,0),(3,0))] (1,0) = (2,0) := by decide

/-- the model's bookmark update on a table of root bookmarks without children is `seqRename` of the target -/
theorem updatePages_single (t : Nat) (pg old new : ObjId) :
    renumberBookmarks [t] [(t, { children := [], page := pg })] old new =
      [(t, { children := [], page := if pg = old then new else pg })] := by
  simp [renumberBookmarks, updatePages, BkTable.get, BkTable.setPage]
  split <;> simp_all

/-! ### the renaming as a graph isomorphism (one pass) -/

mutual
/-- the object with every reference renamed by `f` -/
def mapRefs (f : ObjId → ObjId) : Obj → Obj
  | .arr items => .arr (mapRefsL f items)
  | .dict es => .dict (mapRefsD f es)
  | .stream es c => .stream (mapRefsD f es) c
  | .ref n g => .ref (f (n, g)).1 (f (n, g)).2
  | o => o
def mapRefsL (f : ObjId → ObjId) : List Obj → List Obj
  | [] => []
  | x :: xs => mapRefs f x :: mapRefsL f xs
def mapRefsD (f : ObjId → ObjId) : List (Bytes × Obj) → List (Bytes × Obj)
  | [] => []
  | (k, v) :: es => (k, mapRefs f v) :: mapRefsD f es
end

theorem renameFn_ref (m : List (ObjId × ObjId)) (n g : Nat) :
    renameFn m (.ref n g) = .ref (rhoFn m (n, g)).1 (rhoFn m (n, g)).2 := by
  simp only [renameFn, rhoFn]
  cases lookupId m (n, g) <;> simp

/-- the traversal with the rename action computes exactly `mapRefs rho` -/
theorem deep_rename (m : List (ObjId × ObjId)) :
    (∀ o, deepObj (renameAct m) o = mapRefs (rhoFn m) o) ∧
    (∀ es, deepDict (renameAct m) es = mapRefsD (rhoFn m) es) ∧
    (∀ items, deepList (renameAct m) items = mapRefsL (rhoFn m) items) := by
  apply deepObj.mutual_induct (renameAct m)
    (motive1 := fun o => deepObj (renameAct m) o = mapRefs (rhoFn m) o)
    (motive2 := fun es => deepDict (renameAct m) es = mapRefsD (rhoFn m) es)
    (motive3 := fun items => deepList (renameAct m) items = mapRefsL (rhoFn m) items)
  · intro o items h ih
    rw [deepObj_arr h, ih]
    cases o <;> simp [renameAct, renameFn] at h
    · subst h; simp [mapRefs]
    · split at h <;> cases h
  · intro o es h ih
    rw [deepObj_dict h, ih]
    cases o <;> simp [renameAct, renameFn] at h
    · subst h; simp [mapRefs]
    · split at h <;> cases h
  · intro o es c h ih
    rw [deepObj_stream h, ih]
    cases o <;> simp [renameAct, renameFn] at h
    · obtain ⟨h1, h2⟩ := h; subst h1; subst h2; simp [mapRefs]
    · split at h <;> cases h
  · intro o h1 h2 h3
    rw [deepObj_other (fun i hh => h1 i hh) (fun i hh => h2 i hh) (fun i c hh => h3 i c hh)]
    cases o with
    | arr items => exact (h1 items (by simp [renameAct, renameFn])).elim
    | dict es => exact (h2 es (by simp [renameAct, renameFn])).elim
    | stream es c => exact (h3 es c (by simp [renameAct, renameFn])).elim
    | ref n g => simp only [renameAct, renameFn_ref, mapRefs]
    | _ => simp [renameAct, renameFn, mapRefs]
  · rw [deepDict]; simp [mapRefsD]
  · intro k v es ih1 ih2; rw [deepDict]; simp [mapRefsD, ih1, ih2]
  · rw [deepList]; simp [mapRefsL]
  · intro x xs ih1 ih2; rw [deepList]; simp [mapRefsL, ih1, ih2]

theorem lookupId_mem (m : List (ObjId × ObjId)) (k v : ObjId) (h : lookupId m k = some v) : (k, v) ∈ m := by
  induction m with
  | nil => simp [lookupId] at h
  | cons p rest ih =>
    obtain ⟨a, b⟩ := p
    simp only [lookupId] at h
    by_cases e : a = k
    · simp [e] at h; simp [e, h]
    · simp [e] at h; simp [ih h]

theorem lookupId_none (m : List (ObjId × ObjId)) (k : ObjId) (h : k ∉ m.map (·.1)) : lookupId m k = none := by
  induction m with
  | nil => rfl
  | cons p rest ih =>
    obtain ⟨a, b⟩ := p
    simp only [List.map_cons, List.mem_cons, not_or] at h
    have : ¬ a = k := fun e => h.1 e.symm
    simp [lookupId, this, ih h.2]

theorem lookupId_some (m : List (ObjId × ObjId)) (k : ObjId) (h : k ∈ m.map (·.1)) : ∃ v, lookupId m k = some v := by
  induction m with
  | nil => simp at h
  | cons p rest ih =>
    obtain ⟨a, b⟩ := p
    simp only [lookupId]
    by_cases e : a = k
    · simp [e]
    · simp only [e, if_false]; apply ih
      simp only [List.map_cons, List.mem_cons] at h
      rcases h with h | h
      · exact absurd h.symm e
      · exact h

theorem eq_of_nodup_map_snd {l : List (ObjId × ObjId)} (hn : (l.map (·.2)).Nodup) {p q : ObjId × ObjId}
    (hp : p ∈ l) (hq : q ∈ l) (e : p.2 = q.2) : p = q := by
  induction l with
  | nil => simp at hp
  | cons x xs ih =>
    simp only [List.map_cons, List.nodup_cons] at hn
    rcases List.mem_cons.mp hp with rfl | hp' <;> rcases List.mem_cons.mp hq with rfl | hq'
    · rfl
    · exact absurd (e ▸ List.mem_map_of_mem hq') hn.1
    · exact absurd (e ▸ List.mem_map_of_mem hp') hn.1
    · exact ih hn.2 hp' hq'

/-- **C10, one renaming pass is an isomorphism (partial: explicit guards).**  For pairs `old ↦ new` with
distinct existing old ids, distinct new ids, and no new id equal to a key that stays: after moving the
objects and traversing with the rename action, the trailer is the original with every reference renamed
by `rho`, and the object of every old id `old` sits at `rho old` — renamed by `rho` when the traversal
reached it, untouched otherwise.  No object is lost, none is duplicated. -/
theorem rename_pass_iso_partial (bks : List Nat) (os : Objects) (bm : BkTable) (tr : Dict) (pairs : List (ObjId × ObjId))
    (h1 : (pairs.map (·.1)).Nodup) (h2 : ∀ p ∈ pairs, os.get p.1 ≠ none)
    (h3 : (pairs.map (·.2)).Nodup)
    (h4 : ∀ p ∈ pairs, ∀ k, (os.get k).isSome → k ∉ pairs.map (·.1) → p.2 ≠ k) :
    (traverse (renameAct (movePass bks os bm pairs).replace) tr (movePass bks os bm pairs).objects).1
        = mapRefsD (rhoFn pairs) tr ∧
    ∀ old o, os.get old = some o →
      (traverse (renameAct (movePass bks os bm pairs).replace) tr (movePass bks os bm pairs).objects).2.1.get (rhoFn pairs old)
        = some (if rhoFn pairs old ∈
                    (traverse (renameAct (movePass bks os bm pairs).replace) tr (movePass bks os bm pairs).objects).2.2
                then mapRefs (rhoFn pairs) o else o) := by
  obtain ⟨hget, hrep⟩ := movePass_get bks os bm pairs h1 h2
  rw [hrep]
  obtain ⟨v1, v2, v3⟩ := traverse_visits_once (renameAct pairs) tr (movePass bks os bm pairs).objects
  refine ⟨by rw [v1, (deep_rename pairs).2.1], ?_⟩
  intro old o ho
  have hmoved : (movePass bks os bm pairs).objects.get (rhoFn pairs old) = some o := by
    rw [hget]
    by_cases hin : old ∈ pairs.map (·.1)
    · obtain ⟨new, hnew⟩ := lookupId_some pairs old hin
      have hmem := lookupId_mem pairs old new hnew
      have hr : rhoFn pairs old = new := by simp [rhoFn, hnew]
      rw [hr]
      obtain ⟨o', ho'⟩ := srcOf_some_of_mem pairs new old hmem
      have := eq_of_nodup_map_snd h3 (srcOf_mem _ _ _ ho') hmem rfl
      simp at this
      rw [ho', this]; exact ho
    · have hr : rhoFn pairs old = old := by simp [rhoFn, lookupId_none pairs old hin]
      rw [hr]
      cases hs : srcOf pairs old with
      | some o' =>
        exact absurd rfl (h4 _ (srcOf_mem _ _ _ hs) old (by simp [ho]) hin)
      | none => simp [hin, ho]
  rw [v3, hmoved]
  split <;> simp [(deep_rename pairs).1]

example : (([((5,0),(2,0))] : List (ObjId × ObjId)).map (·.1)).Nodup ∧ (([((5,0),(2,0))] : List (ObjId × ObjId)).map (·.2)).Nodup := by decide


/-! ### the whole call as an isomorphism when no page reordering is needed -/

theorem denseSpec_sublist_assign (ids : List ObjId) (s : Nat) : (denseSpec ids s).Sublist (assign ids s) := by
  induction ids generalizing s with
  | nil => simp [denseSpec, assign]
  | cons id rest ih =>
    simp only [denseSpec, assign]
    split
    · simp; exact ih _
    · simp; exact List.Sublist.cons _ (ih _)

theorem assign_news_nodup (ids : List ObjId) (s : Nat) : ((assign ids s).map (·.2)).Nodup := by
  have h : (((assign ids s).map (·.2)).map (·.1)).Nodup := by
    rw [List.map_map]
    have := assign_numbers ids s
    simp only [Function.comp_def] at *
    rw [this]; exact List.nodup_range'
  exact List.Pairwise.of_map (·.1) (fun a b hab e => hab (by rw [e])) h

theorem denseSpec_news_nodup (ids : List ObjId) (s : Nat) : ((denseSpec ids s).map (·.2)).Nodup :=
  ((denseSpec_sublist_assign ids s).map _).nodup (assign_news_nodup ids s)

theorem lookupId_of_mem (m : List (ObjId × ObjId)) (hn : (m.map (·.1)).Nodup) (p : ObjId × ObjId) (hp : p ∈ m) :
    lookupId m p.1 = some p.2 := by
  obtain ⟨v, hv⟩ := lookupId_some m p.1 (List.mem_map_of_mem hp)
  have := eq_of_nodup_map_fst hn (lookupId_mem m p.1 v hv) hp rfl
  rw [hv]; rw [← this]

/-- the renaming of the dense pass maps every old id to its assigned new id -/
theorem rho_assign (ids : List ObjId) (s : Nat) (hn : ids.Nodup) : ∀ p ∈ assign ids s, rhoFn (denseSpec ids s) p.1 = p.2 := by
  intro p hp
  have h1 : ((denseSpec ids s).map (·.1)).Nodup := (denseSpec_olds_sublist ids s).nodup hn
  by_cases hmv : p.1.1 = p.2.1
  · have hpe : p.2 = p.1 := Prod.ext hmv.symm (assign_gen ids s p hp)
    have hasn : ((assign ids s).map (·.1)).Nodup := by rw [assign_olds]; exact hn
    have hko : p.1 ∉ (denseSpec ids s).map (·.1) := by
      intro hm
      obtain ⟨q, hq, hqk⟩ := List.mem_map.mp hm
      have hq' := denseSpec_sub ids s q hq
      have : q = p := eq_of_nodup_map_fst hasn hq'.1 hp hqk
      rw [this] at hq'; exact hq'.2 hmv
    simp [rhoFn, lookupId_none _ _ hko, hpe]
  · have := lookupId_of_mem _ h1 p (denseSpec_mem ids s p hp hmv)
    simp [rhoFn, this]

/-- **C10, renumber_iso when the pages are already in id order (partial: no page reordering).**
For every document with a sorted object map and `start + n - 1 ≤ u32::MAX` (all new ids fit) whose page-order pass is the
identity, `renumber_objects_with(start)` returns a document `d'` and there is a renaming `rho` — the dense
assignment — that is one-to-one on the document's ids, with `trailer' = rename rho trailer`, and the object of
every id `old` found at `rho old`: renamed by `rho` when it is reachable from the new trailer, untouched
otherwise. -/
theorem renumber_iso_noreorder (d : Doc) (start : Nat) (hs : d.objects.Sorted)
    (hno : pagePairs (firstOcc (pageIter d.trailer d.objects)) = none)
    (hhi : start + d.objects.length ≤ U32_MAXE + 1) :
    ∃ d' rho, renumber d start = .ok d' ∧
      (∀ p ∈ assign (sortBy idLeE d.objects.keys) start, rho p.1 = p.2) ∧
      (∀ a b, (d.objects.get a).isSome → (d.objects.get b).isSome → rho a = rho b → a = b) ∧
      d'.trailer = mapRefsD rho d.trailer ∧
      (∀ old o, d.objects.get old = some o →
        (Reach (refsOfD d'.trailer) (fun id => d'.objects.get id) (rho old) → d'.objects.get (rho old) = some (mapRefs rho o)) ∧
        (¬ Reach (refsOfD d'.trailer) (fun id => d'.objects.get id) (rho old) → d'.objects.get (rho old) = some o)) := by
  have hperm := sortBy_perm idLeE d.objects.keys
  have hlen : (sortBy idLeE d.objects.keys).length = d.objects.length := by
    rw [hperm.length_eq]; simp [Objects.keys]
  have hn : (sortBy idLeE d.objects.keys).Nodup := hperm.nodup_iff.mpr (Objects.sorted_nodup _ hs)
  have hk : ∀ k, k ∈ sortBy idLeE d.objects.keys ↔ (d.objects.get k).isSome := by
    intro k; rw [hperm.mem_iff]; exact Objects.mem_keys_iff _ _
  generalize hids : sortBy idLeE d.objects.keys = ids at *
  have hpp : pagePass d = d := by unfold pagePass; rw [hno]
  have h1 : ((denseSpec ids start).map (·.1)).Nodup := (denseSpec_olds_sublist ids start).nodup hn
  have hmemid : ∀ p ∈ assign ids start, p.1 ∈ ids := by
    intro p hp; rw [← assign_olds ids start]; exact List.mem_map_of_mem hp
  have h2 : ∀ p ∈ denseSpec ids start, d.objects.get p.1 ≠ none := by
    intro p hp
    have := (hk p.1).mp (hmemid p (denseSpec_sub ids start p hp).1)
    intro e; rw [e] at this; cases this
  have h3 := denseSpec_news_nodup ids start
  have hrho := rho_assign ids start hn
  have h4 : ∀ p ∈ denseSpec ids start, ∀ k, (d.objects.get k).isSome → k ∉ (denseSpec ids start).map (·.1) → p.2 ≠ k := by
    intro p hp k hkk hko e
    have hkid := (hk k).mpr hkk
    rw [← assign_olds ids start] at hkid
    obtain ⟨q, hq, hqk⟩ := List.mem_map.mp hkid
    have hq2 : q.2 = k := by
      by_cases hmv : q.1.1 = q.2.1
      · rw [← hqk]; exact Prod.ext hmv.symm (assign_gen ids start q hq)
      · exact absurd (hqk ▸ List.mem_map_of_mem (denseSpec_mem ids start q hq hmv)) hko
    have hpq := assign_inj ids start p (denseSpec_sub ids start p hp).1 q hq (by rw [e, hq2])
    apply hko; rw [← hqk, ← hpq]; exact List.mem_map_of_mem hp
  obtain ⟨iso1, iso2⟩ := rename_pass_iso_partial d.bookmarks d.objects d.bmTable d.trailer (denseSpec ids start) h1 h2 h3 h4
  have hren : renumber d start = .ok
      { d with trailer := (traverse (renameAct (movePass d.bookmarks d.objects d.bmTable (denseSpec ids start)).replace) d.trailer
                  (movePass d.bookmarks d.objects d.bmTable (denseSpec ids start)).objects).1,
               objects := (traverse (renameAct (movePass d.bookmarks d.objects d.bmTable (denseSpec ids start)).replace) d.trailer
                  (movePass d.bookmarks d.objects d.bmTable (denseSpec ids start)).objects).2.1,
               bmTable := (movePass d.bookmarks d.objects d.bmTable (denseSpec ids start)).bm,
               maxId := start + d.objects.length - 1 } := by
    unfold renumber densePass
    rw [hpp, hids, densePairs_eq _ _ _ (by rw [hlen]; exact hhi)]
    simp only [List.nil_append, hlen]
  refine ⟨_, rhoFn (denseSpec ids start), hren, hrho, ?_, ?_, ?_⟩
  · intro a b ha hb e
    have ha' := (hk a).mpr ha; have hb' := (hk b).mpr hb
    rw [← assign_olds ids start] at ha' hb'
    obtain ⟨p, hp, hpa⟩ := List.mem_map.mp ha'
    obtain ⟨q, hq, hqb⟩ := List.mem_map.mp hb'
    rw [← hpa, ← hqb, hrho p hp, hrho q hq] at e
    have := assign_inj ids start p hp q hq (by rw [e])
    rw [← hpa, ← hqb, this]
  · exact iso1
  · intro old o ho
    have hobj := iso2 old o ho
    simp only
    constructor
    · intro hr
      have hin := (traverse_eq_reach _ _ _ _).mpr hr
      rw [hobj]; simp [hin]
    · intro hr
      have hnin : ¬ _ := fun hin => hr ((traverse_eq_reach _ _ _ _).mp hin)
      rw [hobj]; simp [hnin]

example : pagePairs (firstOcc (pageIter [] [((3, 0), Obj.null), ((7, 0), Obj.null)])) = none ∧
    Objects.Sorted [((3, 0), Obj.null), ((7, 0), Obj.null)] := by
  constructor
  · decide
  · simp [Objects.Sorted, Objects.keys, idLt]

end Lopdf
