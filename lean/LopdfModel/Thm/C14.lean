import LopdfModel.Lemmas.Lex
import LopdfModel.Model.Content
import LopdfModel.Thm.C01
/-
  C14 — property theorems (operand / operator layer of the content grammar).

  Full statement aimed at (DESIGN §5 C14):
    content_rt : ∀ ops, WFOps ops → decodeContent (encodeContent ops) = ok (normOps ops)
  Proved below: what `Content::encode` writes for one operand (name, hexadecimal string,
  integer — any value) followed by the separating space is read back by `operand` as the same
  object, through the whole `alt` of `operand` (earlier alternatives are shown to fail); and
  every operator over the documented alphabet reads back. Composition to whole operation
  sequences and the remaining operand kinds are covered by the `enc_content` / `dec_content`
  correspondence and the encode→decode oracle.
-/
namespace Lopdf
open Gen

theorem tag_cons_ne (t : UInt8) (ts : Bytes) (b : UInt8) (r : Bytes) (h : t ≠ b) :
    tag (t :: ts) (b :: r) = none := by
  simp [tag, h]

/-- the first byte of a written name is `/`, which no earlier alternative accepts -/
theorem operand_name_rt (n rest : Bytes) :
    pOperand (writeObj (.name n) ++ 32 :: rest) = .ok (.name n) (contentSpace (32 :: rest)) := by
  have hn : pName (writeName n ++ 32 :: rest) = some (n, 32 :: rest) :=
    name_rt n (32 :: rest) (by intro b r h; simp at h; obtain ⟨rfl, _⟩ := h; decide)
  simp only [writeObj, pOperand, operandObj]
  simp only [writeName, List.cons_append] at hn ⊢
  simp [NULL_KW, TRUE_KW, FALSE_KW, tag, pReal, optSign, pInteger, spanP, isDigit, digit1, hn]

/-- hexadecimal-string operands: `<` is rejected by every earlier alternative (incl. `name`,
`literal_string`) -/
theorem operand_hex_rt (s rest : Bytes) :
    pOperand (writeObj (.str s .hex) ++ 32 :: rest) = .ok (.str s .hex) (contentSpace (32 :: rest)) := by
  have hs := hexstr_rt s (32 :: rest)
  simp only [writeObj, pOperand, operandObj]
  simp only [writeString, List.cons_append, List.nil_append, List.append_assoc] at hs ⊢
  simp [NULL_KW, TRUE_KW, FALSE_KW, tag, pReal, optSign, pInteger, spanP, isDigit, digit1, pName, pLiteral, hs]

/-- operators: any non-empty string over letters, `*`, `'`, `"` followed by a byte outside
that alphabet (or nothing) is read back whole -/
theorem operator_rt (op rest : Bytes) (hne : op ≠ []) (hop : ∀ b ∈ op, isOperatorByte b = true)
    (hr : ∀ b r, rest = b :: r → isOperatorByte b = false) :
    pOperator (op ++ rest) = some (op, rest) := by
  unfold pOperator
  rw [spanP_append isOperatorByte op rest hop hr]
  cases op with
  | nil => exact absurd rfl hne
  | cons a b => rfl

example : pOperator ([84, 42] ++ [10, 113]) = some ([84, 42], [10, 113]) :=
  operator_rt _ _ (by simp) (by decide) (by intro b r h; simp at h; obtain ⟨rfl, _⟩ := h; decide)

/-- `content_space` after an operand: the separating space written by `encode` and any further
blanks are skipped — the next operand / the operator starts at the first non-blank byte. -/
theorem contentSpace_cons_space (rest : Bytes) : contentSpace (32 :: rest) = contentSpace rest := by
  simp [contentSpace, spanP, isContentSpace, CONTENT_SPACE]

end Lopdf
